/-
C18 — conditional-format rule CONTENTS: what `SetConditionalFormat` stores for one
`ConditionalFormatOptions` (type / criteria validation, the sixteen `drawCondFmt*`
functions) and what `GetConditionalFormats` decodes from it (the `extractCondFmt*`
functions), over the regenerated tables validType, criteriaType, operatorType,
noCriteriaTypes, cellIsCriteriaType, the draw / extract key lists and the icon-set
presets.  Core Lean only.  Not modelled: priority / x14 id numbering (see
`XlModel.CondFmt`), the formulas generated for blanks / errors / text / time-period
rules (never read back), colours that are not 4 or 6 hex digits after upper-casing
and stripping `#` read back as the indexed colour 0 ("000000").
-/
import XlModel.Ref
import XlModel.Generated.FactsC18

namespace XlModel.CfRule
open XlModel

/-- `ConditionalFormatOptions` -/
structure Opts where
  type : List Char
  aboveAverage : Bool
  percent : Bool
  format : Option Int
  criteria : List Char
  value : List Char
  minType : List Char
  midType : List Char
  maxType : List Char
  minValue : List Char
  midValue : List Char
  maxValue : List Char
  minColor : List Char
  midColor : List Char
  maxColor : List Char
  barColor : List Char
  barBorderColor : List Char
  barDirection : List Char
  barOnly : Bool
  barSolid : Bool
  iconStyle : List Char
  reverseIcons : Bool
  iconsOnly : Bool
  stopIfTrue : Bool
  deriving DecidableEq, Repr

def Opts.empty : Opts :=
  ⟨[], false, false, none, [], [], [], [], [], [], [], [], [], [], [], [], [], [], false, false, [], false, false, false⟩

/-- the x14 data-bar extension rule -/
structure BarExt where
  direction : List Char
  gradient : Bool
  border : Option (List Char)
  deriving DecidableEq, Repr

/-- the stored `xlsxCfRule` (fields that are read back) -/
structure XRule where
  type : String
  operator : String
  stopIfTrue : Bool
  dxf : Option Int
  formula : List (List Char)
  text : List Char
  aboveAverage : Option Bool
  percent : Bool
  bottom : Bool
  rank : Int
  cfvo : List (List Char × List Char)
  colors : List (List Char)
  showValue : Option Bool
  iconSet : List Char
  reverse : Bool
  ext : Option BarExt
  deriving DecidableEq, Repr

def XRule.base (t : String) (o : Opts) : XRule :=
  ⟨t, "", o.stopIfTrue, none, [], [], none, false, false, 0, [], [], none, [], false, none⟩

def lookupS (tbl : List (String × String)) (k : List Char) : Option String :=
  tbl.lookup (String.ofList k)

def upperC (c : Char) : Char := if 97 ≤ c.toNat ∧ c.toNat ≤ 122 then Char.ofNat (c.toNat - 32) else c

/-- `getPaletteColor`: "FF" + upper-case with every '#' removed -/
def paletteColor (c : List Char) : List Char := 'F' :: 'F' :: (c.map upperC).filter (· != '#')

/-- `"#" + getThemeColor(&xlsxColor{RGB: rgb})` on a workbook with a theme, no tint -/
def readColor (rgb : List Char) : List Char :=
  let base :=
    if rgb.length == 6 then rgb
    else if rgb.length == 8 then (if rgb.take 2 == ['F', 'F'] then rgb.drop 2 else rgb)
    else "000000".toList
  -- ThemeColor(base, 0) = "FF" + base, then TrimPrefix "FF"
  '#' :: base

def orDefault (v d : List Char) : List Char := if v.isEmpty then d else v

/-- the rule one `draw*` function builds (`none`: the function returns nil → ErrParameterInvalid) -/
def drawRule (vt ct : String) (o : Opts) : Option XRule :=
  if vt = "cellIs" then
    let f1 := if ct = "between" || ct = "notBetween" then [o.minValue, o.maxValue] else []
    let f2 := if Facts.C18.cellIsCriteriaType.contains ct then [o.value] else []
    some { XRule.base "cellIs" o with operator := ct, dxf := o.format, formula := f1 ++ f2 }
  else if vt = "timePeriod" then
    some { XRule.base "timePeriod" o with operator := ct, dxf := o.format }
  else if vt = "text" then
    let t := if ct = "containsText" then "containsText" else if ct = "notContains" then "notContainsText"
      else if ct = "beginsWith" then "beginsWith" else if ct = "endsWith" then "endsWith" else ""
    some { XRule.base t o with operator := ct, dxf := o.format, text := o.value }
  else if vt = "top10" then
    let r : Int := match Ref.atoi o.value with
      | some n => n
      | none => 10
    some { XRule.base "top10" o with dxf := o.format, percent := o.percent, bottom := (o.type == "bottom".toList), rank := r }
  else if vt = "aboveAverage" then
    some { XRule.base "aboveAverage" o with dxf := o.format, aboveAverage := some o.aboveAverage }
  else if vt = "duplicateValues" || vt = "uniqueValues" || vt = "containsBlanks" || vt = "notContainsBlanks" ||
      vt = "containsErrors" || vt = "notContainsErrors" then
    some { XRule.base vt o with dxf := o.format }
  else if vt = "expression" then
    some { XRule.base "expression" o with dxf := o.format, formula := [o.criteria] }
  else if vt = "2_color_scale" || vt = "3_color_scale" then
    let lo := (o.minType, orDefault o.minValue ['0'])
    let hi := (o.maxType, orDefault o.maxValue ['0'])
    let mid := (o.midType, orDefault o.midValue ['5', '0'])
    if vt = "3_color_scale" then
      some { XRule.base "colorScale" o with cfvo := [lo, mid, hi], colors := [paletteColor o.minColor, paletteColor o.midColor, paletteColor o.maxColor] }
    else
      some { XRule.base "colorScale" o with cfvo := [lo, hi], colors := [paletteColor o.minColor, paletteColor o.maxColor] }
  else if vt = "dataBar" then
    let needExt := o.barSolid || o.barDirection == "leftToRight".toList || o.barDirection == "rightToLeft".toList ||
      !o.barBorderColor.isEmpty
    let ext : Option BarExt := if needExt then
        some ⟨o.barDirection, !o.barSolid, if o.barBorderColor.isEmpty then none else some (paletteColor o.barBorderColor)⟩
      else none
    some { XRule.base "dataBar" o with showValue := some (!o.barOnly), cfvo := [(o.minType, o.minValue), (o.maxType, o.maxValue)], colors := [paletteColor o.barColor], ext := ext }
  else if vt = "iconSet" then
    if Facts.C18.condFmtIconSetPresetsKeys.contains (String.ofList o.iconStyle) then
      some { XRule.base "iconSet" o with stopIfTrue := false, showValue := some (!o.iconsOnly), iconSet := o.iconStyle, reverse := o.reverseIcons }
    else none
  else none

/-- `ct, ok = criteriaType[opt.Criteria]`: the empty string when the criteria is not in the map -/
def strOr : Option String → String
  | some c => c
  | none => ""

/-- `SetConditionalFormat` for one option structure: type and criteria checks, then the draw function -/
def setRule (o : Opts) : Option XRule :=
  match lookupS Facts.C18.validType o.type with
  | none => none
  | some vt =>
    let ct := lookupS Facts.C18.criteriaType o.criteria
    if ct.isSome || Facts.C18.noCriteriaTypes.contains vt then
      if Facts.C18.drawContFmtFuncKeys.contains vt then
        drawRule vt (strOr ct) o
      else none
    else none

def opWords (op : String) : List Char :=
  match Facts.C18.operatorType.lookup op with
  | some w => w.toList
  | none => []

/-- `GetConditionalFormats` for one stored rule (`none`: no extract function for its type — the
rule is not listed) -/
def getRule (x : XRule) : Option Opts :=
  if !Facts.C18.extractContFmtFuncKeys.contains x.type then none
  else if x.type = "cellIs" then
    let b := { Opts.empty with format := x.dxf, stopIfTrue := x.stopIfTrue, type := "cell".toList, criteria := opWords x.operator }
    match x.formula with
    | [a, c] => some { b with minValue := a, maxValue := c }
    | a :: _ => some { b with value := a }
    | [] => some b
  else if x.type = "timePeriod" then
    some { Opts.empty with format := x.dxf, stopIfTrue := x.stopIfTrue, type := "time_period".toList, criteria := opWords x.operator }
  else if x.type = "containsText" || x.type = "notContainsText" || x.type = "beginsWith" || x.type = "endsWith" then
    some { Opts.empty with format := x.dxf, stopIfTrue := x.stopIfTrue, type := "text".toList, criteria := opWords x.operator, value := x.text }
  else if x.type = "top10" then
    some { Opts.empty with format := x.dxf, stopIfTrue := x.stopIfTrue, type := (if x.bottom then "bottom" else "top").toList, criteria := ['='], percent := x.percent, value := (toString x.rank).toList }
  else if x.type = "aboveAverage" then
    some { Opts.empty with format := x.dxf, stopIfTrue := x.stopIfTrue, type := "average".toList, criteria := ['='], aboveAverage := match x.aboveAverage with | some b => b | none => false }
  else if x.type = "duplicateValues" then
    some { Opts.empty with format := x.dxf, stopIfTrue := x.stopIfTrue, type := "duplicate".toList, criteria := ['='] }
  else if x.type = "uniqueValues" then
    some { Opts.empty with format := x.dxf, stopIfTrue := x.stopIfTrue, type := "unique".toList, criteria := ['='] }
  else if x.type = "containsBlanks" then some { Opts.empty with format := x.dxf, stopIfTrue := x.stopIfTrue, type := "blanks".toList }
  else if x.type = "notContainsBlanks" then some { Opts.empty with format := x.dxf, stopIfTrue := x.stopIfTrue, type := "no_blanks".toList }
  else if x.type = "containsErrors" then some { Opts.empty with format := x.dxf, stopIfTrue := x.stopIfTrue, type := "errors".toList }
  else if x.type = "notContainsErrors" then some { Opts.empty with format := x.dxf, stopIfTrue := x.stopIfTrue, type := "no_errors".toList }
  else if x.type = "expression" then
    some { Opts.empty with format := x.dxf, stopIfTrue := x.stopIfTrue, type := "formula".toList, criteria := match x.formula with | a :: _ => a | [] => [] }
  else if x.type = "colorScale" then
    let nz (v : List Char) : List Char := if v == ['0'] then [] else v
    let b := { Opts.empty with stopIfTrue := x.stopIfTrue, type := "2_color_scale".toList, criteria := ['='] }
    match x.cfvo, x.colors with
    | [lo, hi], [c0, c1] =>
      some { b with minType := lo.1, minValue := nz lo.2, minColor := readColor c0, maxType := hi.1, maxValue := nz hi.2, maxColor := readColor c1 }
    | [lo, mid, hi], [c0, c1, c2] =>
      some { b with type := "3_color_scale".toList, minType := lo.1, minValue := nz lo.2, minColor := readColor c0, midType := mid.1, midValue := nz mid.2, midColor := readColor c1, maxType := hi.1, maxValue := nz hi.2, maxColor := readColor c2 }
    | _, _ => some b
  else if x.type = "dataBar" then
    let b := { Opts.empty with type := "data_bar".toList, criteria := ['='], stopIfTrue := x.stopIfTrue }
    let b := match x.cfvo, x.colors with
      | [lo, hi], [c] => { b with minType := lo.1, minValue := lo.2, maxType := hi.1, maxValue := hi.2, barColor := readColor c, barOnly := match x.showValue with | some s => !s | none => false }
      | _, _ => b
    match x.ext with
    | none => some b
    | some e => some { b with barDirection := e.direction, barSolid := !e.gradient, barBorderColor := match e.border with | some c => readColor c | none => [] }
  else if x.type = "iconSet" then
    some { Opts.empty with type := "icon_set".toList, iconStyle := x.iconSet, reverseIcons := x.reverse, iconsOnly := match x.showValue with | some s => !s | none => false }
  else none

/-- set one rule, read it back: `none` = rejected, `some none` = accepted but not listed -/
def setGet (o : Opts) : Option (Option Opts) := (setRule o).map getRule

end XlModel.CfRule
