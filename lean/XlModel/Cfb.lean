/-
C13 — compound-file (CFB) container written by crypt.go and the Encrypt /
standardDecrypt framing.

`Impl`  : transcription of `(*cfb).locate`, `writeMSAT`, `writeSectorChains`,
          `writeDirectoryEntry`, `write`, `Encrypt`, `(*encryption).encrypt`,
          `standardDecrypt` (framing only; AES and key derivation are a
          parameter `Cipher`).  Every literal comes from the use site in
          crypt.go through `XlModel.Facts.C13` (regenerated on every run).
`Spec`  : a reference reader written from [MS-CFB] (header → DIFAT → FAT →
          directory → mini FAT → mini stream → streams) and the statement
          "decrypt (encrypt b) = b".

The image is kept at sector granularity (`Sector`): 32-bit table words,
directory entries and data bytes; `render` turns it into the exact byte
sequence that Go produces (used by the correspondence driver only).
Core Lean only (linked into the driver executable).
-/
import XlModel.Basic
import XlModel.Generated.FactsC13

namespace XlModel.Cfb
open XlModel.Facts.C13

/-- a byte (values < 256; data bytes are opaque to every theorem) -/
abbrev Byte := Nat

/-- Go's `x >> n` on a non-negative int -/
@[reducible] def shr (x n : Nat) : Nat := x / 2 ^ n
/-- Go's `x << n` -/
@[reducible] def shl (x n : Nat) : Nat := x * 2 ^ n

/-! ## Impl: locate -/

structure Loc where
  difat : Nat      -- location[1]
  fat : Nat        -- location[2]
  minifat : Nat    -- location[3]
  dir : Nat        -- location[4]
  files : Nat      -- location[5]  (sectors of streams ≥ cutoff)
  mini : Nat       -- location[6]  (64-byte mini sectors)
  total : Nat      -- location[7]  (sectors including the header)
  rootStart : Nat  -- c.sectors[0].start
  rootSize : Nat   -- c.sectors[0].size
deriving Repr, DecidableEq

/-- contribution of one stream to `miniStreamSectorSize` -/
def locMini (size : Nat) : Nat :=
  if size = 0 then 0 else if size < locCutoff then shr (size + locMiniAdd) locMiniShift else 0

/-- contribution of one stream to `FATSectorSize` -/
def locBig (size : Nat) : Nat :=
  if size = 0 then 0 else if size < locCutoff then 0 else shr (size + locSecAdd) locSecShift

def sumMini : List Nat → Nat
  | [] => 0
  | s :: r => locMini s + sumMini r

def sumBig : List Nat → Nat
  | [] => 0
  | s :: r => locBig s + sumBig r

/-- `int(math.Ceil((float64(F) - sub) / div))` — exact for these magnitudes -/
def ceilDivSub (F sub div : Nat) : Nat := (F - sub + (div - 1)) / div

def difatInit (F : Nat) : Nat := if F > locDifatHdr then ceilDivSub F locDifatSub locDifatDiv else 0
def difatLoop (F : Nat) : Nat := if F ≤ locLoopHdr then 0 else ceilDivSub F locLoopSub locLoopDiv

/-- the `for ((sectors + FATSectors + DIFATSectors + 0x7F) >> 7) > FATSectors` loop;
`none` = not finished within the fuel (the model's "does not terminate" outcome) -/
def locLoop (s : Nat) : Nat → Nat → Nat → Option (Nat × Nat)
  | 0, _, _ => none
  | fuel + 1, F, D =>
    if shr (s + F + D + locLoopAdd) locLoopShift > F then locLoop s fuel (F + 1) (difatLoop (F + 1))
    else some (F, D)

/-- sectors other than FAT/DIFAT/header, as computed by `locate` -/
def locSectors (sizes : List Nat) : Nat :=
  shr (sumMini sizes + locMssAdd) locMssShift + sumBig sizes
    + shr (sizes.length + 1 + locDirAdd) locDirShift + shr (sumMini sizes + locMfAdd) locMfShift

/-- `(*cfb).locate` for a root entry followed by streams of the given sizes -/
def locate (sizes : List Nat) : Option Loc :=
  let mini := sumMini sizes
  let files := sumBig sizes
  let dir := shr (sizes.length + 1 + locDirAdd) locDirShift
  let mf := shr (mini + locMfAdd) locMfShift
  let s := locSectors sizes
  let F0 := shr (s + locFatAdd) locFatShift
  match locLoop s (s + 2) F0 (difatInit F0) with
  | none => none
  | some (F, D) =>
    let rootStart := locHeaderSectors + D + F + mf + dir + files
    some { difat := D, fat := F, minifat := mf, dir := dir, files := files, mini := mini,
           total := rootStart + shr (mini + locTotAdd) locTotShift,
           rootStart := rootStart, rootSize := shl mini locRootSizeShift }

/-! ## Impl: tables -/

/-- words written by the closure `writeSectorChain(head, offset)` (its running
index `i` equals `offset` at every call) -/
def chainSeg (head off : Nat) : List Int :=
  (List.range' (off + 1) (head - 1)).map Int.ofNat ++ (if head = 0 then [] else [endOfChain])

def chBig (size : Nat) : Nat :=
  if size = 0 then 0 else if size < chCutoffBig then 0 else shr (size + chSecAdd) chSecShift

def chMini (size : Nat) : Nat :=
  if size = 0 then 0 else if size ≥ chCutoffMini then 0 else shr (size + chMiniAdd) chMiniShift

/-- chains of the streams selected by `cnt` (sector count, 0 = skipped), from `off` -/
def chainWords (cnt : Nat → Nat) : List Nat → Nat → List Int
  | [], _ => []
  | sz :: r, off => chainSeg (cnt sz) off ++ chainWords cnt r (off + cnt sz)

def chainEnd (cnt : Nat → Nat) : List Nat → Nat → Nat
  | [], off => off
  | sz :: r, off => chainEnd cnt r (off + cnt sz)

/-- offset at which each stream's chain starts (meaningful where `cnt sz ≠ 0`) -/
def chainStarts (cnt : Nat → Nat) : List Nat → Nat → List Nat
  | [], _ => []
  | sz :: r, off => off :: chainStarts cnt r (off + cnt sz)

/-- value of `c.sectors[j].start` after `writeSectorChains` -/
def streamStart (sz bigStart miniStart : Nat) : Nat :=
  if chBig sz ≠ 0 then bigStart
  else if chMini sz ≠ 0 then (if chMiniStartStored then miniStart else 0)
  else 0

def zip3Starts : List Nat → List Nat → List Nat → List Nat
  | sz :: r, b :: rb, m :: rm => streamStart sz b m :: zip3Starts r rb rm
  | _, _, _ => []

/-- 32-bit words per sector, from the padding mask of writeSectorChains -/
@[reducible] def wordsPerSec : Nat := (chPadMask + 1) / 4

/-- `for c.position&0x1FF != 0 { c.writeUint32(endOfChain) }` with the position given in words -/
def padWords (posWords : Nat) (w : List Int) : List Int :=
  w ++ List.replicate ((wordsPerSec - (posWords + w.length) % wordsPerSec) % wordsPerSec) endOfChain

def msatEntry (loc : Loc) (i : Nat) : Int := if i < loc.fat then Int.ofNat (loc.difat + i) else -1

/-- header part of `writeMSAT` -/
def msatHead (loc : Loc) : List Int := (List.range msatHdr).map (msatEntry loc)

/-- DIFAT-sector part of `writeMSAT`: `n` remaining iterations, current `offset`, running `i` -/
def msatTail (loc : Loc) : Nat → Nat → Nat → List Int
  | 0, _, _ => []
  | n + 1, offset, i =>
    let hi := msatFirst + offset * msatPer
    (List.range' i (hi - i)).map (msatEntry loc)
      ++ [if offset = loc.difat - 1 then endOfChain else Int.ofNat (offset + 1)]
      ++ msatTail loc n (offset + 1) (max i hi)

def fatBase (loc : Loc) : Nat := loc.difat + loc.fat + loc.minifat + loc.dir

/-- FAT words before padding -/
def fatWords (loc : Loc) (sizes : List Nat) : List Int :=
  List.replicate loc.difat difSect ++ List.replicate loc.fat fatSect
    ++ chainSeg loc.minifat (loc.difat + loc.fat)
    ++ chainSeg loc.dir (loc.difat + loc.fat + loc.minifat)
    ++ chainWords chBig sizes (fatBase loc)
    ++ chainSeg (shr (loc.mini + chMssAdd) chMssShift) (chainEnd chBig sizes (fatBase loc))

def miniFatWords (sizes : List Nat) : List Int := chainWords chMini sizes 0

/-! ## Impl: directory -/

structure DirEnt where
  name : List Char
  typ : Nat
  color : Nat
  left : Int
  right : Int
  child : Int
  start : Int
  size : Nat
deriving Repr, DecidableEq

structure Stream where
  name : List Char
  content : List Byte
deriving Repr, DecidableEq

def rootName : List Char := "Root Entry".toList

def rootEnt (loc : Loc) (n : Nat) : DirEnt :=
  { name := rootName, typ := 5, color := 1, left := -1, right := -1,
    child := if n ≥ 1 then 1 else -1,
    start := if loc.rootSize > 0 then Int.ofNat loc.rootStart - 1 else endOfChain,
    size := loc.rootSize }

/-- entries of the streams; `i` = index of the entry in `c.paths` -/
def streamEnts (npaths : Nat) : Nat → List Stream → List Nat → List DirEnt
  | i, s :: r, st :: rs =>
    { name := s.name, typ := 2, color := 1, left := -1,
      right := if i + 1 < npaths then Int.ofNat (i + 1) else -1, child := -1,
      start := Int.ofNat st, size := s.content.length } :: streamEnts npaths (i + 1) r rs
  | _, _, _ => []

/-! ## Impl: image and write -/

inductive Sector where
  | words (w : List Int)
  | dir (es : List (Option DirEnt))
  | data (b : List Byte)
deriving Repr, DecidableEq

structure Header where
  numFat : Int
  firstDir : Int
  cutoff : Nat
  firstMiniFat : Int
  numMiniFat : Int
  firstDifat : Int
  numDifat : Int
  difat : List Int
deriving Repr, DecidableEq

structure Image where
  hdr : Header
  secs : List Sector
deriving Repr, DecidableEq

def chunksAux {α} (n : Nat) : Nat → List α → List (List α)
  | 0, _ => []
  | f + 1, l => if l.isEmpty then [] else l.take n :: chunksAux n f (l.drop n)

/-- split into pieces of `n` (the last may be shorter) -/
def chunks {α} (n : Nat) (l : List α) : List (List α) := chunksAux n l.length l

def padZero (mask : Nat) (b : List Byte) : List Byte :=
  b ++ List.replicate (((mask + 1) - b.length % (mask + 1)) % (mask + 1)) 0

def Sector.byteLen : Sector → Nat
  | .words w => 4 * w.length
  | .dir es => 128 * es.length
  | .data b => b.length

def secsByteLen : List Sector → Nat
  | [] => 0
  | s :: r => s.byteLen + secsByteLen r

inductive WErr where
  | divergent            -- locate's loop did not finish
  | misplaced (j : Nat)  -- stream j's recorded start is not where the sequential writer is
deriving Repr, DecidableEq

/-- data sectors of the streams ≥ cutoff; each must begin where its directory entry says -/
def bigData : Nat → List Stream → List Nat → List Sector → Except WErr (List Sector)
  | j, s :: r, st :: rs, acc =>
    if s.content.length ≥ wrCutoffBig then
      if st = acc.length then
        bigData (j + 1) r rs (acc ++ (chunks (wrSecMask + 1) (padZero wrSecMask s.content)).map Sector.data)
      else .error (.misplaced j)
    else bigData (j + 1) r rs acc
  | _, _, _, acc => .ok acc

/-- mini stream: contents of the streams below the cutoff, each padded to 64 -/
def miniData : List Stream → List Byte
  | [] => []
  | s :: r =>
    if s.content.length > 0 ∧ s.content.length < wrCutoffMini then padZero wrMiniMask s.content ++ miniData r
    else miniData r

/-- `(*cfb).write` for a root entry plus the given streams (flat names) -/
def write (streams : List Stream) : Except WErr Image :=
  let sizes := streams.map (·.content.length)
  match locate sizes with
  | none => .error .divergent
  | some loc =>
    let starts := zip3Starts sizes (chainStarts chBig sizes (fatBase loc)) (chainStarts chMini sizes 0)
    let tail := msatTail loc loc.difat 0 msatHdr
    let fat := padWords (19 + msatHdr + tail.length) (fatWords loc sizes)
    let mf := padWords (19 + msatHdr + tail.length + fat.length) (miniFatWords sizes)
    let ents := rootEnt loc streams.length :: streamEnts (streams.length + 1) 1 streams starts
    let slots := (List.range (shl loc.dir dirEntShift)).map (fun i => ents[i]?)
    let seq := (chunks wordsPerSec (tail ++ fat ++ mf)).map Sector.words
                 ++ (chunks 4 slots).map Sector.dir
    match bigData 1 streams starts seq with
    | .error e => .error e
    | .ok secs =>
      let md := miniData streams
      let pos := 512 + secsByteLen secs
      let fill := shl loc.total wrLenShift - (pos + md.length)
      let hdr : Header :=
        { numFat := Int.ofNat loc.fat,
          firstDir := Int.ofNat (locHeaderSectors + loc.difat + loc.fat + loc.minifat) - 1,
          cutoff := shl 1 wrCutoffLog,
          firstMiniFat := if loc.minifat ≠ 0 then Int.ofNat (locHeaderSectors + loc.difat + loc.fat) - 1 else endOfChain,
          numMiniFat := Int.ofNat loc.minifat,
          firstDifat := if loc.difat ≠ 0 then Int.ofNat locHeaderSectors - 1 else endOfChain,
          numDifat := Int.ofNat loc.difat,
          difat := msatHead loc }
      .ok { hdr := hdr, secs := secs ++ (chunks 512 (md ++ List.replicate fill 0)).map Sector.data }

/-! ## Spec: reference reader ([MS-CFB] 2.2–2.6) -/

inductive RErr where
  | badSector | cycle | badDifat | badDir | short
deriving Repr, DecidableEq

/-- follow a chain in an allocation table until ENDOFCHAIN -/
def followChain (tbl : List Int) : Nat → Int → Except RErr (List Nat)
  | 0, _ => .error .cycle
  | f + 1, s =>
    if s = -2 then .ok []
    else if s < 0 then .error .badSector
    else match tbl[s.toNat]? with
      | none => .error .badSector
      | some nx => match followChain tbl f nx with
        | .ok r => .ok (s.toNat :: r)
        | .error e => .error e

def secWords (secs : List Sector) (s : Nat) : Except RErr (List Int) :=
  match secs[s]? with
  | some (.words w) => if w.length = 128 then .ok w else .error .badSector
  | _ => .error .badSector

def secDir (secs : List Sector) (s : Nat) : Except RErr (List (Option DirEnt)) :=
  match secs[s]? with
  | some (.dir es) => .ok es
  | _ => .error .badSector

def secData (secs : List Sector) (s : Nat) : Except RErr (List Byte) :=
  match secs[s]? with
  | some (.data b) => .ok b
  | _ => .error .badSector

def mapCat {α β} (f : α → Except RErr (List β)) : List α → Except RErr (List β)
  | [] => .ok []
  | a :: r => match f a, mapCat f r with
    | .ok x, .ok y => .ok (x ++ y)
    | .error e, _ => .error e
    | _, .error e => .error e

/-- DIFAT chain: each DIFAT sector holds 127 FAT sector ids and the id of the next DIFAT sector -/
def readDifat (secs : List Sector) : Nat → Int → Except RErr (List Int)
  | 0, s => if s = -2 then .ok [] else .error .badDifat
  | n + 1, s =>
    if s < 0 then .error .badDifat
    else match secWords secs s.toNat with
      | .error e => .error e
      | .ok w => match readDifat secs n (w.getD 127 (-2)) with
        | .ok r => .ok (w.take 127 ++ r)
        | .error e => .error e

def toIds : List Int → Except RErr (List Nat)
  | [] => .ok []
  | i :: r => if i < 0 then .error .badDifat else match toIds r with
    | .ok x => .ok (i.toNat :: x)
    | .error e => .error e

/-- one mini sector of the mini stream container -/
def miniSector (container : List Byte) (k : Nat) : Except RErr (List Byte) :=
  if 64 * k + 64 ≤ container.length then .ok ((container.drop (64 * k)).take 64) else .error .short

def readStream (secs : List Sector) (fat miniFat : List Int) (container : List Byte) (cutoff : Nat)
    (e : DirEnt) : Except RErr Stream :=
  if e.size = 0 then .ok ⟨e.name, []⟩
  else if e.size < cutoff then
    match followChain miniFat (miniFat.length + 1) e.start with
    | .error x => .error x
    | .ok ids => match mapCat (miniSector container) ids with
      | .error x => .error x
      | .ok b => if e.size ≤ b.length then .ok ⟨e.name, b.take e.size⟩ else .error .short
  else
    match followChain fat (fat.length + 1) e.start with
    | .error x => .error x
    | .ok ids => match mapCat (secData secs) ids with
      | .error x => .error x
      | .ok b => if e.size ≤ b.length then .ok ⟨e.name, b.take e.size⟩ else .error .short

def readStreams (secs : List Sector) (fat miniFat : List Int) (container : List Byte) (cutoff : Nat) :
    List (Option DirEnt) → Except RErr (List Stream)
  | [] => .ok []
  | none :: r => readStreams secs fat miniFat container cutoff r
  | some e :: r =>
    if e.typ = 2 then
      match readStream secs fat miniFat container cutoff e, readStreams secs fat miniFat container cutoff r with
      | .ok s, .ok ss => .ok (s :: ss)
      | .error x, _ => .error x
      | _, .error x => .error x
    else readStreams secs fat miniFat container cutoff r

/-- read every stream of a compound file image -/
def read (img : Image) : Except RErr (List Stream) :=
  let secs := img.secs
  match readDifat secs img.hdr.numDifat.toNat img.hdr.firstDifat with
  | .error e => .error e
  | .ok dtail =>
  match toIds ((img.hdr.difat ++ dtail).take img.hdr.numFat.toNat) with
  | .error e => .error e
  | .ok fatIds =>
  if fatIds.length ≠ img.hdr.numFat.toNat then .error .badDifat else
  match mapCat (secWords secs) fatIds with
  | .error e => .error e
  | .ok fat =>
  match followChain fat (fat.length + 1) img.hdr.firstDir with
  | .error e => .error e
  | .ok dirIds =>
  match mapCat (secDir secs) dirIds with
  | .error e => .error e
  | .ok ents =>
  match followChain fat (fat.length + 1) img.hdr.firstMiniFat with
  | .error e => .error e
  | .ok mfIds =>
  match mapCat (secWords secs) mfIds with
  | .error e => .error e
  | .ok miniFat =>
  match ents with
  | some root :: rest =>
    if root.typ ≠ 5 then .error .badDir else
    let cont : Except RErr (List Byte) :=
      if root.size = 0 then .ok []
      else match followChain fat (fat.length + 1) root.start with
        | .error e => .error e
        | .ok ids => match mapCat (secData secs) ids with
          | .error e => .error e
          | .ok b => if root.size ≤ b.length then .ok (b.take root.size) else .error .short
    match cont with
    | .error e => .error e
    | .ok container => readStreams secs fat miniFat container img.hdr.cutoff rest
  | _ => .error .badDir

/-! ## Impl: Encrypt / standardDecrypt framing (cipher abstract) -/

structure Cipher where
  enc : List Byte → List Byte   -- one 16-byte block under the derived key
  dec : List Byte → List Byte

def le64 (n : Nat) : List Byte := (List.range 8).map (fun i => n / 256 ^ i % 256)

def unle64 : List Byte → Nat
  | [] => 0
  | b :: r => b + 256 * unle64 r

/-- `(*encryption).encrypt`: pad the last block with zeros, ECB -/
def encryptBlocks (c : Cipher) : Nat → List Byte → List Byte
  | 0, _ => []
  | f + 1, l =>
    if l.isEmpty then []
    else
      let chunk := l.take encBlock
      c.enc (chunk ++ List.replicate (encBlock - chunk.length) 0) ++ encryptBlocks c f (l.drop encBlock)

/-- the EncryptedPackage stream built by `Encrypt` -/
def encryptedPackage (c : Cipher) (raw : List Byte) : List Byte :=
  (le64 raw.length).take encPrefix ++ encryptBlocks c raw.length raw

inductive DOut where
  | ok (b : List Byte)
  | err
  | panic
deriving Repr, DecidableEq

def decryptBlocks (c : Cipher) : Nat → List Byte → Option (List Byte)
  | 0, _ => some []
  | f + 1, x =>
    if x.isEmpty then some []
    else if (x.take decBlock).length < decBlock then none       -- x[bs:be] out of range
    else match decryptBlocks c f (x.drop decBlock) with
      | some r => some (c.dec (x.take decBlock) ++ r)
      | none => none

/-- the package part of `standardDecrypt` -/
def standardDecryptPkg (c : Cipher) (pkg : List Byte) : DOut :=
  if pkg.length < decOffset then .err          -- len(encryptedPackageBuf) < 8: ErrWorkbookFileFormat
  else match decryptBlocks c pkg.length (pkg.drop decOffset) with
    | none => .err                            -- len(x) % aes.BlockSize != 0: ErrWorkbookFileFormat
    | some d =>
      if decTruncates then
        let size := unle64 (pkg.take decPrefix)
        if size < d.length then .ok (d.take size) else .ok d
      else .ok d

def infoName : List Char := "EncryptionInfo".toList
def pkgName : List Char := "EncryptedPackage".toList

/-- `Encrypt` after key derivation: the compound file holding both streams -/
def encryptFile (c : Cipher) (info raw : List Byte) : Except WErr Image :=
  write [⟨infoName, info⟩, ⟨pkgName, encryptedPackage c raw⟩]

def findStream (n : List Char) : List Stream → List Byte
  | [] => []
  | s :: r => if s.name = n then s.content else findStream n r

/-- `Decrypt` for the standard mechanism (`isStd` = `encryptionMechanism` of the info stream) -/
def decryptFile (c : Cipher) (isStd : List Byte → Bool) (img : Image) : DOut :=
  match read img with
  | .error _ => .err
  | .ok ss =>
    let info := findStream infoName ss
    if isStd info then standardDecryptPkg c (findStream pkgName ss) else .err

/-! ## rendering to bytes (driver only; no theorem depends on it) -/

def u16 (n : Nat) : List Byte := [n % 256, n / 256 % 256]
def u32 (i : Int) : List Byte :=
  let n := (i % 4294967296).toNat
  [n % 256, n / 256 % 256, n / 65536 % 256, n / 16777216 % 256]

def renderEnt : Option DirEnt → List Byte
  | none => (List.replicate 17 (u32 0)).flatten ++ (List.replicate 3 (u32 (-1))).flatten ++ (List.replicate 12 (u32 0)).flatten
  | some e =>
    let nm := (e.name.flatMap fun ch => [ch.toNat % 256, ch.toNat / 256 % 256])
    nm ++ List.replicate (64 - nm.length) 0 ++ u16 (2 * (e.name.length + 1)) ++ [e.typ, e.color]
      ++ u32 e.left ++ u32 e.right ++ u32 e.child ++ List.replicate 16 0 ++ u32 0
      ++ List.replicate 16 0 ++ u32 e.start ++ u32 (Int.ofNat e.size) ++ u32 0

def renderSector : Sector → List Byte
  | .words w => w.flatMap u32
  | .dir es => es.flatMap renderEnt
  | .data b => b

def renderHeader (h : Header) : List Byte :=
  oleIdentifier ++ List.replicate 16 0 ++ u16 wrMinor ++ u16 wrMajor ++ u16 wrByteOrder
    ++ u16 wrSecShiftField ++ u16 wrMiniShiftField ++ List.replicate wrReserved 0
    ++ u32 h.numFat ++ u32 h.firstDir ++ u32 0 ++ u32 (Int.ofNat h.cutoff) ++ u32 h.firstMiniFat
    ++ u32 h.numMiniFat ++ u32 h.firstDifat ++ u32 h.numDifat ++ h.difat.flatMap u32

def render (img : Image) : List Byte := renderHeader img.hdr ++ img.secs.flatMap renderSector

end XlModel.Cfb
