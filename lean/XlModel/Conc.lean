import XlModel.Generated.FactsC15
/-!
# Conc — the lock protocol of the functions documented as concurrency safe (C15)

Core Lean only.  Three layers:

* a generic interleaving semantics of threads that are lists of atomic actions
  `acq l | rel l | rd x | wr x` over non-reentrant mutexes (`Sys`, `Step`,
  `Reach`), with the executable per-thread checks `okOrder` (locks are taken in
  strictly increasing rank, only held locks are released, nothing is held at
  the end) and `okGuard` (every access to a checked location happens while its
  guard is held);
* `Impl`: the action list of every Go function, *computed* from the regenerated
  lock skeletons `XlModel.Facts.C15.skeletons` by flattening (every branch is
  taken in sequence, calls are inlined to a fixed depth, closures are bound to
  the `fn(...)` call of the callee, deferred unlocks are run at the end);
* `Spec`: sequential last-writer-wins cell store and the witness search that
  explains a final state of a concurrent run by one sequential order.
-/
namespace XlModel.Conc

/-! ## generic semantics -/

inductive Action (L X : Type) where
  | acq (l : L) | rel (l : L) | rd (x : X) | wr (x : X)
  deriving DecidableEq, Repr

/-- one thread: the locks it holds and the actions it still has to perform -/
structure TState (L X : Type) where
  held : List L
  rest : List (Action L X)

abbrev Sys (L X : Type) := List (TState L X)

variable {L X : Type} [DecidableEq L] [DecidableEq X]

/-- nobody holds `l` -/
def Free (s : Sys L X) (l : L) : Prop := ∀ t ∈ s, l ∉ t.held

/-- one atomic step of one thread.  `acq` needs the mutex to be free (Go mutexes
are not reentrant: a thread re-acquiring its own lock blocks for ever); `rel`
needs the lock to be held by the releasing thread (we never model the
hand-over of a locked mutex between goroutines: the code does not do it). -/
inductive Step : Sys L X → Sys L X → Prop where
  | acq (pre post : Sys L X) (h : List L) (l : L) (r : List (Action L X)) :
      Free (pre ++ ⟨h, .acq l :: r⟩ :: post) l →
      Step (pre ++ ⟨h, .acq l :: r⟩ :: post) (pre ++ ⟨l :: h, r⟩ :: post)
  | rel (pre post : Sys L X) (h : List L) (l : L) (r : List (Action L X)) :
      l ∈ h →
      Step (pre ++ ⟨h, .rel l :: r⟩ :: post) (pre ++ ⟨h.erase l, r⟩ :: post)
  | rd (pre post : Sys L X) (h : List L) (x : X) (r : List (Action L X)) :
      Step (pre ++ ⟨h, .rd x :: r⟩ :: post) (pre ++ ⟨h, r⟩ :: post)
  | wr (pre post : Sys L X) (h : List L) (x : X) (r : List (Action L X)) :
      Step (pre ++ ⟨h, .wr x :: r⟩ :: post) (pre ++ ⟨h, r⟩ :: post)

inductive Reach : Sys L X → Sys L X → Prop where
  | refl (s : Sys L X) : Reach s s
  | step {s t u : Sys L X} : Reach s t → Step t u → Reach s u

/-- initial system: nobody holds anything -/
def initSys (progs : List (List (Action L X))) : Sys L X := progs.map fun p => ⟨[], p⟩

def Finished (s : Sys L X) : Prop := ∀ t ∈ s, t.rest = []

/-- does this action touch `x`, and is it a write? -/
def Action.touches : Action L X → X → Bool
  | .rd y, x => decide (y = x)
  | .wr y, x => decide (y = x)
  | _, _ => false

def Action.isWrite : Action L X → Bool
  | .wr _ => true
  | _ => false

/-- a data race on `x`: two different threads are both about to access `x`
(no synchronisation between the two accesses) and one of them writes. -/
def RaceOn (s : Sys L X) (x : X) : Prop :=
  ∃ (pre mid post : Sys L X) (t u : TState L X) (a b : Action L X) (ra rb : List (Action L X)),
    s = pre ++ t :: mid ++ u :: post ∧ t.rest = a :: ra ∧ u.rest = b :: rb ∧
    a.touches x = true ∧ b.touches x = true ∧ (a.isWrite || b.isWrite) = true

/-! ### executable per-thread checks -/

/-- lock discipline of one thread from a given held set: locks are acquired in
strictly increasing `rank`, only held locks are released; returns the locks held
at the end (`none` = discipline violated). -/
def runOrder (rank : L → Nat) : List L → List (Action L X) → Option (List L)
  | h, [] => some h
  | h, .acq l :: r => if h.all (fun k => rank k < rank l) then runOrder rank (l :: h) r else none
  | h, .rel l :: r => if l ∈ h then runOrder rank (h.erase l) r else none
  | h, .rd _ :: r => runOrder rank h r
  | h, .wr _ :: r => runOrder rank h r

/-- the thread respects the lock order and ends holding nothing -/
def okOrder (rank : L → Nat) (h : List L) (p : List (Action L X)) : Bool :=
  runOrder rank h p == some []

/-- every access to a location selected by `chk` happens while `guard` of it is held -/
def okGuard (guard : X → Option L) (chk : X → Bool) : List L → List (Action L X) → Bool
  | _, [] => true
  | h, .acq l :: r => okGuard guard chk (l :: h) r
  | h, .rel l :: r => okGuard guard chk (h.erase l) r
  | h, .rd x :: r => (!chk x || (match guard x with | some g => decide (g ∈ h) | none => false)) && okGuard guard chk h r
  | h, .wr x :: r => (!chk x || (match guard x with | some g => decide (g ∈ h) | none => false)) && okGuard guard chk h r

/-! ## Impl: action lists computed from the extracted skeletons -/

/-- a location class: (class of the object, field) — e.g. `("Ws","SheetData")` -/
abbrev Loc := String × String
abbrev Act := Action String Loc
/-- skeleton event: (kind, argument, second argument, inside-a-returning-branch) -/
abbrev Ev := String × String × String × Bool

/-- flatten one skeleton: `call` inlines the callee (through `rec`), `callcb`
inlines the callee with the closure bound, `param` runs the bound closure;
an `unlock` inside a returning branch releases the lock for that branch only
(the main path keeps it) unless the lock was itself taken inside a returning
branch (`xl`); deferred unlocks run last in LIFO order. -/
def flatEvs (maps : Bool) (rec : Option String → String → List Act) (cb : Option String) :
    List Ev → List String → List String → List Act
  | [], defers, _ => defers.map .rel
  | (k, a, b, ex) :: r, defers, xl =>
    if k = "lock" then .acq a :: flatEvs maps rec cb r defers (if ex then a :: xl else xl)
    else if k = "unlock" then
      (if ex && !xl.contains a then flatEvs maps rec cb r defers xl
       else .rel a :: flatEvs maps rec cb r defers (xl.erase a))
    else if k = "defer" then flatEvs maps rec cb r (a :: defers) (xl.erase a)
    else if k = "call" then rec none a ++ flatEvs maps rec cb r defers xl
    else if k = "callcb" then rec (some b) a ++ flatEvs maps rec cb r defers xl
    else if k = "param" then (match cb with | some c => rec none c | none => []) ++ flatEvs maps rec cb r defers xl
    else if k = "mcall" then (if maps then rec none a else []) ++ flatEvs maps rec cb r defers xl
    else if k = "mrd" then (if maps then .rd (a, b) :: flatEvs maps rec cb r defers xl else flatEvs maps rec cb r defers xl)
    else if k = "mwr" then (if maps then .wr (a, b) :: flatEvs maps rec cb r defers xl else flatEvs maps rec cb r defers xl)
    else if k = "rd" then .rd (a, b) :: flatEvs maps rec cb r defers xl
    else if k = "wr" then .wr (a, b) :: flatEvs maps rec cb r defers xl
    else flatEvs maps rec cb r defers xl

/-- marker for "inlining depth exhausted": an unguardable write, so that no
check can pass by truncation -/
def fuelMark : Act := .wr ("?fuel", "")

def flatFn (maps : Bool) (tbl : List (String × List Ev)) : Nat → Option String → String → List Act
  | 0, _, _ => [fuelMark]
  | n + 1, cb, fn =>
    match tbl.lookup fn with
    | none => []
    | some evs =>
      -- a directly self-recursive call adds no new events: it is not inlined again
      flatEvs maps (fun c g => if g = fn then [] else flatFn maps tbl n c g) cb evs [] []

def depth : Nat := 16

/-- the thread that calls `fn` once -/
def Impl.trace (fn : String) : List Act := flatFn false Facts.C15.skeletons depth none fn

/-- the same call with the operations on the `sync.Map` fields of `File` (and the helpers that
only perform such operations) included: used by the check-then-act analysis only -/
def Impl.traceM (fn : String) : List Act := flatFn true Facts.C15.skeletons depth none fn

/-- every return leaves no *non-deferred* lock behind: walking the skeleton, at a
`ret` inside a returning branch the explicitly locked, not yet released locks of
the main path must all have been released inside the branch (`loc`); at the
final `ret` nothing may be left.  `xl` = locks taken inside a returning branch. -/
def exitsBalanced : List String → List String → List String → List Ev → Bool
  | held, _, _, [] => held.isEmpty
  | held, loc, xl, (k, a, _, ex) :: r =>
    if k = "lock" then exitsBalanced (a :: held) loc (if ex then a :: xl else xl) r
    else if k = "defer" then exitsBalanced (held.erase a) loc (xl.erase a) r
    else if k = "unlock" then
      (if ex && !xl.contains a then exitsBalanced held (a :: loc) xl r
       else exitsBalanced (held.erase a) loc (xl.erase a) r)
    else if k = "ret" then
      (if ex then (held.all (fun l => loc.contains l)) && exitsBalanced held [] xl r
       else held.isEmpty && exitsBalanced held [] xl r)
    else exitsBalanced held loc xl r

/-- which mutex class protects the fields of which object class (`none`: the
class has no protecting mutex in the code — workbook properties) -/
def guardOfClass : String → Option String
  | "Ws" => some "Ws"
  | "Styles" => some "Styles"
  | "Sst" => some "Sst"
  | "File" => some "File"
  | "Rels" => some "Rels"
  | "ContentTypes" => some "ContentTypes"
  | "Drawing" => some "Drawing"
  | "CalcChain" => some "File"
  | _ => none

/-- flattening keeps a lock that is released only inside a returning branch, so
inside such a branch, after the branch-local unlock of `m`, there must be no
access to a location guarded by `m`, no call and no further lock (they would be
reported as happening under `m`). -/
def noAccessAfterExitUnlock : List String → List String → List Ev → Bool
  | _, _, [] => true
  | unl, xl, (k, a, _, ex) :: r =>
    if !ex then noAccessAfterExitUnlock [] xl r
    else if k = "lock" then
      (if unl.isEmpty then noAccessAfterExitUnlock unl (a :: xl) r else false)
    else if k = "unlock" then
      (if xl.contains a then noAccessAfterExitUnlock unl (xl.erase a) r
       else noAccessAfterExitUnlock (a :: unl) xl r)
    else if k = "ret" then noAccessAfterExitUnlock [] xl r
    else if (k = "rd" || k = "wr") && (match guardOfClass a with | some g => unl.contains g | none => false) then false
    else if !unl.isEmpty && (k = "call" || k = "callcb" || k = "param") then false
    else noAccessAfterExitUnlock unl xl r

/-! ### the hand-written part: lock ranks and the guarded-by table -/

/-- lock order: worksheet → drawing → style sheet → file → shared strings → content types → relationships -/
def rank : String → Nat
  | "Ws" => 1
  | "Drawing" => 2
  | "Styles" => 3
  | "File" => 4
  | "Sst" => 5
  | "ContentTypes" => 6
  | "Rels" => 7
  | _ => 0

/-- which mutex is meant to protect which location class: the mutex of the
object the field belongs to -/
def guardOf (x : Loc) : Option String := guardOfClass x.1

def Impl.ordered (fn : String) : Bool := okOrder rank [] (Impl.trace fn)

def Impl.guardedOn (chk : Loc → Bool) (fn : String) : Bool := okGuard guardOf chk [] (Impl.trace fn)

/-- accesses of a trace with "was the guard held" -/
def accesses : List String → List Act → List (Loc × Bool × Bool)
  | _, [] => []
  | h, .acq l :: r => accesses (l :: h) r
  | h, .rel l :: r => accesses (h.erase l) r
  | h, .rd x :: r => (x, false, (match guardOf x with | some g => h.contains g | none => false)) :: accesses h r
  | h, .wr x :: r => (x, true, (match guardOf x with | some g => h.contains g | none => false)) :: accesses h r

/-- does the model predict that `f` and `g`, run concurrently, can race on `x`?
(both access `x`, one writes, and at least one of the two accesses is made
without the guard of `x`) -/
def Impl.predictsRace (x : Loc) (f g : String) : Bool :=
  let af := (accesses [] (Impl.trace f)).filter (fun a => a.1 = x)
  let ag := (accesses [] (Impl.trace g)).filter (fun a => a.1 = x)
  af.any fun a => ag.any fun b => (a.2.1 || b.2.1) && (!a.2.2 || !b.2.2)

/-- locations a function touches without their guard -/
def Impl.unguarded (fn : String) : List Loc :=
  ((accesses [] (Impl.trace fn)).filter (fun a => !a.2.2)).map (·.1) |>.eraseDups

/-- which (load site, store site) pairs on one `sync.Map` form a check-then-act idiom: the same
function ("load or create"), or a scan in a helper whose result decides the store -/
def relatedSites (l s : String) : Bool :=
  l == s ||
  [("readXML", "readBytes"), ("countMedia", "addMedia"), ("countDrawings", "drawingLoader"),
   ("relsReader", "addRels"), ("drawingParser", "addDrawingPicture"),
   ("drawingLoader", "addDrawingPicture")].contains (l, s)

/-- check-then-act instances on the `sync.Map` fields of `File`: every `Store`/`Delete` on a map
paired with the NEAREST preceding related `Load`/`Range` on the same map in the same call, and
the locks held CONTINUOUSLY from that load to the store.  Rows: (map, function of the load,
function of the store, common locks).  `pend` = loads seen so far (most recent first) with the
locks held ever since. -/
def mapPairs (maps : List String) :
    List String → List (Loc × List String) → List Act → List (String × String × String × List String)
  | _, _, [] => []
  | h, pend, .acq l :: r => mapPairs maps (l :: h) pend r
  | h, pend, .rel l :: r => mapPairs maps (h.erase l) (pend.map fun p => (p.1, p.2.erase l)) r
  | h, pend, .rd x :: r =>
    -- only the most recent load of a (map, site) is kept: `pend` stays small
    if maps.contains x.1 then mapPairs maps h ((x, h) :: pend.filter (fun p => p.1 != x)) r else mapPairs maps h pend r
  | h, pend, .wr x :: r =>
    if maps.contains x.1 then
      (match pend.find? (fun p => p.1.1 == x.1 && relatedSites p.1.2 x.2) with
       | some p => [(x.1, p.1.2, x.2, p.2)]
       | none => []) ++ mapPairs maps h pend r
    else mapPairs maps h pend r

/-! ## Spec: sequential cell store and witness search for linearizability -/

/-- a write: (key, value); keys and values are numbers chosen by the harness (two
writes leaving the same observation on a key carry the same value number) -/
abbrev Write := Nat × Nat

/-- sequential execution: last writer wins -/
def Spec.exec (st : List (Nat × Nat)) : List Write → List (Nat × Nat)
  | [] => st
  | (c, v) :: r => Spec.exec ((c, v) :: st.filter (fun p => p.1 != c)) r

def Spec.get (st : List (Nat × Nat)) (c : Nat) : Option Nat := (st.find? (fun p => p.1 == c)).map (·.2)

/-- does another thread than `i` still have a write to `c` with a value other than `v`? -/
def pendingOther (progs : List (List Write)) (i : Nat) (c v : Nat) : Bool :=
  (List.zip (List.range progs.length) progs).any fun (j, p) =>
    j != i && p.any (fun w => w.1 == c && w.2 != v)

/-- greedy topological scheduling: a thread's next write `(c,v)` may be
scheduled unless it is that thread's last write to `c`, `v` is the *final* value
of `c`, and other threads still have writes of other values to `c` pending (the
overall last write to `c` must carry the final value).  Returns the sequential
order found (fuel = total number of writes). -/
def Spec.schedule (final : List (Nat × Nat)) : Nat → List (List Write) → Option (List Write)
  | 0, progs => if progs.all (·.isEmpty) then some [] else none
  | n + 1, progs =>
    if progs.all (·.isEmpty) then some [] else
    let idx := (List.range progs.length).find? fun i =>
      match progs[i]? with
      | some ((c, v) :: rest) =>
        rest.any (fun w => w.1 == c) || !(Spec.get final c == some v) || !pendingOther progs i c v
      | _ => false
    match idx with
    | none => none
    | some i =>
      match progs[i]? with
      | some (w :: rest) => (Spec.schedule final n (progs.set i rest)).map (w :: ·)
      | _ => none

/-- `order` is an interleaving of `progs` (program order of every thread kept) -/
def isInterleaving : List (List Write) → List Write → Bool
  | progs, [] => progs.all (·.isEmpty)
  | progs, w :: r =>
    (List.range progs.length).any fun i =>
      match progs[i]? with
      | some (w' :: rest) => w' == w && isInterleaving (progs.set i rest) r
      | _ => false

/-- the observed final state is explained by the sequential order `order` -/
def Spec.explains (progs : List (List Write)) (final : List (Nat × Nat)) (order : List Write) : Bool :=
  isInterleaving progs order &&
  (let st := Spec.exec [] order
   final.all (fun p => Spec.get st p.1 == some p.2) && st.all (fun p => Spec.get final p.1 == some p.2))

end XlModel.Conc
