/-
C18 — the list semantics of conditional formats on one worksheet (styles.go
SetConditionalFormat, UnsetConditionalFormat, GetConditionalFormats), as repaired:
a worksheet holds a list of blocks (one per accepted SetConditionalFormat call:
its range text and the priorities of its rules); new rules are numbered after the
highest priority in use; unset removes every block of exactly that range; the
getter is keyed by range and concatenates the rules of all its blocks.
Rule contents are not modelled here (oracle only). Core Lean only.
-/
import XlModel.Basic

namespace XlModel.CondFmt
open XlModel

structure Block where
  sqref : List Char
  prios : List Nat
  deriving DecidableEq, Repr

abbrev Sheet := List Block

def allPrios (s : Sheet) : List Nat := s.flatMap (·.prios)

/-- the loop at the top of `SetConditionalFormat`: highest priority in use (0 if none) -/
def maxPrio (s : Sheet) : Nat := (allPrios s).foldl max 0

/-- `SetConditionalFormat` accepting `n` rules for range `r`: rule `i` gets priority `max + i + 1` -/
def setCF (s : Sheet) (r : List Char) (n : Nat) : Sheet :=
  s ++ [⟨r, (List.range n).map (fun i => maxPrio s + i + 1)⟩]

/-- `UnsetConditionalFormat` -/
def unsetCF (s : Sheet) (r : List Char) : Sheet := s.filter (fun b => b.sqref != r)

/-- `GetConditionalFormats`: number of rules listed under key `r` -/
def count (s : Sheet) (r : List Char) : Nat :=
  ((s.filter (fun b => b.sqref == r)).map (·.prios.length)).sum

/-- is `r` a key of the getter's map? -/
def listed (s : Sheet) (r : List Char) : Bool := s.any (fun b => b.sqref == r)

end XlModel.CondFmt
