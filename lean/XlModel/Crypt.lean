/-
C13 — agile package decryption segment loop and the password → UTF-16LE
conversion (crypt.go: decryptPackage, createIV, standardConvertPasswdToKey /
convertPasswdToKey's encoder).  Core Lean only.

`Impl`: `agileLoop` / `decryptPackageSegs` — the chunks `decryptPackage` takes from the
        EncryptedPackage stream, as (segment index used for the IV, lo, hi) = `input[lo:hi]`;
        `utf16le` — the encoder.
`Spec`: `specSegs` — [MS-OFFCRYPTO] 2.3.4.15: `input[8:]` cut into 4096-byte segments, segment
        `i` decrypted with IV `H(salt ‖ le32 i)`; distinct passwords ↦ distinct encoder outputs.
-/
import XlModel.Basic
import XlModel.Generated.FactsC13

namespace XlModel.Crypt
open XlModel.Facts.C13

abbrev Seg := Nat × Nat × Nat   -- (IV index, lo, hi)

/-- the segment loop of `decryptPackage` over `data := input[offset:]` of length `N`
(`for i, start := 0, 0; start < len(data); i, start = i+1, start+4096`); positions are those in
`input` -/
def agileLoop (N : Nat) : Nat → Nat → Nat → List Seg
  | 0, _, _ => []
  | f + 1, start, i =>
    if start < N then
      let e1 := start + packageEncryptionChunkSize
      let e := if e1 > N then N else e1
      (i, start + packageOffset, e + packageOffset) :: agileLoop N f (start + packageEncryptionChunkSize) (i + 1)
    else []

inductive AOut where
  | ok (segs : List Seg)
  | err
deriving Repr, DecidableEq

def decryptPackageSegs (L : Nat) : AOut :=
  if L < packageOffset then .err
  else .ok (agileLoop (L - packageOffset) (L - packageOffset + 1) 0 0)

/-- what the format prescribes for `N = L - 8` bytes of cipher text -/
def specSegs (N : Nat) : List Seg :=
  (List.range ((N + (packageEncryptionChunkSize - 1)) / packageEncryptionChunkSize)).map fun i =>
    (i, packageOffset + packageEncryptionChunkSize * i,
      packageOffset + min (packageEncryptionChunkSize * (i + 1)) N)

def pad16 (n : Nat) : Nat := n + (16 - n % 16) % 16

def outLen : List Seg → Nat
  | [] => 0
  | (_, lo, hi) :: r => pad16 (hi - lo) + outLen r

/-- number of leading plaintext bytes a CBC decryption of the taken chunks gets right, given the
chunks the format prescribes (`none` = all): a chunk cut short loses its last, partial block -/
def goodPrefix : Nat → List Seg → List Seg → Option Nat
  | _, [], [] => none
  | j, (i, lo, hi) :: r, (i', lo', hi') :: r' =>
    if i = i' ∧ lo = lo' ∧ hi = hi' then goodPrefix (j + 1) r r'
    else if i = i' ∧ lo = lo' then some (packageEncryptionChunkSize * j + (min hi hi' - lo) / 16 * 16)
    else some (packageEncryptionChunkSize * j)
  | j, _, _ => some (packageEncryptionChunkSize * j)

/-! ## agile package: data flow of `decryptPackage` and the encryptor the format prescribes -/

/-- AES-CBC under the package key with the IV of segment `i` (`createIV(i)`), abstract -/
structure Cbc where
  enc : Nat → List Nat → List Nat
  dec : Nat → List Nat → List Nat

/-- zero padding to the 16-byte block (`append(inputChunk, make([]byte, BlockSize-remainder)...)`) -/
def pad16l (x : List Nat) : List Nat := x ++ List.replicate ((16 - x.length % 16) % 16) 0

/-- `decryptPackage`: for each chunk taken by the segment loop, pad, decrypt with IV index `i`, append -/
def decBySegs (c : Cbc) (input : List Nat) : List Seg → List Nat
  | [] => []
  | (i, lo, hi) :: r => c.dec i (pad16l ((input.drop lo).take (hi - lo))) ++ decBySegs c input r

def agileDecryptPkg (c : Cbc) (input : List Nat) : Option (List Nat) :=
  match decryptPackageSegs input.length with
  | .ok segs => some (decBySegs c input segs)
  | .err => none

/-- the same data flow written as a recursion over the remaining cipher text -/
def agileDecData (c : Cbc) : Nat → Nat → List Nat → List Nat
  | 0, _, _ => []
  | f + 1, i, data =>
    if data.isEmpty then []
    else c.dec i (pad16l (data.take packageEncryptionChunkSize))
      ++ agileDecData c f (i + 1) (data.drop packageEncryptionChunkSize)

/-- [MS-OFFCRYPTO] 2.3.4.15 encryptor: 4096-byte plaintext segments, the last padded to the block,
segment `i` encrypted with IV `i` -/
def agileEncData (c : Cbc) : Nat → Nat → List Nat → List Nat
  | 0, _, _ => []
  | f + 1, i, plain =>
    if plain.isEmpty then []
    else c.enc i (pad16l (plain.take packageEncryptionChunkSize))
      ++ agileEncData c f (i + 1) (plain.drop packageEncryptionChunkSize)

def le64n (n : Nat) : List Nat := (List.range 8).map (fun i => n / 256 ^ i % 256)

/-- the EncryptedPackage stream of an agile document -/
def agileEncryptPkg (c : Cbc) (plain : List Nat) : List Nat :=
  le64n plain.length ++ agileEncData c plain.length 0 plain

/-! ## standard encryption: the guards of `Decrypt` / `standardDecrypt` on the EncryptionInfo stream -/

def le16At (b : List Nat) (o : Nat) : Nat := b.getD o 0 + 256 * b.getD (o + 1) 0
def le32At (b : List Nat) (o : Nat) : Nat :=
  b.getD o 0 + 256 * b.getD (o + 1) 0 + 65536 * b.getD (o + 2) 0 + 16777216 * b.getD (o + 3) 0

inductive GOut where
  | ok (alg : Nat) (keyLen : Nat)   -- alg 0 = RC4, 1 = AES; key bytes handed to aes.NewCipher
  | err
  | agile
  | panic
deriving Repr, DecidableEq

/-- a Go slice expression `b[lo:hi]` on a slice of length `len` is in range -/
def sliceOK (lo hi len : Nat) : Bool := lo ≤ hi && hi ≤ len

/-- 0 = RC4, 1 = AES: `_, ok := algIDMap[header.AlgID]` -/
def algOf (algId : Nat) : Nat := if algId = sdAes128 ∨ algId = sdAes192 ∨ algId = sdAes256 then 1 else 0

/-- `map[string]int{"RC4": 60, "AES": 72}[algorithm]` -/
def verifierMin (alg : Nat) : Nat := if alg = 0 then sdVerifierRC4 else sdVerifierAES

/-- end of the last slice `standardEncryptionVerifier` takes for the algorithm -/
def verifierEnd (alg : Nat) : Nat := if alg = 0 then svHashHiRC4 else svHashHiAES

/-- `standardEncryptionVerifier`: every slice it takes from a verifier blob of length `len` -/
def verifierSlicesOK (alg len : Nat) : Bool :=
  sliceOK 0 svSaltSizeHi len && sliceOK svSaltLo svSaltHi len && sliceOK svVerLo svVerHi len
    && sliceOK svHsLo svHsHi len
    && (if alg = 0 then sliceOK svHashLoRC4 svHashHiRC4 len else sliceOK svHashLoAES svHashHiAES len)

/-- `encryptionMechanism` + `standardDecrypt` up to the block loop, on the numbers read from the
stream: `L` = len(EncryptionInfo), version, header size, AlgID, KeySize; which inputs are rejected,
which reach a slice expression that is out of range (panic), which go on to decrypt -/
def guardsCore (L major minor hs algId keyBits pkgLen : Nat) : GOut :=
  if major = 4 ∧ minor = 4 then .agile
  else if ¬ ((2 ≤ major ∧ major ≤ 4) ∧ minor = 2) then .err
  else if L < sdInfoMin ∨ pkgLen < sdPkgMin then .err
  else if ¬ sliceOK sdHsLo sdHsHi L then .panic
  else if hs < sdHdrMin ∨ hs > L - sdHdrBase then .err
  else if ¬ sliceOK sdBlockLo (sdBlockLo2 + hs) L then .panic
  else if ¬ (sliceOK sdAlgLo sdAlgHi hs ∧ sliceOK sdKeyLo sdKeyHi hs ∧ sliceOK sdResLo sdResHi hs
              ∧ sliceOK sdCspLo hs hs) then .panic
  else if ¬ sliceOK (sdRestLo + hs) L L then .panic
  else if L - (sdRestLo + hs) < verifierMin (algOf algId) then .err
  else if ¬ verifierSlicesOK (algOf algId) (L - (sdRestLo + hs)) then .panic
  else if keyBits / 8 > 40 then .err                  -- cbRequiredKeyLength > len(x3), two SHA-1 digests
  else if ¬ sliceOK decOffset pkgLen pkgLen then .panic   -- x := encryptedPackageBuf[8:]
  else if ¬ (keyBits / 8 = 16 ∨ keyBits / 8 = 24 ∨ keyBits / 8 = 32) then .err   -- aes.NewCipher
  else if (pkgLen - decOffset) % decBlock ≠ 0 then .err
  else .ok (algOf algId) (keyBits / 8)

def standardGuards (info : List Nat) (pkgLen : Nat) : GOut :=
  if info.length < 4 then .err
  else guardsCore info.length (le16At info 0) (le16At info 2) (le32At info sdHsLo)
        (le32At info (sdBlockLo + sdAlgLo)) (le32At info (sdBlockLo + sdKeyLo)) pkgLen

/-! ## password → UTF-16LE -/

/-- UTF-16LE code units of one scalar value -/
def utf16Char (c : Char) : List Nat :=
  let n := c.toNat
  if n < 0x10000 then [n % 256, n / 256]
  else
    let v := n - 0x10000
    let hi := 0xD800 + v / 0x400
    let lo := 0xDC00 + v % 0x400
    [hi % 256, hi / 256, lo % 256, lo / 256]

/-- `unicode.UTF16(unicode.LittleEndian, unicode.IgnoreBOM).NewEncoder().Bytes` on valid UTF-8 -/
def utf16le : List Char → List Nat
  | [] => []
  | c :: r => utf16Char c ++ utf16le r

/-! ## key derivation (hash abstract) -/

/-- `createUInt32LEBuffer(i, 4)` -/
def le32b (i : Nat) : List Nat := [i % 256, i / 256 % 256, i / 65536 % 256, i / 16777216 % 256]

/-- the `for i := 0; i < count; i++ { key = hashing(alg, createUInt32LEBuffer(i, 4), key) }` loop -/
def spin (H : List Nat → List Nat) : Nat → Nat → List Nat → List Nat
  | 0, _, key => key
  | n + 1, i, key => spin H n (i + 1) (H (le32b i ++ key))

/-- `hFinal` of `standardConvertPasswdToKey`: H(salt ‖ pw16), `iterCount` rounds, H(key ‖ le32 0) -/
def standardHFinal (H : List Nat → List Nat) (salt pw16 : List Nat) : List Nat :=
  H (spin H iterCount 0 (H (salt ++ pw16)) ++ le32b 0)

/-- `append(standardXORBytes(hFinal, buf[:cbHash]), buf[cbHash:]...)` for `buf = bytes.Repeat({b}, 64)`,
`cbHash = sha1.Size`, on a digest of `cbHash` bytes -/
def xorPad (h : List Nat) (b : Nat) : List Nat := h.map (fun x => Nat.xor x b) ++ List.replicate (64 - 20) b

/-- `standardConvertPasswdToKey` (`none` = ErrWorkbookFileFormat: more key bytes than two digests) -/
def standardKey (H : List Nat → List Nat) (salt pw16 : List Nat) (keyBits : Nat) : Option (List Nat) :=
  let hFinal := standardHFinal H salt pw16
  let x3 := H (xorPad hFinal 0x36) ++ H (xorPad hFinal 0x5c)
  if keyBits / 8 > x3.length then none else some (x3.take (keyBits / 8))

/-- `convertPasswdToKey` (agile): H(salt ‖ pw16), `spinCount` rounds, H(key ‖ blockKey), then cut to
`keyBits/8` bytes or, when shorter, extended by `0x36` zero bytes (as the code does) -/
def agileKey (H : List Nat → List Nat) (salt pw16 blockKey : List Nat) (spinCount keyBits : Nat) : List Nat :=
  let key := H (spin H spinCount 0 (H (salt ++ pw16)) ++ blockKey)
  if key.length < keyBits / 8 then key ++ List.replicate 0x36 0
  else if key.length > keyBits / 8 then key.take (keyBits / 8)
  else key

/-- [MS-OFFCRYPTO] 2.3.4.7 / 2.3.4.11 as a composition: H₀ = H(salt ‖ pw), Hₙ = H(le32(n−1) ‖ Hₙ₋₁) -/
def specIterate (H : List Nat → List Nat) (count : Nat) (h0 : List Nat) : List Nat :=
  (List.range count).foldl (fun k i => H (le32b i ++ k)) h0

/-! ## OpenReader: which failures map to which error, and when content is returned -/

inductive OpenErr where
  | fileFormat   -- ErrWorkbookFileFormat
  | password     -- ErrWorkbookPassword
  | zipErr       -- the error of zip.NewReader
  | later        -- ReadZipReader / calcChain / sheet map / styles / theme
deriving Repr, DecidableEq

structure OpenIn where
  hasOle : Bool     -- bytes.Contains(b, oleIdentifier)
  decOk : Bool      -- Decrypt returned no error
  zipOk : Bool      -- zip.NewReader accepts the (decrypted) bytes
  pwGiven : Bool    -- len(options.Password) > 0
  readOk : Bool     -- ReadZipReader succeeded
  partsOk : Bool    -- calcChain, sheet map, styles, theme decoded
deriving Repr, DecidableEq

/-- (a *File is returned, error) -/
def openReader (i : OpenIn) : Bool × Option OpenErr :=
  if i.hasOle ∧ ¬ i.decOk then (false, some .fileFormat)
  else if ¬ i.zipOk then (false, some (if i.pwGiven then .password else .zipErr))
  else if ¬ i.readOk then (false, some .later)
  else if ¬ i.partsOk then (true, some .later)
  else (true, none)

end XlModel.Crypt
