/-
C13 — agile package decryption segment loop and the password → UTF-16LE
conversion (crypt.go: decryptPackage, createIV, standardConvertPasswdToKey /
convertPasswdToKey's encoder).  Core Lean only.

`Impl`: `agileLoop` / `decryptPackageSegs` — the chunks `decryptPackage` takes from the
        EncryptedPackage stream, as (segment index used for the IV, lo, hi) = `input[lo:hi]`,
        with the out-of-range slice as an explicit panic outcome; `utf16le` — the encoder.
`Spec`: `specSegs` — [MS-OFFCRYPTO] 2.3.4.15: `input[8:]` cut into 4096-byte segments, segment
        `i` decrypted with IV `H(salt ‖ le32 i)`; distinct passwords ↦ distinct encoder outputs.
-/
import XlModel.Basic
import XlModel.Generated.FactsC13

namespace XlModel.Crypt
open XlModel.Facts.C13

abbrev Seg := Nat × Nat × Nat   -- (IV index, lo, hi)

/-- the `for end < len(input)` loop of `decryptPackage` on a stream of length `L`; `none` = the
slice `input[start+offset : end]` has `start+offset > end` (runtime panic) -/
def agileLoop (L : Nat) : Nat → Nat → Nat → Option (List Seg)
  | 0, _, _ => some []
  | f + 1, e, i =>
    if e < L then
      let start := e
      let e1 := start + packageEncryptionChunkSize
      let e2 := if e1 > L then L else e1
      let lo := start + packageOffset
      let hi := if e2 + packageOffset < L then e2 + packageOffset else e2
      if lo > hi then none
      else match agileLoop L f e2 (i + 1) with
        | some r => some ((i, lo, hi) :: r)
        | none => none
    else some []

inductive AOut where
  | ok (segs : List Seg)
  | err
  | panic
deriving Repr, DecidableEq

def decryptPackageSegs (L : Nat) : AOut :=
  if L < packageOffset then .err
  else match agileLoop L (L + 1) 0 0 with
    | some s => .ok s
    | none => .panic

/-- what the format prescribes for `N = L - 8` bytes of cipher text -/
def specSegs (N : Nat) : List Seg :=
  (List.range ((N + (packageEncryptionChunkSize - 1)) / packageEncryptionChunkSize)).map fun i =>
    (i, packageOffset + packageEncryptionChunkSize * i,
      packageOffset + min (packageEncryptionChunkSize * (i + 1)) N)

def pad16 (n : Nat) : Nat := n + (16 - n % 16) % 16

def outLen : List Seg → Nat
  | [] => 0
  | (_, lo, hi) :: r => pad16 (hi - lo) + outLen r

/-- number of leading plaintext bytes a CBC decryption of the taken chunks gets right, given the
chunks the format prescribes (`none` = all): a chunk cut short loses its last, partial block -/
def goodPrefix : Nat → List Seg → List Seg → Option Nat
  | _, [], [] => none
  | j, (i, lo, hi) :: r, (i', lo', hi') :: r' =>
    if i = i' ∧ lo = lo' ∧ hi = hi' then goodPrefix (j + 1) r r'
    else if i = i' ∧ lo = lo' then some (packageEncryptionChunkSize * j + (min hi hi' - lo) / 16 * 16)
    else some (packageEncryptionChunkSize * j)
  | j, _, _ => some (packageEncryptionChunkSize * j)

/-! ## password → UTF-16LE -/

/-- UTF-16LE code units of one scalar value -/
def utf16Char (c : Char) : List Nat :=
  let n := c.toNat
  if n < 0x10000 then [n % 256, n / 256]
  else
    let v := n - 0x10000
    let hi := 0xD800 + v / 0x400
    let lo := 0xDC00 + v % 0x400
    [hi % 256, hi / 256, lo % 256, lo / 256]

/-- `unicode.UTF16(unicode.LittleEndian, unicode.IgnoreBOM).NewEncoder().Bytes` on valid UTF-8 -/
def utf16le : List Char → List Nat
  | [] => []
  | c :: r => utf16Char c ++ utf16le r

end XlModel.Crypt
