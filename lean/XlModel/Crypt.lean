/-
C13 — agile package decryption segment loop and the password → UTF-16LE
conversion (crypt.go: decryptPackage, createIV, standardConvertPasswdToKey /
convertPasswdToKey's encoder).  Core Lean only.

`Impl`: `agileLoop` / `decryptPackageSegs` — the chunks `decryptPackage` takes from the
        EncryptedPackage stream, as (segment index used for the IV, lo, hi) = `input[lo:hi]`;
        `utf16le` — the encoder.
`Spec`: `specSegs` — [MS-OFFCRYPTO] 2.3.4.15: `input[8:]` cut into 4096-byte segments, segment
        `i` decrypted with IV `H(salt ‖ le32 i)`; distinct passwords ↦ distinct encoder outputs.
-/
import XlModel.Basic
import XlModel.Generated.FactsC13

namespace XlModel.Crypt
open XlModel.Facts.C13

abbrev Seg := Nat × Nat × Nat   -- (IV index, lo, hi)

/-- the segment loop of `decryptPackage` over `data := input[offset:]` of length `N`
(`for i, start := 0, 0; start < len(data); i, start = i+1, start+4096`); positions are those in
`input` -/
def agileLoop (N : Nat) : Nat → Nat → Nat → List Seg
  | 0, _, _ => []
  | f + 1, start, i =>
    if start < N then
      let e1 := start + packageEncryptionChunkSize
      let e := if e1 > N then N else e1
      (i, start + packageOffset, e + packageOffset) :: agileLoop N f (start + packageEncryptionChunkSize) (i + 1)
    else []

inductive AOut where
  | ok (segs : List Seg)
  | err
deriving Repr, DecidableEq

def decryptPackageSegs (L : Nat) : AOut :=
  if L < packageOffset then .err
  else .ok (agileLoop (L - packageOffset) (L - packageOffset + 1) 0 0)

/-- what the format prescribes for `N = L - 8` bytes of cipher text -/
def specSegs (N : Nat) : List Seg :=
  (List.range ((N + (packageEncryptionChunkSize - 1)) / packageEncryptionChunkSize)).map fun i =>
    (i, packageOffset + packageEncryptionChunkSize * i,
      packageOffset + min (packageEncryptionChunkSize * (i + 1)) N)

def pad16 (n : Nat) : Nat := n + (16 - n % 16) % 16

def outLen : List Seg → Nat
  | [] => 0
  | (_, lo, hi) :: r => pad16 (hi - lo) + outLen r

/-- number of leading plaintext bytes a CBC decryption of the taken chunks gets right, given the
chunks the format prescribes (`none` = all): a chunk cut short loses its last, partial block -/
def goodPrefix : Nat → List Seg → List Seg → Option Nat
  | _, [], [] => none
  | j, (i, lo, hi) :: r, (i', lo', hi') :: r' =>
    if i = i' ∧ lo = lo' ∧ hi = hi' then goodPrefix (j + 1) r r'
    else if i = i' ∧ lo = lo' then some (packageEncryptionChunkSize * j + (min hi hi' - lo) / 16 * 16)
    else some (packageEncryptionChunkSize * j)
  | j, _, _ => some (packageEncryptionChunkSize * j)

/-! ## password → UTF-16LE -/

/-- UTF-16LE code units of one scalar value -/
def utf16Char (c : Char) : List Nat :=
  let n := c.toNat
  if n < 0x10000 then [n % 256, n / 256]
  else
    let v := n - 0x10000
    let hi := 0xD800 + v / 0x400
    let lo := 0xDC00 + v % 0x400
    [hi % 256, hi / 256, lo % 256, lo / 256]

/-- `unicode.UTF16(unicode.LittleEndian, unicode.IgnoreBOM).NewEncoder().Bytes` on valid UTF-8 -/
def utf16le : List Char → List Nat
  | [] => []
  | c :: r => utf16Char c ++ utf16le r

end XlModel.Crypt
