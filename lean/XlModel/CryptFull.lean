/-
C13 — `Encrypt` and `Decrypt` end to end (standard mechanism): EncryptionInfo construction
(standardKeyEncryption), key derivation, package framing, compound-file container, and back
through the reference reader, the guards of standardDecrypt, key derivation and the block loop.
Cipher (keyed) and hash are parameters.  Core Lean only.
-/
import XlModel.Cfb
import XlModel.Crypt
import XlModel.Generated.Facts

namespace XlModel.CryptFull
open XlModel XlModel.Cfb XlModel.Crypt XlModel.Facts.C13

/-- little-endian field of `sz` bytes (`writeUint16/32/64`) -/
def leField (sz v : Nat) : List Nat := (List.range sz).map (fun i => v / 256 ^ i % 256)

def fields (fs : List (Nat × Nat)) : List Nat := fs.flatMap (fun f => leField f.1 f.2)

/-- `writeStrings`: UTF-16LE of the (ASCII) provider name -/
def providerBytes : List Nat := skeProvider.toList.flatMap (fun c => [c.toNat % 256, c.toNat / 256])

/-- everything `standardKeyEncryption` writes before the salt -/
def infoPrefix : List Nat := fields skeHead ++ providerBytes ++ fields skeMid

/-- the EncryptionInfo stream: prefix, salt, encrypted verifier, hash size, encrypted verifier hash -/
def assembleInfo (salt ev eh : List Nat) : List Nat := infoPrefix ++ salt ++ ev ++ leField 4 skeHashSize ++ eh

/-- a block cipher for every key (AES under the derived key) -/
abbrev KCipher := List Nat → Cipher

/-- `len(password)`: UTF-8 bytes -/
def utf8Len (pw : List Char) : Nat := (pw.map (fun c => c.utf8Size)).sum

inductive EErr where
  | pwLen       -- ErrPasswordLengthInvalid
  | keyLen      -- derived key shorter than requested (cannot happen for 128 bits and a 20-byte digest)
  | container (e : WErr)
deriving Repr, DecidableEq

/-- `Encrypt(raw, password)` with the random salt and verifier input as arguments -/
def encryptFull (kc : KCipher) (H : List Nat → List Nat) (salt vin : List Nat) (pw : List Char)
    (raw : List Nat) : Except EErr Image :=
  if utf8Len pw = 0 ∨ utf8Len pw > Facts.MaxFieldLength then .error .pwLen
  else match standardKey H salt (utf16le pw) encKeyBits with
    | none => .error .keyLen
    | some k =>
      let c := kc k
      let info := assembleInfo salt (encryptBlocks c vin.length vin) (encryptBlocks c (H vin).length (H vin))
      match write [⟨infoName, info⟩, ⟨pkgName, encryptedPackage c raw⟩] with
      | .ok img => .ok img
      | .error e => .error (.container e)

/-- `Decrypt(file, password)` for the standard mechanism: reference reader, stream lookup, guards of
`encryptionMechanism`/`standardDecrypt`, salt and key size read from the descriptor, key derivation,
block loop and length cut -/
def decryptFull (kc : KCipher) (H : List Nat → List Nat) (img : Image) (pw : List Char) : DOut :=
  match read img with
  | .error _ => .err
  | .ok ss =>
    let info := findStream infoName ss
    let pkg := findStream pkgName ss
    match standardGuards info pkg.length with
    | .ok _ _ =>
      let hs := le32At info sdHsLo
      let salt := (info.drop (sdRestLo + hs + svSaltLo)).take (svSaltHi - svSaltLo)
      match standardKey H salt (utf16le pw) (le32At info (sdBlockLo + sdKeyLo)) with
      | none => .err
      | some k => standardDecryptPkg (kc k) pkg
    | .panic => .panic
    | _ => .err

end XlModel.CryptFull
