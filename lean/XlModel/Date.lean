import XlModel.Basic
import XlModel.Generated.FactsC19
/-
Model for property C19: date/time ↔ Excel serial number.

* `daysFromCivil` / `civilFromDays` — the proleptic Gregorian day arithmetic that
  Go's `time.Date`, `Time.Date()`, `AddDate(0,0,n)` implement (external library:
  modelled, validated by the `civ` transcript op, not verified).
* `Impl.*` — transcription of date.go `timeToExcelTime`, `timeFromExcelTime`,
  `julianDateToGregorianTime`, `shiftJulianToNoon`, `fractionOfADay`,
  `doTheFliegelAndVanFlandernAlgorithm`, `ExcelDateToTime` and cell.go
  `(*xlsxC).setCellTime`, over the constants of `Facts.C19`, in EXACT arithmetic:
  instants are integer nanoseconds since 1970-01-01T00:00:00Z, serial numbers are
  rationals (`Rat`).  float64 rounding inside the Go functions is NOT modelled;
  the theorems take the distance between the stored float and the exact serial
  as a hypothesis and the harness measures it on every case.
* `Spec.*` — Excel's day count (calendar with the fictitious 1900-02-29) by
  plain summation of year and month lengths.

Core Lean only (linked into the driver executable).
-/
namespace XlModel.Date
open XlModel

/-! ## proleptic Gregorian calendar (days since 1970-01-01; `/`, `%` are floor division) -/

def daysFromCivil (y m d : Int) : Int :=
  let y' := if m ≤ 2 then y - 1 else y
  let era := y' / 400
  let yoe := y' - era * 400
  let mp := (m + 9) % 12
  let doy := (153 * mp + 2) / 5 + d - 1
  let doe := yoe * 365 + yoe / 4 - yoe / 100 + doy
  era * 146097 + doe - 719468

/-- year of era (0..399) and day of the March-based year (0..365) from the day of era
(0..146096): the 100-year / 4-year / 1-year cascade Go's `time` package uses
(`absDate`: "cut off 100-year cycles … convert 4 to 3"). -/
def yearOfEra (doe : Int) : Int × Int :=
  let c0 := doe / 36524
  let c := if c0 ≥ 4 then 3 else c0
  let r := doe - 36524 * c
  let q := r / 1461
  let s := r - 1461 * q
  let t0 := s / 365
  let t := if t0 ≥ 4 then 3 else t0
  (100 * c + 4 * q + t, s - 365 * t)

def civilFromDays (z0 : Int) : Int × Int × Int :=
  let z := z0 + 719468
  let era := z / 146097
  let doe := z - era * 146097
  let yd := yearOfEra doe
  let y := yd.1 + era * 400
  let doy := yd.2
  let mp := (5 * doy + 2) / 153
  let d := doy - (153 * mp + 2) / 5 + 1
  let m := if mp < 10 then mp + 3 else mp - 9
  (if m ≤ 2 then y + 1 else y, m, d)

def isLeap (y : Int) : Bool := y % 4 = 0 && (y % 100 ≠ 0 || y % 400 = 0)

def monthLen (y m : Int) : Int :=
  if m = 2 then (if isLeap y then 29 else 28)
  else if m = 4 ∨ m = 6 ∨ m = 9 ∨ m = 11 then 30 else 31

/-- a real calendar date -/
def ValidDate (y m d : Int) : Prop := 1 ≤ m ∧ m ≤ 12 ∧ 1 ≤ d ∧ d ≤ monthLen y m

instance (y m d : Int) : Decidable (ValidDate y m d) := by unfold ValidDate; exact inferInstance

/-- lexicographic order on (year, month, day) -/
def DateLt (a b : Int × Int × Int) : Prop :=
  a.1 < b.1 ∨ (a.1 = b.1 ∧ (a.2.1 < b.2.1 ∨ (a.2.1 = b.2.1 ∧ a.2.2 < b.2.2)))

instance (a b : Int × Int × Int) : Decidable (DateLt a b) := by unfold DateLt; exact inferInstance

/-! ## instants: integer nanoseconds since 1970-01-01T00:00:00Z -/

def nsPerSec : Int := 1000000000
def nsPerDay : Int := 86400 * nsPerSec

/-- a broken-down UTC time as `time.Time`'s accessors report it -/
structure Civil where
  y : Int
  m : Int
  d : Int
  h : Int
  mi : Int
  s : Int
  ns : Int
  deriving DecidableEq, Repr

/-- `time.Date(y, m, d, h, mi, s, ns, time.UTC)`; Go normalises overflowing fields
(hour 24, …) by plain carry, which is what this linear formula does. -/
def instantOf (c : Civil) : Int :=
  (daysFromCivil c.y c.m c.d * 86400 + c.h * 3600 + c.mi * 60 + c.s) * nsPerSec + c.ns

/-- the accessors `Date()`, `Clock()`, `Nanosecond()` of a UTC `time.Time` -/
def civilOf (t : Int) : Civil :=
  let days := t / nsPerDay
  let r := t % nsPerDay
  let (y, m, d) := civilFromDays days
  let sec := r / nsPerSec
  { y := y, m := m, d := d, h := sec / 3600, mi := sec % 3600 / 60, s := sec % 60, ns := r % nsPerSec }

/-- a wall-clock reading to the second: valid calendar date, clock fields in range, no sub-second part -/
def ValidWall (c : Civil) : Prop :=
  ValidDate c.y c.m c.d ∧ 0 ≤ c.h ∧ c.h < 24 ∧ 0 ≤ c.mi ∧ c.mi < 60 ∧ 0 ≤ c.s ∧ c.s < 60 ∧ c.ns = 0

/-- "a later wall-clock time": lexicographic order on (year, month, day, hour, minute, second) -/
def WallLt (a b : Civil) : Prop :=
  DateLt (a.y, a.m, a.d) (b.y, b.m, b.d) ∨
  ((a.y = b.y ∧ a.m = b.m ∧ a.d = b.d) ∧
    (a.h < b.h ∨ (a.h = b.h ∧ (a.mi < b.mi ∨ (a.mi = b.mi ∧ a.s < b.s)))))

def midnight (ymd : Int × Int × Int) : Int := daysFromCivil ymd.1 ymd.2.1 ymd.2.2 * nsPerDay

/-! ## rationals: truncation toward zero (Go's `int(f)`, `math.Modf`, `time.Duration(f)`) -/

def ratTrunc (q : Rat) : Int := if 0 ≤ q then q.floor else - ((-q).floor)

namespace Impl
open Facts.C19

def epoch1900 : Int := midnight excel1900Epoc
def epoch1904 : Int := midnight excel1904Epoc
def minTime1900 : Int := midnight excelMinTime1900
def buggyStart : Int := midnight excelBuggyPeriodStart + excelBuggyPeriodStartAddNs

/-- `time.Duration` limits: `Time.Sub` saturates -/
def maxDur : Int := 9223372036854775807
def minDur : Int := -9223372036854775808

/-- `t.Sub(u)` -/
def satSub (t u : Int) : Int :=
  let d := t - u
  if d > maxDur then maxDur else if d < minDur then minDur else d

/-- the `for diff >= maxDuration` loop of `timeToExcelTime`; `result` counts whole days.
The Go loop has no bound; `fuel` is chosen by the caller and `chunk_loop_exits`
(Lemmas) shows the choice suffices, i.e. the loop exits through its own test. -/
def chunkLoop (date : Int) : Nat → Int → Int → Int → Int × Int
  | 0, _, diff, result => (diff, result)
  | fuel + 1, tt, diff, result =>
    if diff ≥ maxDuration then
      let tt' := tt + (-maxDuration)
      chunkLoop date fuel tt' (satSub tt' date) (result + maxDuration.tdiv dayNanoseconds)
    else (diff, result)

/-- `timeToExcelTime(t, date1904)` in exact arithmetic, scaled by `dayNanoseconds`:
the returned integer `n` stands for the serial number `n / dayNanoseconds`. -/
def timeToExcelTimeNs (t : Int) (date1904 : Bool) : Int :=
  let date := if date1904 then epoch1904 else minTime1900
  if t < date then 0
  else
    let fuel := ((t - date) / maxDuration).toNat + 1
    let (diff, result) := chunkLoop date fuel t (satSub t date) 0
    let rem := diff.tmod dayNanoseconds
    -- result += float64(diff-rem)/float64(dayNanoseconds) + float64(rem)/float64(dayNanoseconds)
    let r := result * dayNanoseconds + (diff - rem) + rem
    if !date1904 && t > buggyStart then r + dayNanoseconds else r

/-- the float64 operations `timeToExcelTime` performs (each one rounds): conversion of an
`int64`/`Duration`/integer constant, addition, division -/
structure FloatOps (F : Type) where
  ofInt : Int → F
  add : F → F → F
  div : F → F → F

/-- the chunk loop with its float64 accumulator `result` (control flow on exact durations, as in Go) -/
def chunkLoopF {F : Type} (ops : FloatOps F) (date : Int) : Nat → Int → Int → F → Int × F
  | 0, _, diff, result => (diff, result)
  | fuel + 1, tt, diff, result =>
    if diff ≥ maxDuration then
      let tt' := tt + (-maxDuration)
      chunkLoopF ops date fuel tt' (satSub tt' date)
        (ops.add result (ops.ofInt (maxDuration.tdiv dayNanoseconds)))
    else (diff, result)

/-- `timeToExcelTime(t, date1904)` with every float64 operation explicit, generic in the carrier:
instantiated with `Float` in the driver (compared bit for bit with Go) and with rounded rationals in
the proofs (`Lemmas/DateFloat.lean`) -/
def timeToExcelTimeF {F : Type} (ops : FloatOps F) (t : Int) (date1904 : Bool) : F :=
  let date := if date1904 then epoch1904 else minTime1900
  if t < date then ops.ofInt 0
  else
    let fuel := ((t - date) / maxDuration).toNat + 1
    let p := chunkLoopF ops date fuel t (satSub t date) (ops.ofInt 0)
    let diff := p.1
    let rem := diff.tmod dayNanoseconds
    let result := ops.add p.2
      (ops.add (ops.div (ops.ofInt (diff - rem)) (ops.ofInt dayNanoseconds))
               (ops.div (ops.ofInt rem) (ops.ofInt dayNanoseconds)))
    if !date1904 && t > buggyStart then ops.add result (ops.ofInt 1) else result

/-- the exact serial number -/
def timeToExcelTime (t : Int) (date1904 : Bool) : Rat :=
  (timeToExcelTimeNs t date1904 : Rat) / (dayNanoseconds : Rat)

inductive Stored where
  | num (serialNs : Int)   -- numeric cell, value serialNs / dayNanoseconds
  | text                   -- RFC3339 text (not a serial number)
  deriving DecidableEq, Repr

/-- `(*xlsxC).setCellTime`: fold the zone offset into the instant, convert, store as a
number unless the folded instant is before the first instant of the date system
(`isNum = !value.Before(firstInstant)`). `utc` is the instant, `offset` the zone offset in seconds. -/
def setCellTime (utc offset : Int) (date1904 : Bool) : Stored :=
  let value := utc + offset * nsPerSec
  let x := timeToExcelTimeNs value date1904
  let firstInstant := if date1904 then epoch1904 else minTime1900
  if ¬ value < firstInstant then .num x else .text

/-- `doTheFliegelAndVanFlandernAlgorithm` (Go integer division truncates toward zero) -/
def fliegel (jd : Int) : Int × Int × Int :=
  let l := jd + 68569
  let n := (4 * l).tdiv 146097
  let l := l - (146097 * n + 3).tdiv 4
  let i := (4000 * (l + 1)).tdiv 1461001
  let l := l - (1461 * i).tdiv 4 + 31
  let j := (80 * l).tdiv 2447
  let d := l - (2447 * j).tdiv 80
  let l := j.tdiv 11
  let m := j + 2 - 12 * l
  let y := 100 * (n - 49) + i + l
  (d, m, y)

/-- `fractionOfADay` (exact arithmetic): hours, minutes, seconds, nanoseconds -/
def fractionOfADay (fraction : Rat) : Int × Int × Int × Int :=
  let frac := ratTrunc ((c1day : Rat) * fraction + ((c1us.tdiv 2 : Int) : Rat))
  let nanoseconds := ((frac.tmod c1s).tdiv c1us) * c1us
  let frac := frac.tdiv c1s
  let seconds := frac.tmod 60
  let frac := frac.tdiv 60
  let minutes := frac.tmod 60
  let hours := frac.tdiv 60
  (hours, minutes, seconds, nanoseconds)

def half : Rat := (1 : Rat) / 2

/-- `shiftJulianToNoon` -/
def shiftJulianToNoon (julianDays : Int) (julianFraction : Rat) : Int × Rat :=
  if -half < julianFraction ∧ julianFraction < half then (julianDays, julianFraction + half)
  else if julianFraction ≥ half then (julianDays + 1, julianFraction - half)
  else if julianFraction ≤ -half then (julianDays - 1, julianFraction + 3 * half)
  else (julianDays, julianFraction)

/-- `julianDateToGregorianTime(part1, part2)`; result as an instant (time.Date normalises) -/
def julianDateToGregorianTime (part1 part2 : Rat) : Int :=
  let part1I := ratTrunc part1
  let part1F := part1 - (part1I : Rat)
  let part2I := ratTrunc part2
  let part2F := part2 - (part2I : Rat)
  let (julianDays, julianFraction) := shiftJulianToNoon (part1I + part2I) (part1F + part2F)
  let (day, month, year) := fliegel julianDays
  let (hours, minutes, seconds, nanoseconds) := fractionOfADay julianFraction
  instantOf { y := year, m := month, d := day, h := hours, mi := minutes, s := seconds, ns := nanoseconds }

/-- `Time.Round(time.Second)` (halfway rounds up) -/
def roundSecond (t : Int) : Int :=
  let r := t % nsPerSec
  if r + r < nsPerSec then t - r else t + (nsPerSec - r)

/-- `Time.Truncate(time.Second)` -/
def truncSecond (t : Int) : Int := t - t % nsPerSec

def mjd0 : Rat := (mjd0Num : Rat) / (mjd0Den : Rat)
def roundEpsilon : Rat := (roundEpsilonNum : Rat) / (roundEpsilonDen : Rat)

/-- `timeFromExcelTime(excelTime, date1904)` in exact arithmetic; result as an instant -/
def timeFromExcelTime (excelTime : Rat) (date1904 : Bool) : Int :=
  let wholeDaysPart := ratTrunc excelTime
  if wholeDaysPart ≤ 61 then
    if date1904 then julianDateToGregorianTime mjd0 (excelTime + (offset1904 : Rat))
    else julianDateToGregorianTime mjd0 (excelTime + (offset1900 : Rat))
  else
    let floatPart := excelTime - (wholeDaysPart : Rat) + roundEpsilon
    let date := if date1904 then epoch1904 else epoch1900
    let durationPart := ratTrunc ((nanosInADay : Rat) * floatPart)
    -- date.AddDate(0, 0, wholeDaysPart).Add(durationPart)
    let date := date + wholeDaysPart * nsPerDay + durationPart
    if (date % nsPerSec) / 1000000 > 500 then roundSecond date else truncSecond date

/-! ### float-level decoder: every float64 operation of `timeFromExcelTime` explicit -/

/-- the further float64 operations the decoder uses: subtraction, multiplication, constants
(converted by the Go compiler: nearest float64 to the exact value), float→int conversion
(truncation toward zero), comparisons -/
structure FloatOps2 (F : Type) extends FloatOps F where
  sub : F → F → F
  mul : F → F → F
  const : Rat → F
  trunc : F → Int
  lt : F → F → Bool
  le : F → F → Bool

/-- `math.Modf` -/
def modfF {F : Type} (ops : FloatOps2 F) (x : F) : F × F :=
  (ops.ofInt (ops.trunc x), ops.sub x (ops.ofInt (ops.trunc x)))

/-- `shiftJulianToNoon` -/
def shiftJulianToNoonF {F : Type} (ops : FloatOps2 F) (julianDays julianFraction : F) : F × F :=
  if ops.lt (ops.const (-half)) julianFraction && ops.lt julianFraction (ops.const half) then
    (julianDays, ops.add julianFraction (ops.const half))
  else if ops.le (ops.const half) julianFraction then
    (ops.add julianDays (ops.ofInt 1), ops.sub julianFraction (ops.const half))
  else if ops.le julianFraction (ops.const (-half)) then
    (ops.sub julianDays (ops.ofInt 1), ops.add julianFraction (ops.const (3 * half)))
  else (julianDays, julianFraction)

/-- `fractionOfADay` -/
def fractionOfADayF {F : Type} (ops : FloatOps2 F) (fraction : F) : Int × Int × Int × Int :=
  let frac := ops.trunc (ops.add (ops.mul (ops.ofInt c1day) fraction) (ops.const ((c1us : Rat) / 2)))
  let nanoseconds := ((frac.tmod c1s).tdiv c1us) * c1us
  let frac := frac.tdiv c1s
  let seconds := frac.tmod 60
  let frac := frac.tdiv 60
  let minutes := frac.tmod 60
  let hours := frac.tdiv 60
  (hours, minutes, seconds, nanoseconds)

/-- `julianDateToGregorianTime` -/
def julianDateToGregorianTimeF {F : Type} (ops : FloatOps2 F) (part1 part2 : F) : Int :=
  let p1 := modfF ops part1
  let p2 := modfF ops part2
  let sh := shiftJulianToNoonF ops (ops.add p1.1 p2.1) (ops.add p1.2 p2.2)
  let dmy := fliegel (ops.trunc sh.1)
  let hms := fractionOfADayF ops sh.2
  instantOf { y := dmy.2.2, m := dmy.2.1, d := dmy.1, h := hms.1, mi := hms.2.1, s := hms.2.2.1, ns := hms.2.2.2 }

/-- `timeFromExcelTime` with every float64 operation explicit, generic in the carrier: instantiated
with `Float` in the driver (op `decf`, compared with Go on arbitrary floats) and with rounded
rationals in the proofs (`Lemmas/DateFloatDec.lean`) -/
def timeFromExcelTimeF {F : Type} (ops : FloatOps2 F) (excelTime : F) (date1904 : Bool) : Int :=
  let wholeDaysPart := ops.trunc excelTime
  if wholeDaysPart ≤ 61 then
    if date1904 then julianDateToGregorianTimeF ops (ops.const mjd0) (ops.add excelTime (ops.ofInt offset1904))
    else julianDateToGregorianTimeF ops (ops.const mjd0) (ops.add excelTime (ops.ofInt offset1900))
  else
    let floatPart := ops.add (ops.sub excelTime (ops.ofInt wholeDaysPart)) (ops.const roundEpsilon)
    let date := if date1904 then epoch1904 else epoch1900
    let durationPart := ops.trunc (ops.mul (ops.ofInt nanosInADay) floatPart)
    let date := date + wholeDaysPart * nsPerDay + durationPart
    if (date % nsPerSec) / 1000000 > 500 then roundSecond date else truncSecond date

/-- `ExcelDateToTime` -/
def excelDateToTime (excelDate : Rat) (use1904 : Bool) : Except Unit Int :=
  if excelDate < 0 then .error () else .ok (timeFromExcelTime excelDate use1904)

/-- `ExcelDateToTime` with the float64 comparison explicit -/
def excelDateToTimeF {F : Type} (ops : FloatOps2 F) (excelDate : F) (use1904 : Bool) : Except Unit Int :=
  if ops.lt excelDate (ops.ofInt 0) then .error () else .ok (timeFromExcelTimeF ops excelDate use1904)

/-! ### glue around `setCellTime`: the workbook's date-system flag and the default style -/

/-- `getTimeNumFmt(t)`: built-in number format chosen for a time value, from its wall clock in its
own zone (`t.AddDate(0, 1, 0)` is `time.Date(y, m+1, d, …)` normalised) -/
def getTimeNumFmt (c : Civil) : Int :=
  let nextMonthDay := (civilFromDays (daysFromCivil c.y (c.m + 1) c.d)).2.2
  if c.d = 1 ∧ nextMonthDay = 1 then 17
  else if c.h = 0 ∧ c.mi = 0 ∧ c.s = 0 ∧ c.ns = 0 then 14
  else 22

/-- what the check observes of a cell style: built-in number format id, whether a custom number
format is attached, and one unrelated attribute (bold) standing for "the rest of the style" -/
structure CellStyle where
  numFmt : Int
  custom : Bool
  bold : Bool
  deriving DecidableEq, Repr

/-- `(*File).setDefaultTimeStyle`: style index 0 (`none`) gets a fresh style with the format;
an existing style is copied with `NumFmt` replaced (`NewStyle` keeps a custom number format) -/
def setDefaultTimeStyle (cur : Option CellStyle) (format : Int) : CellStyle :=
  match cur with
  | none => { numFmt := format, custom := false, bold := false }
  | some st => if st.custom then st else { st with numFmt := format }

/-- `(*File).setCellTimeFunc` as far as C19 is concerned: the date-system flag is read from the
workbook (`wb.WorkbookPr` may be absent: 1900 system), the value is converted with that flag, and
the default date style is applied only when a number was stored -/
def setCellTimeFunc (wbDate1904 : Option Bool) (cur : Option CellStyle) (utc offset : Int) (wall : Civil) :
    Stored × Option CellStyle :=
  let date1904 := match wbDate1904 with
    | some b => b
    | none => false
  match setCellTime utc offset date1904 with
  | .num n => (.num n, some (setDefaultTimeStyle cur (getTimeNumFmt wall)))
  | .text => (.text, cur)

/-! ### `time.Duration` cells -/

/-- exact value of `value.Seconds()/86400` for a duration of `d` nanoseconds -/
def durationSerial (d : Int) : Rat := (d : Rat) / (dayNanoseconds : Rat)

/-- `getDurationNumFmt(d)`: 46 `[h]:mm:ss` from 24 h, 20 `h:mm` for whole minutes, else 21 `h:mm:ss` -/
def getDurationNumFmt (d : Int) : Int :=
  if d ≥ 24 * 3600 * nsPerSec then 46
  else if d.tmod (60 * nsPerSec) = 0 then 20
  else 21

end Impl

namespace Spec

/-- Excel's 1900 calendar treats 1900 as a leap year -/
def excelYearLen (y : Int) : Int := if y = 1900 then 366 else if isLeap y then 366 else 365

def excelMonthLen (y m : Int) : Int := if y = 1900 ∧ m = 2 then 29 else monthLen y m

/-- total length of the `n` Excel years 1900, 1901, …, 1900+n-1 -/
def yearsSum : Nat → Int
  | 0 => 0
  | n + 1 => yearsSum n + excelYearLen (1900 + n)

/-- total length of the first `k` months of Excel year `y` -/
def monthsSum (y : Int) : Nat → Int
  | 0 => 0
  | k + 1 => monthsSum y k + excelMonthLen y (k + 1)

/-- Excel's day count in the 1900 date system: 1900-01-01 is day 1 and the
calendar contains 1900-02-29 (day 60). -/
def excelDayCount (y m d : Int) : Int := yearsSum (y - 1900).toNat + monthsSum y (m - 1).toNat + d

def yearLen (y : Int) : Int := if isLeap y then 366 else 365

def yearsSum1904 : Nat → Int
  | 0 => 0
  | n + 1 => yearsSum1904 n + yearLen (1904 + n)

def monthsSumTrue (y : Int) : Nat → Int
  | 0 => 0
  | k + 1 => monthsSumTrue y k + monthLen y (k + 1)

/-- day count in the 1904 date system: 1904-01-01 is day 0, true Gregorian calendar -/
def dayCount1904 (y m d : Int) : Int := yearsSum1904 (y - 1904).toNat + monthsSumTrue y (m - 1).toNat + d - 1

/-- the serial number Excel assigns to a wall-clock reading, scaled by 86400 (seconds) -/
def serialSeconds (date1904 : Bool) (y m d h mi s : Int) : Int :=
  (if date1904 then dayCount1904 y m d else excelDayCount y m d) * 86400 + h * 3600 + mi * 60 + s

end Spec

/-- the rounding-to-the-second rule of `timeFromExcelTime`'s Gregorian path, applied to a
nanosecond count `n` whose zero is a whole second: more than 500 whole milliseconds round up
(to the nearest second), otherwise truncate -/
def secondRule (n : Int) : Int :=
  if n % 1000000000 / 1000000 > 500 then n - n % 1000000000 + 1000000000 else n - n % 1000000000

/-! ## tolerances (in days) between the stored float64 and the exact serial.
`encTol` is what the harness measures on every stored value; `decTol` is what the
decode theorem assumes.  `encTol < decTol` leaves room for the roundings inside
Go's decoder that the exact model does not have. -/

def pow2 (k : Nat) : Rat := (1 : Rat) / ((2 ^ k : Nat) : Rat)

/-- measured: |stored − exact| ≤ 2⁻⁴⁰ below serial 64 (ulp 2⁻⁴⁷), ≤ 2⁻³⁰ up to 2²² (ulp 2⁻³¹) -/
def encTol (exactSerialNs : Int) : Rat := if exactSerialNs < 64 * nsPerDay then pow2 40 else pow2 30

/-- `setCellDuration` formats with `strconv.FormatFloat(…, 'f', -1, 32)`: the stored text is the
shortest decimal that identifies the nearest float32, hence within one float32 ulp — relative 2⁻²³ —
of the exact value (measured on every `dur` transcript line) -/
def durTol (d : Int) : Rat := (if d < 0 then -(Impl.durationSerial d) else Impl.durationSerial d) * pow2 23

/-- assumed by `decode_tolerant`: 2⁻³⁸ day (314 ns; the Julian path rounds to the microsecond)
for days ≤ 62, 2⁻¹⁸ day (0.33 s; the Gregorian path rounds to the second) above.  Go's Julian
path adds a float64 rounding of `excelTime + OFFSET` of at most 2⁻³⁹ day (157 ns) that the exact
model does not have: measured 2⁻⁴⁰ + 2⁻³⁹ < 2⁻³⁸. -/
def decTol (day : Int) : Rat := if day ≤ 62 then pow2 38 else pow2 18

end XlModel.Date
