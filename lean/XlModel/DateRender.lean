import XlModel.NumFmtDate
/-
C19 ⋈ C10 (read-only import of C10's number-format model): the token lists of the built-in
number formats `setDefaultTimeStyle` chooses for time values (14 `mm-dd-yy`, 17 `mmm-yy`,
22 `m/d/yy hh:mm`) and of `yyyy-mm-dd hh:mm:ss`, as nfp tokenises them (compared with nfp's output
on every `rend` transcript line), and the composed function "SetCellValue(time), then GetCellValue".
Core Lean only (linked into the driver).
-/
namespace XlModel.DateRender
open XlModel XlModel.Date XlModel.NumFmt

def dt (s : String) : Tok := ⟨"DateTimes", s.toList, []⟩
def lit (s : String) : Tok := ⟨"Literal", s.toList, []⟩

def items14 : List Tok := [dt "mm", lit "-", dt "dd", lit "-", dt "yy"]
def items17 : List Tok := [dt "mmm", lit "-", dt "yy"]
def items22 : List Tok := [dt "m", lit "/", dt "d", lit "/", dt "yy", lit " ", dt "hh", lit ":", dt "mm"]
def itemsIso : List Tok := [dt "yyyy", lit "-", dt "mm", lit "-", dt "dd", lit " ", dt "hh", lit ":", dt "mm", lit ":", dt "ss"]

def itemsOf (numFmt : Int) : List Tok :=
  if numFmt = 14 then items14 else if numFmt = 17 then items17 else if numFmt = 22 then items22 else itemsIso

/-- English month abbreviations (the default locale of a format without language tag) -/
def month3En (m : Nat) : Str :=
  (match m with
   | 1 => "Jan" | 2 => "Feb" | 3 => "Mar" | 4 => "Apr" | 5 => "May" | 6 => "Jun"
   | 7 => "Jul" | 8 => "Aug" | 9 => "Sep" | 10 => "Oct" | 11 => "Nov" | 12 => "Dec" | _ => "").toList

def enLocale (m : Nat) : Locale :=
  { ok := true, apFmt := "AM/PM".toList, month3 := month3En m, month4 := [], month5 := [], wdAbbr := [], wd := [], era := false }

/-- what GetCellValue renders for the number `x` under the token list `items` in the workbook's date
system: C10's `dateTimeHandler` on C19's decoder -/
def render (items : List Tok) (x : Rat) (date1904 : Bool) : Out :=
  let t0 := timeFOfInstant (Impl.timeFromExcelTime x date1904) date1904
  dateTimeHandler items [] false (dateInOfSerial x date1904 (fun _ => enLocale t0.month) (fun _ => enLocale t0.month))

end XlModel.DateRender
