import XlModel.NumFmtDate
/-
C19 ⋈ C10 (read-only import of C10's number-format model): the token lists of the built-in
number formats `setDefaultTimeStyle` chooses for time values (14 `mm-dd-yy`, 17 `mmm-yy`,
22 `m/d/yy hh:mm`) and of `yyyy-mm-dd hh:mm:ss`, as nfp tokenises them (compared with nfp's output
on every `rend` transcript line), and the composed function "SetCellValue(time), then GetCellValue".
Core Lean only (linked into the driver).
-/
namespace XlModel.DateRender
open XlModel XlModel.Date XlModel.NumFmt

def dt (s : List Char) : Tok := ⟨"DateTimes", s, []⟩
def lit (s : List Char) : Tok := ⟨"Literal", s, []⟩

def items14 : List Tok := [dt ['m','m'], lit ['-'], dt ['d','d'], lit ['-'], dt ['y','y']]
def items17 : List Tok := [dt ['m','m','m'], lit ['-'], dt ['y','y']]
def items22 : List Tok := [dt ['m'], lit ['/'], dt ['d'], lit ['/'], dt ['y','y'], lit [' '], dt ['h','h'], lit [':'], dt ['m','m']]
def itemsIso : List Tok := [dt ['y','y','y','y'], lit ['-'], dt ['m','m'], lit ['-'], dt ['d','d'], lit [' '],
  dt ['h','h'], lit [':'], dt ['m','m'], lit [':'], dt ['s','s']]

def itemsOf (numFmt : Int) : List Tok :=
  if numFmt = 14 then items14 else if numFmt = 17 then items17 else if numFmt = 22 then items22 else itemsIso

/-- English month abbreviations (the default locale of a format without language tag) -/
def month3En (m : Nat) : Str :=
  match m with
  | 1 => ['J','a','n'] | 2 => ['F','e','b'] | 3 => ['M','a','r'] | 4 => ['A','p','r'] | 5 => ['M','a','y']
  | 6 => ['J','u','n'] | 7 => ['J','u','l'] | 8 => ['A','u','g'] | 9 => ['S','e','p'] | 10 => ['O','c','t']
  | 11 => ['N','o','v'] | 12 => ['D','e','c'] | _ => []

def enLocale (m : Nat) : Locale :=
  { ok := true, apFmt := ['A','M','/','P','M'], month3 := month3En m, month4 := [], month5 := [], wdAbbr := [], wd := [], era := false }

/-- what GetCellValue renders for the number `x` under the token list `items` in the workbook's date
system: C10's `dateTimeHandler` on C19's decoder -/
def render (items : List Tok) (x : Rat) (date1904 : Bool) : Out :=
  let t0 := timeFOfInstant (Impl.timeFromExcelTime x date1904) date1904
  dateTimeHandler items [] false (dateInOfSerial x date1904 (fun _ => enLocale t0.month) (fun _ => enLocale t0.month))

end XlModel.DateRender
