/-
C14 — post-decode index arithmetic.

The std-lib decoders (`encoding/xml`, `strconv`, `encoding/binary`, `mscfb`) are
over-approximated: they return an ARBITRARY value of the struct type (any `Int`
in `r`, `s`, `<v>`; any result of `CellNameToCoordinates` for a reference; any
32-bit field of an EncryptionInfo stream).  The model is what runs AFTER decoding
and indexes / allocates with those values:

* `checkSheet`, `checkSheetR0` (excelize.go) and `checkRow` (rows.go), as run by
  `workSheetReader`;
* the shared-string index of `(*xlsxC).getValueFrom` and the style index of
  `formattedValue` (cell.go);
* the dispatch of `Decrypt` after `extractPart`: `encryptionMechanism`,
  `standardDecrypt`, `standardEncryptionVerifier`, the key slice of
  `standardConvertPasswdToKey` (crypt.go).

Every slice index / `make` the Go code performs is an explicit bounds test here
with outcome `panic` when it fails, so "never panics" is a theorem about the
guards, not a consequence of Lean's totality.  Core Lean only.
-/
import XlModel.Basic
import XlModel.Ref
import XlModel.Generated.Facts

namespace XlModel.Decode
open XlModel

inductive Outcome (α : Type) where
  | ok (a : α)
  | err
  | panic
  deriving Repr, DecidableEq

def Outcome.bind {α β : Type} (o : Outcome α) (f : α → Outcome β) : Outcome β :=
  match o with
  | .ok a => f a
  | .err => .err
  | .panic => .panic

def Outcome.isPanic {α : Type} : Outcome α → Bool
  | .panic => true
  | _ => false

/-! ## worksheet rows -/

/-- the `r` attribute of a cell as the loader sees it -/
inductive R where
  /-- `cell.R == ""` -/
  | absent
  /-- as decoded; `v` is the result of `CellNameToCoordinates(cell.R)` (`none` = error) -/
  | orig (v : Option (Int × Int))
  /-- assigned by `checkRow` through `CoordinatesToCellName(col, row)` (which succeeded) -/
  | gen (col row : Int)
  /-- assigned by `checkRow` when `CoordinatesToCellName` failed in `ColumnNumberToName`
  (column beyond MaxColumns): the error is discarded and the returned text is the bare row
  number, which no longer parses as a reference -/
  | junk (row : Int)
  deriving Repr, DecidableEq

structure Cell where
  r : R
  /-- `hasValue()` -/
  hv : Bool
  /-- ordinal of the cell in the decoded document; `none` for cells created by the loader -/
  id : Option Nat
  deriving Repr, DecidableEq

structure Row where
  /-- the `r` attribute (0 = absent) -/
  r : Int
  cells : List Cell
  deriving Repr, DecidableEq

abbrev Grid := List Row

def emptyCell : Cell := { r := .absent, hv := false, id := none }
def emptyRow : Row := { r := 0, cells := [] }

/-- `CoordinatesToCellName(col, row)` succeeds -/
def validCoord (col row : Int) : Bool :=
  decide (1 ≤ col) && decide (col ≤ (Facts.MaxColumns : Int)) && decide (1 ≤ row) && decide (row ≤ (Facts.TotalRows : Int))

/-- `CellNameToCoordinates(cell.R)`; for a generated name this is the C20 round trip -/
def R.coords : R → Option (Int × Int)
  | .absent => none
  | .orig v => v
  | .gen c r => some (c, r)
  | .junk _ => none

/-- `cell.R, _ = CoordinatesToCellName(col, row)` with the error discarded: the empty string
when the coordinates are rejected up front, the bare row number when only the column is too large -/
def mkName (col row : Int) : R :=
  if validCoord col row then .gen col row
  else if col < 1 ∨ row < 1 ∨ row > (Facts.TotalRows : Int) then .absent
  else .junk row

/-- the decoder's view of a cell's `r` attribute: absent, or whatever
`CellNameToCoordinates` (C20's model of it) makes of the text -/
def refOf (s : List Char) : R :=
  if s.isEmpty then .absent
  else match Ref.cellNameToCoordinates s with
    | .ok p => .orig (some p)
    | .error _ => .orig none

/-- decoded rows from the raw attribute texts: `(r, [(c/@r text, hasValue)])`; cell ids are ordinals -/
def cellsOf : List (List Char × Bool) → Nat → List Cell
  | [], _ => []
  | (s, hv) :: rest, n => { r := refOf s, hv := hv, id := some n } :: cellsOf rest (n + 1)

def rowsOf : List (Int × List (List Char × Bool)) → Nat → List Row
  | [], _ => []
  | (r, cs) :: rest, n => { r := r, cells := cellsOf cs n } :: rowsOf rest (n + cs.length)

/-- `lastRowNum` closure of `checkSheet` -/
def lastRowNum (cells : List Cell) : Int :=
  cells.foldl (fun num c => match c.r.coords with
    | some (_, row) => if row > num then row else num
    | none => num) 0

/-- first loop of `checkSheet`: running maximum row, the rows treated as `r="0"` rows
(with the row number they get), and the remaining rows, in order -/
def scan : List Row → Int → List Row → List Row → Int × List Row × List Row
  | [], row, r0, kept => (row, r0.reverse, kept.reverse)
  | r :: rest, row, r0, kept =>
    if r.r = 0 ∨ r.r = row then
      let num := lastRowNum r.cells
      let row1 := if num > row then num else row
      let row2 := if num = 0 then row1 + 1 else row1
      scan rest row2 ({ r with r := row2 } :: r0) kept
    else
      let row1 := if r.r ≠ 0 ∧ r.r > row then r.r else row
      scan rest row1 r0 (r :: kept)

/-- `xs[i]` on a slice: `none` is the runtime's index-out-of-range panic -/
def idx? {α : Type} (xs : List α) (i : Int) : Option Nat :=
  if 0 ≤ i ∧ i < (xs.length : Int) then some i.toNat else none

/-- pad a cell slice with empty cells up to length `n` (`append(…, xlsxC{})` loop) -/
def padTo (cells : List Cell) (n : Nat) : List Cell :=
  cells ++ List.replicate (n - cells.length) emptyCell

/-- the `checkRow` closure of `checkSheetR0` -/
def place (g : Grid) (col row : Int) (r0 : Bool) (cell : Cell) : Outcome Grid :=
  match idx? g (row - 1) with
  | none => .panic
  | some ri =>
    let rw := g.getD ri emptyRow
    let cells := padTo rw.cells col.toNat
    match idx? cells (col - 1) with
    | none => .panic
    | some ci =>
      let cur := cells.getD ci emptyCell
      let cells1 := if !cur.hv then cells.set ci cell else cells
      let cells2 := if r0 then cells1.set ci cell else cells1
      .ok (g.set ri { rw with cells := cells2 })

/-- loop of `checkSheetR0` over a snapshot of the row's cells; `prev` is `prevCol`: in a row without
row number a cell without reference follows the cell before it (`prev + 1`), in a numbered row it sits
at its ordinal -/
def r0Pass (g : Grid) (rowR : Int) (r0 : Bool) : List Cell → Nat → Int → Outcome Grid
  | [], _, _ => .ok g
  | cell :: rest, i, prev =>
    match cell.r with
    | .absent =>
      (place g (if r0 then prev + 1 else (i : Int) + 1) rowR r0 cell).bind fun g' =>
        r0Pass g' rowR r0 rest (i + 1) (if r0 then prev + 1 else (i : Int) + 1)
    | rr =>
      match rr.coords with
      | some (c, r) => if r0 then (place g c r r0 cell).bind fun g' => r0Pass g' rowR r0 rest (i + 1) c
                       else r0Pass g rowR r0 rest (i + 1) c
      | none => r0Pass g rowR r0 rest (i + 1) prev

/-- second loop of `checkSheet`: `sheetData.Row[r.R-1] = r; row = r.R` -/
def placeRows : Grid → Int → List Row → Outcome (Grid × Int)
  | g, last, [] => .ok (g, last)
  | g, last, r :: rest =>
    if r.r ≠ 0 then
      match idx? g (r.r - 1) with
      | none => .panic
      | some i => placeRows (g.set i r) r.r rest
    else placeRows g last rest

/-- third loop: the `r="0"` rows -/
def r0Rows : Grid → List Row → Outcome Grid
  | g, [] => .ok g
  | g, r :: rest =>
    match idx? g (r.r - 1) with
    | none => .panic
    | some i =>
      let g1 := g.set i { (g.getD i emptyRow) with r := r.r }
      (r0Pass g1 r.r true r.cells 0 0).bind fun g2 => r0Rows g2 rest

/-- fourth loop: `for i := 1; i <= row; i++` (counting `k = row - i + 1` down) -/
def fillRows : Grid → Nat → Nat → Outcome Grid
  | g, _, 0 => .ok g
  | g, i, k + 1 =>
    match idx? g ((i : Int) - 1) with
    | none => .panic
    | some j =>
      let rw := { (g.getD j emptyRow) with r := (i : Int) }
      let g1 := g.set j rw
      (r0Pass g1 (i : Int) false rw.cells 0 0).bind fun g2 => fillRows g2 (i + 1) k

/-- `checkSheet` (with the row-number guards of the loader) -/
def checkSheet (rows : List Row) : Outcome Grid :=
  if rows.any (fun r => decide (r.r < 0)) then .err
  else if rows.any (fun r => decide (r.r > (Facts.TotalRows : Int))) then .err
  else
    let (row, r0, kept) := scan rows 0 [] []
    if row < 0 then .panic   -- make([]xlsxRow, row)
    else
      let g : Grid := List.replicate row.toNat emptyRow
      (placeRows g 0 kept).bind fun (g1, last) =>
        (r0Rows g1 r0).bind fun g2 =>
          fillRows g2 1 last.toNat

/-- number of row slots `checkSheet` allocates (`make([]xlsxRow, row)`) -/
def rowSlots (rows : List Row) : Int := (scan rows 0 [] []).1

/-- first loop of `checkRow` for one row: fill missing references -/
def fillRefs (rowNum : Int) : List Cell → Int → Option (List Cell)
  | [], _ => some []
  | cell :: rest, rCount =>
    let rc := rCount + 1
    match cell.r with
    | .absent => (fillRefs rowNum rest rc).map fun t => { cell with r := mkName rc rowNum } :: t
    | rr =>
      match rr.coords with
      | none => none
      | some (lastR, _) => (fillRefs rowNum rest (if lastR > rc then lastR else rc)).map fun t => cell :: t

/-- greatest column of the row (the loop added by the fix), `none` = a reference does not parse -/
def maxCol : List Cell → Int → Option Int
  | [], m => some m
  | c :: rest, m =>
    match c.r.coords with
    | none => none
    | some (col, _) => maxCol rest (if col > m then col else m)

/-- `targetList`: one named empty cell per column `k+1 … k+n`, `none` = `CoordinatesToCellName` failed -/
def targetFrom (rowNum : Int) : Nat → Nat → Option (List Cell)
  | _, 0 => some []
  | k, n + 1 =>
    if validCoord ((k : Int) + 1) rowNum then
      (targetFrom rowNum (k + 1) n).map fun t => { r := .gen ((k : Int) + 1) rowNum, hv := false, id := none } :: t
    else none

def targetCells (rowNum : Int) (n : Nat) : Option (List Cell) := targetFrom rowNum 0 n

/-- last loop of `checkRow`: `C[colNum-1] = *colData` -/
def scatter : List Cell → List Cell → Outcome (List Cell)
  | tgt, [] => .ok tgt
  | tgt, c :: rest =>
    match c.r.coords with
    | none => .err
    | some (col, _) =>
      match idx? tgt (col - 1) with
      | none => .panic
      | some i => scatter (tgt.set i c) rest

/-- `checkRow` for the row in slot `rowIdx` -/
def checkRowOne (rowNum : Int) (rw : Row) : Outcome Row :=
  if rw.cells.isEmpty then .ok rw
  else
    match fillRefs rowNum rw.cells 0 with
    | none => .err
    | some cells =>
      match cells.getLast? with
      | none => .panic
      | some lastCell =>
        match lastCell.r.coords with
        | none => .err
        | some (lastCol, _) =>
          if (cells.length : Int) < lastCol then
            match maxCol cells lastCol with
            | none => .err
            | some mc =>
              match targetCells rowNum mc.toNat with
              | none => .err
              | some tgt => (scatter tgt cells).bind fun cs => .ok { rw with cells := cs }
          else .ok { rw with cells := cells }

def checkRows : List Row → Int → Outcome (List Row)
  | [], _ => .ok []
  | rw :: rest, n => (checkRowOne n rw).bind fun r1 => (checkRows rest (n + 1)).bind fun t => .ok (r1 :: t)

/-- `checkRow` (rows.go) -/
def checkRow (g : Grid) : Outcome Grid := checkRows g 1

/-- what `workSheetReader` does after decoding -/
def load (rows : List Row) : Outcome Grid := (checkSheet rows).bind checkRow

/-! ## shared-string and style indices -/

inductive CellT where
  | s | str | b | inlineStr | other
  deriving Repr, DecidableEq

structure GVIn where
  t : CellT
  /-- `c.V == ""` -/
  vEmpty : Bool
  /-- `c.V == "1"` / `"0"` (type b) -/
  vIs1 : Bool
  vIs0 : Bool
  /-- `strconv.Atoi(strings.TrimSpace(c.V))`, error discarded: any int -/
  idx : Int
  /-- style attribute: any int -/
  s : Int
  /-- `len(d.SI)` -/
  nSI : Nat
  /-- `len(styleSheet.CellXfs.Xf)`; `none` = `CellXfs == nil` -/
  nXf : Option Nat
  raw : Bool

inductive GVOut where
  /-- the cell's own `V` -/
  | v
  /-- shared string number `i` -/
  | si (i : Nat)
  | lit (s : String)
  deriving Repr, DecidableEq

/-- `formattedValue`: the style lookup (the number format itself is not modelled:
the cell formats of the model carry the General format) -/
def formattedValue (val : GVOut) (s : Int) (nXf : Option Nat) (raw : Bool) : Outcome GVOut :=
  if raw ∨ s = 0 then .ok val
  else match nXf with
    | none => .ok val
    | some n =>
      if s ≥ (n : Int) ∨ s < 0 then .ok val
      else
        -- styleSheet.CellXfs.Xf[c.S]
        if 0 ≤ s ∧ s < (n : Int) then .ok val else .panic

/-- `(*xlsxC).getValueFrom` (in-memory shared strings) -/
def getValueFrom (i : GVIn) : Outcome GVOut :=
  match i.t with
  | .b =>
    if !i.raw ∧ i.vIs1 then .ok (.lit "TRUE")
    else if !i.raw ∧ i.vIs0 then .ok (.lit "FALSE")
    else formattedValue .v i.s i.nXf i.raw
  | .s =>
    if !i.vEmpty then
      if i.idx ≥ 0 ∧ (i.nSI : Int) > i.idx then
        -- d.SI[xlsxSI]
        if 0 ≤ i.idx ∧ i.idx < (i.nSI : Int) then formattedValue (.si i.idx.toNat) i.s i.nXf i.raw else .panic
      else formattedValue .v i.s i.nXf i.raw
    else formattedValue .v i.s i.nXf i.raw
  | .str => .ok .v
  | .inlineStr => formattedValue .v i.s i.nXf i.raw
  | .other => formattedValue .v i.s i.nXf i.raw

/-! ## standard-encryption container streams -/

/-- the decoded fields of the two streams; every field is arbitrary -/
structure SDIn where
  infoLen : Nat
  pkgLen : Nat
  vMajor : Nat
  vMinor : Nat
  /-- u32 at offset 8 of EncryptionInfo -/
  hdrSize : Nat
  /-- u32 at offset 8 / 16 of the header block -/
  algID : Nat
  keySize : Nat
  /-- u64 at offset 0 of EncryptedPackage: the declared plaintext size -/
  pkgSize : Nat

inductive Mech where
  | agile | standard
  deriving Repr, DecidableEq

/-- `b[lo:hi]` on a slice of length (= capacity) `len` -/
def sliceOK (len lo hi : Nat) : Bool := decide (lo ≤ hi) && decide (hi ≤ len)

/-- `encryptionMechanism` -/
def encryptionMechanism (i : SDIn) : Outcome Mech :=
  if i.infoLen < 4 then .err
  else if ¬ (sliceOK i.infoLen 0 2 ∧ sliceOK i.infoLen 2 4) then .panic
  else if i.vMajor = 4 ∧ i.vMinor = 4 then .ok .agile
  else if 2 ≤ i.vMajor ∧ i.vMajor ≤ 4 ∧ i.vMinor = 2 then .ok .standard
  else .err

def isAES (algID : Nat) : Bool := algID == 0x660E || algID == 0x660F || algID == 0x6610

/-- `len(x3)` in `standardConvertPasswdToKey`: two SHA-1 digests -/
def x3Len : Nat := 40

/-- tail of `standardDecrypt`: `encryptedPackageBuf[8:]`, the block loop
(`decrypted[bs:be]`, `x[bs:be]` for `bs = 0, 16, … < n` stay within `n` because `16 ∣ n`),
then the length prefix `encryptedPackageBuf[:8]` truncates the plaintext: `decrypted[:size]` -/
def sdPackage (pkgLen pkgSize : Nat) : Outcome Nat :=
  if ¬ sliceOK pkgLen 8 pkgLen then .panic
  else if (pkgLen - 8) % 16 ≠ 0 then .err
  else if ¬ sliceOK pkgLen 0 8 then .panic
  else if pkgSize < pkgLen - 8 then
    (if ¬ sliceOK (pkgLen - 8) 0 pkgSize then .panic else .ok pkgSize)
  else .ok (pkgLen - 8)

/-- `standardConvertPasswdToKey`: `x3[:cbRequiredKeyLength]`, then `aes.NewCipher` -/
def sdKey (keySize pkgLen pkgSize : Nat) : Outcome Nat :=
  if keySize / 8 > x3Len then .err
  else if ¬ sliceOK x3Len 0 (keySize / 8) then .panic
  else if ¬ (keySize / 8 = 16 ∨ keySize / 8 = 24 ∨ keySize / 8 = 32) then .err
  else sdPackage pkgLen pkgSize

/-- size of the verifier: 40 bytes + the encrypted hash (20 for RC4, 32 for AES) -/
def verifierSize (algID : Nat) : Nat := if isAES algID then 72 else 60

/-- `standardEncryptionVerifier` on a block of `vlen` bytes: `blob[:4]`, `blob[4:20]`,
`blob[20:36]`, `blob[36:40]`, `blob[40:60]` or `blob[40:72]` -/
def sdVerifier (vlen algID keySize pkgLen pkgSize : Nat) : Outcome Nat :=
  if vlen < verifierSize algID then .err
  else if ¬ (sliceOK vlen 0 4 ∧ sliceOK vlen 4 20 ∧ sliceOK vlen 20 36 ∧ sliceOK vlen 36 40 ∧
             sliceOK vlen 40 (verifierSize algID)) then .panic
  else sdKey keySize pkgLen pkgSize

/-- `standardDecrypt`: result = length of the decrypted package -/
def standardDecrypt (i : SDIn) : Outcome Nat :=
  if i.infoLen < 12 ∨ i.pkgLen < 8 then .err
  else if ¬ sliceOK i.infoLen 8 12 then .panic
  else if i.hdrSize < 32 ∨ i.hdrSize > i.infoLen - 12 then .err
  else if ¬ sliceOK i.infoLen 12 (12 + i.hdrSize) then .panic
  -- block[:4] … block[28:32], block[32:]
  else if ¬ (sliceOK i.hdrSize 0 4 ∧ sliceOK i.hdrSize 28 32 ∧ sliceOK i.hdrSize 32 i.hdrSize) then .panic
  else if ¬ sliceOK i.infoLen (12 + i.hdrSize) i.infoLen then .panic
  else sdVerifier (i.infoLen - (12 + i.hdrSize)) i.algID i.keySize i.pkgLen i.pkgSize

inductive SDOut where
  | agile
  | standard (n : Nat)
  deriving Repr, DecidableEq

/-- `Decrypt` after `extractPart` -/
def decryptDispatch (i : SDIn) : Outcome SDOut :=
  (encryptionMechanism i).bind fun m =>
    match m with
    | .agile => .ok .agile
    | .standard => (standardDecrypt i).bind fun n => .ok (.standard n)

/-! ## unzip size accounting -/

/-- the loop of `ReadZipReader`: the declared size of every entry is added to the running total and
the total is compared with `UnzipSizeLimit` BEFORE the entry is read or spooled to a temporary file -/
def zipAccount : List Nat → Nat → Nat → Bool
  | [], _, _ => true
  | s :: rest, run, limit => if run + s > limit then false else zipAccount rest (run + s) limit

/-- the same loop on what `FileInfo().Size()` can return: the declared 64-bit size read as a signed
`int64` (negative for declared sizes ≥ 2^63), the running total wrapping like Go's `int64`; the guard is
`fileSize < 0 || unzipSize < 0 || unzipSize > UnzipSizeLimit` -/
def zipAccountI : List Int → Int → Int → Bool
  | [], _, _ => true
  | s :: rest, run, limit =>
    let run' := wrap64 (run + s)
    if s < 0 ∨ run' < 0 ∨ run' > limit then false else zipAccountI rest run' limit

/-- `checkOpenReaderOptions` (both limits given) followed by `ReadZipReader`'s accounting -/
def openLimits (sizes : List Nat) (limit xmlLimit : Nat) : Outcome Unit :=
  if xmlLimit > limit then .err
  else if zipAccount sizes 0 limit then .ok () else .err

/-! ## style sheet, workbook view, comments, rich text, conditional formats, theme colours

The sites repaired in the second round, as post-decode computations over arbitrary decoded
values.  Every index the Go code performs is an explicit bounds test. -/

/-- `xs[i]`: index an `n`-element slice with an arbitrary `Int` -/
def inRange (i : Int) (n : Nat) : Bool := decide (0 ≤ i) && decide (i < (n : Int))

/-- one component of `GetStyle`: `extractStyleCondFuncs["fill"|"border"|"font"]` and then
`s.Fills.Fill[*xf.FillID]` (`apply` = `ApplyFill == nil || *ApplyFill`, `present` = `FillID != nil`,
`table` = `len(s.Fills.Fill)` or `none` when `s.Fills == nil`) -/
def xfComponent (apply present : Bool) (id : Int) (table : Option Nat) : Outcome Bool :=
  match table with
  | none => .ok false
  | some n =>
    if apply && present && decide (id ≥ 0) && decide (id < (n : Int)) then
      (if inRange id n then .ok true else .panic)
    else .ok false

structure StyleIn where
  idx : Int
  /-- `len(s.CellXfs.Xf)`, `none` = `CellXfs == nil` -/
  nXf : Option Nat
  applyFill : Bool
  fillPresent : Bool
  fillId : Int
  nFills : Option Nat
  applyBorder : Bool
  borderPresent : Bool
  borderId : Int
  nBorders : Option Nat
  applyFont : Bool
  fontPresent : Bool
  fontId : Int
  nFonts : Option Nat

/-- `GetStyle`: which of fill / border / font are extracted -/
def getStyle (i : StyleIn) : Outcome (Bool × Bool × Bool) :=
  match i.nXf with
  | none => .err
  | some n =>
    if i.idx < 0 ∨ (n : Int) ≤ i.idx then .err
    else if ¬ inRange i.idx n then .panic   -- s.CellXfs.Xf[idx]
    else
      (xfComponent i.applyFill i.fillPresent i.fillId i.nFills).bind fun f =>
      (xfComponent i.applyBorder i.borderPresent i.borderId i.nBorders).bind fun b =>
      (xfComponent i.applyFont i.fontPresent i.fontId i.nFonts).bind fun n => .ok (f, b, n)

/-- `getActiveSheetID`: `ids` are the sheetId attributes of `<sheets>`, in order -/
def activeSheetID (hasView : Bool) (activeTab : Int) (ids : List Int) : Outcome Int :=
  let fallback : Outcome Int :=
    if ids.length ≥ 1 then (match ids[0]? with | some id => .ok id | none => .panic) else .ok 0
  if hasView then
    if activeTab ≥ 0 ∧ (ids.length : Int) > activeTab then
      match idx? ids activeTab with   -- wb.Sheets.Sheet[activeTab]
      | none => .panic
      | some k => match ids[k]? with
        | some id => if id ≠ 0 then .ok id else fallback
        | none => .panic
    else fallback
  else fallback

/-- `GetActiveSheetIndex`: position of the active sheet id in the sheet list (0 when absent) -/
def activeSheetIndex (hasView : Bool) (activeTab : Int) (ids : List Int) : Outcome Nat :=
  (activeSheetID hasView activeTab ids).bind fun id => .ok ((ids.findIdx? (· = id)).getD 0)

inductive FontName where
  | name | empty
  deriving Repr, DecidableEq

/-- `readDefaultFont` + `GetDefaultFont`: `nFonts` = `len(s.Fonts.Font)` (`none` = `Fonts == nil`),
`firstNil` = `Font[0] == nil`, `hasName` = `font.Name != nil`, `hasVal` = `font.Name.Val != nil` -/
def getDefaultFont (nFonts : Option Nat) (firstNil hasName hasVal : Bool) : Outcome FontName :=
  match nFonts with
  | none => .err
  | some n =>
    if n = 0 then .err
    else if ¬ inRange 0 n then .panic          -- s.Fonts.Font[0]
    else if firstNil then .err
    else if !hasName || !hasVal then .ok .empty
    else if hasName && hasVal then .ok .name   -- *font.Name.Val
    else .panic

/-- `ThemeColor`: the three slices `baseColor[:2]`, `[2:4]`, `[4:6]` -/
def themeColor (len : Nat) (tintZero : Bool) : Outcome Bool :=
  if tintZero ∨ len < 6 then .ok false
  else if ¬ (sliceOK len 0 2 ∧ sliceOK len 2 4 ∧ sliceOK len 4 6) then .panic
  else .ok true

/-- `GetComments`: `cmts.Authors.Author[cmt.AuthorID]` -/
def commentAuthor (authorId : Int) (nAuthors : Nat) : Outcome (Option Nat) :=
  if authorId ≥ 0 ∧ authorId < (nAuthors : Int) then
    (if inRange authorId nAuthors then .ok (some authorId.toNat) else .panic)
  else .ok none

/-- `getCellRichText`: one run; `hasT` = `v.T != nil`; result = whether the run carries text -/
def richRun (hasT : Bool) : Outcome Bool :=
  if hasT then (if hasT then .ok true else .panic)   -- v.T.Val
  else .ok false

def richRuns : List Bool → Outcome (List Bool)
  | [] => .ok []
  | r :: rest => (richRun r).bind fun a => (richRuns rest).bind fun t => .ok (a :: t)

inductive CondVal where
  | minMax | value | none
  deriving Repr, DecidableEq

/-- `extractCondFmtCellIs`: `c.Formula[0]`, `c.Formula[1]` -/
def condFmtCellIs (nFormula : Nat) : Outcome CondVal :=
  if nFormula = 2 then (if inRange 0 nFormula ∧ inRange 1 nFormula then .ok .minMax else .panic)
  else if nFormula > 0 then (if inRange 0 nFormula then .ok .value else .panic)
  else .ok .none

/-! ## merged cells -/

/-- `cellInRange(cell, ref)`: `ref[0] … ref[3]` on the rectangle slice -/
def cellInRange (col row : Int) (rect : List Int) : Outcome Bool :=
  match rect[0]?, rect[1]?, rect[2]?, rect[3]? with
  | some a, some b, some c, some d => .ok (decide (col ≥ a) && decide (col ≤ c) && decide (row ≥ b) && decide (row ≤ d))
  | _, _, _, _ => .panic

/-- one step of `mergeCellsParser`: `rect` is the cached rectangle slice of the merged cell
(empty when its `ref` attribute is empty) -/
def mergeCellHit (col row : Int) (rect : List Int) : Outcome Bool :=
  if rect.length = 4 then cellInRange col row rect else .ok false

/-- `xlsxMergeCell.Rect`: `parsed` = result of `rangeRefToCoordinates` (`none` = error); the
rectangle is cached only when the reference is valid -/
def rectOf (cached : Option (List Int)) (parsed : Option (List Int)) : Outcome (List Int × Option (List Int)) :=
  match cached with
  | some r => .ok (r, cached)
  | none => match parsed with
    | none => .err
    | some r => .ok (r, some r)

structure Rc where
  x1 : Int
  y1 : Int
  x2 : Int
  y2 : Int
  deriving Repr, DecidableEq

/-- `sortCoordinates` -/
def sortRc (r : Rc) : Rc :=
  { x1 := if r.x2 < r.x1 then r.x2 else r.x1, y1 := if r.y2 < r.y1 then r.y2 else r.y1,
    x2 := if r.x2 < r.x1 then r.x1 else r.x2, y2 := if r.y2 < r.y1 then r.y1 else r.y2 }

/-- `isOverlap`: two sorted rectangles share a cell -/
def isOverlapRc (a b : Rc) : Bool :=
  decide (a.x1 ≤ b.x2) && decide (b.x1 ≤ a.x2) && decide (a.y1 ≤ b.y2) && decide (b.y1 ≤ a.y2)

/-- `mergeCell`: the rectangle bounding both -/
def unionRc (a b : Rc) : Rc :=
  { x1 := if a.x1 ≤ b.x1 then a.x1 else b.x1, y1 := if a.y1 ≤ b.y1 then a.y1 else b.y1,
    x2 := if a.x2 ≥ b.x2 then a.x2 else b.x2, y2 := if a.y2 ≥ b.y2 then a.y2 else b.y2 }

/-- the inner `for { … }` of `flatMergedCells`: take the listed cells overlapping `r` out of the list
and into `r`, until none overlaps (`fuel` bounds the rounds; each round shortens the list) -/
def settle : Nat → Rc → List Rc → Rc × List Rc
  | 0, r, cells => (r, cells)
  | fuel + 1, r, cells =>
    let ov := cells.filter (isOverlapRc r)
    if ov.isEmpty then (r, cells)
    else settle fuel (ov.foldl unionRc r) (cells.filter fun c => !isOverlapRc r c)

/-- `flatMergedCells` / `mergeOverlapCells`: merged cells are normalised pairwise on their rectangles;
no matrix over the worksheet is built -/
def normalise : List Rc → List Rc → List Rc
  | [], acc => acc
  | r :: rest, acc =>
    let p := settle (acc.length + 1) (sortRc r) acc
    normalise rest (p.2 ++ [p.1])

/-! ## compound file header and stream extraction -/

/-- `checkCompoundFileHeader`: `counts` = declared numbers of directory, FAT, mini FAT, DIFAT sectors -/
def checkCfbHeader (len shift : Nat) (counts : List Nat) : Outcome Unit :=
  if len < 512 then .err
  else if ¬ (sliceOK len 30 32) then .panic
  else if shift ≠ 9 ∧ shift ≠ 12 then .err
  else if ¬ (sliceOK len 40 44 ∧ sliceOK len 44 48 ∧ sliceOK len 64 68 ∧ sliceOK len 72 76) then .panic
  else if counts.any (fun c => decide (c > len / 2 ^ shift)) then .err
  else .ok ()

/-- `extractPartLimit`: bytes allocated for one stream whose directory entry claims `size` -/
def extractAlloc (size : Int) (limit : Nat) : Nat :=
  if size < 0 ∨ size > (limit : Int) then 0 else size.toNat

/-! ## agile decryption -/

structure AgIn where
  infoLen : Nat
  /-- `xml.Unmarshal` of the descriptor succeeds -/
  xmlOK : Bool
  /-- number of `<keyEncryptor>` elements -/
  nKE : Nat
  blockSize : Int
  /-- digest length of `keyData/@hashAlgorithm`, 0 = unknown algorithm -/
  hashLen : Nat
  keyBits : Int
  spinCount : Int
  /-- `encryptedKey/@saltValue`: base64 decodes, decoded length -/
  saltOK : Bool
  saltLen : Nat
  encKeyOK : Bool
  encKeyLen : Nat
  /-- `keyData/@saltValue` base64 decodes -/
  kdSaltOK : Bool
  pkgLen : Nat

def aesKeyLen (n : Nat) : Bool := n == 16 || n == 24 || n == 32

/-- `checkAgileEncryptionInfo` -/
def agileCheck (i : AgIn) : Outcome Unit :=
  if i.nKE = 0 then .err
  else if i.blockSize ≠ 16 then .err
  else if i.hashLen = 0 then .err
  else if ¬ inRange 0 i.nKE then .panic      -- KeyEncryptor[0]
  else if i.keyBits < 0 then .err
  else if i.spinCount < 0 ∨ i.spinCount > 10000000 then .err
  else .ok ()

/-- `convertPasswdToKey`: length of the derived key -/
def agileKeyLen (i : AgIn) : Outcome Nat :=
  if ¬ inRange 0 i.nKE then .panic
  else if !i.saltOK then .err
  else
    let keyBytes := i.keyBits / 8
    if (i.hashLen : Int) < keyBytes then .ok (i.hashLen + 54)
    else if (i.hashLen : Int) > keyBytes then
      (if 0 ≤ keyBytes ∧ keyBytes ≤ (i.hashLen : Int) then .ok keyBytes.toNat else .panic)   -- key[:keyBytes]
    else .ok i.hashLen

/-- `decrypt(key, iv, input)`: `aes.NewCipher`, the length guard, then `CryptBlocks`
(which panics unless the IV is one block and the input whole blocks) -/
def cbcDecrypt (keyLen ivLen inputLen : Nat) : Outcome Unit :=
  if !aesKeyLen keyLen then .err
  else if ivLen ≠ 16 ∨ inputLen % 16 ≠ 0 then .err
  else if ivLen = 16 ∧ inputLen % 16 = 0 then .ok () else .panic

/-- `createIV`: length of the initialization vector -/
def createIV (i : AgIn) : Outcome Nat :=
  if !i.kdSaltOK then .err
  else if (i.hashLen : Int) < i.blockSize then .ok (i.hashLen + 54)
  else if (i.hashLen : Int) > i.blockSize then
    (if 0 ≤ i.blockSize ∧ i.blockSize ≤ (i.hashLen : Int) then .ok i.blockSize.toNat else .panic)   -- iv[:BlockSize]
  else .ok i.hashLen

/-- padded length of a chunk: `len % BlockSize`, `make([]byte, BlockSize-remainder)` -/
def padChunk (n : Nat) (blockSize : Int) : Outcome Nat :=
  if blockSize = 0 then .panic                      -- integer divide by zero
  else if blockSize < 0 then
    (if (n : Int) % blockSize = 0 then .ok n else .panic)   -- negative makeslice length cannot arise: checked above
  else
    let r := (n : Int) % blockSize
    if r = 0 then .ok n else .ok (n + (blockSize - r).toNat)

/-- the segment loop of `decryptPackage` over `data = input[8:]` from `start`; `fuel` bounds the iterations -/
def pkgLoop (i : AgIn) : Nat → Nat → Outcome Unit
  | 0, _ => .ok ()
  | fuel + 1, start =>
    let dataLen := i.pkgLen - 8
    if start < dataLen then
      let e := if start + 4096 > dataLen then dataLen else start + 4096
      if ¬ sliceOK dataLen start e then .panic        -- data[start:end]
      else
        (padChunk (e - start) i.blockSize).bind fun n =>
        (createIV i).bind fun ivLen =>
        (cbcDecrypt i.encKeyLen ivLen n).bind fun _ => pkgLoop i fuel (start + 4096)
    else .ok ()

/-- `decryptPackage` -/
def decryptPackage (i : AgIn) : Outcome Unit :=
  if i.pkgLen < 8 then .err
  else if ¬ sliceOK i.pkgLen 8 i.pkgLen then .panic   -- input[offset:]
  else pkgLoop i (i.pkgLen + 1) 0

/-- `agileDecrypt` -/
def agileDecrypt (i : AgIn) : Outcome Unit :=
  if i.infoLen < 8 then .err
  else if ¬ sliceOK i.infoLen 8 i.infoLen then .panic
  else if !i.xmlOK then .err
  else (agileCheck i).bind fun _ =>
    (agileKeyLen i).bind fun keyLen =>
      if !i.saltOK then .err
      else if !i.encKeyOK then .err
      else (cbcDecrypt keyLen i.saltLen i.encKeyLen).bind fun _ => decryptPackage i

/-! ## basic-string unescaping (`bstrUnmarshal`, lib.go)

Strings are byte sequences.  `bstrExp.FindAllStringSubmatchIndex` yields the leftmost non-overlapping
occurrences of `_x[a-fA-F\d]{4}_`; the function then slices the string at those positions. -/

def isHexB (c : Char) : Bool :=
  (48 ≤ c.toNat && c.toNat ≤ 57) || (65 ≤ c.toNat && c.toNat ≤ 70) || (97 ≤ c.toNat && c.toNat ≤ 102)

/-- `_x[a-fA-F\d]{4}_` occurs at byte offset `i` -/
def escAt (s : List Char) (i : Nat) : Bool :=
  decide (i + 7 ≤ s.length) && (s.getD i ' ' == '_') && (s.getD (i + 1) ' ' == 'x') &&
  isHexB (s.getD (i + 2) ' ') && isHexB (s.getD (i + 3) ' ') && isHexB (s.getD (i + 4) ' ') &&
  isHexB (s.getD (i + 5) ' ') && (s.getD (i + 6) ' ' == '_')

/-- the match positions `[start, end)` from offset `i` on -/
def bstrMatches (s : List Char) : Nat → Nat → List (Nat × Nat)
  | 0, _ => []
  | fuel + 1, i =>
    if i < s.length then
      (if escAt s i then (i, i + 7) :: bstrMatches s fuel (i + 7) else bstrMatches s fuel (i + 1))
    else []

inductive BSeg where
  /-- `s[a:b]` copied -/
  | lit (a b : Nat)
  /-- the escape whose four hex digits are `s[a:b]` -/
  | code (a b : Nat)
  deriving Repr, DecidableEq

/-- the loop of `bstrUnmarshal` over the matches: `s[cursor:match[0]]`, `s[match[0]:match[1]]`,
`s[match[0]+2:match[1]-1]`, and the tail `s[cursor:]` -/
def bstrSegs (len : Nat) : List (Nat × Nat) → Nat → Outcome (List BSeg)
  | [], cursor => if cursor < len then (if sliceOK len cursor len then .ok [.lit cursor len] else .panic) else .ok []
  | (m0, m1) :: rest, cursor =>
    if ¬ sliceOK len cursor m0 then .panic
    else if ¬ sliceOK len m0 m1 then .panic
    else if ¬ sliceOK len (m0 + 2) (m1 - 1) then .panic
    else (bstrSegs len rest m1).bind fun t => .ok (.lit cursor m0 :: .code (m0 + 2) (m1 - 1) :: t)

def bstrUnmarshal (s : List Char) : Outcome (List BSeg) :=
  bstrSegs s.length (bstrMatches s (s.length + 1) 0) 0

/-! ## GetRows: result accounting of the streaming reader -/

/-- the loop of `GetRows` over the iterations of `rows.Next()`: each iteration delivers an empty or a
non-empty row (`true`); state = (`len(results)`, `cur`, `maxVal`).  `make([][]string, emptyRows)` and the
final `results[:maxVal]` are explicit. -/
def getRowsLoop : List Bool → Nat → Int → Int → Outcome (Nat × Int)
  | [], len, _, maxVal => .ok (len, maxVal)
  | nonEmpty :: rest, len, cur, maxVal =>
    let cur1 := cur + 1
    if nonEmpty then
      let emptyRows := cur1 - maxVal - 1
      if emptyRows > 0 then getRowsLoop rest (len + emptyRows.toNat + 1) cur1 cur1
      else getRowsLoop rest (len + 1) cur1 cur1
    else getRowsLoop rest len cur1 maxVal

/-- `GetRows`: number of rows returned (`results[:maxVal]`) -/
def getRows (iters : List Bool) : Outcome Nat :=
  (getRowsLoop iters 0 0 0).bind fun (len, maxVal) =>
    if 0 ≤ maxVal ∧ maxVal ≤ (len : Int) then .ok maxVal.toNat else .panic

/-! ## cell images: value metadata and rich values (`getImageCellRel`, picture.go) -/

/-- `getImageCellRel` for a cell with `vm` and value `#VALUE!`: `vm` is the decoded `uint` attribute (the
subtraction `*c.Vm-1` wraps at 0), `nBk` = `len(vmd.Bk)` (`none`: no value metadata), `rcLen` = number of
`<rc>` in the addressed block, `v` = the `v` attribute of its first record (any int), `nRv` = number of
rich values.  `true` = a rich value was selected. -/
def imageCellRel (vm : Nat) (nBk : Option Nat) (rcLen : Nat → Nat) (v : Int) (nRv : Nat) : Outcome Bool :=
  match nBk with
  | none => .ok false
  | some n =>
    if vm < 1 ∨ vm > n then .ok false
    else
      let i : Nat := if vm = 0 then 18446744073709551615 else vm - 1   -- uint arithmetic
      if ¬ (i < n) then .panic                                          -- vmd.Bk[*c.Vm-1]
      else if rcLen i = 0 then .ok false
      else if ¬ (0 < rcLen i) then .panic                               -- .Rc[0]
      else if v < 0 ∨ v ≥ (nRv : Int) then .ok false
      else if ¬ inRange v nRv then .panic                               -- richValue.Rv[richValueIdx]
      else .ok true

/-! ## the streaming row iterator (`Rows.Next`, `Rows.Columns`, rows.go)

The XML decoder delivers tokens; what the iterator looks at: `<row>` start elements with their `r`
attribute (0 when absent), `<c>` start elements (handled by `rowXMLHandler`), `</sheetData>`, anything else. -/

inductive Tok where
  | row (r : Int)
  /-- `<c>`: `col` = column of a parsable `r` attribute, `bad` = unparsable `r`, `val` = yields a value -/
  | cell (col : Option Int) (bad : Bool) (val : Bool)
  | endData
  | other
  deriving Repr, DecidableEq

structure RowsState where
  cur : Int
  seek : Int
  /-- the `<row>` token `Next` keeps for `Columns` (its `r`) -/
  held : Option Int
  toks : List Tok
  deriving Repr

/-- the token loop of `Next` -/
def nextScan (cur seek : Int) : List Tok → Bool × Bool × RowsState
  | [] => (false, false, { cur := cur, seek := seek, held := none, toks := [] })
  | .row r :: rest =>
    if r ≠ 0 then
      (if r > (Facts.TotalRows : Int) then (false, true, { cur := cur + 1, seek := seek, held := none, toks := rest })
       else (true, false, { cur := r, seek := seek, held := some r, toks := rest }))
    else (true, false, { cur := cur + 1, seek := seek, held := some r, toks := rest })
  | .endData :: rest => (false, false, { cur := cur, seek := seek, held := none, toks := rest })
  | _ :: rest => nextScan cur seek rest

/-- `Rows.Next`: (found a row, ErrMaxRows, state) -/
def rowsNext (s : RowsState) : Bool × Bool × RowsState :=
  if s.cur ≥ s.seek + 1 then (true, false, { s with seek := s.seek + 1 })
  else
    let (ok, e, s') := nextScan s.cur (s.seek + 1) s.toks
    (ok, e, { s' with held := if ok then s'.held else s.held })

inductive ColErr where
  | none | maxRows | other
  deriving Repr, DecidableEq

/-- the token loop of `Columns`; `cells` = `len(rowIterator.cells)`, `cellCol` the running column -/
def columnsScan (cur seek : Int) (heldNil : Bool) (cells : Nat) (cellCol : Int) : List Tok → Nat × ColErr × RowsState
  | [] => (cells, .none, { cur := cur, seek := seek, held := none, toks := [] })
  | .row r :: rest =>
    if r > (Facts.TotalRows : Int) then (cells, .maxRows, { cur := cur, seek := seek, held := none, toks := rest })
    else
      let cur1 := if r ≠ 0 then r else if heldNil then cur + 1 else cur
      if cur1 > seek then (cells, .none, { cur := cur1, seek := seek, held := none, toks := rest })
      else columnsScan cur1 seek true cells cellCol rest
  | .cell col bad val :: rest =>
    if bad then (cells, .other, { cur := cur, seek := seek, held := none, toks := rest })
    else
      let cc : Int := match col with | some c => c | none => cellCol + 1
      let blank := cc - (cells : Int)
      let cells1 := if val then cells + (blank - 1).toNat + 1 else cells
      columnsScan cur seek true cells1 cc rest
  | .endData :: rest => (cells, .none, { cur := cur, seek := seek, held := none, toks := rest })
  | .other :: rest => columnsScan cur seek true cells cellCol rest

/-- `Rows.Columns`: (row length, error, state) -/
def rowsColumns (s : RowsState) : Nat × ColErr × RowsState :=
  if s.cur > s.seek then (0, .none, s)
  else match s.held with
    | some r => columnsScan s.cur s.seek false 0 0 (.row r :: s.toks)
    | none => columnsScan s.cur s.seek true 0 0 s.toks

/-- the loop of `GetRows` on top of the iterator: lengths of the rows delivered (`fuel` bounds the iterations) -/
def getRowsIter : Nat → RowsState → List Nat → List Nat × Bool
  | 0, _, acc => (acc.reverse, false)
  | fuel + 1, s, acc =>
    let (ok, e, s1) := rowsNext s
    if e then (acc.reverse, true)
    else if !ok then (acc.reverse, false)
    else
      let (n, ce, s2) := rowsColumns s1
      match ce with
      | .maxRows => (acc.reverse, true)
      | .other => (acc.reverse, false)
      | .none => getRowsIter fuel s2 (n :: acc)

/-! ## `namespaceStrictToTransitional` (lib.go): the tag-aware scanner over the bytes of a part

Position arithmetic only: which bytes are copied and which attribute values are handed to the URL
translation.  `rest` is always a suffix of the part; every index `rest[k]` and slice `rest[a:b]` the Go
code takes is an explicit bounds test here. -/

def isBlankB (c : Char) : Bool := c == ' ' || c == '\t' || c == '\n' || c == '\r'

/-- `rest[k]` with an arbitrary (possibly negative) index -/
def byteAtI (rest : List Char) (k : Int) : Option Char :=
  if 0 ≤ k ∧ k < (rest.length : Int) then rest[k.toNat]? else none

/-- the backward scan `for nameEnd > 0 && (rest[nameEnd-1] == '=' || blank) { nameEnd-- }` -/
def nsNameEnd (rest : List Char) : Nat → Int → Outcome Int
  | 0, e => .ok e
  | fuel + 1, e =>
    if e > 0 then
      match byteAtI rest (e - 1) with
      | none => .panic
      | some c => if c == '=' || isBlankB c then nsNameEnd rest fuel (e - 1) else .ok e
    else .ok e

/-- the backward scan `for nameStart > 0 && rest[nameStart-1] is neither blank nor '<' { nameStart-- }` -/
def nsNameStart (rest : List Char) : Nat → Int → Outcome Int
  | 0, b => .ok b
  | fuel + 1, b =>
    if b > 0 then
      match byteAtI rest (b - 1) with
      | none => .panic
      | some c => if !isBlankB c && c != '<' then nsNameStart rest fuel (b - 1) else .ok b
    else .ok b

/-- `bytes.IndexByte(l, c)` -/
def idxOfB (c : Char) : List Char → Option Nat
  | [] => none
  | x :: xs => if x == c then some 0 else (idxOfB c xs).map (· + 1)

inductive NsPiece where
  /-- bytes copied unchanged -/
  | copy (bs : List Char)
  /-- an attribute value handed to the URL translation (`xmlns`, `xmlns:*`, `Type`) -/
  | value (bs : List Char)
  deriving Repr, DecidableEq

def isNsName (name : List Char) : Bool :=
  name == "xmlns".toList || name.take 6 == "xmlns:".toList || name == "Type".toList

/-- the attribute loop of one start tag: `rest` begins with `<` (or, after a converted value, with its
closing quote); `j` is the scan position.  Result: the pieces written and the bytes left after the tag. -/
def nsTag : Nat → List Char → Nat → List NsPiece → Outcome (List NsPiece × List Char)
  | 0, rest, _, acc => .ok (acc ++ [.copy rest], [])
  | fuel + 1, rest, j, acc =>
    if j < rest.length then
      match byteAtI rest j with
      | none => .panic
      | some c =>
        if c == '>' then
          (if sliceOK rest.length 0 (j + 1) then .ok (acc ++ [.copy (rest.take (j + 1))], rest.drop (j + 1)) else .panic)
        else if c != '"' && c != '\'' then nsTag fuel rest (j + 1) acc
        else
          (nsNameEnd rest (j + 1) j).bind fun nameEnd =>
          (nsNameStart rest (j + 1) nameEnd).bind fun nameStart =>
            if ¬ (0 ≤ nameStart ∧ nameStart ≤ nameEnd ∧ nameEnd ≤ (rest.length : Int)) then .panic   -- rest[nameStart:nameEnd]
            else if ¬ sliceOK rest.length (j + 1) rest.length then .panic                              -- rest[j+1:]
            else
              match idxOfB c (rest.drop (j + 1)) with
              | none => .ok (acc ++ [.copy rest], [])
              | some closing =>
                let valueStart := j + 1
                let valueEnd := j + 1 + closing
                if isNsName ((rest.drop nameStart.toNat).take (nameEnd - nameStart).toNat) then
                  if ¬ (sliceOK rest.length 0 valueStart ∧ sliceOK rest.length valueStart valueEnd) then .panic
                  else nsTag fuel (rest.drop valueEnd) 1
                         (acc ++ [.copy (rest.take valueStart), .value ((rest.drop valueStart).take (valueEnd - valueStart))])
                else nsTag fuel rest (valueEnd + 1) acc
    else .ok (acc ++ [.copy rest], [])

def hasPrefixB (p : String) (l : List Char) : Bool := l.take p.length == p.toList

/-- `bytes.Index(l, pat)` -/
def idxOfSub (pat : List Char) : Nat → List Char → Option Nat
  | _, [] => none
  | k, x :: xs => if (x :: xs).take pat.length == pat then some k else idxOfSub pat (k + 1) xs

/-- the outer loop over the part -/
def nsScan : Nat → List Char → List NsPiece → Outcome (List NsPiece)
  | 0, content, acc => .ok (acc ++ [.copy content])
  | fuel + 1, content, acc =>
    match idxOfB '<' content with
    | none => .ok (acc ++ [.copy content])
    | some lt =>
      if ¬ sliceOK content.length 0 lt then .panic
      else
        let rest := content.drop lt
        let acc1 := acc ++ [.copy (content.take lt)]
        let skipTo : Option (Option Nat) :=
          if hasPrefixB "<!--" rest then some ((idxOfSub "-->".toList 0 rest).map (· + 3))
          else if hasPrefixB "<![CDATA[" rest then some ((idxOfSub "]]>".toList 0 rest).map (· + 3))
          else if hasPrefixB "<?" rest then some ((idxOfSub "?>".toList 0 rest).map (· + 2))
          else if hasPrefixB "</" rest || hasPrefixB "<!" rest then some ((idxOfB '>' rest).map (· + 1))
          else none
        match skipTo with
        | some none => .ok (acc1 ++ [.copy rest])
        | some (some e) =>
          if ¬ sliceOK rest.length 0 e then .panic else nsScan fuel (rest.drop e) (acc1 ++ [.copy (rest.take e)])
        | none =>
          (nsTag (rest.length + 1) rest 1 acc1).bind fun (acc2, left) =>
            if left.isEmpty then .ok acc2 else nsScan fuel left acc2

/-- `namespaceStrictToTransitional` on a part that mentions a Strict URL -/
def nsStrict (content : List Char) : Outcome (List NsPiece) := nsScan (content.length + 1) content []

end XlModel.Decode
