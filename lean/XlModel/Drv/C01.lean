import XlModel.Bstr
import XlModel.SaveGrid
import XlModel.SaveCols
import XlModel.SaveBook
import XlModel.SaveMerge
import XlModel.SaveSst
import XlModel.Drv.Util
/-
Line protocol of C01 (see harness/cmd/vh/c01.go):

  bm <hex>        bstrMarshal                      -> <hex>
  bu <hex>        bstrUnmarshal                    -> <hex>
  tcv <hex>       trimCellValue(s,false)           -> <hex> <0|1>
  setstr <hex>    SetCellStr on a real file        -> st=<stored> mem=<read in memory> re=<read after save+open> S=<spec>
  trim <grid>     trimRow                          -> ok <grid>
  dens <grid>     checkSheet; checkRow             -> ok <grid> | ERR | PANIC
  cycle <grid>    trimRow; (xml); checkSheet; checkRow
  puts n {j i k v} SetCellInt / SetCellBool in order on a new worksheet (cell slot j, row slot i): the internal
                  <sheetData> afterwards (model: SaveBook.writeCell = prepareSheetXML + fillColumns + setter)
  rowseq n {k i v} SetRowHeight / SetRowVisible / SetRowOutlineLevel in order on a new worksheet: <sheetData> afterwards
  colseq n {k a b v} SetColWidth(a..b, v) / SetColOutlineLevel(a, v) in order on a new worksheet: the <cols> list afterwards
                  (model: SaveCols.setCols = flatCols with the setter's replacer)
  styleseq n {k a b c d e}  SetCellInt (p j i _ _ v) and SetCellStyle over a rectangle (s j1 i1 j2 i2 id) in order on a new
                  worksheet: <sheetData> afterwards (model: SaveBook.styleRect = writeCell with setStyle over the rectangle)
  sstseq n1 {hex} n2 {hex}  SetCellStr on A1.., save+open, SetCellStr on the next cells: shared-string index of every
                  cell and the table (model: SaveSst.setCellString, SaveSst.opened)
  mergeseq n {x1 y1 x2 y2} MergeCell calls (corners in any order) on a new worksheet; answer = the stored merged-range list (SaveMerge.mergeCell)
  mergeops n {m|u x1 y1 x2 y2} MergeCell / UnmergeCell calls in order on a new worksheet; answer = the stored merged-range list (SaveMerge.mergeCell / unmergeCell)
  hmerge n {c1 r1 c2 r2} the stored merged-range list of a worksheet before a real save; answer = the stored list after
                  OpenReader (model: SaveMerge.normalize = flatMergedCells)
  hbook <book>    sheet list / visibility / active tab / merged ranges / defined names of a generated workbook
                  before a real save; answer = the same after OpenReader (model: SaveBook.cycleBook)
  setint <n>      SetCellInt on A1 of a real file: raw value before, after save+open, type, displayed value
  setbool <0|1>   SetCellBool likewise
  mcols <cols>    mergeExpandedCols (hook)         -> ok <cols>
  hmcols <cols>   same; <cols> = a sheet's column definitions before a real save, answer = after OpenReader
  hcycle <grid>   same; the implementation side is a real save + open of a workbook

Strings are hex of UTF-8 ("-" = empty); invalid UTF-8 is outside the property's
quantifier and answered `invalid-utf8` by both sides.
grid := nrows { r spans s cf ht hidden ch ol coll tt tb ph ncells { ref s t v f is } }
-/
namespace XlModel.Drv.C01
open XlModel XlModel.Drv XlModel.Bstr XlModel.Grid

def toBytes (l : List Char) : ByteArray := ByteArray.mk (l.map (fun c => UInt8.ofNat c.toNat)).toArray

/-- hex of UTF-8 bytes -> code points -/
def decodeU (h : String) : Option (List Char) :=
  match unhexS h with
  | none => none
  | some bytes => (String.fromUTF8? (toBytes bytes)).map String.toList

def encodeU (s : List Char) : String := hexS (bytesOf (String.ofList s))

def optU (h : String) : Option (Option (List Char)) :=
  if h = "~" then some none else (decodeU h).map some

def showOpt : Option (List Char) → String
  | none => "~" | some s => encodeU s

def b01 (b : Bool) : String := if b then "1" else "0"
def p01 (s : String) : Option Bool := if s = "1" then some true else if s = "0" then some false else none

def parseCells : Nat → List String → Option (List Cell × List String)
  | 0, w => some ([], w)
  | n + 1, ref :: s :: t :: v :: f :: is :: w =>
    match decodeU ref, s.toNat?, decodeU t, decodeU v, optU f, optU is with
    | some ref, some s, some t, some v, some f, some is =>
      (parseCells n w).map fun (cs, w') => (⟨ref, s, t, v, f, is⟩ :: cs, w')
    | _, _, _, _, _, _ => none
  | _, _ => none

def parseRows : Nat → List String → Option (List Row × List String)
  | 0, w => some ([], w)
  | n + 1, r :: sp :: s :: cf :: ht :: hid :: ch :: ol :: coll :: tt :: tb :: ph :: nc :: w =>
    match r.toNat?, decodeU sp, s.toNat?, p01 cf, optU ht, p01 hid, p01 ch, ol.toNat?, p01 coll, p01 tt, p01 tb, p01 ph, nc.toNat? with
    | some r, some sp, some s, some cf, some ht, some hid, some ch, some ol, some coll, some tt, some tb, some ph, some nc =>
      match parseCells nc w with
      | some (cs, w') => (parseRows n w').map fun (rs, w'') => (⟨r, ⟨sp, s, cf, ht, hid, ch, ol, coll, tt, tb, ph⟩, cs⟩ :: rs, w'')
      | none => none
    | _, _, _, _, _, _, _, _, _, _, _, _, _ => none
  | _, _ => none

def parseGrid (w : List String) : Option (List Row) :=
  match w with
  | n :: rest => match n.toNat? with
    | some n => match parseRows n rest with
      | some (rs, []) => some rs
      | _ => none
    | none => none
  | [] => none

def showCell (c : Cell) : String :=
  s!" {encodeU c.ref} {c.s} {encodeU c.t} {encodeU c.v} {showOpt c.f} {showOpt c.is}"

def showRow (r : Row) : String :=
  let a := r.attrs
  s!" {r.r} {encodeU a.spans} {a.s} {b01 a.customFormat} {showOpt a.ht} {b01 a.hidden} {b01 a.customHeight} {a.outlineLevel} {b01 a.collapsed} {b01 a.thickTop} {b01 a.thickBot} {b01 a.ph} {r.cells.length}" ++
    String.join (r.cells.map showCell)

def showGrid (rs : List Row) : String := s!"{rs.length}" ++ String.join (rs.map showRow)

def showRes : Res (List Row) → String
  | .ok rs => "ok " ++ showGrid rs
  | .err => "E_REF"
  | .panic => "PANIC"

def parseCols : Nat → List String → Option (List SaveCols.Col × List String)
  | 0, w => some ([], w)
  | n + 1, mn :: mx :: bf :: co :: cw :: hi :: ol :: ph :: st :: wd :: w =>
    match mn.toNat?, mx.toNat?, p01 bf, p01 co, p01 cw, p01 hi, ol.toNat?, p01 ph, st.toNat?, optU wd with
    | some mn, some mx, some bf, some co, some cw, some hi, some ol, some ph, some st, some wd =>
      (parseCols n w).map fun (cs, w') => (⟨mn, mx, ⟨bf, co, cw, hi, ol, ph, st, wd⟩⟩ :: cs, w')
    | _, _, _, _, _, _, _, _, _, _ => none
  | _, _ => none

def showCol (c : SaveCols.Col) : String :=
  s!" {c.min} {c.max} {b01 c.a.bestFit} {b01 c.a.collapsed} {b01 c.a.customWidth} {b01 c.a.hidden} {c.a.outline} {b01 c.a.phonetic} {c.a.style} {showOpt c.a.width}"

def showCols (l : List SaveCols.Col) : String := s!"{l.length}" ++ String.join (l.map showCol)

def stepCols (w : List String) : String :=
  match w with
  | n :: rest => match n.toNat? with
    | some n => match parseCols n rest with
      | some (cs, []) => "ok " ++ showCols (SaveCols.mergeCols cs)
      | _ => "bad-op"
    | none => "bad-op"
  | [] => "bad-op"

/-! workbook-level ops -/
open XlModel.SaveBook

def parseVis (s : String) : Option Vis :=
  if s = "v" then some .visible else if s = "h" then some .hidden else if s = "vh" then some .veryHidden else none

def showVis : Vis → String
  | .visible => "v" | .hidden => "h" | .veryHidden => "vh"

def parseStrs : Nat → List String → Option (List (List Char) × List String)
  | 0, w => some ([], w)
  | n + 1, h :: w => match decodeU h with
    | some s => (parseStrs n w).map fun (l, w') => (s :: l, w')
    | none => none
  | _, _ => none

def parseSheets : Nat → List String → Option (List Sheet × List String)
  | 0, w => some ([], w)
  | n + 1, nm :: vis :: k :: w =>
    match decodeU nm, parseVis vis, k.toNat? with
    | some nm, some vis, some k => match parseStrs k w with
      | some (ms, w') => (parseSheets n w').map fun (l, w'') => (⟨nm, vis, [], [], ms⟩ :: l, w'')
      | none => none
    | _, _, _ => none
  | _, _ => none

def parseNames : Nat → List String → Option (List DefName × List String)
  | 0, w => some ([], w)
  | n + 1, nm :: rf :: cm :: sc :: w =>
    match decodeU nm, decodeU rf, decodeU cm with
    | some nm, some rf, some cm =>
      let scope := if sc = "~" then some none else sc.toNat?.map some
      match scope with
      | some scope => (parseNames n w).map fun (l, w') => (⟨nm, rf, cm, scope⟩ :: l, w')
      | none => none
    | _, _, _ => none
  | _, _ => none

def showBook (b : Book) : String :=
  s!"{b.active} {b.sheets.length}" ++
  String.join (b.sheets.map fun s => s!" {encodeU s.name} {showVis s.vis} {s.merges.length}" ++ String.join (s.merges.map fun m => " " ++ encodeU m)) ++
  s!" {b.names.length}" ++
  String.join (b.names.map fun d => s!" {encodeU d.name} {encodeU d.refersTo} {encodeU d.comment} " ++
    (match d.scope with | none => "~" | some k => toString k))

def stepBook (w : List String) : String :=
  match w with
  | act :: ns :: rest =>
    match act.toNat?, ns.toNat? with
    | some act, some ns => match parseSheets ns rest with
      | some (sheets, nn :: rest') => match nn.toNat? with
        | some nn => match parseNames nn rest' with
          | some (names, []) =>
            match cycleBook Bstr.xmlGo ⟨sheets, act, names, []⟩ with
            | .ok b => "ok " ++ showBook b
            | _ => "E_OPEN"
          | _ => "bad-op"
        | none => "bad-op"
      | _ => "bad-op"
    | _, _ => "bad-op"
  | _ => "bad-op"

/-- one cell `A1` with the given content on a dense one-row sheet, through the whole workbook cycle:
raw value before, raw value after, displayed boolean text after -/
def stepCellText (k : Grid.Content) : String :=
  let cell : Grid.Cell := ⟨"A1".toList, k.s, k.t, k.v, k.f, k.is⟩
  let b : Book := ⟨[⟨"Sheet1".toList, .visible, [⟨1, Grid.emptyAttrs, [cell]⟩], [], []⟩], 0, [], []⟩
  match cycleBook Bstr.xmlGo b with
  | .ok b' => match b'.sheets with
    | s' :: _ =>
      let k' := Grid.abs s'.rows 0 0
      s!"raw={encodeU (rawValue b.sst k)} re={encodeU (rawValue b'.sst k')} t={encodeU k'.t} shown={encodeU (if k'.t = ['b'] then boolText (rawValue b'.sst k') else rawValue b'.sst k')}"
    | [] => "E_OPEN"
  | _ => "E_OPEN"

/-- `puts n { j i kind val }`: cell writes on a new worksheet, in order -/
def applyPuts : Nat → List String → List Grid.Row → Option (List Grid.Row)
  | 0, [], rows => some rows
  | n + 1, j :: i :: kind :: val :: w, rows =>
    match j.toNat?, i.toNat?, val.toInt? with
    | some j, some i, some v =>
      let upd : Grid.Content → Grid.Content :=
        if kind = "b" then setBool (v != 0) else setInt v
      applyPuts n w (writeCell rows i j upd)
    | _, _, _ => none
  | _, _, _ => none

/-- `colseq n { kind c1 c2 val }`: column setters in order on a new worksheet -/
def applyColSeq : Nat → List String → Option (List SaveCols.Col) → Option (Option (List SaveCols.Col))
  | 0, [], st => some st
  | n + 1, kind :: c1 :: c2 :: val :: w, st =>
    match c1.toNat?, c2.toNat? with
    | some c1, some c2 =>
      if kind = "w" then
        match decodeU val with
        | some wd => applyColSeq n w (some (SaveCols.setCols st ⟨c1, c2, ⟨false, false, true, false, 0, false, 0, some wd⟩⟩ SaveCols.widthRep))
        | none => none
      else
        match val.toNat? with
        | some lv => applyColSeq n w (some (SaveCols.setCols st ⟨c1, c1, ⟨false, false, true, false, lv, false, 0, none⟩⟩ SaveCols.outlineRep))
        | none => none
    | _, _ => none
  | _, _, _ => none

/-- `rowseq n { kind i val }`: row-attribute setters in order on a new worksheet (row slot i) -/
def applyRowSeq : Nat → List String → List Grid.Row → Option (List Grid.Row)
  | 0, [], rows => some rows
  | n + 1, kind :: i :: val :: w, rows =>
    match i.toNat? with
    | some i =>
      if kind = "h" then
        match decodeU val with
        | some h => applyRowSeq n w (writeRowAttr rows i (rowHeight h))
        | none => none
      else if kind = "v" then applyRowSeq n w (writeRowAttr rows i (rowVisible (val = "1")))
      else match val.toNat? with
        | some lv => applyRowSeq n w (writeRowAttr rows i (rowOutline lv))
        | none => none
    | none => none
  | _, _, _ => none

def parseRects : Nat → List String → Option (List SaveMerge.Rect)
  | 0, [] => some []
  | n + 1, a :: b :: c :: d :: w =>
    match a.toNat?, b.toNat?, c.toNat?, d.toNat?, parseRects n w with
    | some a, some b, some c, some d, some l => some (⟨a, b, c, d⟩ :: l)
    | _, _, _, _, _ => none
  | _, _ => none

/-- `mergeops n {m|u x1 y1 x2 y2}`: MergeCell / UnmergeCell calls in order on the stored list -/
def applyMergeOps : Nat → List String → List SaveMerge.Rect → Option (List SaveMerge.Rect)
  | 0, [], l => some l
  | n + 1, k :: a :: b :: c :: d :: w, l =>
    match a.toNat?, b.toNat?, c.toNat?, d.toNat? with
    | some a, some b, some c, some d =>
      if k = "m" then applyMergeOps n w (SaveMerge.mergeCell l a b c d)
      else if k = "u" then applyMergeOps n w (SaveMerge.unmergeCell l a b c d)
      else none
    | _, _, _, _ => none
  | _, _, _ => none

def showRects (l : List SaveMerge.Rect) : String :=
  s!"{l.length}" ++ String.join (l.map fun m => s!" {m.c1} {m.r1} {m.c2} {m.r2}")

/-- `sstseq n1 {hex} n2 {hex}`: SetCellStr n1 times, save + open, SetCellStr n2 times: the indices written
into the cells and the table -/
def foldStrs : Nat → List String → SaveSst.State → List Nat → Option (SaveSst.State × List Nat × List String)
  | 0, w, st, acc => some (st, acc, w)
  | n + 1, h :: w, st, acc => match decodeU h with
    | some s => let p := SaveSst.setCellString st s; foldStrs n w p.1 (acc ++ [p.2])
    | none => none
  | _, _, _, _ => none

def stepSst (w : List String) : String :=
  match w with
  | n1 :: rest => match n1.toNat? with
    | some n1 => match foldStrs n1 rest ⟨[], []⟩ [] with
      | some (st1, idx1, n2 :: rest2) => match n2.toNat? with
        | some n2 => match foldStrs n2 rest2 (SaveSst.opened (st1.sst.map Bstr.xmlGo)) idx1 with
          | some (st2, idx, []) =>
            "idx=" ++ String.intercalate "," (idx.map toString) ++ s!" sst={st2.sst.length}" ++
              String.join (st2.sst.map fun t => " " ++ encodeU t)
          | _ => "bad-op"
        | none => "bad-op"
      | _ => "bad-op"
    | none => "bad-op"
  | [] => "bad-op"

/-- `styleseq n { kind a b c d e }`: `p j i _ _ v` = SetCellInt, `s j1 i1 j2 i2 st` = SetCellStyle -/
def applyStyleSeq : Nat → List String → List Grid.Row → Option (List Grid.Row)
  | 0, [], rows => some rows
  | n + 1, kind :: a :: b :: c :: d :: e :: w, rows =>
    match a.toNat?, b.toNat?, c.toNat?, d.toNat?, e.toInt? with
    | some a, some b, some c, some d, some e =>
      if kind = "p" then applyStyleSeq n w (writeCell rows b a (setInt e))
      else applyStyleSeq n w (styleRect rows b a d c e.toNat)
    | _, _, _, _, _ => none
  | _, _, _ => none

def step (w : List String) : String :=
  match w with
  | ["bm", h] => match decodeU h with
    | some s => encodeU (marshal s)
    | none => "invalid-utf8"
  | ["bu", h] => match decodeU h with
    | some s => encodeU (unmarshal s)
    | none => "invalid-utf8"
  | ["tcv", h] => match decodeU h with
    | some s => let (v, p) := trimCellValue s; encodeU v ++ " " ++ b01 p
    | none => "invalid-utf8"
  | ["setstr", h] => match decodeU h with
    | some s => s!"st={encodeU (storedText s)} mem={encodeU (readBack s)} re={encodeU (readBackReopened xmlGo s)} S={encodeU (spec s)}"
    | none => "invalid-utf8"
  | "trim" :: g => match parseGrid g with
    | some rs => "ok " ++ showGrid (trimRow rs)
    | none => "bad-op"
  | "dens" :: g => match parseGrid g with
    | some rs => showRes (densify rs)
    | none => "bad-op"
  | "cycle" :: g => match parseGrid g with
    | some rs => showRes (cycle rs)
    | none => "bad-op"
  | "puts" :: n :: g => match n.toNat? with
    | some n => match applyPuts n g [] with
      | some rows => "ok " ++ showGrid rows
      | none => "bad-op"
    | none => "bad-op"
  | "rowseq" :: n :: g => match n.toNat? with
    | some n => match applyRowSeq n g [] with
      | some rows => "ok " ++ showGrid rows
      | none => "bad-op"
    | none => "bad-op"
  | "colseq" :: n :: g => match n.toNat? with
    | some n => match applyColSeq n g none with
      | some st => "ok " ++ showCols (st.getD [])
      | none => "bad-op"
    | none => "bad-op"
  | "styleseq" :: n :: g => match n.toNat? with
    | some n => match applyStyleSeq n g [] with
      | some rows => "ok " ++ showGrid rows
      | none => "bad-op"
    | none => "bad-op"
  | "sstseq" :: g => stepSst g
  | "hmerge" :: n :: g => match n.toNat? with
    | some n => match parseRects n g with
      | some l => "ok " ++ showRects (SaveMerge.normalize l)
      | none => "bad-op"
    | none => "bad-op"
  | "mergeseq" :: n :: g => match n.toNat? with
    | some n => match parseRects n g with
      | some l => "ok " ++ showRects (l.foldl (fun acc m => SaveMerge.mergeCell acc m.c1 m.r1 m.c2 m.r2) [])
      | none => "bad-op"
    | none => "bad-op"
  | "mergeops" :: n :: g => match n.toNat? with
    | some n => match applyMergeOps n g [] with
      | some l => "ok " ++ showRects l
      | none => "bad-op"
    | none => "bad-op"
  | "hbook" :: g => stepBook g
  | ["setint", n] => match n.toInt? with
    | some n => stepCellText ⟨0, [], Ref.itoaInt n, none, none⟩
    | none => "bad-op"
  | ["setbool", b] => stepCellText ⟨0, ['b'], if b = "1" then ['1'] else ['0'], none, none⟩
  | "mcols" :: g => stepCols g
  | "hmcols" :: g => stepCols g
  | "hcycle" :: g => match parseGrid g with
    | some rs => showRes (cycle rs)
    | none => "bad-op"
  | _ => "bad-op"

def run : IO Unit := runStateless step

end XlModel.Drv.C01
