import XlModel.Save
import XlModel.Drv.Util
namespace XlModel.Drv.C02
open XlModel XlModel.Save XlModel.Drv

/-- driver state: implementation model, specification, and whether the
specification is meaningful for each sheet (not for crafted malformed parts) -/
structure St where
  wb : WB
  sp : Spec.Book

def dash (s : String) : String := if s = "" then "-" else s
def undash (s : String) : String := if s = "-" then "" else s

def showContent (c : Content) : String :=
  s!"{c.s}:{dash c.t}:{dash c.v}:" ++ (match c.f with | some f => f | none => "~")

def showCell (c : Cell) : String := s!" {c.col}.{c.row}=" ++ showContent c.c

def showRow (r : Row) : String :=
  s!" | R{r.r} h{if r.hidden then 1 else 0} n{r.cells.length}" ++ String.join (r.cells.map showCell)

def showRows (rows : List Row) : String :=
  s!"rows={rows.length}" ++ String.join (rows.map showRow)

def showDump (w : WS) : String :=
  match w.cache with
  | none => s!"evicted k={if w.checked then 1 else 0}"
  | some s => showRows s.rows ++ s!" k={if w.checked then 1 else 0} dense={if decide (Dense s) then 1 else 0}"

def showPkg (w : WS) : String :=
  match w.pkg with
  | none => "part none"
  | some rows => "part " ++ showRows rows

def showOut : Out → String
  | .done => "ok"
  | .err => "E_ARG"
  | .panic => "PANIC"
  | .unmodelled => "unmodelled"
  | .cell c f => "c=" ++ showContent c ++ " f=" ++ (match f with | some f => f | none => "~")
  | .vis b => if b then "v=1" else "v=0"

/-- `col.row.s.t.v.f` -/
def parseCell (w : String) : Option Cell :=
  match w.splitOn "." with
  | [c, r, s, t, v, f] =>
    match c.toNat?, r.toNat?, s.toNat? with
    | some c, some r, some s => some ⟨c, r, ⟨s, undash t, undash v, if f = "~" then none else some f⟩⟩
    | _, _, _ => none
  | _ => none

/-- crafted part: tokens `R.<r>.<0|1>` start a row, other tokens are cells -/
def parseRows : List String → Option (List Row) → List Row → Option (List Row)
  | [], _, acc => some acc.reverse
  | w :: ws, _, acc =>
    match w.splitOn "." with
    | ["R", r, h] => match r.toNat? with
      | some r => parseRows ws none (⟨r, h = "1", []⟩ :: acc)
      | none => none
    | _ => match parseCell w, acc with
      | some c, r :: rest => parseRows ws none ({ r with cells := r.cells ++ [c] } :: rest)
      | _, _ => none

def both (st : St) (op : Op) (withSpec : Bool) : St × String :=
  let (wb', o) := step st.wb op
  let (sp', so) := Spec.step st.sp op
  (⟨wb', sp'⟩, if withSpec then showOut o ++ " S=" ++ showOut so else showOut o)

def stepLine (st : St) (w : List String) : St × String :=
  let nat (s : String) := s.toNat?
  match w with
  | ["new"] => (⟨newFile, Spec.newFile⟩, "ok")
  | ["newsheet"] => both st .newSheet false
  | ["copy", a, b] => match nat a, nat b with
    | some a, some b => both st (.copy a b) false
    | _, _ => (st, "bad-op")
  | ["val", sh, c, r, t, v] => match nat sh, nat c, nat r with
    | some sh, some c, some r => both st (.setVal sh c r (undash t) (undash v)) false
    | _, _, _ => (st, "bad-op")
  | ["fml", sh, c, r, f] => match nat sh, nat c, nat r with
    | some sh, some c, some r => both st (.setFormula sh c r (undash f)) false
    | _, _, _ => (st, "bad-op")
  | ["sty", sh, c, r, s] => match nat sh, nat c, nat r, nat s with
    | some sh, some c, some r, some s => both st (.setStyle sh c r s) false
    | _, _, _, _ => (st, "bad-op")
  | ["hide", sh, r, h] => match nat sh, nat r with
    | some sh, some r => both st (.setHidden sh r (h = "1")) false
    | _, _ => (st, "bad-op")
  | ["get", sh, c, r] => match nat sh, nat c, nat r with
    | some sh, some c, some r => both st (.get sh c r) true
    | _, _, _ => (st, "bad-op")
  | ["iget", sh, c, r] => match nat sh, nat c, nat r with
    | some sh, some c, some r => both st (.get sh c r) false
    | _, _, _ => (st, "bad-op")
  | ["vis", sh, r] => match nat sh, nat r with
    | some sh, some r => both st (.vis sh r) true
    | _, _ => (st, "bad-op")
  | ["ivis", sh, r] => match nat sh, nat r with
    | some sh, some r => both st (.vis sh r) false
    | _, _ => (st, "bad-op")
  | ["save", _, _] => both st .save false
  | ["reopen"] => both st .reopen false
  | ["reopen", _] => both st .reopen false   -- with Options.UnzipXMLSizeLimit (parts spilled to temp files)
  | "craft" :: sh :: spec => match nat sh, parseRows spec none [] with
    | some sh, some rows =>
      match reopen st.wb with
      | .ok wb' =>
        match wb'.sheets[sh]? with
        | some w => (⟨⟨wb'.sheets.set sh { w with pkg := some rows }⟩, st.sp⟩, "ok")
        | none => (st, "E_ARG")
      | .err => (st, "E_ARG")
      | .panic => (st, "PANIC")
      | .unmodelled => (st, "unmodelled")
    | _, _ => (st, "bad-op")
  | ["dump", sh] => match nat sh with
    | some sh => match st.wb.sheets[sh]? with
      | some w => (st, showDump w)
      | none => (st, "E_ARG")
    | none => (st, "bad-op")
  | ["pkg", sh] => match nat sh with
    | some sh => match st.wb.sheets[sh]? with
      | some w => (st, showPkg w)
      | none => (st, "E_ARG")
    | none => (st, "bad-op")
  | _ => (st, "bad-op")

def run : IO Unit := runStateful (⟨newFile, Spec.newFile⟩ : St) stepLine

end XlModel.Drv.C02
