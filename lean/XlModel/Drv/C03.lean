import XlModel.Grid
import XlModel.GridPayload
import XlModel.GridLinks
import XlModel.Ref
import XlModel.Drv.Util
/-!
Line protocol driver for C03. State = (Impl sheet, Spec sheet). One output line per op.

  new <nStyles>
  val <kind[.variant]> <cell> <raw input>   typed write: the model computes the stored tokens (GridPayload)
  set <setter> <cell> <kind> <a> <b>        setter: int uint bool float str dflt rich ; kind: tv num inl clr
  time <cell> <kind> <a> <b> <style|~>      SetCellValue(time.Time): value at the anchor, style at the raw cell
  frm <cell> <formula|~>
  sty <cell> <cell> <id>
  gsty <cell>                               GetCellStyle (read-only)
  get <cell>
  mrg <cell> <cell> | unm <cell> <cell> | gm
  seq <dir> <cell> <n> {<setter> <kind> <a> <b>}^n     SetSheetRow (r) / SetSheetCol (c)
  shh <seed> <n>                            seeded shared-formula history on a scratch file (oracle only)
  scn <name> <variant>                      scratch-file scenario (oracle only; must answer ok)
  obs <c1> <r1> <c2> <r2>                   observation of a box through the getter; cross-checked with Spec
Cells are hex-encoded spellings, decoded by the C20 model. `~` is the empty token.
-/
namespace XlModel.Drv.C03
open XlModel XlModel.Grid XlModel.Drv

def tok (s : String) : String := if s = "~" then "" else s
def untok (s : String) : String := if s = "" then "~" else s
def otok : Option String → String
  | some s => s
  | none => "~"

def nameOf (c r : Nat) : String :=
  match Ref.coordinatesToCellName (c : Int) (r : Int) false with
  | .ok n => String.ofList n
  | .error _ => "?"

def rectRef (q : Rect) : String := nameOf q.c1 q.r1 ++ ":" ++ nameOf q.c2 q.r2

/-- the dump shows a shared-string cell's value as the table entry its index denotes -/
def vTok (sst : List Tok) (v : CellV) : String :=
  if v.v = "" then "-"
  else if v.t = "s" then
    match sstEntry? sst v.v with
    | some e => e
    | none => "!" ++ v.v
  else v.v

def cellTok (sst : List Tok) (v : CellV) : String :=
  s!"{v.s},{untok v.t},{vTok sst v},{otok v.is},{otok v.f}"

def dumpRow (sst : List Tok) (acc : String) (rd : Row) : String :=
  if rd.cells.isEmpty then acc else
  let cs := rd.cells.foldl (fun a c => if c.val.nonBlank then a ++ " " ++ nameOf c.col c.row ++ "=" ++ cellTok sst c.val else a) ""
  acc ++ s!" |{rd.r}:0:{rd.cells.length}" ++ cs

def dump (s : Sheet) : String :=
  let rows := s.rows.foldl (dumpRow s.sst) ""
  let ms := String.intercalate ";" (s.merges.map fun m =>
    rectRef m.ref ++ s!"@{m.rect.c1}.{m.rect.r1}.{m.rect.c2}.{m.rect.r2}")
  s!"rows={s.rows.length} dense={if denseB s.rows then 1 else 0} sst={s.sst.length}{rows} M={ms}"

/-- decode a spelling as the setters do (`mergeCellsParser` upper-cases first) -/
def decode (h : String) : Option (Except Unit (Nat × Nat) × List Char) :=
  match unhexS h with
  | none => none
  | some s =>
    let u := s.map Ref.toUpper
    match Ref.cellNameToCoordinates u with
    | .ok (c, r) => if c < 1 ∨ r < 1 then some (.error (), u) else some (.ok (c.toNat, r.toNat), u)
    | .error _ => some (.error (), u)

/-- `rangeRefToCoordinates(topLeft + ":" + bottomRight)` as MergeCell / UnmergeCell decode their
two arguments: `$` stripped, split at ':', the first two parts are used (so "A1:B2","C3" is A1:B2) -/
def decodeRange (h1 h2 : String) : Option (Except Unit (Nat × Nat × Nat × Nat)) :=
  match unhexS h1, unhexS h2 with
  | some a, some b =>
    match Ref.rangeRefToCoordinates (a ++ [':'] ++ b) with
    | .ok (c1, r1, c2, r2) =>
      if c1 < 1 ∨ r1 < 1 ∨ c2 < 1 ∨ r2 < 1 then some (.error ()) else some (.ok (c1.toNat, r1.toNat, c2.toNat, r2.toNat))
    | .error _ => some (.error ())
  | _, _ => none

/-- raw input of a typed write: `int <decimal>`, `uint <decimal>`, `bool 0|1`, `nil ~`,
`str <hex of the UTF-8 text | ->` -/
def parseValue (kind arg : String) : Option Value :=
  match (kind.splitOn ".").head? with
  | some "int" => arg.toInt?.map Value.int
  | some "uint" => arg.toNat?.map Value.uint
  | some "bool" => if arg = "1" then some (.bool true) else if arg = "0" then some (.bool false) else none
  | some "nil" => some .nil
  | some "str" =>
    match unhexS arg with
    | some bs =>
      match String.fromUTF8? (ByteArray.mk (bs.map fun c => c.toNat.toUInt8).toArray) with
      | some str => some (.str str.toList)
      | none => none
    | none => none
  | _ => none

def parsePayload (kind a b : String) : Option Payload :=
  match kind with
  | "tv" => some (.tv (tok a) (tok b))
  | "num" => some (.num (tok a))
  | "inl" => some (.inl (tok a))
  | "clr" => some .clr
  | "sst" => some (.sst a)
  | _ => none

def parseSetter0 : String → Option Setter
  | "int" => some .int | "uint" => some .uint | "bool" => some .bool | "float" => some .float
  | "str" => some .str | "dflt" => some .dflt | "rich" => some .rich | "time" => some .time
  | _ => none

/-- `setter[.variant]`: the variant only selects the Go API spelling of the same setter -/
def parseSetter (w : String) : Option Setter :=
  match w.splitOn "." with
  | s :: _ => parseSetter0 s
  | [] => none

structure St where
  links : Links := []
  impl : Sheet := {}
  spec : Spec.Sheet := Spec.init 1

def resTag (sst : List Tok) : Res → String
  | .ok => "ok" | .err => "E_REF" | .style n => s!"style {n}"
  | .merges l => "gm " ++ String.intercalate ";" (l.map fun m => rectRef m.ref)
  | .cell none => "none"
  | .cell (some c) => s!"{nameOf c.col c.row}={cellTok sst c.val}"

def apply (st : St) (op : Op) : St × Res :=
  let (i, r) := step st.impl op
  let (sp, _) := Spec.step st.spec op
  ({ st with impl := i, spec := sp }, r)

def out (st : St) (r : Res) : St × String := (st, resTag st.impl.sst r ++ " | " ++ dump st.impl)

/-- the getter looks the cell up by its canonical reference, whatever accepted spelling was given -/
def getOp (st : St) (c r : Nat) (_u : List Char) : String :=
  resTag st.impl.sst (getCell st.impl c r)

def seqOps (dir : String) (c r : Nat) : Nat → List String → Option (List Op)
  | _, [] => some []
  | i, s :: k :: a :: b :: rest =>
    match parseSetter s, parsePayload k a b, seqOps dir c r (i + 1) rest with
    | some s, some p, some tl => some ((if dir = "r" then Op.set s (c + i) r p else Op.set s c (r + i) p) :: tl)
    | _, _, _ => none
  | _, _ => none

/-- `setSheetCells`: stops at the first error (a coordinate beyond the grid) -/
def runSeq (st : St) (dir : String) : List Op → St × Res
  | [] => (st, .ok)
  | op :: rest =>
    let bad : Bool := match op with
      | .set _ c r _ => decide (c > Facts.MaxColumns ∨ r > Facts.TotalRows)
      | _ => false
    if bad then (st, .err) else
    let (st', r) := apply st op
    if r != .ok then (st', r) else runSeq st' dir rest

def obsLine (st : St) (c1 r1 c2 r2 : Nat) : String :=
  let pts := rowMajor ⟨c1, r1, c2, r2⟩
  let (line, bad) := pts.foldl (fun (acc : String × Bool) p =>
    let iv : CellV := match getCell st.impl p.1 p.2 with
      | .cell (some c) => c.val
      | _ => CellV.blank
    let sv := Spec.get st.spec p.1 p.2
    let acc1 := if iv.nonBlank then acc.1 ++ " " ++ nameOf p.1 p.2 ++ "=" ++ cellTok st.impl.sst iv else acc.1
    (acc1, acc.2 || iv != sv)) ("obs", false)
  if bad then line ++ " SPECDIFF" else line

def stepLine (st : St) (w : List String) : St × String :=
  match w with
  | ["new", n] => match n.toNat? with
    | some n => let st' : St := { links := [], impl := { nStyles := n }, spec := Spec.init n }; out st' .ok
    | none => (st, "bad-op")
  | ["val", k, h, arg] =>
    match parseValue k arg, decode h with
    | some v, some (.ok (c, r), _) => let (st', res) := apply st (v.op c r); out st' res
    | some _, some (.error _, _) => out st .err
    | _, _ => (st, "bad-op")
  | ["set", s, h, k, a, b] =>
    match parseSetter s, decode h, parsePayload k a b with
    | some s, some (.ok (c, r), _), some p => let (st', res) := apply st (.set s c r p); out st' res
    | some _, some (.error _, _), some _ => out st .err
    | _, _, _ => (st, "bad-op")
  | [tw, h, k, a, b, sid, _] =>
    if tw ≠ "time" ∧ tw ≠ "dur" then (st, "bad-op") else
    match decode h, parsePayload k a b with
    | some (.ok (c, r), _), some p =>
      let (st1, res) := apply st (.set (if tw = "time" then .time else .dflt) c r p)
      if res != .ok then out st1 res else
      match sid.toNat? with
      | some id =>
        -- setDefaultTimeStyle redirects the reference like the value write (fix): GetCellStyle, NewStyle,
        -- SetCellStyle all act on the anchor of the merged range containing the cell
        let a := anchor st1.impl.merges c r
        let (c, r) := a
        let (st2, _) := apply st1 (.getStyle c r)
        let st3 : St := { st2 with impl := { st2.impl with nStyles := max st2.impl.nStyles (id + 1) },
                                   spec := { st2.spec with nStyles := max st2.spec.nStyles (id + 1) } }
        let (st4, res4) := apply st3 (.style c r c r id)
        out st4 res4
      | none => out st1 res
    | some (.error _, _), some _ => out st .err
    | _, _ => (st, "bad-op")
  | ["frm", h, fm] =>
    match decode h with
    | some (.ok (c, r), _) => let (st', res) := apply st (.formula c r (tok fm)); out st' res
    | some (.error _, _) => out st .err
    | none => (st, "bad-op")
  | ["sty", h1, h2, id] =>
    match decode h1, decode h2, id.toInt? with
    | some (.ok (c1, r1), _), some (.ok (c2, r2), _), some id =>
      -- a negative id is rejected after the densification, like an id beyond the table
      let idn := if id < 0 then st.impl.nStyles else id.toNat
      let (st', res) := apply st (.style c1 r1 c2 r2 idn); out st' res
    | some _, some _, some _ => out st .err
    | _, _, _ => (st, "bad-op")
  | ["hl", h, l] =>
    match decode h with
    | some (.ok (c, r), _) =>
      let (ls, res) := setLink st.impl.merges st.links c r l
      out { st with links := ls } res
    | some (.error _, _) => out st .err
    | none => (st, "bad-op")
  | ["hlrm", h] =>
    match decode h with
    | some (.ok (c, r), _) =>
      let (ls, res) := unsetLink st.impl.merges st.links c r
      out { st with links := ls } res
    | some (.error _, _) => out st .err
    | none => (st, "bad-op")
  | ["hlget", h] =>
    match decode h with
    | some (.ok (c, r), _) =>
      match getLink st.impl.merges st.links c r with
      | some (some l) => (st, "link " ++ l)
      | some none => (st, "nolink")
      | none => (st, "E_REF")
    | some (.error _, _) => (st, "E_REF")
    | none => (st, "bad-op")
  -- self-contained scenarios run on a scratch file by the harness (code outside the grid model, e.g. shared
  -- formulas): the specification is "the calls return", the model answers `ok`
  | ["scn", _, _] => (st, "ok")
  -- a seeded history of shared-formula writes on a scratch file, judged by the harness' reference (oracle only)
  | ["shh", _, _] => (st, "ok")
  | ["gsty", h] =>
    match decode h with
    | some (.ok (c, r), _) => let (st', res) := apply st (.getStyle c r); out st' res
    | some (.error _, _) => out st .err
    | none => (st, "bad-op")
  | ["get", h] =>
    match decode h with
    | some (.ok (c, r), u) => (st, getOp st c r u)
    | some (.error _, _) => (st, "E_REF")
    | none => (st, "bad-op")
  | ["mrg", h1, h2] =>
    match decodeRange h1 h2 with
    | some (.ok (c1, r1, c2, r2)) => let (st', res) := apply st (.merge c1 r1 c2 r2); out st' res
    | some (.error _) => out st .err
    | none => (st, "bad-op")
  | ["unm", h1, h2] =>
    match decodeRange h1 h2 with
    | some (.ok (c1, r1, c2, r2)) => let (st', res) := apply st (.unmerge c1 r1 c2 r2); out st' res
    | some (.error _) => out st .err
    | none => (st, "bad-op")
  | ["gm"] => let (st', res) := apply st .getMerges; out st' res
  | "vseq" :: dir :: h :: n :: rest =>
    match decode h, n.toNat? with
    | some (.ok (c, r), _), some n =>
      if rest.length ≠ 2 * n then (st, "bad-op") else
      let rec vals : List String → Option (List Value)
        | [] => some []
        | k :: a :: tl => match parseValue k a, vals tl with
          | some v, some vs => some (v :: vs)
          | _, _ => none
        | _ => none
      match vals rest with
      | some vs =>
        -- the model function, cross-checked with the step-by-step execution that also drives Spec
        let m := setSheetCells st.impl (dir == "r") c r 0 vs
        let (st', res) := runSeq st dir (Grid.seqOps (dir == "r") c r 0 vs)
        let (st'', line) := out st' res
        (st'', if dump m.1 == dump st'.impl ∧ m.2 == res then line else line ++ " SEQDIFF")
      | none => (st, "bad-op")
    | some (.error _, _), some _ => out st .err
    | _, _ => (st, "bad-op")
  | "seq" :: dir :: h :: n :: rest =>
    match decode h, n.toNat? with
    | some (.ok (c, r), _), some n =>
      if rest.length ≠ 4 * n then (st, "bad-op") else
      match seqOps dir c r 0 rest with
      | some ops => let (st', res) := runSeq st dir ops; out st' res
      | none => (st, "bad-op")
    | some (.error _, _), some _ => out st .err
    | _, _ => (st, "bad-op")
  | ["obs", a, b, c, d] =>
    match a.toNat?, b.toNat?, c.toNat?, d.toNat? with
    | some a, some b, some c, some d => (st, obsLine st a b c d)
    | _, _, _, _ => (st, "bad-op")
  | _ => (st, "bad-op")

def run : IO Unit := runStateful ({} : St) stepLine

end XlModel.Drv.C03
