import XlModel.Readers
import XlModel.ReadersState
import XlModel.ReadersRender
import XlModel.Drv.Util
/-
Line protocol of C04 (one output line per input line):

  sheet ROW <r> <hidden> C <col> <row> <flags> <hexval> ... ROW ...
        define the worksheet part as read from the package (not yet cached);
        flags: bit0 = has <f>, bit1 = styled                     -> ok <rows> <cells>
  rows                GetRows on the current state                  -> ok <grid>
  cols                GetCols                                       -> ok <grid>
  search <hex>        SearchSheet literal                           -> ok <c.r,...> | ERR
  get <c> <r>         GetCellValue (caches the sheet first)         -> ok <hex> | ERR | PANIC
  vis <r>             GetRowVisible (caches the sheet first)        -> ok 0|1
  style <c> <r>       GetCellStyle: only its effect on the state    -> ok
  dump                the cached structure                          -> ok <rows>
  spec <c> <r>        Spec.value on the *raw* part (no state change; the harness prints
                      what GetRows of the raw part has at (c,r))   -> ok <hex>
-/
namespace XlModel.Drv.C04
open XlModel XlModel.Readers XlModel.Drv

structure St where
  raw : Sheet
  ws : WS

def parseCells : List String → List Cell → Option (List Cell × List String)
  | "C" :: c :: r :: fl :: h :: rest, acc =>
    match c.toNat?, r.toNat?, fl.toNat?, unhexS h with
    | some c, some r, some fl, some v => parseCells rest (acc ++ [⟨c, r, v, fl % 2 == 1, fl / 2 % 2 == 1⟩])
    | _, _, _, _ => none
  | rest, acc => some (acc, rest)

partial def parseRows : List String → List Row → Option (List Row)
  | [], acc => some acc
  | "ROW" :: r :: h :: rest, acc =>
    match r.toNat?, h.toNat? with
    | some r, some h =>
      match parseCells rest [] with
      | some (cs, rest') => parseRows rest' (acc ++ [⟨r, h == 1, cs⟩])
      | none => none
    | _, _ => none
  | _, _ => none

def showRow (r : List Val) : String :=
  if r.isEmpty then "~" else ",".intercalate (r.map hexS)

def showGrid (g : List (List Val)) : String :=
  if g.isEmpty then "ok ." else "ok " ++ "|".intercalate (g.map showRow)

def showCell (c : Cell) : String :=
  s!"{c.col}.{c.row}.{(if c.hasF then 1 else 0) + (if c.styled then 2 else 0)}.{hexS c.val}"

def showDump (s : Sheet) : String :=
  if s.isEmpty then "ok ." else
  "ok " ++ "|".intercalate (s.map fun r =>
    s!"R{r.r}h{if r.hidden then 1 else 0}:" ++ ",".intercalate (r.cells.map showCell))

def withLoaded (st : St) (k : WS → St × String) : St × String :=
  match st.ws.ensure with
  | .ok w => k w
  | .err => (st, "E_LOAD")
  | .panic => (st, "PANIC")

/-- the reference codec (C20) accepts the position: the getters cache the sheet first and
then reject a position outside the grid -/
def inGrid (c r : Nat) : Bool := 1 ≤ c && c ≤ Facts.MaxColumns && 1 ≤ r && r ≤ Facts.TotalRows

def step (st : St) (w : List String) : St × String :=
  match w with
  | "sheet" :: rest =>
    match parseRows rest [] with
    | some s => (⟨s, ⟨s, false⟩⟩, s!"ok {s.length} {(s.map (·.cells.length)).sum}")
    | none => (st, "bad-op")
  | ["rows"] => (st, if getRowsErr st.ws.view then "E_MAXROWS" else showGrid (getRows st.ws.view))
  | ["cols"] => (st, showGrid (getCols st.ws.view))
  | ["search", h] =>
    match unhexS h with
    | some v =>
      match searchSheet st.ws.view v with
      | .ok l => (st, if l.isEmpty then "ok ." else "ok " ++ ",".intercalate (l.map fun p => s!"{p.1}.{p.2}"))
      | .error e => (st, e.tag)
    | none => (st, "bad-op")
  | ["get", c, r] =>
    match c.toNat?, r.toNat? with
    | some c, some r => withLoaded st fun w =>
      (⟨st.raw, w⟩, if inGrid c r then "ok " ++ hexS (getCellValue w.sheet c r) else "E_COORDS")
    | _, _ => (st, "bad-op")
  | ["vis", r] =>
    match r.toNat? with
    | some r =>
      if r = 0 then (st, "E_ROWNUM") else
      withLoaded st fun w => (⟨st.raw, w⟩, if rowVisible w.sheet r then "ok 1" else "ok 0")
    | none => (st, "bad-op")
  | ["style", c, r] =>
    match c.toNat?, r.toNat? with
    | some c, some r => withLoaded st fun w =>
      if inGrid c r then (⟨st.raw, ⟨getCellStyleState w.sheet c r, true⟩⟩, "ok") else (⟨st.raw, w⟩, "E_COORDS")
    | _, _ => (st, "bad-op")
  | "mergewit" :: c :: r :: rest =>
    -- a cell (c,r) = "v" outside every given range; MergeCell each range; GetCellValue, GetMergeCells, GetCellValue
    match c.toNat?, r.toNat?, rest.mapM (·.toNat?) with
    | some c, some r, some ns =>
      let rec rects : List Nat → List Grid.MObj
        | a :: b :: c2 :: d :: t => mrange a b c2 d :: rects t
        | _ => []
      let ms := rects ns
      let sh : Sheet := (List.range r).map fun i =>
        ⟨i + 1, false, if i + 1 = r then [⟨c, r, ['v'], false, false⟩] else []⟩
      let b := if getCellValueM sh ms c r = ['v'] then 1 else 0
      let ms' := getMergeCellsState ms
      let a := if getCellValueM sh ms' c r = ['v'] then 1 else 0
      (st, s!"ok {b} {(getMergeCellsResult ms).length} {a}")
    | _, _, _ => (st, "bad-op")
  | "sst" :: items =>
    -- shared string items `p:<hex>` (plain) / `r:<hex>:<hex>` (two runs); a row of cells t="s"
    -- referring to them in order, read by GetRows from a workbook opened with the part spilled
    let parse (w : String) : Option SI :=
      match w.splitOn ":" with
      | ["p", h] => (unhexS h).map fun v => ⟨some v, []⟩
      | ["r", h1, h2] => match unhexS h1, unhexS h2 with
        | some a, some b => some ⟨none, [a, b]⟩
        | _, _ => none
      | _ => none
    match items.mapM parse with
    | some is => (st, if is.isEmpty then "bad-op" else "ok " ++ showRow (spillStrings is))
    | none => (st, "bad-op")
  | "typed" :: raw :: rest =>
    -- typed <raw 0|1> <sst items…> / <cells…>: items `p:<hex>` / `r:<hex>:<hex>`; cells
    -- `<t>:<hexV>` with t ∈ b,d,s,str,e,n or `is:<item>` (inline string); a row of these cells
    let item (w : String) : Option SI :=
      match w.splitOn ":" with
      | ["p", h] => (unhexS h).map fun v => ⟨some v, []⟩
      | ["r", h1, h2] => match unhexS h1, unhexS h2 with
        | some a, some b => some ⟨none, [a, b]⟩
        | _, _ => none
      | _ => none
    let cell (w : String) : Option (CellT × Val × Option SI) :=
      match w.splitOn ":" with
      | "is" :: it => (item (":".intercalate it)).map fun x => (CellT.inlineStr, [], some x)
      | [t, h] =>
        let ty : Option CellT := match t with
          | "b" => some .b | "d" => some .d | "s" => some .s | "str" => some .str
          | "e" => some .e | "n" => some .n | _ => none
        match ty, unhexS h with
        | some ty, some v => some (ty, v, none)
        | _, _ => none
      | _ => none
    let (its, cs) := (rest.takeWhile (· ≠ "/"), (rest.dropWhile (· ≠ "/")).drop 1)
    match its.mapM item, cs.mapM cell with
    | some sst, some cells =>
      if cells.isEmpty || !(raw = "0" || raw = "1") then (st, "bad-op") else
      let tcs : List TCell := cells.mapIdx fun i c => ⟨i + 1, 1, c.1, c.2.1, c.2.2, false⟩
      let sh := toSheet sst (raw = "1") [⟨1, false, tcs⟩]
      (st, "ok " ++ showRow ((getRows sh)[0]?.getD []))
    | _, _ => (st, "bad-op")
  | ["dump"] => withLoaded st fun w => (⟨st.raw, w⟩, showDump w.sheet)
  | ["spec", c, r] =>
    match c.toNat?, r.toNat? with
    | some c, some r => (st, "ok " ++ hexS (value st.raw c r))
    | _, _ => (st, "bad-op")
  | _ => (st, "bad-op")

def run : IO Unit := runStateful (⟨[], ⟨[], false⟩⟩ : St) step

end XlModel.Drv.C04
