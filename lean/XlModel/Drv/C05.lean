import XlModel.Pkg
import XlModel.Drv.Util
/-!
Line protocol of C05.

`g.*`  lines carry the part graph of one saved package (extracted by the
       harness with archive/zip + encoding/xml); `g.end` evaluates `WF` and
       prints `wf ok` or `wf FAIL <conjunct> :: <detail>`.
`bk.*` lines drive `Pkg.Impl` (relationship / content-type / sheet-list
       bookkeeping, save-time trimming) and print the canonical dump that the
       harness obtains from the real `*File` through the `VerifC05…` hooks.
-/
namespace XlModel.Drv.C05
open XlModel XlModel.Pkg XlModel.Drv

structure St where
  g : PkgG := {}
  ws : Option WsG := none
  book : Impl.Book := Impl.initBook
  /-- relationship list of Sheet1 (`none`: no relationships part yet) -/
  srels : Option (List Rel) := none

def nat? (s : String) : Option Nat := s.toNat?

def splitBar (s : String) : List String := s.splitOn "|"
def splitComma (s : String) : List String := s.splitOn ","

def parseCell (tok : String) : Option CellG :=
  match splitComma tok with
  | [r, s, t, v, f] =>
    match unhexS r, nat? s, unhexS t with
    | some r, some s, some t => some ⟨r, s, t, if v = "-" then none else nat? v, f = "1"⟩
    | _, _, _ => none
  | _ => none

def parseRel (tok : String) : Option Rel :=
  match splitBar tok with
  | [i, t, g, m] =>
    match unhexS i, unhexS t, unhexS g, unhexS m with
    | some i, some t, some g, some m => some ⟨i, t, g, m⟩
    | _, _, _, _ => none
  | _ => none

def parsePair (tok : String) : Option (Str × Str) :=
  match splitBar tok with
  | [a, b] => match unhexS a, unhexS b with
    | some a, some b => some (a, b)
    | _, _ => none
  | _ => none

def allSome {α} : List (Option α) → Option (List α)
  | [] => some []
  | none :: _ => none
  | some a :: rest => (allSome rest).map (a :: ·)

def parseXf (tok : String) : Option XfG :=
  match splitComma tok with
  | [a, b, c, d, e] =>
    match nat? a, nat? b, nat? c, nat? d, parseInt? e with
    | some a, some b, some c, some d, some e => some ⟨a, b, c, d, e⟩
    | _, _, _, _, _ => none
  | _ => none

/-- finish the graph: lists were accumulated in reverse -/
def finish (g : PkgG) : PkgG :=
  { g with parts := g.parts.reverse, badXml := g.badXml.reverse, defaults := g.defaults.reverse,
           overrides := g.overrides.reverse, rels := g.rels.reverse, sheets := g.sheets.reverse,
           dnames := g.dnames.reverse, rids := g.rids.reverse, wss := g.wss.reverse,
           calcs := g.calcs.reverse, tables := g.tables.reverse, comments := g.comments.reverse,
           childOrder := g.childOrder.reverse }

def closeWs (st : St) : St :=
  match st.ws with
  | none => st
  | some w =>
    let w' := { w with rows := w.rows.reverse, merges := w.merges.reverse, dxfIds := w.dxfIds.reverse }
    { st with ws := none, g := { st.g with wss := w' :: st.g.wss } }

def gStep (st : St) (w : List String) : Option (St × String) :=
  let g := st.g
  match w with
  | ["g.pkg"] => some ({ st with g := {}, ws := none }, ".")
  | ["g.part", p] => (unhexS p).map fun p => ({ st with g := { g with parts := p :: g.parts } }, ".")
  | ["g.bad", p, i] => match unhexS p, unhexS i with
    | some p, some i => some ({ st with g := { g with badXml := (p, i) :: g.badXml } }, ".")
    | _, _ => none
  | ["g.def", e, c] => match unhexS e, unhexS c with
    | some e, some c => some ({ st with g := { g with defaults := (e, c) :: g.defaults } }, ".")
    | _, _ => none
  | ["g.ovr", p, c] => match unhexS p, unhexS c with
    | some p, some c => some ({ st with g := { g with overrides := (p, c) :: g.overrides } }, ".")
    | _, _ => none
  | ["g.rel", rp, r] => match unhexS rp, parseRel r with
    | some rp, some r => some ({ st with g := { g with rels := (rp, r) :: g.rels } }, ".")
    | _, _ => none
  | ["g.sheet", n, i, r] => match unhexS n, parseInt? i, unhexS r with
    | some n, some i, some r => some ({ st with g := { g with sheets := ⟨n, i, r⟩ :: g.sheets } }, ".")
    | _, _, _ => none
  | ["g.dname", n, i] => match unhexS n, parseInt? i with
    | some n, some i => some ({ st with g := { g with dnames := (n, i) :: g.dnames } }, ".")
    | _, _ => none
  | ["g.rid", p, r] => match unhexS p, unhexS r with
    | some p, some r => some ({ st with g := { g with rids := (p, r) :: g.rids } }, ".")
    | _, _ => none
  | ["g.ws", p] => (unhexS p).map fun p => ({ closeWs st with ws := some ⟨p, [], [], []⟩ }, ".")
  | "g.row" :: r :: cells =>
    match st.ws, parseInt? r, allSome (cells.map parseCell) with
    | some w, some r, some cs => some ({ st with ws := some { w with rows := ⟨r, cs⟩ :: w.rows } }, ".")
    | _, _, _ => none
  | ["g.merge", m] => match st.ws, unhexS m with
    | some w, some m => some ({ st with ws := some { w with merges := m :: w.merges } }, ".")
    | _, _ => none
  | ["g.dxf", d] => match st.ws, nat? d with
    | some w, some d => some ({ st with ws := some { w with dxfIds := d :: w.dxfIds } }, ".")
    | _, _ => none
  | ["g.wsend"] => some (closeWs st, ".")
  | "g.styles" :: fo :: fi :: bo :: cs :: dx :: nf :: xfs =>
    match nat? fo, nat? fi, nat? bo, nat? cs, nat? dx,
          (if nf = "-" then some [] else allSome ((splitComma nf).map nat?)), allSome (xfs.map parseXf) with
    | some fo, some fi, some bo, some cs, some dx, some nf, some xfs =>
      some ({ st with g := { g with styles := ⟨true, nf, fo, fi, bo, cs, dx, xfs⟩ } }, ".")
    | _, _, _, _, _, _, _ => none
  | "g.order" :: p :: root :: kids => match unhexS p, unhexS root, allSome (kids.map unhexS) with
    | some p, some root, some kids => some ({ st with g := { g with childOrder := (p, root, kids) :: g.childOrder } }, ".")
    | _, _, _ => none
  | ["g.sst", n] => (nat? n).map fun n => ({ st with g := { g with sst := some n } }, ".")
  | ["g.cc", r, i] => match unhexS r, parseInt? i with
    | some r, some i => some ({ st with g := { g with calcs := (r, i) :: g.calcs } }, ".")
    | _, _ => none
  | ["g.table", p, i, n, r] => match unhexS p, nat? i, unhexS n, unhexS r with
    | some p, some i, some n, some r => some ({ st with g := { g with tables := ⟨p, i, n, r⟩ :: g.tables } }, ".")
    | _, _, _, _ => none
  | ["g.comment", p, a, i, r] => match unhexS p, nat? a, nat? i, unhexS r with
    | some p, some a, some i, some r => some ({ st with g := { g with comments := ⟨p, a, i, r⟩ :: g.comments } }, ".")
    | _, _, _, _ => none
  | ["g.end"] =>
    let st' := closeWs st
    let res := match allFails (finish st'.g) with
      | [] => "wf ok"
      | fs => "wf FAIL " ++ " ;; ".intercalate (fs.map fun (n, d) => n ++ " :: " ++ d)
    some ({ st' with g := {} }, res)
  | _ => none

/-! ### bookkeeping dumps (same text as the VerifC05Dump… hooks) -/

def insertSorted (x : String) : List String → List String
  | [] => [x]
  | y :: ys => if x < y then x :: y :: ys else y :: insertSorted x ys

def sortStrs (xs : List String) : List String := xs.foldl (fun acc x => insertSorted x acc) []

def dumpRels (rels : List Rel) : String :=
  s!"n={rels.length}" ++ String.join (rels.map fun r => " " ++ hexS r.id ++ "|" ++ hexS r.type ++ "|" ++ hexS r.target ++ "|" ++ hexS r.mode)

def dumpCT (ct : Impl.CT) : String :=
  s!"ovr={ct.overrides.length}" ++ String.join (ct.overrides.map fun o => " " ++ hexS o.1 ++ "|" ++ hexS o.2) ++
  s!" def={ct.defaults.length}" ++ String.join ((sortStrs (ct.defaults.map fun d => hexS d.1 ++ "|" ++ hexS d.2)).map (" " ++ ·))

def dumpSheets (b : Impl.Book) : String :=
  s!"sheets={b.sheets.length}" ++ String.join (b.sheets.map fun s => " " ++ hexS s.name ++ "|" ++ toString s.sheetId ++ "|" ++ hexS s.rid) ++
  s!" count={b.sheetCount}" ++ s!" parts={b.wsParts.length}" ++
  String.join ((sortStrs (b.wsParts.map ls)).map fun p => " " ++ hexS p.toList)

def dumpBook (b : Impl.Book) : String := dumpCT b.ct ++ " ; " ++ dumpRels b.wbRels ++ " ; " ++ dumpSheets b

/-- `r a c1 r1 v1 c2 r2 v2 …` separated by `/` -/
def parseTrimRows (toks : List String) : Option (List Impl.Row) :=
  let rec cells : List Nat → Option (List Impl.Cell)
    | [] => some []
    | c :: r :: v :: rest => (cells rest).map (⟨c, r, v == 1⟩ :: ·)
    | _ => none
  allSome (toks.map fun t =>
    match allSome ((t.splitOn "/").map nat?) with
    | some (r :: a :: rest) => (cells rest).map fun cs => ⟨r, a == 1, cs⟩
    | _ => none)

def cellName (c : Impl.Cell) : String :=
  ls (Ref.numToName c.col) ++ toString c.row

def dumpRows (rows : List Impl.Row) : String :=
  s!"rows={rows.length}" ++ String.join (rows.map fun r => s!" R{r.r}:" ++ ",".intercalate (r.cells.map cellName))

/-- `key=N` ↦ N -/
def cnt? (key tok : String) : Option Nat :=
  if tok.startsWith (key ++ "=") then (tok.drop (key.length + 1)).toNat? else none

def parseSheetTok (tok : String) : Option SheetEnt :=
  match splitBar tok with
  | [n, i, r] => match unhexS n, parseInt? i, unhexS r with
    | some n, some i, some r => some ⟨n, i, r⟩
    | _, _, _ => none
  | _ => none

/-- parse the text of `dumpBook` back into a state (`bk.load`: the harness sends the dump of a real
workbook it opened, so that states the library cannot be driven into from NewFile are reachable) -/
def parseBook (w : List String) : Option Impl.Book := do
  let (t, w) ← w.head?.bind (fun t => some (t, w.drop 1))
  let n ← cnt? "ovr" t
  let ovr ← allSome ((w.take n).map parsePair)
  let w := w.drop n
  let (t, w) ← w.head?.bind (fun t => some (t, w.drop 1))
  let m ← cnt? "def" t
  let defs ← allSome ((w.take m).map parsePair)
  let w := w.drop m
  guard (w.head? == some ";")
  let w := w.drop 1
  let (t, w) ← w.head?.bind (fun t => some (t, w.drop 1))
  let k ← cnt? "n" t
  let rels ← allSome ((w.take k).map parseRel)
  let w := w.drop k
  guard (w.head? == some ";")
  let w := w.drop 1
  let (t, w) ← w.head?.bind (fun t => some (t, w.drop 1))
  let sN ← cnt? "sheets" t
  let sheets ← allSome ((w.take sN).map parseSheetTok)
  let w := w.drop sN
  let (t, w) ← w.head?.bind (fun t => some (t, w.drop 1))
  let c ← (if t.startsWith "count=" then (t.drop 6).toInt? else none)
  let (t, w) ← w.head?.bind (fun t => some (t, w.drop 1))
  let pN ← cnt? "parts" t
  let parts ← allSome ((w.take pN).map unhexS)
  some { ct := { defaults := defs, overrides := ovr }, wbRels := rels, sheets := sheets, wsParts := parts, sheetCount := c }

def bkStep (st : St) (w : List String) : Option (St × String) :=
  let b := st.book
  match w with
  | ["bk.new"] => some ({ st with book := Impl.initBook, srels := none }, dumpBook Impl.initBook)
  | "bk.load" :: rest => (parseBook rest).map fun b' => ({ st with book := b', srels := none }, dumpBook b')
  | ["bk.newsheet", n] => (unhexS n).map fun n =>
      let b' := Impl.newSheet b n
      ({ st with book := b' }, dumpBook b')
  | ["bk.delsheet", n] => (unhexS n).map fun n =>
      match Impl.deleteSheet b n with
      | .ok b' =>
        -- DeleteSheet also drops the relationships of the deleted sheet; `srels` is Sheet1's list
        let gone := b.sheets.any (fun s => Impl.eqFold s.name (sl "Sheet1")) &&
                    !(b'.sheets.any fun s => Impl.eqFold s.name (sl "Sheet1"))
        ({ st with book := b', srels := if gone then none else st.srels }, dumpBook b')
      | .panic => (st, "PANIC")
  | ["bk.addct", i, k] => match parseInt? i, unhexS k with
    | some i, some k =>
      let ct := Impl.addContentTypePart b.ct i k
      some ({ st with book := { b with ct := ct } }, dumpCT ct)
    | _, _ => none
  | ["bk.setct", p, c] => match unhexS p, unhexS c with
    | some p, some c =>
      let ct := Impl.setContentTypes b.ct p c
      some ({ st with book := { b with ct := ct } }, dumpCT ct)
    | _, _ => none
  | ["bk.rmct", c, p] => match unhexS c, unhexS p with
    | some c, some p =>
      match Impl.removeContentTypesPart b.ct c p with
      | .ok ct => some ({ st with book := { b with ct := ct } }, dumpCT ct)
      | .panic => some (st, "PANIC")
    | _, _ => none
  | "bk.setovr" :: ps => (allSome (ps.map parsePair)).map fun ps =>
      let ct := { b.ct with overrides := ps }
      ({ st with book := { b with ct := ct } }, dumpCT ct)
  | "bk.srels" :: rs => (allSome (rs.map parseRel)).map fun rs => ({ st with srels := some rs }, dumpRels rs)
  | ["bk.saddrel", t, g, m] => match unhexS t, unhexS g, unhexS m with
    | some t, some g, some m =>
      let (rs, n) := Impl.addRels (st.srels.getD []) t g m
      some ({ st with srels := some rs }, s!"rid={n} " ++ dumpRels rs)
    | _, _, _ => none
  | ["bk.ssetrel", i, t, g, m] => match unhexS i, unhexS t, unhexS g, unhexS m with
    | some i, some t, some g, some m =>
      -- setRels: `rels == nil || rID == ""` falls through to addRels
      let (rs, n) := match st.srels with
        | none => Impl.addRels [] t g m
        | some l => Impl.setRels l i t g m
      some ({ st with srels := some rs }, s!"rid={n} " ++ dumpRels rs)
    | _, _, _, _ => none
  | ["bk.sdelrel", i] => (unhexS i).map fun i =>
      match Impl.deleteRel (st.srels.getD []) i with
      | .ok rs => ({ st with srels := some rs }, dumpRels rs)
      | .panic => (st, "PANIC")
  | ["bk.copyrels"] =>
    -- CopySheet(Sheet1 → CopyT): relationships the copy receives
    if !(b.sheets.any fun s => Impl.eqFold s.name (sl "Sheet1")) || !(b.sheets.any fun s => Impl.eqFold s.name (sl "CopyT")) then
      some (st, "skip")
    else match st.srels with
      | none => some (st, "none")
      | some l => some (st, dumpRels (Impl.copyRels l))
  | "bk.trim" :: rows => (parseTrimRows rows).map fun rows => (st, dumpRows (Impl.trimRow rows))
  | _ => none

def step (st : St) (w : List String) : St × String :=
  match w with
  | [] => (st, "bad-op")
  | op :: _ =>
    let r := if op.startsWith "g." then gStep st w else if op.startsWith "bk." then bkStep st w
             else if op.startsWith "h." || op.startsWith "#" then some (st, ".") else none
    match r with
    | some x => x
    | none => (st, "bad-op")

/-- own loop: the verdict lines are flushed at once so that the harness can use
the driver as a co-process -/
partial def loopF (h : IO.FS.Stream) (out : IO.FS.Stream) (st : St) : IO Unit := do
  let line ← h.getLine
  if line.isEmpty then return ()
  let l := String.ofList (line.toList.filter (fun c => c != (Char.ofNat 10) && c != (Char.ofNat 13)))
  let (st', o) := step st (words l)
  out.putStrLn o
  if o != "." then out.flush
  loopF h out st'

def run : IO Unit := do
  let i ← IO.getStdin
  let o ← IO.getStdout
  loopF i o ({} : St)
  o.flush

end XlModel.Drv.C05
