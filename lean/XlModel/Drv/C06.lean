/-
Line-protocol driver for C06 (see design.d/C06.md for the protocol):

  new k | api … | sheet i DUMP | insrows i row n m | rmrow i row m |
  inscols i hexcol n m | rmcol i hexcol m | others i

The state is the list of worksheets of the current workbook. `sheet` loads the
model's state of one worksheet from the implementation's dump (all writes that
are not structural edits belong to other properties); the structural edits run
`XlModel.Adjust` and print the resulting dump plus the verdict of the
executable shift-rule spec on (state before, state after).
-/
import XlModel.Adjust
import XlModel.Drv.Util

namespace XlModel.Drv.C06
open XlModel XlModel.Adjust XlModel.Drv

/-! ### dump -/

def sepJoin (sep : String) (xs : List String) : String := sep.intercalate xs

def cellName (c r : Int) : String :=
  match Ref.coordinatesToCellName c r false with
  | .ok n => String.ofList n
  | .error _ => s!"!{c}.{r}"

def rectS (q : Rect) : String := s!"{q.x1}.{q.y1}.{q.x2}.{q.y2}"
def orectS : Option Rect → String
  | some q => rectS q
  | none => "!-"

def rowDense (r : Row) : Bool :=
  (r.cells.zipIdx.all fun (x, j) => x.c == (j : Int) + 1 && x.r == r.r)

def rowItem (r : Row) : Option String :=
  if r.hidden || r.attr != "-" || !r.cells.isEmpty then
    let cells := r.cells.filter Cell.hasValue |>.map fun x => s!"{cellName x.c x.r}~{x.s}~{x.v}"
    some s!"{r.r}/{if r.hidden then 1 else 0}/{r.attr}/{r.cells.length}/{if rowDense r then 1 else 0}/{sepJoin "," cells}"
  else none

def rowsDense (rows : List Row) : Bool := rows.zipIdx.all fun (r, k) => r.r == (k : Int) + 1

def dumpSheet (s : Sheet) : String :=
  let rowsS := sepJoin ";" (s.rows.filterMap rowItem)
  let colsS := sepJoin ";" (s.cols.map fun c => s!"{c.min}-{c.max}/{c.tok}")
  let mS := sepJoin ";" (s.merges.map orectS)
  let hS := sepJoin ";" (s.links.map fun l => (match l.pos with | some p => s!"{p.1}.{p.2}" | none => "!-") ++ "/" ++ l.tok)
  let sq (it : SqItem) := sepJoin "+" (it.rects.map rectS) ++ "/" ++ it.tok
  let vS := sepJoin ";" (s.dvs.map sq)
  let fS := sepJoin ";" (s.cfs.map sq)
  let aS := match s.filter with | none => "" | some q => orectS q
  let tS := sepJoin ";" (s.tables.map fun t => orectS t.rect ++ "/" ++ t.name)
  s!"n={s.rows.length}/{if rowsDense s.rows then 1 else 0} R[{rowsS}] C[{colsS}] M[{mS}] H[{hS}] V[{vS}] F[{fS}] A[{aS}] T[{tS}]"

def dumpTables (s : Sheet) : String :=
  "T[" ++ sepJoin ";" (s.tables.map fun t => orectS t.rect ++ "/" ++ t.name) ++ "]"

/-! ### load -/

def inner (w : String) : String := ((w.drop 2).dropEnd 1).toString

def splitNE (s sep : String) : List String := if s.isEmpty then [] else s.splitOn sep

def parseRect (s : String) : Option Rect :=
  match (s.splitOn ".").map String.toInt? with
  | [some a, some b, some c, some d] => some ⟨a, b, c, d⟩
  | _ => none

def parseCellItem (s : String) : Option Cell :=
  match s.splitOn "~" with
  | [name, st, tok] =>
    match Ref.cellNameToCoordinates name.toList, st.toNat? with
    | .ok (c, r), some sv => some ⟨c, r, sv, tok⟩
    | _, _ => none
  | _ => none

def parseRowItem (s : String) : Option Row :=
  match s.splitOn "/" with
  | [rs, hs, attr, ncs, ds, cellsS] =>
    match rs.toInt?, ncs.toNat? with
    | some r, some nc =>
      let listed := (splitNE cellsS ",").filterMap parseCellItem
      let cells :=
        if ds == "1" then
          (List.range nc).map fun (j : Nat) =>
            match listed.find? (fun x => x.c == (j : Int) + 1) with
            | some x => x
            | none => ⟨(j : Int) + 1, r, 0, blankTok⟩
        else listed
      some ⟨r, hs == "1", attr, cells⟩
    | _, _ => none
  | _ => none

def parseSq (s : String) : Option SqItem :=
  match s.splitOn "/" with
  | [rs, tok] =>
    let rects := (rs.splitOn "+").map parseRect
    if rects.all Option.isSome then some ⟨rects.filterMap id, tok⟩ else none
  | _ => none

def parseSheet (ws : List String) : Option Sheet :=
  match ws with
  | [nW, rW, cW, mW, hW, vW, fW, aW, tW] =>
    match (((nW.drop 2).toString.splitOn "/").headD "").toNat? with
    | none => none
    | some n =>
      let items := (splitNE (inner rW) ";").filterMap parseRowItem
      let rows := (List.range n).map fun (k : Nat) =>
        match items.find? (fun r => r.r == (k : Int) + 1) with
        | some r => r
        | none => ⟨(k : Int) + 1, false, "-", []⟩
      let cols := (splitNE (inner cW) ";").filterMap fun s =>
        match s.splitOn "/" with
        | [rng, tok] =>
          match rng.splitOn "-" with
          | [a, b] => match a.toInt?, b.toInt? with
            | some a, some b => some (⟨a, b, tok⟩ : Col)
            | _, _ => none
          | _ => none
        | _ => none
      let merges := (splitNE (inner mW) ";").map parseRect
      let links := (splitNE (inner hW) ";").filterMap fun s =>
        match s.splitOn "/" with
        | [p, tok] =>
          match (p.splitOn ".").map String.toInt? with
          | [some c, some r] => some (⟨some (c, r), tok⟩ : Link)
          | _ => some ⟨none, tok⟩
        | _ => none
      let dvs := (splitNE (inner vW) ";").filterMap parseSq
      let cfs := (splitNE (inner fW) ";").filterMap parseSq
      let a := inner aW
      let flt : Option (Option Rect) := if a.isEmpty then none else some (parseRect a)
      let tables := (splitNE (inner tW) ";").filterMap fun s =>
        match s.splitOn "/" with
        | [p, name] => some (⟨parseRect p, name⟩ : Tbl)
        | _ => none
      some ⟨rows, cols, merges, links, dvs, cfs, flt, tables⟩
  | _ => none

/-! ### executable shift-rule spec on (before, after) -/

inductive Op
  | ins (dir : Dir) (num k : Int)
  | del (dir : Dir) (num : Int)

def Op.dir : Op → Dir
  | .ins d _ _ => d
  | .del d _ => d

/-- new position of `p`, `none` = deleted -/
def Op.pos (o : Op) (p : Int) : Option Int :=
  match o with
  | .ins _ num k => some (Spec.posIns num k p)
  | .del _ num => if p = num then none else some (Spec.posDel num p)

def Op.iv (o : Op) (a b : Int) : Option (Int × Int) :=
  match o with
  | .ins _ num k => some (Spec.ivIns num k a b)
  | .del _ num => Spec.ivDel num a b

def Op.rect (o : Op) (q : Rect) : Option Rect :=
  match o.dir with
  | .rows => (o.iv q.y1 q.y2).map fun p => { q with y1 := p.1, y2 := p.2 }
  | .cols => (o.iv q.x1 q.x2).map fun p => { q with x1 := p.1, x2 := p.2 }

def Op.lim (o : Op) : Int := match o.dir with | .rows => maxRows | .cols => maxCols

def keyLe (a b : Int × Int × Nat × String) : Bool :=
  a.2.1 < b.2.1 || (a.2.1 == b.2.1 && a.1 ≤ b.1)

def gridOf (s : Sheet) : List (Int × Int × Nat × String) :=
  let all := s.rows.flatMap fun r => (r.cells.filter Cell.hasValue).map fun x => (x.c, x.r, x.s, x.v)
  let dedup := all.foldl (fun acc x => if acc.any (fun y => y.1 == x.1 && y.2.1 == x.2.1) then acc else acc ++ [x]) []
  dedup.mergeSort keyLe

def listedDense (s : Sheet) : Bool :=
  rowsDense s.rows && s.rows.all fun r => (r.cells.isEmpty && !r.hidden && r.attr == "-") || rowDense r

def gridOk (o : Op) (pre post : Sheet) : Bool :=
  let exp := (gridOf pre).filterMap fun (c, r, s, v) =>
    match o.dir with
    | .rows => (o.pos r).map fun r' => (c, r', s, v)
    | .cols => (o.pos c).map fun c' => (c', r, s, v)
  listedDense post && exp.mergeSort keyLe == gridOf post

def rowAttrOf (ignoreHidden : Bool) (s : Sheet) : List (Int × Bool × String) :=
  (s.rows.filterMap fun r =>
    if ignoreHidden then (if r.attr != "-" then some (r.r, false, r.attr) else none)
    else if r.hidden || r.attr != "-" then some (r.r, r.hidden, r.attr) else none).mergeSort
      (fun a b => a.1 ≤ b.1)

def rowAttrOk (o : Op) (pre post : Sheet) : Bool :=
  let ign := pre.filter.isSome && post.filter.isNone
  let exp := (rowAttrOf ign pre).filterMap fun (r, h, a) =>
    match o.dir with
    | .rows => (o.pos r).map fun r' => (r', h, a)
    | .cols => some (r, h, a)
  exp.mergeSort (fun a b => a.1 ≤ b.1) == rowAttrOf ign post

def colTok (cols : List Col) (c : Int) : String :=
  match cols.find? (fun x => x.min ≤ c && c ≤ x.max) with
  | some x => x.tok
  | none => "-"

def colAttrOk (o : Op) (pre post : Sheet) : Bool :=
  match o with
  | .ins .rows _ _ | .del .rows _ => pre.cols == post.cols
  | .ins .cols num k =>
    if pre.cols.isEmpty && post.cols.isEmpty then true else
    (List.range Facts.MaxColumns).all fun i =>
      let c : Int := (i : Int) + 1
      if c < num then colTok post.cols c == colTok pre.cols c
      else if c ≥ num + k then colTok post.cols c == colTok pre.cols (c - k)
      else true
  | .del .cols num =>
    if pre.cols.isEmpty && post.cols.isEmpty then true else
    (List.range Facts.MaxColumns).all fun i =>
      let c : Int := (i : Int) + 1
      if c < num then colTok post.cols c == colTok pre.cols c
      else colTok post.cols c == (if c + 1 > maxCols then "-" else colTok pre.cols (c + 1))

def rectLe (a b : Rect) : Bool :=
  a.y1 < b.y1 || (a.y1 == b.y1 && (a.x1 < b.x1 || (a.x1 == b.x1 && (a.y2 < b.y2 || (a.y2 == b.y2 && a.x2 ≤ b.x2)))))

def mergeOk (o : Op) (pre post : Sheet) : Bool :=
  let exp := (pre.merges.filterMap id).filterMap fun q =>
    match o.rect q with
    | some q' => if q'.x1 == q'.x2 && q'.y1 == q'.y2 then none else some q'
    | none => none
  post.merges.all Option.isSome && exp.mergeSort rectLe == (post.merges.filterMap id).mergeSort rectLe

def linkLe (a b : Int × Int × String) : Bool :=
  a.2.1 < b.2.1 || (a.2.1 == b.2.1 && (a.1 < b.1 || (a.1 == b.1 && a.2.2 ≤ b.2.2)))

def linkOk (o : Op) (pre post : Sheet) : Bool :=
  let lst (s : Sheet) := s.links.filterMap fun l => l.pos.map fun p => (p.1, p.2, l.tok)
  let exp := (lst pre).filterMap fun (c, r, t) =>
    match o.dir with
    | .rows => (o.pos r).map fun r' => (c, r', t)
    | .cols => (o.pos c).map fun c' => (c', r, t)
  post.links.all (fun l => l.pos.isSome) && exp.mergeSort linkLe == (lst post).mergeSort linkLe

def clampRect (o : Op) (q : Rect) : Option Rect :=
  match o.dir with
  | .rows => if q.y1 > o.lim then none else some { q with y2 := if q.y2 > o.lim then o.lim else q.y2 }
  | .cols => if q.x1 > o.lim then none else some { q with x2 := if q.x2 > o.lim then o.lim else q.x2 }

def sqOk (o : Op) (pre post : List SqItem) : Bool :=
  let exp := pre.filterMap fun it =>
    let rs := it.rects.filterMap fun q => (o.rect q).bind (clampRect o)
    if rs.isEmpty then none else some ({ it with rects := rs } : SqItem)
  exp == post

def filterOk (o : Op) (pre post : Sheet) : Bool :=
  match pre.filter with
  | none => post.filter.isNone
  | some none => false
  | some (some q) =>
    let exp : Option Rect := match o with
      | .ins _ _ _ => o.rect q
      | .del .rows num => if num = q.y1 then none else o.rect q
      | .del .cols _ => o.rect q
    match exp, post.filter with
    | none, none => true
    | some e, some (some p) => e == p
    | _, _ => false

def tableOk (o : Op) (pre post : Sheet) : Bool :=
  let exp := pre.tables.filterMap fun t =>
    match t.rect with
    | none => some t
    | some q =>
      let gone : Bool := match o with
        | .del .rows num => decide (num = q.y1)
        | _ => false
      if gone then none else
      match o.rect q with
      | none => none
      | some q' => if q'.y2 - q'.y1 < 1 then none else some ({ t with rect := some q' } : Tbl)
  exp == post.tables

def specFlag (tblMode : Bool) (o : Op) (st : Status) (pre post : Sheet) : String :=
  if st != .ok then
    (if tblMode then (if pre.tables == post.tables then "ok" else "noop")
     else if pre == post then "ok" else "noop")
  else
    let fails :=
      if tblMode then (if tableOk o pre post then [] else ["table"])
      else
        (if gridOk o pre post then [] else ["grid"]) ++
        (if rowAttrOk o pre post then [] else ["rowattr"]) ++
        (if colAttrOk o pre post then [] else ["colattr"]) ++
        (if mergeOk o pre post then [] else ["merge"]) ++
        (if linkOk o pre post then [] else ["link"]) ++
        (if sqOk o pre.dvs post.dvs then [] else ["dv"]) ++
        (if sqOk o pre.cfs post.cfs then [] else ["cf"]) ++
        (if filterOk o pre post then [] else ["filter"]) ++
        (if tableOk o pre post then [] else ["table"])
    if fails.isEmpty then "ok" else sepJoin "+" fails

/-! ### step -/

abbrev Book := List Sheet

def setAt (b : Book) (i : Nat) (s : Sheet) : Book := b.set i s

def structural (b : Book) (iw : String) (mode : String) (o : Op)
    (run : Sheet → Status × Sheet) : Book × String :=
  match iw.toNat? with
  | none => (b, "bad-op")
  | some i =>
    match b[i]? with
    | none => (b, "E_SHEET")
    | some pre =>
      let (st, post) := run pre
      let tbl := mode == "t"
      let out := if tbl then dumpTables post else dumpSheet post
      (setAt b i post, s!"{st.tag} {out} spec={specFlag tbl o st pre post}")

def step (b : Book) (w : List String) : Book × String :=
  match w with
  | ["new", k] => match k.toNat? with
    | some k => (List.replicate k Sheet.empty, "ok")
    | none => (b, "bad-op")
  | "api" :: _ => (b, "ok")
  | "oracle" :: _ => (b, "ok")
  | "sheet" :: i :: rest =>
    match i.toNat?, parseSheet rest with
    | some i, some s => if i < b.length then (setAt b i s, "ok") else (b, "bad-op")
    | _, _ => (b, "bad-op")
  | ["insrows", i, row, n, m] =>
    match row.toInt?, n.toInt? with
    | some row, some n => structural b i m (.ins .rows row n) (fun s => insertRowsG true s row n)
    | _, _ => (b, "bad-op")
  | ["rmrow", i, row, m] =>
    match row.toInt? with
    | some row => structural b i m (.del .rows row) (fun s => removeRowG true s row)
    | none => (b, "bad-op")
  | ["inscols", i, col, n, m] =>
    match unhexS col, n.toInt? with
    | some col, some n =>
      let num := match Ref.columnNameToNumber col with | .ok v => v | .error _ => 0
      structural b i m (.ins .cols num n) (fun s => insertColsG true s col n)
    | _, _ => (b, "bad-op")
  | ["rmcol", i, col, m] =>
    match unhexS col with
    | some col =>
      let num := match Ref.columnNameToNumber col with | .ok v => v | .error _ => 0
      structural b i m (.del .cols num) (fun s => removeColG true s col)
    | none => (b, "bad-op")
  | ["duprow", i, row, row2] =>
    match i.toNat?, row.toInt?, row2.toInt? with
    | some i, some row, some row2 =>
      match b[i]? with
      | none => (b, "E_SHEET")
      | some pre =>
        let (st, post) := duplicateRowToG true pre row row2
        (setAt b i post, s!"{st.tag} {dumpSheet post}")
    | _, _, _ => (b, "bad-op")
  | ["others", i] =>
    match i.toNat? with
    | some i =>
      let ds := (b.zipIdx.filter fun (_, k) => k != i).map fun (s, _) => dumpSheet s
      (b, if ds.isEmpty then "-" else sepJoin " || " ds)
    | none => (b, "bad-op")
  | _ => (b, "bad-op")

def run : IO Unit := runStateful ([] : Book) step

end XlModel.Drv.C06
