import XlModel.FormulaRef
import XlModel.Drv.Util
namespace XlModel.Drv.C07
open XlModel XlModel.Ref XlModel.FormulaRef XlModel.Drv

def tyOf : Char → Option TType
  | 'O' => some .operand | 'F' => some .function | 'S' => some .subexpr | 'A' => some .argument
  | 'P' => some .prefix | 'I' => some .infix | 'X' => some .postfix | 'W' => some .whitespace
  | 'U' => some .unknown | 'N' => some .noop | _ => none

def subOf : Char → Option TSub
  | '-' => some .none | 's' => some .start | 'e' => some .stop | 't' => some .text | 'n' => some .number
  | 'l' => some .logical | 'r' => some .error | 'g' => some .range | 'm' => some .math
  | 'c' => some .concat | 'i' => some .intersect | 'u' => some .union | _ => none

def parseTok (w : String) : Option Token :=
  match w.toList with
  | a :: b :: ':' :: rest =>
    match tyOf a, subOf b, unhexS (String.ofList rest) with
    | some ty, some sub, some tv => some ⟨tv, ty, sub⟩
    | _, _, _ => none
  | _ => none

def parseToks : List String → Option (List Token)
  | [] => some []
  | w :: ws =>
    match parseTok w, parseToks ws with
    | some t, some ts => some (t :: ts)
    | _, _ => none

def parseNames (s : String) : Option (List Str) :=
  if s = "-" then some [] else
  (s.splitOn ",").foldr (fun h acc =>
    match unhex h.toList, acc with
    | some n, some l => some (n :: l)
    | _, _ => none) (some [])

def dirOf (s : String) : Option Dir :=
  if s = "r" then some .rows else if s = "c" then some .cols else none

/-- the list of range-operand token values the property demands, or the reason there is none -/
def specLine (env : Impl.Env) (toks : List Token) : String :=
  let outs := (toks.filter (fun t => t.ty = .operand ∧ t.sub = .range)).map (fun t =>
    if env.names.contains t.tv || Impl.containsBracket t.tv then (Spec.Out.same, t.tv)
    else Spec.expectTv env.sheet env.sheetN env.kr env.e t.tv)
  if outs.any (fun o => o.1 = .deleted) then
    -- inside the excluded region: what the code does (Spec.slideRef), when that stays in the grid
    let sl := (toks.filter (fun t => t.ty = .operand ∧ t.sub = .range)).map (fun t =>
      if env.names.contains t.tv || Impl.containsBracket t.tv then some t.tv
      else Spec.expectSlide env.sheet env.sheetN env.kr env.e t.tv)
    if sl.all Option.isSome then "S=deleted:" ++ String.intercalate "," (sl.map (fun o => hexS (o.getD [])))
    else "S=deleted"
  else if outs.any (fun o => o.1 = .offGrid) then "S=grid"
  else "S=" ++ String.intercalate "," (outs.map (fun o => hexS o.2))

def step (w : List String) : String :=
  match w with
  | "adj" :: mode :: kr :: dir :: num :: off :: sh :: shN :: fm :: names :: toks =>
    match dirOf dir, parseInt? num, parseInt? off, unhexS sh, unhexS shN, unhexS fm, parseNames names, parseToks toks with
    | some d, some n, some o, some sheet, some sheetN, some formula, some nm, some ts =>
      let env : Impl.Env := { sheet := sheet, sheetN := sheetN, kr := (kr = "1"), e := ⟨d, n, o⟩, names := nm, formula := formula }
      let (val, err) := Impl.adjustRef env ts
      let res := match err with
        | none => "ok " ++ hexS val
        | some e => e.tag ++ " " ++ hexS val
      if mode = "s" then res ++ " " ++ specLine env ts else res
    | _, _, _, _, _, _, _, _ => "bad-op"
  | "dn" :: dir :: num :: off :: sh :: names :: rest =>
    match dirOf dir, parseInt? num, parseInt? off, unhexS sh, parseNames names with
    | some d, some n, some o, some sheet, some nm =>
      -- groups separated by "|": <hex text> <tok>...
      let groups := (rest.foldl (fun (acc : List (List String)) w =>
        if w = "|" then [] :: acc else match acc with | g :: gs => (w :: g) :: gs | [] => [[w]]) []).reverse.map List.reverse
      let parsed := groups.map (fun g => match g with
        | h :: ts => match unhexS h, parseToks ts with
          | some data, some toks => some (data, toks)
          | _, _ => none
        | [] => none)
      if parsed.all Option.isSome then
        let ds := parsed.filterMap id
        String.intercalate "," ((Impl.adjustDefinedNames sheet ⟨d, n, o⟩ nm ds).map hexS)
      else "bad-op"
    | _, _, _, _, _ => "bad-op"
  | "dvw" :: dir :: num :: off :: sh :: shN :: content :: names :: toks =>
    match dirOf dir, parseInt? num, parseInt? off, unhexS sh, unhexS shN, unhexS content, parseNames names, parseToks toks with
    | some d, some n, some o, some sheet, some sheetN, some c, some nm, some ts =>
      let env : Impl.Env := { sheet := sheet, sheetN := sheetN, kr := false, e := ⟨d, n, o⟩, names := nm, formula := [] }
      match Impl.adjustDV env c ts with
      | some v => "ok " ++ hexS v
      | none => "ERR"
    | _, _, _, _, _, _, _, _ => "bad-op"
  | "shf" :: dc :: dr :: toks =>
    match parseInt? dc, parseInt? dr, parseToks toks with
    | some dCol, some dRow, some ts => hexS (Impl.parseSharedFormula dCol dRow ts)
    | _, _, _ => "bad-op"
  | ["cells", h] =>
    -- the cells of a reference in the order the evaluator reads them, as "col.row,col.row,…"
    match unhexS h with
    | some s =>
      match Spec.parseRef s with
      | some r => String.intercalate "," ((Spec.refCells r).map (fun p => s!"{p.1}.{p.2}"))
      | none => "unparsed"
    | none => "bad-op"
  | ["esc", h] =>
    match unhexS h with
    | some s => hexS (Impl.escapeSheetName s)
    | none => "bad-op"
  | _ => "bad-op"

def run : IO Unit := runStateless step

end XlModel.Drv.C07
