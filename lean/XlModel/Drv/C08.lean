import XlModel.Calc
import XlModel.CalcFloat
import XlModel.CalcCheck
import XlModel.CalcRef
import XlModel.Drv.Util
/-!
C08 line protocol (stateful: a workbook is built by `cell` lines).

  reset
  cell <key> b | n <bits> | s <hex> | t <0|1> | f <tokens> | <tree>
  ev <tokens> | <tree> [| tol <bits>]

tokens: n:<hex> x:<hex> l:<hex> r:<key> i:<hex> p:<hex> q:<hex> ( ) o
tree (prefix): N:<hex> X:<hex> L:<hex> R:<key> neg pct par b:<op> …
Answer of `ev` / `cell … f`:  `<Impl result> render=<ok|DIFF> tree=<ok|DIFF> S=<Spec result>`
where Impl runs the token machine, `render` says whether `render 1 tree` equals the
token list, `tree` whether Impl.evalTree agrees with the machine (an executable
instance of shunting_yard_correct), and Spec evaluates the tree.
-/
namespace XlModel.Drv.C08
open XlModel XlModel.Calc XlModel.Drv

def hexBytes (s : String) : Option Str :=
  (unhexS s).map fun cs => cs.map Char.toNat

def hexOut (s : Str) : String := hexS (s.map Char.ofNat)

def bitsOf (s : String) : Option Float :=
  match unhex s.toList with
  | some cs => if cs.length = 8 then some (Float.ofBits (UInt64.ofNat (cs.foldl (fun a c => a * 256 + c.toNat) 0))) else none
  | none => none

def bitsOut (x : Float) : String :=
  let n := x.toBits.toNat
  String.ofList ((List.range 16).map fun i => hexDigit ((n / 16 ^ (15 - i)) % 16))

def splitCommasFwd (s : Str) : List Str :=
  let rec go : List Nat → List Nat → List Str → List Str
    | [], cur, acc => (cur.reverse :: acc).reverse
    | b :: rest, cur, acc => if b = 44 then go rest [] (cur.reverse :: acc) else go rest (b :: cur) acc
  go s [] []

def splitTag (w : String) : String × String :=
  match w.splitOn ":" with
  | a :: b :: _ => (a, b)
  | _ => (w, "")

def parseTok (w : String) : Option Tok :=
  if w = "(" then some .lpar else if w = ")" then some .rpar else if w = "o" then some .other
  else if w = "fe" then some .fstop else if w = "as" then some .argsep else
  let (t, h) := splitTag w
  match hexBytes h with
  | none => none
  | some b =>
    if t = "n" then some (.num b) else if t = "x" then some (.text b) else if t = "l" then some (.logical b)
    else if t = "r" then some (.ref b) else if t = "i" then some (.infixOp b) else if t = "p" then some (.prefixOp b)
    else if t = "q" then some (.postfixOp b)
    else if t = "fs" then some (.fstart b)
    else if t = "g" then some (.rangeArg (if b = [] then [] else splitCommasFwd b) false)
    else none

def opOf (s : String) : Option Op :=
  match s with
  | "pow" => some .pow | "mul" => some .mul | "div" => some .div | "add" => some .add | "sub" => some .sub
  | "cat" => some .concat | "eq" => some .eq | "ne" => some .ne | "lt" => some .lt | "le" => some .le
  | "gt" => some .gt | "ge" => some .ge | _ => none

def natOfBytes (s : Str) : Nat := s.foldl (fun a b => a * 10 + (b - 48)) 0

def chunk : List Nat → List Str → List (List Str)
  | [], _ => []
  | n :: ns, ks => ks.take n :: chunk ns (ks.drop n)

/-- `G:<FN>:<spelling hex>:<keys hex>[:<argument sizes hex>]` → a call leaf -/
def parseG (w : String) : Option Expr :=
  match w.splitOn ":" with
  | _ :: fn :: _ :: keys :: more =>
    match hexBytes keys with
    | none => none
    | some kb =>
      let ks := if kb = [] then [] else splitCommasFwd kb
      let sizes : List Nat := match more with
        | sz :: _ => (match hexBytes sz with
          | some b => (splitCommasFwd b).map natOfBytes
          | none => [ks.length])
        | [] => [ks.length]
      some (.call (fn.toUTF8.toList.map (·.toNat)) (chunk sizes ks))
  | _ => none

/-- prefix-notation tree parser with fuel -/
def parseTree : Nat → List String → Option (Expr × List String)
  | 0, _ => none
  | _, [] => none
  | fuel + 1, w :: rest =>
    if w = "neg" then (parseTree fuel rest).map fun (e, r) => (.neg e, r)
    else if w = "pct" then (parseTree fuel rest).map fun (e, r) => (.pct e, r)
    else if w = "par" then (parseTree fuel rest).map fun (e, r) => (.paren e, r)
    else
      let (t, h) := splitTag w
      if t = "G" then (parseG w).map fun e => (e, rest)
      else if t = "b" then
        match opOf h with
        | none => none
        | some op =>
          match parseTree fuel rest with
          | none => none
          | some (l, r1) =>
            match parseTree fuel r1 with
            | none => none
            | some (r, r2) => some (.bin op l r, r2)
      else match hexBytes h with
        | none => none
        | some b =>
          if t = "N" then some (.num b, rest) else if t = "X" then some (.text b, rest)
          else if t = "L" then some (.logical b, rest) else if t = "R" then some (.ref b, rest) else none

/-- the sheets every harness workbook has (c08NewState), in creation order -/
def defaultSheets : List Str :=
  ["Sheet1", "Sheet2", "Sheet3", "My Data"].map fun s => s.toUTF8.toList.map (·.toNat)

structure St where
  sheets : List Str := defaultSheets
  defs : List DefName := []
  envI : List (Str × Impl.CellArg Float) := []
  envS : List (Str × Spec.Val Float) := []

def St.lookI (st : St) (k : Str) : Option (Impl.CellArg Float) := lookup k st.envI
def St.lookS (st : St) (k : Str) : Option (Spec.Val Float) := lookup k st.envS

def showArg : Impl.Arg Float → String
  | .num x true => "bool " ++ (if x == 0 then "0" else "1")
  | .num x false => "num " ++ bitsOut x
  | .str s => "str " ++ hexOut s
  | .err m => "errv " ++ hexOut m

def showErr : Impl.MErr → String
  | .msg (.lit s) => "err " ++ hexOut s
  | .msg (.parseFloat _) => "err parse"
  | .invalidFormula => "err invalid"
  | .panic => "PANIC"
  | .unmodelled => "unmodelled"

def showRes : Except Impl.MErr (Impl.Arg Float) → String
  | .ok a => showArg a
  | .error e => showErr e

def codeStr : Spec.ErrCode → String
  | .div0 => "#DIV/0!" | .value => "#VALUE!" | .name => "#NAME?" | .num => "#NUM!" | .ref => "#REF!" | .na => "#N/A"

def showSpec : Spec.Val Float → String
  | .num x => "num " ++ bitsOut x
  | .text s => "str " ++ hexOut s
  | .bool b => "bool " ++ (if b then "1" else "0")
  | .blank => "blank"
  | .err c => "err " ++ codeStr c

def splitBar (w : List String) : List (List String) :=
  let rec go : List String → List String → List (List String) → List (List String)
    | [], cur, acc => (cur.reverse :: acc).reverse
    | x :: xs, cur, acc => if x = "|" then go xs [] (cur.reverse :: acc) else go xs (x :: cur) acc
  go w [] []

def sameRes (a b : Except Impl.MErr (Impl.Arg Float)) : Bool := showRes a == showRes b

/-- relative 1e-12 closeness (the property's comparison rule for numbers) -/
def close (a b : Float) : Bool :=
  a == b || (a - b).abs ≤ 1e-12 * (if a.abs > b.abs then a.abs else b.abs)

def splitCommas (s : Str) : List Str :=
  let rec go : List Nat → List Nat → List Str → List Str
    | [], cur, acc => (cur.reverse :: acc).reverse
    | b :: rest, cur, acc => if b = 44 then go rest [] (cur.reverse :: acc) else go rest (b :: cur) acc
  go s [] []

/-- `d:<name>:<sheet>` (token) / `D:<name>:<sheet>` (tree leaf): a defined name used on a sheet.
The model performs the lookup: Impl through `getDefinedNameRefTo`'s scan, Spec through the
shadowing rule; an invisible name keeps its text (unknown key → #NAME?). -/
def resolveWord (st : St) (w : String) : String :=
  match w.splitOn ":" with
  | [t, n, c] =>
    if t = "rr" then
      -- a cell reference as efp spells it, used on sheet c: the model resolves it (parseReference)
      match hexBytes n, hexBytes c with
      | some spell, some cur =>
        (match Impl.resolveRef st.sheets cur spell with
         | .ok (false, [k]) => "r:" ++ hexOut k
         | _ => "r:" ++ hexOut (63 :: spell))
      | _, _ => w
    else if t = "gr" then
      -- a range reference as a call argument
      match hexBytes n, hexBytes c with
      | some spell, some cur =>
        (match Impl.resolveRef st.sheets cur spell with
         | .ok (true, ks) => "g:" ++ hexOut (ks.foldl (fun acc k => if acc = [] then k else acc ++ [44] ++ k) [])
         | .ok (false, [k]) => "r:" ++ hexOut k
         | _ => "g:-")
      | _, _ => w
    else if t = "dg" then
      -- a defined range name as a call argument: the model resolves it (Impl scan)
      match hexBytes n, hexBytes c with
      | some name, some cur => "g:" ++ hexOut (Impl.definedNameRefTo st.defs name cur)
      | _, _ => w
    else if t = "d" ∨ t = "D" then
      match hexBytes n, hexBytes c with
      | some name, some cur =>
        let key : Str :=
          if t = "d" then
            (let r := Impl.definedNameRefTo st.defs name cur; if r = [] then name else r)
          else (Spec.resolveName st.defs name cur).getD name
        (if t = "d" then "r:" else "R:") ++ hexOut key
      | _, _ => w
    else w
  | _ => w

/-- image of a non-error Spec value as an operand (Props.C08.toImpl), printed -/
def showToImpl : Spec.Val Float → String
  | .num x => "num " ++ bitsOut x
  | .bool b => "bool " ++ (if b then "1" else "0")
  | .text s => "str " ++ hexOut s
  | .blank => "str -"
  | .err _ => "?"

/-- the relation `R` of calc_correct_partial, decided on printed images -/
def relR (r : Except Impl.MErr (Impl.Arg Float)) (s : Spec.Val Float) : Bool :=
  match s, r with
  | .err _, .error _ => true
  | .err _, .ok _ => false
  | s, r => showRes r == showToImpl s

/-- EnvRel at one cell: known to both sides (or to neither), no error value, same operand image -/
def refOK (st : St) (k : Str) : Bool :=
  match st.lookS k, st.lookI k with
  | none, none => true
  | some a, some c =>
    !Check.isErr a && showArg (Impl.tokenToArg (Impl.argToTok c)) == showToImpl a
  | _, _ => false

/-- evaluate tokens|tree; returns the answer line and the two values -/
def evalLine (st : St) (w : List String) : Option (String × Except Impl.MErr (Impl.Arg Float) × Spec.Val Float) :=
  match splitBar (w.map (resolveWord st)) with
  | toks :: tree :: more =>
    match toks.mapM parseTok, parseTree 4000 tree with
    | some ts0, some (e, []) =>
      -- lookahead of the in-function branch: is the next token an argument separator / function token?
      let rec look : List Tok → List Tok
        | .rangeArg c _ :: nxt :: rest =>
          let la := match nxt with
            | .argsep => true | .fstop => true | .fstart _ => true | _ => false
          .rangeArg c la :: look (nxt :: rest)
        | t :: rest => t :: look rest
        | [] => []
      let ts := look ts0
      let r := Impl.evalTokensF st.lookI ts
      let rt := Impl.evalTree st.lookI e
      let sp := Spec.top (Spec.eval st.lookS e)
      let rendered := decide (Impl.flatten (render 1 e) = ts)
      -- optional tolerance echo for inexact math.Pow exponents
      let rs := match more, r with
        | [["tol", b]], .ok (.num x false) =>
          (match bitsOf b with
           | some g => if close x g then "num " ++ bitsOut g else showRes r
           | none => showRes r)
        | _, _ => showRes r
      let ss := match more, sp with
        | [["tol", _]], .num x => "num~ " ++ (if x.isNaN then "nan" else "ok")
        | _, _ => showSpec sp
      -- executable instance of calc_correct_partial: hypotheses hold ⇒ conclusion must hold
      let thmFail := more.isEmpty && Check.noDeviant st.lookS (refOK st) e &&
        !relR r (Spec.eval st.lookS e)
      -- the string CalcCellValue(RawCellValue) returns for a numeric result
      let outS := match more, r with
        | [], .ok (.num x false) => " out=" ++ hexOut (CalcFloat.renderNumber x)
        | _, _ => ""
      some (rs ++ outS ++ " render=" ++ (if rendered then "ok" else "DIFF") ++
        " tree=" ++ (if sameRes r rt then "ok" else "DIFF") ++ " S=" ++ ss ++
        (if thmFail then " THM-FAIL" else ""), r, sp)
    | _, _ => none
  | _ => none

def step (st : St) (w : List String) : St × String :=
  match w with
  | ["reset"] => ({}, "ok")
  | "cell" :: k :: kind :: rest =>
    match hexBytes k with
    | none => (st, "bad-op")
    | some key =>
      let put (i : Impl.CellArg Float) (s : Spec.Val Float) : St × String :=
        ({ st with envI := (key, i) :: st.envI, envS := (key, s) :: st.envS }, "ok")
      match kind, rest with
      | "b", [] => put .empty .blank
      | "n", [b] => (match bitsOf b with
        | some x => put (.num x false) (.num x)
        | none => (st, "bad-op"))
      | "s", [h] => (match hexBytes h with
        | some s => put (.str s) (.text s)
        | none => (st, "bad-op"))
      | "t", [b] => put (.num (if b = "1" then 1 else 0) true) (.bool (b = "1"))
      | "f", body => (match evalLine st body with
        | some (line, r, sp) =>
          let i : Impl.CellArg Float := match r with
            | .ok (.num x b) => .num x b
            | .ok (.str s) => .str s
            | .ok (.err m) => .err m
            | .error _ => .empty
          ({ st with envI := (key, i) :: st.envI, envS := (key, sp) :: st.envS }, line)
        | none => (st, "bad-op"))
      | _, _ => (st, "bad-op")
  | "ev" :: body =>
    match evalLine st body with
    | some (line, _, _) => (st, line)
    | none => (st, "bad-op")
  | "agg" :: fnName :: rest =>
    let fn? : Option Impl.AggFn := match fnName with
      | "SUM" => some .sum | "AVERAGE" => some .average | "COUNT" => some .count | "COUNTA" => some .counta
      | "MIN" => some .min | "MAX" => some .max | "PRODUCT" => some .product | _ => none
    match fn?, splitBar rest with
    | some fn, keys :: _ =>
      -- an item is a cell key or `d:<name>:<sheet>` (a defined range name used on that sheet)
      let item (impl : Bool) (w : String) : Option (List Str) :=
        match w.splitOn ":" with
        | ["gr", n, c] =>
          (match hexBytes n, hexBytes c with
           | some spell, some cur =>
             (match Impl.resolveRef st.sheets cur spell with
              | .ok (_, ks) => some ks
              | .error _ => some [])
           | _, _ => none)
        | ["d", n, c] =>
          (match hexBytes n, hexBytes c with
           | some name, some cur =>
             if impl then some (splitCommas (Impl.definedNameRefTo st.defs name cur))
             else some (splitCommas ((Spec.resolveName st.defs name cur).getD []))
           | _, _ => none)
        | _ => (hexBytes w).map fun k => [k]
      (match keys.mapM (item true), keys.mapM (item false) with
       | some ki, some ksp =>
         let ci := ki.flatten.map fun k => (st.lookI k).getD .empty
         let cs := ksp.flatten.map fun k => (st.lookS k).getD .blank
         let ra := Impl.aggregate fn ci
         let outS := match ra with
           | .ok (.num x false) => " out=" ++ hexOut (CalcFloat.renderNumber x)
           | _ => ""
         (st, showRes ra ++ outS ++ " S=" ++ showSpec (Spec.aggregate fn cs))
       | _, _ => (st, "bad-op"))
    | _, _ => (st, "bad-op")
  | ["main", _] => (st, "ok")
  | ["sheet", n] => (match hexBytes n with
    | some name => ({ st with sheets := st.sheets ++ [name] }, "ok")
    | none => (st, "bad-op"))
  | ["defname", n, sc, ref] =>
    (match hexBytes n, hexBytes sc, hexBytes ref with
     | some name, some scope, some r =>
       ({ st with defs := st.defs ++ [{ name := name, scope := scope, refersTo := r }] }, "ok")
     | _, _, _ => (st, "bad-op"))
  | "evt" :: body =>
    match splitBar body with
    | toks :: _ =>
      (match toks.mapM parseTok with
       | some ts => (st, showRes (Impl.evalTokens st.lookI ts))
       | none => (st, "bad-op"))
    | _ => (st, "bad-op")
  | _ => (st, "bad-op")

def run : IO Unit := runStateful ({} : St) step

end XlModel.Drv.C08
