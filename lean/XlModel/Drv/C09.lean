import XlModel.CalcTotal
import XlModel.NestA
import XlModel.Drv.Util
/-
Line-protocol driver for C09.

  ev <tok>*          evalInfixExp on an arbitrary token list (VerifC09EvalTokens)
                     tok = <ty-char><sub-char><hex(TValue) or ->
  opn b m s c x<0|1> a saved-and-reopened workbook (base b, package mutation m), cell s!c evaluated
                     three times on one *File and once on a fresh one; x = expansion fails
  cyc M e d0 d1 …    CalcCellValue of cell e in a one-column workbook with
                     MaxCalcIterations = M; d_i = L<int> (number cell) |
                     F<int>:i,j,… (=A_i+A_j+…+int) | S<int>:lo:hi (=SUM(A_lo:A_hi)+int)

The value semantics `Sem` is instantiated with IEEE doubles (`Float`), Go's
`%g` and `strconv.ParseFloat` re-implemented with exact `Nat` arithmetic, a
fixed fixture sheet for references and three functions (SUM, NA, anything
else = unsupported).  None of this is used by the theorems (they hold for every
`Sem`); every conversion that occurs is compared with Go's by the transcript.
-/
namespace XlModel.Drv.C09
open XlModel XlModel.CalcTotal XlModel.Drv

/-! ### Go's %g (shortest) and ParseFloat on doubles -/

def pow10 (n : Nat) : Nat := 10 ^ n

/-- decompose a positive finite double into `f * 2^q` and whether it sits on a binade boundary -/
def decomp (x : Float) : Nat × Int × Bool :=
  let b := x.toBits.toNat
  let e : Nat := (b / 2 ^ 52) % 2048
  let m : Nat := b % 2 ^ 52
  if e == 0 then (m, -1074, false) else (2 ^ 52 + m, (e : Int) - 1075, m == 0 && e > 1)

/-- is `N/D >= 10^E` -/
def geP10 (N D : Nat) (E : Int) : Bool :=
  if E ≥ 0 then N ≥ D * pow10 E.toNat else N * pow10 (-E).toNat ≥ D

def findE10 (N D : Nat) : Nat → Int → Int
  | 0, e => e
  | fuel + 1, e =>
    if !geP10 N D e then findE10 N D fuel (e - 1)
    else if geP10 N D (e + 1) then findE10 N D fuel (e + 1)
    else e

/-- shortest decimal digits `d` (no trailing zeros beyond need) and decimal exponent of the
first digit, for a positive finite double -/
def shortest (x : Float) : Nat × Int :=
  let (f, q, bnd) := decomp x
  let N := if q ≥ 0 then f * 2 ^ q.toNat else f
  let D := if q ≥ 0 then 1 else 2 ^ (-q).toNat
  let U := if q ≥ 0 then 2 ^ q.toNat else 1
  let est : Int := ((f.log2 : Int) + q) * 30103 / 100000
  let e10 := findE10 N D 700 est
  let even := f % 2 == 0
  let rec go (k : Nat) (fuel : Nat) : Nat × Int :=
    match fuel with
    | 0 => (0, 0)
    | fuel + 1 =>
      let p : Int := e10 - (k : Int) + 1
      let T := if p < 0 then pow10 (-p).toNat else 1
      let P := if p ≥ 0 then pow10 p.toNat else 1
      let num := N * T
      let den := D * P
      let d0 := num / den
      let rem := num % den
      let d := if 2 * rem > den || (2 * rem == den && d0 % 2 == 1) then d0 + 1 else d0
      let X := 4 * N * T
      let hi := 2 * U * T
      let lo := if bnd then U * T else 2 * U * T
      let cand := d * P * 4 * D
      let okHi := if even then cand ≤ X + hi else cand < X + hi
      let okLo := if even then X ≤ cand + lo else X < cand + lo
      if (okHi && okLo) || k ≥ 17 then
        -- rounding up may have produced 10^k
        if d == pow10 k then (d / 10, e10 + 1) else (d, e10)
      else go (k + 1) fuel
  go 1 20

def stripZeros (d : Nat) : Nat → Nat
  | 0 => d
  | fuel + 1 => if d != 0 && d % 10 == 0 then stripZeros (d / 10) fuel else d

def digitsOf (d : Nat) : String := toString d

def isNaN (x : Float) : Bool := x != x

/-- `fmt.Sprintf("%g", x)` -/
def fmtG (x : Float) : String :=
  if isNaN x then "NaN"
  else
    let neg := x.toBits.toNat ≥ 2 ^ 63
    let ax := Float.ofBits (x.toBits &&& 0x7FFFFFFFFFFFFFFF)
    let sign := if neg then "-" else ""
    if ax == 0 then sign ++ "0"
    else if ax.toBits.toNat ≥ 0x7FF0000000000000 then (if neg then "-Inf" else "+Inf")
    else
      let (d0, e10) := shortest ax
      let d := stripZeros d0 20
      let ds := digitsOf d
      let nd := ds.length
      if e10 < -4 || e10 ≥ 6 then
        let mant := if nd == 1 then ds else (ds.take 1).toString ++ "." ++ (ds.drop 1).toString
        let ae := e10.natAbs
        let es := (if e10 < 0 then "-" else "+") ++ (if ae < 10 then "0" else "") ++ toString ae
        sign ++ mant ++ "e" ++ es
      else if e10 ≥ 0 then
        let ip := e10.toNat + 1
        if nd ≤ ip then sign ++ ds ++ String.ofList (List.replicate (ip - nd) '0')
        else sign ++ (ds.take ip).toString ++ "." ++ (ds.drop ip).toString
      else
        sign ++ "0." ++ String.ofList (List.replicate ((-e10).toNat - 1) '0') ++ ds

/-- nearest double (ties to even) to `num/den`, `num > 0`; normal range only -/
def ratToFloat (num den : Nat) : Float :=
  -- find b with 2^52 ≤ num / (den * 2^b) < 2^53
  let lb : Int := (num.log2 : Int) - (den.log2 : Int) - 52
  let rec fix (b : Int) (fuel : Nat) : Int :=
    match fuel with
    | 0 => b
    | fuel + 1 =>
      let (n', d') := if b ≥ 0 then (num, den * 2 ^ b.toNat) else (num * 2 ^ (-b).toNat, den)
      let q := n' / d'
      if q < 2 ^ 52 then fix (b - 1) fuel else if q ≥ 2 ^ 53 then fix (b + 1) fuel else b
  let b := fix lb 8
  let (n', d') := if b ≥ 0 then (num, den * 2 ^ b.toNat) else (num * 2 ^ (-b).toNat, den)
  let q := n' / d'
  let r := n' % d'
  let q := if 2 * r > d' || (2 * r == d' && q % 2 == 1) then q + 1 else q
  let (q, b) := if q == 2 ^ 53 then (2 ^ 52, b + 1) else (q, b)
  let e : Int := b + 1075
  if e ≥ 2047 then Float.ofBits 0x7FF0000000000000
  else if e ≤ 0 then Float.ofScientific num false 0 / Float.ofScientific den false 0
  else Float.ofBits (UInt64.ofNat (e.toNat * 2 ^ 52 + (q - 2 ^ 52)))

def lowerAscii (s : String) : String := String.ofList (s.toList.map Char.toLower)

def takeDigits : List Char → Nat → Nat → (Nat × Nat × List Char)
  | c :: cs, acc, n => if c.isDigit then takeDigits cs (acc * 10 + (c.toNat - 48)) (n + 1) else (acc, n, c :: cs)
  | [], acc, n => (acc, n, [])

/-- `strconv.ParseFloat(s, 64)`; `none` = error.  Decimal syntax plus inf/nan words. -/
def parseF (s : String) : Option Float :=
  let cs := s.toList
  let (neg, cs) := match cs with
    | '-' :: r => (true, r)
    | '+' :: r => (false, r)
    | _ => (false, cs)
  let sg (x : Float) : Float := if neg then -x else x
  let w := lowerAscii (String.ofList cs)
  if w == "inf" || w == "infinity" then some (sg (Float.ofBits 0x7FF0000000000000))
  else if lowerAscii s == "nan" then some (0.0 / 0.0)
  else
    let (ip, n1, cs) := takeDigits cs 0 0
    let (m, n2, cs) := match cs with
      | '.' :: r => takeDigits r ip 0
      | _ => (ip, 0, cs)
    if n1 + n2 == 0 then none else
    let ex : Option (Int × List Char) := match cs with
      | c :: r =>
        if c == 'e' || c == 'E' then
          let (eneg, r) := match r with
            | '-' :: r' => (true, r')
            | '+' :: r' => (false, r')
            | _ => (false, r)
          let (ev, n3, r) := takeDigits r 0 0
          if n3 == 0 then none else some (if eneg then -(ev : Int) else (ev : Int), r)
        else some (0, c :: r)
      | [] => some (0, [])
    match ex with
    | none => none
    | some (ev, rest) =>
      if !rest.isEmpty then none else
      let e10 : Int := ev - (n2 : Int)
      if m == 0 then some (sg 0.0)
      else if e10 > 400 then none
      else if e10 < -400 then some (sg 0.0)
      else
        let x := if e10 ≥ 0 then ratToFloat (m * pow10 e10.toNat) 1 else ratToFloat m (pow10 (-e10).toNat)
        if x.toBits.toNat ≥ 0x7FF0000000000000 then none else some (sg x)

/-! ### concrete values -/

inductive CV
  | num (x : Float)
  | bool (b : Bool)
  | str (s : String)
  | err (msg : String)
  | empty
  | unknown
  | matrix (m : List (List CV))

instance : Inhabited CV := ⟨.empty⟩

/-- `newNumberFormulaArg` (repository fix 2426175): NaN and ±Inf are the error argument #NUM! -/
def mkNum (x : Float) : CV := if isNaN x || x.isInf then .err "#NUM!" else .num x

partial def CV.value : CV → String
  | .num x => fmtG x
  | .bool b => if b then "TRUE" else "FALSE"
  | .str s => s
  | .err m => m
  | .empty => ""
  | .unknown => ""
  | .matrix m => match m.flatten with
    | [] => ""
    | v :: _ => v.value

def CV.number : CV → Float
  | .num x => x
  | .bool b => if b then 1.0 else 0.0
  | _ => 0.0

/-- ToNumber: `none` stands for the error argument -/
partial def CV.toNumber : CV → Option Float
  | .str s => match parseF s with
    | some x => if isNaN x || x.isInf then none else some x
    | none => none
  | .num x => if isNaN x || x.isInf then none else some x
  | .bool b => some (if b then 1.0 else 0.0)
  | .matrix m => match m.flatten with
    | [] => some 0.0
    | v :: _ => v.toNumber
  | _ => some 0.0

def CV.isNumT : CV → Bool
  | .num _ => true
  | .bool _ => true
  | _ => false

def CV.isStrT : CV → Bool
  | .str _ => true
  | _ => false

def CV.isErrT : CV → Bool
  | .err _ => true
  | _ => false

def blank0 (v : CV) : CV := if v.value == "" then .num 0.0 else v

def arith (f : Float → Float → Float) (divZero : Bool) (r l : CV) : BinRes CV :=
  match l.toNumber with
  | none => .err
  | some a => match r.toNumber with
    | none => .err
    | some b => if divZero && b == 0.0 then .err else .push (mkNum (f a b))

def upperAscii (s : String) : String := String.ofList (s.toList.map Char.toUpper)

def CV.isBoolT : CV → Bool
  | .bool _ => true
  | _ => false

/-- calc.go `calcEqual` (after C08's fix "= and <> compare operands by type like Excel"): values of
different types are never equal, numbers compare numerically, text without regard to case; other
argument types keep comparing their string values -/
def calcEqualC (r l : CV) : Bool :=
  let scalar (v : CV) : Bool := v.isNumT || v.isStrT
  if !(scalar r) || !(scalar l) then r.value == l.value
  else if r.isStrT != l.isStrT then false
  else if l.isStrT then lowerAscii l.value == lowerAscii r.value
  else l.isBoolT == r.isBoolT && l.number == r.number

/-- calc.go `calcCompare`: numbers < text < logical values; `none` = an operand is none of these -/
def calcCompareC (l r : CV) : Option Int :=
  let rank (v : CV) : Nat := if v.isBoolT then 3 else if v.isStrT then 2 else if v.isNumT then 1 else 0
  let a := rank l
  let b := rank r
  if a == 0 || b == 0 then none
  else if a != b then some (if a < b then -1 else 1)
  else if a == 2 then
    let x := upperAscii l.value
    let y := upperAscii r.value
    some (if x < y then -1 else if x == y then 0 else 1)
  else if l.number < r.number then some (-1)
  else if l.number > r.number then some 1
  else some 0

def cmp (p : Int → Bool) (r l : CV) : BinRes CV :=
  match calcCompareC l r with
  | some c => .push (.bool (p c))
  | none => .nopush

def binOp (op : String) (r l : CV) : BinRes CV :=
  let (r, l) := if op != "&" then (blank0 r, blank0 l) else (r, l)
  if r.isErrT then .err else if l.isErrT then .err else
  match op with
  | "^" =>
    -- calcPow (repository fix bbdf303): after both conversions, 0^0 is #NUM! and 0^negative is #DIV/0!
    match l.toNumber, r.toNumber with
    | some a, some b => if a == 0.0 && (b == 0.0 || b < 0.0) then .err else .push (mkNum (Float.pow a b))
    | _, _ => .err
  | "*" => arith (· * ·) false r l
  | "/" => arith (· / ·) true r l
  | "+" => arith (· + ·) false r l
  | "=" => .push (.bool (calcEqualC r l))
  | "<>" => .push (.bool (!calcEqualC r l))
  | "<" => cmp (· < 0) r l
  | "<=" => cmp (· ≤ 0) r l
  | ">" => cmp (· > 0) r l
  | ">=" => cmp (· ≥ 0) r l
  | "&" => .push (.str (l.value ++ r.value))
  | _ => .nopush

def ofTokC (t : Tok) : CV :=
  match t.sub with
  | .logical => .bool (lowerAscii t.val == "true")
  | .number => match parseF t.val with
    | some x => mkNum x
    | none => .num 0.0
  | _ => .str t.val

/-- fixture sheet shared with the harness: A1=1, A2=2, A3="x", A4 unset, B1=TRUE -/
def fixture (ref : String) : Option CV :=
  match ref with
  | "A1" => some (.num 1.0)
  | "$A$1" => some (.num 1.0)
  | "A2" => some (.num 2.0)
  | "A3" => some (.str "x")
  | "A4" => some .empty
  | "B1" => some (.bool true)
  | "Sheet1!A2" => some (.num 2.0)
  | "A1:A2" => some (.matrix [[.num 1.0], [.num 2.0]])
  | "A1:B1" => some (.matrix [[.num 1.0, .bool true]])
  | "A3:A4" => some (.matrix [[.str "x"], [.empty]])
  | _ => none

partial def sumArgs : List CV → Float → CV
  | [], acc => mkNum acc
  | a :: as, acc =>
    match a with
    | .err m => .err m
    | .str s => match (CV.str s).toNumber with
      | some x => sumArgs as (acc + x)
      | none => sumArgs as acc
    | .num x => sumArgs as (acc + x)
    | .bool b => sumArgs as (acc + (if b then 1.0 else 0.0))
    | .matrix m =>
      let acc' := m.flatten.foldl (fun s v => match v.toNumber with
        | some x => s + x
        | none => s) acc
      sumArgs as acc'
    | _ => sumArgs as acc

def callFnC (name : String) (args : List CV) : CV :=
  let n := (name.replace "_xlfn." "").replace "." "dot"
  if n == "SUM" then sumArgs args 0.0
  else if n == "NA" then (if args.length != 0 then .err "NA accepts no arguments" else .err "#N/A")
  else .err ("not support " ++ n ++ " function")

def unaryC (f : Float → Float) (v : CV) : Option CV :=
  let v := blank0 v
  if v.isErrT then none else
  match v.toNumber with
  | none => none
  | some x => some (mkNum (f x))

def semC : Sem CV where
  ofTok := ofTokC
  -- prefix minus (repository fix e2ee6cd) and postfix % (85214fa): blank → 0, an error operand is
  -- returned as the error, ToNumber must succeed
  neg := fun v => unaryC (fun x => 0.0 - x) v
  pct := fun v => unaryC (fun x => x / 100.0) v
  -- calcSubtract (repository fix 13588ca): blank → 0, then the ArgError checks (right, left), then ToNumber
  sub2 := fun r l =>
    let r := blank0 r
    let l := blank0 l
    if r.isErrT then .err else if l.isErrT then .err else arith (· - ·) false r l
  bin := binOp
  resolve := fun s => fixture (s.replace "$" "")
  refKind := fun v => match v with
    | .bool _ => .logical
    | .num _ => .number
    | _ => .text
  refVal := CV.value
  callFn := callFnC
  isErr := CV.isErrT
  matHead := fun v => match v with
    | .matrix ((h :: _) :: _) => some h
    | _ => none
  -- newArrayConstFormulaArg (repository fix: rows of different length are #VALUE!, not a matrix)
  mkMatrix := fun rows => match rows with
    | [] => .matrix rows
    | r0 :: _ => if rows.all (fun r => r.length == r0.length) then .matrix rows else .err "#VALUE!"
  errArg := .err "#VALUE!"

/-! ### protocol -/

def hex16 (n : Nat) : String :=
  String.ofList ((List.range 16).reverse.map fun i => hexDigit (n / 16 ^ i % 16))

/-- a number rounded (half-even on the exact value) to 12 significant digits: `<sign><digits>e<exp10>`;
Go's `math.Pow` and libm's `pow` differ in the last ulp, the property is not about the last ulp -/
def round12 (x : Float) : String :=
  if isNaN x then "NaN" else
  let neg := x.toBits.toNat ≥ 2 ^ 63
  let ax := Float.ofBits (x.toBits &&& 0x7FFFFFFFFFFFFFFF)
  let sign := if neg then "-" else ""
  if ax == 0 then sign ++ "0"
  else if ax.toBits.toNat ≥ 0x7FF0000000000000 then sign ++ "Inf"
  else
    let (f, q, _) := decomp ax
    let N := if q ≥ 0 then f * 2 ^ q.toNat else f
    let D := if q ≥ 0 then 1 else 2 ^ (-q).toNat
    let est : Int := ((f.log2 : Int) + q) * 30103 / 100000
    let e10 := findE10 N D 700 est
    let p : Int := e10 - 11
    let T := if p < 0 then pow10 (-p).toNat else 1
    let P := if p ≥ 0 then pow10 p.toNat else 1
    let num := N * T
    let den := D * P
    let d0 := num / den
    let rem := num % den
    let d := if 2 * rem > den || (2 * rem == den && d0 % 2 == 1) then d0 + 1 else d0
    let (d, e10) := if d == pow10 12 then (d / 10, e10 + 1) else (d, e10)
    sign ++ toString d ++ "e" ++ toString e10

def showCV : CV → String
  | .num x => "num:" ++ round12 x
  | .bool b => "bool:" ++ (if b then "1" else "0")
  | .str s => "str:" ++ hexS (bytesOf s)
  | .err _ => "errv"
  | .empty => "empty"
  | .unknown => "unknown"
  | .matrix m => "matrix:" ++ toString m.length

def tyOf : Char → Option TType
  | '_' => some .none | 'n' => some .noop | 'o' => some .operand | 'f' => some .function
  | 's' => some .subexpr | 'a' => some .argument | 'p' => some .opPrefix | 'i' => some .opInfix
  | 'x' => some .opPostfix | 'w' => some .whitespace | 'u' => some .unknown
  | _ => none

def subOf : Char → Option TSub
  | '_' => some .nothing | 'S' => some .start | 'E' => some .stop | 't' => some .text
  | 'n' => some .number | 'l' => some .logical | 'e' => some .error | 'r' => some .range
  | 'm' => some .math | 'c' => some .concat | 'i' => some .inter | 'u' => some .union
  | _ => none

def strOfBytes (cs : List Char) : String :=
  match String.fromUTF8? (ByteArray.mk (cs.map (fun c => UInt8.ofNat c.toNat)).toArray) with
  | some s => s
  | none => String.ofList cs

def parseTok (w : String) : Option Tok :=
  match w.toList with
  | a :: b :: rest =>
    match tyOf a, subOf b, unhexS (String.ofList rest) with
    | some ty, some sub, some v => some ⟨strOfBytes v, ty, sub⟩
    | _, _, _ => none
  | _ => none

def parseToks : List String → Option (List Tok)
  | [] => some []
  | w :: ws => match parseTok w, parseToks ws with
    | some t, some ts => some (t :: ts)
    | _, _ => none

def showOutcome : Outcome CV → String
  | .ok v => "ok " ++ showCV v
  | .err => "E_EVAL"
  | .panic => "PANIC"

/-! cycle graphs over `Int` values -/

inductive CellD
  | leaf (v : Int)
  | sum (c : Int) (refs : List Nat)

def parseNatList (s : String) : Option (List Nat) :=
  if s == "" then some [] else
  (s.splitOn ",").foldr (fun w acc => match w.toNat?, acc with
    | some n, some l => some (n :: l)
    | _, _ => none) (some [])

def parseCellD (w : String) : Option CellD :=
  match w.toList with
  | 'L' :: r => (String.ofList r).toInt?.map .leaf
  | 'F' :: r =>
    match (String.ofList r).splitOn ":" with
    | [c, rs] => match c.toInt?, parseNatList rs with
      | some c, some l => some (.sum c l)
      | _, _ => none
    | _ => none
  | 'S' :: r =>
    match (String.ofList r).splitOn ":" with
    | [c, lo, hi] => match c.toInt?, lo.toNat?, hi.toNat? with
      | some c, some lo, some hi => some (.sum c ((List.range (hi + 1 - lo)).map (· + lo)))
      | _, _, _ => none
    | _ => none
  | _ => none

def graphOf (cells : Array CellD) : Graph Int where
  isFormula := fun i => match cells[i]? with
    | some (.sum _ _) => true
    | _ => false
  refs := fun i => match cells[i]? with
    | some (.sum _ rs) => rs
    | _ => []
  cont := fun _ _ => true
  combine := fun i vs => match cells[i]? with
    | some (.sum c _) => vs.foldl (· + ·) c
    | some (.leaf v) => v
    | none => 0
  leaf := fun i => match cells[i]? with
    | some (.leaf v) => v
    | _ => 0
  blank := 0

def runCyc (M entry : Nat) (ds : List String) : String :=
  match ds.mapM parseCellD with
  | none => "bad-op"
  | some cells =>
    let arr := cells.toArray
    let G := graphOf arr
    let nF := (cells.filter fun d => match d with
      | .sum _ _ => true
      | _ => false).length
    let fuel := (M + 1) * nF + 1
    match arr[entry]? with
    | some (.leaf v) => s!"ok {v} it= calls=0"
    | none => "bad-op"
    | some (.sum _ _) =>
      match calcEntry G M fuel entry with
      | none => "FUEL"
      | some (v, c) =>
        let its := (List.range cells.length).filterMap fun i =>
          if c.iterations i > 0 then some s!"{i}={c.iterations i}" else none
        let vs := if v.natAbs > 9007199254740992 then "big" else toString v
        s!"ok {vs} it={",".intercalate its} calls={c.calls}"

/-- `opn … x<0|1>`: three evaluations on one opened `*File` (answer class + formulaChecked after
each) and the answer of a freshly opened one; x = does the lazy array-formula expansion fail -/
def runOpn (x : String) : String :=
  let e := x == "x1"
  if x != "x0" && x != "x1" then "bad-op" else
  let show1 (r : Ans × Bool) : String :=
    (match r.1 with
      | .value => "V"
      | .error => "E") ++ (if r.2 then "1" else "0")
  let three := (runLazy e .value 3 ⟨false⟩).map show1
  let fresh := match (evalLazy e .value ⟨false⟩).1 with
    | .value => "V"
    | .error => "E"
  " ".intercalate (three ++ [fresh])

def step (w : List String) : String :=
  match w with
  | "ev" :: toks => match parseToks toks with
    | some ts =>
      -- hypothesis of `Props.C09.eval_no_panic`: the array-aware nesting discipline
      let hyp := CalcTotal.nestedA [] [] ts
      showOutcome (evalTokens semC ts) ++ (if hyp then " h=1" else " h=0")
    | none => "bad-op"
  | "opn" :: rest => (match rest.getLast? with
    | some x => runOpn x
    | none => "bad-op")
  | "cyc" :: m :: e :: ds => match m.toNat?, e.toNat? with
    | some m, some e => runCyc m e ds
    | _, _ => "bad-op"
  | _ => "bad-op"

def run : IO Unit := runStateless step

end XlModel.Drv.C09
