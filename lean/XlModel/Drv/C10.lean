/-
Line-protocol driver for C10 (see harness/cmd/vh/c10.go for the grammar).

  fmt <cellNumeric> <value> N <isnum> <prec> <pfbits> <abs> <big0> <big1>
      D <t0:8 ints> <t1:8 ints> <hour1900> I <date1904> <unix seconds of t0>
      L <n> { <code> <ok> <era> <ap> <m3> <m4> <m5> <wdA> <wd> <m3'> <m4'> <m5'> <wdA'> <wd'> }
      S <n> { <type> <k> { <ttype> <tvalue> <p> { <ptype> <pvalue> <langok> } } }
      O <hasLongDate> [<n> sections] <hasLongTime> [<n> sections]      Options patterns, tokenised by nfp
    -> <ok hex | PANIC | UNMODELLED> C=<conf> X=<exact fixed rendering | -> T=<fields = C19 civilOf of the instant> A=<AM/PM patterns in the regenerated table>
  comma <text>      -> printCommaSep
  bcode <culture> <short> <longtime> <id>   -> getBuiltInNumFmtCode (hook): ok <code> | none
  norm <raw> <isNum> <prec> <fltbits> <short>   -> GetCellValue of an unstyled cell (getValueFrom's normalisation)
  glue <styled> <id> <culture> <short> <longtime> <code|none> <k> {<id> <code>} <raw> <isNum> <prec> <fltbits> <short> fmt …  GetCellValue through NewStyle{NumFmt:id}:
        the fmt fields for the code the harness expects + R=<formattedValue's resolution in the model equals it>
All strings hex ("-" = empty).
-/
import XlModel.NumFmtFloat
import XlModel.NumFmtDate
import XlModel.NumFmtGlue
import XlModel.Drv.Util
namespace XlModel.Drv.C10
open XlModel XlModel.NumFmt XlModel.Drv

abbrev P := StateT (List String) Option

def word : P String := fun s => match s with
  | [] => none
  | w :: r => some (w, r)

def nat : P Nat := do
  let w ← word
  match w.toNat? with
  | some n => pure n
  | none => failure

def int : P Int := do
  let w ← word
  match w.toInt? with
  | some n => pure n
  | none => failure

def flag : P Bool := do
  let w ← word
  pure (w = "1")

def hstr : P Str := do
  let w ← word
  match unhexS w with
  | some s => pure s
  | none => failure

def lit (x : String) : P Unit := do
  let w ← word
  if w = x then pure () else failure

def many {α} (p : P α) : Nat → P (List α)
  | 0 => pure []
  | n + 1 => do
    let a ← p
    let r ← many p n
    pure (a :: r)

def strOf (s : Str) : String := String.ofList s

def hexBits (s : String) : Option UInt64 :=
  s.toList.foldl (fun a c => match a, hexVal c with
    | some v, some d => some (v * 16 + UInt64.ofNat d)
    | _, _ => none) (some 0)

def timeF : P TimeF := do
  let y ← int; let mo ← nat; let d ← nat; let h ← nat; let mi ← nat; let s ← nat; let ns ← nat; let el ← int
  pure { year := y, month := mo, day := d, hour := h, minute := mi, second := s, nano := ns, elapsedSec := el }

structure LocRow where
  code : Str
  l0 : Locale
  l1 : Locale

def locRow : P LocRow := do
  let code ← hstr; let ok ← flag; let era ← flag; let ap ← hstr
  let a3 ← hstr; let a4 ← hstr; let a5 ← hstr; let awa ← hstr; let aw ← hstr
  let b3 ← hstr; let b4 ← hstr; let b5 ← hstr; let bwa ← hstr; let bw ← hstr
  pure { code := code,
         l0 := { ok := ok, apFmt := ap, month3 := a3, month4 := a4, month5 := a5, wdAbbr := awa, wd := aw, era := era },
         l1 := { ok := ok, apFmt := ap, month3 := b3, month4 := b4, month5 := b5, wdAbbr := bwa, wd := bw, era := era } }

def part : P Part := do
  let ty ← word; let v ← hstr; let ok ← flag
  pure { ty := ty, val := v, langOk := ok }

def tok : P Tok := do
  let ty ← word; let v ← hstr; let np ← nat
  let ps ← many part np
  pure { ty := ty, val := v, parts := ps }

def sec : P Sec := do
  let ty ← word; let n ← nat
  let ts ← many tok n
  pure { ty := ty, items := ts }

def b01 (b : Bool) : String := if b then "1" else "0"

def noLocale : Locale := { ok := false, apFmt := [], month3 := [], month4 := [], month5 := [], wdAbbr := [], wd := [], era := false }

def confStr (secs : List Sec) (cellNumeric : Bool) (n : NumIn) : String :=
  let numeric := cellNumeric && n.isNum
  let (vst, up) := valueSectionType secs numeric n.neg n.zero
  match selectSection secs vst with
  | none => "C=-"
  | some (i, sc) =>
    if numeric then
      let c := getConf sc.items
      let (il, fl) := partLen c n.absShort
      -- getNumberPartLen clamps nf.intHolder to the integer digit count as a side effect
      let ip := match splitC '.' n.absShort with | p :: _ => p.length | [] => 0
      let ih := if c.intHolder > ip then ip else c.intHolder
      s!"C={i},{sc.ty},{b01 up},{ih},{c.intPadding},{c.fracHolder},{c.fracPadding},{c.expBaseLen},{c.percent},{il},{fl},{b01 c.useCommaSep},{b01 c.useFraction},{b01 c.usePointer},{b01 c.useSci}"
    else s!"C={i},{sc.ty},{b01 up}"

def exactStr (secs : List Sec) (value : Str) (cellNumeric : Bool) (n : NumIn) : String :=
  let numeric := cellNumeric && n.isNum
  let (vst, _) := valueSectionType secs numeric n.neg n.zero
  match selectSection secs vst, Exact.parse value with
  | some (_, sc), some x =>
    if numeric then
      let c := getConf sc.items
      let (_, fl) := partLen c n.absShort
      "X=" ++ hexS (Exact.fixed x c.percent fl)
    else "X=-"
  | _, _ => "X=-"

def fmtOp : P String := do
  let cellNumeric ← flag
  let value ← hstr
  lit "N"
  let isNum ← flag; let prec ← nat; let pfw ← word
  let absS ← hstr; let big0 ← hstr; let big1 ← hstr
  let pf ← match hexBits pfw with
    | some b => pure (Float.ofBits b)
    | none => failure
  lit "D"
  let t0 ← timeF; let t1 ← timeF; let h1900 ← nat
  lit "I"
  let d1904 ← flag; let unix0 ← int
  lit "L"
  let nl ← nat
  let rows ← many locRow nl
  -- join with the calendar model of C19: the fields the real code read are those of the instant
  let inst0 : Int := unix0 * 1000000000 + (t0.nano : Int)
  let tOk := decide (timeFOfInstant inst0 d1904 = t0) && decide (timeFOfInstant (inst0 + 1000000000) d1904 = t1)
  -- every AM/PM pattern of a supported locale row is in the regenerated table
  let table := Facts.C10.apFmts.map bytesOf
  let aOk := rows.all fun r => !r.l0.ok || table.contains r.l0.apFmt
  lit "S"
  let ns ← nat
  let secs ← many sec ns
  lit "O"
  let optSecs : P (Option (List Sec)) := do
    let has ← flag
    if has then
      let k ← nat
      let ss ← many sec k
      pure (some ss)
    else pure none
  let ld ← optSecs
  let lt ← optSecs
  let n := F64.numIn isNum prec pf absS big0 big1
  let look (sel : LocRow → Locale) (code : Str) : Locale :=
    match rows.find? (fun r => r.code = code) with
    | some r => sel r
    | none => noLocale
  let d0 : DateIn := { t0 := t0, t1 := t1, hour1900 := h1900, loc0 := look (·.l0), loc1 := look (·.l1) }
  let d := applyOptions d0 ld lt value cellNumeric n
  let r := match format secs value cellNumeric n d with
    | .ok s => "ok " ++ hexS s
    | .panic => "PANIC"
    | .unmodelled => "UNMODELLED"
    | .fallback => "FALLBACK"
  pure (r ++ " " ++ confStr secs cellNumeric n ++ " " ++ exactStr secs value cellNumeric n ++ " T=" ++ b01 tOk ++ " A=" ++ b01 aOk)

def step (w : List String) : String :=
  match w with
  | "fmt" :: rest =>
    match fmtOp rest with
    | some (s, []) => s
    | _ => "bad-op"
  | ["bcode", cu, sh, lt, id] =>
    match cu.toNat?, unhexS sh, unhexS lt, id.toNat? with
    | some cu, some sh, some lt, some id =>
      match Glue.builtInCode { culture := cu, short := sh, longTime := lt } id with
      | some c => "ok " ++ hexS c
      | none => "none"
    | _, _, _, _ => "bad-op"
  | "glue" :: styled :: id :: cu :: sh :: lt :: code :: nc :: more =>
    let r : Option String := do
      let id ← id.toNat?
      let cu ← cu.toNat?
      let sh ← unhexS sh
      let lt ← unhexS lt
      let code : Option Str ← (if code = "none" then some none else (unhexS code).map some)
      let nc ← nc.toNat?
      -- customs
      let rec takeCustoms : Nat → List String → Option (List (Nat × Str) × List String)
        | 0, ws => some ([], ws)
        | k + 1, i :: c :: ws => do
          let i ← i.toNat?
          let c ← unhexS c
          let (cs, ws) ← takeCustoms k ws
          pure ((i, c) :: cs, ws)
        | _, _ => none
      let (customs, more) ← takeCustoms nc more
      match more with
      | raw :: isNum :: prec :: bits :: short :: "fmt" :: rest =>
        let raw ← unhexS raw
        let prec ← prec.toNat?
        let flt ← (hexBits bits).map Float.ofBits
        let short ← unhexS short
        let (out, rem) ← fmtOp rest
        if rem ≠ [] then none else
        let value ← (rest[1]?).bind unhexS
        let got := Glue.resolve customs (if styled = "1" then 1 else 0) id { culture := cu, short := sh, longTime := lt }
        let nv := Glue.normalize (isNum = "1") prec short (F64.fmtG (Glue.lit Facts.C10.getValueFromInts 4) flt) raw
        pure (out ++ " R=" ++ b01 (decide (got = code)) ++ " N=" ++ b01 (decide (nv = value)))
      | _ => none
    r.getD "bad-op"
  | ["norm", raw, isNum, prec, bits, short] =>
    match unhexS raw, prec.toNat?, hexBits bits, unhexS short with
    | some raw, some prec, some b, some short =>
      "ok " ++ hexS (Glue.normalize (isNum = "1") prec short (F64.fmtG (Glue.lit Facts.C10.getValueFromInts 4) (Float.ofBits b)) raw)
    | _, _, _, _ => "bad-op"
  | ["comma", h] =>
    match unhexS h with
    | some s => "ok " ++ hexS (printCommaSep s)
    | none => "bad-op"
  | _ => "bad-op"

def run : IO Unit := runStateless step

end XlModel.Drv.C10
