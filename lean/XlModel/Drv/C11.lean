import XlModel.StreamTree
import XlModel.Drv.Util
/-!
Line protocol of the C11 driver (stateful: one stream writer at a time).

  cfg <chunk> <0|1>                      spill threshold, temp file creatable
  new <hex prolog> <hex pre> <nStyles>   NewStreamWriter
  setrow <hex cell> <opts> <item>*       SetRow; opts = `-` | style,h4,outline,hidden
        item = n | i<int> | b0 | b1 | T<0|1>;<hex text>;<nf22 id> (time) | f<hex text> | s<hex> | R<hex xml> | RE | C<style>,<hex formula>,<item>
  merge <hex> <hex> | colwidth a b w4 <hex pre> | colstyle a b st <hex pre> | panes 0 <hex sv> (nil options) | panes2 <freeze> <split> <x> <y> <hex topLeft> <hex activePane> <hex viewAttrs> <hex f5> (<hex activeCell> <hex pane> <hex sqref>)*
  reader | flush <hex tableParts> <hex field 0> … <hex field 42>   (per-field rendering of xlsxWorksheet)
  bwnew <n> | bwrow <n> | bwflush        the buffered writer on sizes only (large volumes)
  trees                                  canonical element trees of all written cells: as writeCell wrote them (w) and as
                                         encoding/xml marshals the decoded records after a load/save cycle (m)

Answer: `<ok|E_…> rows= sw= mc= n= tmp= buf= h=<fnv1a64 of abs> d=<hex of the first 96 bytes appended>`.
-/
namespace XlModel.Drv.C11
open XlModel XlModel.Stream XlModel.Drv

def fnv (s : Bytes) : UInt64 :=
  s.foldl (fun h c => (h ^^^ (UInt64.ofNat c.toNat)) * 1099511628211) 14695981039346656037

def hex64 (h : UInt64) : String :=
  String.ofList ((List.range 16).map fun i => hexDigit ((h.toNat >>> (4 * (15 - i))) % 16))

structure St where
  cfg : Cfg
  sw : Option SW
  bw : BWn

def ext : Ext := { bstr := bstrMarshal, unbstr := id }

partial def parseVal (s : List Char) : Option Val :=
  match s with
  | ['n'] => some .nil
  | 'i' :: r => (String.ofList r).toInt?.map Val.int
  | ['b', '0'] => some (.bool false)
  | ['b', '1'] => some (.bool true)
  | 'f' :: r => (unhexS (String.ofList r)).map Val.num
  | 's' :: r => (unhexS (String.ofList r)).map Val.str
  | ['R', 'E'] => some .richErr
  | 'D' :: r => (unhexS (String.ofList r)).map (fun t => Val.dur t 0)
  | 'T' :: r =>
    match (String.ofList r).splitOn ";" with
    | [n, t, nf] =>
      match unhexS t, nf.toInt? with
      | some t, some nf => some (.time (n = "1") t nf nf)
      | _, _ => none
    | _ => none
  | 'R' :: r => (unhexS (String.ofList r)).map Val.rich
  | _ => none

def parseItem (w : String) : Option Item :=
  match w.toList with
  | ['n'] => some .skip
  | 'C' :: r =>
    match (String.ofList r).splitOn "," with
    | [st, f, v] =>
      match st.toInt?, unhexS f, parseVal v.toList with
      | some st, some f, some v => some (.cell st f v)
      | _, _, _ => none
    | _ => none
  | cs => (parseVal cs).map Item.plain

def parseOpts (w : String) : Option RowOpts :=
  if w = "-" then some RowOpts.zero
  else match w.splitOn "," with
    | [a, b, c, d] =>
      match a.toInt?, b.toInt?, c.toInt? with
      | some a, some b, some c => some { style := a, h4 := b, outline := c, hidden := d = "1" }
      | _, _, _ => none
    | _ => none

def allSome {α} : List (Option α) → Option (List α)
  | [] => some []
  | none :: _ => none
  | some a :: r => (allSome r).map (a :: ·)

def triples : List Bytes → List (Bytes × Bytes × Bytes)
  | a :: b :: c :: r => (a, b, c) :: triples r
  | _ => []

def parseOp (w : List String) : Option Op :=
  match w with
  | "setrow" :: cell :: opts :: items =>
    match unhexS cell, parseOpts opts, allSome (items.map parseItem) with
    | some cell, some o, some its => some (.setRow cell its o)
    | _, _, _ => none
  | ["merge", a, b] =>
    match unhexS a, unhexS b with
    | some a, some b => some (.merge a b)
    | _, _ => none
  | ["colwidth", a, b, w4, pre] =>
    match a.toInt?, b.toInt?, w4.toInt?, unhexS pre with
    | some a, some b, some w4, some pre => some (.colWidth a b w4 pre)
    | _, _, _, _ => none
  | ["colstyle", a, b, st, pre] =>
    match a.toInt?, b.toInt?, st.toInt?, unhexS pre with
    | some a, some b, some st, some pre => some (.colStyle a b st pre)
    | _, _, _, _ => none
  | ["panes", ok, pre] => (unhexS pre).map (Op.panes (ok = "1"))
  | "panes2" :: fr :: sp :: xs :: ys :: tl :: ap :: va :: f5 :: sel =>
    -- SetPanes with options: fields 4..5 are rendered by the model (`panesSV`) from the options
    match xs.toInt?, ys.toInt?, unhexS tl, unhexS ap, unhexS va, unhexS f5, allSome (sel.map unhexS) with
    | some xs, some ys, some tl, some ap, some va, some f5, some sel =>
      some (.panes true (panesSV va f5 (PaneOpts.mk (fr == "1") (sp == "1") xs ys tl ap (triples sel))))
    | _, _, _, _, _, _, _ => none
  | ["reader"] => some .reader
  | "flush" :: tp :: fs =>
    match unhexS tp, allSome (fs.map unhexS) with
    | some tp, some fs => some (.flush { fields := fs, tableParts := tp })
    | _, _ => none
  | _ => none

def showSW (res : Option E) (before : Nat) (s : SW) : String :=
  let abs := s.raw.abs
  let d := if abs.length < before then "!" else hexS ((abs.drop before).take 96)
  let tmp := match s.raw.tmp with | none => "-" | some t => toString t.length
  let r := match res with | none => "ok" | some e => e.tag
  s!"{r} rows={s.rows} sw={if s.sheetWritten then 1 else 0} mc={s.mergeCount} n={s.log.length} tmp={tmp} buf={s.raw.buf.length} h={hex64 (fnv abs)} d={d}"

def showBW (w : BWn) : String :=
  let tmp := match w.tmp with | none => "-" | some t => toString t
  s!"tmp={tmp} buf={w.buf}"

def step (st : St) (w : List String) : St × String :=
  match w with
  | ["cfg", c, t] =>
    match c.toNat? with
    | some c => ({ st with cfg := { chunk := c, tmpOK := t = "1" } }, "ok")
    | none => (st, "bad-op")
  | ["new", prolog, pre, n] =>
    match unhexS prolog, unhexS pre, n.toInt? with
    | some prolog, some pre, some n =>
      let s := SW.init prolog pre n
      ({ st with sw := some s }, showSW none 0 s)
    | _, _, _ => (st, "bad-op")
  | ["trees"] =>
    match st.sw with
    | some s =>
      let cells := (s.log.flatMap (·.cells)).filter XC.kept
      let w := String.intercalate "\n" (cells.map fun c => canonCell (writeCellTree ext c))
      let m := String.intercalate "\n" (cells.map fun c => canonCell (marshalTree ext (reparse c)))
      (st, s!"n={cells.length} w={hex64 (fnv w.toList)} m={hex64 (fnv m.toList)}")
    | none => (st, "bad-op")
  | ["bwnew", n] =>
    match n.toNat? with
    | some n => let b : BWn := { tmp := none, buf := n }; ({ st with bw := b }, showBW b)
    | none => (st, "bad-op")
  | ["bwrow", n] =>
    match n.toNat? with
    | some n => let b := (st.bw.write n).sync st.cfg; ({ st with bw := b }, showBW b)
    | none => (st, "bad-op")
  | ["bwflush", n] =>
    match n.toNat? with
    | some n => let b := (st.bw.write n).flush; ({ st with bw := b }, showBW b)
    | none => (st, "bad-op")
  | _ =>
    match st.sw, parseOp w with
    | some s, some op =>
      let before := s.raw.abs.length
      let r := Stream.step ext st.cfg s op
      let extra := match op with
        | .reader => " rh=" ++ hex64 (fnv (reader s).2)
        | _ => ""
      ({ st with sw := some r.1 }, showSW r.2 before r.1 ++ extra)
    | _, _ => (st, "bad-op")

def run : IO Unit :=
  runStateful ({ cfg := Cfg.code, sw := none, bw := { tmp := none, buf := 0 } } : St) step

end XlModel.Drv.C11
