import XlModel.Store
import XlModel.Sst
import XlModel.ZipList
import XlModel.Drv.Util
/-
Line protocol of C12 (see harness/cmd/vh/c12.go).  Names are %-escaped, blobs
are `<len> <tag>` (tag `-` for the empty blob).  Every line prints the Impl
state dump, then ` | `, then the Spec map; the Go side prints the real store
dump and its own abstraction in the same format.
-/
namespace XlModel.Drv.C12
open XlModel XlModel.Store XlModel.Drv

def hexv (c : Char) : Nat := (hexVal c).getD 0

def unescL : List Char → List Char
  | '%' :: a :: b :: r => Char.ofNat (hexv a * 16 + hexv b) :: unescL r
  | c :: r => c :: unescL r
  | [] => []

def unesc (s : String) : String := if s = "-" then "" else String.ofList (unescL s.toList)

def safeChar (c : Char) : Bool :=
  c.isAlphanum || c = '_' || c = '.' || c = '/' || c = '[' || c = ']' || c = '-'

def esc (s : String) : String :=
  if s = "" then "-" else
  String.ofList (s.toList.flatMap fun c =>
    if safeChar c && c.toNat < 128 then [c]
    else (bytesOf (String.singleton c)).flatMap fun b => ['%', hexDigit (b.toNat / 16 % 16), hexDigit (b.toNat % 16)])

def mkBlob (len : Nat) (tag : String) : Blob := if len = 0 then emptyBlob else ⟨tag, len⟩

def showBlob (b : Blob) : String := if b.len = 0 then "0." else s!"{b.len}.{b.tag}"

def insAsc {α} (x : String × α) : List (String × α) → List (String × α)
  | [] => [x]
  | y :: r => if x.1 < y.1 then x :: y :: r else y :: insAsc x r

def sortAsc {α} (l : List (String × α)) : List (String × α) := l.foldr insAsc []

def showMap (m : List (String × String)) : String :=
  " ".intercalate ((sortAsc m).map fun p => esc p.1 ++ ":" ++ p.2)

def b2 (b : Bool) : String := if b then "1" else "0"

def dumpImpl (st : St) : String :=
  let p := showMap (st.pkg.map fun q => (q.1, showBlob q.2))
  let t := showMap (st.temp.map fun q => (q.1, match st.disk.load q.2 with | some b => showBlob b | none => "gone"))
  let l := " ".intercalate ((sortAsc (st.loaded.map fun n => (n, ()))).map fun q => esc q.1)
  s!"P[{p}] T[{t}] L[{l}] s{b2 st.sstLoaded} i{b2 st.sstTemp.isSome} f{st.disk.length}"

def dumpSpec (sp : Spec.S) (taint : Bool) : String :=
  "A[" ++ showMap (sp.m.map fun q => (q.1, if taint && q.1 = Facts.C12.sstPath then "*" else showBlob q.2)) ++ "]"

structure D where
  impl : Option St := none
  spec : Spec.S := {}
  taint : Bool := false
  sst : Option Sst.St := none
  sspec : Sst.Tab := []

def sstState (st : Sst.St) : String :=
  let t := match st.table with | some x => toString x.length | none => "nil"
  s!"t={t} x={b2 st.index.isSome} sp={b2 st.spilled}"

def showItems (t : Sst.Tab) : String :=
  "P[" ++ " ".intercalate (t.map fun it => (match it.key with | some k => "k" ++ k | none => "r") ++ ":" ++ it.text) ++ "]"

def showSOut : Sst.Out → String
  | .none => "-"
  | .str s => "S" ++ s
  | .idx i => "I" ++ toString i

def sItems : Nat → List String → Option Sst.Tab
  | 0, [] => some []
  | 0, _ => none
  | k + 1, f :: key :: text :: r =>
    match sItems k r with
    | some xs => some (⟨if f = "1" then some key else none, text⟩ :: xs)
    | none => none
  | _, _ => none

def sstOp (d : D) (op : Sst.Op) : D × String :=
  match d.sst with
  | none => (d, "no-sst")
  | some st =>
    let (st', o) := Sst.step st op
    let (sp', so) := Sst.Spec.step d.sspec op
    ({ d with sst := some st', sspec := sp' },
      showSOut o ++ " " ++ sstState st' ++ " | " ++ showSOut so ++ s!" n={sp'.length}")

def nat? (s : String) : Option Nat := s.toNat?

/-- parse `k` triples `name len tag` -/
def triples : Nat → List String → Option (List (String × Blob) × List String)
  | 0, r => some ([], r)
  | k + 1, n :: l :: t :: r =>
    match nat? l, triples k r with
    | some len, some (xs, r') => some ((unesc n, mkBlob len t) :: xs, r')
    | _, _ => none
  | _, _ => none

def entries : Nat → List String → Option (List Entry)
  | 0, [] => some []
  | 0, _ => none
  | k + 1, n :: d :: dir :: io :: l :: t :: r =>
    match parseInt? d, nat? l, entries k r with
    | some dd, some len, some es =>
      let ioe := if io = "1" then IoErr.copy else if io = "2" then IoErr.open else IoErr.none
      some (⟨unesc n, dd, dir = "1", ioe, mkBlob len t⟩ :: es)
    | _, _, _ => none
  | _, _ => none

def showZip (z : List (String × Blob)) : String :=
  "Z[" ++ " ".intercalate (z.map fun p => esc p.1 ++ ":" ++ showBlob p.2) ++ "]"

/-- run primitive ops on both machines -/
def both (d : D) (ops : List Op) : D × String :=
  match d.impl with
  | none => (d, "no-file")
  | some st =>
    let (st', outs) := Store.run st ops
    let (sp', _) := Spec.run d.spec ops
    let z := outs.filterMap fun o => match o with | .zip z => some (showZip z ++ " ") | _ => none
    let d' := { d with impl := some st', spec := sp' }
    (d', String.join z ++ dumpImpl st' ++ " | " ++ dumpSpec sp' d'.taint)

def step (d : D) (w : List String) : D × String :=
  match w with
  | "case" :: _ => ({}, "case")
  | "sopen" :: sp :: ip :: k :: rest =>
    match nat? k with
    | some kk =>
      match sItems kk rest with
      | some items =>
        let st : Sst.St := { part := items, spilled := sp = "1", inPkg := ip = "1" }
        ({ d with sst := some st, sspec := items }, "sok " ++ sstState st)
      | none => (d, "bad-op")
    | none => (d, "bad-op")
  | "zipnames" :: a :: rest =>
    -- zipnames <#streams> s.. <#pkg> p.. <#temp> t..  → the names writeToZip writes, sorted (with multiplicity)
    match nat? a with
    | some na =>
      let ss := (rest.take na).map unesc
      match rest.drop na with
      | b :: rest2 =>
        match nat? b with
        | some nb =>
          let ps := (rest2.take nb).map unesc
          match rest2.drop nb with
          | c :: rest3 =>
            match nat? c with
            | some nc =>
              let ts := (rest3.take nc).map unesc
              let z := ZipList.zipNames ss ps ts
              (d, "N[" ++ " ".intercalate ((sortAsc (z.map fun n => (n, ()))).map fun q => esc q.1) ++ "]")
            | none => (d, "bad-op")
          | [] => (d, "bad-op")
        | none => (d, "bad-op")
      | [] => (d, "bad-op")
    | none => (d, "bad-op")
  | ["sread"] => sstOp d .read
  | ["sget", i] => match nat? i with | some n => sstOp d (.get n) | none => (d, "bad-op")
  | ["siter", i] => match nat? i with | some n => sstOp d (.get n) | none => (d, "bad-op")
  | ["scol", i] => match nat? i with | some n => sstOp d (.get n) | none => (d, "bad-op")
  | ["sload"] => sstOp d .load
  | ["sset", k, t] => sstOp d (.set k t)
  | ["ssave"] =>
    match d.sst with
    | none => (d, "no-sst")
    | some st =>
      let st' := Sst.save st
      ({ d with sst := some st' }, showItems st'.part ++ " " ++ sstState st' ++ " | " ++ showItems d.sspec)
  | "open" :: x :: s :: k :: rest =>
    match parseInt? x, parseInt? s, nat? k with
    | some xl, some sl, some kk =>
      match entries kk rest with
      | none => (d, "bad-op")
      | some es =>
        match openReader ⟨xl, sl⟩ es with
        | .optErr => ({}, "OPTERR")
        | .err disk => ({}, s!"E_OPEN f{disk.length}")
        | .panic disk => ({}, s!"PANIC f{disk.length}")
        | .ok st =>
          let sp : Spec.S := { m := Spec.parts es [] }
          let ws := match checkOptions ⟨xl, sl⟩ with
            | some l => (match readZip l {} 0 0 es with | .ok _ n => n | _ => 0)
            | none => 0
          ({ impl := some st, spec := sp }, s!"ok ws={ws} " ++ dumpImpl st ++ " | " ++ dumpSpec sp false)
    | _, _, _ => (d, "bad-op")
  | ["getmiss", n] => both d [.wsRead (unesc n)]
  | ["setnum", n] => both d [.wsRead (unesc n)]
  | ["getnum", n] => both d [.wsRead (unesc n), .sstRead]
  | ["getstr", n, fl, ft] =>
    match nat? fl with
    | some l => both d [.wsRead (unesc n), .sstRead, .sstItem (mkBlob l ft)]
    | none => (d, "bad-op")
  | ["setstr", n] => both d [.wsRead (unesc n), .sstSet]
  | ["rich", n, isS] =>
    both d ([.wsRead (unesc n)] ++ (if isS = "1" then
      (if (Facts.C12.loaderBeforeReader.lookup "GetCellRichText") = some true then [Op.sstLoad] else []) ++ [Op.sstRead] else []))
  | ["rows", n, sl, stg, hasRow, hasStr, fl, ft] =>
    match nat? sl, nat? fl with
    | some sl, some fl =>
      both d ([.flush (unesc n) (mkBlob sl stg), .stream (unesc n)]
        ++ (if hasRow = "1" then [Op.sstRead] else [])
        ++ (if hasStr = "1" then [Op.sstItem (mkBlob fl ft)] else []))
    | _, _ => (d, "bad-op")
  | ["rb", n] => both d [.readBytes (unesc n)]
  | ["sstload"] => both d [.sstLoad]
  | "save" :: law :: k :: rest =>
    match nat? k with
    | none => (d, "bad-op")
    | some kk =>
      match triples kk rest with
      | some (ws, sl :: stg :: m :: rest2) =>
        match nat? sl, nat? m with
        | some sl, some mm =>
          match triples mm rest2 with
          | some (oth, []) =>
            let d1 := { d with taint := d.taint || law = "0" }
            both d1 [.save ws (mkBlob sl stg) oth]
          | _ => (d, "bad-op")
        | _, _ => (d, "bad-op")
      | _ => (d, "bad-op")
  | ["close"] =>
    match d.impl with
    | none => (d, "no-file")
    | some st =>
      let (st', err) := close st
      ({}, s!"closed err={b2 err} f{st'.disk.length}")
  | _ => (d, "bad-op")

def run : IO Unit := runStateful ({} : D) step

end XlModel.Drv.C12
