import XlModel.Cfb
import XlModel.Crypt
import XlModel.Sha1
import XlModel.CryptFull
import XlModel.Generated.Facts
import XlModel.Drv.Util
namespace XlModel.Drv.C13
open XlModel XlModel.Cfb XlModel.Crypt XlModel.Drv

/-! Line protocol of C13 (see harness/cmd/vh/c13.go):
  loc <n> <size>*          (*cfb).prepare + locate on streams of these sizes
  cfb <n> <size>*          (*cfb).write; canonical structure + FNV-1a of all bytes + reader round trip
  enc <pwhex> <size> <k>   Encrypt then Decrypt (toy cipher on the model side)
-/

def streamName (k : Nat) : List Char :=
  if k = 0 then infoName else if k = 1 then pkgName else ("ZStream0000000000" ++ toString k).toList

/-- deterministic content: byte i of stream k -/
def pat (n k : Nat) : List Byte := (List.range n).map fun i => (i * 7 + 3 + k * 11 + i / 256) % 256

def mkStreams (sizes : List Nat) : List Stream :=
  (List.range sizes.length).zip sizes |>.map fun (k, n) => ⟨streamName k, pat n k⟩

partial def rleGo (l : Array Int) (i : Nat) (acc : Array String) : Array String :=
  if h : i < l.size then
    let v := l[i]
    let rec incRun (j : Nat) (fuel : Nat) : Nat :=
      match fuel with
      | 0 => j
      | f + 1 => if j < l.size ∧ l[j]! = v + (Int.ofNat (j - i)) then incRun (j + 1) f else j
    let rec sameRun (j : Nat) (fuel : Nat) : Nat :=
      match fuel with
      | 0 => j
      | f + 1 => if j < l.size ∧ l[j]! = v then sameRun (j + 1) f else j
    let a := incRun (i + 1) l.size - i
    let b := sameRun (i + 1) l.size - i
    if b ≥ a then rleGo l (i + b) (acc.push s!"{v}*{b}") else rleGo l (i + a) (acc.push s!"{v}+{a}")
  else acc

def rle (l : List Int) : String :=
  let r := rleGo l.toArray 0 #[]
  if r.isEmpty then "-" else ",".intercalate r.toList

def fnv (bs : List Byte) : UInt64 :=
  bs.foldl (fun h b => (h ^^^ (UInt64.ofNat b)) * 1099511628211) 14695981039346656037

def showEnt : Option DirEnt → String
  | none => "_"
  | some e => s!"{hexS e.name}:{e.typ}:{e.color}:{e.left}:{e.right}:{e.child}:{e.start}:{e.size}"

def allWords : List Sector → List Int
  | [] => []
  | .words w :: r => w ++ allWords r
  | _ :: r => allWords r

def allEnts : List Sector → List (Option DirEnt)
  | [] => []
  | .dir es :: r => es ++ allEnts r
  | _ :: r => allEnts r

/-- byte regions of the container described through the directory: every stream at or above the cutoff
and the mini stream container, as `name:start:sectors:fnv(bytes of those sectors)` -/
def regions (img : Image) : String :=
  let ents := (allEnts img.secs).filterMap id
  let one (e : DirEnt) : Option String :=
    if (e.typ = 2 ∧ e.size ≥ 4096) ∨ (e.typ = 5 ∧ e.size > 0) then
      let st := e.start.toNat
      let n := (e.size + 511) / 512
      let bytes := ((img.secs.drop st).take n).flatMap renderSector
      some s!"{hexS e.name}:{st}:{n}:{fnv bytes}"
    else none
  let rs := ents.filterMap one
  if rs.isEmpty then "-" else ";".intercalate rs

def parseSizes : List String → Option (List Nat)
  | [] => some []
  | w :: r => match w.toNat?, parseSizes r with
    | some n, some l => some (n :: l)
    | _, _ => none

def toy : Cipher :=
  { enc := fun b => (b.map fun x => (x + 7) % 256).reverse,
    dec := fun b => (b.map fun x => (x + 249) % 256).reverse }

def showLoc (l : Loc) : String :=
  s!"{l.difat} {l.fat} {l.minifat} {l.dir} {l.files} {l.mini} {l.total} {l.rootStart} {l.rootSize}"

def step (w : List String) : String :=
  match w with
  | "loc" :: n :: rest =>
    match n.toNat?, parseSizes rest with
    | some n, some sizes =>
      if sizes.length ≠ n then "bad-op" else
      match locate sizes with
      | some l => showLoc l
      | none => "diverge"
    | _, _ => "bad-op"
  | "cfb" :: n :: rest =>
    match n.toNat?, parseSizes rest with
    | some n, some sizes =>
      if sizes.length ≠ n then "bad-op" else
      let streams := mkStreams sizes
      match write streams with
      | .error .divergent => "diverge"
      | .error (.misplaced j) => s!"misplaced {j}"
      | .ok img =>
        let bytes := render img
        let h := img.hdr
        let rt := match read img with
          | .ok ss => if ss = streams then "1" else "0"
          | .error _ => "0"
        s!"len={bytes.length} hdr={h.numFat},{h.firstDir},{h.cutoff},{h.firstMiniFat},{h.numMiniFat},{h.firstDifat},{h.numDifat}"
          ++ s!" hd={rle h.difat} tbl={rle (allWords img.secs)} dir={";".intercalate ((allEnts img.secs).map showEnt)}"
          ++ s!" hdr76={hexS (((renderHeader img.hdr).take 76).map Char.ofNat)} reg={regions img}"
          ++ s!" h={fnv bytes} rt={rt}"
    | _, _ => "bad-op"
  | ["enc", pw, n, k] =>
    match unhexS pw, n.toNat?, k.toNat? with
    | some pw, some n, some k =>
      if pw.length = 0 ∨ pw.length > Facts.MaxFieldLength then "E_PWLEN" else
      let raw := pat n k
      match encryptFile toy (List.replicate 248 0) raw with
      | .error _ => "diverge"
      | .ok img =>
        let pkg := encryptedPackage toy raw
        let d := match decryptFile toy (fun _ => true) img with
          | .ok b => s!"ok {b.length} {if b = raw then 1 else 0}"
          | .err => "err"
          | .panic => "PANIC"
        s!"info=248 pkg={pkg.length} total={(render img).length} dec={d}"
    | _, _, _ => "bad-op"
  | ["agile", n, _k] =>
    match n.toNat? with
    | some S =>
      let N := pad16 S
      match decryptPackageSegs (N + Facts.C13.packageOffset) with
      | .err => "err"
      | .ok segs =>
        let good := match goodPrefix 0 segs (specSegs N) with
          | none => "full"
          | some g => if g < S then toString g else "full"
        s!"out={outLen segs} good={good}"
    | none => "bad-op"
  | ["agilen", n, _k] =>
    match n.toNat? with
    | some N =>
      match decryptPackageSegs (N + Facts.C13.packageOffset) with
      | .err => "err"
      | .ok segs =>
        let good := if N % 16 = 0 then "full" else toString (N / 16 * 16)
        let same := if segs = specSegs N then 1 else 0
        s!"out={outLen segs} good={good} spec={same}"
    | none => "bad-op"
  | ["sinfo", ih, pl] =>
    match unhexS ih, pl.toNat? with
    | some bs, some pkgLen =>
      match standardGuards (bs.map Char.toNat) pkgLen with
      | .ok _ _ => "ok"
      | .err => "err"
      | .agile => "agile"
      | .panic => "PANIC"
    | _, _ => "bad-op"
  | ["kds", salt, pw, kb] =>
    match unhexS salt, unhexS pw, kb.toNat? with
    | some sb, some pb, some keyBits =>
      match String.fromUTF8? (ByteArray.mk (pb.map (fun c => UInt8.ofNat c.toNat)).toArray) with
      | some str =>
        match standardKey Sha1.sha1 (sb.map Char.toNat) (utf16le str.toList) keyBits with
        | some k => "ok " ++ hexS (k.map Char.ofNat)
        | none => "E_KEYLEN"
      | none => "invalid"
    | _, _, _ => "bad-op"
  | ["kda", salt, pw, sp, kb, bk] =>
    match unhexS salt, unhexS pw, sp.toNat?, kb.toNat?, unhexS bk with
    | some sb, some pb, some spinCount, some keyBits, some bkb =>
      match String.fromUTF8? (ByteArray.mk (pb.map (fun c => UInt8.ofNat c.toNat)).toArray) with
      | some str =>
        "ok " ++ hexS ((agileKey Sha1.sha1 (sb.map Char.toNat) (utf16le str.toList) (bkb.map Char.toNat)
          spinCount keyBits).map Char.ofNat)
      | none => "invalid"
    | _, _, _, _, _ => "bad-op"
  | ["openmap", _kind, _seed, ole, dec, zp, pwg, rd, pt] =>
    let i : OpenIn := { hasOle := ole = "1", decOk := dec = "1", zipOk := zp = "1", pwGiven := pwg = "1",
                        readOk := rd = "1", partsOk := pt = "1" }
    let (content, err) := openReader i
    let cls := match err with
      | none => "none"
      | some .fileFormat => "fileFormat"
      | some .password => "password"
      | some .zipErr => "other"
      | some .later => "other"
    s!"content={if content then 1 else 0} err={cls}"
  | ["einfo", sa, ev, eh] =>
    match unhexS sa, unhexS ev, unhexS eh with
    | some a, some b, some c =>
      hexS ((CryptFull.assembleInfo (a.map Char.toNat) (b.map Char.toNat) (c.map Char.toNat)).map Char.ofNat)
    | _, _, _ => "bad-op"
  | ["u16", pw] =>
    match unhexS pw with
    | some bs =>
      match String.fromUTF8? (ByteArray.mk (bs.map (fun c => UInt8.ofNat c.toNat)).toArray) with
      | some str =>
        let out := utf16le str.toList
        "ok " ++ hexS (out.map Char.ofNat)
      | none => "invalid"
    | none => "bad-op"
  | _ => "bad-op"

def run : IO Unit := runStateless step

end XlModel.Drv.C13
