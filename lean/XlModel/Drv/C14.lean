import XlModel.Decode
import XlModel.Lemmas.DecodeRows
import XlModel.Ref
import XlModel.RefMulti
import XlModel.Drv.Util
namespace XlModel.Drv.C14
open XlModel XlModel.Decode XlModel.Drv

/-- parse "R,ref:hv,ref:hv;R,…" into decoded rows; cell ids are ordinals; also returns id ↦ ref hex -/
def parseSpec (spec : String) : Option (List Row × Array String) := Id.run do
  if spec = "-" then return some ([], #[])
  let mut rows : List Row := []
  let mut tbl : Array String := #[]
  for rs in spec.splitOn ";" do
    match rs.splitOn "," with
    | [] => return none
    | head :: cs =>
      let some r := head.toInt? | return none
      let mut cells : List Cell := []
      for c in cs do
        match c.splitOn ":" with
        | [h, hv] =>
          let some s := unhexS h | return none
          cells := cells ++ [{ r := refOf s, hv := hv = "1", id := some tbl.size }]
          tbl := tbl.push h
        | _ => return none
      rows := rows ++ [{ r := r, cells := cells }]
  return some (rows, tbl)

def showR (tbl : Array String) (c : Cell) : String :=
  let name := match c.r with
    | .absent => "-"
    | .orig _ => match c.id with
      | some i => tbl.getD i "?"
      | none => "?"
    | .junk row => hexS (Ref.itoaInt row)
    | .gen col row => match Ref.coordinatesToCellName col row false with
      | .ok s => hexS s
      | .error _ => "?"
  let id := match c.id with
    | some i => toString i
    | none => "_"
  name ++ "/" ++ id

def dumpGrid (tbl : Array String) (g : Grid) : String := Id.run do
  let mut out := "ok " ++ toString g.length
  let mut i := 0
  for rw in g do
    if !(rw.cells.isEmpty && rw.r == 0) then
      out := out ++ " |" ++ toString i ++ ":" ++ toString rw.r
      for c in rw.cells do
        out := out ++ " " ++ showR tbl c
    i := i + 1
  return out

def isSpaceB (c : Char) : Bool :=
  c.toNat == 32 || (9 ≤ c.toNat && c.toNat ≤ 13)

/-- UTF-8 encodings of the non-ASCII code points `unicode.IsSpace` accepts -/
def uniSpaces : List (List Nat) :=
  [[0xC2, 0x85], [0xC2, 0xA0], [0xE1, 0x9A, 0x80], [0xE2, 0x80, 0xA8], [0xE2, 0x80, 0xA9],
   [0xE2, 0x80, 0xAF], [0xE2, 0x81, 0x9F], [0xE3, 0x80, 0x80]] ++
  (List.range 11).map (fun k => [0xE2, 0x80, 0x80 + k])

def stripPrefix? (p : List Nat) (s : List Char) : Option (List Char) :=
  if (s.take p.length).map (·.toNat) == p then some (s.drop p.length) else none

partial def trimLeft (s : List Char) : List Char :=
  match s with
  | [] => []
  | c :: rest =>
    if isSpaceB c then trimLeft rest
    else match uniSpaces.findSome? (fun p => stripPrefix? p s) with
      | some r => trimLeft r
      | none => s

partial def trimRight (s : List Char) : List Char :=
  let r := s.reverse
  match r with
  | [] => []
  | c :: rest =>
    if isSpaceB c then trimRight rest.reverse
    else match uniSpaces.findSome? (fun p => stripPrefix? p.reverse r) with
      | some r' => trimRight r'.reverse
      | none => s

def trimSpace (s : List Char) : List Char := trimRight (trimLeft s)

/-- `strconv.Atoi` with the error discarded: 0 on a syntax error, the clamped value on a range error -/
def atoiClamp (s : List Char) : Int :=
  match s with
  | [] => 0
  | c :: rest =>
    let neg := c.toNat == 45
    let ds := if c.toNat == 45 || c.toNat == 43 then rest else s
    match Ref.digitsVal ds with
    | none => 0
    | some v =>
      if neg then (if v ≤ 9223372036854775808 then -(v : Int) else -9223372036854775808)
      else (if v < 9223372036854775808 then (v : Int) else 9223372036854775807)

def cellT (t : List Char) : CellT :=
  let s := String.ofList t
  if s = "s" then .s else if s = "str" then .str else if s = "b" then .b
  else if s = "inlineStr" then .inlineStr else .other

def gvIn (t v : List Char) (s : Int) (nSI : Nat) (nXf : Int) (raw : Bool) : GVIn :=
  { t := cellT t, vEmpty := v.isEmpty, vIs1 := String.ofList v = "1", vIs0 := String.ofList v = "0",
    idx := atoiClamp (trimSpace v), s := s, nSI := nSI,
    nXf := if nXf < 0 then none else some nXf.toNat, raw := raw }

def showGV (v : List Char) : Outcome GVOut → String
  | .ok .v => "ok " ++ hexS v
  | .ok (.si i) => "ok " ++ hexS (("s" ++ toString i).toList)
  | .ok (.lit s) => "ok " ++ hexS s.toList
  | .err => "E_GV"
  | .panic => "PANIC"

def u16 (b : List Char) (o : Nat) : Nat := (b.getD o ' ').toNat % 256 + 256 * ((b.getD (o + 1) ' ').toNat % 256)
def u32 (b : List Char) (o : Nat) : Nat := u16 b o + 65536 * u16 b (o + 2)
def byteAt (b : List Char) (o : Nat) : Nat := if o < b.length then (b.getD o ' ').toNat % 256 else 0
def rd16 (b : List Char) (o : Nat) : Nat := byteAt b o + 256 * byteAt b (o + 1)
def rd32 (b : List Char) (o : Nat) : Nat := rd16 b o + 65536 * rd16 b (o + 2)

def sdIn (info pkg : List Char) : SDIn :=
  { infoLen := info.length, pkgLen := pkg.length, vMajor := rd16 info 0, vMinor := rd16 info 2,
    hdrSize := rd32 info 8, algID := rd32 info (12 + 8), keySize := rd32 info (12 + 16),
    pkgSize := rd32 pkg 0 + 4294967296 * rd32 pkg 4 }

def optN (i : Int) : Option Nat := if i < 0 then none else some i.toNat

def showO {α : Type} (f : α → String) : Outcome α → String
  | .ok a => f a
  | .err => "E_SITE"
  | .panic => "PANIC"

def b01 (b : Bool) : String := if b then "1" else "0"

def ints (s : String) : Option (List Int) := if s = "-" then some [] else (s.splitOn ",").mapM (·.toInt?)

def utf8 (n : Nat) : List Char :=
  if n < 0x80 then [Char.ofNat n]
  else if n < 0x800 then [Char.ofNat (0xC0 + n / 64), Char.ofNat (0x80 + n % 64)]
  else [Char.ofNat (0xE0 + n / 4096), Char.ofNat (0x80 + n / 64 % 64), Char.ofNat (0x80 + n % 64)]

def hexDigit? (c : Char) : Nat :=
  if c.toNat ≤ 57 then c.toNat - 48 else if c.toNat ≤ 70 then c.toNat - 55 else c.toNat - 87

/-- render the segments of `bstrUnmarshal`: literal bytes; `strconv.Unquote("\uHHHH")` as UTF-8
(nothing for a surrogate half: the error is ignored) -/
def renderBSeg (s : List Char) : BSeg → List Char
  | .lit a b => (s.drop a).take (b - a)
  | .code a b =>
    let n := ((s.drop a).take (b - a)).foldl (fun acc c => acc * 16 + hexDigit? c) 0
    if 0xD800 ≤ n ∧ n ≤ 0xDFFF then [] else utf8 n

def stepSites (w : List String) : Option String :=
  match w with
  | ["ns", h] =>
    match unhexS h with
    | some content => some (showO (fun (_ : List NsPiece) => "nopanic") (nsStrict content))
    | none => some "bad-op"
  | ["rw", spec] =>
    -- rows separated by ';': "<r>,<cell>,…", cell = "<col|-|B>:<v|n>"
    let toks : Option (List Tok) := if spec = "-" then some [] else
      (spec.splitOn ";").foldlM (fun (acc : List Tok) (rs : String) =>
        match rs.splitOn "," with
        | [] => none
        | h :: cs => match h.toInt? with
          | none => none
          | some r =>
            (cs.foldlM (fun (a : List Tok) (c : String) => match c.splitOn ":" with
              | [k, v] =>
                -- the tokens come from the raw `r` texts the harness writes (`cellTok`: C20's parser decides)
                if k = "B" then some (a ++ [cellTok "1A".toList (v = "v")])
                else if k = "-" then some (a ++ [cellTok [] (v = "v")])
                else (k.toInt?).map fun n =>
                  let rr : Int := if r < 1 || r > (Facts.TotalRows : Int) then 1 else r
                  match Ref.coordinatesToCellName n rr false with
                  | .ok name => a ++ [cellTok name (v = "v")]
                  | .error _ => a ++ [Tok.cell (some n) false (v = "v")]
              | _ => none) (acc ++ [Tok.row r])).map (· ++ [Tok.other])) []
    match toks with
    | some ts =>
      let ts := ts ++ [Tok.endData]
      let (lens, e) := getRowsIter (Facts.TotalRows + 2 * ts.length + 2) { cur := 0, seek := 0, held := none, toks := ts } []
      let trimmed := (lens.reverse.dropWhile (· == 0)).reverse
      some ((if e then "E_MAXROWS " else "ok ") ++ (if trimmed.isEmpty then "-" else ",".intercalate (trimmed.map toString)))
    | none => some "bad-op"
  | ["ic", vm, nBk, rc, v, nRv] =>
    match vm.toNat?, nBk.toInt?, rc.toNat?, v.toInt?, nRv.toNat? with
    | some vm, some nBk, some rc, some v, some nRv =>
      some (showO (fun (_ : Bool) => "ok") (imageCellRel vm (optN nBk) (fun _ => rc) v nRv))
    | _, _, _, _, _ => some "bad-op"
  | ["gr", flags] =>
    some (showO (fun (n : Nat) => "ok " ++ toString n) (getRows (if flags = "-" then [] else flags.toList.map (· == '1'))))
  | ["bs", h] =>
    match unhexS h with
    | some s => some (showO (fun (segs : List BSeg) => "ok " ++ hexS (segs.flatMap (renderBSeg s))) (bstrUnmarshal s))
    | none => some "bad-op"
  | ["st", idx, nXf, fp, fid, nf, bp, bid, nb, np, nid, nn] =>
    match [idx, nXf, fp, fid, nf, bp, bid, nb, np, nid, nn].mapM (·.toInt?) with
    | some [idx, nXf, fp, fid, nf, bp, bid, nb, np, nid, nn] =>
      some (showO (fun (r : Bool × Bool × Bool) => "ok " ++ b01 r.1 ++ " " ++ b01 r.2.1 ++ " " ++ b01 r.2.2)
        (getStyle { idx := idx, nXf := optN nXf, applyFill := true, fillPresent := fp = 1, fillId := fid, nFills := optN nf,
                    applyBorder := true, borderPresent := bp = 1, borderId := bid, nBorders := optN nb,
                    applyFont := true, fontPresent := np = 1, fontId := nid, nFonts := optN nn }))
    | _ => some "bad-op"
  | ["as", hv, tab, ids] =>
    match tab.toInt?, ints ids with
    | some tab, some ids => some (showO (fun (k : Nat) => "ok " ++ toString k) (activeSheetIndex (hv = "1") tab ids))
    | _, _ => some "bad-op"
  | ["df", n, a, b] =>
    match n.toInt? with
    | some n => some (showO (fun (r : FontName) => match r with | .name => "ok name" | .empty => "ok empty")
        (getDefaultFont (optN n) false (a = "1") (b = "1")))
    | none => some "bad-op"
  | ["tc", n, z] =>
    match n.toNat? with
    | some n => some (showO (fun (_ : Bool) => "ok") (themeColor n (z = "1")))
    | none => some "bad-op"
  | ["gc", a, n] =>
    match a.toInt?, n.toNat? with
    | some a, some n => some (showO (fun (r : Option Nat) => match r with | some k => "ok " ++ toString k | none => "ok none") (commentAuthor a n))
    | _, _ => some "bad-op"
  | ["rt", runs] =>
    let rs := if runs = "-" then [] else runs.toList.map (· == '1')
    some (showO (fun (r : List Bool) => "ok " ++ (if r.isEmpty then "-" else String.join (r.map b01))) (richRuns rs))
  | ["cf", n] =>
    match n.toNat? with
    | some n => some (showO (fun (r : CondVal) => match r with | .minMax => "ok minMax" | .value => "ok value" | .none => "ok none") (condFmtCellIs n))
    | none => some "bad-op"
  | ["mc", h, col, row] =>
    match unhexS h, col.toInt?, row.toInt? with
    | some ref, some col, some row =>
      -- exact redirect: C20's model of mergeCellsParser + the getter's lookup (`Ref.pathGetStringM`) names the cell
      -- whose value is read; the sheet holds its own name in every cell of A1:F6
      match Ref.coordinatesToCellName col row false with
      | .error _ => some "bad-op"
      | .ok name =>
        match Ref.pathGetStringM [ref] name with
        | .error _ => some "E_REF"
        | .ok key =>
          let target : List Char := match key with
            | .ref again => again
            | .xy c r => match Ref.coordinatesToCellName c r false with | .ok n => n | .error _ => []
          let inGrid := match Ref.cellNameToCoordinates target with
            | .ok (c, r) => decide (1 ≤ c) && decide (c ≤ 6) && decide (1 ≤ r) && decide (r ≤ 6)
            | .error _ => false
          -- the model of the rectangle test must not panic on the same rectangle
          let rectOK : Bool :=
            if ref.isEmpty then !(mergeCellHit col row []).isPanic
            else
              let ref2 := if (ref.filter (· == ':')).length != 1 then ref ++ [':'] ++ ref else ref
              match Ref.rangeRefToCoordinates ref2 with
              | .error _ => true
              | .ok q => let (a, b, c, d) := Ref.sortCoordinates q; !(mergeCellHit col row [a, b, c, d]).isPanic
          some (if !rectOK then "PANIC" else "ok " ++ (if inGrid then hexS target else "-"))
    | _, _, _ => some "bad-op"
  | ["mm", spec] =>
    let rs : Option (List Rc) := if spec = "-" then some [] else
      (spec.splitOn ";").mapM fun r => match ints r with
        | some [a, b, c, d] => some { x1 := a, y1 := b, x2 := c, y2 := d }
        | _ => none
    match rs with
    | some rs => some ("ok " ++ toString (normalise rs []).length)
    | none => some "bad-op"
  | ["ch", len, shift, counts] =>
    match len.toNat?, shift.toNat?, (counts.splitOn ",").mapM (·.toNat?) with
    | some l, some sh, some cs => some (showO (fun (_ : Unit) => "ok") (checkCfbHeader l sh cs))
    | _, _, _ => some "bad-op"
  | ["ag", il, xo, nke, bs, hl, kb, sp, so, sl, eo, el, ko, pl] =>
    match il.toNat?, nke.toNat?, bs.toInt?, hl.toNat?, kb.toInt?, sp.toInt?, sl.toNat?, el.toNat?, pl.toNat? with
    | some il, some nke, some bs, some hl, some kb, some sp, some sl, some el, some pl =>
      some (showO (fun (_ : Unit) => "ok")
        (agileDecrypt { infoLen := il, xmlOK := xo = "1", nKE := nke, blockSize := bs, hashLen := hl, keyBits := kb,
                        spinCount := sp, saltOK := so = "1", saltLen := sl, encKeyOK := eo = "1", encKeyLen := el,
                        kdSaltOK := ko = "1", pkgLen := pl }))
    | _, _, _, _, _, _, _, _, _ => some "bad-op"
  | _ => none

def step (w : List String) : String :=
  match stepSites w with
  | some r => r
  | none =>
  match w with
  | ["cs", spec] => match parseSpec spec with
    | some (rows, tbl) => match load rows with
      | .ok g => dumpGrid tbl g
      | .err => "E_SHEET"
      | .panic => "PANIC"
    | none => "bad-op"
  | ["csz", spec] => match parseSpec spec with
    | some (rows, _) =>
      -- large row numbers: the guards, then the slot count (theorem `checkSheet_slots`
      -- and `no_panic_checkSheet` say this is what `checkSheet` yields)
      if rows.any (fun r => r.cells.any fun c => match c.r.coords with
          | some (col, _) => decide (col < 1)
          | none => false) then "outside-theorem"   -- hypothesis of `no_panic_checkSheet_partial` fails: use `cs`
      else if rows.any (fun r => decide (r.r < 0)) || rows.any (fun r => decide (r.r > (Facts.TotalRows : Int))) then "E_SHEET"
      else "ok " ++ toString (rowSlots rows)
    | none => "bad-op"
  | ["gv", t, v, s, nSI, nXf, raw] =>
    match unhexS t, unhexS v, parseInt? s, nSI.toNat?, parseInt? nXf with
    | some t, some v, some s, some nSI, some nXf => showGV v (getValueFrom (gvIn t v s nSI nXf (raw = "1")))
    | _, _, _, _, _ => "bad-op"
  | ["gvc", t, v, s, nSI, nXf] =>
    match unhexS t, unhexS v, parseInt? s, nSI.toNat?, parseInt? nXf with
    | some t, some v, some s, some nSI, some nXf =>
      match getValueFrom (gvIn t v s nSI nXf false) with
      | .ok _ => "ok"
      | .err => "E_GV"
      | .panic => "PANIC"
    | _, _, _, _, _ => "bad-op"
  | ["sd", info, pkg] =>
    match unhexS info, unhexS pkg with
    | some info, some pkg =>
      match decryptDispatch (sdIn info pkg) with
      | .ok .agile => "agile"
      | .ok (.standard n) => "ok " ++ toString n
      | .err => "E_CRYPT"
      | .panic => "PANIC"
    | _, _ => "bad-op"
  | ["zl", _, limit, xml, sizes] =>
    match limit.toNat?, xml.toNat?, (sizes.splitOn ",").mapM (·.toNat?) with
    | some l, some x, some ss => match openLimits ss l x with
      | .ok _ => "ok"
      | .err => "E_LIMIT"
      | .panic => "PANIC"
    | _, _, _ => "bad-op"
  | "mut" :: _ => "-"
  | _ => "bad-op"

def run : IO Unit := runStateless step

end XlModel.Drv.C14
