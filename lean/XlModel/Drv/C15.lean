import XlModel.Conc
import XlModel.Drv.Util
/-!
Line-protocol driver for C15.

  docs                           sorted list of the functions documented as concurrency safe (facts)
  doc <Fn>                       documented | undocumented
  race <Class> <field> <A> <B>   predicted | unpredicted   (model computed from the lock skeletons)
  cover <Fn>                     covered | no-footprint     (documented / iterator method with a modelled lock footprint)
  table <Fn>                     locks=… locs=…             (coverage table; used as a co-process, not compared)
  lin <G> <prog_1> … <prog_G> <final>
                                 ok <writes> | bad <writes>  (Spec: is there a sequential order, program
                                 order kept, whose last-writer-wins result is the observed final state?)
-/
namespace XlModel.Drv.C15
open XlModel XlModel.Conc XlModel.Drv

def parseWrites (s : String) : Option (List Write) :=
  if s = "-" then some [] else
  (s.splitOn ",").mapM fun kv =>
    match kv.splitOn ":" with
    | [k, v] => match k.toNat?, v.toNat? with
      | some k, some v => some (k, v)
      | _, _ => none
    | _ => none

def parseAll : List String → Option (List (List Write))
  | [] => some []
  | s :: r => match parseWrites s, parseAll r with
    | some a, some b => some (a :: b)
    | _, _ => none

/-- the verdict of `Spec` on one concurrent run -/
def linVerdict (progs : List (List Write)) (final : List (Nat × Nat)) : Bool :=
  let n := (progs.map List.length).sum
  -- every key that was written holds something, and only written keys are reported
  let keys := (progs.flatMap fun p => p.map (·.1)).eraseDups
  keys.all (fun k => (Spec.get final k).isSome) &&
  (match Spec.schedule final n progs with
   | some order => Spec.explains progs final order
   | none => false)

/-- mutex classes a call acquires, in order of first acquisition -/
def locksOf (f : String) : List String :=
  ((Impl.trace f).filterMap fun a => match a with | .acq l => some l | _ => none).eraseDups

/-- location classes a call touches: name, r / w / rw, and `!` when some access is made without the guard -/
def locsOf (f : String) : List String :=
  let acc := accesses [] (Impl.trace f)
  let names := (acc.map (·.1)).eraseDups
  names.map fun x =>
    let mine := acc.filter (fun a => a.1 == x)
    let w := mine.any (·.2.1)
    let r := mine.any (fun a => !a.2.1)
    let u := mine.any (fun a => !a.2.2)
    x.1 ++ "." ++ x.2 ++ ":" ++ (if r then "r" else "") ++ (if w then "w" else "") ++ (if u then "!" else "")

def step (w : List String) : String :=
  match w with
  | ["cover", fn] =>
    if (Facts.C15.documented.contains fn || Facts.C15.iterMethods.contains fn) && !(locksOf fn).isEmpty
    then "covered" else "no-footprint"
  | ["table", fn] => "locks=" ++ ",".intercalate (locksOf fn) ++ " locs=" ++ ",".intercalate (locsOf fn)
  | ["docs"] => ",".intercalate Facts.C15.documented
  | ["doc", fn] => if Facts.C15.documented.contains fn then "documented" else "undocumented"
  | ["race", cls, fld, a, b] =>
    if Impl.predictsRace (cls, fld) a b then "predicted" else "unpredicted"
  | "lin" :: g :: rest =>
    match g.toNat? with
    | none => "bad-op"
    | some g =>
      if rest.length ≠ g + 1 then "bad-op" else
      match parseAll rest with
      | none => "bad-op"
      | some all =>
        let progs := all.take g
        let final := (all.drop g).headD []
        let n := (progs.map List.length).sum
        if linVerdict progs final then s!"ok {n}" else s!"bad {n}"
  | _ => "bad-op"

def run : IO Unit := runStateless step

end XlModel.Drv.C15
