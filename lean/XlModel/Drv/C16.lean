import XlModel.Sheets
import XlModel.SheetsCalc
import XlModel.Drv.Util
/-!
Line-protocol driver for C16.  State: the `Impl` state and the `Spec` book,
both advanced by every op line.  Output per line:

  <result> | <Impl internal dump, same format as VerifC16Dump> | <Spec observation> | <defined-name scopes>

ops: reset | new h | del h | copy i j | move h h | ren h h | vis h b b | act i |
     grp h* | ungrp | defn k h | setc h v | save | chk h | gidx h | gnm i
     | calc k id entries  (stateless: DeleteSheet of the sheet with id `id` in a k-sheet workbook whose
     calcChain is `entries` = i.hexR,… ; answer: the remaining chain or nil)
     | calcc k from to entries  (stateless: CopySheet(from, to) in a k-sheet workbook with that calcChain)
     (gidx / gnm: pure reads of GetSheetIndex / GetSheetName on the current state)
-/
namespace XlModel.Drv.C16
open XlModel XlModel.Sheets XlModel.Drv

def joinWith (sep : String) (xs : List String) : String := sep.intercalate xs

def visTag : Vis → String
  | .visible => "v" | .hidden => "h" | .veryHidden => "vh"

def nameLt : Name → Name → Bool
  | [], [] => false
  | [], _ :: _ => true
  | _ :: _, [] => false
  | a :: as, b :: bs => if a.toNat < b.toNat then true else if a.toNat > b.toNat then false else nameLt as bs

def insBy {α} (lt : α → α → Bool) (x : α) : List α → List α
  | [] => [x]
  | y :: ys => if lt x y then x :: y :: ys else y :: insBy lt x ys

def sortBy {α} (lt : α → α → Bool) (l : List α) : List α := l.foldr (insBy lt) []

def dnName (k : Nat) : Name := bytesOf s!"dn_{k}"

def dump (s : St) : String :=
  let S := joinWith ";" (s.sheets.map fun sh => s!"{hexS sh.name}:{sh.id}:{sh.rid}:{visTag sh.state}")
  let M := joinWith ";" ((sortBy (fun a b => nameLt a.1 b.1) s.sheetMap).map fun e => s!"{hexS e.1}:{e.2}")
  let P := joinWith ";" ((sortBy (fun (a b : Nat × Part) => a.1 < b.1) s.parts).map fun e =>
    let c := if e.2.content = 0 then "-" else toString e.2.content
    s!"{e.1}:{if e.2.sel then "1" else "0"}:{c}")
  let K := joinWith ";" (s.pkg.map toString)
  let T := joinWith ";" (s.ctypes.map toString)
  let R := joinWith ";" (s.rels.map fun r => if r.part = 0 then s!"{r.rid}:o" else s!"{r.rid}:w{r.part}")
  let D := joinWith ";" (s.defs.map fun d =>
    let l := match d.loc with
      | some l => toString l
      | none => "-"
    s!"{hexS (dnName d.name)}:{l}:{hexS d.data}")
  s!"c={s.count} a={s.activeTab} S={S} M={M} P={P} K={K} T={T} R={R} D={D}"

def specObs (b : Spec.Book) : String :=
  let L := joinWith ";" (b.sheets.map fun e =>
    s!"{hexS e.name}:{if e.visible then "1" else "0"}:{e.content}:{if e.selected then "1" else "0"}")
  s!"L={L} A={b.active}"

def defObs (s : St) : String :=
  "N=" ++ joinWith ";" (s.defs.map fun d =>
    let sc := match d.loc with
      | some l => hexS (getSheetName s l)
      | none => "W"
    s!"{hexS (dnName d.name)}:{sc}")

def parseOp (w : List String) : Option Op :=
  match w with
  | ["new", h] => (unhexS h).map Op.new
  | ["del", h] => (unhexS h).map Op.delete
  | ["copy", a, b] => match parseInt? a, parseInt? b with
    | some a, some b => some (Op.copy a b)
    | _, _ => none
  | ["move", a, b] => match unhexS a, unhexS b with
    | some a, some b => some (Op.move a b)
    | _, _ => none
  | ["ren", a, b] => match unhexS a, unhexS b with
    | some a, some b => some (Op.rename a b)
    | _, _ => none
  | ["vis", h, v, vh] => (unhexS h).map fun n => Op.visible n (v = "1") (vh = "1")
  | ["act", i] => (parseInt? i).map Op.active
  | "grp" :: hs => (hs.mapM unhexS).map Op.group
  | ["ungrp"] => some Op.ungroup
  | ["defn", k, h] => match k.toNat?, unhexS h with
    | some k, some n => some (Op.defname k n (bytesOf "1/2"))
    | _, _ => none
  | ["defn", k, h, dt] => match k.toNat?, unhexS h, unhexS dt with
    | some k, some n, some d => some (Op.defname k n d)
    | _, _, _ => none
  | ["deln", k, h] => match k.toNat?, unhexS h with
    | some k, some n => some (Op.deldef k n)
    | _, _ => none
  | ["setc", h, v] => match unhexS h, v.toNat? with
    | some n, some v => some (Op.setcell n v)
    | _, _ => none
  | ["save"] => some Op.save
  | ["reopen"] => some Op.reopen
  | _ => none

def resultTag (s : St) (op : Op) : String :=
  match op with
  | .new n => match newSheet s n with
    | .ok (_, some i) => s!"ok {i}"
    | .ok (_, none) => "ok -1"
    | .error e => e.tag
  | _ => match (Sheets.step s op).2 with
    | none => "ok"
    | some e => e.tag

def parseCalc (e : String) : Option (List CalcC) :=
  if e = "-" then some [] else
  (e.splitOn ",").mapM fun x => match x.splitOn "." with
    | [i, h] => match (if i.length ≤ 9 then i.toNat? else none), unhexS h with
      | some i, some r => some ⟨r, i⟩
      | _, _ => none
    | _ => none

def showCalc (cs : List CalcC) : String :=
  if cs.isEmpty then "nil" else joinWith "," (cs.map fun c => s!"{c.i}.{hexS c.r}")

def stepLine (st : St × Spec.Book) (w : List String) : (St × Spec.Book) × String :=
  match w with
  | ["reset"] =>
    let st' := (Sheets.init, Spec.init)
    (st', s!"ok | {dump st'.1} | {specObs st'.2} | {defObs st'.1}")
  | ["chk", h] => match unhexS h with
    | some n => (st, match checkSheetName n with
      | .ok _ => "ok"
      | .error e => e.tag)
    | none => (st, "bad-op")
  | ["calc", k, id, e] => match (if k.length ≤ 9 then k.toNat? else none),
      (if id.length ≤ 9 then id.toNat? else none), parseCalc e with
    | some k, some id, some cs =>
      if 2 ≤ k ∧ k ≤ 6 ∧ 1 ≤ id ∧ id ≤ k then (st, showCalc (deleteCalcChain cs id [])) else (st, "bad-op")
    | _, _, _ => (st, "bad-op")
  | ["calcc", k, f, t, e] => match (if k.length ≤ 9 then k.toNat? else none),
      (if f.length ≤ 9 then f.toNat? else none), (if t.length ≤ 9 then t.toNat? else none), parseCalc e with
    | some k, some f, some t, some cs =>
      if 2 ≤ k ∧ k ≤ 6 ∧ f < k ∧ t < k ∧ f ≠ t then
        let s := Sheets.run Sheets.init ((List.range (k - 1)).map fun j => Op.new (bytesOf s!"Sheet{j + 2}"))
        match copySheet s f t with
        | .ok _ => (st, showCalc (copySheetCalc s t cs))
        | .error e => (st, e.tag)
      else (st, "bad-op")
    | _, _, _, _ => (st, "bad-op")
  | ["gidx", h] => match unhexS h with
    | some n => (st, match getSheetIndex st.1 n with
      | .ok (some i) => s!"{i}"
      | .ok none => "-1"
      | .error e => e.tag)
    | none => (st, "bad-op")
  | ["gnm", i] => match (if i.length ≤ 9 then i.toNat? else none) with
    | some i => (st, s!"n:{hexS (getSheetName st.1 i)}")
    | none => (st, "bad-op")
  | _ => match parseOp w with
    | none => (st, "bad-op")
    | some op =>
      let res := resultTag st.1 op
      let s' := (Sheets.step st.1 op).1
      let b' := (Spec.step st.2 op).1
      -- the harness dumps the internal lists, then observes through the public getters (`observe`)
      ((Sheets.observe s', b'), s!"{res} | {dump s'} | {specObs b'} | {defObs s'}")

def run : IO Unit := runStateful (Sheets.init, Spec.init) stepLine

end XlModel.Drv.C16
