import XlModel.Styles
import XlModel.Lemmas.StylesGrid
import XlModel.Drv.Util
/-!
Line-protocol driver for C17. State: style registry, worksheet grid, the Spec's three levels,
and the declared values of the external `extractNumFmtDecimal` (`decl`).

  reset                         new workbook                      -> ok <registry dump>
  resetcols a-b:s;...           NewFile() package reopened with these <col> entries -> ok <grid dump>
  resetc f l b x                NewFile() package reopened with these count attributes in styles.xml -> ok <registry dump>
  decl <hexcode> <n>            environment: extractNumFmtDecimal -> ok
  new <style>                   NewStyle                          -> ok <id> sz=.. dp=.. <counts> | ERR
  norm <style>                  Spec.normFont / Spec.normFill of the request -> F=.. L=..
  get <id>                      GetStyle                          -> ok <style> | ERR
  rereg <id>                    NewStyle(GetStyle(id))            -> ok <id> <counts> | ERR
  dump                          registry tables                   -> <registry dump>
  setcell c1 r1 c2 r2 sid       SetCellStyle                      -> ok | ERR
  setrow r1 r2 sid              SetRowStyle                       -> ok | ERR
  setcol c1 c2 sid              SetColStyle                       -> ok | ERR
  write c r k                   a cell setter (k = which one; 5 = SetCellFormula, which stores no style) -> ok
  getcell c r                   GetCellStyle                      -> ok <sid> S=<spec sid>
  getcol c                      GetColStyle                       -> ok <sid> S=<spec sid>
  grid                          stored rows/cells/cols            -> <grid dump>
-/
namespace XlModel.Drv.C17
open XlModel XlModel.Styles XlModel.Drv

structure St where
  reg : Reg
  grid : Grid
  lv : Spec.Levels
  dec : List (Str × Int)

def St.init : St := ⟨initReg, Grid.empty, Spec.Levels.empty, []⟩

def decOf (st : St) (code : Str) : Int :=
  match st.dec.find? (·.1 == code) with
  | some (_, n) => n
  | none => -1

/-! ### parsing -/

def hexOpt (s : String) : Option (Option Str) :=
  if s = "~" then some none else (unhexS s).map some

def intOpt (s : String) : Option (Option Int) :=
  if s = "~" then some none else s.toInt?.map some

def bit? (s : String) : Option Bool := if s = "1" then some true else if s = "0" then some false else none

def parseFont (s : String) : Option (Option Font) :=
  if s = "~" then some none else
  match s.splitOn "," with
  | [b, i, k, ul, fam, sz, col, ci, th, tint, va] => do
    let b ← bit? b; let i ← bit? i; let k ← bit? k
    let ul ← unhexS ul; let fam ← unhexS fam; let sz ← sz.toInt?; let col ← unhexS col
    let ci ← ci.toInt?; let th ← intOpt th; let tint ← tint.toInt?; let va ← unhexS va
    some (some { bold := b, italic := i, strike := k, underline := ul, family := fam, size := sz, color := col,
                 colorIndexed := ci, colorTheme := th, colorTint := tint, vertAlign := va })
  | _ => none

def parseFill (s : String) : Option Fill :=
  match s.splitOn "," with
  | [typ, pat, sh, cols] => do
    let typ ← unhexS typ; let pat ← pat.toInt?; let sh ← sh.toInt?
    let cs ← if cols = "~" then some [] else (cols.splitOn "+").mapM unhexS
    some ⟨typ, pat, cs, sh⟩
  | _ => none

def parseBorders (s : String) : Option (List Border) :=
  if s = "~" then some [] else
  (s.splitOn ";").mapM fun e =>
    match e.splitOn "," with
    | [t, c, st] => do
      let t ← unhexS t; let c ← unhexS c; let st ← st.toInt?
      some ⟨t, c, st⟩
    | _ => none

def parseProt (s : String) : Option (Option (Bool × Bool)) :=
  if s = "~" then some none else
  match s.toList with
  | [h, l] => do
    let h ← bit? (String.singleton h); let l ← bit? (String.singleton l)
    some (some (h, l))
  | _ => none

def field (pfx : String) (w : String) : Option String :=
  if w.startsWith pfx then some ((w.drop pfx.length).toString) else none

def parseStyle (w : List String) : Option Style :=
  match w with
  | [f, l, b, a, p, n, d, c, r] => do
    let f ← (field "F=" f).bind parseFont
    let l ← (field "L=" l).bind parseFill
    let b ← (field "B=" b).bind parseBorders
    let a ← field "A=" a
    let a : Option Str := if a = "~" then none else some a.toList
    let p ← (field "P=" p).bind parseProt
    let n ← (field "N=" n).bind String.toInt?
    let d ← (field "D=" d).bind intOpt
    let c ← (field "C=" c).bind hexOpt
    let r ← (field "R=" r).bind bit?
    some ⟨b, l, f, a, p, n, d, c, r⟩
  | _ => none

/-! ### printing -/

def bitS (b : Bool) : String := if b then "1" else "0"
def optS {α} (f : α → String) : Option α → String
  | some a => f a
  | none => "~"
def intS (i : Int) : String := toString i

def fontS (f : Font) : String :=
  String.intercalate "," [bitS f.bold, bitS f.italic, bitS f.strike, hexS f.underline, hexS f.family, intS f.size,
    hexS f.color, intS f.colorIndexed, optS intS f.colorTheme, intS f.colorTint, hexS f.vertAlign]

def fillS (l : Fill) : String :=
  String.intercalate "," [hexS l.typ, intS l.pattern, intS l.shading,
    if l.colors.isEmpty then "~" else String.intercalate "+" (l.colors.map hexS)]

def bordersS (bs : List Border) : String :=
  if bs.isEmpty then "~" else
  String.intercalate ";" (bs.map fun b => String.intercalate "," [hexS b.typ, hexS b.color, intS b.style])

def styleS (s : Style) : String :=
  String.intercalate " " [
    "F=" ++ optS fontS s.font, "L=" ++ fillS s.fill, "B=" ++ bordersS s.border,
    "A=" ++ optS String.ofList s.alignment,
    "P=" ++ optS (fun (p : Bool × Bool) => bitS p.1 ++ bitS p.2) s.protection,
    "N=" ++ intS s.numFmt, "D=" ++ optS intS s.decimalPlaces, "C=" ++ optS hexS s.customNumFmt,
    "R=" ++ bitS s.negRed]

def colorS (c : XColor) : String :=
  hexS c.rgb ++ "/" ++ intS c.indexed ++ "/" ++ optS intS c.theme ++ "/" ++ intS c.tint

def rgbS (c : Str) : String := colorS ⟨c, 0, none, 0⟩

def flagS (b : Bool) : String := if b then "1" else "~"

def xfontS (f : XFont) : String :=
  String.intercalate "." [flagS f.b, flagS f.i, flagS f.strike, optS hexS f.u, intS f.sz, optS colorS f.color,
    hexS f.name, intS f.family]

def xfillS : XFill → String
  | .empty => "e"
  | .pattern p fg => "p." ++ hexS p ++ "." ++ optS rgbS fg ++ ".~"
  | .gradient sh c0 c1 =>
    match Facts.C17.fillVariants[sh]? with
    | some (key, pos, n) =>
      "g." ++ String.ofList key ++ "/" ++ String.ofList pos ++ "." ++
        String.intercalate "," (if n = 3 then [rgbS c0, rgbS c1, rgbS c0] else [rgbS c0, rgbS c1])
    | none => "g.?"

def xlineS (l : Option XLine) : String :=
  match l with
  | none => "~"
  | some l => hexS l.style ++ "|" ++ optS rgbS l.color

def xborderS (b : XBorder) : String :=
  bitS b.up ++ bitS b.down ++ "." ++
    String.intercalate "." [xlineS b.left, xlineS b.right, xlineS b.top, xlineS b.bottom, xlineS b.diagonal]

def natS (n : Nat) : String := toString n
def obS : Option Bool → String := optS bitS

def xfS (x : Xf) : String :=
  String.intercalate "." [optS natS x.numFmtId, optS natS x.fontId, optS natS x.fillId, optS natS x.borderId,
    obS x.applyNumFmt, obS x.applyFont, obS x.applyFill, obS x.applyBorder, obS x.applyAlignment, obS x.applyProtection,
    optS String.ofList x.alignment, optS (fun (p : Bool × Bool) => bitS p.1 ++ bitS p.2) x.protection]

def listS (name : String) (count : Nat) (items : List String) : String :=
  name ++ "=" ++ natS count ++ ":[" ++ String.intercalate ";" items ++ "]"

def dumpReg (r : Reg) : String :=
  String.intercalate " " [
    listS "fonts" r.fontsCount (r.fonts.map xfontS),
    listS "fills" r.fillsCount (r.fills.map xfillS),
    listS "borders" r.bordersCount (r.borders.map xborderS),
    (match r.numFmts with
     | none => "numfmts=~"
     | some (l, c) => listS "numfmts" c (l.map fun nf => natS nf.id ++ "/" ++ hexS nf.code)),
    listS "xfs" r.xfsCount (r.xfs.map xfS)]

def countsS (r : Reg) : String :=
  let p (n : String) (len cnt : Nat) := n ++ "=" ++ natS len ++ "/" ++ natS cnt
  String.intercalate " " [p "fonts" r.fonts.length r.fontsCount, p "fills" r.fills.length r.fillsCount,
    p "borders" r.borders.length r.bordersCount,
    (match r.numFmts with | none => "numfmts=~" | some (l, c) => p "numfmts" l.length c),
    p "xfs" r.xfs.length r.xfsCount]

def gridS (g : Grid) : String :=
  "rows=" ++ natS g.rows.length ++ ":[" ++
    String.intercalate ";" (g.rows.map fun r => natS r.s ++ "/" ++ String.intercalate "," (r.cells.map natS)) ++
  "] cols=[" ++ String.intercalate ";" (g.cols.map fun c => natS c.min ++ "-" ++ natS c.max ++ ":" ++ natS c.style) ++ "]"

def resS (e : Except Err Unit) : String :=
  match e with
  | .ok _ => "ok"
  | .error e => e.tag

def nat? (s : String) : Option Nat := s.toNat?

def step (st : St) (w : List String) : St × String :=
  match w with
  | ["reset"] => ({ St.init with dec := st.dec }, "ok " ++ dumpReg initReg)
  | ["resetc", a, b, c, d] =>
    -- NewFile()'s style sheet with other `count` attributes (a file written by another producer)
    match nat? a, nat? b, nat? c, nat? d with
    | some a, some b, some c, some d =>
      let r0 : Reg := { initReg with fontsCount := a, fillsCount := b, bordersCount := c, xfsCount := d }
      ({ St.init with dec := st.dec, reg := r0 }, "ok " ++ dumpReg r0)
    | _, _, _, _ => (st, "bad-op")
  | ["resetcols", spec] =>
    -- NewFile() package reopened with a <cols> element holding these (range) entries
    let cols : List Col := (spec.splitOn ";").filterMap fun e =>
      match e.splitOn ":" with
      | [rng, st] =>
        match rng.splitOn "-", st.toNat? with
        | [a, b], some st => match a.toNat?, b.toNat? with
          | some a, some b => some ⟨a, b, st⟩
          | _, _ => none
        | _, _ => none
      | _ => none
    let g : Grid := ⟨[], cols⟩
    ({ St.init with dec := st.dec, grid := g, lv := { Spec.Levels.empty with col := fun c => colS g c } },
      "ok " ++ gridS g)
  | ["decl", h, n] =>
    match unhexS h, n.toInt? with
    | some c, some n => ({ st with dec := (c, n) :: st.dec }, "ok")
    | _, _ => (st, "bad-op")
  | "new" :: rest =>
    match parseStyle rest with
    | none => (st, "bad-op")
    | some s =>
      match Impl.newStyle st.reg s with
      | .error e => (st, e.tag)
      | .ok (r', id, s') =>
        ({ st with reg := r' }, "ok " ++ natS id ++ " sz=" ++ optS (fun (f : Font) => intS f.size) s'.font ++
          " dp=" ++ optS intS s'.decimalPlaces ++ " " ++ countsS r')
  | "norm" :: rest =>
    -- the Spec's normal forms of the requested font and fill (`~` = workbook default)
    match parseStyle rest with
    | none => (st, "bad-op")
    | some s =>
      let fam : Str := match st.reg.fonts with | d :: _ => d.name | [] => []
      (st, "F=" ++ optS (fun f => fontS (Spec.normFont fam f)) s.font ++ " L=" ++ optS fillS (Spec.normFill s.fill))
  | ["get", id] =>
    match id.toInt? with
    | none => (st, "bad-op")
    | some id =>
      match Impl.getStyle (decOf st) st.reg id with
      | .ok s => (st, "ok " ++ styleS s)
      | .error e => (st, e.tag)
  | ["rereg", id] =>
    match id.toInt? with
    | none => (st, "bad-op")
    | some id =>
      match Impl.getStyle (decOf st) st.reg id with
      | .error e => (st, e.tag)
      | .ok s =>
        match Impl.newStyle st.reg s with
        | .error e => (st, e.tag)
        | .ok (r', id', _) => ({ st with reg := r' }, "ok " ++ natS id' ++ " " ++ countsS r')
  | ["dump"] => (st, dumpReg st.reg)
  | ["setcell", c1, r1, c2, r2, sid] =>
    match nat? c1, nat? r1, nat? c2, nat? r2, sid.toInt? with
    | some c1, some r1, some c2, some r2, some sid =>
      let (g', res) := Impl.setCellStyle st.reg st.grid c1 r1 c2 r2 sid
      let lv' := match res with
        | .ok _ => Spec.setCell st.lv (min c1 c2) (min r1 r2) (max c1 c2) (max r1 r2) sid.toNat
        | .error _ => st.lv
      ({ st with grid := g', lv := lv' }, resS res)
    | _, _, _, _, _ => (st, "bad-op")
  | ["setrow", r1, r2, sid] =>
    match r1.toInt?, r2.toInt?, sid.toInt? with
    | some r1, some r2, some sid =>
      let (g', res) := Impl.setRowStyle st.reg st.grid r1 r2 sid
      let lv' := match res with
        | .ok _ => Spec.setRow st.lv (min r1 r2).toNat (max r1 r2).toNat sid.toNat
        | .error _ => st.lv
      ({ st with grid := g', lv := lv' }, resS res)
    | _, _, _ => (st, "bad-op")
  | ["setcol", c1, c2, sid] =>
    match nat? c1, nat? c2, sid.toInt? with
    | some c1, some c2, some sid =>
      let (g', res) := Impl.setColStyle st.reg st.grid (min c1 c2) (max c1 c2) sid
      let lv' := match res with
        | .ok _ => Spec.setCol st.lv (min c1 c2) (max c1 c2) sid.toNat
        | .error _ => st.lv
      ({ st with grid := g', lv := lv' }, resS res)
    | _, _, _ => (st, "bad-op")
  | ["write", c, r, k] =>
    match nat? c, nat? r with
    | some c, some r =>
      -- kind 5 = SetCellFormula: `prepareCell` only, the inherited style is not stored on the cell
      if k = "5" then ({ st with grid := Impl.prepareSheetXML st.grid c r }, "ok")
      else ({ st with grid := Impl.writeCell st.grid c r, lv := Spec.write st.lv c r }, "ok")
    | _, _ => (st, "bad-op")
  | ["getcell", c, r] =>
    match nat? c, nat? r with
    | some c, some r =>
      (st, "ok " ++ natS (Impl.getCellStyle st.grid c r) ++ " S=" ++ natS (Spec.resolve st.lv c r))
    | _, _ => (st, "bad-op")
  | ["getcol", c] =>
    match nat? c with
    | some c => (st, "ok " ++ natS (Impl.getColStyle st.grid c) ++ " S=" ++ natS (st.lv.col c))
    | none => (st, "bad-op")
  | ["grid"] => (st, gridS st.grid)
  | _ => (st, "bad-op")

def run : IO Unit := runStateful St.init step

end XlModel.Drv.C17
