import XlModel.Settings
import XlModel.Protection
import XlModel.CondFmt
import XlModel.DvDelete
import XlModel.DvRecord
import XlModel.CfRule
import XlModel.XmlAttr
import XlModel.Margins
import XlModel.HeaderFooter
import XlModel.Drv.Util
namespace XlModel.Drv.C18
open XlModel XlModel.Settings XlModel.Drv

/-! record tokens: `Name:<p|v><b|i|f|s>(~|=payload)` -/

def hexNat (s : String) : Option Nat :=
  s.toList.foldl (fun acc c => match acc, hexVal c with
    | some a, some d => some (a * 16 + d)
    | _, _ => none) (some 0)

def natHex (n : Nat) : String := String.ofList (Nat.toDigits 16 n)

def parseVal (k : Char) (pay : String) : Option Val :=
  if k = 'b' then (if pay = "1" then some (.b true) else if pay = "0" then some (.b false) else none)
  else if k = 'i' then pay.toInt?.map .i
  else if k = 'f' then (hexNat pay).map .f
  else if k = 's' then (unhexS pay).map .s
  else none

def kindOfLetter (k : Char) : Kind :=
  if k = 'b' then .bool else if k = 'i' then .int else if k = 'f' then .float else if k = 's' then .str else .other

def parseField (tok : String) : Option (String × FVal) :=
  match tok.splitOn ":" with
  | [name, rest] =>
    match rest.toList with
    | pv :: k :: '~' :: [] => if pv = 'p' then some (name, .ptr (kindOfLetter k) none) else none
    | pv :: k :: '=' :: pay =>
      match parseVal k (String.ofList pay) with
      | some v => some (name, if pv = 'p' then .ptr (kindOfLetter k) (some v) else .plain v)
      | none => none
    | _ => none
  | _ => none

def parseRec (ws : List String) : Option Rec :=
  if ws = ["-"] then some [] else ws.mapM parseField

def kindLetter : Kind → String
  | .bool => "b" | .int => "i" | .float => "f" | .str => "s" | .other => "o"

def showVal : Val → String
  | .b v => if v then "1" else "0"
  | .i v => toString v
  | .f v => natHex v
  | .s v => hexS v

def showField : String × FVal → String
  | (n, .plain v) => n ++ ":v" ++ kindLetter v.kind ++ "=" ++ showVal v
  | (n, .ptr k none) => n ++ ":p" ++ kindLetter k ++ "~"
  | (n, .ptr _ (some v)) => n ++ ":p" ++ kindLetter v.kind ++ "=" ++ showVal v

def showRec (r : Rec) : String :=
  if r.isEmpty then "-" else " ".intercalate (r.map showField)

def showOut : Out Rec → String
  | .ok r => "ok " ++ showRec r
  | .panic => "PANIC"

/-! `dvdel <hex sqref>,<hex sqref>,... <hex delete sqref>` -/

def cellLe (a b : Int × Int) : Bool := a.1 < b.1 || (a.1 == b.1 && a.2 ≤ b.2)

def insertCell (x : Int × Int) : List (Int × Int) → List (Int × Int)
  | [] => [x]
  | y :: ys => if cellLe x y then x :: y :: ys else y :: insertCell x ys

def sortCells (l : List (Int × Int)) : List (Int × Int) := l.foldr insertCell []

def uniqAdj : List (Int × Int) → List (Int × Int)
  | a :: b :: rest => if a == b then uniqAdj (b :: rest) else a :: uniqAdj (b :: rest)
  | l => l

/-- a rule's cells as a SET: sorted, duplicates removed (the harness expands the sqref into a set) -/
def showCells (l : List (Int × Int)) : String :=
  ",".intercalate ((uniqAdj (sortCells l)).map fun c => toString c.1 ++ "." ++ toString c.2)

def mapM' {α β ε : Type} (f : α → Except ε β) : List α → Except ε (List β)
  | [] => .ok []
  | a :: as =>
    match f a with
    | .error e => .error e
    | .ok b =>
      match mapM' f as with
      | .error e => .error e
      | .ok bs => .ok (b :: bs)

def runDvDel (rules : List (List Char)) (del : List Char) : String :=
  match DvDelete.flatSqref del with
  | .error _ => "E_DVDEL"
  | .ok d =>
    match mapM' DvDelete.flatSqref rules with
    | .error _ => "E_DVDEL"
    | .ok rs =>
      let out := DvDelete.deleteRules rs d
      if out.isEmpty then "ok -" else "ok " ++ ";".intercalate (out.map showCells)

/-! persistence: the attributes `xml.Marshal` writes for the protection / data-validation records -/

def showAttr (p : String × Settings.Val) : String :=
  p.1 ++ "=" ++ (match p.2 with
    | .b v => if v then "true" else "false"
    | .i v => toString v
    | .f v => natHex v
    | .s v => if (p.1.splitOn "ashValue").length > 1 || (p.1.splitOn "altValue").length > 1 then "*" else hexS v)

def showAttrs (l : List (String × Settings.Val)) : String :=
  if l.isEmpty then "-" else " ".intercalate (l.map showAttr)

def protFieldVal (r : Protection.PRec) (go : String) (k : Settings.Kind) : Settings.FVal :=
  if go = "AlgorithmName" || go = "WorkbookAlgorithmName" then .plain (.s r.alg)
  else if go = "Password" then .plain (.s r.password)
  else if go = "HashValue" || go = "WorkbookHashValue" then .plain (.s r.hash)
  else if go = "SaltValue" || go = "WorkbookSaltValue" then .plain (.s r.salt)
  else if go = "SpinCount" || go = "WorkbookSpinCount" then .plain (.i r.spin)
  else match k with
    | .bool => .plain (.b (match r.flags.lookup go with | some b => b | none => false))
    | .int => .plain (.i 0)
    | _ => .plain (.s [])

def protXml (kind : Protection.PKind) (st : Option Protection.PRec) : String :=
  match st with
  | none => "none"
  | some r =>
    let tbl := match kind with
      | .sheet => Facts.C18.tags_xlsxSheetProtection
      | .workbook => Facts.C18.tags_xlsxWorkbookProtection
    let tags := XmlAttr.attrTags tbl
    showAttrs (XmlAttr.marshal (tags.map fun t => (t, protFieldVal r t.go t.kind)))

def optS (o : Option (List Char)) : Settings.FVal := .ptr .str (o.map .s)

def dvFieldVal (x : DvRecord.XDV) (go : String) : Settings.FVal :=
  if go = "AllowBlank" then .plain (.b x.allowBlank)
  else if go = "Error" then optS x.error
  else if go = "ErrorStyle" then optS x.errorStyle
  else if go = "ErrorTitle" then optS x.errorTitle
  else if go = "Operator" then .plain (.s x.operator)
  else if go = "Prompt" then optS x.prompt
  else if go = "PromptTitle" then optS x.promptTitle
  else if go = "ShowDropDown" then .plain (.b x.showDropDown)
  else if go = "ShowErrorMessage" then .plain (.b x.showErrorMessage)
  else if go = "ShowInputMessage" then .plain (.b x.showInputMessage)
  else if go = "Sqref" then .plain (.s x.sqref)
  else if go = "Type" then .plain (.s x.type)
  else .plain (.s [])

def dvXml (x : DvRecord.XDV) : String :=
  let tags := XmlAttr.attrTags Facts.C18.tags_xlsxDataValidation
  let el (o : Option (List Char)) : String := match o with
    | some c => hexS (Settings.unescape c)
    | none => "~"
  showAttrs (XmlAttr.marshal (tags.map fun t => (t, dvFieldVal x t.go))) ++ " f1=" ++ el x.formula1 ++ " f2=" ++ el x.formula2

/-! `cfr <24 fields>`: one ConditionalFormatOptions set on a new sheet and read back -/

def parseB (s : String) : Bool := s = "1"

def parseCfOpts (w : List String) : Option CfRule.Opts :=
  match w with
  | [ty, aa, pc, fm, cr, va, mnt, mdt, mxt, mnv, mdv, mxv, mnc, mdc, mxc, bc, bbc, bd, bo, bs, ic, ri, io, st] =>
    match [ty, cr, va, mnt, mdt, mxt, mnv, mdv, mxv, mnc, mdc, mxc, bc, bbc, bd, ic].mapM unhexS with
    | some [ty, cr, va, mnt, mdt, mxt, mnv, mdv, mxv, mnc, mdc, mxc, bc, bbc, bd, ic] =>
      some ⟨ty, parseB aa, parseB pc, (if fm = "~" then none else fm.toInt?), cr, va, mnt, mdt, mxt, mnv, mdv, mxv,
            mnc, mdc, mxc, bc, bbc, bd, parseB bo, parseB bs, ic, parseB ri, parseB io, parseB st⟩
    | _ => none
  | _ => none

def showCfOpts (o : CfRule.Opts) : String :=
  let b (x : Bool) := if x then "1" else "0"
  " ".intercalate [hexS o.type, b o.aboveAverage, b o.percent,
    (match o.format with | some n => toString n | none => "~"),
    hexS o.criteria, hexS o.value, hexS o.minType, hexS o.midType, hexS o.maxType, hexS o.minValue, hexS o.midValue,
    hexS o.maxValue, hexS o.minColor, hexS o.midColor, hexS o.maxColor, hexS o.barColor, hexS o.barBorderColor,
    hexS o.barDirection, b o.barOnly, b o.barSolid, hexS o.iconStyle, b o.reverseIcons, b o.iconsOnly, b o.stopIfTrue]

/-- `pmg`: successive SetPageMargins calls on a fresh sheet, then GetPageMargins -/
def pmgChunks : Nat → Nat → List String → Option (List (List String))
  | _, _, [] => some []
  | 0, _, _ => none
  | fuel + 1, n, w => if w.length < n then none else (pmgChunks fuel n (w.drop n)).map (w.take n :: ·)

def pmgFlag : String → Option (Option Bool)
  | "~" => some none
  | "0" => some (some false)
  | "1" => some (some true)
  | _ => none

def runPmg (w : List String) : String :=
  let n := Facts.C18.marginLoopBound
  match Margins.defaultsOf Facts.C18.marginSetDefaults, Margins.defaultsOf Facts.C18.marginGetDefaults, pmgChunks w.length (n + 2) w with
  | some dS, some dG, some calls =>
    let step (st : Option (Margins.St String)) (c : List String) : Option (Margins.St String) :=
      match st, pmgFlag (c.getD n ""), pmgFlag (c.getD (n + 1) "") with
      | some st, some h, some v => some (Margins.setM dS st ⟨(c.take n).map (fun t => if t == "~" then none else some t), h, v⟩)
      | _, _, _ => none
    match calls.foldl step (some ⟨none, none⟩) with
    | none => "bad-op"
    | some st =>
      let o := Margins.getM dG st
      let fb : Option Bool → String := fun b => match b with | none => "~" | some true => "1" | some false => "0"
      "ok " ++ " ".intercalate (o.m.map (fun x => x.getD "~") ++ [fb o.h, fb o.v])
  | _, _, _ => "bad-op"

/-- `hfs`: successive SetHeaderFooter calls (11 tokens each: n|o + the ten fields), then GetHeaderFooter -/
def hfParse (ty tok : String) : Option HeaderFooter.Val :=
  if ty == "*bool" then (pmgFlag tok).map HeaderFooter.Val.pb
  else if ty == "bool" then (if tok == "0" then some (.b false) else if tok == "1" then some (.b true) else none)
  else (unhexS tok).map HeaderFooter.Val.s

def hfShow : HeaderFooter.Val → String
  | .pb none => "~"
  | .pb (some true) => "1"
  | .pb (some false) => "0"
  | .b true => "1"
  | .b false => "0"
  | .s t => hexS t

def runHfs (w : List String) : String :=
  let n := Facts.C18.hfOptFields.length
  match pmgChunks w.length (n + 1) w with
  | none => "bad-op"
  | some calls =>
    let step (acc : Option (Option (List HeaderFooter.Val) × List String)) (c : List String) :=
      match acc with
      | none => none
      | some (st, out) =>
        let o : Option (Option (List HeaderFooter.Val)) :=
          if c.head? == some "n" then some none
          else ((Facts.C18.hfOptFields.map (·.2)).zip (c.drop 1)).mapM (fun p => hfParse p.1 p.2) |>.map some
        match o with
        | none => none
        | some o =>
          match HeaderFooter.setHF st o with
          | none => some (st, out ++ ["E_HF"])
          | some st' => some (st', out ++ ["ok"])
    match calls.foldl step (some (none, [])) with
    | none => "bad-op"
    | some (st, out) =>
      " ".intercalate (out ++ ["|"] ++ (match HeaderFooter.getHF st with | none => ["nil"] | some f => f.map hfShow))

def runCfr (w : List String) : String :=
  match parseCfOpts w with
  | none => "bad-op"
  | some o =>
    match CfRule.setGet o with
    | none => "E_CFR"
    | some none => "hidden"
    | some (some g) => "ok " ++ showCfOpts g

/-! `dvb`: build a DataValidation with the public builder methods, add it, read it back -/

def showOptS : Option (List Char) → String
  | none => "~"
  | some v => "s=" ++ hexS v

def showB (b : Bool) : String := if b then "b=1" else "b=0"

def showDV (d : DvRecord.DV) : String :=
  "AllowBlank:" ++ showB d.allowBlank ++ " Error:" ++ showOptS d.error ++ " ErrorStyle:" ++ showOptS d.errorStyle ++
  " ErrorTitle:" ++ showOptS d.errorTitle ++ " Formula1:s=" ++ hexS d.formula1 ++ " Formula2:s=" ++ hexS d.formula2 ++
  " Operator:s=" ++ hexS d.operator ++ " Prompt:" ++ showOptS d.prompt ++ " PromptTitle:" ++ showOptS d.promptTitle ++
  " ShowDropDown:" ++ showB d.showDropDown ++ " ShowErrorMessage:" ++ showB d.showErrorMessage ++
  " ShowInputMessage:" ++ showB d.showInputMessage ++ " Sqref:s=" ++ hexS d.sqref ++ " Type:s=" ++ hexS d.type

def runDvb (xmlOnly : Bool) (w : List String) : String :=
  match w with
  | [ab, dd, form, t, o, a, b, err, et, em, inp, it, im, sq] =>
    match t.toNat?, o.toNat?, unhexS et, unhexS em, unhexS it, unhexS im, unhexS sq with
    | some t, some o, some et, some em, some it, some im, some sq =>
      let d0 : DvRecord.DV := { DvRecord.newDV (ab = "1") with sqref := sq, showDropDown := (dd = "1") }
      let d1 : Option DvRecord.DV :=
        if form = "rs" then
          match unhexS a, unhexS b with
          | some a, some b => some (DvRecord.setRange d0 (.str a) (.str b) t o)
          | _, _ => none
        else if form = "ri" then
          match a.toInt?, b.toInt? with
          | some a, some b => some (DvRecord.setRange d0 (.int a) (.int b) t o)
          | _, _ => none
        else if form = "list" then
          match (a.splitOn ",").mapM unhexS with
          | some keys => some (match DvRecord.setDropListDV d0 keys with
              | some d => d
              | none => d0)
          | none => none
        else if form = "sqref" then (unhexS a).map (DvRecord.setSqrefDropList d0)
        else none
      match d1 with
      | none => "bad-op"
      | some d1 =>
        let d2 := match err.toNat? with
          | some st => DvRecord.setError d1 st et em
          | none => d1
        let d3 := if inp = "1" then DvRecord.setInput d2 it im else d2
        if xmlOnly then "ok " ++ dvXml (DvRecord.addDV d3)
        else "ok " ++ showDV (DvRecord.getDV (DvRecord.addDV d3))
    | _, _, _, _, _, _, _ => "bad-op"
  | _ => "bad-op"

/-- split a word list at the `|` separators -/
def splitBar (ws : List String) : List (List String) :=
  ws.foldr (fun w acc => match acc with
    | cur :: rest => if w = "|" then [] :: cur :: rest else (w :: cur) :: rest
    | [] => [[w]]) [[]]

def fieldList (s : String) : List String := if s = "-" then [] else s.splitOn ","

/-! production pairs routed through the helpers -/

/-- part state implied by the previous getter result: nil pointer = zero value -/
def partOf (prev : Rec) : Rec :=
  prev.map fun
    | (n, .ptr k none) => (n, .plain k.zero)
    | (n, .ptr _ (some v)) => (n, .plain v)
    | (n, .plain v) => (n, .plain v)

def emptyOpts (prev : Rec) : Rec :=
  prev.map fun
    | (n, .ptr k _) => (n, .ptr k none)
    | (n, .plain v) => (n, .ptr v.kind none)

def optStr (o : Rec) (f : String) : Option (List Char) :=
  match o.get f with
  | some (.ptr _ (some (.s v))) => some v
  | _ => none

def runPair (name : String) (prev opts : Rec) : String :=
  let viaPtr (sf gf : List String) : String :=
    match setNoPtr sf opts (partOf prev) with
    | .panic => "PANIC"
    | .ok part => showOut (setPtr gf part (emptyOpts prev))
  if name = "wbprops" then viaPtr Facts.C18.fields_SetWorkbookProps Facts.C18.fields_GetWorkbookProps
  else if name = "calcprops" then
    let bad (f : String) (allowed : List String) : Bool :=
      match optStr opts f with
      | some v => !(allowed.any fun a => a.toList == v)
      | none => false
    if bad "CalcMode" Facts.C18.supportedCalcMode || bad "RefMode" Facts.C18.supportedRefMode then "E_OPTION"
    else viaPtr Facts.C18.fields_SetCalcProps Facts.C18.fields_GetCalcProps
  else if name = "appprops" then showOut (setNoPtr Facts.C18.fields_SetAppProps opts (partOf prev))
  else if name = "docprops" then showOut (setNoPtr Facts.C18.fields_SetDocProps opts (partOf prev))
  else "bad-op"

def showDN (l : List DN) : String :=
  if l.isEmpty then "-" else
  ";".intercalate (l.map fun d => hexS d.name ++ "/" ++ hexS d.scope ++ "/" ++ hexS d.refersTo ++ "/" ++ hexS d.comment)

def joinComma : List (List Char) → List Char
  | [] => []
  | [a] => a
  | a :: rest => a ++ ',' :: joinComma rest

def stepDn (st : DNState) (w : List String) : DNState × String :=
  match w with
  | "cpn" :: fl :: "|" :: rest =>
    match splitBar rest with
    | [a, b] => match parseRec a, parseRec b with
      | some imm, some tgt => (st, showOut (setNoPtr (fieldList fl) imm tgt))
      | _, _ => (st, "bad-op")
    | _ => (st, "bad-op")
  | "cpp" :: fl :: "|" :: rest =>
    match splitBar rest with
    | [a, b] => match parseRec a, parseRec b with
      | some imm, some tgt => (st, showOut (setPtr (fieldList fl) imm tgt))
      | _, _ => (st, "bad-op")
    | _ => (st, "bad-op")
  | "pair" :: name :: "|" :: rest =>
    match splitBar rest with
    | [a, b] => match parseRec a, parseRec b with
      | some prev, some opts => (st, runPair name prev opts)
      | _, _ => (st, "bad-op")
    | _ => (st, "bad-op")
  | ["esc", h] => (st, match unhexS h with | some s => hexS (escape s) | none => "bad-op")
  | ["unesc", h] => (st, match unhexS h with | some s => hexS (unescape s) | none => "bad-op")
  | ["dvunesc", h] => (st, match unhexS h with | some s => hexS (unescapeDV s) | none => "bad-op")
  | ["droplist", hs] =>
    match (hs.splitOn ",").mapM unhexS with
    | some keys =>
      match setDropList (joinComma keys) with
      | some f1 => (st, "ok " ++ hexS f1 ++ " " ++ hexS (unescapeDV f1))
      | none => (st, "E_DVLEN")
    | none => (st, "bad-op")
  | ["xorpw", n, rs] =>
    match n.toNat?, (if rs = "-" then some [] else (rs.splitOn ",").mapM String.toNat?) with
    | some n, some runes => (st, String.ofList (genSheetPasswd n runes))
    | _, _ => (st, "bad-op")
  | ["protun", h1, h2] =>
    match unhexS h1, (if h2 = "~" then some none else (unhexS h2).map some) with
    | some p1, some p2 =>
      match protectSheet (fun _ _ _ => none) [] [] p1 with
      | none => (st, "ERR-protect")
      | some pr => match unprotectSheet (fun _ _ _ => none) (some pr) p2 with
        | .ok _ => (st, "ok")
        | .error _ => (st, "refused")
    | _, _ => (st, "bad-op")
  | "dnreset" :: hs =>
    match hs.mapM unhexS with
    | some sheets => (⟨sheets, []⟩, "ok")
    | none => (st, "bad-op")
  | ["dnset", n, s, r, c] =>
    match unhexS n, unhexS s, unhexS r, unhexS c with
    | some n, some s, some r, some c =>
      match setDN st ⟨n, s, r, c⟩ with
      | .ok st' => (st', "ok")
      | .error _ => (st, "E_DN")
    | _, _, _, _ => (st, "bad-op")
  | ["dndel", n, s] =>
    match unhexS n, unhexS s with
    | some n, some s =>
      match delDN st n s with
      | .ok st' => (st', "ok")
      | .error _ => (st, "E_DN")
    | _, _ => (st, "bad-op")
  | ["dnget"] => (st, showDN (getDN st))
  | _ => (st, "bad-op")

/-! protection histories (`ph*` lines) and conditional-format histories (`cf*` lines) -/

structure St where
  dn : DNState
  kind : Protection.PKind
  prot : Option Protection.PRec
  cf : List (String × CondFmt.Sheet)

/-- symbolic ISO hash: injective in all three arguments -/
def symHash : Protection.Hash := fun a p s => 'H' :: a ++ '|' :: p ++ '|' :: s

def insertSorted (x : String) : List String → List String
  | [] => [x]
  | y :: ys => if x < y then x :: y :: ys else y :: insertSorted x ys

def sortStrs (l : List String) : List String := l.foldr insertSorted []

def showProt : Option Protection.PRec → String
  | none => "none"
  | some r =>
    let b (x : List Char) := if x.isEmpty then "0" else "1"
    "alg=" ++ hexS r.alg ++ " pw=" ++ hexS r.password ++ " hash=" ++ b r.hash ++ " salt=" ++ b r.salt ++
      " spin=" ++ toString r.spin ++ " " ++
      " ".intercalate (sortStrs (r.flags.map fun f => f.1 ++ "=" ++ (if f.2 then "true" else "false")))

def parseFlags (s : String) : List (String × Bool) :=
  if s = "-" then [] else
  (s.splitOn ",").filterMap fun t => match t.splitOn ":" with
    | [n, v] => some (n, v = "1")
    | _ => none

def cfGet (cf : List (String × CondFmt.Sheet)) (sheet : String) : CondFmt.Sheet :=
  match cf.lookup sheet with
  | some s => s
  | none => []

def cfPut (cf : List (String × CondFmt.Sheet)) (sheet : String) (v : CondFmt.Sheet) : List (String × CondFmt.Sheet) :=
  if cf.any (·.1 == sheet) then cf.map (fun p => if p.1 == sheet then (p.1, v) else p) else cf ++ [(sheet, v)]

/-- distinct ranges in order of first occurrence -/
def cfKeys (s : CondFmt.Sheet) : List (List Char) :=
  s.foldl (fun acc b => if acc.contains b.sqref then acc else acc ++ [b.sqref]) []

/-- what the getter shows: sorted `range#rules` -/
def showCfLive (s : CondFmt.Sheet) : String :=
  let items := sortStrs ((cfKeys s).map fun r => hexS r ++ "#" ++ toString (CondFmt.count s r))
  if items.isEmpty then "-" else ",".intercalate items

/-- what the saved sheet XML shows: blocks in document order with their priorities -/
def showCfSaved (s : CondFmt.Sheet) : String :=
  if s.isEmpty then "-" else
  ";".intercalate (s.map fun b => hexS b.sqref ++ "[" ++ ",".intercalate (b.prios.map toString) ++ "]")

def cfSheets : List String := ["Sheet1", "S2"]

def showAllLive (cf : List (String × CondFmt.Sheet)) : String :=
  " | ".intercalate (cfSheets.map fun n => n ++ ": " ++ showCfLive (cfGet cf n))

def showAllSaved (cf : List (String × CondFmt.Sheet)) : String :=
  " | ".intercalate (cfSheets.map fun n => n ++ ": " ++ showCfSaved (cfGet cf n))

def step (st : St) (w : List String) : St × String :=
  match w with
  | ["phnew", k] => ({ st with kind := if k = "workbook" then .workbook else .sheet, prot := none }, "ok")
  | ["phprot", a, p, fl] =>
    match unhexS a, unhexS p with
    | some a, some p =>
      let (st', ok) := Protection.protect st.kind symHash ['s'] st.prot ⟨a, p, parseFlags fl⟩
      ({ st with prot := st' }, (if ok then "ok " else "E_PROT ") ++ showProt st')
    | _, _ => (st, "bad-op")
  | ["phunprot", p] =>
    match (if p = "~" then some none else (unhexS p).map some) with
    | some pw =>
      let (st', ok) := Protection.unprotect st.kind symHash st.prot pw
      ({ st with prot := st' }, (if ok then "ok " else "refused ") ++ showProt st')
    | none => (st, "bad-op")
  | ["phswap"] => (st, showProt st.prot)
  | ["svz", v1, v2, z1, z2] =>
    match unhexS v1, unhexS v2, z1.toInt?, z2.toInt? with
    | some v1, some v2, some z1, some z2 =>
      let s0 : List Char × Int := ([], 0)
      let (s1, e1) := match setSheetViewVZ s0 v1 z1 with
        | some s => (s, false)
        | none => (s0, true)
      let (s2, e2) := match setSheetViewVZ s1 v2 z2 with
        | some s => (s, false)
        | none => (s1, true)
      (st, (if e1 then "E_V1 " else "ok ") ++ (if e2 then "E_V2 " else "ok ") ++ hexS (getView s2.1) ++ " " ++ toString (getZoom s2.2))
    | _, _, _, _ => (st, "bad-op")
  | ["fpn", a, b] =>
    match a.toNat?, b.toNat? with
    | some a, some b => (st, "ok " ++ toString (getFirstPage (setFirstPage (setFirstPage none a) b)))
    | _, _ => (st, "bad-op")
  | "dvb" :: rest => (st, runDvb false rest)
  | "dvx" :: rest => (st, runDvb true rest)
  | ["phxml"] => (st, protXml st.kind st.prot)
  | "cfr" :: rest => (st, runCfr rest)
  | "pmg" :: rest => (st, runPmg rest)
  | "hfs" :: rest => (st, runHfs rest)
  | ["dvdel", rs, d] =>
    match (rs.splitOn ",").mapM unhexS, unhexS d with
    | some rules, some del => (st, runDvDel rules del)
    | _, _ => (st, "bad-op")
  | ["cfnew"] => ({ st with cf := [] }, "ok")
  | ["cfset", sheet, r, n, _] =>
    match unhexS r, n.toNat? with
    | some r, some n =>
      let cf := cfPut st.cf sheet (CondFmt.setCF (cfGet st.cf sheet) r n)
      ({ st with cf := cf }, "ok " ++ showAllLive cf)
    | _, _ => (st, "bad-op")
  | ["cfrejected", _, _, _, _] => (st, "E_CF " ++ showAllLive st.cf)
  | ["cfunset", sheet, r] =>
    match unhexS r with
    | some r =>
      let cf := cfPut st.cf sheet (CondFmt.unsetCF (cfGet st.cf sheet) r)
      ({ st with cf := cf }, "ok " ++ showAllLive cf)
    | none => (st, "bad-op")
  | ["cfedit"] => (st, showAllLive st.cf)
  | ["cfsave"] => (st, showAllSaved st.cf)
  | ["cfswap"] => (st, showAllSaved st.cf)
  | _ =>
    let (d, o) := stepDn st.dn w
    ({ st with dn := d }, o)

def run : IO Unit := runStateful (⟨⟨[], []⟩, .sheet, none, []⟩ : St) step

end XlModel.Drv.C18
