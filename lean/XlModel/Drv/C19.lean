import XlModel.Date
import XlModel.DateRender
import XlModel.Drv.Util
/-
Line-protocol driver for C19 (see harness/cmd/vh/c19.go for the Go side).

  rt <sys> <y> <m> <d> <h> <mi> <s> <ns> <off> <zone> <stored>
        wall clock (y..ns) read in a zone with offset <off> seconds, date system
        <sys> (0 = 1900, 1 = 1904); <stored> is what the implementation stored:
        the float64 bit pattern (16 hex digits) of the numeric cell value, or `text`.
        Model output:  text
                    |  num e=<1|0> S=<day>:<sec>|- r=<Y M D h m s ns>
        e: |stored − Impl exact serial| ≤ encTol;  S: Spec day count and second of
        day (whole-second instants inside the property's range only);  r: the exact
        model of ExcelDateToTime applied to the exact value of the stored float.
  dec <sys> <bits>      ExcelDateToTime on an arbitrary float64
  encf <sys> <unixsec> <ns>   timeToExcelTime on the instant, float64 bit pattern of the result
                        (model: `Impl.timeToExcelTimeF` instantiated with `Float`)
  cell <wb> <pre> <y> … <off> <zone>   SetCellValue(time) on a fresh workbook through the public API
                        (model: `Impl.setCellTimeFunc` — workbook flag, `getTimeNumFmt`, `setDefaultTimeStyle`)
  rend <sys> <y> … <off> <zone> <bits15>   SetCellValue(time) then GetCellValue under the default style and
                        under yyyy-mm-dd hh:mm:ss (model: encoder + glue of C19, `DateRender.render` = C10's
                        `dateTimeHandler` on C19's decoder, token lists of `DateRender.itemsOf`)
  dur <ns> <bits>       SetCellValue(time.Duration): error of the float32-formatted text, nearest second,
                        `getDurationNumFmt`
  edt <sys> <bits>      ExcelDateToTime (model: `Impl.excelDateToTimeF` on `Float`)
  decf <sys> <bits>     timeFromExcelTime (hook, no negative guard) on an arbitrary float64
                        (model: `Impl.timeFromExcelTimeF` instantiated with `Float`)
  civ <z>               day number → (y, m, d) → day number
  flg <jd>              Fliegel–Van Flandern
-/
namespace XlModel.Drv.C19
open XlModel XlModel.Date XlModel.Drv

def parseHexNat (s : String) : Option Nat :=
  s.toList.foldl (fun acc c => match acc, hexVal c with
    | some a, some v => some (a * 16 + v)
    | _, _ => none) (some 0)

/-- exact value of a finite float64 given by its bit pattern -/
def ratOfBits (b : Nat) : Option Rat :=
  let sign := b / 2 ^ 63 % 2
  let e := b / 2 ^ 52 % 2048
  let mant := b % 2 ^ 52
  if e = 2047 then none
  else
    let (m, ex) := if e = 0 then (mant, (1 : Nat)) else (mant + 2 ^ 52, e)
    -- value = m * 2^(ex - 1075)
    let q : Rat := if ex ≥ 1075 then ((m * 2 ^ (ex - 1075) : Nat) : Rat)
                   else ((m : Nat) : Rat) / ((2 ^ (1075 - ex) : Nat) : Rat)
    some (if sign = 1 then -q else q)

/-- float64 instance of the operations of `timeToExcelTime` (C double arithmetic, as Go's) -/
def floatOps : Impl.FloatOps Float where
  ofInt n := if n ≥ 0 then n.toNat.toUInt64.toFloat else -((-n).toNat.toUInt64.toFloat)
  add a b := a + b
  div a b := a / b

/-- float64 instance of the decoder's operations; constants are the nearest float64 to the exact
value (numerator and denominator of every constant used are exactly representable, the division
is correctly rounded), float→int truncates toward zero -/
def floatOps2 : Impl.FloatOps2 Float where
  toFloatOps := floatOps
  sub a b := a - b
  mul a b := a * b
  const q := floatOps.ofInt q.num / floatOps.ofInt q.den
  trunc x := x.toInt64.toInt
  lt a b := a < b
  le a b := a ≤ b

def hex16 (n : Nat) : String :=
  String.ofList ((List.range 16).map fun i => hexDigit (n / 16 ^ (15 - i) % 16))

def showCivil (c : Civil) : String :=
  s!"{c.y} {c.m} {c.d} {c.h} {c.mi} {c.s} {c.ns}"

/-- prefix sums of `Spec.excelYearLen` / `Spec.yearLen`, computed once (the recursive
`Spec.yearsSum` is 8000 steps deep for year 9999) -/
def prefixSums (f : Int → Int) (start : Int) (n : Nat) : Array Int := Id.run do
  let mut a : Array Int := Array.mkEmpty (n + 1)
  let mut acc : Int := 0
  a := a.push 0
  for i in [0:n] do
    acc := acc + f (start + i)
    a := a.push acc
  return a

def yearStarts1900 : Array Int := prefixSums Spec.excelYearLen 1900 8200
def yearStarts1904 : Array Int := prefixSums Spec.yearLen 1904 8200

/-- `Spec.excelDayCount` / `Spec.dayCount1904` with the year sum taken from the table -/
def specDay (sys : Bool) (y m d : Int) : Option Int :=
  if sys then
    if y < 1904 then none else
    match yearStarts1904[(y - 1904).toNat]? with
    | some ys => some (ys + Spec.monthsSumTrue y (m - 1).toNat + d - 1)
    | none => some (Spec.dayCount1904 y m d)
  else
    if y < 1900 then none else
    match yearStarts1900[(y - 1900).toNat]? with
    | some ys => some (ys + Spec.monthsSum y (m - 1).toNat + d)
    | none => some (Spec.excelDayCount y m d)

def rt (sys : Bool) (c : Civil) (off : Int) (stored : String) : String :=
  let wall := instantOf c
  let utc := wall - off * nsPerSec
  match Impl.setCellTime utc off sys with
  | .text => "text"
  | .num sNs =>
    if stored = "text" then "num"
    else match (parseHexNat stored).bind ratOfBits with
    | none => "bad-op"
    | some x =>
      let exact : Rat := (sNs : Rat) / (Facts.C19.dayNanoseconds : Rat)
      let dlt := x - exact
      let e := if (if dlt < 0 then -dlt else dlt) ≤ encTol sNs then "1" else "0"
      let sp := if c.ns = 0 then
          match specDay sys c.y c.m c.d with
          | some dcount => s!"{dcount}:{c.h * 3600 + c.mi * 60 + c.s}"
          | none => "-"
        else "-"
      let r := match Impl.excelDateToTime x sys with
        | .ok t => showCivil (civilOf t)
        | .error _ => "E_NEG"
      s!"num e={e} S={sp} r={r}"

def step (w : List String) : String :=
  match w with
  | ["rt", sys, y, m, d, h, mi, s, ns, off, _zone, stored] =>
    match parseInt? y, parseInt? m, parseInt? d, parseInt? h, parseInt? mi, parseInt? s, parseInt? ns, parseInt? off with
    | some y, some m, some d, some h, some mi, some s, some ns, some off =>
      rt (sys = "1") { y := y, m := m, d := d, h := h, mi := mi, s := s, ns := ns } off stored
    | _, _, _, _, _, _, _, _ => "bad-op"
  | ["dec", sys, bits] =>
    match (parseHexNat bits).bind ratOfBits with
    | some x => match Impl.excelDateToTime x (sys = "1") with
      | .ok t => "ok " ++ showCivil (civilOf t)
      | .error _ => "E_NEG"
    | none => "bad-op"
  | ["cell", wb, pre, y, m, d, h, mi, s, ns, off, _zone] =>
    match parseInt? y, parseInt? m, parseInt? d, parseInt? h, parseInt? mi, parseInt? s, parseInt? ns, parseInt? off with
    | some y, some m, some d, some h, some mi, some s, some ns, some off =>
      let c : Civil := { y := y, m := m, d := d, h := h, mi := mi, s := s, ns := ns }
      let flag : Option Bool := if wb = "1" then some true else if wb = "0" then some false else none
      let cur : Option Impl.CellStyle :=
        if pre = "1" then some { numFmt := 0, custom := false, bold := true }
        else if pre = "2" then some { numFmt := 0, custom := true, bold := true }
        else if pre = "3" then some { numFmt := 14, custom := false, bold := true }
        else none
      let wall := instantOf c
      let (st, style) := Impl.setCellTimeFunc flag cur (wall - off * nsPerSec) off c
      let bits := match st with
        | .num _ => hex16 (Impl.timeToExcelTimeF floatOps wall (wb = "1")).toBits.toNat
        | .text => "text"
      let b2s (b : Bool) : String := if b then "1" else "0"
      match style with
      | some x => s!"bits={bits} fmt={x.numFmt} custom={b2s x.custom} bold={b2s x.bold}"
      | none => s!"bits={bits} fmt=0 custom=0 bold=0"
    | _, _, _, _, _, _, _, _ => "bad-op"
  | ["rend", sys, y, m, d, h, mi, s, off, _zone, bits15] =>
    match parseInt? y, parseInt? m, parseInt? d, parseInt? h, parseInt? mi, parseInt? s, parseInt? off with
    | some y, some m, some d, some h, some mi, some s, some off =>
      let c : Civil := { y := y, m := m, d := d, h := h, mi := mi, s := s, ns := 0 }
      let flag := sys = "1"
      let wall := instantOf c
      match Impl.setCellTimeFunc (if flag then some true else none) none (wall - off * nsPerSec) off c with
      | (.num _, some sty) =>
        let encBits := (Impl.timeToExcelTimeF floatOps wall flag).toBits.toNat
        match ratOfBits encBits, (parseHexNat bits15).bind ratOfBits with
        | some x, some x15 =>
          let dlt := x15 - x
          let e15 := if (if dlt < 0 then -dlt else dlt) ≤ x * ((5 : Rat) / 1000000000000000) then "1" else "0"
          let showOut (o : NumFmt.Out) : String := match o with
            | .ok str => hexS str
            | .panic => "PANIC"
            | .unmodelled => "UNMODELLED"
            | .fallback => "FALLBACK"
          let toks := ",".intercalate ((DateRender.itemsOf sty.numFmt).map fun t => t.ty ++ ":" ++ hexS t.val)
          s!"enc={hex16 encBits} e15={e15} fmt={sty.numFmt} toks={toks} out={showOut (DateRender.render (DateRender.itemsOf sty.numFmt) x15 flag)} iso={showOut (DateRender.render DateRender.itemsIso x15 flag)}"
        | _, _ => "bad-op"
      | _ => "text"
    | _, _, _, _, _, _, _ => "bad-op"
  | ["dur", ns, bits] =>
    match parseInt? ns, (parseHexNat bits).bind ratOfBits with
    | some ns, some x =>
      let exact := Impl.durationSerial ns
      let dlt := x - exact
      let e := if (if dlt < 0 then -dlt else dlt) ≤ durTol ns then "1" else "0"
      let k := if ns ≥ 0 ∧ ns % 1000000000 = 0 ∧ ns < 4194304 * 1000000000
        then toString (x * 86400 + (1 : Rat) / 2).floor else "-"
      s!"e={e} k={k} fmt={Impl.getDurationNumFmt ns}"
    | _, _ => "bad-op"
  | ["edt", sys, bits] =>
    match parseHexNat bits with
    | some b => match Impl.excelDateToTimeF floatOps2 (Float.ofBits b.toUInt64) (sys = "1") with
      | .ok t => "ok " ++ showCivil (civilOf t)
      | .error _ => "E_NEG"
    | none => "bad-op"
  | ["decf", sys, bits] =>
    match parseHexNat bits with
    | some b => "ok " ++ showCivil (civilOf (Impl.timeFromExcelTimeF floatOps2 (Float.ofBits b.toUInt64) (sys = "1")))
    | none => "bad-op"
  | ["encf", sys, sec, ns] =>
    match parseInt? sec, parseInt? ns with
    | some sec, some ns =>
      hex16 (Impl.timeToExcelTimeF floatOps (sec * nsPerSec + ns) (sys = "1")).toBits.toNat
    | _, _ => "bad-op"
  | ["civ", z] =>
    match parseInt? z with
    | some z =>
      let (y, m, d) := civilFromDays z
      s!"{y} {m} {d} {daysFromCivil y m d}"
    | none => "bad-op"
  | ["flg", jd] =>
    match parseInt? jd with
    | some jd => let (d, m, y) := Impl.fliegel jd; s!"{d} {m} {y}"
    | none => "bad-op"
  | _ => "bad-op"

def run : IO Unit := runStateless step

end XlModel.Drv.C19
