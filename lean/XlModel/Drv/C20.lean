import XlModel.Ref
import XlModel.RefApi
import XlModel.RefMulti
import XlModel.RefOpts
import XlModel.RefCF
import XlModel.Drv.Util
namespace XlModel.Drv.C20
open XlModel XlModel.Ref XlModel.Drv

def showE {α} (f : α → String) : Except Err α → String
  | .ok a => "ok " ++ f a
  | .error e => e.tag

def specS (s : List Char) : String :=
  match parseA1 s with
  | some (c, r) => s!"S={c},{r}"
  | none => "S=none"

def specR (s : List Char) : String :=
  match parseRangeStrict s with
  | some (a, b, c, d) => s!"S={a},{b},{c},{d}"
  | none => "S=none"

def insertSorted (x : Int) : List Int → List Int
  | [] => [x]
  | y :: ys => if x < y then x :: y :: ys else if x == y then y :: ys else y :: insertSorted x ys

/-- `cells` grouped by column, columns ascending, rows in insertion order -/
def showFlat (cells : List Cell) : String :=
  let cols := cells.foldl (fun acc p => insertSorted p.1 acc) []
  if cols.isEmpty then "-" else
  ";".intercalate (cols.map fun c =>
    toString c ++ ":" ++ ",".intercalate ((colOf cells c).map fun p => toString p.2))

def parseCells (s : String) : Option (List Cell) :=
  if s == "-" then some [] else
  (s.splitOn ";").mapM fun t =>
    match t.splitOn "," with
    | [a, b] => match parseInt? a, parseInt? b with
      | some x, some y => some (x, y)
      | _, _ => none
    | _ => none

def parseRefs (s : String) : Option (List (List Char)) :=
  if s == "none" then some [] else (s.splitOn ",").mapM unhexS

def step (w : List String) : String :=
  match w with
  | ["c2n", h] => match unhexS h with
    | some s => showE (fun (i : Int) => toString i) (columnNameToNumber s)
    | none => "bad-op"
  | ["n2c", n] => match parseInt? n with
    | some i => showE hexS (columnNumberToName i)
    | none => "bad-op"
  | ["split", h] => match unhexS h with
    | some s => showE (fun (p : List Char × Int) => hexS p.1 ++ " " ++ toString p.2) (splitCellName s)
    | none => "bad-op"
  | ["join", h, r] => match unhexS h, parseInt? r with
    | some s, some i => showE hexS (joinCellName s i)
    | _, _ => "bad-op"
  | ["c2xy", h] => match unhexS h with
    | some s => showE (fun (p : Int × Int) => s!"{p.1} {p.2}") (cellNameToCoordinates s) ++ " " ++ specS s
    | none => "bad-op"
  | ["xy2c", c, r, a] => match parseInt? c, parseInt? r with
    | some c, some r => showE hexS (coordinatesToCellName c r (a = "1"))
    | _, _ => "bad-op"
  | ["rng", h] => match unhexS h with
    | some s => showE (fun (q : Int × Int × Int × Int) => s!"{q.1} {q.2.1} {q.2.2.1} {q.2.2.2}") (rangeRefToCoordinates s) ++ " " ++ specR s
    | none => "bad-op"
  | ["rngapi", ha, hb] => match unhexS ha, unhexS hb with
    | some a, some b => match mergeCellRef a b with
      | some ref => "A " ++ hexS ref ++ " U0"
      | none => "R"
    | _, _ => "bad-op"
  | ["inrng", hc, hr] => match unhexS hc, unhexS hr with
    | some c, some r => showE (fun (b : Bool) => if b then "1" else "0") (checkCellInRangeRef c r)
    | _, _ => "bad-op"
  | ["flat", h] => match unhexS h with
    | some s => showE showFlat (flatSqref s)
    | none => "bad-op"
  | ["squash", cs] => match parseCells cs with
    | some cells =>
      let out := squashSqref cells
      if out.isEmpty then "-" else ",".intercalate (out.map hexS)
    | none => "bad-op"
  | ["anchor", rs, hc] => match parseRefs rs, unhexS hc with
    | some refs, some c => showE hexS (mergeParseWith refs c)
    | _, _ => "bad-op"
  | ["overlap", a, b, c, d, e, f, g, h] =>
    match [a, b, c, d, e, f, g, h].mapM parseInt? with
    | some [a, b, c, d, e, f, g, h] => if isOverlap (a, b, c, d) (e, f, g, h) then "1" else "0"
    | _ => "bad-op"
  | ["colrng", h] => match unhexS h with
    | some s => showE (fun (q : Int × Int) => s!"{q.1} {q.2}") (parseColRange s)
    | none => "bad-op"
  | ["colw", ha, hb] => match unhexS ha, unhexS hb with
    | some a, some b => showE (fun (q : Int × Int) => s!"{q.1} {q.2}") (colWidthRange a b)
    | _, _ => "bad-op"
  | ["pathsm", rs, hc] => match parseRefs rs, unhexS hc with
    | some ms, some c =>
      let k := fun (e : Except Err Key) => match e with
        | .ok key => (match key.stored with | some x => hexS x | none => "?")
        | .error _ => "ERR"
      "P=" ++ k (pathPrepareM ms c) ++ " G=" ++ k (pathGetStringM ms c) ++ " H=" ++ k (pathLinkM ms c)
    | _, _ => "bad-op"
  | ["opt", k, h] => match OptKind.ofString k, unhexS h with
    | some kind, some s => if optAccepts kind s then "A" else "R"
    | _, _ => "bad-op"
  | ["cfref", h] => match unhexS h with
    | some s => showE hexS (cfPrepare s)
    | none => "bad-op"
  | ["swmerge", ha, hb] => match unhexS ha, unhexS hb with
    | some a, some b => if decodeOk a && decodeOk b then "A" else "R"
    | _, _ => "bad-op"
  | ["cfpair", ha, hb] => match unhexS ha, unhexS hb with
    | some a, some b => match cfUnsetFinds a b with
      | some true => "1"
      | some false => "0"
      | none => "none"
    | _, _ => "bad-op"
  | ["pathsx", rs, hc] => match parseRefs rs, unhexS hc with
    | some ms, some c =>
      let k := fun (e : Except Err Key) => match e with
        | .ok key => (match key.stored with | some x => hexS x | none => "?")
        | .error _ => "ERR"
      "P=" ++ k (pathPrepareM ms c) ++ " G=" ++ k (pathGetStringM ms c)
    | _, _ => "bad-op"
  | ["paths", h] => match unhexS h with
    | some s => String.ofList (pathsOp s)
    | none => "bad-op"
  | ["c2rng", a, b, c, d, ab] => match parseInt? a, parseInt? b, parseInt? c, parseInt? d with
    | some a, some b, some c, some d => showE hexS (coordinatesToRangeRef (sortCoordinates (a, b, c, d)) (ab = "1"))
    | _, _, _, _ => "bad-op"
  | ["spell", h] => match unhexS h with
    | some s => match getterFinds s with
      | some true => "1"
      | some false => "0"
      | none => "none"
    | none => "bad-op"
  | ["api", h] => match unhexS h with
    | some s =>
      -- every cell-name API normalises (ASCII upper-casing) and decodes: one verdict for all eight
      if (apiRef s).isSome then "AAAAAAAA" else "RRRRRRRR"
    | none => "bad-op"
  | _ => "bad-op"

def run : IO Unit := runStateless step

end XlModel.Drv.C20
