import XlModel.Ref
import XlModel.RefApi
import XlModel.Drv.Util
namespace XlModel.Drv.C20
open XlModel XlModel.Ref XlModel.Drv

def showE {α} (f : α → String) : Except Err α → String
  | .ok a => "ok " ++ f a
  | .error e => e.tag

def specS (s : List Char) : String :=
  match parseA1 s with
  | some (c, r) => s!"S={c},{r}"
  | none => "S=none"

def specR (s : List Char) : String :=
  match parseRangeStrict s with
  | some (a, b, c, d) => s!"S={a},{b},{c},{d}"
  | none => "S=none"

def step (w : List String) : String :=
  match w with
  | ["c2n", h] => match unhexS h with
    | some s => showE (fun (i : Int) => toString i) (columnNameToNumber s)
    | none => "bad-op"
  | ["n2c", n] => match parseInt? n with
    | some i => showE hexS (columnNumberToName i)
    | none => "bad-op"
  | ["split", h] => match unhexS h with
    | some s => showE (fun (p : List Char × Int) => hexS p.1 ++ " " ++ toString p.2) (splitCellName s)
    | none => "bad-op"
  | ["join", h, r] => match unhexS h, parseInt? r with
    | some s, some i => showE hexS (joinCellName s i)
    | _, _ => "bad-op"
  | ["c2xy", h] => match unhexS h with
    | some s => showE (fun (p : Int × Int) => s!"{p.1} {p.2}") (cellNameToCoordinates s) ++ " " ++ specS s
    | none => "bad-op"
  | ["xy2c", c, r, a] => match parseInt? c, parseInt? r with
    | some c, some r => showE hexS (coordinatesToCellName c r (a = "1"))
    | _, _ => "bad-op"
  | ["rng", h] => match unhexS h with
    | some s => showE (fun (q : Int × Int × Int × Int) => s!"{q.1} {q.2.1} {q.2.2.1} {q.2.2.2}") (rangeRefToCoordinates s) ++ " " ++ specR s
    | none => "bad-op"
  | ["rngapi", ha, hb] => match unhexS ha, unhexS hb with
    | some a, some b => match mergeCellRef a b with
      | some ref => "A " ++ hexS ref ++ " U0"
      | none => "R"
    | _, _ => "bad-op"
  | ["paths", h] => match unhexS h with
    | some s => String.ofList (pathsOp s)
    | none => "bad-op"
  | ["c2rng", a, b, c, d, ab] => match parseInt? a, parseInt? b, parseInt? c, parseInt? d with
    | some a, some b, some c, some d => showE hexS (coordinatesToRangeRef (sortCoordinates (a, b, c, d)) (ab = "1"))
    | _, _, _, _ => "bad-op"
  | ["spell", h] => match unhexS h with
    | some s => match getterFinds s with
      | some true => "1"
      | some false => "0"
      | none => "none"
    | none => "bad-op"
  | ["api", h] => match unhexS h with
    | some s =>
      -- every cell-name API normalises (ASCII upper-casing) and decodes: one verdict for all eight
      if (apiRef s).isSome then "AAAAAAAA" else "RRRRRRRR"
    | none => "bad-op"
  | _ => "bad-op"

def run : IO Unit := runStateless step

end XlModel.Drv.C20
