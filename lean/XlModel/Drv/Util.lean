import XlModel.Basic
namespace XlModel.Drv
open XlModel

def words (line : String) : List String :=
  (line.splitOn " ").filter (· ≠ "")

def parseInt? (s : String) : Option Int := s.toInt?

def unhexS (s : String) : Option (List Char) :=
  if s = "-" then some [] else unhex s.toList

def hexS (s : List Char) : String := if s.isEmpty then "-" else hex s

/-- read stdin line by line, thread a state, print one output line per input line -/
partial def loop {σ : Type} (h : IO.FS.Stream) (out : IO.FS.Stream) (st : σ)
    (step : σ → List String → σ × String) : IO Unit := do
  let line ← h.getLine
  if line.isEmpty then return ()
  let l := String.ofList (line.toList.filter (fun c => c != (Char.ofNat 10) && c != (Char.ofNat 13)))
  let (st', o) := step st (words l)
  out.putStrLn o
  loop h out st' step

def runStateless (step : List String → String) : IO Unit := do
  let i ← IO.getStdin
  let o ← IO.getStdout
  loop i o () (fun _ w => ((), step w))
  o.flush

def runStateful {σ : Type} (init : σ) (step : σ → List String → σ × String) : IO Unit := do
  let i ← IO.getStdin
  let o ← IO.getStdout
  loop i o init step
  o.flush

end XlModel.Drv
