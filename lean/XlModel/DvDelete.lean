/-
C18 — `DeleteDataValidation` (datavalidation.go) with `flatSqref`, `inCoordinates`
(lib.go) and `squashSqref`: the list surgery on the stored data-validation rules
when a range of cells is deleted from them.  Core Lean only; cell references are
parsed with the C20 model (`XlModel.Ref`).

A rule is its `sqref` text.  `flatSqref` expands it to cells, grouped per column in
order of appearance; every occurrence of every cell of the delete range is removed;
a rule that had no such cell is left as it is; otherwise the columns are taken left to
right, their rows sorted, each column squashed back into runs; a rule with no run left
is spliced out of the list and the loop index steps back. (Results are compared as
cell sets.)
-/
import XlModel.Ref

namespace XlModel.DvDelete
open XlModel XlModel.Ref

abbrev Cell := Int × Int     -- (column, row)

def rowsUpTo (c r : Int) : Nat → List Cell
  | 0 => []
  | n + 1 => (c, r) :: rowsUpTo c (r + 1) n

def colsUpTo (c r1 : Int) (nr : Nat) : Nat → List Cell
  | 0 => []
  | n + 1 => rowsUpTo c r1 nr ++ colsUpTo (c + 1) r1 nr n

def splitSpaceAux : List Char → List Char → List (List Char)
  | [], cur => [cur.reverse]
  | c :: cs, cur =>
    if c == ' ' || c == '\t' || c == '\n' then cur.reverse :: splitSpaceAux cs [] else splitSpaceAux cs (c :: cur)

/-- `strings.Fields` -/
def splitOnSpace (s : List Char) : List (List Char) :=
  (splitSpaceAux s []).filter (fun t => !t.isEmpty)

/-- one token of `flatSqref`: a cell, a range (corners sorted, column-major), anything with
two or more colons contributes nothing -/
def flatRef (ref : List Char) : Except Err (List Cell) :=
  match splitColon ref with
  | [_] =>
    match cellNameToCoordinates ref with
    | .ok (c, r) => .ok [(c, r)]
    | .error e => .error e
  | [_, _] =>
    match rangeRefToCoordinates ref with
    | .ok q =>
      let (c1, r1, c2, r2) := sortCoordinates q
      .ok (colsUpTo c1 r1 (r2 - r1 + 1).toNat (c2 - c1 + 1).toNat)
    | .error e => .error e
  | _ => .ok []

def flatTokens : List (List Char) → Except Err (List Cell)
  | [] => .ok []
  | t :: ts =>
    match flatRef t with
    | .error e => .error e
    | .ok a =>
      match flatTokens ts with
      | .error e => .error e
      | .ok b => .ok (a ++ b)

/-- `flatSqref` (cells in order of appearance; the per-column grouping is `colRows`) -/
def flatSqref (s : List Char) : Except Err (List Cell) := flatTokens (splitOnSpace s)

/-- remove every occurrence of every cell of `del` (the repaired `inCoordinates` loop) -/
def removeCells (cells del : List Cell) : List Cell := cells.filter (fun c => !del.contains c)

/-- does the rule have a cell in the deleted range? (`hit`) -/
def hits (cells del : List Cell) : Bool := cells.any (fun c => del.contains c)

def insertInt (x : Int) : List Int → List Int
  | [] => [x]
  | y :: ys => if x ≤ y then x :: y :: ys else y :: insertInt x ys

/-- `sort.Ints` / `sort.Slice` by row: ascending, duplicates kept -/
def sortInts (l : List Int) : List Int := l.foldr insertInt []

/-- the run loop of `squashSqref` on the rows of one column: `l`, `r` are the rows at the
indices `l`, `r` of the Go loop (`r` is always the previous element) -/
def squashGo : Int → Int → List Int → List (Int × Int)
  | l, r, [] => [(l, r)]
  | l, r, x :: xs => if x - r > 1 then (l, r) :: squashGo x x xs else squashGo l x xs

def squashRows : List Int → List (Int × Int)
  | [] => []
  | x :: xs => squashGo x x xs

/-- cells denoted by a run (`coordinatesToRangeRef` of its two ends, read back sorted) -/
def runCells (c : Int) (run : Int × Int) : List Cell :=
  let lo := min run.1 run.2
  let hi := max run.1 run.2
  rowsUpTo c lo (hi - lo + 1).toNat

def dedup : List Int → List Int
  | [] => []
  | x :: xs => if xs.contains x then dedup xs else x :: dedup xs

def colRows (cells : List Cell) (c : Int) : List Int := (cells.filter (fun p => p.1 == c)).map (·.2)

/-- one rule after the deletion: the cells its sqref denotes afterwards. A rule without a cell
in the range keeps its sqref text; otherwise the remaining cells are regrouped per column
(columns left to right, rows ascending) and squashed into runs -/
def rewriteRule (cells del : List Cell) : List Cell :=
  if !hits cells del then cells
  else
    let rest := removeCells cells del
    (sortInts (dedup (cells.map (·.1)))).flatMap fun c =>
      (squashRows (sortInts (colRows rest c))).flatMap (runCells c)

/-- Impl: the loop of `DeleteDataValidation` over the stored rules (cells of each rule in
`flatSqref` order): rewritten rules, emptied ones spliced out -/
def deleteRules (rules : List (List Cell)) (del : List Cell) : List (List Cell) :=
  (rules.map (fun r => rewriteRule r del)).filter (fun r => !r.isEmpty)

/-- Spec: every rule keeps exactly its cells outside the deleted range; a rule with none left disappears -/
def Spec.deleteRules (rules : List (List Cell)) (del : List Cell) : List (List Cell) :=
  (rules.map (fun r => r.filter (fun c => !del.contains c))).filter (fun r => !r.isEmpty)

end XlModel.DvDelete
