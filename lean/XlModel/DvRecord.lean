/-
C18 — the data-validation record: the builder methods of `DataValidation`
(NewDataValidation, SetError, SetInput, SetRange with int / string arguments,
SetDropList, SetSqrefDropList), `AddDataValidation` (copy into `xlsxDataValidation`,
formulas as inner XML only when non-empty) and `getDataValidations` (copy back,
formulas decoded).  Core Lean only; enum strings and error styles are regenerated
facts.  Not modelled: float arguments of SetRange (`%.17g`), the x14 `extLst`
variants, and the XML round trip of the stored record.
-/
import XlModel.Settings

namespace XlModel.DvRecord
open XlModel XlModel.Settings

/-- the public `DataValidation` structure (nil pointers are `none`) -/
structure DV where
  allowBlank : Bool
  error : Option (List Char)
  errorStyle : Option (List Char)
  errorTitle : Option (List Char)
  operator : List Char
  prompt : Option (List Char)
  promptTitle : Option (List Char)
  showDropDown : Bool
  showErrorMessage : Bool
  showInputMessage : Bool
  sqref : List Char
  type : List Char
  formula1 : List Char
  formula2 : List Char
  deriving DecidableEq, Repr

/-- the stored `xlsxDataValidation`: formulas are optional inner XML -/
structure XDV where
  allowBlank : Bool
  error : Option (List Char)
  errorStyle : Option (List Char)
  errorTitle : Option (List Char)
  operator : List Char
  prompt : Option (List Char)
  promptTitle : Option (List Char)
  showDropDown : Bool
  showErrorMessage : Bool
  showInputMessage : Bool
  sqref : List Char
  type : List Char
  formula1 : Option (List Char)
  formula2 : Option (List Char)
  deriving DecidableEq, Repr

def newDV (allowBlank : Bool) : DV :=
  ⟨allowBlank, none, none, none, [], none, none, false, false, false, [], [], [], []⟩

/-- the string of enum value `n` (1-based) in a map; a value without entry gives "" -/
def enumName (names : List String) (n : Nat) : List Char :=
  if n = 0 then [] else
  match names[n - 1]? with
  | some s => s.toList
  | none => []

def listType : List Char := enumName Facts.C18.dvTypeNames 5

/-- `SetError`: unknown styles fall back to "stop" -/
def setError (dv : DV) (style : Nat) (title msg : List Char) : DV :=
  let s := if 1 ≤ style ∧ style ≤ 3 then enumName Facts.C18.dvErrorStyles style else enumName Facts.C18.dvErrorStyles 1
  { dv with error := some msg, errorTitle := some title, showErrorMessage := true, errorStyle := some s }

def setInput (dv : DV) (title msg : List Char) : DV :=
  { dv with showInputMessage := true, promptTitle := some title, prompt := some msg }

/-- one argument of `SetRange`: an int is printed in decimal, a string is escaped -/
inductive Arg | int (v : Int) | str (v : List Char)

def genFormula : Arg → List Char
  | .int v => (toString v).toList
  | .str v => escape v

def setRange (dv : DV) (a b : Arg) (t o : Nat) : DV :=
  { dv with formula1 := genFormula a, formula2 := genFormula b,
            type := enumName Facts.C18.dvTypeNames t, operator := enumName Facts.C18.dvOperatorNames o }

def joinKeys : List (List Char) → List Char
  | [] => []
  | [a] => a
  | a :: rest => a ++ ',' :: joinKeys rest

/-- `SetDropList`: `none` = ErrDataValidationFormulaLength (the record is left as it was) -/
def setDropListDV (dv : DV) (keys : List (List Char)) : Option DV :=
  (setDropList (joinKeys keys)).map fun f => { dv with type := listType, formula1 := f }

def setSqrefDropList (dv : DV) (s : List Char) : DV :=
  { dv with formula1 := escape s, type := listType }

/-- `AddDataValidation`: the stored copy -/
def addDV (dv : DV) : XDV :=
  ⟨dv.allowBlank, dv.error, dv.errorStyle, dv.errorTitle, dv.operator, dv.prompt, dv.promptTitle,
   dv.showDropDown, dv.showErrorMessage, dv.showInputMessage, dv.sqref, dv.type,
   if dv.formula1.isEmpty then none else some dv.formula1,
   if dv.formula2.isEmpty then none else some dv.formula2⟩

/-- `getDataValidations` for one stored rule (no x14 sqref) -/
def getDV (x : XDV) : DV :=
  ⟨x.allowBlank, x.error, x.errorStyle, x.errorTitle, x.operator, x.prompt, x.promptTitle,
   x.showDropDown, x.showErrorMessage, x.showInputMessage, x.sqref, x.type,
   match x.formula1 with
   | some c => getFormula (x.type == listType) c
   | none => [],
   match x.formula2 with
   | some c => getFormula false c
   | none => []⟩

end XlModel.DvRecord
