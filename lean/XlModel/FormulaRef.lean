/-
Model of the formula-reference rewriter of adjust.go (C07).

`Impl` transcribes `adjustFormulaColumnName`, `adjustFormulaRowNumber`,
`adjustFormulaOperandRef`, `adjustFormulaOperand` (character automaton with `$`
tracking), `escapeSheetName`, `transformParenthesesToken` and the token loop of
`adjustFormulaRef`. Go strings are byte sequences (`List Char` of byte values);
the automaton ranges over runes in Go, but every branch except the default one
only accepts ASCII, and the default branch copies the rune, so for valid UTF-8
the byte-wise run produces the same output. efp tokens are an input.

`Spec` is a reference AST (cell / range / whole columns / whole rows, every
endpoint with its `$` flag), its denotation as a set of grid positions, and
`shiftRef`, the relocation of a reference under insertion/deletion of rows or
columns, plus a token-level rewriter that is independent of the automaton.
-/
import XlModel.Ref
import XlModel.Generated.FactsC07

namespace XlModel.FormulaRef
open XlModel XlModel.Ref

abbrev Str := List Char

inductive Dir | cols | rows
  deriving DecidableEq, Repr

/-- `adjustHelper`'s parameters: direction, first affected index, signed count
(`offset > 0` inserts, `offset < 0` deletes `-offset` rows/columns starting at `num`). -/
structure Edit where
  dir : Dir
  num : Int
  off : Int
  deriving DecidableEq, Repr

/-! ### efp tokens (input) -/

inductive TType | operand | function | subexpr | argument | prefix | infix | postfix | whitespace | unknown | noop
  deriving DecidableEq, Repr

inductive TSub | none | start | stop | text | number | logical | error | range | math | concat | intersect | union
  deriving DecidableEq, Repr

structure Token where
  tv : Str
  ty : TType
  sub : TSub
  deriving DecidableEq, Repr

namespace Impl

/-! #### character classes of the operand automaton (constants from the source) -/

def isDollarC (c : Char) : Bool := c.toNat == Facts.C07.dollar
def isColC (c : Char) : Bool :=
  (Facts.C07.upperLo ≤ c.toNat && c.toNat ≤ Facts.C07.upperHi) ||
  (Facts.C07.lowerLo ≤ c.toNat && c.toNat ≤ Facts.C07.lowerHi)
def isRowC (c : Char) : Bool := Facts.C07.digitLo ≤ c.toNat && c.toNat ≤ Facts.C07.digitHi

/-- `strconv.Atoi` with the error dropped (`row, _ := strconv.Atoi(name)`): on a
range error Go returns the saturated value. `name` is a non-empty digit string
whenever the automaton calls this. -/
def atoiSat (s : Str) : Int :=
  match digitsVal s with
  | some v => if v < 9223372036854775808 then (v : Int) else 9223372036854775807
  | none => 0

/-- `adjustFormulaColumnName`: returns the new operand and the new `abs`. -/
def adjCol (kr : Bool) (e : Edit) (name op : Str) (abs : Bool) : Except Err (Str × Bool) :=
  if name.isEmpty || (!abs && kr) then .ok (op ++ name, abs) else
  match columnNameToNumber name with
  | .error er => .error er
  | .ok col =>
    if e.dir = .cols ∧ col ≥ e.num then
      let c1 := wrap64 (col + e.off)
      let c2 := if c1 < Facts.C07.colFloor then Facts.C07.colFloorSet else c1
      match columnNumberToName c2 with
      | .error er => .error er
      | .ok nm => .ok (op ++ nm, false)
    else .ok (op ++ name, false)

/-- `adjustFormulaRowNumber` -/
def adjRow (kr : Bool) (e : Edit) (name op : Str) (abs : Bool) : Except Err (Str × Bool) :=
  if name.isEmpty || (!abs && kr) then .ok (op ++ name, abs) else
  let row := atoiSat name
  if e.dir = .rows ∧ row ≥ e.num then
    let r1 := wrap64 (row + e.off)
    let r2 := if r1 < Facts.C07.rowFloor then Facts.C07.rowFloorSet else r1
    if r2 > (Facts.TotalRows : Int) then .error .maxRows
    else .ok (op ++ itoaInt r2, false)
  else .ok (op ++ name, false)

/-- state of the automaton: pending column letters, pending row digits, output, `abs` -/
structure St where
  col : Str
  row : Str
  op : Str
  abs : Bool
  deriving DecidableEq, Repr

/-- flush the pending column name (`col` becomes empty) -/
def flushCol (kr : Bool) (e : Edit) (s : St) : Except Err St :=
  match adjCol kr e s.col s.op s.abs with
  | .error er => .error er
  | .ok (op, abs) => .ok { s with col := [], op := op, abs := abs }

/-- flush the pending row number (`row` becomes empty) -/
def flushRow (kr : Bool) (e : Edit) (s : St) : Except Err St :=
  match adjRow kr e s.row s.op s.abs with
  | .error er => .error er
  | .ok (op, abs) => .ok { s with row := [], op := op, abs := abs }

/-- `adjustFormulaOperandRef`: column then row -/
def flushBoth (kr : Bool) (e : Edit) (s : St) : Except Err St :=
  match flushCol kr e s with
  | .error er => .error er
  | .ok s1 => flushRow kr e s1

/-- one iteration of `for _, r := range cell` -/
def step (kr : Bool) (e : Edit) (s : St) (c : Char) : Except Err St :=
  if isDollarC c then
    -- the `abs` returned by adjustFormulaColumnName is discarded, then set
    match flushCol kr e s with
    | .error er => .error er
    | .ok s1 => .ok { s1 with abs := true, op := s1.op ++ [c] }
  else if isColC c then .ok { s with col := s.col ++ [c] }
  else if isRowC c then flushCol kr e { s with row := s.row ++ [c] }
  else
    match flushBoth kr e s with
    | .error er => .error er
    | .ok s1 => .ok { s1 with op := s1.op ++ [c] }

def scan (kr : Bool) (e : Edit) : St → Str → Except Err St
  | s, [] => .ok s
  | s, c :: cs =>
    match step kr e s c with
    | .error er => .error er
    | .ok s1 => scan kr e s1 cs

/-- the loop of `adjustFormulaOperand` plus the final flush, starting with output `op0` -/
def adjustCell (kr : Bool) (e : Edit) (op0 cell : Str) : Except Err Str :=
  match scan kr e { col := [], row := [], op := op0, abs := false } cell with
  | .error er => .error er
  | .ok s =>
    match flushBoth kr e s with
    | .error er => .error er
    | .ok s1 => .ok s1.op

/-- `strings.Split(s, sep)` for a one-byte separator -/
def splitOnAux (d : Nat) : Str → Str → List Str
  | cur, [] => [cur.reverse]
  | cur, c :: cs => if c.toNat == d then cur.reverse :: splitOnAux d [] cs else splitOnAux d (c :: cur) cs

def splitOn (d : Nat) (s : Str) : List Str := splitOnAux d [] s

/-- `unicode.IsLetter(r) || unicode.IsNumber(r)` seen byte-wise: ASCII letters and
digits, and every byte of a multi-byte rune (the correspondence only uses
non-ASCII runes that are letters or numbers; other non-ASCII runes are outside
the model). -/
def isWordByte (c : Char) : Bool := isLetter c || isDigit c || 128 ≤ c.toNat

/-- `strings.ReplaceAll(s, q, qq)` for a one-byte `q` -/
def doubleQ (q : Nat) : Str → Str
  | [] => []
  | c :: cs => if c.toNat == q then c :: c :: doubleQ q cs else c :: doubleQ q cs

/-- `needQuoteSheetName`: a name made of letters and numbers that still needs quotes — it starts
with a number (byte-wise: an ASCII digit), reads as a cell reference, or is a boolean -/
def needQuote (name : Str) : Bool :=
  match name with
  | [] => false
  | c :: _ =>
    isDigit c ||
    (match cellNameToCoordinates name with | .ok _ => true | .error _ => false) ||
    name.map toUpper == ['T', 'R', 'U', 'E'] || name.map toUpper == ['F', 'A', 'L', 'S', 'E']

/-- `escapeSheetName` -/
def escapeSheetName (name : Str) : Str :=
  if name.all isWordByte && !needQuote name then name
  else [Char.ofNat Facts.C07.sheetQuote] ++ doubleQ Facts.C07.sheetQuote name ++ [Char.ofNat Facts.C07.sheetQuote]

/-- `adjustFormulaOperand`: the sheet name is what precedes the LAST separator
(`strings.LastIndex(token.TValue, "!")`) -/
def adjustOperand (sheet sheetN : Str) (kr : Bool) (e : Edit) (tv : Str) : Except Err Str :=
  let idx := lastIdx (fun c => c.toNat == Facts.C07.sheetSep) tv
  let sheetName : Str := match idx with | some i => tv.take i | none => []
  let cell : Str := match idx with | some i => tv.drop (i + 1) | none => tv
  let op0 : Str := match idx with
    | some _ => escapeSheetName sheetName ++ [Char.ofNat Facts.C07.sheetSep]
    | none => []
  let sheetName := if sheetName.isEmpty then sheetN else sheetName
  if sheet ≠ sheetName then .ok (op0 ++ cell) else adjustCell kr e op0 cell

/-- `transformParenthesesToken` -/
def paren (t : Token) : Str :=
  if (t.ty = .function ∧ t.sub = .start) ∨ (t.ty = .subexpr ∧ t.sub = .start) then t.tv ++ ['(']
  else if (t.ty = .function ∧ t.sub = .stop) ∨ (t.ty = .subexpr ∧ t.sub = .stop) then t.tv ++ [')']
  else []

def containsBracket (s : Str) : Bool := s.any (fun c => c.toNat == 91 || c.toNat == 93)

def quoteText (s : Str) : Str :=
  [Char.ofNat Facts.C07.textQuote] ++ doubleQ Facts.C07.textQuote s ++ [Char.ofNat Facts.C07.textQuote]

/-- what one token that is not an adjusted range operand contributes to the output -/
def verbatim (t : Token) : Str :=
  if paren t ≠ [] then paren t
  else if t.ty = .operand ∧ t.sub = .text then quoteText t.tv
  else if t.ty = .infix ∧ t.sub = .intersect then [' ']
  else t.tv

structure Env where
  sheet : Str      -- the sheet being edited
  sheetN : Str     -- the sheet holding the formula ("" for defined names)
  kr : Bool        -- keepRelative
  e : Edit
  names : List Str -- defined names in scope (exact match)
  formula : Str    -- the original text (returned when a token is Unknown)

/-- is this token rewritten by `adjustFormulaOperand`? -/
def isAdjusted (env : Env) (t : Token) : Bool :=
  t.ty = .operand ∧ t.sub = .range ∧ !env.names.contains t.tv ∧ !containsBracket t.tv

/-! #### array constants: efp turns `{1,2;3,4}` into `ARRAY(ARRAYROW(1,2),ARRAYROW(3,4))` -/

inductive AKind | paren | arr | row
  deriving DecidableEq, Repr

def sARRAY : Str := ['A', 'R', 'R', 'A', 'Y']
def sARRAYROW : Str := ['A', 'R', 'R', 'A', 'Y', 'R', 'O', 'W']

def isStartTok (t : Token) : Bool := (t.ty = .function ∨ t.ty = .subexpr) ∧ t.sub = .start
def isStopTok (t : Token) : Bool := (t.ty = .function ∨ t.ty = .subexpr) ∧ t.sub = .stop
def isArrayStart (t : Token) : Bool := t.ty = .function ∧ t.sub = .start ∧ t.tv = sARRAY
def isRowStart : List Token → Bool
  | t :: _ => t.ty = .function ∧ t.sub = .start ∧ t.tv = sARRAYROW
  | [] => false
def isArgTok : List Token → Bool
  | t :: _ => t.ty = .argument
  | [] => false

/-- `arrayConstantTokens`: for every token, the text it is replaced by when it is a brace or a row
separator of an array constant (`none` = not part of one). `st` is the stack of open
functions/subexpressions, `pend` the mark the previous token put on this one (`res[i+1] = ";"`). -/
def arrayMarks : List AKind → Option Str → List Token → List (Option Str)
  | _, _, [] => []
  | st, pend, t :: ts =>
    if isStartTok t then
      if isArrayStart t && isRowStart ts then some ['{'] :: arrayMarks (.arr :: st) none ts
      else if isRowStart (t :: ts) && st.head? == some .arr then some [] :: arrayMarks (.row :: st) none ts
      else pend :: arrayMarks (.paren :: st) none ts
    else if isStopTok t then
      match st with
      | [] => pend :: arrayMarks [] none ts
      | .arr :: st' => some ['}'] :: arrayMarks st' none ts
      | .row :: st' =>
        some [] :: arrayMarks st' (if isArgTok ts && isRowStart (ts.drop 1) then some [';'] else none) ts
      | .paren :: st' => pend :: arrayMarks st' none ts
    else pend :: arrayMarks st none ts

/-- the token loop of `adjustFormulaRef`: result text so far and the error, if any
(Go returns `val, err`; on an Unknown token `formula, nil`). `ms` are the array-constant marks. -/
def adjustRefLoop (env : Env) : Str → List (Option Str) → List Token → Str × Option Err
  | val, _, [] => (val, none)
  | val, ms, t :: ts =>
    if t.ty = .unknown then (env.formula, none)
    else
      match ms.headD none with
      | some txt => adjustRefLoop env (val ++ txt) ms.tail ts
      | none =>
        if t.ty = .operand ∧ t.sub = .range then
          if env.names.contains t.tv then adjustRefLoop env (val ++ t.tv) ms.tail ts
          else if containsBracket t.tv then adjustRefLoop env (val ++ t.tv) ms.tail ts
          else
            match adjustOperand env.sheet env.sheetN env.kr env.e t.tv with
            | .error er => (val, some er)
            | .ok o => adjustRefLoop env (val ++ o) ms.tail ts
        else adjustRefLoop env (val ++ verbatim t) ms.tail ts

def adjustRef (env : Env) (toks : List Token) : Str × Option Err :=
  adjustRefLoop env [] (arrayMarks [] none toks) toks

/-- one iteration of the loop of `adjustDefinedNames`: the name's text is rewritten with
`keepRelative = true` and an empty formula sheet; when the rewrite fails the text is kept -/
def adjustDefinedName (sheet : Str) (e : Edit) (names : List Str) (d : Str × List Token) : Str :=
  match adjustRef ⟨sheet, [], true, e, names, d.1⟩ d.2 with
  | (val, none) => val
  | (_, some _) => d.1

/-- `adjustDefinedNames`: the loop goes over ALL names of the workbook, a failure does not end it -/
def adjustDefinedNames (sheet : Str) (e : Edit) (names : List Str) (ds : List (Str × List Token)) : List Str :=
  ds.map (adjustDefinedName sheet e names)

/-! #### shared formulas: `parseSharedFormula` / `shiftCell` (cell.go), used by `getSharedFormula`
and, since the repair, by `expandSharedFormulas` before every structural edit -/

def joinColon : List Str → Str
  | [] => []
  | [a] => a
  | a :: rest => a ++ [':'] ++ joinColon rest

def okOr {α : Type} (d : α) : Except Err α → α
  | .ok a => a
  | .error _ => d

/-- one `:`-separated part of an operand in `shiftCell` -/
def shiftPart (dCol dRow : Int) (cell : Str) : Str :=
  let t := cell.filter (fun c => !isDollar c)
  let pre := firstIdx isDollar cell == some 0          -- strings.Index(cell, "$") == 0 / HasPrefix
  match cellNameToCoordinates t with
  | .ok (c, r) =>
    let absCol := pre
    let absRow := match lastIdx isDollar cell with | some i => decide (0 < i) | none => false
    if !absCol && !absRow then
      -- `parts[j], _ = CoordinatesToCellName(…)`: the error is dropped, and on a column error the
      -- function still returns the row digits
      (match coordinatesToCellName (c + dCol) (r + dRow) false with
       | .ok nm => nm
       | .error _ =>
         if c + dCol < 1 || r + dRow < 1 || r + dRow > (Facts.TotalRows : Int) then [] else itoaInt (r + dRow))
    else if !absCol && absRow then okOr [] (columnNumberToName (c + dCol)) ++ ['$'] ++ itoaInt r
    else if absCol && !absRow then ['$'] ++ okOr [] (columnNumberToName c) ++ itoaInt (r + dRow)
    else cell
  | .error _ =>
    match columnNameToNumber t with
    | .ok c =>
      if !pre then okOr [] (columnNumberToName (c + dCol))
      else cell    -- strconv.Atoi of letters fails
    | .error _ =>
      match atoi t with
      | some r => if !pre then itoaInt (r + dRow) else cell
      | none => cell

/-- `shiftCell` -/
def shiftCell (dCol dRow : Int) (val : Str) : Str :=
  joinColon ((splitColon val).map (shiftPart dCol dRow))

/-- `efp.Parser.Render` on one token (text is NOT re-escaped by efp) -/
def efpRender (t : Token) : Str :=
  if t.ty = .function ∧ t.sub = .start then t.tv ++ ['(']
  else if t.ty = .function ∧ t.sub = .stop then [')']
  else if t.ty = .subexpr ∧ t.sub = .start then ['(']
  else if t.ty = .subexpr ∧ t.sub = .stop then [')']
  else if t.ty = .operand ∧ t.sub = .text then ['"'] ++ t.tv ++ ['"']
  else if t.ty = .infix ∧ t.sub = .intersect then [' ']
  else t.tv

/-- `parseSharedFormula`: the text of the cell at offset `(dCol,dRow)` from the master cell -/
def parseSharedFormula (dCol dRow : Int) (toks : List Token) : Str :=
  (toks.map (fun t =>
    if t.ty = .operand ∧ t.sub = .range then efpRender { t with tv := shiftCell dCol dRow t.tv }
    else efpRender t)).flatten

/-! #### data-validation formulas: stored XML-escaped, rewritten unescaped (`adjustDataValidations`) -/

/-- `formulaEscaper.Replace` (`&`, `<`, `>`) -/
def escapeXML : Str → Str
  | [] => []
  | c :: cs =>
    if c = '&' then ['&', 'a', 'm', 'p', ';'] ++ escapeXML cs
    else if c = '<' then ['&', 'l', 't', ';'] ++ escapeXML cs
    else if c = '>' then ['&', 'g', 't', ';'] ++ escapeXML cs
    else c :: escapeXML cs

/-- `formulaUnescaper.Replace` (`&amp;`, `&lt;`, `&gt;`; a generic `strings.Replacer`: at each
position the first matching pattern, otherwise the byte is copied) -/
def unescapeXML : Str → Str
  | [] => []
  | '&' :: 'a' :: 'm' :: 'p' :: ';' :: rest => '&' :: unescapeXML rest
  | '&' :: 'l' :: 't' :: ';' :: rest => '<' :: unescapeXML rest
  | '&' :: 'g' :: 't' :: ';' :: rest => '>' :: unescapeXML rest
  | c :: cs => c :: unescapeXML cs

def sQuot : Str := ['&', 'q', 'u', 'o', 't', ';']

/-- `(*xlsxInnerXML).isFormula`: not a quoted literal list (`&quot;…&quot;`) -/
def isFormulaDV (content : Str) : Bool :=
  !(sQuot.isPrefixOf content && sQuot.isSuffixOf content)

/-- one formula of a data validation in `adjustDataValidations`: `toks` are efp's tokens of the
unescaped content. `none` = the rewrite failed (the whole adjustment is aborted with that error). -/
def adjustDV (env : Env) (content : Str) (toks : List Token) : Option Str :=
  if isFormulaDV content then
    match adjustRef { env with formula := unescapeXML content } toks with
    | (val, none) => some (escapeXML val)
    | (_, some _) => none
  else some content

end Impl

/-- the indices `a, a+1, …, b` -/
def idxs (a b : Nat) : List Nat := List.range' a (b + 1 - a)

/-- the cells `(col,row)` of a rectangle in row-major order (the order in which calc.go's range
resolution lists them) -/
def cellsOf (c1 r1 c2 r2 : Nat) : List (Nat × Nat) :=
  (idxs r1 r2).flatMap (fun row => (idxs c1 c2).map (fun col => (col, row)))

namespace Spec

structure ColEnd where
  abs : Bool
  n : Nat
  deriving DecidableEq, Repr

structure RowEnd where
  abs : Bool
  n : Nat
  deriving DecidableEq, Repr

/-- the reference grammar of the property -/
inductive Ref
  | cell (c : ColEnd) (r : RowEnd)
  | range (c1 : ColEnd) (r1 : RowEnd) (c2 : ColEnd) (r2 : RowEnd)
  | cols (c1 c2 : ColEnd)
  | rows (r1 r2 : RowEnd)
  deriving DecidableEq, Repr

def dollarIf (b : Bool) : Str := if b then ['$'] else []
def renderCol (c : ColEnd) : Str := dollarIf c.abs ++ numToName c.n
def renderRow (r : RowEnd) : Str := dollarIf r.abs ++ itoa r.n

def render : Ref → Str
  | .cell c r => renderCol c ++ renderRow r
  | .range c1 r1 c2 r2 => renderCol c1 ++ renderRow r1 ++ [':'] ++ (renderCol c2 ++ renderRow r2)
  | .cols c1 c2 => renderCol c1 ++ [':'] ++ renderCol c2
  | .rows r1 r2 => renderRow r1 ++ [':'] ++ renderRow r2

def colOk (c : ColEnd) : Prop := 1 ≤ c.n ∧ c.n ≤ Facts.MaxColumns
def rowOk (r : RowEnd) : Prop := 1 ≤ r.n ∧ r.n ≤ Facts.TotalRows

instance (c : ColEnd) : Decidable (colOk c) := by unfold colOk; infer_instance
instance (r : RowEnd) : Decidable (rowOk r) := by unfold rowOk; infer_instance

/-- every endpoint lies in the grid -/
def inGrid : Ref → Prop
  | .cell c r => colOk c ∧ rowOk r
  | .range c1 r1 c2 r2 => colOk c1 ∧ rowOk r1 ∧ colOk c2 ∧ rowOk r2
  | .cols c1 c2 => colOk c1 ∧ colOk c2
  | .rows r1 r2 => rowOk r1 ∧ rowOk r2

instance (r : Ref) : Decidable (inGrid r) := by cases r <;> unfold inGrid <;> infer_instance

/-- where index `i` goes under "insert/delete at `num`, count `off`": `none` = deleted -/
def shiftIdx (num off : Int) (i : Nat) : Option Nat :=
  if (i : Int) < num then some i
  else if 0 ≤ off then some ((i : Int) + off).toNat
  else if num - off ≤ (i : Int) then some ((i : Int) + off).toNat
  else none

/-- does the edit move this coordinate? (`keepRelative`: only `$` coordinates move) -/
def moves (kr abs : Bool) : Bool := abs || !kr

def shiftCol (kr : Bool) (e : Edit) (c : ColEnd) : Option ColEnd :=
  if e.dir = .cols ∧ moves kr c.abs then (shiftIdx e.num e.off c.n).map (fun n => { c with n := n }) else some c

def shiftRow (kr : Bool) (e : Edit) (r : RowEnd) : Option RowEnd :=
  if e.dir = .rows ∧ moves kr r.abs then (shiftIdx e.num e.off r.n).map (fun n => { r with n := n }) else some r

/-- relocation of a reference; `none` when an endpoint lies in a deleted row/column -/
def shiftRef (kr : Bool) (e : Edit) : Ref → Option Ref
  | .cell c r =>
    match shiftCol kr e c, shiftRow kr e r with
    | some c', some r' => some (.cell c' r')
    | _, _ => none
  | .range c1 r1 c2 r2 =>
    match shiftCol kr e c1, shiftRow kr e r1, shiftCol kr e c2, shiftRow kr e r2 with
    | some a, some b, some c, some d => some (.range a b c d)
    | _, _, _, _ => none
  | .cols c1 c2 =>
    match shiftCol kr e c1, shiftCol kr e c2 with
    | some a, some b => some (.cols a b)
    | _, _ => none
  | .rows r1 r2 =>
    match shiftRow kr e r1, shiftRow kr e r2 with
    | some a, some b => some (.rows a b)
    | _, _ => none

/-! #### what the code does with every index, deleted or not -/

/-- indices at or after `num` move by `off` and are floored at 1: a total function. It agrees with
`shiftIdx` wherever that is defined; an index inside a deleted block slides towards the block's
upper neighbour instead of becoming `#REF!`. -/
def slideIdx (num off : Int) (i : Nat) : Nat :=
  if (i : Int) < num then i else (max 1 ((i : Int) + off)).toNat

def slideCol (kr : Bool) (e : Edit) (c : ColEnd) : ColEnd :=
  if e.dir = .cols ∧ moves kr c.abs then { c with n := slideIdx e.num e.off c.n } else c

def slideRow (kr : Bool) (e : Edit) (r : RowEnd) : RowEnd :=
  if e.dir = .rows ∧ moves kr r.abs then { r with n := slideIdx e.num e.off r.n } else r

def slideRef (kr : Bool) (e : Edit) : Ref → Ref
  | .cell c r => .cell (slideCol kr e c) (slideRow kr e r)
  | .range c1 r1 c2 r2 => .range (slideCol kr e c1) (slideRow kr e r1) (slideCol kr e c2) (slideRow kr e r2)
  | .cols c1 c2 => .cols (slideCol kr e c1) (slideCol kr e c2)
  | .rows r1 r2 => .rows (slideRow kr e r1) (slideRow kr e r2)

/-- the cells a reference denotes: positions `(col,row)` of the grid -/
def denote : Ref → Nat × Nat → Prop
  | .cell c r => fun p => p.1 = c.n ∧ p.2 = r.n
  | .range c1 r1 c2 r2 => fun p =>
      min c1.n c2.n ≤ p.1 ∧ p.1 ≤ max c1.n c2.n ∧ min r1.n r2.n ≤ p.2 ∧ p.2 ≤ max r1.n r2.n
  | .cols c1 c2 => fun p =>
      min c1.n c2.n ≤ p.1 ∧ p.1 ≤ max c1.n c2.n ∧ 1 ≤ p.2 ∧ p.2 ≤ Facts.TotalRows
  | .rows r1 r2 => fun p =>
      min r1.n r2.n ≤ p.2 ∧ p.2 ≤ max r1.n r2.n ∧ 1 ≤ p.1 ∧ p.1 ≤ Facts.MaxColumns

/-- where a grid position goes under the edit (`none` = the cell is deleted) -/
def shiftPos (e : Edit) (p : Nat × Nat) : Option (Nat × Nat) :=
  match e.dir with
  | .cols => (shiftIdx e.num e.off p.1).map (fun c => (c, p.2))
  | .rows => (shiftIdx e.num e.off p.2).map (fun r => (p.1, r))

/-! #### parser for the reference grammar (inverse of `render`; accepts either case, leading zeros) -/

def headDollar (s : Str) : Bool := match s with | c :: _ => isDollar c | [] => false
def stripDollar (s : Str) : Str := if headDollar s then s.drop 1 else s

/-- `$?digits` -/
def parseRowPart (s : Str) : Option RowEnd :=
  (digitsVal (stripDollar s)).map (fun n => ⟨headDollar s, n⟩)

/-- what follows the optional leading `$` of an endpoint -/
def parseEndCore (d1 : Bool) (s1 : Str) : Option (Option ColEnd × Option RowEnd) :=
  let letters := s1.takeWhile isLetter
  let s2 := s1.dropWhile isLetter
  if letters.isEmpty then (digitsVal s1).map (fun n => (none, some ⟨d1, n⟩))
  else
    match colRaw letters with
    | none => none
    | some cn =>
      if s2.isEmpty then some (some ⟨d1, cn⟩, none)
      else (parseRowPart s2).map (fun r => (some ⟨d1, cn⟩, some r))

/-- one endpoint: optional `$`, letters, optional `$`, digits; either part may be missing -/
def parseEnd (s : Str) : Option (Option ColEnd × Option RowEnd) :=
  parseEndCore (headDollar s) (stripDollar s)

def parseRef (s : Str) : Option Ref :=
  match splitColon s with
  | [a] =>
    match parseEnd a with
    | some (some c, some r) => some (.cell c r)
    | _ => none
  | [a, b] =>
    match parseEnd a, parseEnd b with
    | some (some c1, some r1), some (some c2, some r2) => some (.range c1 r1 c2 r2)
    | some (some c1, none), some (some c2, none) => some (.cols c1 c2)
    | some (none, some r1), some (none, some r2) => some (.rows r1 r2)
    | _, _ => none
  | _ => none

/-! #### token-level reference rewriter (independent of the automaton) -/

/-- split `sheet!ref` at the last `!` -/
def splitSheet (tv : Str) : Option Str × Str :=
  match lastIdx (fun c => c.toNat == 33) tv with
  | some i => (some (tv.take i), tv.drop (i + 1))
  | none => (none, tv)

inductive Out
  | same            -- not a reference to the edited sheet / not in the grammar: unchanged
  | moved (r : Ref) -- relocated reference
  | deleted         -- an endpoint lies in a deleted row/column
  | offGrid         -- relocation leaves the grid
  deriving DecidableEq, Repr

def rewriteCell (kr : Bool) (e : Edit) (cell : Str) : Out :=
  match parseRef cell with
  | none => .same
  | some r =>
    match shiftRef kr e r with
    | none => .deleted
    | some r' => if inGrid r' then .moved r' else .offGrid

/-- target sheet and outcome for one range-operand token value -/
def rewriteOperand (sheet sheetN : Str) (kr : Bool) (e : Edit) (tv : Str) : Out :=
  let (pfx, cell) := splitSheet tv
  let target := match pfx with | some p => p | none => sheetN
  if target = sheet then rewriteCell kr e cell else .same

/-- the token value the property demands (sheet prefix kept as tokenised, i.e. unquoted) -/
def expectTv (sheet sheetN : Str) (kr : Bool) (e : Edit) (tv : Str) : Out × Str :=
  match rewriteOperand sheet sheetN kr e tv with
  | .moved r =>
    let (pfx, _) := splitSheet tv
    (.moved r, (match pfx with | some p => p ++ ['!'] | none => []) ++ render r)
  | o => (o, tv)

/-- the token value the code produces whether or not an endpoint is deleted (`none`: leaves the grid) -/
def expectSlide (sheet sheetN : Str) (kr : Bool) (e : Edit) (tv : Str) : Option Str :=
  let (pfx, cell) := splitSheet tv
  let target := match pfx with | some p => p | none => sheetN
  if target = sheet then
    match parseRef cell with
    | none => some tv
    | some r =>
      let r' := slideRef kr e r
      if inGrid r' then some ((match pfx with | some p => p ++ ['!'] | none => []) ++ render r') else none
  else some tv

/-- the cells of a reference in the order calc.go's `rangeResolver` reads them: corners sorted
(`sortCoordinates`), then row by row, left to right. Only cells and ranges (whole rows/columns are
clipped to the sheet's used area by calc.go and are not enumerated here). -/
def refCells : Ref → List (Nat × Nat)
  | .cell c r => [(c.n, r.n)]
  | .range c1 r1 c2 r2 => cellsOf (min c1.n c2.n) (min r1.n r2.n) (max c1.n c2.n) (max r1.n r2.n)
  | _ => []

end Spec

end XlModel.FormulaRef
