/-
Model of the worksheet cell grid and of the merge rectangles (property C03).

`Impl` part (namespace `XlModel.Grid`): a transcription of
  sheet.go  prepareSheetXML, fillColumns, makeContiguousColumns
  cell.go   prepareCell, mergeCellsParser, cellInRange, isOverlap, getCellStringFunc,
            the cell-level effect of SetCellInt/Uint/Bool/Float/Str/Default/RichText,
            SetCellFormula (normal formulas), setCellTimeFunc's placement
  styles.go SetCellStyle, GetCellStyle (read-only through ws.getCell)
  merge.go  MergeCell, UnmergeCell, GetMergeCells' normalisation: flatMergedCells (fixpoint of
            absorbing overlapping ranges into their bounding box), mergeOverlapCells, mergeCell
over the dense representation `rows : List Row`, `Row.cells : List Cell`.

Coordinates are the *decoded* 1-based (col,row) of `CellNameToCoordinates`; the string
layer is `XlModel.Ref` (C20) and is applied by the driver. A coordinate 0 stands for
"the reference did not decode": every entry point rejects it exactly where the Go code
returns the decoder's error.  Cell payloads (type tag, value text, inline string,
formula text) are opaque tokens: payload *conversion* is not modelled here.

The comparison tables of cellInRange / isOverlap / mergeCell, the two densification
guards, and the per-setter skeleton (removeFormula? clears IS?) are read from
`XlModel.Facts.C03`, regenerated from the Go source on every run.

`Spec` part (namespace `XlModel.Grid.Spec`): a total map position → content with
function update, anchor redirect and the same merge list.

Core Lean only; list functions used on the row list are the core ones with
tail-recursive implementations (`++`, `map`, `range'`, `set`, `foldl`, `findSome?`) so
that a sheet with 1 048 576 row slots can be executed by the driver.
-/
import XlModel.Basic
import XlModel.Ref
import XlModel.Generated.FactsC03

namespace XlModel.Grid
open XlModel

abbrev Tok := String

/-- stored content of one `xlsxC` (without its reference): S, T, V, IS, F -/
structure CellV where
  s : Nat := 0
  t : Tok := ""
  v : Tok := ""
  is : Option Tok := none
  f : Option Tok := none
  deriving DecidableEq, Repr, Inhabited

def CellV.blank : CellV := {}

/-- `hasValue() || IS != nil` -/
def CellV.nonBlank (c : CellV) : Bool :=
  c.s != 0 || c.v != "" || c.f.isSome || c.t != "" || c.is.isSome

/-- one `xlsxC`: stored reference `R` (as the coordinates it names) and content -/
structure Cell where
  col : Nat
  row : Nat
  val : CellV
  deriving DecidableEq, Repr

/-- one `xlsxRow`: `R` and `C` -/
structure Row where
  r : Nat
  cells : List Cell
  deriving DecidableEq, Repr

structure Rect where
  c1 : Nat
  r1 : Nat
  c2 : Nat
  r2 : Nat
  deriving DecidableEq, Repr

/-- `rect[i]` -/
def Rect.idx (q : Rect) (i : Nat) : Nat :=
  match i with
  | 0 => q.c1 | 1 => q.r1 | 2 => q.c2 | _ => q.r2

/-- `rect[i] = x` -/
def Rect.setIdx (q : Rect) (i : Nat) (x : Nat) : Rect :=
  match i with
  | 0 => { q with c1 := x } | 1 => { q with r1 := x } | 2 => { q with c2 := x } | _ => { q with r2 := x }

/-- one `*xlsxMergeCell`: `Ref` (as the rectangle it spells) and the cached `rect` -/
structure MObj where
  ref : Rect
  rect : Rect
  deriving DecidableEq, Repr

structure Sheet where
  rows : List Row := []
  merges : List MObj := []
  nStyles : Nat := 1
  /-- the shared string table: one token per `xlsxSI` (plain text or rich runs), append-only -/
  sst : List Tok := []
  deriving Repr

/-- a Go comparison operator read from the facts -/
def cmpOp (op : String) (a b : Nat) : Bool :=
  if op = "<" then decide (a < b)
  else if op = "<=" then decide (a ≤ b)
  else if op = ">" then decide (a > b)
  else if op = ">=" then decide (a ≥ b)
  else if op = "==" then a == b
  else if op = "!=" then a != b
  else false

/-! ### densification (sheet.go) -/

/-- `fillColumns(rowData, col, row)`: the new cells are named after the *parameter* `row` -/
def fillColumns (cells : List Cell) (col row : Nat) : List Cell :=
  if cmpOp Facts.C03.colsGuardOp cells.length col then
    cells ++ (List.range' cells.length (col - cells.length)).map (fun j => Cell.mk (j + 1) row CellV.blank)
  else cells

/-- `l[i] = f(l[i])` when the index exists (the Go code indexes without a guard; the
callers below only use indices that `prepareSheetXML` has just created, see
`Lemmas.Grid.prepare_row_exists`) -/
def modifyAt {α} (l : List α) (i : Nat) (f : α → α) : List α :=
  match l[i]? with
  | some x => l.set i (f x)
  | none => l

/-- the row-append loop of `prepareSheetXML` -/
def extendRows (rows : List Row) (row : Nat) : List Row :=
  if cmpOp Facts.C03.rowsGuardOp rows.length row then
    rows ++ (List.range' rows.length (row - rows.length)).map (fun i => Row.mk (i + 1) [])
  else rows

/-- `ws.prepareSheetXML(col, row)` (row ≥ 1) -/
def prepareSheetXML (rows : List Row) (col row : Nat) : List Row :=
  modifyAt (extendRows rows row) (row - 1) (fun rd => { rd with cells := fillColumns rd.cells col row })

/-- `ws.SheetData.Row[row-1].C[col-1] = f(…)` -/
def setSlot (rows : List Row) (col row : Nat) (f : CellV → CellV) : List Row :=
  modifyAt rows (row - 1) (fun rd =>
    { rd with cells := modifyAt rd.cells (col - 1) (fun c => { c with val := f c.val }) })

/-- `ws.makeContiguousColumns(fromRow, toRow, colCount)` -/
def makeContiguousColumns (rows : List Row) (fromRow toRow colCount : Nat) : List Row :=
  (List.range' fromRow (toRow - fromRow)).foldl
    (fun rs r => modifyAt rs (r - 1) (fun rd => { rd with cells := fillColumns rd.cells colCount r })) rows

/-! ### rectangles (cell.go, merge.go) -/

/-- `cellInRange([]int{c, r}, rect)` interpreted from the extracted comparison table -/
def Rect.contains (q : Rect) (c r : Nat) : Bool :=
  Facts.C03.cellInRangeConds.all fun (i, op, j) => cmpOp op (if i = 0 then c else r) (q.idx j)

/-- `isOverlap(rect1, rect2)`: the comparisons between the coordinates of the two rectangles, read
from the extracted table (an interval intersection test since the fix) -/
def isOverlap (a b : Rect) : Bool :=
  Facts.C03.isOverlapConds.all fun (w, i, op, j) =>
    if w = 1 then cmpOp op (a.idx i) (b.idx j) else cmpOp op (b.idx i) (a.idx j)

/-- the rectangle `mergeCell(cell1, cell2)` builds: element k is `min`/`max` of the k-th coordinates as the
extracted literal says (the bounding box); the arguments are not modified any more -/
def bbox (a b : Rect) : Rect :=
  let el (k : Nat) : Nat :=
    match Facts.C03.mergeCellBox[k]? with
    | some (f, i) => if f = "min" then min (a.idx i) (b.idx i) else max (a.idx i) (b.idx i)
    | none => 0
  ⟨el 0, el 1, el 2, el 3⟩

/-- points of a rectangle in the order of `for col … { for row … }` -/
def colMajor (q : Rect) : List (Nat × Nat) :=
  (List.range' q.c1 (q.c2 + 1 - q.c1)).flatMap fun c => (List.range' q.r1 (q.r2 + 1 - q.r1)).map fun r => (c, r)

/-- points of a rectangle in the order of `for row … { for col … }` -/
def rowMajor (q : Rect) : List (Nat × Nat) :=
  (List.range' q.r1 (q.r2 + 1 - q.r1)).flatMap fun r => (List.range' q.c1 (q.c2 + 1 - q.c1)).map fun c => (c, r)

/-- `sortCoordinates` on decoded corners -/
def sortRect (c1 r1 c2 r2 : Nat) : Rect :=
  { c1 := if c2 < c1 then c2 else c1, c2 := if c2 < c1 then c1 else c2,
    r1 := if r2 < r1 then r2 else r1, r2 := if r2 < r1 then r1 else r2 }

/-- `ws.mergeCellsParser(cell)`: first entry whose cached rect contains the cell
redirects to the first cell of its `Ref`. -/
def anchor (ms : List MObj) (c r : Nat) : Nat × Nat :=
  match ms.find? (fun m => m.rect.contains c r) with
  | some m => (m.ref.c1, m.ref.r1)
  | none => (c, r)

/-! ### the merge normalisation (merge.go: mergeOverlapCells = flatMergedCells)

For every entry in list order: collect the live entries its rectangle overlaps (`isOverlap` against the
rectangle as it is at the start of the round), stop if there are none, otherwise drop them from the live
list, grow the rectangle to the bounding box of all of them (`mergeCell` folded over the hits) and try
again; finally append the entry — the original object if nothing was absorbed, a new one (Ref = the box)
otherwise. The `for { … }` loop is modelled with fuel; `live.length` rounds always suffice because every
round removes at least one live entry (`Lemmas.Grid4.absorb_fuel`). No matrix, no pointer identity. -/

def absorb : Nat → List MObj → MObj → List MObj
  | 0, live, q => live ++ [q]
  | n + 1, live, q =>
    let hit := live.filter fun k => isOverlap q.rect k.rect
    if hit.isEmpty then live ++ [q]
    else
      let box := hit.foldl (fun b k => bbox b k.rect) q.rect
      absorb n (live.filter fun k => !isOverlap q.rect k.rect) ⟨box, box⟩

/-- `f.mergeOverlapCells(ws)` on the merge list -/
def mergeOverlapCells (ms : List MObj) : List MObj :=
  ms.foldl (fun live q => absorb live.length live q) []

/-- two rectangles share a cell (the interval test, Spec side) -/
def meetsB (a b : Rect) : Bool :=
  decide (a.c1 ≤ b.c2 ∧ b.c1 ≤ a.c2 ∧ a.r1 ≤ b.r2 ∧ b.r1 ≤ a.r2)

/-! ### shared formula indices (cell.go: countSharedFormula)

Only the allocation rule is modelled: `setSharedFormula` gives a new group the index `countSharedFormula()`,
which scans every cell and returns (highest index in use) + 1. -/

/-- `countSharedFormula` over the indices in use, in scan order -/
def nextSharedIndex (used : List Nat) : Nat :=
  used.foldl (fun count i => if i + 1 > count then i + 1 else count) 0

/-! ### payloads -/

/-- the Go setter a write goes through; its skeleton is looked up in the facts -/
inductive Setter
  | int | uint | bool | float | str | dflt | rich | time
  deriving DecidableEq, Repr

def Setter.goName : Setter → String
  | .int => "SetCellInt" | .uint => "SetCellUint" | .bool => "SetCellBool" | .float => "SetCellFloat"
  | .str => "SetCellStr" | .dflt => "SetCellDefault" | .rich => "SetCellRichText" | .time => "setCellTimeFunc"

/-- (calls prepareCell, calls prepareCellStyle, calls removeFormula, assigns IS = nil) -/
def Setter.skel (k : Setter) : Bool × Bool × Bool × Bool :=
  match Facts.C03.setterSkel.find? (fun e => e.1 == k.goName) with
  | some e => e.2
  | none => (false, false, false, false)

def Setter.removesFormula (k : Setter) : Bool := k.skel.2.2.1
def Setter.clearsIS (k : Setter) : Bool := k.skel.2.2.2

/-- what a setter stores: `tv` = `c.T, c.V = t, v`; the `setCellDefault` branches
`num` (numeric text: T="", V=v, IS untouched), `inl` (non-numeric text: inline string),
`clr` (empty text / nil). -/
inductive Payload
  | tv (t v : Tok)
  | num (v : Tok)
  | inl (s : Tok)
  | clr
  | sst (e : Tok)     -- SetCellStr / SetCellRichText: intern `e` in the shared string table, store its index
  deriving DecidableEq, Repr

/-- `V` of a shared-string cell: the decimal index, as the hex token the dump prints -/
def idxTok (i : Nat) : Tok := hex (Ref.itoa i)

/-- `setSharedString` / the search loop of `SetCellRichText`: index of an equal item, else append.
(The Go map is looked up by the raw text and filled by the basic-string-escaped text; the two
differ only for `_xHHHH_` look-alikes, which belong to C01.) -/
def intern (sst : List Tok) (e : Tok) : List Tok × Nat :=
  match sst.idxOf? e with
  | some i => (sst, i)
  | none => (sst ++ [e], sst.length)

def Payload.store (p : Payload) (c : CellV) : CellV :=
  match p with
  | .tv t v => { c with t := t, v := v }
  | .num v => { c with t := "", v := v }
  | .inl s => { c with t := Facts.C03.inlineTag, v := "", is := some s }
  | .clr => { c with t := "", v := "", is := none }
  | .sst _ => c   -- resolved to `tv sstTag index` by `setCell`

/-- the effect of one setter call on the cell it addresses -/
def writeCell (k : Setter) (p : Payload) (c : CellV) : CellV :=
  let c1 := p.store c
  let c2 := if k.clearsIS then { c1 with is := none } else c1
  if k.removesFormula then { c2 with f := none } else c2

/-- `c.setCellDefault(""); f.removeFormula(c, …)` as done by `MergeCell` -/
def clearCell (c : CellV) : CellV := { c with t := "", v := "", is := none, f := none }

/-! ### operations -/

inductive Res
  | ok | err | style (n : Nat) | cell (c : Option Cell) | merges (l : List MObj)
  deriving DecidableEq, Repr

/-- `ws.prepareCell(cell)` followed by an update of the returned `*xlsxC` -/
def writeAt (s : Sheet) (c r : Nat) (f : CellV → CellV) : Sheet × Res :=
  if c = 0 ∨ r = 0 then (s, .err) else
  let a := anchor s.merges c r
  if a.1 = 0 ∨ a.2 = 0 then (s, .err) else
  ({ s with rows := setSlot (prepareSheetXML s.rows a.1 a.2) a.1 a.2 f }, .ok)

/-- SetCellInt / Uint / Bool / Float / Str / Default / RichText (cell-level effect) -/
def setCell (s : Sheet) (k : Setter) (c r : Nat) (p : Payload) : Sheet × Res :=
  match p with
  | .sst e =>
    -- prepareCell comes first: a rejected reference leaves the string table alone
    let w := writeAt s c r (writeCell k (.tv Facts.C03.sstTag (idxTok (intern s.sst e).2)))
    if w.2 = .ok then ({ w.1 with sst := (intern s.sst e).1 }, w.2) else (s, w.2)
  | _ => writeAt s c r (writeCell k p)

/-- the shared string item an index token (`V` of a shared-string cell) denotes -/
def sstEntry? (sst : List Tok) (vtok : Tok) : Option Tok :=
  match unhex vtok.toList with
  | some ds => match Ref.digitsVal ds with
    | some i => sst[i]?
    | none => none
  | none => none

/-- the value `SetCellFormula` leaves behind as the cached result (since "SetCellFormula keeps the cell's
text or boolean value readable as the cached result"): a shared string cell gets its text moved into the
cell (`getValueFrom` raw, then `setStr`: T = "str", V = the escaped text, i.e. the item's token without its
kind letter), a boolean keeps its type, everything else is retyped to "str" with V untouched. -/
def formulaRetype (sst : List Tok) (fm : Tok) (v : CellV) : CellV :=
  if v.t = Facts.C03.sstTag then
    let text : Tok :=
      if v.v = "" then "" else
      match sstEntry? sst v.v with
      | some e =>
        let body := String.ofList (e.toList.drop 1)
        if body = "-" then "" else body
      | none => v.v
    { v with f := some fm, t := Facts.C03.formulaTag, v := text, is := none }
  else if v.t = Facts.C03.boolTag then { v with f := some fm, is := none }
  else { v with f := some fm, t := Facts.C03.formulaTag, is := none }

/-- the cell update of `SetCellFormula(sheet, cell, formula)` without options: "" removes the formula and
nothing else -/
def formulaWrite (sst : List Tok) (fm : Tok) (v : CellV) : CellV :=
  if fm = "" then { v with f := none } else formulaRetype sst fm v

def setFormula (s : Sheet) (c r : Nat) (fm : Tok) : Sheet × Res :=
  writeAt s c r (formulaWrite s.sst fm)

/-- `SetCellStyle(sheet, hCell, vCell, styleID)`: no redirect; densifies *before* the
style id is validated. -/
def setStyle (s : Sheet) (c1 r1 c2 r2 : Nat) (id : Nat) : Sheet × Res :=
  if c1 = 0 ∨ r1 = 0 ∨ c2 = 0 ∨ r2 = 0 then (s, .err) else
  let q := sortRect c1 r1 c2 r2
  let rows1 := makeContiguousColumns (prepareSheetXML s.rows q.c2 q.r2) q.r1 q.r2 q.c2
  if s.nStyles ≤ id then ({ s with rows := rows1 }, .err) else
  ({ s with rows := (rowMajor q).foldl (fun rs p => setSlot rs p.1 p.2 (fun v => { v with s := id })) rows1 }, .ok)

/-- `ws.getCell(col, row)`: read-only access by position; `nil` when the row slot or the cell
slot does not exist (`row > len(Row) || col > len(Row[row-1].C)`, evaluated left to right) -/
def getCellAt (rows : List Row) (c r : Nat) : Option Cell :=
  if r > rows.length then none else
  match rows[r - 1]? with
  | some rd => if c > rd.cells.length then none else rd.cells[c - 1]?
  | none => none

/-- `GetCellStyle(sheet, cell)`: no redirect; reads the slot through `ws.getCell` and creates
nothing (style 0 for a slot that does not exist). (Row and column default styles are outside
the model: `prepareCellStyle` is the identity here.) -/
def getStyle (s : Sheet) (c r : Nat) : Sheet × Res :=
  if c = 0 ∨ r = 0 then (s, .err) else
  (s, .style (match getCellAt s.rows c r with
    | some cell => cell.val.s
    | none => 0))

/-- `lastRowNum` of `getCellStringFunc`: the `R` of the last row slot -/
def lastRowNum (rows : List Row) : Nat :=
  match rows.getLast? with
  | some rd => rd.r
  | none => 0

/-- `getCellStringFunc`: redirect, then search the row list for `R == row` and the
cells of such rows for the reference. -/
def getCell (s : Sheet) (c r : Nat) : Res :=
  if c = 0 ∨ r = 0 then .err else
  let a := anchor s.merges c r
  if a.1 = 0 ∨ a.2 = 0 then .err else
  if a.2 > lastRowNum s.rows then .cell none else
  .cell (s.rows.findSome? fun rd =>
    if rd.r = a.2 then rd.cells.find? (fun cell => cell.col = a.1 ∧ cell.row = a.2) else none)

/-- `MergeCell(sheet, hCell, vCell)`: clears every covered cell except the top-left one
(at its own position, no redirect), then appends the range. No normalisation here. -/
def mergeCell (s : Sheet) (c1 r1 c2 r2 : Nat) : Sheet × Res :=
  if c1 = 0 ∨ r1 = 0 ∨ c2 = 0 ∨ r2 = 0 then (s, .err) else
  let q := sortRect c1 r1 c2 r2
  let pts := (colMajor q).filter fun p => !(p.1 = q.c1 ∧ p.2 = q.r1)
  let rows1 := pts.foldl (fun rs p => setSlot (prepareSheetXML rs p.1 p.2) p.1 p.2 clearCell) s.rows
  ({ s with rows := rows1, merges := s.merges ++ [{ ref := q, rect := q }] }, .ok)

/-- `UnmergeCell(sheet, hCell, vCell)` -/
def unmergeCell (s : Sheet) (c1 r1 c2 r2 : Nat) : Sheet × Res :=
  if c1 = 0 ∨ r1 = 0 ∨ c2 = 0 ∨ r2 = 0 then (s, .err) else
  let q := sortRect c1 r1 c2 r2
  if s.merges.isEmpty then (s, .ok) else
  ({ s with merges := (mergeOverlapCells s.merges).filter fun m => !isOverlap q m.ref }, .ok)

/-- what `GetMergeCells` reports: the normalisation of a *copy* of the merge list -/
def reported (s : Sheet) : List MObj := mergeOverlapCells s.merges

/-- `GetMergeCells` reports the normalised ranges. Whether the normalisation also replaces the worksheet's
own list is read from the source (fact `getMergeCellsInPlace`: `mergeOverlapCells(ws)` vs. a copy): with a
copy the call is a pure observation and the stored list may stay un-normalised until `UnmergeCell` or a
save normalise it. -/
def getMerges (s : Sheet) : Sheet × Res :=
  if Facts.C03.getMergeCellsInPlace then ({ s with merges := reported s }, .merges (reported s))
  else (s, .merges (reported s))

inductive Op
  | set (k : Setter) (c r : Nat) (p : Payload)
  | formula (c r : Nat) (fm : Tok)
  | style (c1 r1 c2 r2 id : Nat)
  | getStyle (c r : Nat)
  | merge (c1 r1 c2 r2 : Nat)
  | unmerge (c1 r1 c2 r2 : Nat)
  | getMerges
  deriving Repr

def step (s : Sheet) : Op → Sheet × Res
  | .set k c r p => setCell s k c r p
  | .formula c r fm => setFormula s c r fm
  | .style c1 r1 c2 r2 id => setStyle s c1 r1 c2 r2 id
  | .getStyle c r => getStyle s c r
  | .merge c1 r1 c2 r2 => mergeCell s c1 r1 c2 r2
  | .unmerge c1 r1 c2 r2 => unmergeCell s c1 r1 c2 r2
  | .getMerges => getMerges s

def run (s : Sheet) (ops : List Op) : Sheet := ops.foldl (fun s o => (step s o).1) s

/-- the representation invariant: row slot i holds r = i+1, cell slot j of it holds the
reference of (j+1, i+1) -/
def cellsDenseB (cells : List Cell) (r : Nat) : Bool :=
  cells.map (fun c => (c.col, c.row)) == (List.range' 1 cells.length).map (fun j => (j, r))

def denseB (rows : List Row) : Bool :=
  rows.map (·.r) == List.range' 1 rows.length &&
  rows.all fun rd => cellsDenseB rd.cells rd.r

/-! ## Spec: a total map position → content -/
namespace Spec

structure Sheet where
  g : Nat → Nat → CellV
  merges : List MObj
  nStyles : Nat
  sst : List Tok

def init (n : Nat) : Sheet := ⟨fun _ _ => CellV.blank, [], n, []⟩

/-- function update at one position -/
def upd (g : Nat → Nat → CellV) (c r : Nat) (v : CellV) : Nat → Nat → CellV :=
  fun c' r' => if c' = c ∧ r' = r then v else g c' r'

def writeAt (s : Sheet) (c r : Nat) (f : CellV → CellV) : Sheet × Res :=
  if c = 0 ∨ r = 0 then (s, .err) else
  let a := anchor s.merges c r
  if a.1 = 0 ∨ a.2 = 0 then (s, .err) else
  ({ s with g := upd s.g a.1 a.2 (f (s.g a.1 a.2)) }, .ok)

def step (s : Sheet) : Op → Sheet × Res
  | .set k c r p =>
      match p with
      | .sst e =>
        let w := writeAt s c r (writeCell k (.tv Facts.C03.sstTag (idxTok (intern s.sst e).2)))
        if w.2 = .ok then ({ w.1 with sst := (intern s.sst e).1 }, w.2) else (s, w.2)
      | _ => writeAt s c r (writeCell k p)
  | .formula c r fm => writeAt s c r (formulaWrite s.sst fm)
  | .style c1 r1 c2 r2 id =>
      if c1 = 0 ∨ r1 = 0 ∨ c2 = 0 ∨ r2 = 0 then (s, .err) else
      if s.nStyles ≤ id then (s, .err) else
      let q := sortRect c1 r1 c2 r2
      ({ s with g := fun c r => if q.c1 ≤ c ∧ c ≤ q.c2 ∧ q.r1 ≤ r ∧ r ≤ q.r2 then { s.g c r with s := id } else s.g c r }, .ok)
  | .getStyle c r => if c = 0 ∨ r = 0 then (s, .err) else (s, .style (s.g c r).s)
  | .merge c1 r1 c2 r2 =>
      if c1 = 0 ∨ r1 = 0 ∨ c2 = 0 ∨ r2 = 0 then (s, .err) else
      let q := sortRect c1 r1 c2 r2
      ({ s with
          g := fun c r => if (q.c1 ≤ c ∧ c ≤ q.c2 ∧ q.r1 ≤ r ∧ r ≤ q.r2) ∧ ¬(c = q.c1 ∧ r = q.r1) then clearCell (s.g c r) else s.g c r
          merges := s.merges ++ [{ ref := q, rect := q }] }, .ok)
  | .unmerge c1 r1 c2 r2 =>
      if c1 = 0 ∨ r1 = 0 ∨ c2 = 0 ∨ r2 = 0 then (s, .err) else
      let q := sortRect c1 r1 c2 r2
      if s.merges.isEmpty then (s, .ok) else
      ({ s with merges := (mergeOverlapCells s.merges).filter fun m => !isOverlap q m.ref }, .ok)
  | .getMerges =>
      if Facts.C03.getMergeCellsInPlace then ({ s with merges := mergeOverlapCells s.merges }, .merges (mergeOverlapCells s.merges))
      else (s, .merges (mergeOverlapCells s.merges))

def run (s : Sheet) (ops : List Op) : Sheet := ops.foldl (fun s o => (step s o).1) s

/-- reading a cell: content at the anchor -/
def get (s : Sheet) (c r : Nat) : CellV :=
  let a := anchor s.merges c r
  s.g a.1 a.2

end Spec

/-- content of slot (c,r) of the dense grid, blank when the slot does not exist -/
def cellAt (rows : List Row) (c r : Nat) : CellV :=
  if c = 0 ∨ r = 0 then CellV.blank else
  match rows[r - 1]? with
  | some rd => match rd.cells[c - 1]? with
    | some cell => cell.val
    | none => CellV.blank
  | none => CellV.blank

/-- abstraction function -/
def abs (s : Sheet) : Spec.Sheet := ⟨cellAt s.rows, s.merges, s.nStyles, s.sst⟩

end XlModel.Grid
