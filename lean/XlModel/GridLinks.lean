/-
Cell hyperlinks (C03): `ws.Hyperlinks.Hyperlink` as a list of (cell reference, target) in list order.

  SetCellHyperLink(cell, link, "Location")  mergeCellsParser(cell) (canonical reference, or the anchor of the
        merged range containing the cell); the first entry with that Ref is replaced, else one is appended
  SetCellHyperLink(cell, _, "None")         removeHyperLink: every entry whose Ref is the (redirected) cell goes
  GetCellHyperLink(cell)                    the same redirect; the first entry with that Ref is reported

References are the decoded coordinates (entries written through the API carry single-cell canonical
references; range references of loaded files and external links (relationships) are outside the model).
Core Lean only.
-/
import XlModel.Grid

namespace XlModel.Grid
open XlModel

abbrev Links := List ((Nat × Nat) × Tok)

/-- replace the first entry with the key, else append -/
def upsert : Links → Nat × Nat → Tok → Links
  | [], k, v => [(k, v)]
  | (k', v') :: t, k, v => if k' = k then (k, v) :: t else (k', v') :: upsert t k v

/-- first entry with the key -/
def lookupLink : Links → Nat × Nat → Option Tok
  | [], _ => none
  | (k', v') :: t, k => if k' = k then some v' else lookupLink t k

/-- `SetCellHyperLink(sheet, cell, link, "Location")` -/
def setLink (ms : List MObj) (ls : Links) (c r : Nat) (loc : Tok) : Links × Res :=
  if c = 0 ∨ r = 0 then (ls, .err) else
  let a := anchor ms c r
  if a.1 = 0 ∨ a.2 = 0 then (ls, .err) else (upsert ls a loc, .ok)

/-- `SetCellHyperLink(sheet, cell, "", "None")` -/
def unsetLink (ms : List MObj) (ls : Links) (c r : Nat) : Links × Res :=
  if c = 0 ∨ r = 0 then (ls, .err) else
  let a := anchor ms c r
  if a.1 = 0 ∨ a.2 = 0 then (ls, .err) else (ls.filter (fun e => !(e.1 = a)), .ok)

/-- `GetCellHyperLink(sheet, cell)`: `none` = error, `some none` = no link -/
def getLink (ms : List MObj) (ls : Links) (c r : Nat) : Option (Option Tok) :=
  if c = 0 ∨ r = 0 then none else
  let a := anchor ms c r
  if a.1 = 0 ∨ a.2 = 0 then none else some (lookupLink ls a)

end XlModel.Grid
