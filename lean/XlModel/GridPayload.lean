/-
Typed payloads of the value setters (C03): what SetCellInt / SetCellUint / SetCellBool /
SetCellStr / SetCellValue(nil) store for a given Go value.

  SetCellInt   setCellInt:  T = "",  V = strconv.FormatInt(value, 10)
  SetCellUint  setCellUint: T = "",  V = strconv.FormatUint(value, 10)
  SetCellBool  setCellBool: T = "b", V = "1" / "0"
  SetCellStr   setCellString: truncate to TotalCellChars runes, intern the escaped text
               (C01's `Bstr.storedText`: trimCellValue → bstrMarshal) in the shared string table,
               T = "s", V = index
  nil          SetCellDefault(""): T = "", V = "", IS = nil

Strings are rune lists (`List Char`), as in `XlModel.Bstr`; the token of a shared string item is
the hex of the UTF-8 bytes of the stored text, which is what the dump hook prints. Core Lean only.
-/
import XlModel.Grid
import XlModel.Bstr

namespace XlModel.Grid
open XlModel

/-- a Go value handed to a typed setter -/
inductive Value
  | int (i : Int)
  | uint (n : Nat)
  | bool (b : Bool)
  | str (s : List Char)
  | nil
  deriving Repr

/-- hex token of a byte string as the dump prints it (`-` for the empty string) -/
def hexTok (bs : List Char) : Tok := if bs.isEmpty then "-" else hex bs

/-- token of the plain shared string item holding the text of `SetCellStr s` -/
def strTok (s : List Char) : Tok := "S" ++ hexTok (bytesOf (String.ofList (Bstr.storedText s)))

/-- the setter a value goes through and the payload it stores -/
def Value.write : Value → Setter × Payload
  | .int i => (.int, .tv "" (hex (Ref.itoaInt i)))
  | .uint n => (.uint, .tv "" (hex (Ref.itoa n)))
  | .bool b => (.bool, .tv Facts.C03.boolTag (hex [if b then '1' else '0']))
  | .str s => (.str, .sst (strTok s))
  | .nil => (.dflt, .clr)

/-- the model operation of a typed write -/
def Value.op (v : Value) (c r : Nat) : Op := .set v.write.1 c r v.write.2

/-- the single writes `SetSheetRow` (byRow) / `SetSheetCol` perform, element i at (c+i, r) / (c, r+i) -/
def seqOps (byRow : Bool) (c r : Nat) : Nat → List Value → List Op
  | _, [] => []
  | i, v :: vs => (if byRow then v.op (c + i) r else v.op c (r + i)) :: seqOps byRow c r (i + 1) vs

/-- `setSheetCells`: `SetCellValue` element by element; `CoordinatesToCellName` rejects a position beyond the
grid and a rejected element ends the loop (the elements before it stay written) -/
def setSheetCells (s : Sheet) (byRow : Bool) (c r : Nat) : Nat → List Value → Sheet × Res
  | _, [] => (s, .ok)
  | i, v :: vs =>
    if (if byRow then c + i else c) > Facts.MaxColumns ∨ (if byRow then r else r + i) > Facts.TotalRows then (s, .err)
    else
      let w := step s (if byRow then v.op (c + i) r else v.op c (r + i))
      if w.2 = .ok then setSheetCells w.1 byRow c r (i + 1) vs else (w.1, w.2)

/-- decimal reading of what the integer setters store (optional minus sign, digits) -/
def decInt (s : List Char) : Option Int :=
  match s with
  | [] => none
  | c :: ds =>
    if c = '-' then (Ref.digitsVal ds).map fun n => -(n : Int)
    else (Ref.digitsVal (c :: ds)).map fun n => (n : Int)

end XlModel.Grid
