/-
C18 — sheet.go `SetHeaderFooter` / `GetHeaderFooter`: nil options clear the element; otherwise the
length-check loop `for i := hfLoopFrom; i < NumField()-hfLoopMinus` over the UTF-16 length of the
field's string, then a hand-written copy of every field into `xlsxHeaderFooter`; the getter copies
every field back (nil element = nil options).  Positional over the option struct's field list; that
both copy literals are name-to-same-name over exactly these fields with equal types on both sides is
a pinned fact (`Props.C18.hf_facts_pinned`).  Bug-compatible: the loop stops one field early.
Core Lean only.  Strings are valid UTF-8 (`[]rune` would map invalid bytes to U+FFFD).
-/
import XlModel.Generated.Facts
import XlModel.Generated.FactsC18

namespace XlModel.HeaderFooter

/-- a field value by Go type: `*bool`, `bool`, `string` -/
inductive Val where
  | pb (b : Option Bool)
  | b (b : Bool)
  | s (s : List Char)
  deriving DecidableEq, Repr

/-- `len(utf16.Encode([]rune(s)))` -/
def utf16Len (s : List Char) : Nat := (s.map (fun c => if c.toNat ≥ 65536 then 2 else 1)).sum

/-- `v.Field(i).String()` of a non-string field is a short placeholder ("<bool Value>"), never too long -/
def fieldTooLong : Val → Bool
  | .s t => utf16Len t > Facts.MaxFieldLength
  | _ => false

/-- the fields the loop looks at -/
def checked (o : List Val) : List Val := (o.take (o.length - Facts.C18.hfLoopMinus)).drop Facts.C18.hfLoopFrom

/-- `SetHeaderFooter`: `none` = error (nothing stored), else the new `ws.HeaderFooter` -/
def setHF (_st : Option (List Val)) : Option (List Val) → Option (Option (List Val))
  | none => some none
  | some o => if (checked o).any fieldTooLong then none else some (some o)

/-- `GetHeaderFooter` -/
def getHF (st : Option (List Val)) : Option (List Val) := st

end XlModel.HeaderFooter
