/-
Helper lemmas for the structural-edit model (C06): the dense placement
`place` (make + indexed writes) read back by index, and list search with a
unique witness.
-/
import XlModel.Adjust

namespace XlModel.Adjust
open XlModel

theorem find?_unique {α} (l : List α) (p : α → Bool) (x : α) (hx : x ∈ l) (hp : p x = true)
    (hu : ∀ y ∈ l, p y = true → y = x) : l.find? p = some x := by
  induction l with
  | nil => cases hx
  | cons a t ih =>
    simp only [List.find?_cons]
    by_cases ha : p a = true
    · have := hu a (by simp) ha
      subst this
      simp [hp]
    · have hne : a ≠ x := by intro e; subst e; exact ha hp
      have hxt : x ∈ t := by
        rcases List.mem_cons.mp hx with h | h
        · exact absurd h.symm hne
        · exact h
      simp only [ha]
      exact ih hxt (fun y hy => hu y (List.mem_cons_of_mem _ hy))

theorem place_size {α} (key : α → Nat) (xs : List α) (init : Array α) :
    (place key init xs).size = init.size := by
  unfold place
  induction xs generalizing init with
  | nil => rfl
  | cons x t ih => simp only [List.foldl_cons]; rw [ih]; simp

theorem place_getElem? {α} (key : α → Nat) (xs : List α) (init : Array α) (i : Nat) :
    (place key init xs)[i]? =
      if i < init.size then
        (match xs.reverse.find? (fun x => key x == i) with
         | some x => some x
         | none => init[i]?)
      else none := by
  induction xs generalizing init with
  | nil => simp [place]
  | cons x t ih =>
    have e : place key init (x :: t) = place key (init.setIfInBounds (key x) x) t := rfl
    rw [e, ih]
    simp only [Array.size_setIfInBounds, List.reverse_cons, List.find?_append]
    by_cases hi : i < init.size
    · simp only [hi, if_true]
      cases h : t.reverse.find? (fun x => key x == i) with
      | some y => simp
      | none =>
        simp only [Option.none_or, List.find?_cons, List.find?_nil]
        by_cases hk : key x = i
        · subst hk; simp [hi]
        · have : (key x == i) = false := by simp [hk]
          simp [this, Array.getElem?_setIfInBounds, hk]
    · simp [hi]



/-- `checkSheet` positions rows by their number: slot `j` holds the (last) row numbered `j+1`,
or an empty row, and is renumbered `j+1`; the result has exactly `last.r` slots. -/
theorem checkSheet_slot (rows : List Row) (h : incFrom 0 rows = true) :
    ∃ out, checkSheet rows = some out ∧
      out.length = ((rows.getLast?.map (fun r : Row => r.r)).getD 0).toNat ∧
      ∀ j, j < out.length →
        out[j]? = some { (match rows.reverse.find? (fun r => (r.r - 1).toNat == j) with
                          | some r => r
                          | none => zeroRow) with r := (j : Int) + 1 } := by
  unfold checkSheet
  simp only [h, if_true]
  refine ⟨_, rfl, ?_, ?_⟩
  · simp [place_size]
  · intro j hj
    simp only [List.length_map, List.length_zipIdx, Array.length_toList, place_size, Array.size_replicate] at hj
    simp only [List.getElem?_map, List.getElem?_zipIdx, Array.getElem?_toList, place_getElem?,
      Array.size_replicate, hj, if_true]
    cases hf : rows.reverse.find? (fun r => (r.r - 1).toNat == j) with
    | some r => simp
    | none => simp [hj]



end XlModel.Adjust
