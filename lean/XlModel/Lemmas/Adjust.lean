/-
Helper lemmas for the structural-edit model (C06).
-/
import XlModel.Adjust

namespace XlModel.Adjust
open XlModel

end XlModel.Adjust
