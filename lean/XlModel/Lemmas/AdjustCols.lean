/-
Lemmas for the column side of the composed grid refinement (C06): the per-row
re-densification of `checkRow` after the column shift, its lift over the row
list, and the observation of a row's cell slots.
-/
import XlModel.Lemmas.AdjustGrid

namespace XlModel.Adjust
open XlModel

theorem getElem?_lt {α : Type} {l : List α} {i : Nat} {x : α} (h : l[i]? = some x) : i < l.length := by
  by_cases c : i < l.length
  · exact c
  · rw [List.getElem?_eq_none (by omega)] at h; cases h

theorem shiftCell_c_ins (col n : Int) (hn : 0 ≤ n) (x : Cell) (hx : 1 ≤ x.c) :
    (shiftCell col n x).c = Spec.posIns col n x.c := by
  unfold shiftCell Spec.posIns
  by_cases h : col ≤ x.c ∧ x.c + n > 0
  · have h' : ¬ x.c < col := by omega
    simp [h, h']
  · have h' : x.c < col := by omega
    simp [h, h']

theorem shiftCell_c_del (col : Int) (hcol : 1 ≤ col) (x : Cell) (hx : 1 ≤ x.c) (hne : x.c ≠ col) :
    (shiftCell col (-1) x).c = Spec.posDel col x.c := by
  unfold shiftCell Spec.posDel
  by_cases h : col ≤ x.c ∧ x.c + -1 > 0
  · have h' : ¬ x.c < col := by omega
    simp [h, h']; omega
  · have h' : x.c < col := by omega
    simp [h, h']

theorem shiftCell_r (col n : Int) (x : Cell) : (shiftCell col n x).r = x.r := by
  unfold shiftCell; split <;> rfl

theorem shiftCell_id (col n : Int) (x : Cell) (h : x.c < col) : shiftCell col n x = x := by
  unfold shiftCell
  have : ¬ (col ≤ x.c ∧ x.c + n > 0) := by omega
  simp [this]

/-- what `checkRow` needs of a row's cells: dense in the column, inside the sheet -/
structure CellsOk (i : Nat) (cells : List Cell) : Prop where
  dense : DenseK Cell.c cells
  rows : ∀ x ∈ cells, x.r = (i : Int) + 1
  rowLe : (i : Int) + 1 ≤ maxRows
  colsLe : (cells.length : Int) ≤ maxCols

theorem CellsOk.cellOk {i : Nat} {cells : List Cell} (h : CellsOk i cells) :
    ∀ x ∈ cells, Adjust.cellOk x.c x.r = true := by
  intro x hx
  have h1 := h.dense.pos Cell.c x hx
  have h2 := h.dense.le_length Cell.c x hx
  have h3 := h.rows x hx
  have h4 := h.rowLe
  have h5 := h.colsLe
  unfold Adjust.cellOk
  simp only [decide_eq_true_eq]
  omega

/-- `checkRow`'s body on one row after the column shift of an insertion: the cell slots in closed form -/
theorem cells_ins_slots (i : Nat) (cells : List Cell) (hk : CellsOk i cells) (col n : Int) (hcol : 1 ≤ col)
    (hn : 1 ≤ n) (hlim : col ≤ (cells.length : Int) → (cells.length : Int) + n ≤ maxCols) :
    ∃ out, checkRowCells i (cells.map (shiftCell col n)) = .ok out ∧
      ∀ j : Nat, out[j]? =
        if (j : Int) + 1 < col then cells[j]?
        else if (j : Int) + 1 < col + n then
          (if col ≤ (cells.length : Int) then some (blankCell j i) else none)
        else (cells[j - n.toNat]?).map (shiftCell col n) := by
  have hd := hk.dense
  have hf : ∀ x : Cell, 1 ≤ x.c → (shiftCell col n x).c = Spec.posIns col n x.c :=
    fun x hx => shiftCell_c_ins col n (by omega) x hx
  by_cases hc : col ≤ (cells.length : Int)
  · -- rebuild
    have hne : cells ≠ [] := by intro e; subst e; simp at hc; omega
    have hlen : 0 < cells.length := List.length_pos_iff.mpr hne
    have hlim' := hlim hc
    have hlastc : ((cells.map (shiftCell col n)).getLast?) = some (shiftCell col n cells[cells.length - 1]) := by
      rw [List.getLast?_eq_getElem?]
      simp [List.getElem?_map, List.getElem?_eq_getElem (by omega : cells.length - 1 < cells.length)]
    have hkl := hd (cells.length - 1) cells[cells.length - 1] (List.getElem?_eq_getElem (by omega))
    have hlastval : (shiftCell col n cells[cells.length - 1]).c = (cells.length : Int) + n := by
      rw [hf _ (by omega)]; unfold Spec.posIns
      have : ¬ cells[cells.length - 1].c < col := by omega
      simp [this]; omega
    have hbound : ∀ y ∈ cells.map (shiftCell col n), 1 ≤ y.c ∧ y.c ≤ (cells.length : Int) + n ∧ y.r = (i : Int) + 1 := by
      intro y hy
      obtain ⟨x, hx, rfl⟩ := List.mem_map.mp hy
      have h1 := hd.pos Cell.c x hx
      have h2 := hd.le_length Cell.c x hx
      rw [hf x h1, shiftCell_r]; unfold Spec.posIns
      refine ⟨?_, ?_, hk.rows x hx⟩ <;> (split <;> omega)
    have hany : ((cells.map (shiftCell col n)).any fun x => !Adjust.cellOk x.c x.r) = false := by
      apply List.any_eq_false.mpr
      intro y hy
      have := hbound y hy
      have h4 := hk.rowLe
      have : Adjust.cellOk y.c y.r = true := by
        unfold Adjust.cellOk; simp only [decide_eq_true_eq]; omega
      simp [this]
    have hany2 : ((cells.map (shiftCell col n)).any fun x => x.c > (shiftCell col n cells[cells.length - 1]).c) = false := by
      apply List.any_eq_false.mpr
      intro y hy
      have := hbound y hy
      simp only [decide_eq_true_eq]; omega
    have hlt : ((cells.map (shiftCell col n)).length : Int) < (shiftCell col n cells[cells.length - 1]).c := by
      simp; omega
    refine ⟨(place (fun x : Cell => (x.c - 1).toNat)
        (Array.ofFn (n := (shiftCell col n cells[cells.length - 1]).c.toNat) fun j => blankCell j.val i)
        (cells.map (shiftCell col n))).toList, ?_, ?_⟩
    · unfold checkRowCells
      simp only [hlastc, hany, hany2, Bool.false_eq_true, if_false, hlt, if_true]
    intro j
    have hsz : (shiftCell col n cells[cells.length - 1]).c.toNat = cells.length + n.toNat := by omega
    rw [Array.getElem?_toList, place_getElem?, Array.size_ofFn, hsz,
      find_ins Cell.c cells hd (shiftCell col n) col n hcol (by omega) hf j]
    by_cases hj : j < cells.length + n.toNat
    · simp only [hj, if_true]
      by_cases c1 : (j : Int) + 1 < col
      · have hjl : j < cells.length := by omega
        have hs : shiftCell col n cells[j] = cells[j] :=
          shiftCell_id col n _ (by have := hd j cells[j] (by simp [hjl]); omega)
        simp [c1, List.getElem?_eq_getElem hjl, hs]
      · by_cases c2 : (j : Int) + 1 < col + n
        · simp only [c1, c2, if_false, if_true, hc]
          rw [Array.getElem?_ofFn]; simp [hsz, hj]
        · have hjl : j - n.toNat < cells.length := by omega
          simp [c1, c2, List.getElem?_eq_getElem hjl]
    · simp only [hj, if_false]
      have c1 : ¬ (j : Int) + 1 < col := by omega
      have c2 : ¬ (j : Int) + 1 < col + n := by omega
      simp only [c1, c2, if_false]
      rw [List.getElem?_eq_none (by omega)]; rfl
  · -- nothing moves
    have hid : cells.map (shiftCell col n) = cells := by
      rw [List.map_congr_left (g := id)]
      · simp
      · intro x hx
        exact shiftCell_id col n x (by have := hd.le_length Cell.c x hx; omega)
    refine ⟨cells, by rw [hid]; exact checkRowCells_id i cells hd hk.cellOk, ?_⟩
    intro j
    by_cases c1 : (j : Int) + 1 < col
    · simp [c1]
    · have : cells[j]? = none := List.getElem?_eq_none (by omega)
      by_cases c2 : (j : Int) + 1 < col + n
      · simp [c1, c2, hc, this]
      · simp only [c1, c2, if_false, this]
        rw [List.getElem?_eq_none (by omega)]; rfl

end XlModel.Adjust

namespace XlModel.Adjust
open XlModel

/-- dropping the first element with key `num` from a list whose element `i` has key `b+i+1` -/
theorem eraseFirst_getElem {α : Type} (key : α → Int) (l : List α) (b : Int)
    (hd : ∀ (i : Nat) (x : α), l[i]? = some x → key x = b + i + 1) (num : Int) (hnum : b + 1 ≤ num) (j : Nat) :
    (eraseFirst (fun x => key x == num) l)[j]? = if b + j + 1 < num then l[j]? else l[j + 1]? := by
  induction l generalizing b j with
  | nil => simp [eraseFirst]
  | cons a t ih =>
    have ha := hd 0 a (by simp)
    have ht : ∀ (i : Nat) (x : α), t[i]? = some x → key x = (b + 1) + i + 1 := by
      intro i x hx
      have := hd (i + 1) x (by simpa using hx)
      omega
    unfold eraseFirst
    by_cases hp : key a = num
    · have c : ¬ b + (j : Int) + 1 < num := by omega
      simp [hp, c]
    · have hp' : (key a == num) = false := by simp [hp]
      simp only [hp', Bool.false_eq_true, if_false]
      cases j with
      | zero =>
        simp
        intro h
        exact absurd h (by omega)
      | succ j' =>
        have := ih (b + 1) ht (by omega) j'
        simp only [List.getElem?_cons_succ, this]
        have e : (b + 1 + (j' : Int) + 1 < num) = (b + ((j' + 1 : Nat) : Int) + 1 < num) := by
          apply propext; constructor <;> intro h <;> omega
        simp only [e]

theorem cells_del_slots (i : Nat) (cells : List Cell) (hk : CellsOk i cells) (col : Int) (hcol : 1 ≤ col) :
    checkRowCells i ((eraseFirst (fun x : Cell => x.c == col) cells).map (shiftCell col (-1))) =
      .ok ((eraseFirst (fun x : Cell => x.c == col) cells).map (shiftCell col (-1))) ∧
    CellsOk i ((eraseFirst (fun x : Cell => x.c == col) cells).map (shiftCell col (-1))) ∧
    ∀ j : Nat, ((eraseFirst (fun x : Cell => x.c == col) cells).map (shiftCell col (-1)))[j]? =
      if (j : Int) + 1 < col then cells[j]? else (cells[j + 1]?).map (shiftCell col (-1)) := by
  have hd := hk.dense
  have hform : ∀ j : Nat, ((eraseFirst (fun x : Cell => x.c == col) cells).map (shiftCell col (-1)))[j]? =
      if (j : Int) + 1 < col then cells[j]? else (cells[j + 1]?).map (shiftCell col (-1)) := by
    intro j
    rw [List.getElem?_map, eraseFirst_getElem Cell.c cells 0 (fun i x hx => by have := hd i x hx; omega) col (by omega) j]
    by_cases c1 : (j : Int) + 1 < col
    · have c1' : (0 : Int) + j + 1 < col := by omega
      simp only [c1, c1', if_true]
      cases hx : cells[j]? with
      | none => rfl
      | some x =>
        have := hd j x hx
        simp [shiftCell_id col (-1) x (by omega)]
    · have c1' : ¬ (0 : Int) + j + 1 < col := by omega
      simp only [c1, c1', if_false]
  have hcls : ∀ (j : Nat) (y : Cell),
      ((eraseFirst (fun x : Cell => x.c == col) cells).map (shiftCell col (-1)))[j]? = some y →
      (cells[j]? = some y ∧ (j : Int) + 1 < col) ∨
      (∃ x, cells[j + 1]? = some x ∧ y = shiftCell col (-1) x ∧ col ≤ (j : Int) + 1) := by
    intro j y hy
    rw [hform j] at hy
    by_cases c1 : (j : Int) + 1 < col
    · simp only [c1, if_true] at hy; exact Or.inl ⟨hy, c1⟩
    · simp only [c1, if_false] at hy
      obtain ⟨x, hx, rfl⟩ := Option.map_eq_some_iff.mp hy
      exact Or.inr ⟨x, hx, rfl, by omega⟩
  have hok : CellsOk i ((eraseFirst (fun x : Cell => x.c == col) cells).map (shiftCell col (-1))) := by
    refine ⟨?_, ?_, hk.rowLe, ?_⟩
    · intro j y hy
      rcases hcls j y hy with ⟨h, _⟩ | ⟨x, hx, rfl, hge⟩
      · exact hd j y h
      · have := hd _ x hx
        rw [shiftCell_c_del col hcol x (by omega) (by omega)]
        unfold Spec.posDel
        have : ¬ x.c < col := by omega
        simp [this]; omega
    · intro y hy
      obtain ⟨j, hj⟩ := List.mem_iff_getElem?.mp hy
      rcases hcls j y hj with ⟨h, _⟩ | ⟨x, hx, rfl, _⟩
      · exact hk.rows y (List.mem_of_getElem? h)
      · rw [shiftCell_r]; exact hk.rows x (List.mem_of_getElem? hx)
    · have h5 := hk.colsLe
      by_cases c : (((eraseFirst (fun x : Cell => x.c == col) cells).map (shiftCell col (-1))).length : Int) ≤ maxCols
      · exact c
      · exfalso
        have hj : cells.length < ((eraseFirst (fun x : Cell => x.c == col) cells).map (shiftCell col (-1))).length := by omega
        have hy := List.getElem?_eq_getElem hj
        rcases hcls _ _ hy with ⟨h, _⟩ | ⟨x, hx, _, _⟩
        · have := getElem?_lt h; omega
        · have := getElem?_lt hx; omega
  exact ⟨checkRowCells_id i _ hok.dense hok.cellOk, hok, hform⟩

/-- `checkRowAux` row by row -/
theorem checkRowAux_lift (g : Row → Row) (rows : List Row) (i : Nat)
    (h : ∀ (k : Nat) (r : Row), rows[k]? = some r → ∃ out, checkRowCells (i + k) (g r).cells = .ok out) :
    ∃ outs, checkRowAux i (rows.map g) = .ok outs ∧
      ∀ k : Nat, (rows[k]? = none → outs[k]? = none) ∧
        ∀ r, rows[k]? = some r →
          ∃ out, checkRowCells (i + k) (g r).cells = .ok out ∧ outs[k]? = some { g r with cells := out } := by
  induction rows generalizing i with
  | nil => exact ⟨[], rfl, fun k => ⟨fun _ => by simp, fun r hr => by simp at hr⟩⟩
  | cons a t ih =>
    obtain ⟨out0, h0⟩ := h 0 a (by simp)
    obtain ⟨outsT, hT, hTk⟩ := ih (i + 1) (fun k r hr => by
      have := h (k + 1) r (by simpa using hr)
      have e : i + (k + 1) = i + 1 + k := by omega
      rwa [e] at this)
    refine ⟨{ g a with cells := out0 } :: outsT, ?_, ?_⟩
    · simp only [List.map_cons, checkRowAux]
      simp only [Nat.add_zero] at h0
      rw [h0, hT]
    · intro k
      cases k with
      | zero =>
        refine ⟨fun hn => by simp at hn, fun r hr => ?_⟩
        have : a = r := by simpa using hr
        subst this
        exact ⟨out0, h0, by simp⟩
      | succ k' =>
        have e : i + (k' + 1) = i + 1 + k' := by omega
        refine ⟨fun hn => by simpa using (hTk k').1 (by simpa using hn), fun r hr => ?_⟩
        obtain ⟨out, ho, hs⟩ := (hTk k').2 r (by simpa using hr)
        exact ⟨out, by rw [e]; exact ho, by simpa using hs⟩

end XlModel.Adjust

namespace XlModel.Adjust
open XlModel

/-- (style, payload) of a cell -/
def sv (x : Cell) : Nat × String := (x.s, x.v)

theorem rowView_cells (x : Row) : (rowView x).2.2 = x.cells.map sv := rfl

theorem sv_shift (col n : Int) (x : Cell) : sv (shiftCell col n x) = sv x := by
  unfold shiftCell sv; split <;> rfl

theorem cells_ins_view (i : Nat) (cells : List Cell) (hk : CellsOk i cells) (col n : Int) (hcol : 1 ≤ col)
    (hn : 1 ≤ n) (hlim : col ≤ (cells.length : Int) → (cells.length : Int) + n ≤ maxCols) (out : List Cell)
    (hout : ∀ j : Nat, out[j]? =
        if (j : Int) + 1 < col then cells[j]?
        else if (j : Int) + 1 < col + n then
          (if col ≤ (cells.length : Int) then some (blankCell j i) else none)
        else (cells[j - n.toNat]?).map (shiftCell col n)) :
    CellsOk i out ∧ ∀ c, payAt (out.map sv) c = Spec.insAt col n (0, blankTok) (payAt (cells.map sv)) c := by
  have hd := hk.dense
  have hcls : ∀ (j : Nat) (y : Cell), out[j]? = some y →
      (cells[j]? = some y ∧ (j : Int) + 1 < col) ∨
      (y = blankCell j i ∧ col ≤ (cells.length : Int) ∧ (j : Int) + 1 < col + n) ∨
      (∃ x, cells[j - n.toNat]? = some x ∧ y = shiftCell col n x ∧ col + n ≤ (j : Int) + 1) := by
    intro j y hy
    rw [hout j] at hy
    by_cases c1 : (j : Int) + 1 < col
    · simp only [c1, if_true] at hy; exact Or.inl ⟨hy, c1⟩
    · by_cases c2 : (j : Int) + 1 < col + n
      · simp only [c1, c2, if_true, if_false] at hy
        by_cases c : col ≤ (cells.length : Int)
        · simp only [c, if_true] at hy
          exact Or.inr (Or.inl ⟨(Option.some.inj hy).symm, c, c2⟩)
        · simp [c] at hy
      · simp only [c1, c2, if_false] at hy
        obtain ⟨x, hx, rfl⟩ := Option.map_eq_some_iff.mp hy
        exact Or.inr (Or.inr ⟨x, hx, rfl, by omega⟩)
  constructor
  · refine ⟨?_, ?_, hk.rowLe, ?_⟩
    · intro j y hy
      rcases hcls j y hy with ⟨h, _⟩ | ⟨h, _, _⟩ | ⟨x, hx, rfl, hge⟩
      · exact hd j y h
      · subst h; rfl
      · have := hd _ x hx
        rw [shiftCell_c_ins col n (by omega) x (by omega)]
        unfold Spec.posIns
        have : ¬ x.c < col := by omega
        simp [this]; omega
    · intro y hy
      obtain ⟨j, hj⟩ := List.mem_iff_getElem?.mp hy
      rcases hcls j y hj with ⟨h, _⟩ | ⟨h, _, _⟩ | ⟨x, hx, rfl, _⟩
      · exact hk.rows y (List.mem_of_getElem? h)
      · subst h; rfl
      · rw [shiftCell_r]; exact hk.rows x (List.mem_of_getElem? hx)
    · have h5 := hk.colsLe
      by_cases c : (out.length : Int) ≤ maxCols
      · exact c
      · exfalso
        have hmc : maxCols = 16384 := by decide
        have hj : maxCols.toNat < out.length := by omega
        have hy : out[maxCols.toNat]? = some out[maxCols.toNat] := by simp [hj]
        rcases hcls _ _ hy with ⟨h, _⟩ | ⟨_, h1, h2⟩ | ⟨x, hx, _, hge⟩
        · have := getElem?_lt h; omega
        · have := hlim h1; omega
        · have := getElem?_lt hx
          have : col ≤ (cells.length : Int) := by omega
          have := hlim this
          omega
  · intro c
    unfold Spec.insAt payAt
    by_cases hc1 : 1 ≤ c
    · have hj : (((c - 1).toNat : Nat) : Int) + 1 = c := by omega
      simp only [hc1, if_true, List.getElem?_map]
      rw [hout (c - 1).toNat, hj]
      by_cases c1 : c < col
      · simp [c1]
      · by_cases c2 : c < col + n
        · simp only [c1, c2, if_true, if_false]
          by_cases cc : col ≤ (cells.length : Int)
          · simp [cc, blankCell, sv]
          · simp [cc]
        · have h1 : 1 ≤ c - n := by omega
          have e : (c - 1).toNat - n.toNat = (c - n - 1).toNat := by omega
          simp only [c1, c2, if_false, h1, if_true, e, List.getElem?_map]
          cases cells[(c - n - 1).toNat]? with
          | none => rfl
          | some x => simp [sv_shift]
    · have c1 : c < col := by omega
      simp [hc1, c1]

theorem cells_del_view (cells : List Cell) (col : Int) (hcol : 1 ≤ col) (out : List Cell)
    (hout : ∀ j : Nat, out[j]? =
      if (j : Int) + 1 < col then cells[j]? else (cells[j + 1]?).map (shiftCell col (-1))) :
    ∀ c, payAt (out.map sv) c = Spec.delAt col (payAt (cells.map sv)) c := by
  intro c
  unfold Spec.delAt payAt
  by_cases hc1 : 1 ≤ c
  · have hj : (((c - 1).toNat : Nat) : Int) + 1 = c := by omega
    simp only [hc1, if_true, List.getElem?_map]
    rw [hout (c - 1).toNat, hj]
    by_cases c1 : c < col
    · simp [c1]
    · have h1 : 1 ≤ c + 1 := by omega
      have e : (c - 1).toNat + 1 = (c + 1 - 1).toNat := by omega
      simp only [c1, if_false, h1, if_true, e, List.getElem?_map]
      cases cells[(c + 1 - 1).toNat]? with
      | none => rfl
      | some x => simp [sv_shift]
  · have c1 : c < col := by omega
    simp [hc1, c1]

/-- `checkSheet` on a dense row list is the identity -/
theorem checkSheet_id (rows : List Row) (hd : DenseK Row.r rows) : checkSheet rows = some rows := by
  obtain ⟨out, ho, hslots⟩ := rows_del_slots rows hd ((rows.length : Int) + 1) (by omega)
  have hf : rows.filter (fun r => r.r != (rows.length : Int) + 1) = rows :=
    filter_beyond rows hd _ (by omega)
  have hm : rows.map (shiftRow ((rows.length : Int) + 1) (-1)) = rows := by
    rw [List.map_congr_left (g := id)]
    · simp
    · intro x hx
      have := hd.le_length Row.r x hx
      unfold shiftRow
      have : ¬ (x.r ≥ (rows.length : Int) + 1 ∧ x.r + -1 > 0) := by omega
      simp [this]
  rw [hf, hm] at ho
  rw [ho]
  congr 1
  apply List.ext_getElem?
  intro j
  rw [hslots j]
  by_cases c : (j : Int) + 1 < (rows.length : Int) + 1
  · simp [c]
  · simp only [c, if_false]
    rw [List.getElem?_eq_none (by omega), List.getElem?_eq_none (by omega)]; rfl

end XlModel.Adjust

namespace XlModel.Adjust
open XlModel

theorem WF.cellsOk {rows : List Row} (hw : WF rows) (k : Nat) (r : Row) (hr : rows[k]? = some r) :
    CellsOk k r.cells := by
  have hm := List.mem_of_getElem? hr
  have hk := hw.rowsDense k r hr
  refine ⟨hw.cellsDense r hm, fun x hx => by rw [hw.cellRows r hm x hx, hk], ?_, hw.colsLe r hm⟩
  have := getElem?_lt hr
  have := hw.rowsLe
  omega

/-- from per-row facts about the rebuilt cell lists to the invariant and the observation of the sheet -/
theorem cols_view (rows outs : List Row) (F : (Int → Nat × String) → Int → Nat × String)
    (hF : ∀ c, F (fun _ => (0, blankTok)) c = (0, blankTok)) (hw : WF rows)
    (h : ∀ k : Nat, (rows[k]? = none → outs[k]? = none) ∧
      ∀ r, rows[k]? = some r → ∃ out, outs[k]? = some { r with cells := out } ∧ CellsOk k out ∧
        ∀ c, payAt (out.map sv) c = F (payAt (r.cells.map sv)) c) :
    WF outs ∧ (∀ c r, gridAt outs c r = F (fun i => gridAt rows i r) c) ∧ ∀ r, attrAt outs r = attrAt rows r := by
  have hback : ∀ (k : Nat) (y : Row), outs[k]? = some y →
      ∃ r out, rows[k]? = some r ∧ y = { r with cells := out } ∧ CellsOk k out := by
    intro k y hy
    cases hr : rows[k]? with
    | none => rw [(h k).1 hr] at hy; cases hy
    | some r =>
      obtain ⟨out, ho, hc, _⟩ := (h k).2 r hr
      rw [ho] at hy
      exact ⟨r, out, rfl, (Option.some.inj hy).symm, hc⟩
  refine ⟨⟨?_, ?_, ?_, ?_, ?_⟩, ?_, ?_⟩
  · intro k y hy
    obtain ⟨r, out, hr, rfl, _⟩ := hback k y hy
    exact hw.rowsDense k r hr
  · intro y hy
    obtain ⟨k, hk⟩ := List.mem_iff_getElem?.mp hy
    obtain ⟨r, out, hr, rfl, hc⟩ := hback k y hk
    exact hc.dense
  · intro y hy x hx
    obtain ⟨k, hk⟩ := List.mem_iff_getElem?.mp hy
    obtain ⟨r, out, hr, rfl, hc⟩ := hback k y hk
    have := hw.rowsDense k r hr
    simp only at hx ⊢
    rw [hc.rows x hx, this]
  · by_cases c : (outs.length : Int) ≤ maxRows
    · exact c
    · exfalso
      have h7 := hw.rowsLe
      have hj : rows.length < outs.length := by omega
      obtain ⟨r, _, hr, _, _⟩ := hback rows.length _ (List.getElem?_eq_getElem hj)
      have := getElem?_lt hr
      omega
  · intro y hy
    obtain ⟨k, hk⟩ := List.mem_iff_getElem?.mp hy
    obtain ⟨r, out, hr, rfl, hc⟩ := hback k y hk
    exact hc.colsLe
  · intro c r
    unfold gridAt viewAt slotRow
    by_cases hr1 : 1 ≤ r
    · simp only [hr1, if_true]
      cases hr : rows[(r - 1).toNat]? with
      | none =>
        rw [(h _).1 hr]
        simp only [payAt_empty]
        exact (hF c).symm
      | some r0 =>
        obtain ⟨out, ho, _, hp⟩ := (h _).2 r0 hr
        rw [ho]
        simp only [rowView_cells]
        exact hp c
    · simp only [hr1, if_false, payAt_empty]
      exact (hF c).symm
  · intro r
    unfold attrAt viewAt slotRow
    by_cases hr1 : 1 ≤ r
    · simp only [hr1, if_true]
      cases hr : rows[(r - 1).toNat]? with
      | none => rw [(h _).1 hr]
      | some r0 =>
        obtain ⟨out, ho, _, _⟩ := (h _).2 r0 hr
        rw [ho]; rfl
    · simp [hr1]

end XlModel.Adjust

namespace XlModel.Adjust
open XlModel

theorem eraseFirst_subset {α : Type} (p : α → Bool) (l : List α) : ∀ x ∈ eraseFirst p l, x ∈ l := by
  induction l with
  | nil => intro x hx; simp [eraseFirst] at hx
  | cons a t ih =>
    intro x hx
    unfold eraseFirst at hx
    split at hx
    · exact List.mem_cons_of_mem _ hx
    · rcases List.mem_cons.mp hx with h | h
      · subst h; simp
      · exact List.mem_cons_of_mem _ (ih x h)

end XlModel.Adjust

namespace XlModel.Adjust
open XlModel

/-- the slot list after the copy has been placed (dense rows, target row `row2 ≥ 1`) -/
theorem placeCopy_getElem (rows : List Row) (hd : DenseK Row.r rows) (row2 : Int) (h2 : 1 ≤ row2) (copy : Row)
    (j : Nat) :
    (placeCopy rows row2 copy)[j]? =
      if (j : Int) + 1 = row2 then some copy
      else if j < rows.length then rows[j]?
      else if (j : Int) + 1 < row2 then some ⟨(j : Int) + 1, false, "-", []⟩
      else none := by
  unfold placeCopy
  have hm : (((row2 - 1).toNat : Nat) : Int) = row2 - 1 := by omega
  generalize (row2 - 1).toNat = m at hm ⊢
  by_cases hin : row2 ≤ (rows.length : Int)
  · have hlt : m < rows.length := by omega
    have hk := hd _ rows[m] (List.getElem?_eq_getElem hlt)
    have hfi : rows.findIdx? (fun r => r.r == row2) = some m := by
      rw [List.findIdx?_eq_some_iff_getElem]
      refine ⟨hlt, by simp only [beq_iff_eq]; omega, ?_⟩
      intro k hk2
      have := hd k rows[k] (List.getElem?_eq_getElem (by omega))
      simp only [beq_iff_eq]; omega
    simp only [hfi, List.getElem?_set]
    by_cases c : (j : Int) + 1 = row2
    · have e : m = j := by omega
      simp only [e, if_true, c]
      have : j < rows.length := by omega
      simp only [this, if_true]
    · have : ¬ m = j := by omega
      simp only [this, if_false, c]
      by_cases cj : j < rows.length
      · simp only [cj, if_true]
      · have : ¬ (j : Int) + 1 < row2 := by omega
        simp only [cj, if_false, this]
        exact List.getElem?_eq_none (by omega)
  · have hfi : rows.findIdx? (fun r => r.r == row2) = none := by
      rw [List.findIdx?_eq_none_iff]
      intro x hx
      have := hd.le_length Row.r x hx
      simp only [beq_eq_false_iff_ne, ne_eq]; omega
    simp only [hfi, List.getElem?_append, List.length_append, List.length_map, List.length_range]
    by_cases cj : j < rows.length
    · have c : ¬ (j : Int) + 1 = row2 := by omega
      have h1 : j < rows.length + (m - rows.length) := by omega
      simp only [h1, if_true, cj, c, if_false]
    · by_cases c : (j : Int) + 1 = row2
      · have h1 : ¬ j < rows.length + (m - rows.length) := by omega
        have h2' : j - (rows.length + (m - rows.length)) = 0 := by omega
        simp only [h1, if_false, h2', c, if_true]
        rfl
      · by_cases c3 : (j : Int) + 1 < row2
        · have h1 : j < rows.length + (m - rows.length) := by omega
          have h3 : j - rows.length < m - rows.length := by omega
          simp only [h1, if_true, cj, if_false, c, c3, List.getElem?_map, List.getElem?_range h3, Option.map_some]
          congr 2
          omega
        · have h1 : ¬ j < rows.length + (m - rows.length) := by omega
          have h4 : j - (rows.length + (m - rows.length)) ≠ 0 := by omega
          simp only [h1, if_false, cj, c, c3]
          cases hq : j - (rows.length + (m - rows.length)) with
          | zero => exact absurd hq h4
          | succ k => rfl


end XlModel.Adjust
