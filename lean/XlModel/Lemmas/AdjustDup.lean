/-
C06, round 5: the copies appended by `duplicateConditionalFormat` / `duplicateDataValidations`
(`duplicateSQRefHelper`) in closed form, and the position of the source row after the one-row
insertion of `DuplicateRowTo` (both directions: target above or below the source).
-/
import XlModel.Lemmas.AdjustObjs

namespace XlModel.Adjust
open XlModel

/-- a single-row reference on `row` -/
def onRow (row : Int) (q : Rect) : Bool := decide (q.y1 = q.y2 ∧ q.y1 = row)

/-- the same columns on row `row2` -/
def rowCopy (row2 : Int) (q : Rect) : Rect := { q with y1 := row2, y2 := row2 }

/-- the copies one item contributes: its single-row references on `src`, moved to `row2`; items without one contribute nothing -/
def dupItem (src row2 : Int) (it : SqItem) : Option SqItem :=
  if (it.rects.filter (onRow src)).map (rowCopy row2) = [] then none
  else some { it with rects := (it.rects.filter (onRow src)).map (rowCopy row2) }

theorem dupSq_eq (src row2 : Int) (h2 : 1 ≤ row2 ∧ row2 ≤ maxRows) (qs : List Rect)
    (h : ∀ q ∈ qs, rectOk q = true) :
    dupSq src row2 qs = some ((qs.filter (onRow src)).map (rowCopy row2)) := by
  induction qs with
  | nil => rfl
  | cons q t ih =>
    have iht := ih (fun x hx => h x (List.mem_cons_of_mem _ hx))
    have hq := h q (List.mem_cons_self ..)
    simp only [rectOk, cellOk, Bool.and_eq_true, decide_eq_true_eq] at hq
    by_cases hc : q.y1 = q.y2 ∧ q.y1 = src
    · have hok : rectOk ({ q with y1 := row2, y2 := row2 } : Rect) = true := by
        simp only [rectOk, cellOk, Bool.and_eq_true, decide_eq_true_eq]
        omega
      have hon : onRow src q = true := decide_eq_true hc
      rw [dupSq, if_pos hc]
      simp only [hok, if_true, iht, Option.map_some, List.filter_cons, hon, List.map_cons, rowCopy]
    · have hon : onRow src q = false := decide_eq_false hc
      rw [dupSq, if_neg hc]
      simp only [iht, List.filter_cons, hon]
      simp

theorem dupSqItems_eq (src row2 : Int) (h2 : 1 ≤ row2 ∧ row2 ≤ maxRows) (its : List SqItem)
    (h : ∀ it ∈ its, ∀ q ∈ it.rects, rectOk q = true) :
    dupSqItems src row2 its = some (its.filterMap (dupItem src row2)) := by
  induction its with
  | nil => rfl
  | cons it t ih =>
    have iht := ih (fun x hx => h x (List.mem_cons_of_mem _ hx))
    have hq := dupSq_eq src row2 h2 it.rects (h it (List.mem_cons_self ..))
    cases hrs : (it.rects.filter (onRow src)).map (rowCopy row2) with
    | nil =>
      rw [hrs] at hq
      simp only [dupSqItems, hq, iht, List.filterMap_cons, dupItem, hrs, if_true]
    | cons a b =>
      rw [hrs] at hq
      simp only [dupSqItems, hq, iht, List.filterMap_cons, dupItem, hrs, Option.map_some]
      simp

/-- the source row after one row was inserted at `row2` is where the shift rule puts it -/
theorem srcAfter_eq_posIns (row row2 : Int) (hne : row ≠ row2) :
    srcAfter row row2 = Spec.posIns row2 1 row := by
  unfold srcAfter Spec.posIns
  split <;> split <;> omega

/-- a reference that is not cut at the last row lies on the moved source row after the insertion
exactly when it was a single-row reference on the source row before -/
theorem onRow_ins (row row2 : Int) (hne : row ≠ row2) (q : Rect)
    (hq : q.y1 ≤ q.y2 ∧ Spec.posIns row2 1 q.y2 ≤ maxRows) :
    onRow (srcAfter row row2) (insSqRect .rows row2 1 q) = onRow row q := by
  simp only [onRow, insSqRect, srcAfter, Spec.posIns] at *
  congr 1
  apply propext
  constructor <;> intro hh <;> (repeat' split at hh) <;> (repeat' split) <;> omega

theorem rowCopy_ins (row2 : Int) (q : Rect) :
    rowCopy row2 (insSqRect .rows row2 1 q) = rowCopy row2 q := rfl

/-- `duplicateSQRefHelper` on one adjusted sqref: the copies are the single-row references the
source row had before the insertion, on row `row2`, in order -/
theorem dupSq_after_insert (row row2 : Int) (hne : row ≠ row2) (h2 : 1 ≤ row2 ∧ row2 ≤ maxRows)
    (qs : List Rect)
    (h : ∀ q ∈ qs, rectOk q = true ∧ q.y1 ≤ q.y2 ∧ Spec.posIns row2 1 q.y2 ≤ maxRows) :
    ((qs.map (insSqRect .rows row2 1)).filter (onRow (srcAfter row row2))).map (rowCopy row2)
      = (qs.filter (onRow row)).map (rowCopy row2) := by
  induction qs with
  | nil => rfl
  | cons q t ih =>
    have iht := ih (fun x hx => h x (List.mem_cons_of_mem _ hx))
    have hq := h q (List.mem_cons_self ..)
    have hon := onRow_ins row row2 hne q hq.2
    simp only [List.map_cons, List.filter_cons, hon]
    cases onRow row q <;> simp [iht, rowCopy_ins]

/-- the hypothesis of `adjustSqItems_ins` and the guard of `duplicateSQRefHelper` follow from "inside the
sheet, corners in order, not cut at the last row" -/
theorem uncut_ok (row2 : Int) (h2 : 1 ≤ row2) (q : Rect)
    (hq : rectOk q = true ∧ q.y1 ≤ q.y2 ∧ Spec.posIns row2 1 q.y2 ≤ maxRows) :
    exceeds .rows row2 1 (axisStart .rows q) = false ∧ rectOk (insSqRect .rows row2 1 q) = true := by
  obtain ⟨h1, h3, h4⟩ := hq
  simp only [rectOk, cellOk, Bool.and_eq_true, decide_eq_true_eq] at h1
  simp only [Spec.posIns] at h4
  constructor
  · simp only [exceeds, axisStart]
    exact decide_eq_false (by intro hh; split at h4 <;> omega)
  · simp only [rectOk, cellOk, insSqRect, Spec.posIns, Bool.and_eq_true, decide_eq_true_eq]
    split at h4 <;> (repeat' split) <;> simp only [decide_eq_true_eq] <;> omega

theorem dupItem_ins (row row2 : Int) (hne : row ≠ row2) (h2 : 1 ≤ row2 ∧ row2 ≤ maxRows) (it : SqItem)
    (h : ∀ q ∈ it.rects, rectOk q = true ∧ q.y1 ≤ q.y2 ∧ Spec.posIns row2 1 q.y2 ≤ maxRows) :
    dupItem (srcAfter row row2) row2 { it with rects := it.rects.map (insSqRect .rows row2 1) }
      = dupItem row row2 it := by
  unfold dupItem
  simp only [dupSq_after_insert row row2 hne h2 it.rects h]

/-- the adjusted list of items, as `adjustSqItems_ins` gives it -/
def insItems (row2 : Int) (its : List SqItem) : List SqItem :=
  its.filterMap fun it =>
    if it.rects = [] then none else some { it with rects := it.rects.map (insSqRect .rows row2 1) }

theorem dupItems_after_insert (row row2 : Int) (hne : row ≠ row2) (h2 : 1 ≤ row2 ∧ row2 ≤ maxRows)
    (its : List SqItem)
    (h : ∀ it ∈ its, ∀ q ∈ it.rects, rectOk q = true ∧ q.y1 ≤ q.y2 ∧ Spec.posIns row2 1 q.y2 ≤ maxRows) :
    (insItems row2 its).filterMap (dupItem (srcAfter row row2) row2) = its.filterMap (dupItem row row2) := by
  induction its with
  | nil => rfl
  | cons it t ih =>
    have iht := ih (fun x hx => h x (List.mem_cons_of_mem _ hx))
    have hit := dupItem_ins row row2 hne h2 it (h it (List.mem_cons_self ..))
    unfold insItems at iht ⊢
    by_cases hr : it.rects = []
    · have hd : dupItem row row2 it = none := by simp [dupItem, hr]
      simp only [List.filterMap_cons, hr, if_true, hd, iht]
    · simp only [List.filterMap_cons, hr, if_false, hit, iht]

theorem insItems_ok (row2 : Int) (h2 : 1 ≤ row2) (its : List SqItem)
    (h : ∀ it ∈ its, ∀ q ∈ it.rects, rectOk q = true ∧ q.y1 ≤ q.y2 ∧ Spec.posIns row2 1 q.y2 ≤ maxRows) :
    ∀ it ∈ insItems row2 its, ∀ q ∈ it.rects, rectOk q = true := by
  intro it hit q hq
  simp only [insItems, List.mem_filterMap] at hit
  obtain ⟨it0, hm, he⟩ := hit
  split at he
  · cases he
  · cases he
    simp only [List.mem_map] at hq
    obtain ⟨q0, hq0, rfl⟩ := hq
    exact (uncut_ok row2 h2 q0 (h it0 hm q0 hq0)).2

theorem dupMergeApply_keeps (src row2 : Int) (ms : List (Option Rect)) :
    ∀ (s : Sheet) (st : Status) (s' : Sheet), dupMergeApply src row2 ms s = (st, s') →
      s'.cfs = s.cfs ∧ s'.dvs = s.dvs := by
  induction ms with
  | nil => intro s st s' h; cases h; exact ⟨rfl, rfl⟩
  | cons m t ih =>
    intro s st s' h
    cases m with
    | none => exact ih s st s' h
    | some q =>
      unfold dupMergeApply at h
      by_cases hc : q.y1 = q.y2 ∧ q.y1 = src
      · rw [if_pos hc] at h
        dsimp only at h
        by_cases hk : rectOk ⟨if q.x2 < q.x1 then q.x2 else q.x1, row2, if q.x2 < q.x1 then q.x1 else q.x2, row2⟩ = true
        · rw [if_pos hk] at h
          have hh := ih _ st s' h
          exact hh
        · rw [if_neg hk] at h
          cases h; exact ⟨rfl, rfl⟩
      · rw [if_neg hc] at h
        exact ih s st s' h

/-- `duplicateMergeCells` leaves conditional formats and data validations alone -/
theorem dupMerges_keeps (row row2 : Int) (s : Sheet) (st : Status) (s' : Sheet)
    (h : dupMerges row row2 s = (st, s')) : s'.cfs = s.cfs ∧ s'.dvs = s.dvs := by
  unfold dupMerges at h
  split at h
  · cases h; exact ⟨rfl, rfl⟩
  · cases h; exact ⟨rfl, rfl⟩
  · exact dupMergeApply_keeps _ _ _ _ _ _ h

end XlModel.Adjust
