/-
Lemmas for the composed grid refinement of C06: lists whose elements carry
their own 1-based position as a key (row slots by row number, cells by column
number), the effect of the shift on such lists, and the read-back of the dense
placement (`place`) through the inverse of the key map.
-/
import XlModel.Lemmas.Adjust

namespace XlModel.Adjust
open XlModel

/-- read-back of a search by key through an explicit inverse `g` of the key map -/
theorem find_inverse {α : Type} (l : List α) (key : α → Nat) (g : Nat → Option α)
    (h1 : ∀ j x, g j = some x → x ∈ l ∧ key x = j) (h2 : ∀ x ∈ l, g (key x) = some x) (j : Nat) :
    l.reverse.find? (fun x => key x == j) = g j := by
  cases hg : g j with
  | none =>
    apply List.find?_eq_none.mpr
    intro x hx hp
    have hk : key x = j := by simpa using hp
    have := h2 x (List.mem_reverse.mp hx)
    rw [hk, hg] at this
    cases this
  | some x =>
    have hx := h1 j x hg
    apply find?_unique _ _ x (List.mem_reverse.mpr hx.1) (by simp [hx.2])
    intro y hy hp
    have hk : key y = j := by simpa using hp
    have := h2 y (List.mem_reverse.mp hy)
    rw [hk, hg] at this
    exact (Option.some.inj this).symm

section Keyed
variable {α : Type} (key : α → Int)

/-- element `i` carries key `i+1` -/
def DenseK (l : List α) : Prop := ∀ (i : Nat) (x : α), l[i]? = some x → key x = (i : Int) + 1

theorem DenseK.pairwise {l : List α} (hd : DenseK key l) : l.Pairwise (fun a b => key a < key b) := by
  rw [List.pairwise_iff_getElem]
  intro i j hi hj hij
  have a := hd i l[i] (by simp [hi])
  have b := hd j l[j] (by simp [hj])
  omega

theorem DenseK.pos {l : List α} (hd : DenseK key l) : ∀ x ∈ l, 1 ≤ key x := by
  intro x hx
  obtain ⟨i, hi⟩ := List.mem_iff_getElem?.mp hx
  have := hd i x hi
  omega

theorem DenseK.le_length {l : List α} (hd : DenseK key l) : ∀ x ∈ l, key x ≤ l.length := by
  intro x hx
  obtain ⟨i, hi⟩ := List.mem_iff_getElem?.mp hx
  have := hd i x hi
  have hlt : i < l.length := by
    by_cases h : i < l.length
    · exact h
    · rw [List.getElem?_eq_none (by omega)] at hi; cases hi
  omega

/-- search by key in the shifted list, insertion -/
theorem find_ins (l : List α) (hd : DenseK key l) (f : α → α) (num n : Int) (hnum : 1 ≤ num) (hn : 0 ≤ n)
    (hf : ∀ x, 1 ≤ key x → key (f x) = Spec.posIns num n (key x)) (j : Nat) :
    (l.map f).reverse.find? (fun x => (key x - 1).toNat == j) =
      if (j : Int) + 1 < num then (l[j]?).map f
      else if (j : Int) + 1 < num + n then none
      else (l[j - n.toNat]?).map f := by
  apply find_inverse (l.map f) (fun x => (key x - 1).toNat)
    (fun j => if (j : Int) + 1 < num then (l[j]?).map f
      else if (j : Int) + 1 < num + n then none else (l[j - n.toNat]?).map f)
  · intro j y hy
    by_cases c1 : (j : Int) + 1 < num
    · simp only [c1, if_true] at hy
      obtain ⟨x, hx, rfl⟩ := Option.map_eq_some_iff.mp hy
      have hk := hd j x hx
      refine ⟨List.mem_map.mpr ⟨x, List.mem_of_getElem? hx, rfl⟩, ?_⟩
      rw [hf x (by omega)]; unfold Spec.posIns; simp [hk, c1]
    · by_cases c2 : (j : Int) + 1 < num + n
      · simp [c1, c2] at hy
      · simp only [c1, c2, if_false] at hy
        obtain ⟨x, hx, rfl⟩ := Option.map_eq_some_iff.mp hy
        have hk := hd _ x hx
        refine ⟨List.mem_map.mpr ⟨x, List.mem_of_getElem? hx, rfl⟩, ?_⟩
        rw [hf x (by omega)]; unfold Spec.posIns
        have : ¬ key x < num := by omega
        simp only [this, if_false]; omega
  · intro y hy
    obtain ⟨x, hx, rfl⟩ := List.mem_map.mp hy
    obtain ⟨i, hi⟩ := List.mem_iff_getElem?.mp hx
    have hk := hd i x hi
    have hfx := hf x (by omega)
    unfold Spec.posIns at hfx
    by_cases c : key x < num
    · simp only [c, if_true] at hfx
      have e : (key (f x) - 1).toNat = i := by omega
      have c1 : (i : Int) + 1 < num := by omega
      simp only [e, c1, if_true, hi, Option.map_some]
    · simp only [c, if_false] at hfx
      have e : (key (f x) - 1).toNat = i + n.toNat := by omega
      have c1 : ¬ ((i + n.toNat : Nat) : Int) + 1 < num := by omega
      have c2 : ¬ ((i + n.toNat : Nat) : Int) + 1 < num + n := by omega
      simp only [e, c1, c2, if_false, Nat.add_sub_cancel, hi, Option.map_some]

/-- search by key after dropping key `num` and moving the later elements up -/
theorem find_del (l : List α) (hd : DenseK key l) (f : α → α) (num : Int) (hnum : 1 ≤ num)
    (hf : ∀ x, 1 ≤ key x → key x ≠ num → key (f x) = Spec.posDel num (key x)) (j : Nat) :
    ((l.filter fun x => key x != num).map f).reverse.find? (fun x => (key x - 1).toNat == j) =
      if (j : Int) + 1 < num then (l[j]?).map f else (l[j + 1]?).map f := by
  apply find_inverse ((l.filter fun x => key x != num).map f) (fun x => (key x - 1).toNat)
    (fun j => if (j : Int) + 1 < num then (l[j]?).map f else (l[j + 1]?).map f)
  · intro j y hy
    by_cases c1 : (j : Int) + 1 < num
    · simp only [c1, if_true] at hy
      obtain ⟨x, hx, rfl⟩ := Option.map_eq_some_iff.mp hy
      have hk := hd j x hx
      have hne : key x ≠ num := by omega
      refine ⟨List.mem_map.mpr ⟨x, List.mem_filter.mpr ⟨List.mem_of_getElem? hx, by simp [hne]⟩, rfl⟩, ?_⟩
      rw [hf x (by omega) hne]; unfold Spec.posDel
      have : key x < num := by omega
      simp only [this, if_true]; omega
    · simp only [c1, if_false] at hy
      obtain ⟨x, hx, rfl⟩ := Option.map_eq_some_iff.mp hy
      have hk := hd _ x hx
      have hne : key x ≠ num := by omega
      refine ⟨List.mem_map.mpr ⟨x, List.mem_filter.mpr ⟨List.mem_of_getElem? hx, by simp [hne]⟩, rfl⟩, ?_⟩
      rw [hf x (by omega) hne]; unfold Spec.posDel
      have : ¬ key x < num := by omega
      simp only [this, if_false]; omega
  · intro y hy
    obtain ⟨x, hx, rfl⟩ := List.mem_map.mp hy
    obtain ⟨hxl, hq⟩ := List.mem_filter.mp hx
    have hne : key x ≠ num := by simpa using hq
    obtain ⟨i, hi⟩ := List.mem_iff_getElem?.mp hxl
    have hk := hd i x hi
    have hfx := hf x (by omega) hne
    unfold Spec.posDel at hfx
    by_cases c : key x < num
    · simp only [c, if_true] at hfx
      have e : (key (f x) - 1).toNat = i := by omega
      have c1 : (i : Int) + 1 < num := by omega
      simp only [e, c1, if_true, hi, Option.map_some]
    · simp only [c, if_false] at hfx
      have hi1 : 1 ≤ i := by omega
      have e : (key (f x) - 1).toNat = i - 1 := by omega
      have c1 : ¬ ((i - 1 : Nat) : Int) + 1 < num := by omega
      have e2 : i - 1 + 1 = i := by omega
      simp only [e, c1, if_false, e2, hi, Option.map_some]


/-- the key of the last element (0 for the empty list) -/
def lastKey (l : List α) : Int := (l.getLast?.map key).getD 0

theorem lastKey_eq (l : List α) (hw : l.Pairwise (fun a b => key a < key b)) (L : Int)
    (hle : ∀ x ∈ l, key x ≤ L) (hex : (∃ x ∈ l, key x = L) ∨ (l = [] ∧ L = 0)) : lastKey key l = L := by
  induction l with
  | nil =>
    rcases hex with ⟨x, hx, _⟩ | ⟨_, h0⟩
    · cases hx
    · simp [lastKey, h0]
  | cons a t ih =>
    rcases hex with ⟨x, hx, hxL⟩ | ⟨h, _⟩
    · cases t with
      | nil =>
        have : x = a := by simpa using hx
        subst this; simp [lastKey, hxL]
      | cons b u =>
        have hw' := List.pairwise_cons.mp hw
        have hlast : lastKey key (a :: b :: u) = lastKey key (b :: u) := by
          simp [lastKey, List.getLast?_cons_cons]
        rw [hlast]
        apply ih hw'.2 (fun y hy => hle y (List.mem_cons_of_mem _ hy))
        left
        rcases List.mem_cons.mp hx with h | h
        · subst h
          have h1 := hw'.1 b (by simp)
          have h2 := hle b (by simp)
          omega
        · exact ⟨x, h, hxL⟩
    · cases h

theorem pairwise_ins (l : List α) (hd : DenseK key l) (f : α → α) (num n : Int) (hn : 0 ≤ n)
    (hf : ∀ x, 1 ≤ key x → key (f x) = Spec.posIns num n (key x)) :
    (l.map f).Pairwise (fun a b => key a < key b) ∧ ∀ y ∈ l.map f, 1 ≤ key y := by
  constructor
  · rw [List.pairwise_map]
    apply List.Pairwise.imp_of_mem _ (hd.pairwise key)
    intro a b ha hb hab
    rw [hf a (hd.pos key a ha), hf b (hd.pos key b hb)]
    unfold Spec.posIns
    by_cases h1 : key a < num <;> by_cases h2 : key b < num <;> simp [h1, h2] <;> omega
  · intro y hy
    obtain ⟨x, hx, rfl⟩ := List.mem_map.mp hy
    have := hd.pos key x hx
    rw [hf x this]; unfold Spec.posIns
    by_cases h1 : key x < num <;> simp [h1] <;> omega

theorem pairwise_del (l : List α) (hd : DenseK key l) (f : α → α) (num : Int) (hnum : 1 ≤ num)
    (hf : ∀ x, 1 ≤ key x → key x ≠ num → key (f x) = Spec.posDel num (key x)) :
    ((l.filter fun x => key x != num).map f).Pairwise (fun a b => key a < key b) ∧
    ∀ y ∈ (l.filter fun x => key x != num).map f, 1 ≤ key y := by
  constructor
  · rw [List.pairwise_map]
    apply List.Pairwise.imp_of_mem _ ((hd.pairwise key).filter _)
    intro a b ha hb hab
    obtain ⟨ha1, ha2⟩ := List.mem_filter.mp ha
    obtain ⟨hb1, hb2⟩ := List.mem_filter.mp hb
    have na : key a ≠ num := by simpa using ha2
    have nb : key b ≠ num := by simpa using hb2
    rw [hf a (hd.pos key a ha1) na, hf b (hd.pos key b hb1) nb]
    unfold Spec.posDel
    by_cases h1 : key a < num <;> by_cases h2 : key b < num <;> simp [h1, h2] <;> omega
  · intro y hy
    obtain ⟨x, hx, rfl⟩ := List.mem_map.mp hy
    obtain ⟨hx1, hx2⟩ := List.mem_filter.mp hx
    have nx : key x ≠ num := by simpa using hx2
    have := hd.pos key x hx1
    rw [hf x this nx]; unfold Spec.posDel
    by_cases h1 : key x < num <;> simp [h1] <;> omega

theorem lastKey_ins (l : List α) (hd : DenseK key l) (f : α → α) (num n : Int) (hnum : 1 ≤ num) (hn : 0 ≤ n)
    (hf : ∀ x, 1 ≤ key x → key (f x) = Spec.posIns num n (key x)) :
    lastKey key (l.map f) = if num ≤ (l.length : Int) then (l.length : Int) + n else l.length := by
  apply lastKey_eq key _ (pairwise_ins key l hd f num n hn hf).1
  · intro y hy
    obtain ⟨x, hx, rfl⟩ := List.mem_map.mp hy
    have h1 := hd.pos key x hx
    have h2 := hd.le_length key x hx
    rw [hf x h1]; unfold Spec.posIns
    by_cases c : key x < num <;> by_cases c2 : num ≤ (l.length : Int) <;> simp [c, c2] <;> omega
  · by_cases hl : l.length = 0
    · right
      have : l = [] := List.length_eq_zero_iff.mp hl
      subst this
      refine ⟨rfl, ?_⟩
      have c2 : ¬ num ≤ 0 := by omega
      simp [c2]
    · left
      have hlt : l.length - 1 < l.length := by omega
      refine ⟨f l[l.length - 1], List.mem_map.mpr ⟨_, List.getElem_mem hlt, rfl⟩, ?_⟩
      have hk := hd (l.length - 1) l[l.length - 1] (by simp [hlt])
      rw [hf _ (by omega)]; unfold Spec.posIns
      by_cases c2 : num ≤ (l.length : Int)
      · have : ¬ key l[l.length - 1] < num := by omega
        simp [c2, this]; omega
      · have : key l[l.length - 1] < num := by omega
        simp [c2, this]; omega


theorem lastKey_del (l : List α) (hd : DenseK key l) (f : α → α) (num : Int) (hnum : 1 ≤ num)
    (hf : ∀ x, 1 ≤ key x → key x ≠ num → key (f x) = Spec.posDel num (key x)) :
    lastKey key ((l.filter fun x => key x != num).map f) =
      if num ≤ (l.length : Int) then (l.length : Int) - 1 else l.length := by
  apply lastKey_eq key _ (pairwise_del key l hd f num hnum hf).1
  · intro y hy
    obtain ⟨x, hx, rfl⟩ := List.mem_map.mp hy
    obtain ⟨hx1, hx2⟩ := List.mem_filter.mp hx
    have nx : key x ≠ num := by simpa using hx2
    have h1 := hd.pos key x hx1
    have h2 := hd.le_length key x hx1
    rw [hf x h1 nx]; unfold Spec.posDel
    by_cases c : key x < num <;> by_cases c2 : num ≤ (l.length : Int) <;> simp [c, c2] <;> omega
  · by_cases hl : l.length = 0
    · right
      have : l = [] := List.length_eq_zero_iff.mp hl
      subst this
      refine ⟨rfl, ?_⟩
      have c2 : ¬ num ≤ 0 := by omega
      simp [c2]
    · by_cases c2 : num ≤ (l.length : Int)
      · by_cases h1 : l.length = 1
        · right
          constructor
          · have : l.filter (fun x => key x != num) = [] := by
              apply List.filter_eq_nil_iff.mpr
              intro x hx
              have a := hd.pos key x hx
              have b := hd.le_length key x hx
              have : key x = num := by omega
              simp [this]
            simp [this]
          · simp [c2]; omega
        · left
          by_cases hnl : num = (l.length : Int)
          · have hlt : l.length - 2 < l.length := by omega
            have hk := hd (l.length - 2) l[l.length - 2] (by simp [hlt])
            have nx : key l[l.length - 2] ≠ num := by omega
            refine ⟨f l[l.length - 2], List.mem_map.mpr ⟨_, List.mem_filter.mpr ⟨List.getElem_mem hlt, by simp [nx]⟩, rfl⟩, ?_⟩
            rw [hf _ (by omega) nx]; unfold Spec.posDel
            have : key l[l.length - 2] < num := by omega
            simp [c2, this]; omega
          · have hlt : l.length - 1 < l.length := by omega
            have hk := hd (l.length - 1) l[l.length - 1] (by simp [hlt])
            have nx : key l[l.length - 1] ≠ num := by omega
            refine ⟨f l[l.length - 1], List.mem_map.mpr ⟨_, List.mem_filter.mpr ⟨List.getElem_mem hlt, by simp [nx]⟩, rfl⟩, ?_⟩
            rw [hf _ (by omega) nx]; unfold Spec.posDel
            have : ¬ key l[l.length - 1] < num := by omega
            simp [c2, this]; omega
      · left
        have hlt : l.length - 1 < l.length := by omega
        have hk := hd (l.length - 1) l[l.length - 1] (by simp [hlt])
        have nx : key l[l.length - 1] ≠ num := by omega
        refine ⟨f l[l.length - 1], List.mem_map.mpr ⟨_, List.mem_filter.mpr ⟨List.getElem_mem hlt, by simp [nx]⟩, rfl⟩, ?_⟩
        rw [hf _ (by omega) nx]; unfold Spec.posDel
        have : key l[l.length - 1] < num := by omega
        simp [c2, this]; omega

end Keyed

/-! ### rows -/

theorem incFrom_of_pairwise (l : List Row) (p : Int) (hp : ∀ x ∈ l, p < x.r)
    (hw : l.Pairwise (fun a b => a.r < b.r)) : incFrom p l = true := by
  induction l generalizing p with
  | nil => rfl
  | cons a t ih =>
    have hw' := List.pairwise_cons.mp hw
    simp only [incFrom, Bool.and_eq_true, decide_eq_true_eq]
    exact ⟨hp a (by simp), ih a.r (fun x hx => hw'.1 x hx) hw'.2⟩

theorem shiftRow_r_ins (row n : Int) (hn : 0 ≤ n) (x : Row) (hx : 1 ≤ x.r) :
    (shiftRow row n x).r = Spec.posIns row n x.r := by
  unfold shiftRow Spec.posIns bumpRow
  by_cases h : x.r ≥ row ∧ x.r + n > 0
  · have h' : ¬ x.r < row := by omega
    simp [h, h']
  · have h' : x.r < row := by omega
    simp [h, h']

theorem shiftRow_r_del (row : Int) (hrow : 1 ≤ row) (x : Row) (hx : 1 ≤ x.r) (hne : x.r ≠ row) :
    (shiftRow row (-1) x).r = Spec.posDel row x.r := by
  unfold shiftRow Spec.posDel bumpRow
  by_cases h : x.r ≥ row ∧ x.r + -1 > 0
  · have h' : ¬ x.r < row := by omega
    simp [h, h']; omega
  · have h' : x.r < row := by omega
    simp [h, h']

theorem setR_self (x : Row) (k : Int) (h : x.r = k) : { x with r := k } = x := by
  cases x; simp_all

/-- re-densification after the row shift of an insertion: the slot list in closed form -/
theorem rows_ins_slots (rows : List Row) (hd : DenseK Row.r rows) (row n : Int) (hrow : 1 ≤ row) (hn : 1 ≤ n) :
    ∃ out, checkSheet (rows.map (shiftRow row n)) = some out ∧
      ∀ j : Nat, out[j]? =
        if (j : Int) + 1 < row then rows[j]?
        else if (j : Int) + 1 < row + n then
          (if row ≤ (rows.length : Int) then some { zeroRow with r := (j : Int) + 1 } else none)
        else (rows[j - n.toNat]?).map (bumpRow n) := by
  have hf : ∀ x : Row, 1 ≤ x.r → (shiftRow row n x).r = Spec.posIns row n x.r :=
    fun x hx => shiftRow_r_ins row n (by omega) x hx
  have hpw := pairwise_ins Row.r rows hd (shiftRow row n) row n (by omega) hf
  have hinc : incFrom 0 (rows.map (shiftRow row n)) = true :=
    incFrom_of_pairwise _ 0 (fun x hx => by have := hpw.2 x hx; omega) hpw.1
  obtain ⟨out, ho, hlen, hslot⟩ := checkSheet_slot _ hinc
  refine ⟨out, ho, ?_⟩
  have hlast := lastKey_ins Row.r rows hd (shiftRow row n) row n hrow (by omega) hf
  unfold lastKey at hlast
  rw [hlast] at hlen
  intro j
  by_cases hj : j < out.length
  · rw [hslot j hj, find_ins Row.r rows hd (shiftRow row n) row n hrow (by omega) hf j]
    by_cases c1 : (j : Int) + 1 < row
    · have hjl : j < rows.length := by
        by_cases c : row ≤ (rows.length : Int)
        · omega
        · simp [c] at hlen; omega
      have hk := hd j rows[j] (by simp [hjl])
      have hs : shiftRow row n rows[j] = rows[j] := by
        unfold shiftRow; have : ¬ (rows[j].r ≥ row ∧ rows[j].r + n > 0) := by omega
        simp [this]
      simp only [c1, if_true, List.getElem?_eq_getElem hjl, Option.map_some, hs]
      rw [setR_self _ _ hk]
    · by_cases c2 : (j : Int) + 1 < row + n
      · have c : row ≤ (rows.length : Int) := by
          by_cases c : row ≤ (rows.length : Int)
          · exact c
          · simp [c] at hlen; omega
        simp [c1, c2, c]
      · have c : row ≤ (rows.length : Int) := by
          by_cases c : row ≤ (rows.length : Int)
          · exact c
          · simp [c] at hlen; omega
        simp only [c, if_true] at hlen
        have hjl : j - n.toNat < rows.length := by omega
        have hk := hd (j - n.toNat) rows[j - n.toNat] (by simp [hjl])
        have hs : shiftRow row n rows[j - n.toNat] = bumpRow n rows[j - n.toNat] := by
          unfold shiftRow; have : (rows[j - n.toNat].r ≥ row ∧ rows[j - n.toNat].r + n > 0) := by omega
          simp [this]
        simp only [c1, c2, if_false, List.getElem?_eq_getElem hjl, Option.map_some, hs]
        rw [setR_self _ _ (by simp [bumpRow]; omega)]
  · rw [List.getElem?_eq_none (by omega)]
    by_cases c : row ≤ (rows.length : Int)
    · simp only [c, if_true] at hlen
      have c1 : ¬ (j : Int) + 1 < row := by omega
      have c2 : ¬ (j : Int) + 1 < row + n := by omega
      simp only [c1, c2, if_false]
      rw [List.getElem?_eq_none (by omega)]; rfl
    · simp only [c, if_false] at hlen
      by_cases c1 : (j : Int) + 1 < row
      · simp only [c1, if_true]; rw [List.getElem?_eq_none (by omega)]
      · by_cases c2 : (j : Int) + 1 < row + n
        · simp [c1, c2, c]
        · simp only [c1, c2, if_false]
          rw [List.getElem?_eq_none (by omega)]; rfl

end XlModel.Adjust

namespace XlModel.Adjust
open XlModel

/-- re-densification after dropping row `row` and moving the later rows up -/
theorem rows_del_slots (rows : List Row) (hd : DenseK Row.r rows) (row : Int) (hrow : 1 ≤ row) :
    ∃ out, checkSheet ((rows.filter fun r => r.r != row).map (shiftRow row (-1))) = some out ∧
      ∀ j : Nat, out[j]? =
        if (j : Int) + 1 < row then rows[j]? else (rows[j + 1]?).map (bumpRow (-1)) := by
  have hf : ∀ x : Row, 1 ≤ x.r → x.r ≠ row → (shiftRow row (-1) x).r = Spec.posDel row x.r :=
    fun x hx hne => shiftRow_r_del row hrow x hx hne
  have hpw := pairwise_del Row.r rows hd (shiftRow row (-1)) row hrow hf
  have hinc : incFrom 0 ((rows.filter fun r => r.r != row).map (shiftRow row (-1))) = true :=
    incFrom_of_pairwise _ 0 (fun x hx => by have := hpw.2 x hx; omega) hpw.1
  obtain ⟨out, ho, hlen, hslot⟩ := checkSheet_slot _ hinc
  refine ⟨out, ho, ?_⟩
  have hlast := lastKey_del Row.r rows hd (shiftRow row (-1)) row hrow hf
  unfold lastKey at hlast
  rw [hlast] at hlen
  intro j
  by_cases hj : j < out.length
  · rw [hslot j hj, find_del Row.r rows hd (shiftRow row (-1)) row hrow hf j]
    by_cases c1 : (j : Int) + 1 < row
    · have hjl : j < rows.length := by
        by_cases c : row ≤ (rows.length : Int)
        · omega
        · simp [c] at hlen; omega
      have hk := hd j rows[j] (by simp [hjl])
      have hs : shiftRow row (-1) rows[j] = rows[j] := by
        unfold shiftRow; have : ¬ (rows[j].r ≥ row ∧ rows[j].r + -1 > 0) := by omega
        simp [this]
      simp only [c1, if_true, List.getElem?_eq_getElem hjl, Option.map_some, hs]
      rw [setR_self _ _ hk]
    · have c : row ≤ (rows.length : Int) := by
        by_cases c : row ≤ (rows.length : Int)
        · exact c
        · simp [c] at hlen; omega
      simp only [c, if_true] at hlen
      have hjl : j + 1 < rows.length := by omega
      have hk := hd (j + 1) rows[j + 1] (by simp [hjl])
      have hs : shiftRow row (-1) rows[j + 1] = bumpRow (-1) rows[j + 1] := by
        unfold shiftRow; have : (rows[j + 1].r ≥ row ∧ rows[j + 1].r + -1 > 0) := by omega
        simp [this]
      simp only [c1, if_false, List.getElem?_eq_getElem hjl, Option.map_some, hs]
      rw [setR_self _ _ (by simp [bumpRow]; omega)]
  · rw [List.getElem?_eq_none (by omega)]
    by_cases c : row ≤ (rows.length : Int)
    · simp only [c, if_true] at hlen
      have c1 : ¬ (j : Int) + 1 < row := by omega
      simp only [c1, if_false]
      rw [List.getElem?_eq_none (by omega)]; rfl
    · simp only [c, if_false] at hlen
      by_cases c1 : (j : Int) + 1 < row
      · simp only [c1, if_true]; rw [List.getElem?_eq_none (by omega)]
      · simp only [c1, if_false]
        rw [List.getElem?_eq_none (by omega)]; rfl

/-- no row carries number `row` when `row` is beyond the last slot -/
theorem filter_beyond (rows : List Row) (hd : DenseK Row.r rows) (row : Int) (h : row > (rows.length : Int)) :
    rows.filter (fun r => r.r != row) = rows := by
  apply List.filter_eq_self.mpr
  intro x hx
  have := hd.le_length Row.r x hx
  have : x.r ≠ row := by omega
  simp [this]

/-! ### the density invariant of a worksheet grid and `checkRow` on it -/

structure WF (rows : List Row) : Prop where
  rowsDense : DenseK Row.r rows
  cellsDense : ∀ r ∈ rows, DenseK Cell.c r.cells
  cellRows : ∀ r ∈ rows, ∀ x ∈ r.cells, x.r = r.r
  rowsLe : (rows.length : Int) ≤ maxRows
  colsLe : ∀ r ∈ rows, (r.cells.length : Int) ≤ maxCols

theorem checkRowCells_id (i : Nat) (cells : List Cell) (hd : DenseK Cell.c cells)
    (hok : ∀ x ∈ cells, cellOk x.c x.r = true) : checkRowCells i cells = .ok cells := by
  unfold checkRowCells
  cases hl : cells.getLast? with
  | none => rfl
  | some last =>
    have hne : cells ≠ [] := by intro e; subst e; simp at hl
    have hlen : 0 < cells.length := List.length_pos_iff.mpr hne
    have hlast : cells[cells.length - 1]? = some last := by
      rw [← hl, List.getLast?_eq_getElem?]
    have hk := hd _ last hlast
    have hany : (cells.any fun x => !cellOk x.c x.r) = false := by
      apply List.any_eq_false.mpr
      intro x hx; simp [hok x hx]
    have hlt : ¬ ((cells.length : Int) < last.c) := by omega
    simp [hany, hlt]

theorem checkRowAux_id (rows : List Row) (i : Nat)
    (h : ∀ r ∈ rows, DenseK Cell.c r.cells ∧ ∀ x ∈ r.cells, cellOk x.c x.r = true) :
    checkRowAux i rows = .ok rows := by
  induction rows generalizing i with
  | nil => rfl
  | cons a t ih =>
    have ha := h a (by simp)
    simp only [checkRowAux, checkRowCells_id i a.cells ha.1 ha.2,
      ih (i + 1) (fun r hr => h r (List.mem_cons_of_mem _ hr))]

theorem WF.cells_ok {rows : List Row} (hw : WF rows) : ∀ r ∈ rows, ∀ x ∈ r.cells, cellOk x.c x.r = true := by
  intro r hr x hx
  have h1 := (hw.cellsDense r hr).pos Cell.c x hx
  have h2 := (hw.cellsDense r hr).le_length Cell.c x hx
  have h3 := hw.colsLe r hr
  have h4 := hw.cellRows r hr x hx
  have h5 := hw.rowsDense.pos Row.r r hr
  have h6 := hw.rowsDense.le_length Row.r r hr
  have h7 := hw.rowsLe
  unfold cellOk
  simp only [decide_eq_true_eq]
  omega

theorem checkRow_id {rows : List Row} (hw : WF rows) : checkRow rows = .ok rows :=
  checkRowAux_id rows 0 (fun r hr => ⟨hw.cellsDense r hr, hw.cells_ok r hr⟩)

end XlModel.Adjust

namespace XlModel.Adjust
open XlModel

/-! ### observation of the grid (positional, as the getters index it) -/

/-- what a reader sees of a row: hidden flag, the other attributes, the (style, payload) of its cell slots -/
def rowView (x : Row) : Bool × String × List (Nat × String) :=
  (x.hidden, x.attr, x.cells.map fun c => (c.s, c.v))

def emptyView : Bool × String × List (Nat × String) := (false, "-", [])

/-- the getters' row lookup: `ws.SheetData.Row[row-1]` -/
def slotRow (rows : List Row) (r : Int) : Option Row := if 1 ≤ r then rows[(r - 1).toNat]? else none

def viewAt (rows : List Row) (r : Int) : Bool × String × List (Nat × String) :=
  match slotRow rows r with
  | some x => rowView x
  | none => emptyView

def payAt (l : List (Nat × String)) (c : Int) : Nat × String :=
  match (if 1 ≤ c then l[(c - 1).toNat]? else none) with
  | some p => p
  | none => (0, blankTok)

/-- (style, payload) at column `c`, row `r`; `(0, "-")` where nothing is stored -/
def gridAt (rows : List Row) (c r : Int) : Nat × String := payAt (viewAt rows r).2.2 c

/-- (hidden, other attributes) of row `r` -/
def attrAt (rows : List Row) (r : Int) : Bool × String := ((viewAt rows r).1, (viewAt rows r).2.1)

theorem rowView_bump (n : Int) (x : Row) : rowView (bumpRow n x) = rowView x := by
  simp [rowView, bumpRow, List.map_map, Function.comp_def]

theorem bump_cells_dense (n : Int) (x : Row) (h : DenseK Cell.c x.cells) : DenseK Cell.c (bumpRow n x).cells := by
  intro i y hy
  simp only [bumpRow, List.getElem?_map] at hy
  obtain ⟨z, hz, rfl⟩ := Option.map_eq_some_iff.mp hy
  exact h i z hz

theorem adjustRowDimensions_some (rows : List Row) (hd : DenseK Row.r rows) (row off : Int) (hrow : 1 ≤ row)
    (rows1 : List Row) (h : adjustRowDimensions rows row off = some rows1) :
    rows1 = rows.map (shiftRow row off) ∧
    (row ≤ (rows.length : Int) → 0 < off → (rows.length : Int) + off ≤ maxRows) := by
  unfold adjustRowDimensions at h
  cases hl : rows.getLast? with
  | none =>
    have : rows = [] := by simpa using hl
    subst this
    simp [hl] at h
    exact ⟨by simp [h], by intro h1; simp at h1; omega⟩
  | some last =>
    simp only [hl] at h
    split at h
    · cases h
    · rename_i hc
      refine ⟨(Option.some.inj h).symm, ?_⟩
      intro h1 h2
      have hne : rows ≠ [] := by intro e; subst e; simp at hl
      have hlen : 0 < rows.length := List.length_pos_iff.mpr hne
      have hlast : rows[rows.length - 1]? = some last := by rw [← hl, List.getLast?_eq_getElem?]
      have hk := hd _ last hlast
      omega

/-- the invariant is preserved by a row insertion and the view is the shifted view -/
theorem rows_ins_view (rows : List Row) (hw : WF rows) (row n : Int) (hrow : 1 ≤ row) (hn : 1 ≤ n)
    (hlim : row ≤ (rows.length : Int) → (rows.length : Int) + n ≤ maxRows) (out : List Row)
    (hout : ∀ j : Nat, out[j]? =
        if (j : Int) + 1 < row then rows[j]?
        else if (j : Int) + 1 < row + n then
          (if row ≤ (rows.length : Int) then some { zeroRow with r := (j : Int) + 1 } else none)
        else (rows[j - n.toNat]?).map (bumpRow n)) :
    WF out ∧ ∀ r, viewAt out r = Spec.insAt row n emptyView (viewAt rows) r := by
  -- classification of a stored slot
  have hcls : ∀ (j : Nat) (y : Row), out[j]? = some y →
      (rows[j]? = some y ∧ (j : Int) + 1 < row) ∨
      (y = { zeroRow with r := (j : Int) + 1 } ∧ row ≤ (rows.length : Int) ∧ (j : Int) + 1 < row + n) ∨
      (∃ x, rows[j - n.toNat]? = some x ∧ y = bumpRow n x ∧ row + n ≤ (j : Int) + 1) := by
    intro j y hy
    rw [hout j] at hy
    by_cases c1 : (j : Int) + 1 < row
    · simp only [c1, if_true] at hy; exact Or.inl ⟨hy, c1⟩
    · by_cases c2 : (j : Int) + 1 < row + n
      · simp only [c1, c2, if_true, if_false] at hy
        by_cases c : row ≤ (rows.length : Int)
        · simp only [c, if_true] at hy
          exact Or.inr (Or.inl ⟨(Option.some.inj hy).symm, c, c2⟩)
        · simp [c] at hy
      · simp only [c1, c2, if_false] at hy
        obtain ⟨x, hx, rfl⟩ := Option.map_eq_some_iff.mp hy
        exact Or.inr (Or.inr ⟨x, hx, rfl, by omega⟩)
  have hlt : ∀ {l : List Row} {i : Nat} {x : Row}, l[i]? = some x → i < l.length := by
    intro l i x h
    by_cases c : i < l.length
    · exact c
    · rw [List.getElem?_eq_none (by omega)] at h; cases h
  constructor
  · refine ⟨?_, ?_, ?_, ?_, ?_⟩
    · intro j y hy
      rcases hcls j y hy with ⟨h, _⟩ | ⟨h, _, _⟩ | ⟨x, hx, rfl, hge⟩
      · exact hw.rowsDense j y h
      · subst h; rfl
      · have := hw.rowsDense _ x hx
        simp only [bumpRow]; omega
    · intro y hy
      obtain ⟨j, hj⟩ := List.mem_iff_getElem?.mp hy
      rcases hcls j y hj with ⟨h, _⟩ | ⟨h, _, _⟩ | ⟨x, hx, rfl, _⟩
      · exact hw.cellsDense y (List.mem_of_getElem? h)
      · subst h; intro i z hz; simp [zeroRow] at hz
      · exact bump_cells_dense n x (hw.cellsDense x (List.mem_of_getElem? hx))
    · intro y hy z hz
      obtain ⟨j, hj⟩ := List.mem_iff_getElem?.mp hy
      rcases hcls j y hj with ⟨h, _⟩ | ⟨h, _, _⟩ | ⟨x, hx, rfl, _⟩
      · exact hw.cellRows y (List.mem_of_getElem? h) z hz
      · subst h; simp [zeroRow] at hz
      · simp only [bumpRow, List.mem_map] at hz
        obtain ⟨w, _, rfl⟩ := hz
        rfl
    · have h7 := hw.rowsLe
      by_cases c : (out.length : Int) ≤ maxRows
      · exact c
      · exfalso
        have hmr : maxRows = 1048576 := by decide
        have hj : maxRows.toNat < out.length := by omega
        have hy : out[maxRows.toNat]? = some out[maxRows.toNat] := by simp [hj]
        rcases hcls _ _ hy with ⟨h, _⟩ | ⟨_, h1, h2⟩ | ⟨x, hx, _, hge⟩
        · have := hlt h; omega
        · have := hlim h1; omega
        · have := hlt hx
          have : row ≤ (rows.length : Int) := by omega
          have := hlim this
          omega
    · intro y hy
      obtain ⟨j, hj⟩ := List.mem_iff_getElem?.mp hy
      rcases hcls j y hj with ⟨h, _⟩ | ⟨h, _, _⟩ | ⟨x, hx, rfl, _⟩
      · exact hw.colsLe y (List.mem_of_getElem? h)
      · subst h; simp [zeroRow, maxCols]
      · have := hw.colsLe x (List.mem_of_getElem? hx)
        simpa [bumpRow] using this
  · intro r
    unfold Spec.insAt viewAt slotRow
    by_cases hr : 1 ≤ r
    · have hj : (((r - 1).toNat : Nat) : Int) + 1 = r := by omega
      simp only [hr, if_true]
      rw [hout (r - 1).toNat, hj]
      by_cases c1 : r < row
      · simp [c1]
      · by_cases c2 : r < row + n
        · simp only [c1, c2, if_true, if_false]
          by_cases c : row ≤ (rows.length : Int)
          · simp [c, rowView, zeroRow, emptyView]
          · simp [c]
        · have h1 : 1 ≤ r - n := by omega
          have e : (r - 1).toNat - n.toNat = (r - n - 1).toNat := by omega
          simp only [c1, c2, if_false, h1, if_true, e]
          cases rows[(r - n - 1).toNat]? with
          | none => rfl
          | some x => simp [rowView_bump]
    · have c1 : r < row := by omega
      simp [hr, c1]

end XlModel.Adjust

namespace XlModel.Adjust
open XlModel

theorem rows_del_view (rows : List Row) (hw : WF rows) (row : Int) (hrow : 1 ≤ row) (out : List Row)
    (hout : ∀ j : Nat, out[j]? =
        if (j : Int) + 1 < row then rows[j]? else (rows[j + 1]?).map (bumpRow (-1))) :
    WF out ∧ ∀ r, viewAt out r = Spec.delAt row (viewAt rows) r := by
  have hcls : ∀ (j : Nat) (y : Row), out[j]? = some y →
      (rows[j]? = some y ∧ (j : Int) + 1 < row) ∨
      (∃ x, rows[j + 1]? = some x ∧ y = bumpRow (-1) x ∧ row ≤ (j : Int) + 1) := by
    intro j y hy
    rw [hout j] at hy
    by_cases c1 : (j : Int) + 1 < row
    · simp only [c1, if_true] at hy; exact Or.inl ⟨hy, c1⟩
    · simp only [c1, if_false] at hy
      obtain ⟨x, hx, rfl⟩ := Option.map_eq_some_iff.mp hy
      exact Or.inr ⟨x, hx, rfl, by omega⟩
  have hlt : ∀ {l : List Row} {i : Nat} {x : Row}, l[i]? = some x → i < l.length := by
    intro l i x h
    by_cases c : i < l.length
    · exact c
    · rw [List.getElem?_eq_none (by omega)] at h; cases h
  constructor
  · refine ⟨?_, ?_, ?_, ?_, ?_⟩
    · intro j y hy
      rcases hcls j y hy with ⟨h, _⟩ | ⟨x, hx, rfl, hge⟩
      · exact hw.rowsDense j y h
      · have := hw.rowsDense _ x hx
        simp only [bumpRow]; omega
    · intro y hy
      obtain ⟨j, hj⟩ := List.mem_iff_getElem?.mp hy
      rcases hcls j y hj with ⟨h, _⟩ | ⟨x, hx, rfl, _⟩
      · exact hw.cellsDense y (List.mem_of_getElem? h)
      · exact bump_cells_dense (-1) x (hw.cellsDense x (List.mem_of_getElem? hx))
    · intro y hy z hz
      obtain ⟨j, hj⟩ := List.mem_iff_getElem?.mp hy
      rcases hcls j y hj with ⟨h, _⟩ | ⟨x, hx, rfl, _⟩
      · exact hw.cellRows y (List.mem_of_getElem? h) z hz
      · simp only [bumpRow, List.mem_map] at hz
        obtain ⟨w, _, rfl⟩ := hz
        rfl
    · have h7 := hw.rowsLe
      by_cases c : (out.length : Int) ≤ maxRows
      · exact c
      · exfalso
        have hj : rows.length < out.length := by omega
        have hy : out[rows.length]? = some out[rows.length] := by simp [hj]
        rcases hcls _ _ hy with ⟨h, _⟩ | ⟨x, hx, _, _⟩
        · have := hlt h; omega
        · have := hlt hx; omega
    · intro y hy
      obtain ⟨j, hj⟩ := List.mem_iff_getElem?.mp hy
      rcases hcls j y hj with ⟨h, _⟩ | ⟨x, hx, rfl, _⟩
      · exact hw.colsLe y (List.mem_of_getElem? h)
      · have := hw.colsLe x (List.mem_of_getElem? hx)
        simpa [bumpRow] using this
  · intro r
    unfold Spec.delAt viewAt slotRow
    by_cases hr : 1 ≤ r
    · have hj : (((r - 1).toNat : Nat) : Int) + 1 = r := by omega
      simp only [hr, if_true]
      rw [hout (r - 1).toNat, hj]
      by_cases c1 : r < row
      · simp [c1]
      · have h1 : 1 ≤ r + 1 := by omega
        have e : (r - 1).toNat + 1 = (r + 1 - 1).toNat := by omega
        simp only [c1, if_false, h1, if_true, e]
        cases rows[(r + 1 - 1).toNat]? with
        | none => rfl
        | some x => simp [rowView_bump]
    · have c1 : r < row := by omega
      simp [hr, c1]

/-! ### the object adjusters leave the grid alone (up to the `hidden` flags an auto filter takes with it) -/

/-- a row without its `hidden` flag -/
def core (r : Row) : Int × String × List Cell := (r.r, r.attr, r.cells)

/-- what `runAdjusters` may do to rows and columns -/
def GridKept (off : Int) (s s' : Sheet) : Prop :=
  s'.rows.map core = s.rows.map core ∧ s'.cols = s.cols ∧
  (0 < off → s'.rows = s.rows) ∧ (s.filter = none → s'.rows = s.rows ∧ s'.filter = none)

theorem GridKept.refl (off : Int) (s : Sheet) : GridKept off s s := ⟨rfl, rfl, fun _ => rfl, fun h => ⟨rfl, h⟩⟩

theorem GridKept.trans {off : Int} {a b c : Sheet} (h1 : GridKept off a b) (h2 : GridKept off b c) :
    GridKept off a c :=
  ⟨h2.1.trans h1.1, h2.2.1.trans h1.2.1, fun h => (h2.2.2.1 h).trans (h1.2.2.1 h),
   fun h => ⟨((h2.2.2.2 (h1.2.2.2 h).2).1).trans (h1.2.2.2 h).1, (h2.2.2.2 (h1.2.2.2 h).2).2⟩⟩

theorem clearHidden_core (rows : List Row) (p : Row → Prop) [DecidablePred p] :
    (rows.map fun r => if p r then { r with hidden := false } else r).map core = rows.map core := by
  simp only [List.map_map]
  apply List.map_congr_left
  intro r _
  simp only [Function.comp, core]
  split <;> rfl

theorem adjustFilter_kept (flt : Option (Option Rect)) (rows : List Row) (dir : Dir) (num off : Int) :
    (adjustFilter flt rows dir num off).2.2.map core = rows.map core ∧
    (0 < off → (adjustFilter flt rows dir num off).2.2 = rows) ∧
    (flt = none → (adjustFilter flt rows dir num off).2.2 = rows ∧ (adjustFilter flt rows dir num off).2.1 = none) := by
  rcases flt with _ | _ | q
  · exact ⟨rfl, fun _ => rfl, fun _ => ⟨rfl, rfl⟩⟩
  · exact ⟨rfl, fun _ => rfl, fun h => by cases h⟩
  · refine ⟨?_, ?_, fun h => by cases h⟩
    · cases dir
      · simp only [adjustFilter]
        by_cases hg : off < 0 ∧ q.y1 = num
        · simp only [hg, and_self, decide_true, if_true]
          exact clearHidden_core rows _
        · simp only [hg, decide_false, Bool.false_eq_true, if_false]
          split <;> rfl
      · simp only [adjustFilter]
        by_cases hg : off < 0 ∧ q.x1 = num ∧ q.x2 = num
        · simp only [hg, and_self, decide_true, if_true]
          exact clearHidden_core rows _
        · simp only [hg, decide_false, Bool.false_eq_true, if_false]
          split <;> rfl
    · intro hoff
      cases dir
      · simp only [adjustFilter]
        have hg : ¬ (off < 0 ∧ q.y1 = num) := by omega
        simp only [hg, decide_false, Bool.false_eq_true, if_false]
        split <;> rfl
      · simp only [adjustFilter]
        have hg : ¬ (off < 0 ∧ q.x1 = num ∧ q.x2 = num) := by omega
        simp only [hg, decide_false, Bool.false_eq_true, if_false]
        split <;> rfl

theorem runAdjuster_kept (name : String) (dir : Dir) (num off : Int) (s : Sheet) :
    GridKept off s (runAdjuster name dir num off s).2 := by
  unfold runAdjuster
  split
  · exact ⟨rfl, rfl, fun _ => rfl, fun h => ⟨rfl, h⟩⟩
  split
  · exact ⟨rfl, rfl, fun _ => rfl, fun h => ⟨rfl, h⟩⟩
  split
  · exact ⟨rfl, rfl, fun _ => rfl, fun h => ⟨rfl, h⟩⟩
  split
  · have h := adjustFilter_kept s.filter s.rows dir num off
    exact ⟨h.1, rfl, h.2.1, h.2.2⟩
  split
  · exact ⟨rfl, rfl, fun _ => rfl, fun h => ⟨rfl, h⟩⟩
  · exact GridKept.refl off s

theorem runAdjusters_kept (l : List String) (dir : Dir) (num off : Int) (s : Sheet) :
    GridKept off s (runAdjusters l dir num off s).2 := by
  induction l generalizing s with
  | nil => exact GridKept.refl off s
  | cons a t ih =>
    unfold runAdjusters
    have h1 := runAdjuster_kept a dir num off s
    rcases hr : runAdjuster a dir num off s with ⟨st, s'⟩
    rw [hr] at h1
    cases st
    · exact h1.trans (ih s')
    all_goals exact h1

end XlModel.Adjust

namespace XlModel.Adjust
open XlModel

theorem rangeLimitHit_neg (s : Sheet) (dir : Dir) (num off : Int) (h : off ≤ 0) :
    rangeLimitHit s dir num off = false := by
  unfold rangeLimitHit
  have : ¬ off > 0 := by omega
  simp [this]

/-- rejected by the range limit check: nothing has been touched -/
theorem adjustHelperG_hit (s : Sheet) (dir : Dir) (num off : Int)
    (h : (Facts.C06.rangeCheckFirst && rangeLimitHit s dir num off) = true) :
    adjustHelperG false s dir num off = (.err, s) := by
  unfold adjustHelperG; simp [h]

/-- rejected by the content limit check: nothing has been touched -/
theorem adjustHelperG_dims_none (s : Sheet) (dir : Dir) (num off : Int)
    (h : adjustDims s dir num off = none) : adjustHelperG false s dir num off = (.err, s) := by
  unfold adjustHelperG
  split
  · rfl
  · simp [h]

/-- `adjustHelper` computed forward once the limit checks pass and the re-densification is known -/
theorem adjustHelper_forward (s s1 : Sheet) (dir : Dir) (num off : Int) (rows2 rows3 : List Row)
    (h0 : (Facts.C06.rangeCheckFirst && rangeLimitHit s dir num off) = false)
    (h1 : adjustDims s dir num off = some s1) (h2 : checkSheet s1.rows = some rows2)
    (h3 : checkRow rows2 = .ok rows3) :
    adjustHelper s dir num off =
      runAdjusters Facts.C06.adjusters dir num off
        { s1 with links := adjustHyperlinks s1.links dir num off, rows := rows3 } := by
  unfold adjustHelper adjustHelperG recheck
  simp [h0, h1, h2, h3]

theorem payAt_empty (c : Int) : payAt emptyView.2.2 c = (0, blankTok) := by
  unfold payAt emptyView
  split <;> simp_all

theorem grid_of_view_ins (a b : List Row) (num n : Int)
    (h : ∀ r, viewAt a r = Spec.insAt num n emptyView (viewAt b) r) (c r : Int) :
    gridAt a c r = Spec.insAt num n (0, blankTok) (fun i => gridAt b c i) r ∧
    attrAt a r = Spec.insAt num n (false, "-") (attrAt b) r := by
  unfold gridAt attrAt
  rw [h r]
  unfold Spec.insAt
  by_cases c1 : r < num
  · simp [c1]
  · by_cases c2 : r < num + n
    · simp [c1, c2, payAt_empty]; exact ⟨rfl, rfl⟩
    · simp [c1, c2]

theorem grid_of_view_del (a b : List Row) (num : Int)
    (h : ∀ r, viewAt a r = Spec.delAt num (viewAt b) r) (c r : Int) :
    gridAt a c r = Spec.delAt num (fun i => gridAt b c i) r ∧
    attrAt a r = Spec.delAt num (attrAt b) r := by
  unfold gridAt attrAt
  rw [h r]
  unfold Spec.delAt
  by_cases c1 : r < num <;> simp [c1]

end XlModel.Adjust

namespace XlModel.Adjust
open XlModel

theorem core_getElem (a b : List Row) (h : a.map core = b.map core) (i : Nat) (y : Row) (hy : b[i]? = some y) :
    ∃ x, a[i]? = some x ∧ core x = core y := by
  have e : (a.map core)[i]? = (b.map core)[i]? := by rw [h]
  simp only [List.getElem?_map, hy, Option.map_some] at e
  obtain ⟨x, hx, hc⟩ := Option.map_eq_some_iff.mp e
  exact ⟨x, hx, hc⟩

theorem view_of_core (a b : List Row) (h : a.map core = b.map core) (r : Int) :
    (viewAt a r).2 = (viewAt b r).2 := by
  unfold viewAt slotRow
  by_cases hr : 1 ≤ r
  · simp only [hr, if_true]
    have e : (a.map core)[(r - 1).toNat]? = (b.map core)[(r - 1).toNat]? := by rw [h]
    simp only [List.getElem?_map] at e
    cases ha : a[(r - 1).toNat]? with
    | none =>
      cases hb : b[(r - 1).toNat]? with
      | none => rfl
      | some y => rw [ha, hb] at e; cases e
    | some x =>
      cases hb : b[(r - 1).toNat]? with
      | none => rw [ha, hb] at e; cases e
      | some y =>
        rw [ha, hb] at e
        have hc : core x = core y := Option.some.inj e
        simp only [core, Prod.mk.injEq] at hc
        simp [rowView, hc.2.1, hc.2.2]
  · simp [hr]

theorem WF_of_core (a b : List Row) (h : a.map core = b.map core) (hw : WF a) : WF b := by
  have hlen : a.length = b.length := by simpa using congrArg List.length h
  have key : ∀ y ∈ b, ∃ x ∈ a, core x = core y := by
    intro y hy
    obtain ⟨i, hi⟩ := List.mem_iff_getElem?.mp hy
    obtain ⟨x, hx, hc⟩ := core_getElem a b h i y hi
    exact ⟨x, List.mem_of_getElem? hx, hc⟩
  refine ⟨?_, ?_, ?_, ?_, ?_⟩
  · intro i y hy
    obtain ⟨x, hx, hc⟩ := core_getElem a b h i y hy
    simp only [core, Prod.mk.injEq] at hc
    rw [← hc.1]; exact hw.rowsDense i x hx
  · intro y hy
    obtain ⟨x, hx, hc⟩ := key y hy
    simp only [core, Prod.mk.injEq] at hc
    rw [← hc.2.2]; exact hw.cellsDense x hx
  · intro y hy z hz
    obtain ⟨x, hx, hc⟩ := key y hy
    simp only [core, Prod.mk.injEq] at hc
    rw [← hc.2.2] at hz; rw [← hc.1]; exact hw.cellRows x hx z hz
  · rw [← hlen]; exact hw.rowsLe
  · intro y hy
    obtain ⟨x, hx, hc⟩ := key y hy
    simp only [core, Prod.mk.injEq] at hc
    rw [← hc.2.2]; exact hw.colsLe x hx

end XlModel.Adjust

namespace XlModel.Adjust
open XlModel

theorem adjustSq_some (dir : Dir) (num off : Int) (hoff : 0 < off) (qs : List Rect)
    (h : ∀ q ∈ qs, rectOk q = true ∧ exceeds dir num off (axisStart dir q) = false) :
    ∃ r, adjustSq dir num off qs = some r := by
  induction qs with
  | nil => exact ⟨[], rfl⟩
  | cons q t ih =>
    obtain ⟨r, hr⟩ := ih (fun x hx => h x (List.mem_cons_of_mem _ hx))
    obtain ⟨hq, he⟩ := h q (by simp)
    cases dir
    · have hskip : ¬ (off < 0 ∧ q.y1 = q.y2 ∧ num = q.y1) := by omega
      have hok : rectOk { q with y1 := (sqAxis q.y1 q.y2 num off maxRows).1,
                                 y2 := (sqAxis q.y1 q.y2 num off maxRows).2 } = true := by
        simp only [rectOk, cellOk, Bool.and_eq_true, decide_eq_true_eq] at hq ⊢
        have he' : ¬ (q.y1 ≥ num ∧ q.y1 + off > maxRows) := by
          simpa [exceeds, axisStart] using he
        unfold sqAxis startMoves
        simp only [decide_eq_true_eq]
        split <;> split <;> (try split) <;> omega
      simp only [adjustSq, hskip, if_false, hok, if_true, hr, Option.map_some]
      exact ⟨_, rfl⟩
    · have hskip : ¬ (off < 0 ∧ q.x1 = q.x2 ∧ num = q.x1) := by omega
      have hok : rectOk { q with x1 := (sqAxis q.x1 q.x2 num off maxCols).1,
                                 x2 := (sqAxis q.x1 q.x2 num off maxCols).2 } = true := by
        simp only [rectOk, cellOk, Bool.and_eq_true, decide_eq_true_eq] at hq ⊢
        have he' : ¬ (q.x1 ≥ num ∧ q.x1 + off > maxCols) := by
          simpa [exceeds, axisStart] using he
        unfold sqAxis startMoves
        simp only [decide_eq_true_eq]
        split <;> split <;> (try split) <;> omega
      simp only [adjustSq, hskip, if_false, hok, if_true, hr, Option.map_some]
      exact ⟨_, rfl⟩

theorem adjustSqItems_ok (dir : Dir) (num off : Int) (hoff : 0 < off) (its : List SqItem)
    (h : ∀ it ∈ its, ∀ q ∈ it.rects, rectOk q = true ∧ exceeds dir num off (axisStart dir q) = false) :
    (adjustSqItems dir num off its).1 = .ok := by
  induction its with
  | nil => rfl
  | cons it t ih =>
    have iht := ih (fun x hx => h x (List.mem_cons_of_mem _ hx))
    obtain ⟨r, hr⟩ := adjustSq_some dir num off hoff it.rects (h it (by simp))
    unfold adjustSqItems
    rw [hr]
    cases r with
    | nil => exact iht
    | cons a b => simpa using iht


end XlModel.Adjust
