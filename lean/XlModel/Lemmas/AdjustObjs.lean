/-
List-level refinement of the object adjusters of C06 on insertion: merged
cells, auto filter, tables, sqref items (conditional formats, data
validations) and hyperlinks are mapped element by element by the shift rule,
and the adjusters succeed whenever the range limit check has passed.
-/
import XlModel.Lemmas.AdjustCols

namespace XlModel.Adjust
open XlModel

/-- the shift of a rectangle on the edited axis (before → unchanged, spanning → grows, after → moves) -/
def insRect (dir : Dir) (num off : Int) (q : Rect) : Rect :=
  match dir with
  | .rows => { q with y1 := Spec.posIns num off q.y1, y2 := Spec.posIns num off q.y2 }
  | .cols => { q with x1 := Spec.posIns num off q.x1, x2 := Spec.posIns num off q.x2 }

/-- a well-formed range: inside the sheet, corners in order -/
def RectValid (q : Rect) : Prop := rectOk q = true ∧ q.x1 ≤ q.x2 ∧ q.y1 ≤ q.y2

theorem rectOk_iff (q : Rect) : rectOk q = true ↔
    (1 ≤ q.x1 ∧ q.x1 ≤ maxCols ∧ 1 ≤ q.y1 ∧ q.y1 ≤ maxRows) ∧ (1 ≤ q.x2 ∧ q.x2 ≤ maxCols ∧ 1 ≤ q.y2 ∧ q.y2 ≤ maxRows) := by
  simp [rectOk, cellOk]

/-- the shifted rectangle of a valid range whose end stays inside is valid -/
theorem insRect_valid (dir : Dir) (num off : Int) (hoff : 0 < off) (q : Rect) (hv : RectValid q)
    (he : exceeds dir num off (axisEnd dir q) = false) : RectValid (insRect dir num off q) := by
  obtain ⟨hok, hx, hy⟩ := hv
  rw [rectOk_iff] at hok
  cases dir
  · have he : ¬ (q.y2 ≥ num ∧ q.y2 + off > maxRows) := by simpa [exceeds, axisEnd] using he
    refine ⟨?_, hx, ?_⟩
    · rw [rectOk_iff]; simp only [insRect, Spec.posIns]
      split <;> split <;> omega
    · simp only [insRect, Spec.posIns]; split <;> split <;> omega
  · have he : ¬ (q.x2 ≥ num ∧ q.x2 + off > maxCols) := by simpa [exceeds, axisEnd] using he
    refine ⟨?_, ?_, hy⟩
    · rw [rectOk_iff]; simp only [insRect, Spec.posIns]
      split <;> split <;> omega
    · simp only [insRect, Spec.posIns]; split <;> split <;> omega

/-- `adjustMergeCells` on insertion, element by element: single-cell ranges are dropped, every other
merged range is shifted -/
theorem adjustMerges_ins (dir : Dir) (num off : Int) (hoff : 0 < off) (ms : List (Option Rect))
    (h : ∀ m ∈ ms, ∃ q, m = some q ∧ RectValid q ∧ exceeds dir num off (axisEnd dir q) = false) :
    adjustMerges dir num off ms =
      (.ok, ms.filterMap fun m => m.bind fun q =>
        if q.x1 = q.x2 ∧ q.y1 = q.y2 then none else some (some (insRect dir num off q))) := by
  induction ms with
  | nil => rfl
  | cons m t ih =>
    obtain ⟨q, rfl, hv, he⟩ := h m (by simp)
    have iht := ih (fun x hx => h x (List.mem_cons_of_mem _ hx))
    have hv' := insRect_valid dir num off hoff q hv he
    obtain ⟨_, hx, hy⟩ := hv
    cases dir
    · have hhit : ¬ (q.y1 = num ∧ q.y2 = num ∧ off < 0) := by omega
      have hm : mergeHelper q.y1 q.y2 num off = (Spec.posIns num off q.y1, Spec.posIns num off q.y2) := by
        unfold mergeHelper Spec.posIns
        have h1 : ¬ q.y2 < q.y1 := by omega
        have h0 : off ≥ 0 := by omega
        simp only [h1, if_false, h0, if_true]
        by_cases c1 : num ≤ q.y1
        · have : ¬ q.y1 < num := by omega
          have : ¬ q.y2 < num := by omega
          simp [*]
        · by_cases c2 : num ≤ q.y2
          · have : q.y1 < num := by omega
            have : ¬ q.y2 < num := by omega
            simp [*]
          · have : q.y1 < num := by omega
            have : q.y2 < num := by omega
            simp [*]
      have hs : (q.x1 = q.x2 ∧ Spec.posIns num off q.y1 = Spec.posIns num off q.y2) ↔
          (q.x1 = q.x2 ∧ q.y1 = q.y2) := by
        unfold Spec.posIns; split <;> split <;> constructor <;> intro h <;> omega
      have hok' : rectOk ({ q with y1 := Spec.posIns num off q.y1, y2 := Spec.posIns num off q.y2 } : Rect) = true := hv'.1
      simp only [adjustMerges, hhit, decide_false, Bool.false_eq_true, if_false, hm, iht, List.filterMap_cons,
        Option.bind_some, insRect]
      by_cases hsing : q.x1 = q.x2 ∧ q.y1 = q.y2
      · simp only [hs.mpr hsing, hsing, and_self, if_true]
      · simp only [(not_congr hs).mpr hsing, hsing, if_false, hok', if_true]
    · have hhit : ¬ (q.x1 = num ∧ q.x2 = num ∧ off < 0) := by omega
      have hm : mergeHelper q.x1 q.x2 num off = (Spec.posIns num off q.x1, Spec.posIns num off q.x2) := by
        unfold mergeHelper Spec.posIns
        have h1 : ¬ q.x2 < q.x1 := by omega
        have h0 : off ≥ 0 := by omega
        simp only [h1, if_false, h0, if_true]
        by_cases c1 : num ≤ q.x1
        · have : ¬ q.x1 < num := by omega
          have : ¬ q.x2 < num := by omega
          simp [*]
        · by_cases c2 : num ≤ q.x2
          · have : q.x1 < num := by omega
            have : ¬ q.x2 < num := by omega
            simp [*]
          · have : q.x1 < num := by omega
            have : q.x2 < num := by omega
            simp [*]
      have hs : (Spec.posIns num off q.x1 = Spec.posIns num off q.x2 ∧ q.y1 = q.y2) ↔
          (q.x1 = q.x2 ∧ q.y1 = q.y2) := by
        unfold Spec.posIns; split <;> split <;> constructor <;> intro h <;> omega
      have hok' : rectOk ({ q with x1 := Spec.posIns num off q.x1, x2 := Spec.posIns num off q.x2 } : Rect) = true := hv'.1
      simp only [adjustMerges, hhit, decide_false, Bool.false_eq_true, if_false, hm, iht, List.filterMap_cons,
        Option.bind_some, insRect]
      by_cases hsing : q.x1 = q.x2 ∧ q.y1 = q.y2
      · simp only [hs.mpr hsing, hsing, and_self, if_true]
      · simp only [(not_congr hs).mpr hsing, hsing, if_false, hok', if_true]

end XlModel.Adjust

namespace XlModel.Adjust
open XlModel

theorem filterHelper_ins (dir : Dir) (num off : Int) (hoff : 0 < off) (q : Rect) :
    filterHelper dir q num off = insRect dir num off q := by
  cases dir <;> simp only [filterHelper, insRect, startMoves, Spec.posIns] <;> congr 1 <;>
    (first
      | (by_cases h : q.y1 < num <;> simp [h] <;> omega)
      | (by_cases h : q.y2 < num <;> simp [h] <;> omega)
      | (by_cases h : q.x1 < num <;> simp [h] <;> omega)
      | (by_cases h : q.x2 < num <;> simp [h] <;> omega))

/-- `adjustAutoFilter` on insertion: the filter range is shifted, the rows are left alone -/
theorem adjustFilter_ins (dir : Dir) (num off : Int) (hoff : 0 < off) (flt : Option (Option Rect)) (rows : List Row)
    (h : ∀ o, flt = some o → ∃ q, o = some q ∧ RectValid q ∧ exceeds dir num off (axisEnd dir q) = false) :
    adjustFilter flt rows dir num off = (.ok, flt.map (fun o => o.map (insRect dir num off)), rows) := by
  rcases flt with _ | o
  · rfl
  · obtain ⟨q, rfl, hv, he⟩ := h o rfl
    have hv' := insRect_valid dir num off hoff q hv he
    have hfh := filterHelper_ins dir num off hoff q
    cases dir
    · have hg : ¬ (off < 0 ∧ q.y1 = num) := by omega
      simp only [adjustFilter, hg, decide_false, Bool.false_eq_true, if_false, hfh, hv'.1, if_true, Option.map_some]
    · have hg : ¬ (off < 0 ∧ q.x1 = num ∧ q.x2 = num) := by omega
      simp only [adjustFilter, hg, decide_false, Bool.false_eq_true, if_false, hfh, hv'.1, if_true, Option.map_some]

/-- `adjustTable` on insertion: every table range is shifted -/
theorem adjustTables_ins (dir : Dir) (num off : Int) (hoff : 0 < off) (ts : List Tbl)
    (h : ∀ t ∈ ts, ∃ q, t.rect = some q ∧ RectValid q ∧ 1 ≤ q.y2 - q.y1 ∧
      exceeds dir num off (axisEnd dir q) = false) :
    adjustTables dir num off ts = (.ok, ts.map fun t => { t with rect := t.rect.map (insRect dir num off) }) := by
  induction ts with
  | nil => rfl
  | cons t u ih =>
    obtain ⟨q, hq, hv, hrows, he⟩ := h t (by simp)
    have ihu := ih (fun x hx => h x (List.mem_cons_of_mem _ hx))
    have hv' := insRect_valid dir num off hoff q hv he
    have hhdr : ¬ (dir = .rows ∧ num = (if Facts.C06.tableHeaderCoord = 1 then q.y1 else q.x1) ∧ off = -1) := by omega
    have hsz : ¬ ((insRect dir num off q).y2 - (insRect dir num off q).y1 < 1 ∨
        (insRect dir num off q).x2 - (insRect dir num off q).x1 < 0) := by
      have hx := hv.2.1
      cases dir
      · simp only [insRect, Spec.posIns]; split <;> split <;> omega
      · simp only [insRect, Spec.posIns]; split <;> split <;> omega
    simp only [adjustTables, hq, hhdr, if_false, filterHelper_ins dir num off hoff, hsz, ihu, hv'.1, if_true,
      List.map_cons, Option.map_some]

/-- the shift of a sqref range: like `insRect`, the end cut at the last row/column -/
def insSqRect (dir : Dir) (num off : Int) (q : Rect) : Rect :=
  match dir with
  | .rows => { q with y1 := Spec.posIns num off q.y1,
                      y2 := if Spec.posIns num off q.y2 > maxRows then maxRows else Spec.posIns num off q.y2 }
  | .cols => { q with x1 := Spec.posIns num off q.x1,
                      x2 := if Spec.posIns num off q.x2 > maxCols then maxCols else Spec.posIns num off q.x2 }

/-- `adjustCellRef` on insertion, reference by reference -/
theorem adjustSq_ins (dir : Dir) (num off : Int) (hoff : 0 < off) (qs : List Rect)
    (h : ∀ q ∈ qs, rectOk q = true ∧ exceeds dir num off (axisStart dir q) = false) :
    adjustSq dir num off qs = some (qs.map (insSqRect dir num off)) := by
  induction qs with
  | nil => rfl
  | cons q t ih =>
    have iht := ih (fun x hx => h x (List.mem_cons_of_mem _ hx))
    obtain ⟨hq, he⟩ := h q (by simp)
    rw [rectOk_iff] at hq
    cases dir
    · have hskip : ¬ (off < 0 ∧ q.y1 = q.y2 ∧ num = q.y1) := by omega
      have he' : ¬ (q.y1 ≥ num ∧ q.y1 + off > maxRows) := by simpa [exceeds, axisStart] using he
      have hax : sqAxis q.y1 q.y2 num off maxRows = (Spec.posIns num off q.y1,
          if Spec.posIns num off q.y2 > maxRows then maxRows else Spec.posIns num off q.y2) := by
        unfold sqAxis startMoves Spec.posIns
        by_cases c1 : q.y1 < num <;> by_cases c2 : q.y2 < num <;> simp [c1, c2] <;> (try omega)
        all_goals (split <;> (try split) <;> omega)
      have hok : rectOk (insSqRect .rows num off q) = true := by
        rw [rectOk_iff]; simp only [insSqRect, Spec.posIns]
        split <;> split <;> (try split) <;> omega
      have e : ({ q with y1 := (sqAxis q.y1 q.y2 num off maxRows).1, y2 := (sqAxis q.y1 q.y2 num off maxRows).2 } : Rect) =
          insSqRect .rows num off q := by rw [hax]; rfl
      simp only [adjustSq, hskip, if_false, e, hok, if_true, iht, Option.map_some, List.map_cons]
    · have hskip : ¬ (off < 0 ∧ q.x1 = q.x2 ∧ num = q.x1) := by omega
      have he' : ¬ (q.x1 ≥ num ∧ q.x1 + off > maxCols) := by simpa [exceeds, axisStart] using he
      have hax : sqAxis q.x1 q.x2 num off maxCols = (Spec.posIns num off q.x1,
          if Spec.posIns num off q.x2 > maxCols then maxCols else Spec.posIns num off q.x2) := by
        unfold sqAxis startMoves Spec.posIns
        by_cases c1 : q.x1 < num <;> by_cases c2 : q.x2 < num <;> simp [c1, c2] <;> (try omega)
        all_goals (split <;> (try split) <;> omega)
      have hok : rectOk (insSqRect .cols num off q) = true := by
        rw [rectOk_iff]; simp only [insSqRect, Spec.posIns]
        split <;> split <;> (try split) <;> omega
      have e : ({ q with x1 := (sqAxis q.x1 q.x2 num off maxCols).1, x2 := (sqAxis q.x1 q.x2 num off maxCols).2 } : Rect) =
          insSqRect .cols num off q := by rw [hax]; rfl
      simp only [adjustSq, hskip, if_false, e, hok, if_true, iht, Option.map_some, List.map_cons]

/-- conditional formats / data validations on insertion: every item keeps its place, its references are shifted
(an item without references is dropped) -/
theorem adjustSqItems_ins (dir : Dir) (num off : Int) (hoff : 0 < off) (its : List SqItem)
    (h : ∀ it ∈ its, ∀ q ∈ it.rects, rectOk q = true ∧ exceeds dir num off (axisStart dir q) = false) :
    adjustSqItems dir num off its =
      (.ok, its.filterMap fun it =>
        if it.rects = [] then none else some { it with rects := it.rects.map (insSqRect dir num off) }) := by
  induction its with
  | nil => rfl
  | cons it t ih =>
    have iht := ih (fun x hx => h x (List.mem_cons_of_mem _ hx))
    have hsq := adjustSq_ins dir num off hoff it.rects (h it (by simp))
    unfold adjustSqItems
    rw [hsq]
    cases hr : it.rects with
    | nil => simp [iht, hr]
    | cons a b => simp [iht, hr]

end XlModel.Adjust

namespace XlModel.Adjust
open XlModel

def insPos (dir : Dir) (num off : Int) (p : Int × Int) : Int × Int :=
  match dir with
  | .rows => (p.1, Spec.posIns num off p.2)
  | .cols => (Spec.posIns num off p.1, p.2)

def axisOf (dir : Dir) (p : Int × Int) : Int := match dir with | .rows => p.2 | .cols => p.1

/-- `adjustHyperlinks` on insertion: every link moves with its cell -/
theorem adjustHyperlinks_ins (dir : Dir) (num off : Int) (hoff : 0 < off) (ls : List Link)
    (h : ∀ l ∈ ls, ∀ p, l.pos = some p → 1 ≤ p.1 ∧ 1 ≤ p.2 ∧ exceeds dir num off (axisOf dir p) = false) :
    adjustHyperlinks ls dir num off = ls.map fun l => { l with pos := l.pos.map (insPos dir num off) } := by
  unfold adjustHyperlinks
  have h0 : ¬ off < 0 := by omega
  simp only [h0, if_false]
  apply List.map_congr_left
  intro l hl
  cases hp : l.pos with
  | none => rfl
  | some p =>
    obtain ⟨h1, h2, he⟩ := h l hl p hp
    simp only [Option.bind_some, Option.map_some]
    congr 1
    cases dir
    · have he' : ¬ (p.2 ≥ num ∧ p.2 + off > maxRows) := by simpa [exceeds, axisOf] using he
      simp only [adjustLinkPos, insPos, Spec.posIns]
      by_cases c : p.2 < num
      · have : ¬ p.2 ≥ num := by omega
        simp [c, this]
      · have c1 : p.2 ≥ num := by omega
        have c2 : ¬ p.2 + off < 1 := by omega
        have c3 : ¬ p.2 + off > maxRows := by omega
        simp [c, c1, c2, c3]
    · have he' : ¬ (p.1 ≥ num ∧ p.1 + off > maxCols) := by simpa [exceeds, axisOf] using he
      simp only [adjustLinkPos, insPos, Spec.posIns]
      by_cases c : p.1 < num
      · have : ¬ p.1 ≥ num := by omega
        simp [c, this]
      · have c1 : p.1 ≥ num := by omega
        have c2 : ¬ p.1 + off < 1 := by omega
        have c3 : ¬ p.1 + off > maxCols := by omega
        simp [c, c1, c2, c3]

/-- well-formed range objects (sqrefs, merged cells, auto filter, tables): what the public API produces -/
structure RangeWF (s : Sheet) : Prop where
  sq : ∀ it ∈ s.cfs ++ s.dvs, ∀ q ∈ it.rects, rectOk q = true
  merges : ∀ m ∈ s.merges, ∃ q, m = some q ∧ RectValid q
  filter : ∀ o, s.filter = some o → ∃ q, o = some q ∧ RectValid q
  tables : ∀ t ∈ s.tables, ∃ q, t.rect = some q ∧ RectValid q ∧ 1 ≤ q.y2 - q.y1

/-- … and hyperlinks on cells of the sheet -/
structure ObjWF (s : Sheet) : Prop where
  range : RangeWF s
  links : ∀ l ∈ s.links, ∀ p, l.pos = some p → 1 ≤ p.1 ∧ 1 ≤ p.2

/-- no sqref start and no merged cell / filter / table end leaves the sheet -/
def RangeFits (dir : Dir) (num off : Int) (s : Sheet) : Prop :=
  (∀ it ∈ s.cfs ++ s.dvs, ∀ q ∈ it.rects, exceeds dir num off (axisStart dir q) = false) ∧
  (∀ q, some q ∈ s.merges → exceeds dir num off (axisEnd dir q) = false) ∧
  (∀ q, s.filter = some (some q) → exceeds dir num off (axisEnd dir q) = false) ∧
  (∀ t ∈ s.tables, ∀ q, t.rect = some q → exceeds dir num off (axisEnd dir q) = false)

/-- what the range limit check guarantees, object by object -/
theorem no_hit_all (s : Sheet) (dir : Dir) (num off : Int) (hoff : 0 < off)
    (hno : rangeLimitHit s dir num off = false) :
    RangeFits dir num off s ∧
    (∀ l ∈ s.links, ∀ p, l.pos = some p → exceeds dir num off (axisOf dir p) = false) := by
  unfold rangeLimitHit at hno
  have ho : decide (off > 0) = true := by simp [hoff]
  simp only [ho, Bool.true_and, Bool.or_eq_false_iff] at hno
  obtain ⟨⟨h1, h2⟩, h3⟩ := hno
  rw [List.any_eq_false] at h1 h2 h3
  have hrect : ∀ q, q ∈ (s.merges.filterMap id ++ (match s.filter with | some (some q) => [q] | _ => []) ++
      s.tables.filterMap (·.rect)) → exceeds dir num off (axisEnd dir q) = false := by
    intro q hq
    have := h2 q hq
    simp only [Bool.or_eq_true, not_or, Bool.not_eq_true] at this
    exact this.2
  refine ⟨⟨?_, ?_, ?_, ?_⟩, ?_⟩
  · intro it hit q hq
    have := h1 it hit
    simp only [Bool.not_eq_true] at this
    rw [List.any_eq_false] at this
    simpa using this q hq
  · intro q hq
    apply hrect
    apply List.mem_append_left; apply List.mem_append_left
    exact List.mem_filterMap.mpr ⟨some q, hq, rfl⟩
  · intro q hq
    apply hrect
    apply List.mem_append_left; apply List.mem_append_right
    simp [hq]
  · intro t ht q hq
    apply hrect
    apply List.mem_append_right
    exact List.mem_filterMap.mpr ⟨t, ht, hq⟩
  · intro l hl p hp
    have := h3 l hl
    simp only [hp, Bool.not_eq_true] at this
    cases dir <;> simpa [axisOf] using this

theorem adjusters_list : Facts.C06.adjusters = ["adjustConditionalFormats", "adjustDataValidations",
    "adjustDefinedNames", "adjustDrawings", "adjustMergeCells", "adjustAutoFilter", "adjustCalcChain",
    "adjustTable", "adjustVolatileDeps"] := by decide

/-- the nine adjusters on insertion, composed: they succeed and map every range object by the shift -/
theorem runAdjusters_ins (t : Sheet) (dir : Dir) (num off : Int) (hoff : 0 < off) (hw : RangeWF t)
    (hfit : RangeFits dir num off t) :
    runAdjusters Facts.C06.adjusters dir num off t =
      (.ok, { t with
        cfs := t.cfs.filterMap fun it =>
          if it.rects = [] then none else some { it with rects := it.rects.map (insSqRect dir num off) },
        dvs := t.dvs.filterMap fun it =>
          if it.rects = [] then none else some { it with rects := it.rects.map (insSqRect dir num off) },
        merges := t.merges.filterMap fun m => m.bind fun q =>
          if q.x1 = q.x2 ∧ q.y1 = q.y2 then none else some (some (insRect dir num off q)),
        filter := t.filter.map (fun o => o.map (insRect dir num off)),
        tables := t.tables.map fun tb => { tb with rect := tb.rect.map (insRect dir num off) } }) := by
  obtain ⟨n1, n2, n3, n4⟩ := hfit
  have hcf := adjustSqItems_ins dir num off hoff t.cfs
    (fun it hit q hq => ⟨hw.sq it (List.mem_append_left _ hit) q hq, n1 it (List.mem_append_left _ hit) q hq⟩)
  have hdv := adjustSqItems_ins dir num off hoff t.dvs
    (fun it hit q hq => ⟨hw.sq it (List.mem_append_right _ hit) q hq, n1 it (List.mem_append_right _ hit) q hq⟩)
  have hm := adjustMerges_ins dir num off hoff t.merges (fun m hm => by
    obtain ⟨q, rfl, hv⟩ := hw.merges m hm
    exact ⟨q, rfl, hv, n2 q hm⟩)
  have hf := adjustFilter_ins dir num off hoff t.filter t.rows (fun o ho => by
    obtain ⟨q, rfl, hv⟩ := hw.filter o ho
    exact ⟨q, rfl, hv, n3 q ho⟩)
  have ht := adjustTables_ins dir num off hoff t.tables (fun tb htb => by
    obtain ⟨q, hq, hv, hr⟩ := hw.tables tb htb
    exact ⟨q, hq, hv, hr, n4 tb htb q hq⟩)
  rw [adjusters_list]
  simp [runAdjusters, runAdjuster, hcf, hdv, hm, hf, ht]

end XlModel.Adjust
