/-
List-level refinement of the object adjusters of C06 on removal of one row or
column: every range object is mapped (or dropped) element by element by the
deletion rule `Spec.ivDel`; with well-formed objects the adjusters never fail.
-/
import XlModel.Lemmas.AdjustObjs

namespace XlModel.Adjust
open XlModel

/-- the rectangle after row/column `num` is removed; `none` = it was exactly that row/column -/
def delRect (dir : Dir) (num : Int) (q : Rect) : Option Rect :=
  match dir with
  | .rows => (Spec.ivDel num q.y1 q.y2).map fun p => { q with y1 := p.1, y2 := p.2 }
  | .cols => (Spec.ivDel num q.x1 q.x2).map fun p => { q with x1 := p.1, x2 := p.2 }

/-- the two ends of an interval after `num` is removed (the interval is not exactly `[num,num]`) -/
def delAxis (num a b : Int) : Int × Int := (if a ≤ num then a else a - 1, if b < num then b else b - 1)

theorem mergeHelper_del (a b num : Int) (hab : a ≤ b) (hne : ¬ (a = num ∧ b = num)) :
    mergeHelper a b num (-1) = delAxis num a b := by
  unfold mergeHelper delAxis
  have h1 : ¬ b < a := by omega
  have h0 : ¬ ((-1 : Int) ≥ 0) := by omega
  simp only [h1, if_false, h0]
  by_cases h2 : num < a
  · have : ¬ a ≤ num := by omega
    have : ¬ b < num := by omega
    simp [*]; omega
  · have hx : ¬ (num < a ∨ (num = a ∧ num = b)) := by omega
    simp only [hx, if_false]
    by_cases h3 : num ≤ b
    · have : a ≤ num := by omega
      have : ¬ b < num := by omega
      simp [*]; omega
    · have : a ≤ num := by omega
      have : b < num := by omega
      simp [*]

/-- a valid range that is not exactly the removed row/column stays valid -/
theorem delRect_valid (dir : Dir) (num : Int) (hnum : 1 ≤ num) (q q' : Rect) (hv : RectValid q)
    (h : delRect dir num q = some q') : RectValid q' := by
  obtain ⟨hok, hx, hy⟩ := hv
  rw [rectOk_iff] at hok
  cases dir
  · simp only [delRect, Spec.ivDel] at h
    split at h
    · cases h
    · rename_i hne
      simp only [Option.map_some, Option.some.injEq] at h
      subst h
      refine ⟨?_, hx, ?_⟩
      · rw [rectOk_iff]; simp only; split <;> split <;> omega
      · simp only; split <;> split <;> omega
  · simp only [delRect, Spec.ivDel] at h
    split at h
    · cases h
    · rename_i hne
      simp only [Option.map_some, Option.some.injEq] at h
      subst h
      refine ⟨?_, ?_, hy⟩
      · rw [rectOk_iff]; simp only; split <;> split <;> omega
      · simp only; split <;> split <;> omega

/-- `adjustMergeCells` on removal, element by element -/
theorem adjustMerges_del (dir : Dir) (num : Int) (hnum : 1 ≤ num) (ms : List (Option Rect))
    (h : ∀ m ∈ ms, ∃ q, m = some q ∧ RectValid q) :
    adjustMerges dir num (-1) ms =
      (.ok, ms.filterMap fun m => m.bind fun q =>
        match delRect dir num q with
        | none => none
        | some q' => if q'.x1 = q'.x2 ∧ q'.y1 = q'.y2 then none else some (some q')) := by
  induction ms with
  | nil => rfl
  | cons m t ih =>
    obtain ⟨q, rfl, hv⟩ := h m (by simp)
    have iht := ih (fun x hx => h x (List.mem_cons_of_mem _ hx))
    have hneg : (-1 : Int) < 0 := by omega
    cases dir
    · by_cases hhit : q.y1 = num ∧ q.y2 = num
      · have hd : delRect .rows num q = none := by simp [delRect, Spec.ivDel, hhit]
        simp only [adjustMerges, hhit, hneg, and_self, decide_true, if_true, iht, List.filterMap_cons,
          Option.bind_some, hd]
      · have hh : ¬ (q.y1 = num ∧ q.y2 = num ∧ (-1 : Int) < 0) := by omega
        have hm := mergeHelper_del q.y1 q.y2 num hv.2.2 hhit
        have hd : delRect .rows num q = some { q with y1 := (delAxis num q.y1 q.y2).1, y2 := (delAxis num q.y1 q.y2).2 } := by
          simp [delRect, Spec.ivDel, hhit, delAxis]
        have hv' := delRect_valid .rows num hnum q _ hv hd
        simp only [adjustMerges, hh, decide_false, Bool.false_eq_true, if_false, hm, iht, List.filterMap_cons,
          Option.bind_some, hd]
        split
        · rfl
        · simp only [hv'.1, if_true]
    · by_cases hhit : q.x1 = num ∧ q.x2 = num
      · have hd : delRect .cols num q = none := by simp [delRect, Spec.ivDel, hhit]
        simp only [adjustMerges, hhit, hneg, and_self, decide_true, if_true, iht, List.filterMap_cons,
          Option.bind_some, hd]
      · have hh : ¬ (q.x1 = num ∧ q.x2 = num ∧ (-1 : Int) < 0) := by omega
        have hm := mergeHelper_del q.x1 q.x2 num hv.2.1 hhit
        have hd : delRect .cols num q = some { q with x1 := (delAxis num q.x1 q.x2).1, x2 := (delAxis num q.x1 q.x2).2 } := by
          simp [delRect, Spec.ivDel, hhit, delAxis]
        have hv' := delRect_valid .cols num hnum q _ hv hd
        simp only [adjustMerges, hh, decide_false, Bool.false_eq_true, if_false, hm, iht, List.filterMap_cons,
          Option.bind_some, hd]
        split
        · rfl
        · simp only [hv'.1, if_true]

end XlModel.Adjust

namespace XlModel.Adjust
open XlModel

theorem delRect_rows (num : Int) (q : Rect) :
    delRect .rows num q = if q.y1 = num ∧ q.y2 = num then none
      else some { q with y1 := (delAxis num q.y1 q.y2).1, y2 := (delAxis num q.y1 q.y2).2 } := by
  simp only [delRect, Spec.ivDel, delAxis]; split <;> rfl

theorem delRect_cols (num : Int) (q : Rect) :
    delRect .cols num q = if q.x1 = num ∧ q.x2 = num then none
      else some { q with x1 := (delAxis num q.x1 q.x2).1, x2 := (delAxis num q.x1 q.x2).2 } := by
  simp only [delRect, Spec.ivDel, delAxis]; split <;> rfl

theorem sqAxis_del (a b num lim : Int) (hb : b ≤ lim) : sqAxis a b num (-1) lim = delAxis num a b := by
  unfold sqAxis startMoves delAxis
  by_cases h1 : a ≤ num <;> by_cases h2 : b < num <;> simp [h1, h2] <;> omega

theorem adjustSq_del' (dir : Dir) (num off : Int) (ho : off = -1) (hnum : 1 ≤ num) (qs : List Rect)
    (h : ∀ q ∈ qs, RectValid q) :
    adjustSq dir num off qs = some (qs.filterMap (delRect dir num)) := by
  induction qs with
  | nil => rfl
  | cons q t ih =>
    have iht := ih (fun x hx => h x (List.mem_cons_of_mem _ hx))
    have hv := h q (by simp)
    have hok := (rectOk_iff q).mp hv.1
    cases dir
    · rw [List.filterMap_cons, delRect_rows]
      have hax : sqAxis q.y1 q.y2 num off maxRows = delAxis num q.y1 q.y2 := by
        rw [ho]; exact sqAxis_del q.y1 q.y2 num maxRows (by omega)
      by_cases hhit : q.y1 = num ∧ q.y2 = num
      · have hs : off < 0 ∧ q.y1 = q.y2 ∧ num = q.y1 := by omega
        rw [if_pos hhit]
        simp only [adjustSq]
        rw [if_pos hs]
        exact iht
      · have hs : ¬ (off < 0 ∧ q.y1 = q.y2 ∧ num = q.y1) := by omega
        have hd := delRect_rows num q
        simp only [hhit, if_false] at hd
        have hv' := delRect_valid .rows num hnum q _ hv hd
        rw [if_neg hhit]
        simp only [adjustSq]
        rw [if_neg hs]
        simp only [hax]
        rw [if_pos hv'.1, iht]
        rfl
    · rw [List.filterMap_cons, delRect_cols]
      have hax : sqAxis q.x1 q.x2 num off maxCols = delAxis num q.x1 q.x2 := by
        rw [ho]; exact sqAxis_del q.x1 q.x2 num maxCols (by omega)
      by_cases hhit : q.x1 = num ∧ q.x2 = num
      · have hs : off < 0 ∧ q.x1 = q.x2 ∧ num = q.x1 := by omega
        rw [if_pos hhit]
        simp only [adjustSq]
        rw [if_pos hs]
        exact iht
      · have hs : ¬ (off < 0 ∧ q.x1 = q.x2 ∧ num = q.x1) := by omega
        have hd := delRect_cols num q
        simp only [hhit, if_false] at hd
        have hv' := delRect_valid .cols num hnum q _ hv hd
        rw [if_neg hhit]
        simp only [adjustSq]
        rw [if_neg hs]
        simp only [hax]
        rw [if_pos hv'.1, iht]
        rfl

/-- `adjustCellRef` on removal, reference by reference -/
theorem adjustSq_del (dir : Dir) (num : Int) (hnum : 1 ≤ num) (qs : List Rect) (h : ∀ q ∈ qs, RectValid q) :
    adjustSq dir num (-1) qs = some (qs.filterMap (delRect dir num)) :=
  adjustSq_del' dir num (-1) rfl hnum qs h

/-- conditional formats / data validations on removal: references on the removed row/column alone are dropped,
an item left without references is dropped -/
theorem adjustSqItems_del (dir : Dir) (num : Int) (hnum : 1 ≤ num) (its : List SqItem)
    (h : ∀ it ∈ its, ∀ q ∈ it.rects, RectValid q) :
    adjustSqItems dir num (-1) its =
      (.ok, its.filterMap fun it =>
        if it.rects.filterMap (delRect dir num) = [] then none
        else some { it with rects := it.rects.filterMap (delRect dir num) }) := by
  induction its with
  | nil => rfl
  | cons it t ih =>
    have iht := ih (fun x hx => h x (List.mem_cons_of_mem _ hx))
    have hsq := adjustSq_del dir num hnum it.rects (h it (by simp))
    unfold adjustSqItems
    rw [hsq, List.filterMap_cons]
    generalize it.rects.filterMap (delRect dir num) = rs
    cases rs with
    | nil => simp [iht]
    | cons a b => simp [iht]

theorem filterHelper_del (dir : Dir) (num : Int) (q : Rect) :
    filterHelper dir q num (-1) = match dir with
      | .rows => { q with y1 := (delAxis num q.y1 q.y2).1, y2 := (delAxis num q.y1 q.y2).2 }
      | .cols => { q with x1 := (delAxis num q.x1 q.x2).1, x2 := (delAxis num q.x1 q.x2).2 } := by
  cases dir
  · simp only [filterHelper, startMoves, delAxis]
    congr 1
    · by_cases h : q.y1 ≤ num <;> simp [h] <;> omega
    · by_cases h : q.y2 < num <;> simp [h] <;> omega
  · simp only [filterHelper, startMoves, delAxis]
    congr 1
    · by_cases h : q.x1 ≤ num <;> simp [h] <;> omega
    · by_cases h : q.x2 < num <;> simp [h] <;> omega

/-- does the auto filter go with the removed row (its header) / column (a one-column filter)? -/
def filterGone (dir : Dir) (num : Int) (q : Rect) : Bool :=
  match dir with
  | .rows => decide (q.y1 = num)
  | .cols => decide (q.x1 = num ∧ q.x2 = num)

/-- `adjustAutoFilter` on removal -/
theorem adjustFilter_del (dir : Dir) (num : Int) (hnum : 1 ≤ num) (q : Rect) (hv : RectValid q) (rows : List Row) :
    adjustFilter (some (some q)) rows dir num (-1) =
      if filterGone dir num q then
        (.ok, none, rows.map fun r => if r.r > q.y1 ∧ r.r ≤ q.y2 then { r with hidden := false } else r)
      else (.ok, some (delRect dir num q), rows) := by
  have hneg : (-1 : Int) < 0 := by omega
  have hfh := filterHelper_del dir num q
  cases dir
  · by_cases hg : q.y1 = num
    · simp only [adjustFilter, filterGone, hg, hneg, and_self, decide_true, if_true]
    · have hhit : ¬ (q.y1 = num ∧ q.y2 = num) := by omega
      have hd := delRect_rows num q
      simp only [hhit, if_false] at hd
      have hv' := delRect_valid .rows num hnum q _ hv hd
      have hg2 : ¬ ((-1 : Int) < 0 ∧ q.y1 = num) := by omega
      simp only [adjustFilter, filterGone, hg, hg2, and_false, decide_false, Bool.false_eq_true, if_false, hfh, hv'.1, if_true, hd]
  · by_cases hg : q.x1 = num ∧ q.x2 = num
    · have hg2 : (-1 : Int) < 0 ∧ q.x1 = num ∧ q.x2 = num := ⟨hneg, hg⟩
      simp only [adjustFilter, filterGone, hg, hg2, and_self, decide_true, if_true]
    · have hd := delRect_cols num q
      simp only [hg, if_false] at hd
      have hv' := delRect_valid .cols num hnum q _ hv hd
      have hg2 : ¬ ((-1 : Int) < 0 ∧ q.x1 = num ∧ q.x2 = num) := by omega
      simp only [adjustFilter, filterGone, hg, hg2, and_false, decide_false, Bool.false_eq_true, if_false, hfh, hv'.1, if_true, hd]

end XlModel.Adjust

namespace XlModel.Adjust
open XlModel

/-- `adjustTable` never fails on tables with a parsed reference -/
theorem adjustTables_ok (dir : Dir) (num off : Int) (ts : List Tbl) (h : ∀ t ∈ ts, ∃ q, t.rect = some q) :
    (adjustTables dir num off ts).1 = .ok := by
  induction ts with
  | nil => rfl
  | cons t u ih =>
    obtain ⟨q, hq⟩ := h t (by simp)
    have ihu := ih (fun x hx => h x (List.mem_cons_of_mem _ hx))
    simp only [adjustTables, hq]
    repeat' split
    all_goals exact ihu

theorem adjustTables_eta (dir : Dir) (num off : Int) (ts : List Tbl) (h : ∀ t ∈ ts, ∃ q, t.rect = some q) :
    adjustTables dir num off ts = (.ok, (adjustTables dir num off ts).2) := by
  have := adjustTables_ok dir num off ts h
  rcases hr : adjustTables dir num off ts with ⟨st, x⟩
  rw [hr] at this
  simp only at this
  subst this
  rfl

/-- `adjustAutoFilter` never fails on a well-formed filter when a row/column is removed -/
theorem adjustFilter_del_ok (dir : Dir) (num : Int) (hnum : 1 ≤ num) (flt : Option (Option Rect)) (rows : List Row)
    (h : ∀ o, flt = some o → ∃ q, o = some q ∧ RectValid q) :
    (adjustFilter flt rows dir num (-1)).1 = .ok := by
  rcases flt with _ | o
  · rfl
  · obtain ⟨q, rfl, hv⟩ := h o rfl
    rw [adjustFilter_del dir num hnum q hv]
    split <;> rfl

/-- the nine adjusters on removal of row/column `num`, composed: with well-formed range objects they succeed
(conditional formats, data validations and merged cells follow `delRect` element by element:
`adjustSqItems_del`, `adjustMerges_del`; the auto filter: `adjustFilter_del`) -/
theorem runAdjusters_del_ok (t : Sheet) (dir : Dir) (num : Int) (hnum : 1 ≤ num) (hw : RangeWF t)
    (hsq : ∀ it ∈ t.cfs ++ t.dvs, ∀ q ∈ it.rects, RectValid q) :
    (runAdjusters Facts.C06.adjusters dir num (-1) t).1 = .ok := by
  have hcf := adjustSqItems_del dir num hnum t.cfs (fun it hit q hq => hsq it (List.mem_append_left _ hit) q hq)
  have hdv := adjustSqItems_del dir num hnum t.dvs (fun it hit q hq => hsq it (List.mem_append_right _ hit) q hq)
  have hm := adjustMerges_del dir num hnum t.merges hw.merges
  have ht := adjustTables_ok dir num (-1) t.tables (fun tb htb => by
    obtain ⟨q, hq, _⟩ := hw.tables tb htb; exact ⟨q, hq⟩)
  have hf := adjustFilter_del_ok dir num hnum t.filter t.rows hw.filter
  rcases hfr : adjustFilter t.filter t.rows dir num (-1) with ⟨st1, f1, r1⟩
  rcases htr : adjustTables dir num (-1) t.tables with ⟨st2, x2⟩
  rw [hfr] at hf; rw [htr] at ht
  simp only at hf ht
  subst hf; subst ht
  rw [adjusters_list]
  simp [runAdjusters, runAdjuster, hcf, hdv, hm, hfr, htr]

end XlModel.Adjust
