/-
Helper lemmas for the string payload path (C01): `unmarshal ∘ marshal = id`,
`marshal` never emits a character outside XML 1.0.
-/
import XlModel.Bstr

namespace XlModel.Bstr
open XlModel

theorem illegal_iff (c : Char) :
    illegal c = true ↔ (c.toNat < 32 ∧ c.toNat ≠ 9 ∧ c.toNat ≠ 10 ∧ c.toNat ≠ 13) ∨ c.toNat = 65534 ∨ c.toNat = 65535 := by
  unfold illegal
  have e1 : Facts.C01.illegalBelow = 32 := rfl
  have e2 : Facts.C01.illegalExcept = [9, 10, 13] := rfl
  have e3 : Facts.C01.illegalExtra = [65534, 65535] := rfl
  rw [e1, e2, e3]
  simp only [List.contains_cons, List.contains_nil, Bool.or_false, Bool.or_eq_true, Bool.and_eq_true,
    Bool.not_eq_true', decide_eq_true_eq, beq_iff_eq, Bool.or_eq_false_iff, beq_eq_false_iff_ne]

theorem us_toNat : ('_' : Char).toNat = 95 := by decide
theorem x_toNat : ('x' : Char).toNat = 120 := by decide

theorem illegal_us : illegal '_' = false := by decide
theorem illegal_x : illegal 'x' = false := by decide

theorem isHex_not_us {c : Char} (h : isHex c = true) : c ≠ '_' := by
  intro e; subst e; revert h; decide

theorem isHex_legal {c : Char} (h : isHex c = true) : illegal c = false := by
  cases hi : illegal c with
  | false => rfl
  | true =>
    exfalso
    have hh := (illegal_iff c).mp hi
    simp [isHex] at h
    omega

/-- facts about the escape written for one illegal code `n` -/
def escOK (n : Nat) : Bool :=
  isHex (hexUp (n / 4096 % 16)) && isHex (hexUp (n / 256 % 16)) && isHex (hexUp (n / 16 % 16)) && isHex (hexUp (n % 16)) &&
    (decode4 (hexUp (n / 4096 % 16)) (hexUp (n / 256 % 16)) (hexUp (n / 16 % 16)) (hexUp (n % 16)) == [Char.ofNat n])

theorem escOK_low : ∀ n : Fin 32, escOK n.val = true := by decide
theorem escOK_fffe : escOK 65534 = true := by decide
theorem escOK_ffff : escOK 65535 = true := by decide

theorem escOK_of_illegal {c : Char} (h : illegal c = true) : escOK c.toNat = true := by
  rcases (illegal_iff c).mp h with h | h | h
  · exact escOK_low ⟨c.toNat, h.1⟩
  · rw [h]; exact escOK_fffe
  · rw [h]; exact escOK_ffff

theorem marshal_cons (c : Char) (rest : List Char) :
    marshal (c :: rest) =
      if c == '_' && escapeAhead rest then escUnderscore ++ marshal rest
      else if illegal c then ['_', 'x'] ++ hex4 c.toNat ++ ['_'] ++ marshal rest
      else c :: marshal rest := by
  simp [marshal]

/-- a head other than `_` is a verbatim copy -/
theorem marshal_head_ne_us {c x : Char} {t r : List Char} (h : marshal (c :: t) = x :: r) (hx : x ≠ '_') :
    c = x ∧ r = marshal t := by
  rw [marshal_cons] at h
  split at h
  · simp [escUnderscore] at h; exact absurd h.1.symm hx
  · split at h
    · simp at h; exact absurd h.1.symm hx
    · simp at h; exact ⟨h.1, h.2.symm⟩

/-- a head `_` comes from `_` or from an escaped character -/
theorem marshal_head_us {c : Char} {t r : List Char} (h : marshal (c :: t) = '_' :: r) :
    c = '_' ∨ illegal c = true := by
  rw [marshal_cons] at h
  split at h
  · rename_i hc; simp at hc; exact Or.inl hc.1
  · split at h
    · rename_i hi; exact Or.inr hi
    · simp at h; exact Or.inl h.1

theorem marshal_nil_iff {l : List Char} (h : marshal l = []) : l = [] := by
  cases l with
  | nil => rfl
  | cons c t =>
    rw [marshal_cons] at h
    split at h
    · simp [escUnderscore] at h
    · split at h <;> simp at h

/-- no spurious escape: if the marshalled rest reads `xHHHH_`, the source asked for the underscore to be escaped -/
theorem tailEsc_marshal {rest : List Char} (h : tailEsc (marshal rest) = true) : escapeAhead rest = true := by
  -- the marshalled text starts with six characters
  match hm : marshal rest, h with
  | x :: a :: b :: c :: d :: u :: m, h =>
    simp only [tailEsc, Bool.and_eq_true, beq_iff_eq] at h
    obtain ⟨⟨⟨⟨⟨hx, ha⟩, hb⟩, hc⟩, hd⟩, hu⟩ := h
    subst hx; subst hu
    cases rest with
    | nil => simp [marshal] at hm
    | cons r0 t0 =>
      obtain ⟨e0, hm0⟩ := marshal_head_ne_us hm (by decide)
      cases t0 with
      | nil => simp [marshal] at hm0
      | cons r1 t1 =>
        obtain ⟨e1, hm1⟩ := marshal_head_ne_us hm0.symm (isHex_not_us ha)
        cases t1 with
        | nil => simp [marshal] at hm1
        | cons r2 t2 =>
          obtain ⟨e2, hm2⟩ := marshal_head_ne_us hm1.symm (isHex_not_us hb)
          cases t2 with
          | nil => simp [marshal] at hm2
          | cons r3 t3 =>
            obtain ⟨e3, hm3⟩ := marshal_head_ne_us hm2.symm (isHex_not_us hc)
            cases t3 with
            | nil => simp [marshal] at hm3
            | cons r4 t4 =>
              obtain ⟨e4, hm4⟩ := marshal_head_ne_us hm3.symm (isHex_not_us hd)
              cases t4 with
              | nil => simp [marshal] at hm4
              | cons r5 t5 =>
                have h5 := marshal_head_us hm4.symm
                subst e0; subst e1; subst e2; subst e3; subst e4
                simp only [escapeAhead, ha, hb, hc, hd, Bool.and_true, beq_self_eq_true, Bool.true_and]
                rcases h5 with h5 | h5
                · simp [h5]
                · simp [h5]

theorem unmarshalAux_skip (k : Nat) (l : List Char) : unmarshalAux k l = unmarshalAux 0 (l.drop k) := by
  induction k generalizing l with
  | zero => simp
  | succ k ih =>
    cases l with
    | nil => simp [unmarshalAux]
    | cons c t => simp [unmarshalAux, ih]

/-- **round trip**: `bstrUnmarshal (bstrMarshal s) = s` for every string -/
theorem unmarshal_marshal (s : List Char) : unmarshal (marshal s) = s := by
  unfold unmarshal
  induction s with
  | nil => simp [marshal, unmarshalAux]
  | cons c rest ih =>
    rw [marshal_cons]
    split
    · -- escaped underscore
      rename_i hc
      simp only [Bool.and_eq_true, beq_iff_eq] at hc
      have hdec : decode4 '0' '0' '5' 'F' = ['_'] := by decide
      simp only [escUnderscore, List.cons_append, List.nil_append, unmarshalAux, tailEsc, isHex]
      simp only [unmarshalAux_skip 6]
      simp [decodeEsc, hdec, ih, hc.1]
    · split
      · -- escaped illegal character
        rename_i hi
        have hok := escOK_of_illegal hi
        simp only [escOK, Bool.and_eq_true, beq_iff_eq] at hok
        obtain ⟨⟨⟨⟨h1, h2⟩, h3⟩, h4⟩, h5⟩ := hok
        simp only [hex4, List.cons_append, List.nil_append, unmarshalAux, tailEsc, h1, h2, h3, h4]
        simp only [unmarshalAux_skip 6]
        simp [decodeEsc, h5, ih, Char.ofNat_toNat]
      · -- verbatim copy
        rename_i hc hi
        have hno : (c == '_' && tailEsc (marshal rest)) = false := by
          cases hcu : (c == '_') with
          | false => simp
          | true =>
            cases ht : tailEsc (marshal rest) with
            | false => simp
            | true =>
              have := tailEsc_marshal ht
              simp [hcu, this] at hc
        simp [unmarshalAux, hno, ih]

theorem hexUp_legal (k : Nat) (hk : k < 16) : illegal (hexUp k) = false := by
  have : ∀ k : Fin 16, illegal (hexUp k.val) = false := by decide
  exact this ⟨k, hk⟩

/-- **legal output**: `bstrMarshal` hands only XML 1.0 characters to the encoder -/
theorem marshal_legal (s : List Char) : ∀ c ∈ marshal s, illegal c = false := by
  induction s with
  | nil => simp [marshal]
  | cons a rest ih =>
    intro c hc
    rw [marshal_cons] at hc
    split at hc
    · simp only [escUnderscore, List.mem_append, List.mem_cons] at hc
      rcases hc with hc | hc
      · rcases hc with h | h | h | h | h | h | h | h <;> first | (subst h; decide) | (simp at h)
      · exact ih c hc
    · split at hc
      · simp only [hex4, List.cons_append, List.nil_append, List.mem_cons] at hc
        rcases hc with h | h | h | h | h | h | h | h
        · subst h; decide
        · subst h; decide
        · subst h; exact hexUp_legal _ (Nat.mod_lt _ (by decide))
        · subst h; exact hexUp_legal _ (Nat.mod_lt _ (by decide))
        · subst h; exact hexUp_legal _ (Nat.mod_lt _ (by decide))
        · subst h; exact hexUp_legal _ (Nat.mod_lt _ (by decide))
        · subst h; decide
        · exact ih c h
      · rename_i _ hi
        simp only [List.mem_cons] at hc
        rcases hc with h | h
        · subst h; simpa using hi
        · exact ih c h

theorem marshal_isEmpty (s : List Char) : (marshal s).isEmpty = s.isEmpty := by
  cases s with
  | nil => simp [marshal]
  | cons c t =>
    have : marshal (c :: t) ≠ [] := fun h => by simpa using marshal_nil_iff h
    simp [this]

theorem truncate_idem (s : List Char) : truncate (truncate s) = truncate s := by
  unfold truncate
  by_cases h : s.length > Facts.TotalCellChars
  · simp only [h, if_true]
    have : ¬ ((s.take Facts.TotalCellChars).length > Facts.TotalCellChars) := by
      rw [List.length_take]; omega
    simp only [this, if_false]
  · simp only [h, if_false]

end XlModel.Bstr
