/-
C08 helper lemmas: table facts about the regenerated operator tables, the
per-token step lemmas of the shunting-yard machine, and the compiler-correctness
invariant (`main`) from which `shunting_yard_correct` follows.
-/
import XlModel.Calc

set_option linter.unusedSimpArgs false
set_option linter.unusedVariables false

namespace XlModel.Calc.Impl
open XlModel.Facts.C08 XlModel.Calc NumOps

variable {N : Type} [NumOps N]

/-! ### Except plumbing -/

@[simp] theorem bind_ok {ε α β : Type} (a : α) (f : α → Except ε β) :
    (Except.ok a >>= f) = f a := rfl
@[simp] theorem bind_error {ε α β : Type} (e : ε) (f : α → Except ε β) :
    ((Except.error e : Except ε α) >>= f) = Except.error e := rfl
@[simp] theorem pure_eq_ok {ε α : Type} (a : α) : (pure a : Except ε α) = Except.ok a := rfl
@[simp] theorem map_ok {ε α β : Type} (a : α) (f : α → β) :
    (f <$> (Except.ok a : Except ε α)) = Except.ok (f a) := rfl
@[simp] theorem map_error {ε α β : Type} (e : ε) (f : α → β) :
    (f <$> (Except.error e : Except ε α)) = Except.error e := rfl

/-! ### facts about the regenerated tables -/

theorem pri_infix (op : Op) : getPriority (.infixOp op.sym) = op.level := by
  cases op <;> decide

theorem pri_neg : getPriority (.prefixOp sMinus) = 6 := by decide
theorem pri_lpar : getPriority .lpar = 0 := by decide

theorem level_pos (op : Op) : 1 ≤ op.level := by cases op <;> decide
theorem level_le (op : Op) : op.level ≤ 5 := by cases op <;> decide

theorem isOp_infix (op : Op) : isOperatorPrefixToken (.infixOp op.sym) = true := by
  cases op <;> decide
theorem isOp_neg : isOperatorPrefixToken (.prefixOp sMinus) = true := by decide

theorem infix_not_neg (op : Op) : (Tok.infixOp op.sym).isPrefixMinus = false := by
  cases op <;> decide

theorem pushCmp_eq (a b : Nat) : pushCmp a b = decide (a > b) := rfl
theorem loopCmp_eq (a b : Nat) : loopCmp a b = decide (a ≤ b) := rfl

/-- tokens that can be pending on the operator stack -/
def StackOp (t : Tok) : Prop := t = .prefixOp sMinus ∨ ∃ op : Op, t = .infixOp op.sym

theorem StackOp.ne_lpar {t : Tok} (h : StackOp t) : t ≠ .lpar := by
  rcases h with h | ⟨op, h⟩ <;> subst h <;> simp

theorem StackOp.pri_le {t : Tok} (h : StackOp t) : getPriority t ≤ 6 := by
  rcases h with h | ⟨op, h⟩
  · subst h; rw [pri_neg]; exact Nat.le_refl _
  · subst h; rw [pri_infix]; have := level_le op; omega

/-- `calculate` on a prefix minus = `negate` of the top operand -/
theorem calculate_neg (a : Arg N) (st : List (Arg N)) :
    calculate (a :: st) (.prefixOp sMinus) = (· :: st) <$> negate a := by
  have h1 : (Tok.prefixOp sMinus).isPrefixMinus = true := by decide
  have h2 : (Tok.prefixOp sMinus).isInfixMinus = false := by decide
  have h3 : lookup (Tok.prefixOp sMinus).tvalue tokenCalcFunc = none := by decide
  simp only [calculate, h1, h2, h3, negate, if_true, Bool.false_eq_true, if_false]
  cases unaryNum (fun y => sub zero y) a <;> simp

/-- `calculate` on a binary operator = `applyBin` on (left, right) -/
theorem calculate_infix (op : Op) (a b : Arg N) (st : List (Arg N)) :
    calculate (b :: a :: st) (.infixOp op.sym) = (· :: st) <$> applyBin op a b := by
  cases op
  case sub =>
    have h1 : (Tok.infixOp Op.sub.sym).isPrefixMinus = false := by decide
    have h2 : (Tok.infixOp Op.sub.sym).isInfixMinus = true := by decide
    have h3 : lookup (Tok.infixOp Op.sub.sym).tvalue tokenCalcFunc = none := by decide
    simp [calculate, h1, h2, h3, applyBin, calcSubtract, arith]
    generalize blank0 a = a'
    generalize blank0 b = b'
    cases a' <;> cases b' <;> simp
    all_goals (try (generalize toNumber _ = x; generalize toNumber _ = y; cases x <;> cases y <;> simp [liftE]))
  case concat =>
    have h1 : (Tok.infixOp Op.concat.sym).isPrefixMinus = false := by decide
    have h2 : (Tok.infixOp Op.concat.sym).isInfixMinus = false := by decide
    have h3 : lookup (Tok.infixOp Op.concat.sym).tvalue tokenCalcFunc = some .calcSplice := by decide
    have h4 : ((Tok.infixOp Op.concat.sym).tvalue ≠ sAmp) = False := by decide
    simp only [calculate, h1, h2, h3, h4, applyBin, runCalcFn]
    cases a <;> cases b <;> simp
  case pow =>
    have h1 : (Tok.infixOp Op.pow.sym).isPrefixMinus = false := by decide
    have h2 : (Tok.infixOp Op.pow.sym).isInfixMinus = false := by decide
    have h3 : lookup (Tok.infixOp Op.pow.sym).tvalue tokenCalcFunc = some .calcPow := by decide
    have h4 : ((Tok.infixOp Op.pow.sym).tvalue ≠ sAmp) = True := by decide
    simp [calculate, h1, h2, h3, h4, applyBin, runCalcFn, arith, calcDiv, calcOrd]
    generalize blank0 a = a'
    generalize blank0 b = b'
    cases a' <;> cases b' <;> simp
    all_goals (generalize liftE (toNumber (_ : Arg N)) = x; generalize liftE (toNumber (_ : Arg N)) = y; cases x <;> cases y <;> simp)
    all_goals (try (split <;> simp [throw, throwThe, MonadExceptOf.throw]))
    all_goals (try (split <;> simp [throw, throwThe, MonadExceptOf.throw]))
  case mul =>
    have h1 : (Tok.infixOp Op.mul.sym).isPrefixMinus = false := by decide
    have h2 : (Tok.infixOp Op.mul.sym).isInfixMinus = false := by decide
    have h3 : lookup (Tok.infixOp Op.mul.sym).tvalue tokenCalcFunc = some .calcMultiply := by decide
    have h4 : ((Tok.infixOp Op.mul.sym).tvalue ≠ sAmp) = True := by decide
    simp [calculate, h1, h2, h3, h4, applyBin, runCalcFn, arith, calcDiv, calcOrd]
    generalize blank0 a = a'
    generalize blank0 b = b'
    cases a' <;> cases b' <;> simp
    all_goals (try (generalize toNumber _ = x; generalize toNumber _ = y; cases x <;> cases y <;> simp [liftE]))
    all_goals (try (split <;> simp))
  case add =>
    have h1 : (Tok.infixOp Op.add.sym).isPrefixMinus = false := by decide
    have h2 : (Tok.infixOp Op.add.sym).isInfixMinus = false := by decide
    have h3 : lookup (Tok.infixOp Op.add.sym).tvalue tokenCalcFunc = some .calcAdd := by decide
    have h4 : ((Tok.infixOp Op.add.sym).tvalue ≠ sAmp) = True := by decide
    simp [calculate, h1, h2, h3, h4, applyBin, runCalcFn, arith, calcDiv, calcOrd]
    generalize blank0 a = a'
    generalize blank0 b = b'
    cases a' <;> cases b' <;> simp
    all_goals (try (generalize toNumber _ = x; generalize toNumber _ = y; cases x <;> cases y <;> simp [liftE]))
    all_goals (try (split <;> simp))
  case div =>
    have h1 : (Tok.infixOp Op.div.sym).isPrefixMinus = false := by decide
    have h2 : (Tok.infixOp Op.div.sym).isInfixMinus = false := by decide
    have h3 : lookup (Tok.infixOp Op.div.sym).tvalue tokenCalcFunc = some .calcDiv := by decide
    have h4 : ((Tok.infixOp Op.div.sym).tvalue ≠ sAmp) = True := by decide
    simp [calculate, h1, h2, h3, h4, applyBin, runCalcFn, arith, calcDiv, calcOrd]
    generalize blank0 a = a'
    generalize blank0 b = b'
    cases a' <;> cases b' <;> simp
    all_goals (generalize liftE (toNumber (_ : Arg N)) = x; generalize liftE (toNumber (_ : Arg N)) = y; cases x <;> cases y <;> simp)
    all_goals (split <;> simp [throw, throwThe, MonadExceptOf.throw])
  case eq =>
    have h1 : (Tok.infixOp Op.eq.sym).isPrefixMinus = false := by decide
    have h2 : (Tok.infixOp Op.eq.sym).isInfixMinus = false := by decide
    have h3 : lookup (Tok.infixOp Op.eq.sym).tvalue tokenCalcFunc = some .calcEq := by decide
    have h4 : ((Tok.infixOp Op.eq.sym).tvalue ≠ sAmp) = True := by decide
    simp [calculate, h1, h2, h3, h4, applyBin, runCalcFn, arith, calcDiv, calcOrd]
    generalize blank0 a = a'
    generalize blank0 b = b'
    cases a' <;> cases b' <;> simp
    all_goals (try (generalize toNumber _ = x; generalize toNumber _ = y; cases x <;> cases y <;> simp [liftE]))
    all_goals (try (split <;> simp))
  case ne =>
    have h1 : (Tok.infixOp Op.ne.sym).isPrefixMinus = false := by decide
    have h2 : (Tok.infixOp Op.ne.sym).isInfixMinus = false := by decide
    have h3 : lookup (Tok.infixOp Op.ne.sym).tvalue tokenCalcFunc = some .calcNEq := by decide
    have h4 : ((Tok.infixOp Op.ne.sym).tvalue ≠ sAmp) = True := by decide
    simp [calculate, h1, h2, h3, h4, applyBin, runCalcFn, arith, calcDiv, calcOrd]
    generalize blank0 a = a'
    generalize blank0 b = b'
    cases a' <;> cases b' <;> simp
    all_goals (try (generalize toNumber _ = x; generalize toNumber _ = y; cases x <;> cases y <;> simp [liftE]))
    all_goals (try (split <;> simp))
  case lt =>
    have h1 : (Tok.infixOp Op.lt.sym).isPrefixMinus = false := by decide
    have h2 : (Tok.infixOp Op.lt.sym).isInfixMinus = false := by decide
    have h3 : lookup (Tok.infixOp Op.lt.sym).tvalue tokenCalcFunc = some .calcL := by decide
    have h4 : ((Tok.infixOp Op.lt.sym).tvalue ≠ sAmp) = True := by decide
    simp [calculate, h1, h2, h3, h4, applyBin, runCalcFn, arith, calcDiv, calcOrd]
    generalize blank0 a = a'
    generalize blank0 b = b'
    cases a' <;> cases b' <;> simp [calcCompare]
    all_goals (try (split <;> simp))
    all_goals (try (split <;> simp))
  case le =>
    have h1 : (Tok.infixOp Op.le.sym).isPrefixMinus = false := by decide
    have h2 : (Tok.infixOp Op.le.sym).isInfixMinus = false := by decide
    have h3 : lookup (Tok.infixOp Op.le.sym).tvalue tokenCalcFunc = some .calcLe := by decide
    have h4 : ((Tok.infixOp Op.le.sym).tvalue ≠ sAmp) = True := by decide
    simp [calculate, h1, h2, h3, h4, applyBin, runCalcFn, arith, calcDiv, calcOrd]
    generalize blank0 a = a'
    generalize blank0 b = b'
    cases a' <;> cases b' <;> simp [calcCompare]
    all_goals (try (split <;> simp))
    all_goals (try (split <;> simp))
  case gt =>
    have h1 : (Tok.infixOp Op.gt.sym).isPrefixMinus = false := by decide
    have h2 : (Tok.infixOp Op.gt.sym).isInfixMinus = false := by decide
    have h3 : lookup (Tok.infixOp Op.gt.sym).tvalue tokenCalcFunc = some .calcG := by decide
    have h4 : ((Tok.infixOp Op.gt.sym).tvalue ≠ sAmp) = True := by decide
    simp [calculate, h1, h2, h3, h4, applyBin, runCalcFn, arith, calcDiv, calcOrd]
    generalize blank0 a = a'
    generalize blank0 b = b'
    cases a' <;> cases b' <;> simp [calcCompare]
    all_goals (try (split <;> simp))
    all_goals (try (split <;> simp))
  case ge =>
    have h1 : (Tok.infixOp Op.ge.sym).isPrefixMinus = false := by decide
    have h2 : (Tok.infixOp Op.ge.sym).isInfixMinus = false := by decide
    have h3 : lookup (Tok.infixOp Op.ge.sym).tvalue tokenCalcFunc = some .calcGe := by decide
    have h4 : ((Tok.infixOp Op.ge.sym).tvalue ≠ sAmp) = True := by decide
    simp [calculate, h1, h2, h3, h4, applyBin, runCalcFn, arith, calcDiv, calcOrd]
    generalize blank0 a = a'
    generalize blank0 b = b'
    cases a' <;> cases b' <;> simp [calcCompare]
    all_goals (try (split <;> simp))
    all_goals (try (split <;> simp))

/-! ### stack discipline -/

/-- every pending token is an operator of priority ≥ p -/
def Pend (p : Nat) (pend : List Tok) : Prop := ∀ t ∈ pend, StackOp t ∧ p ≤ getPriority t

/-- the top of the operator stack (if any) has priority < p -/
def Admits (p : Nat) (opt : List Tok) : Prop := ∀ t rest, opt = t :: rest → getPriority t < p

theorem Pend.nil (p : Nat) : Pend p [] := by intro t h; cases h

theorem Pend.mono {p q : Nat} {pend : List Tok} (h : Pend q pend) (hpq : p ≤ q) : Pend p pend :=
  fun t ht => ⟨(h t ht).1, Nat.le_trans hpq (h t ht).2⟩

theorem Pend.eq_nil_of_gt {p : Nat} {pend : List Tok} (h : Pend p pend) (hp : 6 < p) : pend = [] := by
  cases pend with
  | nil => rfl
  | cons t r =>
    have := h t (by simp)
    have h6 := this.1.pri_le
    omega

theorem Admits.mono {p q : Nat} {opt : List Tok} (h : Admits p opt) (hpq : p ≤ q) : Admits q opt :=
  fun t rest e => Nat.lt_of_lt_of_le (h t rest e) hpq

theorem flush_append (a b : List Tok) (opd : List (Arg N)) :
    flush (a ++ b) opd = flush a opd >>= flush b := by
  induction a generalizing opd with
  | nil => rfl
  | cons t r ih =>
    simp only [List.cons_append, flush]
    cases calculate opd t <;> simp [ih]

theorem popLoop_pend (q : Nat) (pend opt : List Tok) (opd : List (Arg N)) (h : Pend q pend) :
    popLoop q (pend ++ opt) opd = flush pend opd >>= popLoop q opt := by
  induction pend generalizing opd with
  | nil => rfl
  | cons t r ih =>
    have ht := h t (by simp)
    have hr : Pend q r := fun u hu => h u (by simp [hu])
    simp only [List.cons_append, popLoop, flush, loopCmp_eq, ht.2, decide_true, if_true]
    cases calculate opd t <;> simp [ih _ hr]

theorem popLoop_stop (q : Nat) (opt : List Tok) (opd : List (Arg N)) (h : Admits q opt) :
    popLoop q opt opd = .ok (opd, opt) := by
  cases opt with
  | nil => rfl
  | cons t r =>
    have := h t r rfl
    have hn : ¬ q ≤ getPriority t := by omega
    simp [popLoop, loopCmp_eq, hn]

theorem closeParen_pend (pend opt : List Tok) (opd : List (Arg N)) (p : Nat) (h : Pend p pend) :
    closeParen (pend ++ .lpar :: opt) opd = flush pend opd >>= fun o => .ok (o, opt) := by
  induction pend generalizing opd with
  | nil => simp [closeParen, flush]
  | cons t r ih =>
    have ht := (h t (by simp)).1.ne_lpar
    have hr : Pend p r := fun u hu => h u (by simp [hu])
    simp only [List.cons_append, closeParen, ht, if_false, flush]
    cases calculate opd t <;> simp [ih _ hr]

/-! ### one token at a time -/

theorem run_append (env : Str → Option (CellArg N)) (a b : List Tok) (st : State N) :
    run env (a ++ b) st = run env a st >>= run env b := by
  induction a generalizing st with
  | nil => rfl
  | cons t r ih =>
    simp only [List.cons_append, run]
    cases parseToken env t st <;> simp [ih]

theorem run_cons (env : Str → Option (CellArg N)) (t : Tok) (ts : List Tok) (st : State N) :
    run env (t :: ts) st = parseToken env t st >>= run env ts := by
  rfl

theorem run_nil (env : Str → Option (CellArg N)) (st : State N) : run env [] st = .ok st := rfl

/-- parseOperatorPrefixToken for an infix operator = pop while priority ≤, then push -/
theorem parseOp_infix (op : Op) (opd : List (Arg N)) (opt : List Tok) :
    parseOperatorPrefixToken (.infixOp op.sym) opd opt =
      popLoop op.level opt opd >>= fun s => .ok (s.1, .infixOp op.sym :: s.2) := by
  cases opt with
  | nil => simp [parseOperatorPrefixToken, popLoop]
  | cons top rest =>
    simp only [parseOperatorPrefixToken, infix_not_neg, Bool.and_false, pri_infix, pushCmp_eq]
    by_cases h : op.level > getPriority top
    · have hn : ¬ op.level ≤ getPriority top := by omega
      simp [h, popLoop, loopCmp_eq, hn]
    · simp only [h, decide_false]
      cases popLoop op.level (top :: rest) opd <;> simp

theorem step_infix (env : Str → Option (CellArg N)) (op : Op) (opd' : List (Arg N)) (pend opt : List Tok)
    (hp : Pend op.level pend) (ha : Admits op.level opt) :
    parseToken env (.infixOp op.sym) (opd', pend ++ opt) =
      flush pend opd' >>= fun o => .ok (o, .infixOp op.sym :: opt) := by
  have e1 : parseOperatorPrefixToken (.infixOp op.sym) opd' (pend ++ opt) =
      flush pend opd' >>= fun o => .ok (o, .infixOp op.sym :: opt) := by
    rw [parseOp_infix, popLoop_pend _ _ _ _ hp]
    cases flush pend opd' with
    | error e => simp
    | ok o => simp [popLoop_stop _ _ _ ha]
  simp only [parseToken, parseTokenCore, bind_ok, pure_eq_ok, isOp_infix, if_true, e1]
  cases flush pend opd' with
  | error e => simp
  | ok o => simp [isOperand]

theorem step_neg (env : Str → Option (CellArg N)) (opd : List (Arg N)) (opt : List Tok) (p : Nat)
    (hp : p ≤ 6) (ha : Admits p opt) :
    parseToken env (.prefixOp sMinus) (opd, opt) = .ok (opd, .prefixOp sMinus :: opt) := by
  have hm : (Tok.prefixOp sMinus).isPrefixMinus = true := by decide
  cases opt with
  | nil => simp [parseToken, parseTokenCore, isOp_neg, parseOperatorPrefixToken, isOperand]
  | cons top rest =>
    have hlt := ha top rest rfl
    have htop : top.isPrefixMinus = false := by
      cases h : top.isPrefixMinus with
      | false => rfl
      | true =>
        have : top = .prefixOp sMinus := by simpa [Tok.isPrefixMinus] using h
        rw [this, pri_neg] at hlt; omega
    have hgt : prefixMinusPriority > getPriority top := by
      have : prefixMinusPriority = 6 := by decide
      omega
    have h6 : getPriority (Tok.prefixOp sMinus) = prefixMinusPriority := by decide
    simp [parseToken, parseTokenCore, isOp_neg, parseOperatorPrefixToken, htop, pushCmp_eq, h6, hgt, isOperand]

theorem step_neg_cancel (env : Str → Option (CellArg N)) (opd : List (Arg N)) (opt : List Tok) :
    parseToken env (.prefixOp sMinus) (opd, .prefixOp sMinus :: opt) = .ok (opd, opt) := by
  have hm : (Tok.prefixOp sMinus).isPrefixMinus = true := by decide
  simp [parseToken, parseTokenCore, isOp_neg, parseOperatorPrefixToken, hm, isOperand]

theorem step_lpar (env : Str → Option (CellArg N)) (opd : List (Arg N)) (opt : List Tok) :
    parseToken env .lpar (opd, opt) = .ok (opd, .lpar :: opt) := by
  have h : isOperatorPrefixToken .lpar = false := by decide
  simp [parseToken, parseTokenCore, h, isOperand]

theorem step_rpar (env : Str → Option (CellArg N)) (opd' : List (Arg N)) (pend opt : List Tok) (p : Nat)
    (hp : Pend p pend) :
    parseToken env .rpar (opd', pend ++ .lpar :: opt) = flush pend opd' >>= fun o => .ok (o, opt) := by
  have h : isOperatorPrefixToken .rpar = false := by decide
  simp [parseToken, parseTokenCore, h, isOperand, closeParen_pend _ _ _ p hp]

theorem step_pct (env : Str → Option (CellArg N)) (x : Arg N) (opd : List (Arg N)) (opt : List Tok) :
    parseToken env (.postfixOp [37]) (x :: opd, opt) = (fun v => (v :: opd, opt)) <$> percent x := by
  have h : isOperatorPrefixToken (.postfixOp [37]) = false := by decide
  simp [parseToken, parseTokenCore, h, percent, isOperand]
  cases hu : unaryNum (fun y => div y (ofNat percentDivisor)) x <;> simp [hu]

theorem step_operand (env : Str → Option (CellArg N)) (t : Tok) (ht : isOperand t = true)
    (opd : List (Arg N)) (opt : List Tok) :
    parseToken env t (opd, opt) = .ok (tokenToArg t :: opd, opt) := by
  cases t <;> simp [isOperand] at ht <;>
    simp [parseToken, parseTokenCore, isOperatorPrefixToken, Tok.isPrefixMinus, isOperand]

theorem step_ref (env : Str → Option (CellArg N)) (k : Str) (opd : List (Arg N)) (opt : List Tok) :
    parseToken env (.ref k) (opd, opt) =
      match env k with
      | none => .error (.msg (.lit formulaErrorNAME))
      | some c => .ok (tokenToArg (argToTok c) :: opd, opt) := by
  cases h : env k with
  | none => simp [parseToken, parseTokenCore, h]
  | some c =>
    cases c with
    | num x b => cases b <;> simp [parseToken, parseTokenCore, h, argToTok, isOperatorPrefixToken, Tok.isPrefixMinus, isOperand]
    | str s => simp [parseToken, parseTokenCore, h, argToTok, isOperatorPrefixToken, Tok.isPrefixMinus, isOperand]
    | err m => simp [parseToken, parseTokenCore, h, argToTok, isOperatorPrefixToken, Tok.isPrefixMinus, isOperand]
    | empty => simp [parseToken, parseTokenCore, h, argToTok, isOperatorPrefixToken, Tok.isPrefixMinus, isOperand]

/-! ### function calls: the macro token is the composition of the micro steps -/

theorem runF_cons (env : Str → Option (CellArg N)) (t : Tok) (ts : List Tok) (s : FState N) :
    runF env (t :: ts) s = stepF env t s >>= runF env ts := rfl

theorem runF_append (env : Str → Option (CellArg N)) (a b : List Tok) (s : FState N) :
    runF env (a ++ b) s = runF env a s >>= runF env b := by
  induction a generalizing s with
  | nil => rfl
  | cons t r ih =>
    simp only [List.cons_append, runF]
    cases stepF env t s <;> simp [ih]

theorem runF_expandArgs (env : Str → Option (CellArg N)) (name : Str) (args : List (List Str))
    (acc : List (CellArg N)) (st : State N) (rest : List Tok) :
    runF env (expandArgs args ++ rest) (st, some (name, acc)) =
      match callArgs env args acc with
      | .error e => .error e
      | .ok cells => runF env rest (st, some (name, cells)) := by
  induction args generalizing acc with
  | nil => simp [expandArgs, callArgs]
  | cons a tl ih =>
    cases tl with
    | nil =>
      by_cases h : a = []
      · simp [expandArgs, callArgs, runF, stepF, h]
      · simp [expandArgs, callArgs, runF, stepF, h]
    | cons b tl' =>
      by_cases h : a = []
      · simp [expandArgs, callArgs, runF, stepF, h]
      · have := ih (acc ++ a.map (cellOf env))
        simp only [expandArgs, List.cons_append, runF, stepF, h, if_false, bind_ok, pure_eq_ok] at this ⊢
        rw [callArgs]
        simp only [h, if_false]
        exact this

theorem runF_expandCall (env : Str → Option (CellArg N)) (name : Str) (args : List (List Str))
    (opd : List (Arg N)) (opt : List Tok) (rest : List Tok) :
    runF env (expandCall name args ++ rest) ((opd, opt), none) =
      match callValue env name args with
      | .error e => .error e
      | .ok v => runF env rest ((v :: opd, opt), none) := by
  unfold expandCall callValue
  by_cases hn : name = [65, 82, 82, 65, 89] ∨ name = [65, 82, 82, 65, 89, 82, 79, 87]
  · simp [runF, stepF, hn]
  · simp only [List.cons_append, runF, stepF, hn, if_false, bind_ok, pure_eq_ok, List.append_assoc]
    rw [runF_expandArgs]
    cases callArgs env args [] with
    | error e => rfl
    | ok cells =>
      simp only [List.singleton_append, runF, stepF]
      cases hf : aggOfName name with
      | none => simp
      | some fn => cases ha : aggregate fn cells <;> simp [ha]

theorem parseToken_call (env : Str → Option (CellArg N)) (name : Str) (args : List (List Str))
    (opd : List (Arg N)) (opt : List Tok) :
    parseToken env (.call name args) (opd, opt) =
      (fun v => (v :: opd, opt)) <$> callValue env name args := by
  have := runF_expandCall env name args opd opt []
  simp only [List.append_nil] at this
  simp only [parseToken, this]
  cases callValue env name args <;> rfl

/-! ### the compiler-correctness invariant -/

/-- running the tokens of a subexpression from `(opd, opt)` either fails with the
subexpression's error, or leaves `pend ++ opt` where the pending operators all have
priority ≥ p and flushing them yields the subexpression's value on top of `opd`
(or its error) -/
def Post (p : Nat) (opd : List (Arg N)) (opt : List Tok) (r : Except MErr (Arg N)) :
    Except MErr (State N) → Prop
  | .error m => r = .error m
  | .ok (opd', opt') => ∃ pend, opt' = pend ++ opt ∧ Pend p pend ∧ flush pend opd' = (· :: opd) <$> r

theorem Post.value (p : Nat) (opd : List (Arg N)) (opt : List Tok) (v : Arg N) :
    Post p opd opt (.ok v) (.ok (v :: opd, opt)) := ⟨[], rfl, Pend.nil p, rfl⟩

theorem Post.mono {p q : Nat} {opd : List (Arg N)} {opt : List Tok} {r : Except MErr (Arg N)}
    {out : Except MErr (State N)} (h : Post q opd opt r out) (hpq : p ≤ q) : Post p opd opt r out := by
  cases out with
  | error m => exact h
  | ok s =>
    obtain ⟨opd', opt'⟩ := s
    obtain ⟨pend, e, hp, hf⟩ := h
    exact ⟨pend, e, hp.mono hpq, hf⟩

theorem admits_lpar (opt : List Tok) : Admits 1 (.lpar :: opt) := by
  intro t rest e
  cases e
  rw [pri_lpar]; exact Nat.zero_lt_one

/-- parentheses around a body that is correct at level 1 -/
theorem post_paren (env : Str → Option (CellArg N)) (body : List Tok) (r : Except MErr (Arg N))
    (p : Nat) (opd : List (Arg N)) (opt : List Tok)
    (h : Post 1 opd (.lpar :: opt) r (run env body (opd, .lpar :: opt))) :
    Post p opd opt r (run env (.lpar :: (body ++ [.rpar])) (opd, opt)) := by
  rw [run_cons, step_lpar, bind_ok, run_append]
  cases hb : run env body (opd, .lpar :: opt) with
  | error m =>
    rw [hb] at h
    simpa [Post] using h
  | ok s =>
    obtain ⟨opd', opt'⟩ := s
    rw [hb] at h
    obtain ⟨pend, e, hp, hf⟩ := h
    subst e
    rw [bind_ok, run_cons, step_rpar env opd' pend opt 1 hp, hf]
    cases r with
    | error m => simp [Post]
    | ok v => simpa [run_nil] using Post.value p opd opt v

/-- from a body lemma (levels ≤ lvl) to every context level, adding parentheses when needed -/
theorem post_wrap (env : Str → Option (CellArg N)) (body : List Tok) (r : Except MErr (Arg N)) (lvl : Nat)
    (hl : 1 ≤ lvl)
    (B : ∀ p' opd opt, 1 ≤ p' → p' ≤ lvl → Admits p' opt → Post p' opd opt r (run env body (opd, opt)))
    (p : Nat) (opd : List (Arg N)) (opt : List Tok) (hp : 1 ≤ p) (ha : Admits p opt) :
    Post p opd opt r (run env (wrap (decide (lvl < p)) body) (opd, opt)) := by
  by_cases h : lvl < p
  · simp only [wrap, h, decide_true, if_true]
    exact post_paren env body r p opd opt (B 1 opd _ (Nat.le_refl _) hl (admits_lpar opt))
  · simp only [wrap, h, decide_false]
    exact B p opd opt hp (by omega) ha

theorem render_6_7 (e : Expr) (hnn : ∀ e', e ≠ .neg e') : render 6 e = render 7 e := by
  cases e with
  | neg e' => exact absurd rfl (hnn e')
  | bin op l r =>
    have := level_le op
    have h6 : op.level < 6 := by omega
    have h7 : op.level < 7 := by omega
    simp [render, wrap, h6, h7]
  | _ => simp [render, wrap]

theorem evalTree_neg (env : Str → Option (CellArg N)) (e : Expr) (hnn : ∀ e', e ≠ .neg e') :
    evalTree env (.neg e) = evalTree env e >>= fun v => negate v := by
  cases e with
  | neg e' => exact absurd rfl (hnn e')
  | _ => rfl

def P (env : Str → Option (CellArg N)) (e : Expr) : Prop :=
  ∀ p opd opt, 1 ≤ p → Admits p opt →
    Post p opd opt (evalTree env e) (run env (render p e) (opd, opt))

def Q (env : Str → Option (CellArg N)) (e : Expr) : Prop :=
  ∀ p opd opt, 1 ≤ p → p ≤ 6 → Admits p opt →
    Post p opd opt (evalTree env (.neg e)) (run env (render 6 e) (opd, .prefixOp sMinus :: opt))

theorem admits_neg (opt : List Tok) : Admits 7 (.prefixOp sMinus :: opt) := by
  intro t rest e
  cases e
  rw [pri_neg]; decide

theorem pend_neg (p : Nat) (hp : p ≤ 6) : Pend p [.prefixOp sMinus] := by
  intro t ht
  simp at ht
  subst ht
  exact ⟨Or.inl rfl, by rw [pri_neg]; exact hp⟩

theorem Q_of_P (env : Str → Option (CellArg N)) (e : Expr) (hnn : ∀ e', e ≠ .neg e') (hP : P env e) :
    Q env e := by
  intro p opd opt h1 h6 ha
  rw [render_6_7 e hnn, evalTree_neg env e hnn]
  have h := hP 7 opd (.prefixOp sMinus :: opt) (by omega) (admits_neg opt)
  cases ho : run env (render 7 e) (opd, .prefixOp sMinus :: opt) with
  | error m =>
    rw [ho] at h
    simp only [Post] at h ⊢
    rw [h]; rfl
  | ok s =>
    obtain ⟨opd', opt'⟩ := s
    rw [ho] at h
    obtain ⟨pend, e1, hp, hf⟩ := h
    have hn := hp.eq_nil_of_gt (by omega)
    subst hn
    simp only [List.nil_append] at e1
    subst e1
    cases hr : evalTree env e with
    | error m => rw [hr] at hf; simp [flush] at hf
    | ok v =>
      rw [hr] at hf
      simp [flush] at hf
      subst hf
      refine ⟨[.prefixOp sMinus], rfl, pend_neg p h6, ?_⟩
      simp only [flush, calculate_neg, bind_ok]
      cases negate v <;> simp [flush]

theorem evalTree_bin (env : Str → Option (CellArg N)) (op : Op) (l r : Expr) :
    evalTree env (.bin op l r) =
      evalTree env l >>= fun a => evalTree env r >>= fun b => applyBin op a b := rfl

theorem evalTree_pct (env : Str → Option (CellArg N)) (e : Expr) :
    evalTree env (.pct e) = evalTree env e >>= fun v => percent v := rfl

theorem admits_infix (op : Op) (opt : List Tok) : Admits (op.level + 1) (.infixOp op.sym :: opt) := by
  intro t rest e
  cases e
  rw [pri_infix]; exact Nat.lt_succ_self _

theorem main (env : Str → Option (CellArg N)) (e : Expr) : P env e ∧ Q env e := by
  induction e with
  | num raw =>
    have hP : P env (.num raw) := by
      intro p opd opt _ _
      simp only [render, run_cons, step_operand env (.num raw) rfl, bind_ok, run_nil, evalTree, pure_eq_ok]
      exact Post.value p opd opt _
    exact ⟨hP, Q_of_P env _ (by intro e' h; cases h) hP⟩
  | text s =>
    have hP : P env (.text s) := by
      intro p opd opt _ _
      simp only [render, run_cons, step_operand env (.text s) rfl, bind_ok, run_nil, evalTree, pure_eq_ok]
      exact Post.value p opd opt _
    exact ⟨hP, Q_of_P env _ (by intro e' h; cases h) hP⟩
  | logical raw =>
    have hP : P env (.logical raw) := by
      intro p opd opt _ _
      simp only [render, run_cons, step_operand env (.logical raw) rfl, bind_ok, run_nil, evalTree, pure_eq_ok]
      exact Post.value p opd opt _
    exact ⟨hP, Q_of_P env _ (by intro e' h; cases h) hP⟩
  | ref k =>
    have hP : P env (.ref k) := by
      intro p opd opt _ _
      simp only [render, run_cons, step_ref, evalTree]
      cases env k with
      | none => simp [Post]
      | some c => simpa [run_nil] using Post.value p opd opt _
    exact ⟨hP, Q_of_P env _ (by intro e' h; cases h) hP⟩
  | paren e ih =>
    have hP : P env (.paren e) := by
      intro p opd opt _ _
      have : evalTree env (.paren e) = evalTree env e := rfl
      rw [this]
      simp only [render]
      exact post_paren env _ _ p opd opt (ih.1 1 opd _ (Nat.le_refl _) (admits_lpar opt))
    exact ⟨hP, Q_of_P env _ (by intro e' h; cases h) hP⟩
  | pct e ih =>
    have hP : P env (.pct e) := by
      intro p opd opt hp ha
      simp only [render]
      refine post_wrap env _ _ 7 (by omega) ?_ p opd opt hp ha
      intro p' opd opt h1 h7 ha
      rw [run_append, evalTree_pct]
      have h := ih.1 7 opd opt (by omega) (ha.mono h7)
      cases ho : run env (render 7 e) (opd, opt) with
      | error m =>
        rw [ho] at h
        simp only [Post] at h
        simp [Post, h]
      | ok s =>
        obtain ⟨opd', opt'⟩ := s
        rw [ho] at h
        obtain ⟨pend, e1, hpd, hf⟩ := h
        have hn := hpd.eq_nil_of_gt (by omega)
        subst hn
        simp only [List.nil_append] at e1
        subst e1
        cases hr : evalTree env e with
        | error m => rw [hr] at hf; simp [flush] at hf
        | ok v =>
          rw [hr] at hf
          simp [flush] at hf
          subst hf
          simp only [bind_ok, run_cons, step_pct]
          cases percent v with
          | error m => simp [Post]
          | ok w => simpa [run_nil] using Post.value p' opd opt' w
    exact ⟨hP, Q_of_P env _ (by intro e' h; cases h) hP⟩
  | neg e ih =>
    constructor
    · intro p opd opt hp ha
      simp only [render]
      refine post_wrap env _ _ 6 (by omega) ?_ p opd opt hp ha
      intro p' opd opt h1 h6 ha
      rw [run_cons, step_neg env opd opt p' h6 ha, bind_ok]
      exact ih.2 p' opd opt h1 h6 ha
    · intro p opd opt h1 h6 ha
      have hr : render 6 (.neg e) = .prefixOp sMinus :: render 6 e := by simp [render, wrap]
      have he : evalTree env (.neg (.neg e)) = evalTree env e := by simp [evalTree]
      rw [hr, he, run_cons, step_neg_cancel, bind_ok]
      exact (ih.1 6 opd opt (by omega) (ha.mono h6)).mono h6
  | call n a =>
    have hP : P env (.call n a) := by
      intro p opd opt _ _
      have he : evalTree env (.call n a) = callValue env n a := rfl
      simp only [render, run_cons, parseToken_call, he]
      cases callValue env n a with
      | error e => simp [Post]
      | ok v => simpa [run_nil] using Post.value p opd opt v
    exact ⟨hP, Q_of_P env _ (by intro e' h; cases h) hP⟩
  | bin op l r ihl ihr =>
    have hP : P env (.bin op l r) := by
      intro p opd opt hp ha
      simp only [render]
      refine post_wrap env _ _ op.level (level_pos op) ?_ p opd opt hp ha
      intro p' opd opt h1 hL ha
      rw [run_append, evalTree_bin]
      have h := ihl.1 op.level opd opt (level_pos op) (ha.mono hL)
      cases ho : run env (render op.level l) (opd, opt) with
      | error m =>
        rw [ho] at h
        simp only [Post] at h
        simp [Post, h]
      | ok s =>
        obtain ⟨opd1, opt1⟩ := s
        rw [ho] at h
        obtain ⟨pend1, e1, hpd1, hf1⟩ := h
        subst e1
        rw [bind_ok, run_cons, step_infix env op opd1 pend1 opt hpd1 (ha.mono hL), hf1]
        cases hl : evalTree env l with
        | error m => simp [Post]
        | ok a =>
          simp only [map_ok, bind_ok]
          have h2 := ihr.1 (op.level + 1) (a :: opd) (.infixOp op.sym :: opt) (by omega) (admits_infix op opt)
          cases ho2 : run env (render (op.level + 1) r) (a :: opd, .infixOp op.sym :: opt) with
          | error m =>
            rw [ho2] at h2
            simp only [Post] at h2
            simp [Post, h2]
          | ok s2 =>
            obtain ⟨opd2, opt2⟩ := s2
            rw [ho2] at h2
            obtain ⟨pend2, e2, hpd2, hf2⟩ := h2
            subst e2
            refine ⟨pend2 ++ [.infixOp op.sym], by simp, ?_, ?_⟩
            · intro t ht
              simp at ht
              rcases ht with ht | ht
              · have := hpd2 t ht
                exact ⟨this.1, by omega⟩
              · subst ht
                exact ⟨Or.inr ⟨op, rfl⟩, by rw [pri_infix]; exact hL⟩
            · rw [flush_append, hf2]
              cases hr : evalTree env r with
              | error m => simp
              | ok b =>
                simp only [map_ok, bind_ok, flush, calculate_infix]
                cases applyBin op a b <;> simp
    exact ⟨hP, Q_of_P env _ (by intro e' h; cases h) hP⟩

/-- the token machine on `render 1 e` computes the structural evaluator -/
theorem evalTokens_render (env : Str → Option (CellArg N)) (e : Expr) :
    evalTokens env (render 1 e) = evalTree env e := by
  have h := (main env e).1 1 [] [] (Nat.le_refl _) (by intro t rest h; cases h)
  unfold evalTokens
  cases ho : run env (render 1 e) ([], []) with
  | error m =>
    rw [ho] at h
    simp only [Post] at h
    simp [h]
  | ok s =>
    obtain ⟨opd', opt'⟩ := s
    rw [ho] at h
    obtain ⟨pend, e1, _, hf⟩ := h
    simp only [List.append_nil] at e1
    subst e1
    simp only [bind_ok, hf]
    cases evalTree env e <;> simp

/-! ### the flat (real) token stream -/

def micro : Tok → Bool
  | .fstart _ => true | .fstop => true | .argsep => true | .rangeArg _ _ => true
  | _ => false

theorem runF_flatten (env : Str → Option (CellArg N)) (ts : List Tok) (hm : ∀ t ∈ ts, micro t = false)
    (st : State N) :
    runF env (flatten ts) (st, none) = run env ts st >>= fun st' => .ok (st', none) := by
  induction ts generalizing st with
  | nil => rfl
  | cons t rest ih =>
    have hr : ∀ u ∈ rest, micro u = false := fun u hu => hm u (by simp [hu])
    have ht := hm t (by simp)
    obtain ⟨opd, opt⟩ := st
    cases t with
    | call n a =>
      simp only [flatten, runF_expandCall, run_cons, parseToken_call]
      cases callValue env n a with
      | error e => rfl
      | ok v => simpa using ih hr (v :: opd, opt)
    | fstart n => simp [micro] at ht
    | fstop => simp [micro] at ht
    | argsep => simp [micro] at ht
    | rangeArg c b => simp [micro] at ht
    | _ =>
      simp only [flatten, runF_cons, stepF, run_cons, parseToken]
      cases parseTokenCore env _ (opd, opt) with
      | error e => rfl
      | ok st' => simpa using ih hr st'

theorem wrap_mem (b : Bool) (ts : List Tok) (t : Tok) (h : t ∈ wrap b ts) :
    t = .lpar ∨ t = .rpar ∨ t ∈ ts := by
  cases b <;> simp [wrap] at h
  · exact Or.inr (Or.inr h)
  · rcases h with h | h | h
    · exact Or.inl h
    · exact Or.inr (Or.inr h)
    · exact Or.inr (Or.inl h)

theorem render_noMicro (p : Nat) (e : Expr) : ∀ t ∈ render p e, micro t = false := by
  induction e generalizing p with
  | neg e ih =>
    intro t ht
    simp only [render] at ht
    rcases wrap_mem _ _ _ ht with h | h | h
    · subst h; rfl
    · subst h; rfl
    · simp at h
      rcases h with h | h
      · subst h; rfl
      · exact ih _ _ h
  | pct e ih =>
    intro t ht
    simp only [render] at ht
    rcases wrap_mem _ _ _ ht with h | h | h
    · subst h; rfl
    · subst h; rfl
    · simp at h
      rcases h with h | h
      · exact ih _ _ h
      · subst h; rfl
  | bin op l r ihl ihr =>
    intro t ht
    simp only [render] at ht
    rcases wrap_mem _ _ _ ht with h | h | h
    · subst h; rfl
    · subst h; rfl
    · simp at h
      rcases h with h | h | h
      · exact ihl _ _ h
      · subst h; rfl
      · exact ihr _ _ h
  | paren e ih =>
    intro t ht
    simp only [render] at ht
    simp at ht
    rcases ht with h | h | h
    · subst h; rfl
    · exact ih _ _ h
    · subst h; rfl
  | _ => intro t ht; simp [render] at ht; subst ht; rfl

/-- `evalInfixExp` on the flat token stream of a formula with calls computes the tree -/
theorem evalTokensF_render (env : Str → Option (CellArg N)) (e : Expr) :
    evalTokensF env (flatten (render 1 e)) = evalTree env e := by
  rw [← evalTokens_render env e]
  unfold evalTokensF evalTokens
  rw [runF_flatten env _ (render_noMicro 1 e)]
  cases run env (render 1 e) ([], []) with
  | error m => rfl
  | ok s => obtain ⟨opd, opt⟩ := s; rfl

end XlModel.Calc.Impl
