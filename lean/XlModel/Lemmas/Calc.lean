import XlModel.Calc
namespace XlModel.Calc
end XlModel.Calc
