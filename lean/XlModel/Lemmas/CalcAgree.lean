/-
C08 helper lemmas for the per-operator agreement theorems: the shape of
`Impl.applyBin` on operands that are not error values, and facts about `cmpStr`.
-/
import XlModel.Lemmas.Calc

set_option linter.unusedSimpArgs false
set_option linter.unusedVariables false

namespace XlModel.Calc.Impl
open XlModel.Facts.C08 XlModel.Calc NumOps

variable {N : Type} [NumOps N]

/-- what calcL / calcLe / calcG / calcGe do on two non-error operands -/
def ordRes (f : Ordering → Bool) (l' r' : Arg N) : Except MErr (Arg N) :=
  match calcCompare l' r' with
  | some o => .ok (mkBool (f o))
  | none => .error .panic

theorem applyBin_lt_shape (l r : Arg N) (hl : ∀ m, blank0 l ≠ .err m) (hr : ∀ m, blank0 r ≠ .err m) :
    applyBin .lt l r = ordRes (· == .lt) (blank0 l) (blank0 r) := by
  simp only [applyBin]
  generalize blank0 l = l' at hl ⊢
  generalize blank0 r = r' at hr ⊢
  cases l' <;> cases r' <;> simp_all [ordRes, calcCompare]

theorem applyBin_le_shape (l r : Arg N) (hl : ∀ m, blank0 l ≠ .err m) (hr : ∀ m, blank0 r ≠ .err m) :
    applyBin .le l r = ordRes (· != .gt) (blank0 l) (blank0 r) := by
  simp only [applyBin]
  generalize blank0 l = l' at hl ⊢
  generalize blank0 r = r' at hr ⊢
  cases l' <;> cases r' <;> simp_all [ordRes, calcCompare]

theorem applyBin_gt_shape (l r : Arg N) (hl : ∀ m, blank0 l ≠ .err m) (hr : ∀ m, blank0 r ≠ .err m) :
    applyBin .gt l r = ordRes (· == .gt) (blank0 l) (blank0 r) := by
  simp only [applyBin]
  generalize blank0 l = l' at hl ⊢
  generalize blank0 r = r' at hr ⊢
  cases l' <;> cases r' <;> simp_all [ordRes, calcCompare]

theorem applyBin_ge_shape (l r : Arg N) (hl : ∀ m, blank0 l ≠ .err m) (hr : ∀ m, blank0 r ≠ .err m) :
    applyBin .ge l r = ordRes (· != .lt) (blank0 l) (blank0 r) := by
  simp only [applyBin]
  generalize blank0 l = l' at hl ⊢
  generalize blank0 r = r' at hr ⊢
  cases l' <;> cases r' <;> simp_all [ordRes, calcCompare]

theorem applyBin_eq_shape (l r : Arg N) (hl : ∀ m, blank0 l ≠ .err m) (hr : ∀ m, blank0 r ≠ .err m) :
    applyBin .eq l r = .ok (mkBool (calcEqual (blank0 r) (blank0 l))) := by
  simp only [applyBin]
  generalize blank0 l = l' at hl ⊢
  generalize blank0 r = r' at hr ⊢
  cases l' <;> cases r' <;> simp_all

theorem applyBin_ne_shape (l r : Arg N) (hl : ∀ m, blank0 l ≠ .err m) (hr : ∀ m, blank0 r ≠ .err m) :
    applyBin .ne l r = .ok (mkBool (!calcEqual (blank0 r) (blank0 l))) := by
  simp only [applyBin]
  generalize blank0 l = l' at hl ⊢
  generalize blank0 r = r' at hr ⊢
  cases l' <;> cases r' <;> simp_all

theorem applyBin_div_shape (l r : Arg N) (hl : ∀ m, blank0 l ≠ .err m) (hr : ∀ m, blank0 r ≠ .err m) :
    applyBin .div l r =
      (do let a ← liftE (toNumber (blank0 l))
          let b ← liftE (toNumber (blank0 r))
          if isZero b then .error (.msg (.lit formulaErrorDIV)) else pure (mkNum (div a b))) := by
  simp only [applyBin]
  generalize blank0 l = l' at hl ⊢
  generalize blank0 r = r' at hr ⊢
  cases l' <;> cases r' <;> simp_all [throw, throwThe, MonadExceptOf.throw]

/-- what calcPow does with the two coerced numbers -/
def powRes (a b : N) : Except MErr (Arg N) :=
  if isZero a && isZero b then .error (.msg (.lit formulaErrorNUM))
  else if isZero a && lt b zero then .error (.msg (.lit formulaErrorDIV))
  else .ok (mkNum (pow a b))

theorem applyBin_pow_shape (l r : Arg N) (hl : ∀ m, blank0 l ≠ .err m) (hr : ∀ m, blank0 r ≠ .err m) :
    applyBin .pow l r =
      (do let a ← liftE (toNumber (blank0 l))
          let b ← liftE (toNumber (blank0 r))
          powRes a b) := by
  unfold applyBin
  generalize blank0 l = l' at hl ⊢
  generalize blank0 r = r' at hr ⊢
  cases l' <;> cases r' <;> simp_all
  all_goals (generalize liftE (toNumber (_ : Arg N)) = x; generalize liftE (toNumber (_ : Arg N)) = y; cases x <;> cases y <;> simp [powRes])
  all_goals (try (split <;> simp [throw, throwThe, MonadExceptOf.throw]))
  all_goals (try (split <;> simp_all [throw, throwThe, MonadExceptOf.throw]))

theorem applyBin_concat_shape (l r : Arg N) (hl : ∀ m, l ≠ .err m) (hr : ∀ m, r ≠ .err m) :
    applyBin .concat l r = .ok (.str (value l ++ value r)) := by
  simp only [applyBin]
  cases l <;> cases r <;> simp_all

/-! ### cmpStr -/

theorem cmpStr_eq_iff (s t : Str) : cmpStr s t = .eq ↔ s = t := by
  induction s generalizing t with
  | nil => cases t <;> simp [cmpStr]
  | cons a as ih =>
    cases t with
    | nil => simp [cmpStr]
    | cons b bs =>
      simp only [cmpStr]
      by_cases h1 : a < b
      · simp [h1]; omega
      · by_cases h2 : b < a
        · simp [h1, h2]; omega
        · have : a = b := by omega
          simp [h1, h2, this, ih]

theorem cmpStr_nil_left (t : Str) (h : t ≠ []) : cmpStr [] t = .lt := by
  cases t with
  | nil => exact absurd rfl h
  | cons b bs => rfl

theorem cmpStr_nil_right (s : Str) (h : s ≠ []) : cmpStr s [] = .gt := by
  cases s with
  | nil => exact absurd rfl h
  | cons b bs => rfl

theorem upper_ne_nil (s : Str) (h : s ≠ []) : upper s ≠ [] := by
  cases s with
  | nil => exact absurd rfl h
  | cons b bs => simp [upper]

end XlModel.Calc.Impl
