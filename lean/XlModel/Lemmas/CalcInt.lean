/-
C08: a small exact instance of `NumOps` (integers, decimal spelling) on which the
`finding_…` witnesses are decided by the kernel and which shows that the
hypotheses of the agreement theorems are satisfiable.
-/
import XlModel.Calc

namespace XlModel.Calc.IntInst
open XlModel.Calc

def digitsAux : Nat → Nat → List Nat → List Nat
  | 0, _, acc => acc
  | fuel + 1, n, acc => if n < 10 then (48 + n) :: acc else digitsAux fuel (n / 10) ((48 + n % 10) :: acc)

def fmtInt (x : Int) : Str := (if x < 0 then [45] else []) ++ digitsAux 40 x.natAbs []

def parseNat : List Nat → Nat → Option Nat
  | [], acc => some acc
  | b :: rest, acc => if 48 ≤ b ∧ b ≤ 57 then parseNat rest (acc * 10 + (b - 48)) else none

def parseInt (s : Str) : Option Int :=
  match s with
  | [] => none
  | 45 :: r => if r = [] then none else (parseNat r 0).map fun n => -(n : Int)
  | _ => (parseNat s 0).map fun n => (n : Int)

instance : NumOps Int where
  zero := 0
  one := 1
  ofNat n := n
  add := (· + ·)
  sub := (· - ·)
  mul := (· * ·)
  div a b := a / b
  pow a b := a ^ b.toNat
  isZero x := x == 0
  isNaN _ := false
  isInf _ := false
  lt a b := decide (a < b)
  le a b := decide (a ≤ b)
  eq a b := a == b
  fmtG := fmtInt
  parse := parseInt
  fmtGeneral := fmtInt
  maxFloat := 1000000000000

end XlModel.Calc.IntInst
