/-
C08 helper lemmas: the canonical cell key `sheet!<column letters><row digits>` the model's
reference resolution produces (`Impl.keyOf`) determines the coordinates — the letters / digits
boundary is unambiguous (unlike a key made of the column NUMBER followed by the row, where
(1,11) and (11,1) both give "111": the seeded change C08-g-1).
-/
import XlModel.CalcRef
import XlModel.Lemmas.Ref

namespace XlModel.Calc.Impl
open XlModel XlModel.Ref

/-- a run of letters followed by a run of digits splits in one way only -/
theorem letters_digits_split (xs xs' ys ys' : List Char)
    (hx : ∀ c ∈ xs, isLetter c = true) (hx' : ∀ c ∈ xs', isLetter c = true)
    (hy : ∀ c ∈ ys, isDigit c = true) (hy' : ∀ c ∈ ys', isDigit c = true)
    (h : xs ++ ys = xs' ++ ys') : xs = xs' ∧ ys = ys' := by
  induction xs generalizing xs' with
  | nil =>
    cases xs' with
    | nil => exact ⟨rfl, by simpa using h⟩
    | cons b bs =>
      exfalso
      have hb : b ∈ ys := by simp at h; rw [h]; simp
      have := isDigit_not_letter (hy b hb)
      rw [hx' b (by simp)] at this
      cases this
  | cons a as ih =>
    cases xs' with
    | nil =>
      exfalso
      have ha : a ∈ ys' := by simp at h; rw [← h]; simp
      have := isDigit_not_letter (hy' a ha)
      rw [hx a (by simp)] at this
      cases this
    | cons b bs =>
      simp only [List.cons_append, List.cons.injEq] at h
      obtain ⟨h1, h2⟩ := ih bs (fun c hc => hx c (by simp [hc])) (fun c hc => hx' c (by simp [hc])) h.2
      exact ⟨by rw [h.1, h1], h2⟩

theorem ofChars_injective (a b : List Char) (h : ofChars a = ofChars b) : a = b := by
  induction a generalizing b with
  | nil => cases b <;> simp_all [ofChars]
  | cons x xs ih =>
    cases b with
    | nil => simp [ofChars] at h
    | cons y ys =>
      simp only [ofChars, List.map_cons, List.cons.injEq] at h
      have hxy : x = y := Char.ext (UInt32.toNat_inj.mp h.1)
      rw [hxy, ih ys (by simpa [ofChars] using h.2)]

/-- the key of a cell determines its coordinates: on one sheet, two cells have the same key
only if they have the same column and the same row -/
theorem keyOf_injective (s : Str) (c r c' r' : Int) (k : Str) (hr : 1 ≤ r) (hr' : 1 ≤ r')
    (h : keyOf s c r = .ok k) (h' : keyOf s c' r' = .ok k) : c = c' ∧ r = r' := by
  have hmin : (Facts.MinColumns : Int) = 1 := by decide
  unfold keyOf columnNumberToName at h h'
  by_cases g : c < (Facts.MinColumns : Int) || c > (Facts.MaxColumns : Int)
  · simp [g] at h
  by_cases g' : c' < (Facts.MinColumns : Int) || c' > (Facts.MaxColumns : Int)
  · simp [g'] at h'
  simp only [g, g', Bool.false_eq_true, if_false] at h h'
  have e : s ++ [33] ++ ofChars (numToName c.toNat) ++ ofChars (itoaInt r) =
      s ++ [33] ++ ofChars (numToName c'.toNat) ++ ofChars (itoaInt r') := by
    injection h with h; injection h' with h'; rw [h, h']
  simp only [List.append_assoc, List.append_cancel_left_eq] at e
  have e2 : numToName c.toNat ++ itoaInt r = numToName c'.toNat ++ itoaInt r' := by
    apply ofChars_injective
    simpa [ofChars] using e
  rw [itoaInt_pos hr, itoaInt_pos hr'] at e2
  obtain ⟨hn, hd⟩ := letters_digits_split _ _ _ _ (numToName_letters _) (numToName_letters _)
    (itoaAux_digits _) (itoaAux_digits _) e2
  have hc : c.toNat = c'.toNat := by
    have a := colRaw_numToName c.toNat
    rw [hn, colRaw_numToName] at a
    exact (Option.some.inj a).symm
  have hrr : r.toNat = r'.toNat := by
    have a := digitsValAux_itoaAux r.toNat
    rw [hd, digitsValAux_itoaAux] at a
    exact (Option.some.inj a).symm
  simp only [Bool.or_eq_true, decide_eq_true_eq, not_or, Int.not_lt] at g g'
  omega

end XlModel.Calc.Impl
