/-
C08 helper lemmas for `operator_pair_grouping` (round 5, second wave): the rendering of an
atom (number, text, logical, reference, call, explicitly parenthesised expression) does not
depend on the precedence context, and every binary operator has level ≥ 1.
-/
import XlModel.Calc

namespace XlModel.Calc

/-- an atom is rendered the same way in every precedence context -/
theorem render_atom (a : Expr) (h : a.level = 8) (p : Nat) : render p a = render 8 a := by
  cases a with
  | neg e => simp [Expr.level] at h
  | pct e => simp [Expr.level] at h
  | bin op l r => cases op <;> simp [Expr.level, Op.level] at h
  | _ => simp [render]

theorem Op.level_pos (op : Op) : 1 ≤ op.level := by cases op <;> decide

theorem Op.level_lt (op : Op) : op.level < 6 := by cases op <;> decide

end XlModel.Calc
