import XlModel.CalcFloat
/-! C08 helper lemma for the layout theorems of the rendering model -/
namespace XlModel.CalcFloat

theorem range_getD (ds : List Nat) (n : Nat) :
    (List.range n).map (fun i => dch (ds.getD i 0)) =
      (ds.take n).map dch ++ List.replicate (n - ds.length) 48 := by
  induction ds generalizing n with
  | nil =>
    simp [dch]
    induction n with
    | zero => rfl
    | succ k ih => simp [List.range_succ, List.replicate_succ', ih]
  | cons d tl ih =>
    cases n with
    | zero => simp
    | succ k =>
      rw [List.range_succ_eq_map]
      simp only [List.map_cons, List.map_map, List.getD_cons_zero, List.take_succ_cons, List.length_cons,
        List.cons_append, Nat.succ_sub_succ]
      congr 1
      have := ih k
      have hf : ((fun i => dch ((d :: tl).getD i 0)) ∘ Nat.succ) = fun i => dch (tl.getD i 0) := by
        funext i; simp [Function.comp]
      simp only [List.getD_eq_getElem?_getD] at hf this ⊢
      rw [hf]
      simpa using this


end XlModel.CalcFloat
