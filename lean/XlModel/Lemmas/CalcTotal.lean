/-
Helper lemmas for C09, part 2 of `XlModel.CalcTotal`: the circular-reference
cut-off.  Measure `mu = Σ_{r ∈ formula cells} (M + 1 − iterations r)`.
-/
import XlModel.CalcTotal

namespace XlModel.Lemmas.CalcTotal
open XlModel XlModel.CalcTotal

theorem cutoff_facts : Facts.C09.cutoffOp = "<=" ∧ Facts.C09.cutoffIncrements = true := by decide

theorem cutoffAllows_iff (it M : Nat) : cutoffAllows it M = true ↔ it ≤ M := by
  unfold cutoffAllows
  rw [cutoff_facts.1]
  simp

variable {V : Type}

theorem bump_iterations (c : Ctx V) (r x : Nat) :
    (bump c r).iterations x = if x = r then c.iterations r + 1 else c.iterations x := by
  unfold bump
  rw [cutoff_facts.2]
  simp

theorem bump_calls (c : Ctx V) (r : Nat) : (bump c r).calls = c.calls := by
  unfold bump; split <;> rfl

def mu (M : Nat) (fc : List Nat) (c : Ctx V) : Nat :=
  (fc.map fun r => M + 1 - c.iterations r).sum

theorem mu_congr (M : Nat) (fc : List Nat) (c d : Ctx V) (h : ∀ r, c.iterations r = d.iterations r) :
    mu M fc c = mu M fc d := by
  unfold mu
  congr 1
  apply List.map_congr_left
  intro r _
  rw [h r]

theorem mu_init (M : Nat) (fc : List Nat) : mu M fc (Ctx.init : Ctx V) = (M + 1) * fc.length := by
  unfold mu Ctx.init
  induction fc with
  | nil => simp
  | cons x xs ih =>
    simp only [List.map_cons, List.sum_cons, List.length_cons] at ih ⊢
    rw [ih, Nat.mul_succ]
    omega

theorem mu_bump_not_mem (M : Nat) (fc : List Nat) (c : Ctx V) (r : Nat) (h : r ∉ fc) :
    mu M fc (bump c r) = mu M fc c := by
  unfold mu
  congr 1
  apply List.map_congr_left
  intro x hx
  rw [bump_iterations]
  have : x ≠ r := fun e => h (e ▸ hx)
  simp [this]

theorem mu_bump_mem (M : Nat) (fc : List Nat) (c : Ctx V) (r : Nat) (hm : r ∈ fc) (hn : fc.Nodup)
    (hle : c.iterations r ≤ M) : mu M fc (bump c r) + 1 = mu M fc c := by
  induction fc with
  | nil => cases hm
  | cons x xs ih =>
    have hx : x ∉ xs := (List.nodup_cons.mp hn).1
    have hxs : xs.Nodup := (List.nodup_cons.mp hn).2
    have e1 : mu M (x :: xs) (bump c r) = (M + 1 - (bump c r).iterations x) + mu M xs (bump c r) := by
      simp [mu]
    have e2 : mu M (x :: xs) c = (M + 1 - c.iterations x) + mu M xs c := by simp [mu]
    rw [e1, e2, bump_iterations]
    by_cases hxr : x = r
    · subst hxr
      simp only [if_true]
      rw [mu_bump_not_mem M xs c x hx]
      omega
    · have hr : r ∈ xs := by
        cases hm with
        | head => exact absurd rfl hxr
        | tail _ h => exact h
      simp only [hxr, if_false]
      have := ih hr hxs
      omega

/-- the invariant carried through one `calcCellValue` / `resolveAll` run -/
structure Good (M : Nat) (fc : List Nat) (slack : Nat) (c c' : Ctx V) : Prop where
  mu_le : mu M fc c' ≤ mu M fc c
  calls : c'.calls + mu M fc c' ≤ c.calls + mu M fc c + slack
  iters : (∀ r, c.iterations r ≤ M + 1) → ∀ r, c'.iterations r ≤ M + 1

theorem resolveAll_good (G : Graph V) (M entry : Nat) (fc : List Nat) (hn : fc.Nodup)
    (hfc : ∀ r, G.isFormula r = true → r ∈ fc) (fuel : Nat)
    (rec : Ctx V → Nat → Option (V × Ctx V))
    (hrec : ∀ c r, mu M fc c < fuel → ∃ v c', rec c r = some (v, c') ∧ Good M fc 1 c c')
    (self : Nat) :
    ∀ (rs : List Nat) (c : Ctx V) (acc : List V), mu M fc c ≤ fuel →
      ∃ vs c', resolveAll G M entry rec self rs c acc = some (vs, c') ∧ Good M fc 0 c c' := by
  intro rs
  induction rs with
  | nil =>
    intro c acc _
    exact ⟨acc, c, rfl, ⟨Nat.le_refl _, by omega, fun h => h⟩⟩
  | cons r rs ih =>
    intro c acc hmu
    unfold resolveAll
    by_cases hc : G.cont self acc = true
    · simp only [hc, Bool.not_true, Bool.false_eq_true, if_false]
      -- c1 = c with resolves + 1
      have hmu1 : mu M fc ({ c with resolves := c.resolves + 1 } : Ctx V) = mu M fc c :=
        mu_congr M fc _ _ (fun _ => rfl)
      by_cases hf : (G.isFormula r && decide (r ≠ entry)) = true
      · simp only [hf, if_true]
        have hform : G.isFormula r = true := by
          simp only [Bool.and_eq_true] at hf; exact hf.1
        by_cases ha : cutoffAllows (c.iterations r) M = true
        · simp only [ha, if_true]
          have hle : c.iterations r ≤ M := (cutoffAllows_iff _ _).mp ha
          have hb := mu_bump_mem M fc ({ c with resolves := c.resolves + 1 } : Ctx V) r (hfc r hform) hn hle
          obtain ⟨v, c2, hr, g2⟩ := hrec (bump { c with resolves := c.resolves + 1 } r) r (by omega)
          rw [hr]
          simp only
          have hmu3 : mu M fc (setCache c2 r v) = mu M fc c2 := mu_congr M fc _ _ (fun _ => rfl)
          obtain ⟨vs, c4, h4, g4⟩ := ih (setCache c2 r v) (acc ++ [v]) (by have := g2.mu_le; omega)
          refine ⟨vs, c4, h4, ?_, ?_, ?_⟩
          · have := g2.mu_le; have := g4.mu_le; omega
          · have h2 := g2.calls
            have h4' := g4.calls
            rw [bump_calls] at h2
            have : (setCache c2 r v).calls = c2.calls := rfl
            have : ({ c with resolves := c.resolves + 1 } : Ctx V).calls = c.calls := rfl
            omega
          · intro hall
            apply g4.iters
            intro x
            have : (setCache c2 r v).iterations x = c2.iterations x := rfl
            rw [this]
            apply g2.iters
            intro y
            rw [bump_iterations]
            by_cases hy : y = r
            · simp only [hy, if_true]
              have : ({ c with resolves := c.resolves + 1 } : Ctx V).iterations r = c.iterations r := rfl
              omega
            · simp only [hy, if_false]
              exact hall y
        · simp only [ha, Bool.false_eq_true, if_false]
          obtain ⟨vs, c4, h4, g4⟩ := ih { c with resolves := c.resolves + 1 }
            (acc ++ [match c.cache r with | some v => v | none => G.blank]) (by omega)
          exact ⟨vs, c4, h4, ⟨by have := g4.mu_le; omega, by have := g4.calls; have : ({ c with resolves := c.resolves + 1 } : Ctx V).calls = c.calls := rfl; omega, fun h => g4.iters h⟩⟩
      · simp only [hf, Bool.false_eq_true, if_false]
        obtain ⟨vs, c4, h4, g4⟩ := ih { c with resolves := c.resolves + 1 } (acc ++ [G.leaf r]) (by omega)
        exact ⟨vs, c4, h4, ⟨by have := g4.mu_le; omega, by have := g4.calls; have : ({ c with resolves := c.resolves + 1 } : Ctx V).calls = c.calls := rfl; omega, fun h => g4.iters h⟩⟩
    · simp only [hc, Bool.not_false, if_true]
      exact ⟨acc, c, rfl, ⟨Nat.le_refl _, by omega, fun h => h⟩⟩

theorem calcCell_good (G : Graph V) (M entry : Nat) (fc : List Nat) (hn : fc.Nodup)
    (hfc : ∀ r, G.isFormula r = true → r ∈ fc) :
    ∀ (fuel : Nat) (c : Ctx V) (cell : Nat), mu M fc c < fuel →
      ∃ v c', calcCell G M entry fuel c cell = some (v, c') ∧ Good M fc 1 c c' := by
  intro fuel
  induction fuel with
  | zero => intro c cell h; omega
  | succ fuel ih =>
    intro c cell hmu
    unfold calcCell
    have hmu1 : mu M fc ({ c with calls := c.calls + 1 } : Ctx V) = mu M fc c :=
      mu_congr M fc _ _ (fun _ => rfl)
    obtain ⟨vs, c', h, g⟩ := resolveAll_good G M entry fc hn hfc fuel (calcCell G M entry fuel) ih cell
      (G.refs cell) { c with calls := c.calls + 1 } [] (by omega)
    simp only [h]
    refine ⟨_, c', rfl, ?_, ?_, ?_⟩
    · have := g.mu_le; omega
    · have := g.calls
      have : ({ c with calls := c.calls + 1 } : Ctx V).calls = c.calls + 1 := rfl
      omega
    · exact fun hall => g.iters hall

/-! fuel monotonicity: more fuel never changes an answer -/

theorem resolveAll_mono (G : Graph V) (M entry : Nat)
    (rec1 rec2 : Ctx V → Nat → Option (V × Ctx V))
    (h : ∀ c r x, rec1 c r = some x → rec2 c r = some x) (self : Nat) :
    ∀ (rs : List Nat) (c : Ctx V) (acc : List V) y,
      resolveAll G M entry rec1 self rs c acc = some y → resolveAll G M entry rec2 self rs c acc = some y := by
  intro rs
  induction rs with
  | nil => intro c acc y hy; simpa [resolveAll] using hy
  | cons r rs ih =>
    intro c acc y hy
    unfold resolveAll at hy ⊢
    by_cases hc : G.cont self acc = true
    · simp only [hc, Bool.not_true, Bool.false_eq_true, if_false] at hy ⊢
      by_cases hf : (G.isFormula r && decide (r ≠ entry)) = true
      · simp only [hf, if_true] at hy ⊢
        by_cases ha : cutoffAllows (c.iterations r) M = true
        · simp only [ha, if_true] at hy ⊢
          cases h1 : rec1 (bump { c with resolves := c.resolves + 1 } r) r with
          | none => rw [h1] at hy; cases hy
          | some x =>
            rw [h1] at hy
            rw [h _ _ _ h1]
            exact ih _ _ _ hy
        · simp only [ha, Bool.false_eq_true, if_false] at hy ⊢
          exact ih _ _ _ hy
      · simp only [hf, Bool.false_eq_true, if_false] at hy ⊢
        exact ih _ _ _ hy
    · simp only [hc, Bool.not_false, if_true] at hy ⊢
      exact hy

theorem calcCell_mono (G : Graph V) (M entry : Nat) :
    ∀ (fuel : Nat) (c : Ctx V) (cell : Nat) x,
      calcCell G M entry fuel c cell = some x → calcCell G M entry (fuel + 1) c cell = some x := by
  intro fuel
  induction fuel with
  | zero => intro c cell x h; simp [calcCell] at h
  | succ fuel ih =>
    intro c cell x h
    unfold calcCell at h ⊢
    dsimp only at h ⊢
    cases h1 : resolveAll G M entry (calcCell G M entry fuel) cell (G.refs cell) { c with calls := c.calls + 1 } [] with
    | none => rw [h1] at h; cases h
    | some y =>
      rw [h1] at h
      rw [resolveAll_mono G M entry _ _ ih cell _ _ _ _ h1]
      exact h

theorem calcCell_mono_le (G : Graph V) (M entry : Nat) (f1 f2 : Nat) (hle : f1 ≤ f2) (c : Ctx V) (cell : Nat) x
    (h : calcCell G M entry f1 c cell = some x) : calcCell G M entry f2 c cell = some x := by
  induction hle with
  | refl => exact h
  | step _ ih => exact calcCell_mono G M entry _ c cell x ih

/-! work: `cellResolver` is entered at most `R` times per `calcCellValue` entry, `R` a bound on the number
of operands of one formula -/

/-- resolver steps between two contexts are paid for by `R` per `calcCellValue` entry -/
def Work (R : Nat) (c c' : Ctx V) : Prop :=
  c'.resolves + R * c.calls ≤ c.resolves + R * c'.calls ∧ c.calls ≤ c'.calls

theorem bump_resolves (c : Ctx V) (r : Nat) : (bump c r).resolves = c.resolves ∧ (bump c r).calls = c.calls := by
  unfold bump; split <;> exact ⟨rfl, rfl⟩

theorem resolveAll_work (G : Graph V) (M entry R : Nat)
    (rec : Ctx V → Nat → Option (V × Ctx V))
    (hrec : ∀ c r v c', rec c r = some (v, c') → Work R c c') (self : Nat) :
    ∀ (rs : List Nat) (c : Ctx V) (acc : List V) vs c',
      resolveAll G M entry rec self rs c acc = some (vs, c') →
      c'.resolves + R * c.calls ≤ c.resolves + rs.length + R * c'.calls ∧ c.calls ≤ c'.calls := by
  intro rs
  induction rs with
  | nil =>
    intro c acc vs c' h
    simp only [resolveAll, Option.some.injEq, Prod.mk.injEq] at h
    rw [← h.2]; exact ⟨by simp, Nat.le_refl _⟩
  | cons r rs ih =>
    intro c acc vs c' h
    unfold resolveAll at h
    by_cases hc : G.cont self acc = true
    · simp only [hc, Bool.not_true, Bool.false_eq_true, if_false] at h
      by_cases hf : (G.isFormula r && decide (r ≠ entry)) = true
      · simp only [hf, if_true] at h
        by_cases ha : cutoffAllows (c.iterations r) M = true
        · simp only [ha, if_true] at h
          cases h1 : rec (bump { c with resolves := c.resolves + 1 } r) r with
          | none => rw [h1] at h; cases h
          | some x =>
            obtain ⟨v, c2⟩ := x
            rw [h1] at h
            have w := hrec _ _ _ _ h1
            have hb := bump_resolves ({ c with resolves := c.resolves + 1 } : Ctx V) r
            have hi := ih _ _ _ _ h
            unfold Work at w
            have e1 : (setCache c2 r v).resolves = c2.resolves := rfl
            have e2 : (setCache c2 r v).calls = c2.calls := rfl
            have e3 : ({ c with resolves := c.resolves + 1 } : Ctx V).resolves = c.resolves + 1 := rfl
            have e4 : ({ c with resolves := c.resolves + 1 } : Ctx V).calls = c.calls := rfl
            rw [e1, e2] at hi
            rw [hb.1, hb.2, e3, e4] at w
            simp only [List.length_cons]
            omega
        · simp only [ha, Bool.false_eq_true, if_false] at h
          have hi := ih _ _ _ _ h
          have e3 : ({ c with resolves := c.resolves + 1 } : Ctx V).resolves = c.resolves + 1 := rfl
          have e4 : ({ c with resolves := c.resolves + 1 } : Ctx V).calls = c.calls := rfl
          rw [e3, e4] at hi
          simp only [List.length_cons]
          omega
      · simp only [hf, Bool.false_eq_true, if_false] at h
        have hi := ih _ _ _ _ h
        have e3 : ({ c with resolves := c.resolves + 1 } : Ctx V).resolves = c.resolves + 1 := rfl
        have e4 : ({ c with resolves := c.resolves + 1 } : Ctx V).calls = c.calls := rfl
        rw [e3, e4] at hi
        simp only [List.length_cons]
        omega
    · simp only [hc, Bool.not_false, if_true, Option.some.injEq, Prod.mk.injEq] at h
      rw [← h.2]; exact ⟨by omega, Nat.le_refl _⟩

theorem calcCell_work (G : Graph V) (M entry R : Nat) (hR : ∀ cell, (G.refs cell).length ≤ R) :
    ∀ (fuel : Nat) (c : Ctx V) (cell : Nat) v c',
      calcCell G M entry fuel c cell = some (v, c') → Work R c c' := by
  intro fuel
  induction fuel with
  | zero => intro c cell v c' h; simp [calcCell] at h
  | succ fuel ih =>
    intro c cell v c' h
    unfold calcCell at h
    dsimp only at h
    cases h1 : resolveAll G M entry (calcCell G M entry fuel) cell (G.refs cell) { c with calls := c.calls + 1 } [] with
    | none => rw [h1] at h; cases h
    | some y =>
      obtain ⟨vs, c2⟩ := y
      rw [h1] at h
      simp only [Option.some.injEq, Prod.mk.injEq] at h
      have w := resolveAll_work G M entry R _ ih cell _ _ _ _ _ h1
      have e1 : ({ c with calls := c.calls + 1 } : Ctx V).calls = c.calls + 1 := rfl
      have e2 : ({ c with calls := c.calls + 1 } : Ctx V).resolves = c.resolves := rfl
      rw [e1, e2, Nat.mul_succ] at w
      have := hR cell
      rw [← h.2]
      unfold Work
      omega

/-! the visit counters only grow -/

theorem bump_iter_le (c : Ctx V) (r x : Nat) : c.iterations x ≤ (bump c r).iterations x := by
  unfold bump
  split
  · simp only
    split
    · next h => rw [h]; omega
    · exact Nat.le_refl _
  · exact Nat.le_refl _

theorem resolveAll_iter_mono (G : Graph V) (M entry : Nat)
    (rec : Ctx V → Nat → Option (V × Ctx V))
    (hrec : ∀ c r v c', rec c r = some (v, c') → ∀ x, c.iterations x ≤ c'.iterations x) (self : Nat) :
    ∀ (rs : List Nat) (c : Ctx V) (acc : List V) vs c',
      resolveAll G M entry rec self rs c acc = some (vs, c') → ∀ x, c.iterations x ≤ c'.iterations x := by
  intro rs
  induction rs with
  | nil =>
    intro c acc vs c' h x
    simp only [resolveAll, Option.some.injEq, Prod.mk.injEq] at h
    rw [← h.2]; exact Nat.le_refl _
  | cons r rs ih =>
    intro c acc vs c' h x
    unfold resolveAll at h
    by_cases hc : G.cont self acc = true
    · simp only [hc, Bool.not_true, Bool.false_eq_true, if_false] at h
      by_cases hf : (G.isFormula r && decide (r ≠ entry)) = true
      · simp only [hf, if_true] at h
        by_cases ha : cutoffAllows (c.iterations r) M = true
        · simp only [ha, if_true] at h
          cases h1 : rec (bump { c with resolves := c.resolves + 1 } r) r with
          | none => rw [h1] at h; cases h
          | some y =>
            obtain ⟨v, c2⟩ := y
            rw [h1] at h
            have w := hrec _ _ _ _ h1 x
            have hb := bump_iter_le ({ c with resolves := c.resolves + 1 } : Ctx V) r x
            have hi := ih _ _ _ _ h x
            have e1 : (setCache c2 r v).iterations x = c2.iterations x := rfl
            have e3 : ({ c with resolves := c.resolves + 1 } : Ctx V).iterations x = c.iterations x := rfl
            rw [e1] at hi
            rw [e3] at hb
            omega
        · simp only [ha, Bool.false_eq_true, if_false] at h
          exact ih _ _ _ _ h x
      · simp only [hf, Bool.false_eq_true, if_false] at h
        exact ih _ _ _ _ h x
    · simp only [hc, Bool.not_false, if_true, Option.some.injEq, Prod.mk.injEq] at h
      rw [← h.2]; exact Nat.le_refl _

theorem calcCell_iter_mono (G : Graph V) (M entry : Nat) :
    ∀ (fuel : Nat) (c : Ctx V) (cell : Nat) v c',
      calcCell G M entry fuel c cell = some (v, c') → ∀ x, c.iterations x ≤ c'.iterations x := by
  intro fuel
  induction fuel with
  | zero => intro c cell v c' h; simp [calcCell] at h
  | succ fuel ih =>
    intro c cell v c' h x
    unfold calcCell at h
    dsimp only at h
    cases h1 : resolveAll G M entry (calcCell G M entry fuel) cell (G.refs cell) { c with calls := c.calls + 1 } [] with
    | none => rw [h1] at h; cases h
    | some y =>
      obtain ⟨vs, c2⟩ := y
      rw [h1] at h
      simp only [Option.some.injEq, Prod.mk.injEq] at h
      have w := resolveAll_iter_mono G M entry _ ih cell _ _ _ _ _ h1 x
      rw [← h.2]
      exact w

end XlModel.Lemmas.CalcTotal
