/-
Helper lemmas for C09: the ARRAY-AWARE invariant of the evaluator's stacks.

Frames `FrA` = function call | parenthesis | array constant (row open?).  Array constants put
nothing on the operator / function / argument stacks (`strip`), but the stack `St.arrs` of
open array constants mirrors their frames: the i-th open constant was opened at function
depth `nF` of the frames below it and has a row open iff its frame says so (`arrOK`).  Hence
`curArr` (the constant the current token belongs to) is determined by the innermost frame,
and every Function Stop is consumed by exactly the bracket the nesting says.
-/
import XlModel.Lemmas.CalcTotalFn
import XlModel.NestA

namespace XlModel.Lemmas.CalcTotalArr
open XlModel XlModel.CalcTotal XlModel.Lemmas.CalcTotalStack XlModel.Lemmas.CalcTotalFn

variable {V : Type}

/-- number of function frames -/
def nF : List FrA → Nat
  | [] => 0
  | .F :: fs => nF fs + 1
  | .P :: fs => nF fs
  | .A _ :: fs => nF fs

def nFr : List Fr → Nat
  | [] => 0
  | .F :: fs => nFr fs + 1
  | .P :: fs => nFr fs

def countP : List FrA → Nat
  | [] => 0
  | .P :: fs => countP fs + 1
  | .F :: fs => countP fs
  | .A _ :: fs => countP fs

theorem nF_strip : ∀ fs : List FrA, nFr (strip fs) = nF fs
  | [] => rfl
  | .F :: fs => by simp [strip, nFr, nF, nF_strip fs]
  | .P :: fs => by simp [strip, nFr, nF, nF_strip fs]
  | .A _ :: fs => by simp [strip, nF, nF_strip fs]

theorem nF_append (a b : List FrA) : nF (a ++ b) = nF a + nF b := by
  induction a with
  | nil => simp [nF]
  | cons x xs ih => cases x <;> simp [nF, ih] <;> omega

theorem aligned_len : ∀ (l opf : List Tok) (fs : List Fr), aligned l opf fs = true → opf.length = nFr fs := by
  intro l
  induction l with
  | nil =>
    intro opf fs h
    cases opf with
    | nil => cases fs with
      | nil => rfl
      | cons _ _ => simp [aligned] at h
    | cons _ _ => simp [aligned] at h
  | cons t r ih =>
    intro opf fs h
    by_cases h1 : (t.ty == TType.function) = true
    · obtain ⟨opf', fs', ho, hf, ha⟩ := aligned_fn h1 h
      subst ho; subst hf
      simp [nFr, ih _ _ ha]
    · have h1' : (t.ty == TType.function) = false := by simpa using h1
      by_cases h2 : isBeginParen t = true
      · obtain ⟨fs', hf, ha⟩ := aligned_paren h2 h
        subst hf
        simp [nFr, ih _ _ ha]
      · have h2' : isBeginParen t = false := by simpa using h2
        rw [aligned_op r opf fs h1' h2'] at h
        exact ih _ _ h

/-- the stack of open array constants mirrors the array frames -/
def arrOK : List FrA → List (ArrC V) → Prop
  | [], arrs => arrs = []
  | .F :: fs, arrs => arrOK fs arrs
  | .P :: fs, arrs => arrOK fs arrs
  | .A r :: fs, a :: arrs => a.depth = nF fs ∧ a.inRow = r ∧ arrOK fs arrs
  | .A _ :: _, [] => False

theorem arrOK_depth_le : ∀ (fs : List FrA) (arrs : List (ArrC V)), arrOK fs arrs → ∀ a ∈ arrs, a.depth ≤ nF fs := by
  intro fs
  induction fs with
  | nil => intro arrs h a ha; simp [arrOK] at h; subst h; cases ha
  | cons x xs ih =>
    intro arrs h a ha
    cases x with
    | F => have := ih arrs h a ha; simp [nF]; omega
    | P => exact ih arrs h a ha
    | A r =>
      cases arrs with
      | nil => cases ha
      | cons b bs =>
        obtain ⟨hd, _, hr⟩ := h
        simp only [List.mem_cons] at ha
        rcases ha with ha | ha
        · subst ha; simp [nF, hd]
        · exact ih bs hr a ha

theorem arrOK_noA : ∀ (fs : List FrA) (arrs : List (ArrC V)), fs.any FrA.isA = false → arrOK fs arrs → arrs = [] := by
  intro fs
  induction fs with
  | nil => intro arrs _ h; exact h
  | cons x xs ih =>
    intro arrs hn h
    cases x with
    | F => exact ih arrs (by simpa [FrA.isA] using hn) h
    | P => exact ih arrs (by simpa [FrA.isA] using hn) h
    | A r => simp [FrA.isA] at hn

/-- `curArr` when the innermost frame is a function call: the token does not belong to an array constant -/
theorem curArr_F (st : St V) (fs : List FrA) (h : arrOK (.F :: fs) st.arrs) (hl : st.opf.length = nF (.F :: fs)) :
    curArr st = none := by
  unfold curArr
  cases harr : st.arrs with
  | nil => rfl
  | cons a as =>
    have := arrOK_depth_le fs st.arrs h a (by rw [harr]; simp)
    have hne : (a.depth == st.opf.length) = false := by
      simp only [beq_eq_false_iff_ne, ne_eq]; simp only [nF] at hl; omega
    simp [hne]

/-- `curArr` when the innermost frame is an array constant -/
theorem curArr_A (st : St V) (r : Bool) (fs : List FrA) (h : arrOK (.A r :: fs) st.arrs)
    (hl : st.opf.length = nF (.A r :: fs)) :
    ∃ a as, st.arrs = a :: as ∧ curArr st = some a ∧ a.inRow = r ∧ a.depth = nF fs ∧ arrOK fs as := by
  cases harr : st.arrs with
  | nil => rw [harr] at h; exact absurd h (by simp [arrOK])
  | cons a as =>
    rw [harr] at h
    obtain ⟨hd, hr, ho⟩ := h
    refine ⟨a, as, rfl, ?_, hr, hd, ho⟩
    unfold curArr
    rw [harr]
    simp only [nF] at hl
    simp [hd, hl]

theorem curArr_nil (st : St V) (h : st.arrs = []) : curArr st = none := by
  unfold curArr; rw [h]

/-! ### the invariant -/

structure InvA (st : St V) (inner outer : List FrA) : Prop where
  args : st.args.length = st.opf.length
  al : aligned st.opft st.opf (strip inner) = true
  fty : ∀ x ∈ st.opf, (x.ty == TType.function) = true
  last : ∀ h : inner ≠ [], inner.getLast h = .F
  out : parens st.opt = countP outer
  outF : nF outer = 0
  arr : arrOK (inner ++ outer) st.arrs

theorem InvA.len {st : St V} {inner outer : List FrA} (h : InvA st inner outer) :
    st.opf.length = nF (inner ++ outer) := by
  rw [nF_append, h.outF, Nat.add_zero, ← nF_strip]
  exact aligned_len _ _ _ h.al

theorem strip_no_F : ∀ fs : List FrA, Fr.F ∉ strip fs → FrA.F ∉ fs := by
  intro fs
  induction fs with
  | nil => intro _; simp
  | cons x xs ih =>
    intro h
    cases x with
    | F => simp [strip] at h
    | P => simp only [strip, List.mem_cons, not_or] at h; simp [ih h.2]
    | A r => simp only [strip] at h; simp [ih h]

theorem InvA.opf_nil_iff {st : St V} {inner outer : List FrA} (h : InvA st inner outer) :
    st.opf = [] ↔ inner = [] := by
  constructor
  · intro ho
    by_cases hi : inner = []
    · exact hi
    · have hl := h.last hi
      have hm : FrA.F ∈ inner := hl ▸ List.getLast_mem hi
      have ha := h.al
      rw [ho] at ha
      exact absurd hm (strip_no_F _ (aligned_no_F _ _ ha))
  · intro hi
    have ha := h.al
    rw [hi] at ha
    exact aligned_inner_nil _ _ ha

/-- a state that differs only in the operand stacks, the argument VALUES and the contents of the
open array constants keeps the invariant -/
theorem InvA.transfer {st st' : St V} {inner outer : List FrA} (h : InvA st inner outer)
    (h1 : st'.opf = st.opf) (h2 : st'.opft = st.opft) (h3 : st'.opt = st.opt)
    (h4 : st'.args.length = st.args.length) (h5 : arrOK (inner ++ outer) st'.arrs) : InvA st' inner outer :=
  ⟨by rw [h4, h1]; exact h.args, by rw [h2, h1]; exact h.al, by rw [h1]; exact h.fty, h.last,
   by rw [h3]; exact h.out, h.outF, h5⟩

/-- `evalInfixExpFunc` on a Function Stop when the top separator of `opft` is the open call -/
theorem evalFunc_core (S : Sem V) (st : St V) (t n f : Tok) (opfRest : List Tok) (fs' : List Fr)
    (hopf : st.opf = f :: opfRest) (hal : aligned st.opft (f :: opfRest) (.F :: fs') = true)
    (hf : (f.ty == TType.function) = true) (hlen : st.args.length = st.opf.length)
    (hstop : isFuncStop t = true) :
    evalFunc S st t n ≠ .panic ∧ ∀ st', evalFunc S st t n = .ok st' →
      st'.opf = opfRest ∧ aligned st'.opft opfRest fs' = true ∧ st'.args.length = opfRest.length ∧
      st'.opt = st.opt ∧ st'.arrs = st.arrs := by
  have hargs : st.args ≠ [] := by
    intro e; rw [e, hopf] at hlen; simp at hlen
  have hfl := flushToSep_aligned S false f hf opfRest fs' st.opft st.opfd st.args hal hargs
  unfold evalFunc
  simp only [hstop, Bool.not_true, Bool.false_eq_true, if_false, hopf]
  cases hflr : flushToSep S false f st.opft st.opfd st.args with
  | panic => exact absurd hflr hfl.1
  | err => exact ⟨by simp, by intro _ h; cases h⟩
  | ok r =>
    obtain ⟨opft1, opfd1, args1⟩ := r
    obtain ⟨⟨rest, hrest, harest⟩, hlen1⟩ := hfl.2 _ _ _ hflr
    subst hrest
    have hargs1 : args1 ≠ [] := by
      intro e; rw [e] at hlen1; exact hargs (List.length_eq_zero_iff.mp hlen1.symm)
    simp only
    obtain ⟨b, hb⟩ := argumentFlag_ok f rest opfd1.length
    rw [hb]
    simp only
    obtain ⟨opfd2, args2, hr2, hl2⟩ := pushPending_ok b opfd1 args1 hargs1
    rw [hr2]
    simp only
    cases args2 with
    | nil => rw [List.length_nil] at hl2; exact absurd (List.length_eq_zero_iff.mp hl2.symm) hargs1
    | cons a argsRest =>
      simp only
      have hrestlen : argsRest.length = opfRest.length := by
        rw [hopf] at hlen
        simp only [List.length_cons] at hl2 hlen
        omega
      by_cases herr : (S.isErr (S.callFn f.val a) && opfRest.isEmpty) = true
      · simp only [herr, if_true]
        exact ⟨by simp, by intro _ h; cases h⟩
      · simp only [herr, Bool.false_eq_true, if_false]
        by_cases hne : (!opfRest.isEmpty) = true
        · simp only [hne, if_true]
          generalize (n.ty == TType.opInfix || decide ((f :: rest).tail.length > 1)) = c
          cases c
          rotate_left
          · simp only [if_true]
            refine ⟨by simp, ?_⟩
            intro st' he
            simp only [Outcome.ok.injEq] at he
            subst he
            exact ⟨rfl, harest, hrestlen, rfl, rfl⟩
          · simp only [Bool.false_eq_true, if_false]
            have hne' : argsRest ≠ [] := by
              intro e; rw [e] at hrestlen
              have : opfRest = [] := List.length_eq_zero_iff.mp hrestlen.symm
              simp [this] at hne
            obtain ⟨a', ha', hl'⟩ := pushArg_ok (S.callFn f.val a) argsRest hne'
            simp only [ha']
            refine ⟨by simp, ?_⟩
            intro st' he
            simp only [Outcome.ok.injEq] at he
            subst he
            exact ⟨rfl, harest, by simpa [hl'] using hrestlen, rfl, rfl⟩
        · simp only [hne, Bool.false_eq_true, if_false]
          refine ⟨by simp, ?_⟩
          intro st' he
          simp only [Outcome.ok.injEq] at he
          subst he
          exact ⟨rfl, harest, hrestlen, rfl, rfl⟩

/-- a reference that is an argument by itself only touches `opfd` and the argument values -/
theorem inFuncRef_frame (S : Sem V) (st : St V) (f t n : Tok) (hft : st.opft ≠ []) (hargs : st.args ≠ [])
    (r : Outcome (St V)) (h : inFuncRef S st f t n = some r) :
    r ≠ .panic ∧ ∀ st', r = .ok st' →
      st'.opf = st.opf ∧ st'.opft = st.opft ∧ st'.opt = st.opt ∧ st'.arrs = st.arrs ∧
      st'.args.length = st.args.length := by
  unfold inFuncRef at h
  by_cases hr : (t.sub == TSub.range) = true
  · simp only [hr, if_true] at h
    cases hftc : st.opft with
    | nil => exact absurd hftc hft
    | cons top tl =>
      rw [hftc] at h
      simp only at h
      by_cases htop : top ≠ f
      · simp only [htop, ne_eq, not_false_eq_true, if_true] at h
        cases hv : S.resolve t.val with
        | none => rw [hv] at h; simp only [Option.some.injEq] at h; subst h; exact ⟨by simp, by intro _ h; cases h⟩
        | some v =>
          rw [hv] at h; simp only [Option.some.injEq] at h; subst h
          refine ⟨by simp, ?_⟩
          intro st' he
          simp only [Outcome.ok.injEq] at he
          subst he
          exact ⟨rfl, hftc.symm ▸ rfl, rfl, rfl, rfl⟩
      · simp only [htop, if_false] at h
        by_cases hn : (n.ty == TType.argument || n.ty == TType.function) = true
        · simp only [hn, if_true] at h
          cases hv : S.resolve t.val with
          | none => rw [hv] at h; simp only [Option.some.injEq] at h; subst h; exact ⟨by simp, by intro _ h; cases h⟩
          | some v =>
            rw [hv] at h
            simp only at h
            by_cases hc : (n.ty == TType.argument && !st.opfd.isEmpty) = true
            · simp only [hc, if_true, Option.some.injEq] at h; subst h
              refine ⟨by simp, ?_⟩
              intro st' he
              simp only [Outcome.ok.injEq] at he
              subst he
              exact ⟨rfl, hftc.symm ▸ rfl, rfl, rfl, rfl⟩
            · simp only [hc, Bool.false_eq_true, if_false] at h
              obtain ⟨a', ha', hl'⟩ := pushArg_ok v st.args hargs
              rw [ha'] at h
              simp only [Option.some.injEq] at h; subst h
              refine ⟨by simp, ?_⟩
              intro st' he
              simp only [Outcome.ok.injEq] at he
              subst he
              exact ⟨rfl, hftc.symm ▸ rfl, rfl, rfl, hl'⟩
        · simp only [hn, Bool.false_eq_true, if_false] at h
          cases h
  · simp only [hr, Bool.false_eq_true, if_false] at h
    cases h

/-! ### token classes -/

theorem clsA_cases (t : Tok) :
    (clsA t = .fstart ∧ isFuncStart t = true ∧ (t.val == "ARRAY") = false ∧ (t.val == "ARRAYROW") = false) ∨
    (clsA t = .astart ∧ isFuncStart t = true ∧ (t.val == "ARRAY") = true) ∨
    (clsA t = .rstart ∧ isFuncStart t = true ∧ (t.val == "ARRAY") = false ∧ (t.val == "ARRAYROW") = true) ∨
    (clsA t = .fstop ∧ isFuncStart t = false ∧ isFuncStop t = true) ∨
    (clsA t = .arg ∧ isFuncStart t = false ∧ isFuncStop t = false ∧ (t.ty == TType.argument) = true) ∨
    (clsA t = .lparen ∧ isFuncStart t = false ∧ isFuncStop t = false ∧ (t.ty == TType.argument) = false ∧
      isBeginParen t = true) ∨
    (clsA t = .rparen ∧ isFuncStart t = false ∧ isFuncStop t = false ∧ (t.ty == TType.argument) = false ∧
      isBeginParen t = false ∧ isEndParen t = true) ∨
    (clsA t = .other ∧ isFuncStart t = false ∧ isFuncStop t = false ∧ (t.ty == TType.argument) = false ∧
      isBeginParen t = false ∧ isEndParen t = false) := by
  unfold clsA
  by_cases h1 : isFuncStart t = true
  · by_cases ha : (t.val == "ARRAY") = true
    · simp [h1, ha]
    · by_cases hr : (t.val == "ARRAYROW") = true
      · simp [h1, ha, hr]
      · simp [h1, ha, hr]
  · by_cases h2 : isFuncStop t = true
    · simp [h1, h2]
    · by_cases h3 : (t.ty == TType.argument) = true
      · simp [h1, h2, h3]
      · by_cases h4 : isBeginParen t = true
        · simp [h1, h2, h3, h4]
        · by_cases h5 : isEndParen t = true
          · simp [h1, h2, h3, h4, h5]
          · simp [h1, h2, h3, h4, h5]

theorem stop_not_operand {t : Tok} (h : isFuncStop t = true) : isOperand t = false := by
  unfold isFuncStop at h
  simp only [Bool.and_eq_true, beq_iff_eq] at h
  simp [isOperand, h.1]

theorem paren_not_operand {t : Tok} (h : isBeginParen t = true ∨ isEndParen t = true) : isOperand t = false := by
  rcases h with h | h
  · unfold isBeginParen at h; simp only [Bool.and_eq_true, beq_iff_eq] at h; simp [isOperand, h.1]
  · unfold isEndParen at h; simp only [Bool.and_eq_true, beq_iff_eq] at h; simp [isOperand, h.1]

theorem evalFunc_nostop (S : Sem V) (st : St V) (t n : Tok) (h : isFuncStop t = false) :
    evalFunc S st t n = .ok st := by
  unfold evalFunc; simp [h]

/-- `parseToken` on an operand token leaves it on top of the operand stack -/
theorem parseToken_operand_ne (S : Sem V) (t : Tok) (opd : List V) (opt : List Tok) opd' opt'
    (ht : isOperand t = true) (h : parseToken S t opd opt = .ok (opd', opt')) : opd' ≠ [] := by
  have hsub : (t.sub == TSub.range) = false := by
    unfold isOperand at ht
    simp only [Bool.and_eq_true, Bool.or_eq_true, beq_iff_eq] at ht
    rcases ht.2 with (h | h) | h <;> simp [h]
  have hty : t.ty = .operand := by
    unfold isOperand at ht
    simp only [Bool.and_eq_true, beq_iff_eq] at ht; exact ht.1
  have hop : isOperatorPrefixToken t = false := by simp [isOperatorPrefixToken, isPrefixMinus, hty]
  have hb : isBeginParen t = false := by simp [isBeginParen, hty]
  have he : isEndParen t = false := by simp [isEndParen, hty]
  unfold parseToken at h
  simp only [hsub, Bool.false_eq_true, if_false, hop, hb, he, ht, if_true] at h
  cases hpf : applyPostfix S t opd with
  | none => simp [hpf] at h
  | some o =>
    simp only [hpf, Outcome.ok.injEq, Prod.mk.injEq] at h
    rw [← h.1]; simp

theorem curArr_some {st : St V} {a : ArrC V} (h : curArr st = some a) : ∃ as, st.arrs = a :: as := by
  unfold curArr at h
  cases harr : st.arrs with
  | nil => rw [harr] at h; cases h
  | cons b bs =>
    rw [harr] at h
    simp only at h
    split at h
    · simp only [Option.some.injEq] at h; subst h; exact ⟨bs, rfl⟩
    · cases h

theorem arrOK_replace_head : ∀ (fs : List FrA) (a a' : ArrC V) (as : List (ArrC V)),
    arrOK fs (a :: as) → a'.depth = a.depth → a'.inRow = a.inRow → arrOK fs (a' :: as) := by
  intro fs
  induction fs with
  | nil => intro a a' as h; simp [arrOK] at h
  | cons x xs ih =>
    intro a a' as h hd hr
    cases x with
    | F => exact ih a a' as h hd hr
    | P => exact ih a a' as h hd hr
    | A r => exact ⟨by rw [hd]; exact h.1, by rw [hr]; exact h.2.1, h.2.2⟩

theorem last_swap_head {x y : FrA} {fs : List FrA} (hx : x ≠ .F)
    (h : ∀ h : x :: fs ≠ [], (x :: fs).getLast h = .F) : ∀ h : y :: fs ≠ [], (y :: fs).getLast h = .F := by
  intro _
  have hne : fs ≠ [] := by
    intro e; subst e
    have := h (by simp)
    simp at this; exact hx this
  rw [List.getLast_cons hne]
  have := h (by simp)
  rwa [List.getLast_cons hne] at this

theorem last_tailA {x : FrA} {fs : List FrA} (h : ∀ h : x :: fs ≠ [], (x :: fs).getLast h = .F) :
    ∀ h : fs ≠ [], fs.getLast h = .F := by
  intro hne
  have := h (by simp)
  rwa [List.getLast_cons hne] at this

theorem last_consA {x : FrA} {fs : List FrA} (hne : fs ≠ []) (h : ∀ h : fs ≠ [], fs.getLast h = .F) :
    ∀ h : x :: fs ≠ [], (x :: fs).getLast h = .F := by
  intro _
  rw [List.getLast_cons hne]; exact h hne

/-! ### rows and array constants are transparent to parentheses: `setInner`, `dropInner` -/

theorem strip_setInner (b : Bool) : ∀ fs : List FrA, strip (setInner b fs) = strip fs := by
  intro fs
  induction fs with
  | nil => rfl
  | cons x xs ih => cases x <;> simp [setInner, strip, ih]

theorem strip_dropInner : ∀ fs : List FrA, strip (dropInner fs) = strip fs := by
  intro fs
  induction fs with
  | nil => rfl
  | cons x xs ih => cases x <;> simp [dropInner, strip, ih]

theorem nF_setInner (b : Bool) : ∀ fs : List FrA, nF (setInner b fs) = nF fs := by
  intro fs
  induction fs with
  | nil => rfl
  | cons x xs ih => cases x <;> simp [setInner, nF, ih]

theorem nF_dropInner : ∀ fs : List FrA, nF (dropInner fs) = nF fs := by
  intro fs
  induction fs with
  | nil => rfl
  | cons x xs ih => cases x <;> simp [dropInner, nF, ih]

theorem countP_setInner (b : Bool) : ∀ fs : List FrA, countP (setInner b fs) = countP fs := by
  intro fs
  induction fs with
  | nil => rfl
  | cons x xs ih => cases x <;> simp [setInner, countP, ih]

theorem countP_dropInner : ∀ fs : List FrA, countP (dropInner fs) = countP fs := by
  intro fs
  induction fs with
  | nil => rfl
  | cons x xs ih => cases x <;> simp [dropInner, countP, ih]

theorem scanA_append {r : Bool} : ∀ (i o : List FrA), scanA i = some r → scanA (i ++ o) = some r := by
  intro i
  induction i with
  | nil => intro o h; simp [scanA] at h
  | cons x xs ih =>
    intro o h
    cases x with
    | F => simp [scanA] at h
    | P => simpa [scanA] using ih o (by simpa [scanA] using h)
    | A r0 => simpa [scanA] using h

theorem setInner_append (b : Bool) {r : Bool} : ∀ (i o : List FrA), scanA i = some r →
    setInner b (i ++ o) = setInner b i ++ o := by
  intro i
  induction i with
  | nil => intro o h; simp [scanA] at h
  | cons x xs ih =>
    intro o h
    cases x with
    | F => simp [scanA] at h
    | P => simp [setInner, ih o (by simpa [scanA] using h)]
    | A r0 => simp [setInner]

theorem dropInner_append {r : Bool} : ∀ (i o : List FrA), scanA i = some r →
    dropInner (i ++ o) = dropInner i ++ o := by
  intro i
  induction i with
  | nil => intro o h; simp [scanA] at h
  | cons x xs ih =>
    intro o h
    cases x with
    | F => simp [scanA] at h
    | P => simp [dropInner, ih o (by simpa [scanA] using h)]
    | A r0 => simp [dropInner]

/-- inside a function call the scan never leaves `inner` (its last frame is the call) -/
theorem scanA_inner : ∀ (i o : List FrA), i ≠ [] → (∀ h : i ≠ [], i.getLast h = .F) → scanA (i ++ o) = scanA i := by
  intro i
  induction i with
  | nil => intro o h; exact absurd rfl h
  | cons x xs ih =>
    intro o _ hl
    cases x with
    | F => simp [scanA]
    | A r0 => simp [scanA]
    | P =>
      have hne : xs ≠ [] := by
        intro e; subst e
        have := hl (by simp); simp at this
      simpa [scanA] using ih o hne (last_tailA hl)

theorem arrOK_setInner (b : Bool) : ∀ (fs : List FrA) (a a' : ArrC V) (as : List (ArrC V)) (r : Bool),
    arrOK fs (a :: as) → scanA fs = some r → a'.depth = a.depth → a'.inRow = b →
    arrOK (setInner b fs) (a' :: as) := by
  intro fs
  induction fs with
  | nil => intro a a' as r _ hs; simp [scanA] at hs
  | cons x xs ih =>
    intro a a' as r h hs hd hr
    cases x with
    | F => simp [scanA] at hs
    | P => exact ih a a' as r h (by simpa [scanA] using hs) hd hr
    | A r0 => exact ⟨by rw [hd]; exact h.1, hr, h.2.2⟩

theorem arrOK_dropInner : ∀ (fs : List FrA) (a : ArrC V) (as : List (ArrC V)) (r : Bool),
    arrOK fs (a :: as) → scanA fs = some r → arrOK (dropInner fs) as := by
  intro fs
  induction fs with
  | nil => intro a as r _ hs; simp [scanA] at hs
  | cons x xs ih =>
    intro a as r h hs
    cases x with
    | F => simp [scanA] at hs
    | P => exact ih a as r h (by simpa [scanA] using hs)
    | A r0 => exact h.2.2

theorem last_setInner (b : Bool) : ∀ (i : List FrA), (∀ h : i ≠ [], i.getLast h = .F) →
    ∀ h : setInner b i ≠ [], (setInner b i).getLast h = .F := by
  intro i
  induction i with
  | nil => intro _ h; exact absurd rfl h
  | cons x xs ih =>
    intro hl
    cases x with
    | F => exact hl
    | A r0 => exact last_swap_head (by simp) hl
    | P =>
      have hne : xs ≠ [] := by
        intro e; subst e
        have := hl (by simp); simp at this
      have hne' : setInner b xs ≠ [] := by
        cases xs with
        | nil => exact absurd rfl hne
        | cons y ys => cases y <;> simp [setInner]
      exact last_consA hne' (ih (last_tailA hl))

theorem last_dropInner {r : Bool} : ∀ (i : List FrA), (∀ h : i ≠ [], i.getLast h = .F) → scanA i = some r →
    dropInner i ≠ [] ∧ ∀ h : dropInner i ≠ [], (dropInner i).getLast h = .F := by
  intro i
  induction i with
  | nil => intro _ hs; simp [scanA] at hs
  | cons x xs ih =>
    intro hl hs
    cases x with
    | F => simp [scanA] at hs
    | A r0 =>
      have hne : xs ≠ [] := by
        intro e; subst e
        have := hl (by simp); simp at this
      exact ⟨hne, last_tailA hl⟩
    | P =>
      have hne : xs ≠ [] := by
        intro e; subst e
        have := hl (by simp); simp at this
      have := ih (last_tailA hl) (by simpa [scanA] using hs)
      exact ⟨by simp [dropInner], last_consA this.1 this.2⟩

theorem curArr_scan (st : St V) : ∀ (fs : List FrA), arrOK fs st.arrs → st.opf.length = nF fs →
    (scanA fs = none → curArr st = none) ∧
    (∀ r, scanA fs = some r → ∃ a as, st.arrs = a :: as ∧ curArr st = some a ∧ a.inRow = r) := by
  intro fs
  induction fs with
  | nil =>
    intro h _
    exact ⟨fun _ => curArr_nil st (by simpa [arrOK] using h), fun r hr => by simp [scanA] at hr⟩
  | cons x xs ih =>
    intro h hl
    cases x with
    | F => exact ⟨fun _ => curArr_F st xs h hl, fun r hr => by simp [scanA] at hr⟩
    | P =>
      have := ih h (by simpa [nF] using hl)
      exact ⟨fun hn => this.1 (by simpa [scanA] using hn), fun r hr => this.2 r (by simpa [scanA] using hr)⟩
    | A r0 =>
      obtain ⟨a, as, harrs, hcur, hrow, _, _⟩ := curArr_A st r0 xs h hl
      refine ⟨fun hn => by simp [scanA] at hn, ?_⟩
      intro r hr
      simp only [scanA, Option.some.injEq] at hr
      subst hr
      exact ⟨a, as, harrs, hcur, hrow⟩

theorem InvA.args_ne {st : St V} {inner outer : List FrA} (h : InvA st inner outer) {f : Tok} {r : List Tok}
    (hopf : st.opf = f :: r) : st.args ≠ [] := by
  intro e; have := h.args; rw [e, hopf] at this; simp at this

/-- the rest of the in-function block keeps the invariant along the array-aware nesting -/
theorem inFuncRest_invA (S : Sem V) (st : St V) (f t n : Tok) (opfRest : List Tok)
    (inner outer inner' outer' : List FrA)
    (hI : InvA st inner outer) (hopf : st.opf = f :: opfRest) (hns : isFuncStart t = false)
    (hn : nestStepA inner outer t = some (inner', outer')) :
    inFuncRest S st f t n ≠ .panic ∧ ∀ st', inFuncRest S st f t n = .ok st' → InvA st' inner' outer' := by
  have hne : inner ≠ [] := fun e => by
    have := hI.opf_nil_iff.mpr e; rw [hopf] at this; cases this
  have hf : (f.ty == TType.function) = true := hI.fty f (by rw [hopf]; simp)
  obtain ⟨x, fs, hinner⟩ : ∃ x fs, inner = x :: fs := by
    cases inner with
    | nil => exact absurd rfl hne
    | cons x fs => exact ⟨x, fs, rfl⟩
  have hend : isEndParen t = true → ∃ fs', strip inner = .P :: fs' := by
    intro he
    rcases clsA_cases t with h | h | h | h | h | h | h | h
    · rw [h.2.1] at hns; cases hns
    · rw [h.2.1] at hns; cases hns
    · rw [h.2.1] at hns; cases hns
    · have := stop_not_paren h.2.2; rw [this.2.1] at he; cases he
    · have := arg_not_paren h.2.2.2; rw [this.2.1] at he; cases he
    · have := begin_not_end h.2.2.2.2; rw [this] at he; cases he
    · unfold nestStepA at hn
      rw [h.1, hinner] at hn
      cases x with
      | F => simp at hn
      | A r => simp at hn
      | P => exact ⟨strip fs, by rw [hinner]; rfl⟩
    · rw [h.2.2.2.2.2] at he; cases he
  have hp := parseToken_aligned S t st.opfd st.opft st.opf (strip inner) hI.al hend
  unfold inFuncRest
  cases hpt : parseToken S t st.opfd st.opft with
  | panic => exact absurd hpt hp.1
  | err => exact ⟨by simp, by intro _ h; cases h⟩
  | ok r =>
    obtain ⟨opfd1, opft1⟩ := r
    have ha1 := hp.2 _ _ hpt
    simp only
    -- the state after `parseToken`
    have hlen1 : ({ st with opfd := opfd1, opft := opft1 } : St V).opf.length = nF (inner ++ outer) := hI.len
    have harr1 : arrOK (inner ++ outer) ({ st with opfd := opfd1, opft := opft1 } : St V).arrs := hI.arr
    rcases clsA_cases t with h | h | h | h | h | h | h | h
    · rw [h.2.1] at hns; cases hns
    · rw [h.2.1] at hns; cases hns
    · rw [h.2.1] at hns; cases hns
    · -- Function Stop
      obtain ⟨hnb, hnE, hna⟩ := stop_not_paren h.2.2
      have hfr : frAfter (strip inner) t = strip inner := by simp [frAfter, hnb, hnE]
      rw [hfr] at ha1
      have hnop := stop_not_operand h.2.2
      unfold nestStepA at hn
      rw [h.1, hinner] at hn
      simp only [hna, Bool.false_eq_true, if_false]
      by_cases hxF : x = .F
      · subst hxF
        simp only [Option.some.injEq, Prod.mk.injEq] at hn
        obtain ⟨h1, h2⟩ := hn
        subst h1; subst h2
        rw [hinner] at hlen1 harr1 ha1
        have hcur := curArr_F _ (fs ++ outer) harr1 hlen1
        rw [hcur]
        simp only
        rw [hopf] at ha1
        have hc := evalFunc_core S ({ st with opfd := opfd1, opft := opft1 } : St V) t n f opfRest (strip fs) hopf
          (by simpa [strip] using ha1) hf hI.args h.2.2
        refine ⟨hc.1, ?_⟩
        intro st' he
        obtain ⟨e1, e2, e3, e4, e5⟩ := hc.2 st' he
        refine ⟨by rw [e3, e1], by rw [e1]; exact e2, ?_, last_tailA (hinner ▸ hI.last), by rw [e4]; exact hI.out,
          hI.outF, by rw [e5]; exact harr1⟩
        intro y hy; rw [e1] at hy; exact hI.fty y (by rw [hopf]; simp [hy])
      · -- the token belongs to an array constant (possibly through parentheses), or to nothing
        have hn' : (match scanA (x :: fs) with
            | some true => some (setInner false (x :: fs), outer)
            | some false => some (dropInner (x :: fs), outer)
            | none => none) = some (inner', outer') := by
          cases x with
          | F => exact absurd rfl hxF
          | P => exact hn
          | A r0 => exact hn
        have hlastI : ∀ hh : x :: fs ≠ [], (x :: fs).getLast hh = .F := hinner ▸ hI.last
        have hscI : scanA ((x :: fs) ++ outer) = scanA (x :: fs) := scanA_inner _ _ (by simp) hlastI
        have hsc := curArr_scan ({ st with opfd := opfd1, opft := opft1 } : St V) (inner ++ outer) harr1 hlen1
        rw [hinner, hscI] at hsc
        cases hs : scanA (x :: fs) with
        | none => rw [hs] at hn'; cases hn'
        | some r =>
          obtain ⟨a, as, harrs, hcur, hrow⟩ := hsc.2 r hs
          have harrs' : st.arrs = a :: as := harrs
          rw [hcur]
          simp only [hnop, Bool.and_false, Bool.false_eq_true, if_false, h.2.2, Bool.and_true]
          have harrI : arrOK ((x :: fs) ++ outer) (a :: as) := by
            have := hI.arr; rw [hinner, harrs'] at this; exact this
          cases r with
          | true =>
            rw [hs] at hn'
            simp only [Option.some.injEq, Prod.mk.injEq] at hn'
            obtain ⟨h1, h2⟩ := hn'
            subst h1; subst h2
            simp only [hrow, if_true]
            refine ⟨by simp, ?_⟩
            intro st' he
            simp only [Outcome.ok.injEq] at he
            subst he
            refine ⟨hI.args, by rw [strip_setInner]; rw [← hinner]; exact ha1, hI.fty,
              last_setInner false _ hlastI, hI.out, hI.outF, ?_⟩
            simp only [harrs', List.tail_cons]
            rw [← setInner_append false _ _ hs]
            exact arrOK_setInner false _ a _ as true harrI (scanA_append _ _ hs) rfl rfl
          | false =>
            rw [hs] at hn'
            simp only [Option.some.injEq, Prod.mk.injEq] at hn'
            obtain ⟨h1, h2⟩ := hn'
            subst h1; subst h2
            simp only [hrow, Bool.false_eq_true, if_false]
            obtain ⟨a', ha', hl'⟩ := pushArg_ok (S.mkMatrix a.rows) st.args (hI.args_ne hopf)
            simp only [ha', if_true]
            refine ⟨by simp, ?_⟩
            intro st' he
            simp only [Outcome.ok.injEq] at he
            subst he
            have hld := last_dropInner (x :: fs) hlastI hs
            refine ⟨by simpa [hl'] using hI.args, by rw [strip_dropInner]; rw [← hinner]; exact ha1, hI.fty,
              hld.2, hI.out, hI.outF, ?_⟩
            simp only [harrs', List.tail_cons]
            rw [← dropInner_append _ _ hs]
            exact arrOK_dropInner _ a as false harrI (scanA_append _ _ hs)
    · -- Argument separator
      obtain ⟨hnb, hnE, hnS⟩ := arg_not_paren h.2.2.2
      have hfr : frAfter (strip inner) t = strip inner := by simp [frAfter, hnb, hnE]
      rw [hfr] at ha1
      unfold nestStepA at hn
      rw [h.1, hinner] at hn
      simp only [h.2.2.2, if_true]
      simp only [Option.some.injEq, Prod.mk.injEq] at hn
      obtain ⟨h1, h2⟩ := hn
      subst h1; subst h2
      cases x with
      | P =>
        -- directly inside a parenthesis: the separator is skipped (it belongs to an array constant, or to nothing)
        have hap : argInParen f opft1 = true :=
          argInParen_paren f hf st.opf (strip fs) opft1 (by simpa [hinner, strip] using ha1)
        have hres : (if (curArr ({ st with opfd := opfd1, opft := opft1 } : St V)).isSome = true then
              Outcome.ok ({ st with opfd := opfd1, opft := opft1 } : St V)
            else Outcome.ok ({ st with opfd := opfd1, opft := opft1 } : St V)) =
            Outcome.ok ({ st with opfd := opfd1, opft := opft1 } : St V) := by split <;> rfl
        simp only [hap, if_true, hres]
        refine ⟨by simp, ?_⟩
        intro st' he
        simp only [Outcome.ok.injEq] at he
        subst he
        exact ⟨hI.args, hinner ▸ ha1, hI.fty, hinner ▸ hI.last, hI.out, hI.outF, hinner ▸ harr1⟩
      | F =>
        rw [hinner] at hlen1 harr1 ha1
        have hcur := curArr_F _ (fs ++ outer) harr1 hlen1
        simp only [hcur, Option.isSome_none, Bool.false_eq_true, if_false]
        rw [hopf] at ha1
        simp only [argInParen_sep f hf opfRest (strip fs) opft1 (by simpa [strip] using ha1), Bool.false_eq_true, if_false]
        have hfl := flushToSep_aligned S true f hf opfRest (strip fs) opft1 opfd1 st.args
          (by simpa [strip] using ha1) (hI.args_ne hopf)
        cases hflr : flushToSep S true f opft1 opfd1 st.args with
        | panic => exact absurd hflr hfl.1
        | err => exact ⟨by simp, by intro _ h; cases h⟩
        | ok r =>
          obtain ⟨opft2, opfd2, args2⟩ := r
          obtain ⟨⟨rest, hrest, harest⟩, hlen⟩ := hfl.2 _ _ _ hflr
          subst hrest
          have hal2 : aligned (f :: rest) st.opf (strip (FrA.F :: fs)) = true := by
            rw [hopf]; simp [strip, aligned, hf, harest]
          have hargs2 : args2 ≠ [] := by
            intro e; rw [e] at hlen; exact (hI.args_ne hopf) (List.length_eq_zero_iff.mp hlen.symm)
          simp only
          cases opfd2 with
          | nil =>
            refine ⟨by simp, ?_⟩
            intro st' he
            simp only [Outcome.ok.injEq] at he
            subst he
            exact ⟨by simpa [hlen] using hI.args, hal2, hI.fty, hinner ▸ hI.last, hI.out, hI.outF, harr1⟩
          | cons v rest' =>
            obtain ⟨a', ha', hl'⟩ := pushArg_ok v args2 hargs2
            simp only [ha']
            refine ⟨by simp, ?_⟩
            intro st' he
            simp only [Outcome.ok.injEq] at he
            subst he
            exact ⟨by simpa [hl', hlen] using hI.args, hal2, hI.fty, hinner ▸ hI.last, hI.out, hI.outF, harr1⟩
      | A r =>
        rw [hinner] at hlen1 harr1
        obtain ⟨a, as, harrs, hcur, hrow, hdep, hok⟩ := curArr_A _ r (fs ++ outer) harr1 hlen1
        simp only [hcur, Option.isSome_some, if_true]
        refine ⟨by simp, ?_⟩
        intro st' he
        simp only [Outcome.ok.injEq] at he
        subst he
        exact ⟨hI.args, hinner ▸ ha1, hI.fty, hinner ▸ hI.last, hI.out, hI.outF, harr1⟩
    all_goals
      -- "(", ")" and every other token: the stacks change through `parseToken` only; an open array
      -- row may take the operand that was just pushed
      have hnS : isFuncStop t = false := h.2.2.1
      simp only [h.2.2.2.1, Bool.false_eq_true, if_false]
    · -- (
      unfold nestStepA at hn
      rw [h.1, hinner] at hn
      simp only [Option.some.injEq, Prod.mk.injEq] at hn
      obtain ⟨h1, h2⟩ := hn
      subst h1; subst h2
      have hfr : frAfter (strip inner) t = strip (FrA.P :: inner) := by simp [frAfter, h.2.2.2.2, strip]
      rw [hfr] at ha1
      have hnop := paren_not_operand (Or.inl h.2.2.2.2)
      have hI' : InvA ({ st with opfd := opfd1, opft := opft1 } : St V) (FrA.P :: inner) outer :=
        ⟨hI.args, ha1, hI.fty, last_consA hne hI.last, hI.out, hI.outF, harr1⟩
      rw [hinner] at hI'
      cases hc : curArr ({ st with opfd := opfd1, opft := opft1 } : St V) with
      | none =>
        simp only [evalFunc_nostop S _ t n hnS]
        exact ⟨by simp, by intro st' he; simp only [Outcome.ok.injEq] at he; subst he; exact hI'⟩
      | some a =>
        simp only [hnop, hnS, Bool.and_false, Bool.false_eq_true, if_false, evalFunc_nostop S _ t n hnS]
        exact ⟨by simp, by intro st' he; simp only [Outcome.ok.injEq] at he; subst he; exact hI'⟩
    · -- )
      unfold nestStepA at hn
      rw [h.1, hinner] at hn
      cases x with
      | F => simp at hn
      | A r => simp at hn
      | P =>
        simp only [Option.some.injEq, Prod.mk.injEq] at hn
        obtain ⟨h1, h2⟩ := hn
        subst h1; subst h2
        have hfr : frAfter (strip inner) t = strip fs := by
          simp [frAfter, h.2.2.2.2.1, h.2.2.2.2.2, hinner, strip]
        rw [hfr] at ha1
        have hnop := paren_not_operand (Or.inr h.2.2.2.2.2)
        have hI' : InvA ({ st with opfd := opfd1, opft := opft1 } : St V) fs outer :=
          ⟨hI.args, ha1, hI.fty, last_tailA (hinner ▸ hI.last), hI.out, hI.outF, by rw [hinner] at harr1; exact harr1⟩
        cases hc : curArr ({ st with opfd := opfd1, opft := opft1 } : St V) with
        | none =>
          simp only [evalFunc_nostop S _ t n hnS]
          exact ⟨by simp, by intro st' he; simp only [Outcome.ok.injEq] at he; subst he; exact hI'⟩
        | some a =>
          simp only [hnop, hnS, Bool.and_false, Bool.false_eq_true, if_false, evalFunc_nostop S _ t n hnS]
          exact ⟨by simp, by intro st' he; simp only [Outcome.ok.injEq] at he; subst he; exact hI'⟩
    · -- any other token
      unfold nestStepA at hn
      rw [h.1] at hn
      simp only [Option.some.injEq, Prod.mk.injEq] at hn
      obtain ⟨h1, h2⟩ := hn
      subst h1; subst h2
      have hfr : frAfter (strip inner) t = strip inner := by simp [frAfter, h.2.2.2.2.1, h.2.2.2.2.2]
      rw [hfr] at ha1
      have hI' : InvA ({ st with opfd := opfd1, opft := opft1 } : St V) inner outer :=
        ⟨hI.args, ha1, hI.fty, hI.last, hI.out, hI.outF, harr1⟩
      cases hc : curArr ({ st with opfd := opfd1, opft := opft1 } : St V) with
      | none =>
        simp only [evalFunc_nostop S _ t n hnS]
        exact ⟨by simp, by intro st' he; simp only [Outcome.ok.injEq] at he; subst he; exact hI'⟩
      | some a =>
        simp only [hnS, Bool.and_false, Bool.false_eq_true, if_false, evalFunc_nostop S _ t n hnS]
        by_cases hst : (a.inRow && isOperand t) = true
        · simp only [hst, if_true]
          have hop : isOperand t = true := by simp only [Bool.and_eq_true] at hst; exact hst.2
          have hne1 := parseToken_operand_ne S t _ _ _ _ hop hpt
          cases opfd1 with
          | nil => exact absurd rfl hne1
          | cons v rest =>
            simp only
            obtain ⟨as, harrs⟩ := curArr_some hc
            have harrs' : st.arrs = a :: as := harrs
            refine ⟨by simp, ?_⟩
            intro st' he
            simp only [Outcome.ok.injEq] at he
            subst he
            refine ⟨hI.args, ha1, hI.fty, hI.last, hI.out, hI.outF, ?_⟩
            simp only [harrs', List.tail_cons]
            have h0 : arrOK (inner ++ outer) (a :: as) := by rw [← harrs']; exact hI.arr
            exact arrOK_replace_head _ a _ as h0 rfl rfl
        · simp only [hst, Bool.false_eq_true, if_false]
          exact ⟨by simp, by intro st' he; simp only [Outcome.ok.injEq] at he; subst he; exact hI'⟩

theorem nest_rangeA {t : Tok} (hr : t.sub = .range) {inner outer i' o' : List FrA}
    (hn : nestStepA inner outer t = some (i', o')) : i' = inner ∧ o' = outer := by
  have hnp := range_not_paren hr
  unfold nestStepA at hn
  rcases clsA_cases t with h | h | h | h | h | h | h | h
  · have := h.2.1; simp [isFuncStart, hr] at this
  · have := h.2.1; simp [isFuncStart, hr] at this
  · have := h.2.1; simp [isFuncStart, hr] at this
  · have := h.2.2; simp [isFuncStop, hr] at this
  · rw [h.1] at hn
    simp only [Option.some.injEq, Prod.mk.injEq] at hn; obtain ⟨h1, h2⟩ := hn; subst h1; subst h2; exact ⟨rfl, rfl⟩
  · rw [hnp.1] at h; cases h.2.2.2.2
  · rw [hnp.2] at h; cases h.2.2.2.2.2
  · rw [h.1] at hn; simp only [Option.some.injEq, Prod.mk.injEq] at hn; obtain ⟨h1, h2⟩ := hn; subst h1; subst h2; exact ⟨rfl, rfl⟩

theorem countP_pos_of_head {o : List FrA} : 1 ≤ countP (FrA.P :: o) := by simp [countP]

/-- pushing an ordinary function call keeps the invariant -/
theorem push_fn_invA (st : St V) (t : Tok) (inner outer : List FrA) (hI : InvA st inner outer)
    (hty : (t.ty == TType.function) = true) :
    InvA ({ st with opf := t :: st.opf, args := [] :: st.args, opft := t :: st.opft } : St V) (FrA.F :: inner) outer := by
  refine ⟨by simp [hI.args], by simp [strip, aligned, hty, hI.al], ?_, ?_, hI.out, hI.outF, by simpa [arrOK] using hI.arr⟩
  · intro y hy
    simp only [List.mem_cons] at hy
    rcases hy with hy | hy
    · rw [hy]; exact hty
    · exact hI.fty y hy
  · intro _
    by_cases hne : inner = []
    · subst hne; rfl
    · rw [List.getLast_cons hne]; exact hI.last hne

/-- one iteration of the token loop keeps the invariant along the array-aware nesting -/
theorem step_invA (S : Sem V) (st : St V) (t n : Tok) (inner outer inner' outer' : List FrA)
    (hI : InvA st inner outer) (hn : nestStepA inner outer t = some (inner', outer')) :
    step S st t n ≠ .panic ∧ ∀ st', step S st t n = .ok st' → InvA st' inner' outer' := by
  cases hopf : st.opf with
  | nil =>
    have hin : inner = [] := hI.opf_nil_iff.mp hopf
    subst hin
    have hal0 : aligned st.opft [] [] = true := by have := hI.al; rwa [hopf] at this
    have hargs0 : st.args.length = 0 := by simpa [hopf] using hI.args
    have hfty0 : ∀ x ∈ ([] : List Tok), (x.ty == TType.function) = true := by intro x hx; cases hx
    have harr0 : arrOK outer st.arrs := by simpa using hI.arr
    have hlast0 : ∀ h : ([] : List FrA) ≠ [], ([] : List FrA).getLast h = .F := fun h => absurd rfl h
    have hend : isEndParen t = true → 1 ≤ parens st.opt := by
      intro he
      rw [hI.out]
      rcases clsA_cases t with h | h | h | h | h | h | h | h
      · have := h.2.1; simp [isFuncStart] at this; simp [isEndParen, this.1] at he
      · have := h.2.1; simp [isFuncStart] at this; simp [isEndParen, this.1] at he
      · have := h.2.1; simp [isFuncStart] at this; simp [isEndParen, this.1] at he
      · have := stop_not_paren h.2.2; rw [this.2.1] at he; cases he
      · have := arg_not_paren h.2.2.2; rw [this.2.1] at he; cases he
      · have := begin_not_end h.2.2.2.2; rw [this] at he; cases he
      · unfold nestStepA at hn
        rw [h.1] at hn
        cases outer with
        | nil => simp at hn
        | cons y o =>
          cases y with
          | P => exact countP_pos_of_head
          | F => simp at hn
          | A r => simp at hn
      · rw [h.2.2.2.2.2] at he; cases he
    have hp := parseToken_ok S t st.opd st.opt hend
    unfold step
    simp only [hopf, List.isEmpty_nil, if_true]
    cases hpt : parseToken S t st.opd st.opt with
    | panic => exact absurd hpt hp.1
    | err => exact ⟨by simp, by intro _ h; cases h⟩
    | ok r =>
      obtain ⟨opd1, opt1⟩ := r
      have hd := hp.2 _ _ hpt
      rw [hI.out] at hd
      simp only
      unfold stepTail
      have hlen1 : ({ st with opd := opd1, opt := opt1 } : St V).opf.length = nF outer := by
        simp [hopf, hI.outF]
      rcases clsA_cases t with h | h | h | h | h | h | h | h
      · -- function start out of the function stack
        have hty : (t.ty == TType.function) = true := by
          have := h.2.1; simp only [isFuncStart, Bool.and_eq_true] at this; exact this.1
        have hnb : isBeginParen t = false ∧ isEndParen t = false := by
          have := beq_iff_eq.mp hty; simp [isBeginParen, isEndParen, this]
        unfold nestStepA at hn
        rw [h.1] at hn
        simp only [Option.some.injEq, Prod.mk.injEq] at hn
        obtain ⟨h1, h2⟩ := hn
        subst h1; subst h2
        simp only [h.2.1, if_true, h.2.2.1, h.2.2.2, Bool.false_eq_true, if_false, Bool.false_and]
        refine ⟨by simp, ?_⟩
        intro st' he
        simp only [Outcome.ok.injEq] at he
        subst he
        refine ⟨by simp [hargs0, hopf], ?_, ?_, ?_, ?_, hI.outF, ?_⟩
        · simp [hopf, strip, aligned, hty, hal0]
        · intro x hx; simp [hopf] at hx; rw [hx]; exact hty
        · intro _; rfl
        · simpa [depthAfter, hnb.1, hnb.2] using hd
        · simpa [arrOK] using harr0
      · -- array constant start out of the function stack
        have hty : (t.ty == TType.function) = true := by
          have := h.2.1; simp only [isFuncStart, Bool.and_eq_true] at this; exact this.1
        have hnb : isBeginParen t = false ∧ isEndParen t = false := by
          have := beq_iff_eq.mp hty; simp [isBeginParen, isEndParen, this]
        unfold nestStepA at hn
        rw [h.1] at hn
        simp only [Option.some.injEq, Prod.mk.injEq] at hn
        obtain ⟨h1, h2⟩ := hn
        subst h1; subst h2
        simp only [h.2.1, if_true, h.2.2]
        refine ⟨by simp, ?_⟩
        intro st' he
        simp only [Outcome.ok.injEq] at he
        subst he
        refine ⟨by simpa [hopf] using hargs0, by simpa [hopf, strip] using hal0, by simpa [hopf] using hfty0, hlast0,
          by simpa [depthAfter, hnb.1, hnb.2, countP] using hd, by simpa [nF] using hI.outF, ?_⟩
        simp only [List.nil_append]
        exact ⟨by simp [hopf, hI.outF], rfl, harr0⟩
      · -- ARRAYROW start out of the function stack: a row of the open constant, or a function start
        have hty : (t.ty == TType.function) = true := by
          have := h.2.1; simp only [isFuncStart, Bool.and_eq_true] at this; exact this.1
        have hnb : isBeginParen t = false ∧ isEndParen t = false := by
          have := beq_iff_eq.mp hty; simp [isBeginParen, isEndParen, this]
        have hout : parens opt1 = countP outer := by simpa [depthAfter, hnb.1, hnb.2] using hd
        have hI1 : InvA ({ st with opd := opd1, opt := opt1, opf := [] } : St V) [] outer :=
          ⟨by simpa using hargs0, by simpa [strip] using hal0, (fun x hx => by cases hx), hlast0, hout, hI.outF,
           by simpa using harr0⟩
        have hsc := curArr_scan ({ st with opd := opd1, opt := opt1, opf := [] } : St V) outer harr0
          (by simpa using hI.outF.symm)
        unfold nestStepA at hn
        rw [h.1] at hn
        simp only [List.nil_append] at hn
        simp only [h.2.1, if_true, h.2.2.1, h.2.2.2, Bool.false_eq_true, if_false, Bool.true_and]
        cases hs : scanA outer with
        | none =>
          rw [hs] at hn
          simp only [Option.some.injEq, Prod.mk.injEq] at hn
          obtain ⟨h1, h2⟩ := hn
          subst h1; subst h2
          have hrs : rowStarts ({ st with opd := opd1, opt := opt1, opf := [] } : St V) = false := by
            unfold rowStarts; rw [hsc.1 hs]
          simp only [hrs, Bool.false_eq_true, if_false]
          exact ⟨by simp, by intro st' he; simp only [Outcome.ok.injEq] at he; subst he; exact push_fn_invA _ t _ _ hI1 hty⟩
        | some r =>
          obtain ⟨a, as, harrs, hcur, hrow⟩ := hsc.2 r hs
          cases r with
          | true =>
            rw [hs] at hn
            simp only [Option.some.injEq, Prod.mk.injEq] at hn
            obtain ⟨h1, h2⟩ := hn
            subst h1; subst h2
            have hrs : rowStarts ({ st with opd := opd1, opt := opt1, opf := [] } : St V) = false := by
              unfold rowStarts; rw [hcur]; simp [hrow]
            simp only [hrs, Bool.false_eq_true, if_false]
            exact ⟨by simp, by intro st' he; simp only [Outcome.ok.injEq] at he; subst he; exact push_fn_invA _ t _ _ hI1 hty⟩
          | false =>
            rw [hs] at hn
            have hrs : rowStarts ({ st with opd := opd1, opt := opt1, opf := [] } : St V) = true := by
              unfold rowStarts; rw [hcur]; simp [hrow]
            simp only [hrs, if_true, hcur]
            simp only [Option.some.injEq, Prod.mk.injEq] at hn
            obtain ⟨h1, h2⟩ := hn
            subst h1; subst h2
            have harrs' : st.arrs = a :: as := harrs
            refine ⟨by simp, ?_⟩
            intro st' he
            simp only [Outcome.ok.injEq] at he
            subst he
            refine ⟨by simpa [hopf] using hargs0, by simpa [hopf, strip] using hal0, by simpa [hopf] using hfty0, hlast0,
              by rw [countP_setInner]; exact hout, by rw [nF_setInner]; exact hI.outF, ?_⟩
            simp only [List.nil_append, harrs', List.tail_cons]
            exact arrOK_setInner true _ a _ as false (by rw [← harrs']; exact harr0) hs rfl rfl
      all_goals
        have hns : isFuncStart t = false := h.2.1
        simp only [hns, Bool.false_eq_true, if_false, hopf]
      · -- Function Stop out of the function stack
        obtain ⟨hnb, hnE, _⟩ := stop_not_paren h.2.2
        have hout : parens opt1 = countP outer := by simpa [depthAfter, hnb, hnE] using hd
        simp only [h.2.2, if_true]
        unfold nestStepA at hn
        rw [h.1] at hn
        simp only at hn
        have hsc := curArr_scan ({ st with opd := opd1, opt := opt1, opf := [] } : St V) outer harr0
          (by simpa using hI.outF.symm)
        cases hs : scanA outer with
        | none =>
          rw [hs] at hn
          simp only [Option.some.injEq, Prod.mk.injEq] at hn
          obtain ⟨h1, h2⟩ := hn
          subst h1; subst h2
          rw [hsc.1 hs]
          exact ⟨by simp, by intro st' he; simp only [Outcome.ok.injEq] at he; subst he
                             exact ⟨by simpa [hopf] using hargs0, by simpa [hopf, strip] using hal0, by simpa [hopf] using hfty0,
                               hlast0, hout, hI.outF, by simpa using harr0⟩⟩
        | some r =>
          obtain ⟨a, as, harrs, hcur, hrow⟩ := hsc.2 r hs
          have harrs' : st.arrs = a :: as := harrs
          rw [hcur]
          simp only
          cases r with
          | true =>
            rw [hs] at hn
            simp only [Option.some.injEq, Prod.mk.injEq] at hn
            obtain ⟨h1, h2⟩ := hn
            subst h1; subst h2
            simp only [hrow, if_true]
            refine ⟨by simp, ?_⟩
            intro st' he
            simp only [Outcome.ok.injEq] at he
            subst he
            refine ⟨by simpa [hopf] using hargs0, by simpa [hopf, strip] using hal0, by simpa [hopf] using hfty0, hlast0,
              by rw [countP_setInner]; exact hout, by rw [nF_setInner]; exact hI.outF, ?_⟩
            simp only [List.nil_append, harrs', List.tail_cons]
            exact arrOK_setInner false _ a _ as true (by rw [← harrs']; exact harr0) hs rfl rfl
          | false =>
            rw [hs] at hn
            simp only [Option.some.injEq, Prod.mk.injEq] at hn
            obtain ⟨h1, h2⟩ := hn
            subst h1; subst h2
            simp only [hrow, Bool.false_eq_true, if_false]
            refine ⟨by simp, ?_⟩
            intro st' he
            simp only [Outcome.ok.injEq] at he
            subst he
            refine ⟨by simpa [hopf] using hargs0, by simpa [hopf, strip] using hal0, by simpa [hopf] using hfty0, hlast0,
              by rw [countP_dropInner]; exact hout, by rw [nF_dropInner]; exact hI.outF, ?_⟩
            simp only [List.nil_append, harrs', List.tail_cons]
            exact arrOK_dropInner _ a as false (by rw [← harrs']; exact harr0) hs
      · -- Argument out of the function stack
        obtain ⟨hnb, hnE, hnS⟩ := arg_not_paren h.2.2.2
        unfold nestStepA at hn
        rw [h.1] at hn
        simp only [Option.some.injEq, Prod.mk.injEq] at hn
        obtain ⟨h1, h2⟩ := hn
        subst h1; subst h2
        simp only [hnS, Bool.false_eq_true, if_false]
        have hout : parens opt1 = countP outer := by simpa [depthAfter, hnb, hnE] using hd
        exact ⟨by simp, by intro st' he; simp only [Outcome.ok.injEq] at he; subst he
                           exact ⟨by simpa [hopf] using hargs0, by simpa [hopf, strip] using hal0, by simpa [hopf] using hfty0,
                             hlast0, hout, hI.outF, by simpa using harr0⟩⟩
      · -- (
        unfold nestStepA at hn
        rw [h.1] at hn
        simp only [Option.some.injEq, Prod.mk.injEq] at hn
        obtain ⟨h1, h2⟩ := hn
        subst h1; subst h2
        simp only [h.2.2.1, Bool.false_eq_true, if_false]
        have hout : parens opt1 = countP (FrA.P :: outer) := by simpa [depthAfter, h.2.2.2.2, countP] using hd
        exact ⟨by simp, by intro st' he; simp only [Outcome.ok.injEq] at he; subst he
                           exact ⟨by simpa [hopf] using hargs0, by simpa [hopf, strip] using hal0, by simpa [hopf] using hfty0,
                             hlast0, hout, by simpa [nF] using hI.outF, by simpa [arrOK] using harr0⟩⟩
      · -- )
        unfold nestStepA at hn
        rw [h.1] at hn
        cases outer with
        | nil => simp at hn
        | cons y o =>
          cases y with
          | F => simp at hn
          | A r => simp at hn
          | P =>
            simp only [Option.some.injEq, Prod.mk.injEq] at hn
            obtain ⟨h1, h2⟩ := hn
            subst h1; subst h2
            simp only [h.2.2.1, Bool.false_eq_true, if_false]
            have hout : parens opt1 = countP o := by
              simpa [depthAfter, h.2.2.2.2.1, h.2.2.2.2.2, countP] using hd
            exact ⟨by simp, by intro st' he; simp only [Outcome.ok.injEq] at he; subst he
                               exact ⟨by simpa [hopf] using hargs0, by simpa [hopf, strip] using hal0, by simpa [hopf] using hfty0,
                                 hlast0, hout, by simpa [nF] using hI.outF, by simpa [arrOK] using harr0⟩⟩
      · -- other
        unfold nestStepA at hn
        rw [h.1] at hn
        simp only [Option.some.injEq, Prod.mk.injEq] at hn
        obtain ⟨h1, h2⟩ := hn
        subst h1; subst h2
        simp only [h.2.2.1, Bool.false_eq_true, if_false]
        have hout : parens opt1 = countP outer := by simpa [depthAfter, h.2.2.2.2.1, h.2.2.2.2.2] using hd
        exact ⟨by simp, by intro st' he; simp only [Outcome.ok.injEq] at he; subst he
                           exact ⟨by simpa [hopf] using hargs0, by simpa [hopf, strip] using hal0, by simpa [hopf] using hfty0,
                             hlast0, hout, hI.outF, by simpa using harr0⟩⟩
  | cons f opfRest =>
    have hne : inner ≠ [] := fun e => by
      have := hI.opf_nil_iff.mpr e; rw [hopf] at this; cases this
    obtain ⟨x, fs, hinner⟩ : ∃ x fs, inner = x :: fs := by
      cases inner with
      | nil => exact absurd rfl hne
      | cons x fs => exact ⟨x, fs, rfl⟩
    unfold step stepTail
    simp only [hopf, List.isEmpty_cons, Bool.false_eq_true, if_false]
    rcases clsA_cases t with h | h | h | h | h | h | h | h
    · -- function start
      have hty : (t.ty == TType.function) = true := by
        have := h.2.1; simp only [isFuncStart, Bool.and_eq_true] at this; exact this.1
      unfold nestStepA at hn
      rw [h.1] at hn
      simp only [Option.some.injEq, Prod.mk.injEq] at hn
      obtain ⟨h1, h2⟩ := hn
      subst h1; subst h2
      simp only [h.2.1, if_true, h.2.2.1, h.2.2.2, Bool.false_eq_true, if_false, Bool.false_and]
      refine ⟨by simp, ?_⟩
      intro st' he
      simp only [Outcome.ok.injEq] at he
      subst he
      refine ⟨by simp [hI.args, hopf], ?_, ?_, last_consA hne hI.last, hI.out, hI.outF, by simpa [arrOK] using hI.arr⟩
      · have := hI.al; rw [hopf] at this
        simp [strip, aligned, hty, this]
      · intro y hy
        simp only [List.mem_cons] at hy
        rcases hy with hy | hy
        · rw [hy]; exact hty
        · exact hI.fty y (by rw [hopf]; simpa using hy)
    · -- array constant start inside a function
      unfold nestStepA at hn
      rw [h.1, hinner] at hn
      simp only [Option.some.injEq, Prod.mk.injEq] at hn
      obtain ⟨h1, h2⟩ := hn
      subst h1; subst h2
      simp only [h.2.1, if_true, h.2.2]
      refine ⟨by simp, ?_⟩
      intro st' he
      simp only [Outcome.ok.injEq] at he
      subst he
      refine ⟨by simpa [hopf] using hI.args, by simpa [hopf, strip, hinner] using hI.al, by simpa [hopf] using hI.fty,
        last_consA (by simp) (hinner ▸ hI.last), hI.out, hI.outF, ?_⟩
      have hl := hI.len
      rw [hinner] at hl
      exact ⟨by simpa [hopf] using hl, rfl, hinner ▸ hI.arr⟩
    · -- ARRAYROW start inside a function: a row of the open constant, or a function start
      have hty : (t.ty == TType.function) = true := by
        have := h.2.1; simp only [isFuncStart, Bool.and_eq_true] at this; exact this.1
      have hsc := curArr_scan st (inner ++ outer) hI.arr hI.len
      unfold nestStepA at hn
      rw [h.1] at hn
      simp only [h.2.1, if_true, h.2.2.1, h.2.2.2, Bool.false_eq_true, if_false, Bool.true_and]
      have hpush : InvA ({ st with opf := t :: f :: opfRest, args := [] :: st.args, opft := t :: st.opft } : St V)
          (FrA.F :: inner) outer := by
        have := push_fn_invA st t inner outer hI hty
        rw [hopf] at this
        exact this
      cases hs : scanA (inner ++ outer) with
      | none =>
        rw [hs] at hn
        simp only [Option.some.injEq, Prod.mk.injEq] at hn
        obtain ⟨h1, h2⟩ := hn
        subst h1; subst h2
        have hrs : rowStarts st = false := by unfold rowStarts; rw [hsc.1 hs]
        simp only [hrs, Bool.false_eq_true, if_false]
        exact ⟨by simp, by intro st' he; simp only [Outcome.ok.injEq] at he; subst he; exact hpush⟩
      | some r =>
        obtain ⟨a, as, harrs, hcur, hrow⟩ := hsc.2 r hs
        cases r with
        | true =>
          rw [hs] at hn
          simp only [Option.some.injEq, Prod.mk.injEq] at hn
          obtain ⟨h1, h2⟩ := hn
          subst h1; subst h2
          have hrs : rowStarts st = false := by unfold rowStarts; rw [hcur]; simp [hrow]
          simp only [hrs, Bool.false_eq_true, if_false]
          exact ⟨by simp, by intro st' he; simp only [Outcome.ok.injEq] at he; subst he; exact hpush⟩
        | false =>
          rw [hs, hinner] at hn
          have hrs : rowStarts st = true := by unfold rowStarts; rw [hcur]; simp [hrow]
          simp only [hrs, if_true, hcur]
          simp only [Option.some.injEq, Prod.mk.injEq] at hn
          obtain ⟨h1, h2⟩ := hn
          subst h1; subst h2
          have hlastI : ∀ hh : x :: fs ≠ [], (x :: fs).getLast hh = .F := hinner ▸ hI.last
          have hsI : scanA (x :: fs) = some false := by
            rw [← scanA_inner (x :: fs) outer (by simp) hlastI, ← hinner]; exact hs
          have harr := hI.arr
          rw [hinner, harrs] at harr
          refine ⟨by simp, ?_⟩
          intro st' he
          simp only [Outcome.ok.injEq] at he
          subst he
          refine ⟨hI.args, by rw [strip_setInner, ← hinner]; exact hI.al, hI.fty,
            last_setInner true _ hlastI, hI.out, hI.outF, ?_⟩
          simp only [harrs, List.tail_cons]
          rw [← setInner_append true _ _ hsI]
          exact arrOK_setInner true _ a _ as false harr (scanA_append _ _ hsI) rfl rfl
    all_goals
      have hns : isFuncStart t = false := h.2.1
      simp only [hns, Bool.false_eq_true, if_false]
      have hst : ({ st with opf := f :: opfRest } : St V) = st := by rw [← hopf]
      unfold inFunc
      cases href : inFuncRef S st f t n with
      | some r =>
        have hft : st.opft ≠ [] := by
          have := hI.al; rw [hopf] at this; exact aligned_ne_nil this
        have hr := inFuncRef_range S st f t n r href
        obtain ⟨h1, h2⟩ := nest_rangeA hr hn
        subst h1; subst h2
        have hfr := inFuncRef_frame S st f t n hft (hI.args_ne hopf) r href
        simp only [hst, href]
        refine ⟨hfr.1, ?_⟩
        intro st' he
        obtain ⟨e1, e2, e3, e4, e5⟩ := hfr.2 st' he
        exact hI.transfer e1 e2 e3 e5 (by rw [e4]; exact hI.arr)
      | none =>
        simp only [hst, href]
        exact inFuncRest_invA S st f t n opfRest _ _ _ _ hI hopf hns hn

theorem invA_init : InvA ({} : St V) [] [] :=
  ⟨rfl, rfl, (fun x hx => by cases hx), (fun h => absurd rfl h), rfl, rfl, rfl⟩

theorem run_invA (S : Sem V) :
    ∀ (toks : List Tok) (st : St V) (inner outer : List FrA), InvA st inner outer →
      nestedA inner outer toks = true → run S st toks ≠ .panic := by
  intro toks
  induction toks with
  | nil => intro st _ _ _ _; exact finish_no_panic S st
  | cons t ts ih =>
    intro st inner outer hI hnest
    unfold run
    unfold nestedA at hnest
    cases hn : nestStepA inner outer t with
    | none => rw [hn] at hnest; cases hnest
    | some r =>
      obtain ⟨i', o'⟩ := r
      rw [hn] at hnest
      have hs := step_invA S st t (ts.headD zeroTok) inner outer i' o' hI hn
      cases hst : step S st t (ts.headD zeroTok) with
      | panic => exact absurd hst hs.1
      | err => simp
      | ok st' =>
        simp only
        exact ih st' i' o' (hs.2 st' hst) hnest

end XlModel.Lemmas.CalcTotalArr
