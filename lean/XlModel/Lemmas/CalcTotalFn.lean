/-
Helper lemmas for C09, part 1 of `XlModel.CalcTotal`: the function stacks.

`opft` (operators inside functions) holds, between operator tokens, one separator per
open function — in the same order as `opf` — and one "(" per open parenthesis.  `aligned`
states this against the nesting `inner` (innermost frame first) that a checker computes
from the token list alone.  Under it every `Peek().(efp.Token)` finds its token and every
`Peek().(*list.List)` its list.
-/
import XlModel.Lemmas.CalcTotalStack
import XlModel.Nest

namespace XlModel.Lemmas.CalcTotalFn
open XlModel XlModel.CalcTotal XlModel.Lemmas.CalcTotalStack

/-- `opft` read from the top against the function stack and the frames -/
def aligned : List Tok → List Tok → List Fr → Bool
  | [], [], [] => true
  | [], _, _ => false
  | t :: r, opf, fs =>
    if t.ty == .function then
      match opf, fs with
      | f :: opf', .F :: fs' => t == f && aligned r opf' fs'
      | _, _ => false
    else if isBeginParen t then
      match fs with
      | .P :: fs' => aligned r opf fs'
      | _ => false
    else aligned r opf fs

theorem paren_not_fn {t : Tok} (h : isBeginParen t = true) : (t.ty == TType.function) = false := by
  unfold isBeginParen at h
  simp only [Bool.and_eq_true, beq_iff_eq] at h
  simp [h.1]

theorem aligned_op {t : Tok} (r opf : List Tok) (fs : List Fr)
    (h1 : (t.ty == TType.function) = false) (h2 : isBeginParen t = false) :
    aligned (t :: r) opf fs = aligned r opf fs := by
  simp [aligned, h1, h2]

theorem aligned_fn {t : Tok} {r opf : List Tok} {fs : List Fr} (h1 : (t.ty == TType.function) = true)
    (h : aligned (t :: r) opf fs = true) :
    ∃ opf' fs', opf = t :: opf' ∧ fs = .F :: fs' ∧ aligned r opf' fs' = true := by
  simp only [aligned, h1, if_true] at h
  match opf, fs, h with
  | f :: opf', .F :: fs', h =>
    simp only [Bool.and_eq_true, beq_iff_eq] at h
    exact ⟨opf', fs', by rw [h.1], rfl, h.2⟩

theorem aligned_paren {t : Tok} {r opf : List Tok} {fs : List Fr} (h1 : isBeginParen t = true)
    (h : aligned (t :: r) opf fs = true) :
    ∃ fs', fs = .P :: fs' ∧ aligned r opf fs' = true := by
  simp only [aligned, paren_not_fn h1, h1, if_true, Bool.false_eq_true, if_false] at h
  match fs, h with
  | .P :: fs', h => exact ⟨fs', rfl, h⟩

theorem aligned_ne_nil {l : List Tok} {f : Tok} {opf : List Tok} {fs : List Fr}
    (h : aligned l (f :: opf) fs = true) : l ≠ [] := by
  intro e; subst e; simp [aligned] at h

theorem aligned_inner_nil : ∀ (l opf : List Tok), aligned l opf [] = true → opf = [] := by
  intro l
  induction l with
  | nil => intro opf h; cases opf with
    | nil => rfl
    | cons _ _ => simp [aligned] at h
  | cons t r ih =>
    intro opf h
    by_cases h1 : (t.ty == TType.function) = true
    · obtain ⟨_, _, _, hf, _⟩ := aligned_fn h1 h; cases hf
    · have h1' : (t.ty == TType.function) = false := by simpa using h1
      by_cases h2 : isBeginParen t = true
      · obtain ⟨_, hf, _⟩ := aligned_paren h2 h; cases hf
      · have h2' : isBeginParen t = false := by simpa using h2
        rw [aligned_op r opf [] h1' h2'] at h
        exact ih opf h

theorem aligned_no_F : ∀ (l : List Tok) (fs : List Fr), aligned l [] fs = true → Fr.F ∉ fs := by
  intro l
  induction l with
  | nil => intro fs h; cases fs with
    | nil => simp
    | cons _ _ => simp [aligned] at h
  | cons t r ih =>
    intro fs h
    by_cases h1 : (t.ty == TType.function) = true
    · obtain ⟨_, _, hf, _, _⟩ := aligned_fn h1 h; cases hf
    · have h1' : (t.ty == TType.function) = false := by simpa using h1
      by_cases h2 : isBeginParen t = true
      · obtain ⟨fs', hf, ha⟩ := aligned_paren h2 h
        subst hf
        have := ih fs' ha
        simp [this]
      · have h2' : isBeginParen t = false := by simpa using h2
        rw [aligned_op r [] fs h1' h2'] at h
        exact ih fs h

/-- a token of positive priority is neither a separator nor a "(" -/
theorem prio_pos_op {t : Tok} (h : 1 ≤ getPriority t) :
    (t.ty == TType.function) = false ∧ isBeginParen t = false := by
  unfold getPriority at h
  by_cases h1 : (t.ty == TType.function) = true
  · simp [h1] at h
  · by_cases h2 : isBeginParen t = true
    · simp [h1, h2] at h
    · exact ⟨by simpa using h1, by simpa using h2⟩

theorem opPrefix_not_fn {t : Tok} (h : isOperatorPrefixToken t = true) : (t.ty == TType.function) = false := by
  unfold isOperatorPrefixToken isPrefixMinus at h
  simp only [Bool.or_eq_true, Bool.and_eq_true, beq_iff_eq] at h
  rcases h with h | h <;> simp [h.2]

variable {V : Type}

theorem popLoop_aligned (S : Sem V) (p : Nat) (hp : 1 ≤ p) (opf : List Tok) (fs : List Fr) :
    ∀ (opt : List Tok) (opd : List V) opt' opd',
      popLoop S p opt opd = some (opt', opd') → aligned opt opf fs = true → aligned opt' opf fs = true := by
  intro opt
  induction opt with
  | nil => intro opd opt' opd' h ha; simp [popLoop] at h; rw [h.1]; exact ha
  | cons top rest ih =>
    intro opd opt' opd' h ha
    unfold popLoop at h
    by_cases hle : p ≤ getPriority top
    · simp only [hle, if_true] at h
      have ⟨h1, h2⟩ := prio_pos_op (t := top) (by omega)
      rw [aligned_op rest opf fs h1 h2] at ha
      by_cases hf : (calculate S opd top).failed = true
      · simp [hf] at h
      · simp only [hf, Bool.false_eq_true, if_false] at h
        exact ih _ _ _ h ha
    · simp only [hle, if_false, Option.some.injEq, Prod.mk.injEq] at h
      rw [← h.1]; exact ha

theorem parseOp_aligned (S : Sem V) (opt : List Tok) (opd : List V) (t : Tok) (opf : List Tok) (fs : List Fr)
    (ht : isOperatorPrefixToken t = true) opt' opd'
    (h : parseOperatorPrefixToken S opt opd t = some (opt', opd'))
    (ha : aligned opt opf fs = true) : aligned opt' opf fs = true := by
  have hnp := opPrefix_not_paren ht
  have hnf := opPrefix_not_fn ht
  have hpr := opPrefix_prio ht
  unfold parseOperatorPrefixToken at h
  cases opt with
  | nil =>
    simp only [Option.some.injEq, Prod.mk.injEq] at h
    rw [← h.1, aligned_op [] opf fs hnf hnp]; exact ha
  | cons top rest =>
    simp only at h
    by_cases h1 : (isPrefixMinus top && isPrefixMinus t) = true
    · simp only [h1, if_true, Option.some.injEq, Prod.mk.injEq] at h
      have htop : isOperatorPrefixToken top = true := by
        simp only [Bool.and_eq_true] at h1
        simp [isOperatorPrefixToken, h1.1]
      rw [aligned_op rest opf fs (opPrefix_not_fn htop) (opPrefix_not_paren htop)] at ha
      rw [← h.1]; exact ha
    · simp only [h1, Bool.false_eq_true, if_false] at h
      by_cases h2 : getPriority t > getPriority top
      · simp only [h2, if_true, Option.some.injEq, Prod.mk.injEq] at h
        rw [← h.1, aligned_op _ opf fs hnf hnp]; exact ha
      · simp only [h2, if_false] at h
        cases hl : popLoop S (getPriority t) (top :: rest) opd with
        | none => rw [hl] at h; cases h
        | some r =>
          obtain ⟨o1, d1⟩ := r
          rw [hl] at h
          simp only [Option.some.injEq, Prod.mk.injEq] at h
          have := popLoop_aligned S _ hpr opf fs _ _ _ _ hl ha
          rw [← h.1, aligned_op _ opf fs hnf hnp]; exact this

theorem closeParen_aligned (S : Sem V) (opf : List Tok) (fs' : List Fr) :
    ∀ (opt : List Tok) (opd : List V), aligned opt opf (.P :: fs') = true →
      closeParen S opt opd ≠ .panic ∧
      ∀ opt' opd', closeParen S opt opd = .ok (opt', opd') → aligned opt' opf fs' = true := by
  intro opt
  induction opt with
  | nil => intro opd h; simp [aligned] at h
  | cons top rest ih =>
    intro opd h
    unfold closeParen
    by_cases hb : isBeginParen top = true
    · simp only [hb, if_true]
      refine ⟨by simp, ?_⟩
      intro opt' opd' he
      simp only [Outcome.ok.injEq, Prod.mk.injEq] at he
      obtain ⟨fs'', hf, ha⟩ := aligned_paren hb h
      cases hf
      rw [← he.1]; exact ha
    · simp only [hb, Bool.false_eq_true, if_false]
      have hb' : isBeginParen top = false := by simpa using hb
      have hnf : (top.ty == TType.function) = false := by
        cases hq : (top.ty == TType.function) with
        | false => rfl
        | true => obtain ⟨_, _, _, hf, _⟩ := aligned_fn hq h; cases hf
      rw [aligned_op rest opf _ hnf hb'] at h
      by_cases hf : (calculate S opd top).failed = true
      · simp only [hf, if_true]
        exact ⟨by simp, by intro _ _ he; cases he⟩
      · simp only [hf, Bool.false_eq_true, if_false]
        exact ih _ h

theorem flushToSep_aligned (S : Sem V) (front : Bool) (f : Tok) (hf : (f.ty == TType.function) = true)
    (opf' : List Tok) (fs' : List Fr) :
    ∀ (opft : List Tok) (opfd : List V) (args : List (List V)),
      aligned opft (f :: opf') (.F :: fs') = true → args ≠ [] →
      flushToSep S front f opft opfd args ≠ .panic ∧
      ∀ opft' opfd' args', flushToSep S front f opft opfd args = .ok (opft', opfd', args') →
        (∃ rest, opft' = f :: rest ∧ aligned rest opf' fs' = true) ∧ args'.length = args.length := by
  intro opft
  induction opft with
  | nil => intro opfd args h; simp [aligned] at h
  | cons top rest ih =>
    intro opfd args h hargs
    unfold flushToSep
    by_cases he : top = f
    · simp only [he, if_true]
      refine ⟨by simp, ?_⟩
      intro opft' opfd' args' heq
      simp only [Outcome.ok.injEq, Prod.mk.injEq] at heq
      subst he
      obtain ⟨o, fs'', ho, hfs, ha⟩ := aligned_fn hf h
      cases ho; cases hfs
      exact ⟨⟨rest, heq.1.symm, ha⟩, by rw [← heq.2.2]⟩
    · simp only [he, if_false]
      have hnf : (top.ty == TType.function) = false := by
        cases hq : (top.ty == TType.function) with
        | false => rfl
        | true =>
          obtain ⟨_, _, ho, _, _⟩ := aligned_fn hq h
          cases ho; exact absurd rfl he
      have hnp : isBeginParen top = false := by
        cases hq : isBeginParen top with
        | false => rfl
        | true => obtain ⟨_, hfs, _⟩ := aligned_paren hq h; cases hfs
      rw [aligned_op rest _ _ hnf hnp] at h
      by_cases hc : (calculate S opfd top).failed = true
      · simp only [hc, if_true]
        cases args with
        | nil => exact absurd rfl hargs
        | cons a as =>
          simp only
          have := ih (calculate S opfd top).opd ((if front then S.errArg :: a else a ++ [S.errArg]) :: as) h (by simp)
          refine ⟨this.1, ?_⟩
          intro o1 o2 o3 heq
          have := this.2 _ _ _ heq
          exact ⟨this.1, by simpa using this.2⟩
      · simp only [hc, Bool.false_eq_true, if_false]
        exact ih _ args h hargs

/-- when the innermost bracket on `opft` is the function separator, an argument separator is the function's own -/
theorem argInParen_sep (f : Tok) (hf : (f.ty == TType.function) = true) (opf' : List Tok) (fs' : List Fr) :
    ∀ (opft : List Tok), aligned opft (f :: opf') (.F :: fs') = true → argInParen f opft = false := by
  intro opft
  induction opft with
  | nil => intro h; simp [aligned] at h
  | cons top rest ih =>
    intro h
    unfold argInParen
    by_cases h1 : (top.ty == TType.function) = true
    · obtain ⟨_, _, ho, _, _⟩ := aligned_fn h1 h
      have hb : isBeginParen top = false := by
        have := beq_iff_eq.mp h1; simp [isBeginParen, this]
      have he : top = f := (List.cons.inj ho).1.symm
      rw [he] at hb
      simp [hb, he]
    · have h1' : (top.ty == TType.function) = false := by simpa using h1
      by_cases h2 : isBeginParen top = true
      · obtain ⟨_, hfs, _⟩ := aligned_paren h2 h; cases hfs
      · have h2' : isBeginParen top = false := by simpa using h2
        rw [aligned_op rest _ _ h1' h2'] at h
        have hne : top ≠ f := by
          intro e; rw [e] at h1'; rw [hf] at h1'; cases h1'
        simp [h2', hne, ih h]

/-- when the innermost bracket on `opft` is a parenthesis, the separator is skipped -/
theorem argInParen_paren (f : Tok) (hf : (f.ty == TType.function) = true) (opf : List Tok) (fs' : List Fr) :
    ∀ (opft : List Tok), aligned opft opf (.P :: fs') = true → argInParen f opft = true := by
  intro opft
  induction opft with
  | nil => intro h; simp [aligned] at h
  | cons top rest ih =>
    intro h
    unfold argInParen
    by_cases h2 : isBeginParen top = true
    · simp [h2]
    · have h2' : isBeginParen top = false := by simpa using h2
      have h1' : (top.ty == TType.function) = false := by
        cases hq : (top.ty == TType.function) with
        | false => rfl
        | true => obtain ⟨_, _, _, hfs, _⟩ := aligned_fn hq h; cases hfs
      rw [aligned_op rest _ _ h1' h2'] at h
      have hne : top ≠ f := by
        intro e; rw [e] at h1'; rw [hf] at h1'; cases h1'
      simp [h2', hne, ih h]

/-- effect of one token on the frames seen by `parseToken` -/
def frAfter (fs : List Fr) (t : Tok) : List Fr :=
  if isBeginParen t then .P :: fs else if isEndParen t then fs.tail else fs

theorem parseToken_aligned_core (S : Sem V) (t0 t : Tok) (opd : List V) (opt opf : List Tok) (fs : List Fr)
    (hres : (if t0.sub == .range then (S.resolve t0.val).map S.refTok else some t0) = some t)
    (ha : aligned opt opf fs = true)
    (hend : isEndParen t = true → ∃ fs', fs = .P :: fs') :
    parseToken S t0 opd opt ≠ .panic ∧
    ∀ opd' opt', parseToken S t0 opd opt = .ok (opd', opt') → aligned opt' opf (frAfter fs t) = true := by
  unfold parseToken
  simp only [hres]
  cases hr1 : (if isOperatorPrefixToken t = true then parseOperatorPrefixToken S opt opd t else some (opt, opd)) with
  | none => exact ⟨by simp, by intro _ _ he; cases he⟩
  | some r1 =>
    obtain ⟨opt1, opd1⟩ := r1
    have ha1 : aligned opt1 opf fs = true := by
      by_cases ho : isOperatorPrefixToken t = true
      · simp only [ho, if_true] at hr1
        exact parseOp_aligned S opt opd t opf fs ho _ _ hr1 ha
      · simp only [ho, Bool.false_eq_true, if_false, Option.some.injEq, Prod.mk.injEq] at hr1
        rw [← hr1.1]; exact ha
    simp only
    by_cases hb : isBeginParen t = true
    · have he := begin_not_end hb
      simp only [hb, he, if_true, Bool.false_eq_true, if_false]
      cases hpf : applyPostfix S t opd1 with
      | none => exact ⟨by simp, by intro _ _ h; cases h⟩
      | some o =>
      refine ⟨by simp, ?_⟩
      intro opd' opt' heq
      simp only [Outcome.ok.injEq, Prod.mk.injEq] at heq
      rw [← heq.2]
      simp [frAfter, hb, aligned, paren_not_fn hb, ha1]
    · have hb' : isBeginParen t = false := by simpa using hb
      simp only [hb', Bool.false_eq_true, if_false]
      by_cases he : isEndParen t = true
      · simp only [he, if_true]
        obtain ⟨fs', hfs⟩ := hend he
        subst hfs
        have hc := closeParen_aligned S opf fs' opt1 opd1 ha1
        cases hcp : closeParen S opt1 opd1 with
        | panic => exact absurd hcp hc.1
        | err => exact ⟨by simp, by intro _ _ h; cases h⟩
        | ok r2 =>
          obtain ⟨opt2, opd2⟩ := r2
          simp only
          cases hpf : applyPostfix S t opd2 with
          | none => exact ⟨by simp, by intro _ _ h; cases h⟩
          | some o =>
          refine ⟨by simp, ?_⟩
          intro opd' opt' heq
          simp only [Outcome.ok.injEq, Prod.mk.injEq] at heq
          have := hc.2 _ _ hcp
          rw [← heq.2]
          simpa [frAfter, hb', he] using this
      · have he' : isEndParen t = false := by simpa using he
        simp only [he', Bool.false_eq_true, if_false]
        cases hpf : applyPostfix S t opd1 with
        | none => exact ⟨by simp, by intro _ _ h; cases h⟩
        | some o =>
        refine ⟨by simp, ?_⟩
        intro opd' opt' heq
        simp only [Outcome.ok.injEq, Prod.mk.injEq] at heq
        rw [← heq.2]
        simpa [frAfter, hb', he'] using ha1

theorem parseToken_aligned (S : Sem V) (t0 : Tok) (opd : List V) (opt opf : List Tok) (fs : List Fr)
    (ha : aligned opt opf fs = true)
    (hend : isEndParen t0 = true → ∃ fs', fs = .P :: fs') :
    parseToken S t0 opd opt ≠ .panic ∧
    ∀ opd' opt', parseToken S t0 opd opt = .ok (opd', opt') → aligned opt' opf (frAfter fs t0) = true := by
  by_cases hr : t0.sub = .range
  · have hnp := range_not_paren hr
    cases hv : S.resolve t0.val with
    | none =>
      unfold parseToken
      simp [hr, hv]
    | some v =>
      have hres : (if t0.sub == .range then (S.resolve t0.val).map S.refTok else some t0) = some (S.refTok v) := by
        simp [hr, hv]
      have hrt := refTok_not_paren S v
      have := parseToken_aligned_core S t0 (S.refTok v) opd opt opf fs hres ha (by intro h; rw [hrt.2] at h; cases h)
      refine ⟨this.1, ?_⟩
      intro opd' opt' he
      have := this.2 _ _ he
      simpa [frAfter, hrt.1, hrt.2, hnp.1, hnp.2] using this
  · have hres : (if t0.sub == .range then (S.resolve t0.val).map S.refTok else some t0) = some t0 := by
      simp [hr]
    exact parseToken_aligned_core S t0 t0 opd opt opf fs hres ha hend

/-! ### token classes and the nesting checker -/

theorem cls_cases (t : Tok) :
    (cls t = .fstart ∧ isFuncStart t = true) ∨
    (cls t = .fstop ∧ isFuncStart t = false ∧ isFuncStop t = true) ∨
    (cls t = .arg ∧ isFuncStart t = false ∧ isFuncStop t = false ∧ (t.ty == TType.argument) = true) ∨
    (cls t = .lparen ∧ isFuncStart t = false ∧ isFuncStop t = false ∧ (t.ty == TType.argument) = false ∧
      isBeginParen t = true) ∨
    (cls t = .rparen ∧ isFuncStart t = false ∧ isFuncStop t = false ∧ (t.ty == TType.argument) = false ∧
      isBeginParen t = false ∧ isEndParen t = true) ∨
    (cls t = .other ∧ isFuncStart t = false ∧ isFuncStop t = false ∧ (t.ty == TType.argument) = false ∧
      isBeginParen t = false ∧ isEndParen t = false) := by
  unfold cls
  by_cases h1 : isFuncStart t = true
  · simp [h1]
  · by_cases h2 : isFuncStop t = true
    · simp [h1, h2]
    · by_cases h3 : (t.ty == TType.argument) = true
      · simp [h1, h2, h3]
      · by_cases h4 : isBeginParen t = true
        · simp [h1, h2, h3, h4]
        · by_cases h5 : isEndParen t = true
          · simp [h1, h2, h3, h4, h5]
          · simp [h1, h2, h3, h4, h5]

/-! ### the invariant -/

structure Inv (st : St V) (inner : List Fr) (outer : Nat) : Prop where
  arrs : st.arrs = []
  args : st.args.length = st.opf.length
  al : aligned st.opft st.opf inner = true
  fty : ∀ x ∈ st.opf, (x.ty == TType.function) = true
  last : ∀ h : inner ≠ [], inner.getLast h = .F
  out : parens st.opt = outer

theorem Inv.opf_nil_iff {st : St V} {inner : List Fr} {outer : Nat} (h : Inv st inner outer) :
    st.opf = [] ↔ inner = [] := by
  constructor
  · intro ho
    by_cases hi : inner = []
    · exact hi
    · have hl := h.last hi
      have hm : Fr.F ∈ inner := hl ▸ List.getLast_mem hi
      have ha := h.al
      rw [ho] at ha
      exact absurd hm (aligned_no_F _ _ ha)
  · intro hi
    have ha := h.al
    rw [hi] at ha
    exact aligned_inner_nil _ _ ha

theorem pushArg_ok (v : V) (args : List (List V)) (h : args ≠ []) :
    ∃ a', pushArg v args = .ok a' ∧ a'.length = args.length := by
  cases args with
  | nil => exact absurd rfl h
  | cons a as => exact ⟨(a ++ [v]) :: as, rfl, rfl⟩

theorem last_tail {x : Fr} {fs : List Fr} (h : ∀ h : x :: fs ≠ [], (x :: fs).getLast h = .F) :
    ∀ h : fs ≠ [], fs.getLast h = .F := by
  intro hne
  have := h (by simp)
  rwa [List.getLast_cons hne] at this

theorem last_cons {x : Fr} {fs : List Fr} (hne : fs ≠ []) (h : ∀ h : fs ≠ [], fs.getLast h = .F) :
    ∀ h : x :: fs ≠ [], (x :: fs).getLast h = .F := by
  intro _
  rw [List.getLast_cons hne]; exact h hne

theorem argumentFlag_ok (f : Tok) (rest : List Tok) (k : Nat) : ∃ b, argumentFlag (f :: rest) k = .ok b := by
  unfold argumentFlag
  cases rest with
  | nil => exact ⟨true, by simp⟩
  | cons x r2 =>
    by_cases hc : (((f :: x :: r2).length > 2 && k == 1) = true)
    · exact ⟨!(x.ty == TType.opInfix), by rw [if_pos hc]⟩
    · exact ⟨true, by rw [if_neg hc]⟩

theorem pushPending_ok (b : Bool) (opfd : List V) (args : List (List V)) (h : args ≠ []) :
    ∃ opfd2 args2, pushPending b opfd args = .ok (opfd2, args2) ∧ args2.length = args.length := by
  unfold pushPending
  by_cases hbb : b = true
  · simp only [hbb, if_true]
    cases opfd with
    | nil => exact ⟨[], args, rfl, rfl⟩
    | cons v rest' =>
      obtain ⟨a', ha', hl'⟩ := pushArg_ok v args h
      exact ⟨rest', a', by simp only [ha'], hl'⟩
  · simp only [hbb, if_false]
    exact ⟨opfd, args, rfl, rfl⟩

/-- `evalInfixExpFunc` on a Function Stop whose innermost open frame is a function call -/
theorem evalFunc_inv (S : Sem V) (st : St V) (t n f : Tok) (opfRest : List Tok) (fs' : List Fr) (outer : Nat)
    (hI : Inv st (.F :: fs') outer) (hopf : st.opf = f :: opfRest) (hstop : isFuncStop t = true) :
    evalFunc S st t n ≠ .panic ∧ ∀ st', evalFunc S st t n = .ok st' → Inv st' fs' outer := by
  have hf : (f.ty == TType.function) = true := hI.fty f (by rw [hopf]; simp)
  have hal := hI.al
  rw [hopf] at hal
  have hargs : st.args ≠ [] := by
    intro e; have := hI.args; rw [e, hopf] at this; simp at this
  have hfl := flushToSep_aligned S false f hf opfRest fs' st.opft st.opfd st.args hal hargs
  have hlast := last_tail hI.last
  unfold evalFunc
  simp only [hstop, Bool.not_true, Bool.false_eq_true, if_false, hopf]
  cases hflr : flushToSep S false f st.opft st.opfd st.args with
  | panic => exact absurd hflr hfl.1
  | err => exact ⟨by simp, by intro _ h; cases h⟩
  | ok r =>
    obtain ⟨opft1, opfd1, args1⟩ := r
    obtain ⟨⟨rest, hrest, harest⟩, hlen⟩ := hfl.2 _ _ _ hflr
    subst hrest
    have hargs1 : args1 ≠ [] := by
      intro e; rw [e] at hlen; exact hargs (List.length_eq_zero_iff.mp hlen.symm)
    simp only
    obtain ⟨b, hb⟩ := argumentFlag_ok f rest opfd1.length
    rw [hb]
    simp only
    obtain ⟨opfd2, args2, hr2, hl2⟩ := pushPending_ok b opfd1 args1 hargs1
    rw [hr2]
    simp only
    cases args2 with
    | nil => rw [List.length_nil] at hl2; exact absurd (List.length_eq_zero_iff.mp hl2.symm) hargs1
    | cons a argsRest =>
      simp only
      have hrestlen : argsRest.length = opfRest.length := by
        have h1 := hI.args
        rw [hopf] at h1
        simp only [List.length_cons] at hl2 h1
        omega
      have hfty : ∀ x ∈ opfRest, (x.ty == TType.function) = true :=
        fun x hx => hI.fty x (by rw [hopf]; simp [hx])
      by_cases herr : (S.isErr (S.callFn f.val a) && opfRest.isEmpty) = true
      · simp only [herr, if_true]
        exact ⟨by simp, by intro _ h; cases h⟩
      · simp only [herr, Bool.false_eq_true, if_false]
        by_cases hne : (!opfRest.isEmpty) = true
        · simp only [hne, if_true]
          generalize (n.ty == TType.opInfix || decide ((f :: rest).tail.length > 1)) = c
          cases c
          rotate_left
          · simp only [if_true]
            refine ⟨by simp, ?_⟩
            intro st' he
            simp only [Outcome.ok.injEq] at he
            subst he
            exact ⟨hI.arrs, hrestlen, harest, hfty, hlast, hI.out⟩
          · simp only [Bool.false_eq_true, if_false]
            have hne' : argsRest ≠ [] := by
              intro e; rw [e] at hrestlen
              have : opfRest = [] := List.length_eq_zero_iff.mp hrestlen.symm
              simp [this] at hne
            obtain ⟨a', ha', hl'⟩ := pushArg_ok (S.callFn f.val a) argsRest hne'
            simp only [ha']
            refine ⟨by simp, ?_⟩
            intro st' he
            simp only [Outcome.ok.injEq] at he
            subst he
            exact ⟨hI.arrs, by simpa [hl'] using hrestlen, harest, hfty, hlast, hI.out⟩
        · simp only [hne, Bool.false_eq_true, if_false]
          refine ⟨by simp, ?_⟩
          intro st' he
          simp only [Outcome.ok.injEq] at he
          subst he
          exact ⟨hI.arrs, hrestlen, harest, hfty, hlast, hI.out⟩

theorem Inv.args_ne {st : St V} {inner : List Fr} {outer : Nat} (h : Inv st inner outer) {f : Tok} {r : List Tok}
    (hopf : st.opf = f :: r) : st.args ≠ [] := by
  intro e; have := h.args; rw [e, hopf] at this; simp at this

/-- a reference that is an argument by itself: stacks keep their shape -/
theorem inFuncRef_inv (S : Sem V) (st : St V) (f t n : Tok) (opfRest : List Tok) (inner : List Fr) (outer : Nat)
    (hI : Inv st inner outer) (hopf : st.opf = f :: opfRest) (r : Outcome (St V))
    (h : inFuncRef S st f t n = some r) :
    r ≠ .panic ∧ ∀ st', r = .ok st' → Inv st' inner outer := by
  unfold inFuncRef at h
  by_cases hr : (t.sub == TSub.range) = true
  · simp only [hr, if_true] at h
    have hal := hI.al
    rw [hopf] at hal
    have hne := aligned_ne_nil hal
    cases hft : st.opft with
    | nil => exact absurd hft hne
    | cons top tl =>
      rw [hft] at h
      simp only at h
      have hal' : aligned (top :: tl) st.opf inner = true := hft ▸ hI.al
      by_cases htop : top ≠ f
      · simp only [htop, ne_eq, not_false_eq_true, if_true] at h
        cases hv : S.resolve t.val with
        | none => rw [hv] at h; simp only [Option.some.injEq] at h; subst h; exact ⟨by simp, by intro _ h; cases h⟩
        | some v =>
          rw [hv] at h; simp only [Option.some.injEq] at h; subst h
          refine ⟨by simp, ?_⟩
          intro st' he
          simp only [Outcome.ok.injEq] at he
          subst he
          exact ⟨hI.arrs, hI.args, hal', hI.fty, hI.last, hI.out⟩
      · simp only [htop, if_false] at h
        by_cases hn : (n.ty == TType.argument || n.ty == TType.function) = true
        · simp only [hn, if_true] at h
          cases hv : S.resolve t.val with
          | none => rw [hv] at h; simp only [Option.some.injEq] at h; subst h; exact ⟨by simp, by intro _ h; cases h⟩
          | some v =>
            rw [hv] at h
            simp only at h
            by_cases hc : (n.ty == TType.argument && !st.opfd.isEmpty) = true
            · simp only [hc, if_true, Option.some.injEq] at h; subst h
              refine ⟨by simp, ?_⟩
              intro st' he
              simp only [Outcome.ok.injEq] at he
              subst he
              exact ⟨hI.arrs, hI.args, hal', hI.fty, hI.last, hI.out⟩
            · simp only [hc, Bool.false_eq_true, if_false] at h
              obtain ⟨a', ha', hl'⟩ := pushArg_ok v st.args (hI.args_ne hopf)
              rw [ha'] at h
              simp only [Option.some.injEq] at h; subst h
              refine ⟨by simp, ?_⟩
              intro st' he
              simp only [Outcome.ok.injEq] at he
              subst he
              exact ⟨hI.arrs, by simpa [hl'] using hI.args, hal', hI.fty, hI.last, hI.out⟩
        · simp only [hn, Bool.false_eq_true, if_false] at h
          cases h
  · simp only [hr, Bool.false_eq_true, if_false] at h
    cases h

theorem last_frAfter {inner : List Fr} (t : Tok) (hne : inner ≠ [])
    (hl : ∀ h : inner ≠ [], inner.getLast h = .F)
    (hend : isEndParen t = true → ∃ fs', inner = .P :: fs') :
    ∀ h : frAfter inner t ≠ [], (frAfter inner t).getLast h = .F := by
  unfold frAfter
  by_cases hb : isBeginParen t = true
  · simp only [hb, if_true]; exact last_cons hne hl
  · by_cases he : isEndParen t = true
    · obtain ⟨fs', hfs⟩ := hend he
      subst hfs
      simp only [hb, he, if_true, Bool.false_eq_true, if_false, List.tail_cons]
      exact last_tail hl
    · simp only [hb, he, Bool.false_eq_true, if_false]; exact hl

theorem arg_not_paren {t : Tok} (h : (t.ty == TType.argument) = true) :
    isBeginParen t = false ∧ isEndParen t = false ∧ isFuncStop t = false := by
  have := beq_iff_eq.mp h
  simp [isBeginParen, isEndParen, isFuncStop, this]

theorem stop_not_paren {t : Tok} (h : isFuncStop t = true) :
    isBeginParen t = false ∧ isEndParen t = false ∧ (t.ty == TType.argument) = false := by
  unfold isFuncStop at h
  simp only [Bool.and_eq_true, beq_iff_eq] at h
  simp [isBeginParen, isEndParen, h.1]

/-- the rest of the in-function block keeps the invariant along the nesting -/
theorem inFuncRest_inv (S : Sem V) (st : St V) (f t n : Tok) (opfRest : List Tok)
    (inner inner' : List Fr) (outer outer' : Nat)
    (hI : Inv st inner outer) (hopf : st.opf = f :: opfRest) (hns : isFuncStart t = false)
    (hn : nestStep inner outer t = some (inner', outer')) :
    inFuncRest S st f t n ≠ .panic ∧ ∀ st', inFuncRest S st f t n = .ok st' → Inv st' inner' outer' := by
  have hne : inner ≠ [] := fun e => by
    have := hI.opf_nil_iff.mpr e; rw [hopf] at this; cases this
  have hf : (f.ty == TType.function) = true := hI.fty f (by rw [hopf]; simp)
  obtain ⟨x, fs, hinner⟩ : ∃ x fs, inner = x :: fs := by
    cases inner with
    | nil => exact absurd rfl hne
    | cons x fs => exact ⟨x, fs, rfl⟩
  -- what the nesting says about this token
  have hend : isEndParen t = true → ∃ fs', inner = .P :: fs' := by
    intro he
    rcases cls_cases t with h | h | h | h | h | h
    · have := h.2; simp [isFuncStart, isEndParen] at this he; simp [this.1] at he
    · have := stop_not_paren h.2.2; rw [this.2.1] at he; cases he
    · have := arg_not_paren h.2.2.2; rw [this.2.1] at he; cases he
    · have := begin_not_end h.2.2.2.2; rw [this] at he; cases he
    · unfold nestStep at hn
      rw [h.1, hinner] at hn
      cases x with
      | F => simp at hn
      | P => exact ⟨fs, hinner⟩
    · rw [h.2.2.2.2.2] at he; cases he
  have hp := parseToken_aligned S t st.opfd st.opft st.opf inner hI.al hend
  unfold inFuncRest
  cases hpt : parseToken S t st.opfd st.opft with
  | panic => exact absurd hpt hp.1
  | err => exact ⟨by simp, by intro _ h; cases h⟩
  | ok r =>
    obtain ⟨opfd1, opft1⟩ := r
    have ha1 := hp.2 _ _ hpt
    have hI1 : Inv ({ st with opfd := opfd1, opft := opft1 } : St V) (frAfter inner t) outer :=
      ⟨hI.arrs, hI.args, ha1, hI.fty, last_frAfter t hne hI.last hend, hI.out⟩
    have hcur : curArr ({ st with opfd := opfd1, opft := opft1 } : St V) = none := by
      simp [curArr, hI.arrs]
    simp only
    rcases cls_cases t with h | h | h | h | h | h
    · rw [h.2] at hns; cases hns
    · -- Function Stop
      obtain ⟨hnb, hnE, hna⟩ := stop_not_paren h.2.2
      have hfr : frAfter inner t = inner := by simp [frAfter, hnb, hnE]
      rw [hfr] at hI1
      unfold nestStep at hn
      rw [h.1, hinner] at hn
      cases x with
      | P => simp at hn
      | F =>
        simp only [Option.some.injEq, Prod.mk.injEq] at hn
        obtain ⟨h1, h2⟩ := hn
        subst h1; subst h2
        rw [hinner] at hI1
        simp only [hna, Bool.false_eq_true, if_false, hcur]
        exact evalFunc_inv S _ t n f opfRest fs outer ⟨hI1.arrs, hI1.args, hI1.al, hI1.fty, hI1.last, hI1.out⟩ hopf h.2.2
    · -- Argument separator
      obtain ⟨hnb, hnE, hnS⟩ := arg_not_paren h.2.2.2
      have hfr : frAfter inner t = inner := by simp [frAfter, hnb, hnE]
      rw [hfr] at hI1 ha1
      unfold nestStep at hn
      rw [h.1, hinner] at hn
      cases x with
      | P => simp at hn
      | F =>
        simp only [Option.some.injEq, Prod.mk.injEq] at hn
        obtain ⟨h1, h2⟩ := hn
        subst h1; subst h2
        simp only [h.2.2.2, if_true, hcur, Option.isSome_none, Bool.false_eq_true, if_false]
        rw [hopf, hinner] at ha1
        have hfl := flushToSep_aligned S true f hf opfRest fs opft1 opfd1 st.args ha1 (hI.args_ne hopf)
        simp only [argInParen_sep f hf opfRest fs opft1 ha1, Bool.false_eq_true, if_false]
        cases hflr : flushToSep S true f opft1 opfd1 st.args with
        | panic => exact absurd hflr hfl.1
        | err => exact ⟨by simp, by intro _ h; cases h⟩
        | ok r =>
          obtain ⟨opft2, opfd2, args2⟩ := r
          obtain ⟨⟨rest, hrest, harest⟩, hlen⟩ := hfl.2 _ _ _ hflr
          subst hrest
          have hal2 : aligned (f :: rest) st.opf (Fr.F :: fs) = true := by
            rw [hopf]; simp [aligned, hf, harest]
          have hargs2 : args2 ≠ [] := by
            intro e; rw [e] at hlen; exact (hI.args_ne hopf) (List.length_eq_zero_iff.mp hlen.symm)
          simp only
          cases opfd2 with
          | nil =>
            refine ⟨by simp, ?_⟩
            intro st' he
            simp only [Outcome.ok.injEq] at he
            subst he
            exact ⟨hI.arrs, by simpa [hlen] using hI.args, hal2, hI.fty, hinner ▸ hI.last, hI.out⟩
          | cons v rest' =>
            obtain ⟨a', ha', hl'⟩ := pushArg_ok v args2 hargs2
            simp only [ha']
            refine ⟨by simp, ?_⟩
            intro st' he
            simp only [Outcome.ok.injEq] at he
            subst he
            exact ⟨hI.arrs, by simpa [hl', hlen] using hI.args, hal2, hI.fty, hinner ▸ hI.last, hI.out⟩
    · -- (
      have hnS : isFuncStop t = false := h.2.2.1
      unfold nestStep at hn
      rw [h.1, hinner] at hn
      simp only [Option.some.injEq, Prod.mk.injEq] at hn
      obtain ⟨h1, h2⟩ := hn
      subst h1; subst h2
      have hfr : frAfter inner t = .P :: inner := by simp [frAfter, h.2.2.2.2]
      rw [hfr, hinner] at hI1
      simp only [h.2.2.2.1, Bool.false_eq_true, if_false, hcur]
      unfold evalFunc
      simp only [hnS, Bool.not_false, if_true]
      exact ⟨by simp, by intro st' he; simp only [Outcome.ok.injEq] at he; subst he; exact ⟨hI1.arrs, hI1.args, hI1.al, hI1.fty, hI1.last, hI1.out⟩⟩
    · -- )
      have hnS : isFuncStop t = false := h.2.2.1
      unfold nestStep at hn
      rw [h.1, hinner] at hn
      cases x with
      | F => simp at hn
      | P =>
        simp only [Option.some.injEq, Prod.mk.injEq] at hn
        obtain ⟨h1, h2⟩ := hn
        subst h1; subst h2
        have hfr : frAfter inner t = fs := by simp [frAfter, h.2.2.2.2.1, h.2.2.2.2.2, hinner]
        rw [hfr] at hI1
        simp only [h.2.2.2.1, Bool.false_eq_true, if_false, hcur]
        unfold evalFunc
        simp only [hnS, Bool.not_false, if_true]
        exact ⟨by simp, by intro st' he; simp only [Outcome.ok.injEq] at he; subst he; exact ⟨hI1.arrs, hI1.args, hI1.al, hI1.fty, hI1.last, hI1.out⟩⟩
    · -- any other token
      have hnS : isFuncStop t = false := h.2.2.1
      unfold nestStep at hn
      rw [h.1] at hn
      simp only [Option.some.injEq, Prod.mk.injEq] at hn
      obtain ⟨h1, h2⟩ := hn
      subst h1; subst h2
      have hfr : frAfter inner t = inner := by simp [frAfter, h.2.2.2.2.1, h.2.2.2.2.2]
      rw [hfr] at hI1
      simp only [h.2.2.2.1, Bool.false_eq_true, if_false, hcur]
      unfold evalFunc
      simp only [hnS, Bool.not_false, if_true]
      exact ⟨by simp, by intro st' he; simp only [Outcome.ok.injEq] at he; subst he; exact ⟨hI1.arrs, hI1.args, hI1.al, hI1.fty, hI1.last, hI1.out⟩⟩

theorem nest_range {t : Tok} (hr : t.sub = .range) {inner i' : List Fr} {outer o' : Nat}
    (hn : nestStep inner outer t = some (i', o')) : i' = inner ∧ o' = outer := by
  have hnp := range_not_paren hr
  unfold nestStep at hn
  rcases cls_cases t with h | h | h | h | h | h
  · have := h.2; simp [isFuncStart, hr] at this
  · have := h.2.2; simp [isFuncStop, hr] at this
  · rw [h.1] at hn
    cases inner with
    | nil => simp only [Option.some.injEq, Prod.mk.injEq] at hn; obtain ⟨h1, h2⟩ := hn; subst h1; subst h2; exact ⟨rfl, rfl⟩
    | cons x fs =>
      cases x with
      | P => simp at hn
      | F => simp only [Option.some.injEq, Prod.mk.injEq] at hn; obtain ⟨h1, h2⟩ := hn; subst h1; subst h2; exact ⟨rfl, rfl⟩
  · rw [hnp.1] at h; cases h.2.2.2.2
  · rw [hnp.2] at h; cases h.2.2.2.2.2
  · rw [h.1] at hn; simp only [Option.some.injEq, Prod.mk.injEq] at hn; obtain ⟨h1, h2⟩ := hn; subst h1; subst h2; exact ⟨rfl, rfl⟩

theorem inFuncRef_range (S : Sem V) (st : St V) (f t n : Tok) (r : Outcome (St V))
    (h : inFuncRef S st f t n = some r) : t.sub = .range := by
  unfold inFuncRef at h
  by_cases hr : (t.sub == TSub.range) = true
  · exact beq_iff_eq.mp hr
  · simp only [hr, Bool.false_eq_true, if_false] at h; cases h

/-- one iteration of the token loop keeps the invariant along the nesting -/
theorem step_inv (S : Sem V) (st : St V) (t n : Tok) (inner inner' : List Fr) (outer outer' : Nat)
    (hI : Inv st inner outer) (hn : nestStep inner outer t = some (inner', outer'))
    (ha : isFuncStart t = true → (t.val == "ARRAY") = false ∧ (t.val == "ARRAYROW") = false) :
    step S st t n ≠ .panic ∧ ∀ st', step S st t n = .ok st' → Inv st' inner' outer' := by
  cases hopf : st.opf with
  | nil =>
    have hin : inner = [] := hI.opf_nil_iff.mp hopf
    subst hin
    have hal0 : aligned st.opft [] [] = true := by have := hI.al; rwa [hopf] at this
    have hargs0 : st.args.length = 0 := by simpa [hopf] using hI.args
    have hfty0 : ∀ x ∈ ([] : List Tok), (x.ty == TType.function) = true := by intro x hx; cases hx
    have hend : isEndParen t = true → 1 ≤ parens st.opt := by
      intro he
      rw [hI.out]
      rcases cls_cases t with h | h | h | h | h | h
      · have := h.2; simp [isFuncStart] at this; simp [isEndParen, this.1] at he
      · have := stop_not_paren h.2.2; rw [this.2.1] at he; cases he
      · have := arg_not_paren h.2.2.2; rw [this.2.1] at he; cases he
      · have := begin_not_end h.2.2.2.2; rw [this] at he; cases he
      · unfold nestStep at hn
        rw [h.1] at hn
        cases outer with
        | zero => simp at hn
        | succ o => omega
      · rw [h.2.2.2.2.2] at he; cases he
    have hp := parseToken_ok S t st.opd st.opt hend
    unfold step
    simp only [hopf, List.isEmpty_nil, if_true]
    unfold stepTail
    cases hpt : parseToken S t st.opd st.opt with
    | panic => exact absurd hpt hp.1
    | err => exact ⟨by simp, by intro _ h; cases h⟩
    | ok r =>
      obtain ⟨opd1, opt1⟩ := r
      have hd := hp.2 _ _ hpt
      rw [hI.out] at hd
      simp only
      rcases cls_cases t with h | h | h | h | h | h
      · -- function start out of the function stack
        obtain ⟨ha1, ha2⟩ := ha h.2
        have hty : (t.ty == TType.function) = true := by
          have := h.2; simp only [isFuncStart, Bool.and_eq_true] at this; exact this.1
        have hnb : isBeginParen t = false ∧ isEndParen t = false := by
          have := beq_iff_eq.mp hty; simp [isBeginParen, isEndParen, this]
        unfold nestStep at hn
        rw [h.1] at hn
        simp only [Option.some.injEq, Prod.mk.injEq] at hn
        obtain ⟨h1, h2⟩ := hn
        subst h1; subst h2
        simp only [h.2, if_true, ha1, ha2, Bool.false_eq_true, if_false, Bool.false_and]
        refine ⟨by simp, ?_⟩
        intro st' he
        simp only [Outcome.ok.injEq] at he
        subst he
        refine ⟨hI.arrs, by simp [hargs0], ?_, ?_, ?_, ?_⟩
        · simp [aligned, hty, hal0]
        · intro x hx; simp at hx; rw [hx]; exact hty
        · intro _; rfl
        · simpa [depthAfter, hnb.1, hnb.2] using hd
      all_goals
        have hns : isFuncStart t = false := h.2.1
        simp only [hns, Bool.false_eq_true, if_false]
      · -- stray Function Stop
        obtain ⟨hnb, hnE, _⟩ := stop_not_paren h.2.2
        unfold nestStep at hn
        rw [h.1] at hn
        simp only [Option.some.injEq, Prod.mk.injEq] at hn
        obtain ⟨h1, h2⟩ := hn
        subst h1; subst h2
        simp only [h.2.2, if_true]
        have hout : parens opt1 = outer := by simpa [depthAfter, hnb, hnE] using hd
        simp only [curArr, hI.arrs]
        exact ⟨by simp, by intro st' he; simp only [Outcome.ok.injEq] at he; subst he
                           exact ⟨rfl, hargs0, hal0, hfty0, hI.last, hout⟩⟩
      · -- Argument out of the function stack
        obtain ⟨hnb, hnE, hnS⟩ := arg_not_paren h.2.2.2
        unfold nestStep at hn
        rw [h.1] at hn
        simp only [Option.some.injEq, Prod.mk.injEq] at hn
        obtain ⟨h1, h2⟩ := hn
        subst h1; subst h2
        simp only [hnS, Bool.false_eq_true, if_false]
        have hout : parens opt1 = outer := by simpa [depthAfter, hnb, hnE] using hd
        exact ⟨by simp, by intro st' he; simp only [Outcome.ok.injEq] at he; subst he
                           exact ⟨hI.arrs, hargs0, hal0, hfty0, hI.last, hout⟩⟩
      · -- (
        unfold nestStep at hn
        rw [h.1] at hn
        simp only [Option.some.injEq, Prod.mk.injEq] at hn
        obtain ⟨h1, h2⟩ := hn
        subst h1; subst h2
        simp only [h.2.2.1, Bool.false_eq_true, if_false]
        have hout : parens opt1 = outer + 1 := by simpa [depthAfter, h.2.2.2.2] using hd
        exact ⟨by simp, by intro st' he; simp only [Outcome.ok.injEq] at he; subst he
                           exact ⟨hI.arrs, hargs0, hal0, hfty0, hI.last, hout⟩⟩
      · -- )
        unfold nestStep at hn
        rw [h.1] at hn
        cases outer with
        | zero => simp at hn
        | succ o =>
          simp only [Option.some.injEq, Prod.mk.injEq] at hn
          obtain ⟨h1, h2⟩ := hn
          subst h1; subst h2
          simp only [h.2.2.1, Bool.false_eq_true, if_false]
          have hout : parens opt1 = o := by simpa [depthAfter, h.2.2.2.2.1, h.2.2.2.2.2] using hd
          exact ⟨by simp, by intro st' he; simp only [Outcome.ok.injEq] at he; subst he
                             exact ⟨hI.arrs, hargs0, hal0, hfty0, hI.last, hout⟩⟩
      · -- other
        unfold nestStep at hn
        rw [h.1] at hn
        simp only [Option.some.injEq, Prod.mk.injEq] at hn
        obtain ⟨h1, h2⟩ := hn
        subst h1; subst h2
        simp only [h.2.2.1, Bool.false_eq_true, if_false]
        have hout : parens opt1 = outer := by simpa [depthAfter, h.2.2.2.2.1, h.2.2.2.2.2] using hd
        exact ⟨by simp, by intro st' he; simp only [Outcome.ok.injEq] at he; subst he
                           exact ⟨hI.arrs, hargs0, hal0, hfty0, hI.last, hout⟩⟩
  | cons f opfRest =>
    have hne : inner ≠ [] := fun e => by
      have := hI.opf_nil_iff.mpr e; rw [hopf] at this; cases this
    unfold step stepTail
    simp only [hopf, List.isEmpty_cons, Bool.false_eq_true, if_false]
    by_cases hs : isFuncStart t = true
    · obtain ⟨ha1, ha2⟩ := ha hs
      have hty : (t.ty == TType.function) = true := by
        have := hs; simp only [isFuncStart, Bool.and_eq_true] at this; exact this.1
      have hcls : cls t = .fstart := by unfold cls; simp [hs]
      unfold nestStep at hn
      rw [hcls] at hn
      simp only [Option.some.injEq, Prod.mk.injEq] at hn
      obtain ⟨h1, h2⟩ := hn
      subst h1; subst h2
      simp only [hs, if_true, ha1, ha2, Bool.false_eq_true, if_false, Bool.false_and]
      refine ⟨by simp, ?_⟩
      intro st' he
      simp only [Outcome.ok.injEq] at he
      subst he
      refine ⟨hI.arrs, by simp [hI.args, hopf], ?_, ?_, last_cons hne hI.last, hI.out⟩
      · have := hI.al; rw [hopf] at this
        simp [aligned, hty, this]
      · intro x hx
        simp only [List.mem_cons] at hx
        rcases hx with hx | hx
        · rw [hx]; exact hty
        · exact hI.fty x (by rw [hopf]; simpa using hx)
    · have hs' : isFuncStart t = false := by simpa using hs
      simp only [hs', Bool.false_eq_true, if_false]
      unfold inFunc
      cases href : inFuncRef S st f t n with
      | some r =>
        simp only
        have hr := inFuncRef_range S st f t n r href
        obtain ⟨h1, h2⟩ := nest_range hr hn
        subst h1; subst h2
        exact inFuncRef_inv S st f t n opfRest _ _ hI hopf r href
      | none =>
        simp only
        exact inFuncRest_inv S st f t n opfRest inner inner' outer outer' hI hopf hs' hn

theorem inv_init : Inv ({} : St V) [] 0 :=
  ⟨rfl, rfl, rfl, (fun x hx => by cases hx), (fun h => absurd rfl h), rfl⟩

theorem run_inv (S : Sem V) :
    ∀ (toks : List Tok) (st : St V) (inner : List Fr) (outer : Nat), Inv st inner outer →
      nested inner outer toks = true →
      (∀ t ∈ toks, isFuncStart t = true → (t.val == "ARRAY") = false ∧ (t.val == "ARRAYROW") = false) →
      run S st toks ≠ .panic := by
  intro toks
  induction toks with
  | nil => intro st _ _ _ _ _; exact finish_no_panic S st
  | cons t ts ih =>
    intro st inner outer hI hnest harr
    unfold run
    unfold nested at hnest
    cases hn : nestStep inner outer t with
    | none => rw [hn] at hnest; cases hnest
    | some r =>
      obtain ⟨i', o'⟩ := r
      rw [hn] at hnest
      have hs := step_inv S st t (ts.headD zeroTok) inner i' outer o' hI hn (harr t (by simp))
      cases hst : step S st t (ts.headD zeroTok) with
      | panic => exact absurd hst hs.1
      | err => simp
      | ok st' =>
        simp only
        exact ih st' i' o' (hs.2 st' hst) hnest (fun x hx => harr x (by simp [hx]))

end XlModel.Lemmas.CalcTotalFn
