/-
Helper lemmas for C09: the stacks of the evaluator grow by a bounded amount per token, so
their heights — and with them the iteration counts of every inner loop, each of which
recurses structurally on one stack — are linear in the number of tokens.
-/
import XlModel.CalcTotal

namespace XlModel.Lemmas.CalcTotalSize
open XlModel XlModel.CalcTotal

variable {V : Type}

theorem applyBin_len (r : BinRes V) (rest : List V) : (applyBin r rest).opd.length ≤ rest.length + 1 := by
  cases r <;> simp [applyBin]

theorem calcNeg_len (S : Sem V) (opd : List V) (t : Tok) : (calcNeg S opd t).opd.length ≤ opd.length := by
  unfold calcNeg
  split
  · cases opd with
    | nil => simp
    | cons x r => simp only; cases S.neg x <;> simp
  · simp

theorem calcSub_len (S : Sem V) (opd : List V) (t : Tok) : (calcSub S opd t).opd.length ≤ opd.length := by
  unfold calcSub
  split
  · match opd with
    | [] => simp
    | [_] => simp
    | r :: l :: rest => have := applyBin_len (S.sub2 r l) rest; simp only [List.length_cons]; omega
  · simp

theorem calcBin_len (S : Sem V) (opd : List V) (t : Tok) : (calcBin S opd t).opd.length ≤ opd.length := by
  unfold calcBin
  split
  · match opd with
    | [] => simp
    | [_] => simp
    | r :: l :: rest => have := applyBin_len (S.bin t.val r l) rest; simp only [List.length_cons]; omega
  · simp

theorem calculate_len (S : Sem V) (opd : List V) (t : Tok) : (calculate S opd t).opd.length ≤ opd.length := by
  unfold calculate
  have h1 := calcNeg_len S opd t
  have h2 := calcSub_len S (calcNeg S opd t).opd t
  have h3 := calcBin_len S (calcSub S (calcNeg S opd t).opd t).opd t
  simp only
  split
  · exact h1
  · split
    · omega
    · omega

theorem popLoop_len (S : Sem V) (p : Nat) :
    ∀ (opt : List Tok) (opd : List V) opt' opd', popLoop S p opt opd = some (opt', opd') →
      opt'.length ≤ opt.length ∧ opd'.length ≤ opd.length := by
  intro opt
  induction opt with
  | nil => intro opd opt' opd' h; simp [popLoop] at h; rw [h.1, h.2]; exact ⟨Nat.le_refl _, Nat.le_refl _⟩
  | cons top rest ih =>
    intro opd opt' opd' h
    unfold popLoop at h
    split at h
    · dsimp only at h
      split at h
      · cases h
      · have := ih _ _ _ h
        have := calculate_len S opd top
        simp only [List.length_cons]; omega
    · simp only [Option.some.injEq, Prod.mk.injEq] at h
      rw [← h.1, ← h.2]; exact ⟨Nat.le_refl _, Nat.le_refl _⟩

theorem parseOp_len (S : Sem V) (opt : List Tok) (opd : List V) (t : Tok) opt' opd'
    (h : parseOperatorPrefixToken S opt opd t = some (opt', opd')) :
    opt'.length ≤ opt.length + 1 ∧ opd'.length ≤ opd.length := by
  unfold parseOperatorPrefixToken at h
  cases opt with
  | nil => simp only [Option.some.injEq, Prod.mk.injEq] at h; rw [← h.1, ← h.2]; simp
  | cons top rest =>
    simp only at h
    split at h
    · simp only [Option.some.injEq, Prod.mk.injEq] at h; rw [← h.1, ← h.2]; simp; omega
    · split at h
      · simp only [Option.some.injEq, Prod.mk.injEq] at h; rw [← h.1, ← h.2]; simp
      · cases hl : popLoop S (getPriority t) (top :: rest) opd with
        | none => rw [hl] at h; cases h
        | some r =>
          obtain ⟨o1, d1⟩ := r
          rw [hl] at h
          simp only [Option.some.injEq, Prod.mk.injEq] at h
          have := popLoop_len S _ _ _ _ _ hl
          rw [← h.1, ← h.2]; simp only [List.length_cons] at this ⊢; omega

theorem closeParen_len (S : Sem V) :
    ∀ (opt : List Tok) (opd : List V) opt' opd', closeParen S opt opd = .ok (opt', opd') →
      opt'.length ≤ opt.length ∧ opd'.length ≤ opd.length := by
  intro opt
  induction opt with
  | nil => intro opd opt' opd' h; simp [closeParen] at h
  | cons top rest ih =>
    intro opd opt' opd' h
    unfold closeParen at h
    split at h
    · simp only [Outcome.ok.injEq, Prod.mk.injEq] at h; rw [← h.1, ← h.2]; simp
    · dsimp only at h
      split at h
      · cases h
      · have := ih _ _ _ h
        have := calculate_len S opd top
        simp only [List.length_cons]; omega

theorem applyPostfix_len (S : Sem V) (t : Tok) (l l' : List V) (h : applyPostfix S t l = some l') :
    l'.length = l.length := by
  unfold applyPostfix at h
  split at h
  · cases l with
    | nil => simp only [Option.some.injEq] at h; rw [← h]
    | cons x r =>
      cases hp : S.pct x with
      | none => simp [hp] at h
      | some v => simp [hp] at h; rw [← h]; simp
  · simp only [Option.some.injEq] at h; rw [← h]

theorem parseToken_len (S : Sem V) (t0 : Tok) (opd : List V) (opt : List Tok) opd' opt'
    (h : parseToken S t0 opd opt = .ok (opd', opt')) :
    opt'.length + opd'.length ≤ opt.length + opd.length + 2 := by
  unfold parseToken at h
  cases hrt : (if (t0.sub == TSub.range) = true then (S.resolve t0.val).map S.refTok else some t0) with
  | none => simp only [hrt] at h; cases h
  | some t =>
    simp only [hrt] at h
    cases hr1 : (if isOperatorPrefixToken t = true then parseOperatorPrefixToken S opt opd t else some (opt, opd)) with
    | none => simp only [hr1] at h; cases h
    | some r1 =>
      obtain ⟨opt1, opd1⟩ := r1
      simp only [hr1] at h
      have h1 : opt1.length ≤ opt.length + 1 ∧ opd1.length ≤ opd.length := by
        by_cases ho : isOperatorPrefixToken t = true
        · simp only [ho, if_true] at hr1
          exact parseOp_len S opt opd t _ _ hr1
        · simp only [ho, Bool.false_eq_true, if_false, Option.some.injEq, Prod.mk.injEq] at hr1
          rw [← hr1.1, ← hr1.2]; simp
      by_cases hb : isBeginParen t = true
      · -- "(" : then not an operator (one push only) and not ")"
        have hnop : isOperatorPrefixToken t = false := by
          unfold isBeginParen at hb
          simp only [Bool.and_eq_true, beq_iff_eq] at hb
          simp [isOperatorPrefixToken, isPrefixMinus, hb.1]
        have he : isEndParen t = false := by
          unfold isBeginParen at hb
          simp only [Bool.and_eq_true, beq_iff_eq] at hb
          simp [isEndParen, hb.2]
        have hty : t.ty = .subexpr := by
          unfold isBeginParen at hb
          simp only [Bool.and_eq_true, beq_iff_eq] at hb; exact hb.1
        simp only [hnop, Bool.false_eq_true, if_false, Option.some.injEq, Prod.mk.injEq] at hr1
        simp only [hb, he, if_true, Bool.false_eq_true, if_false, hty, isOperand] at h
        cases hpf : applyPostfix S t opd1 with
        | none => simp [hpf] at h
        | some o =>
          simp [hpf] at h
          have hp := applyPostfix_len S t _ _ hpf
          rw [← h.1, ← h.2]; simp only [List.length_cons]; omega
      · have hb' : isBeginParen t = false := by simpa using hb
        simp only [hb', Bool.false_eq_true, if_false] at h
        by_cases he : isEndParen t = true
        · have hty : t.ty = .subexpr := by
            unfold isEndParen at he
            simp only [Bool.and_eq_true, beq_iff_eq] at he; exact he.1
          simp only [he, if_true] at h
          cases hcp : closeParen S opt1 opd1 with
          | panic => simp only [hcp] at h; cases h
          | err => simp only [hcp] at h; cases h
          | ok r2 =>
            obtain ⟨opt2, opd2⟩ := r2
            simp only [hcp, hty, isOperand] at h
            cases hpf : applyPostfix S t opd2 with
            | none => simp [hpf] at h
            | some o =>
              simp [hpf] at h
              have := closeParen_len S _ _ _ _ hcp
              have hp := applyPostfix_len S t _ _ hpf
              rw [← h.1, ← h.2]; omega
        · have he' : isEndParen t = false := by simpa using he
          simp only [he', Bool.false_eq_true, if_false] at h
          cases hpf : applyPostfix S t opd1 with
          | none => simp [hpf] at h
          | some o =>
            simp only [hpf, Outcome.ok.injEq, Prod.mk.injEq] at h
            rw [← h.1, ← h.2]
            have hp := applyPostfix_len S t _ _ hpf
            split
            · simp only [List.length_cons, hp]; omega
            · simp only [hp]; omega

theorem flushToSep_len (S : Sem V) (front : Bool) (sep : Tok) :
    ∀ (opft : List Tok) (opfd : List V) (args : List (List V)) opft' opfd' args',
      flushToSep S front sep opft opfd args = .ok (opft', opfd', args') →
      opft'.length ≤ opft.length ∧ opfd'.length ≤ opfd.length ∧ args'.length = args.length := by
  intro opft
  induction opft with
  | nil => intro opfd args o1 o2 o3 h; simp [flushToSep] at h
  | cons top rest ih =>
    intro opfd args o1 o2 o3 h
    unfold flushToSep at h
    split at h
    · simp only [Outcome.ok.injEq, Prod.mk.injEq] at h
      rw [← h.1, ← h.2.1, ← h.2.2]; simp
    · dsimp only at h
      have hc := calculate_len S opfd top
      split at h
      · cases args with
        | nil => cases h
        | cons a as =>
          simp only at h
          have := ih _ _ _ _ _ h
          simp only [List.length_cons] at this ⊢; omega
      · have := ih _ _ _ _ _ h
        simp only [List.length_cons]; omega

theorem pushArg_len (v : V) (args args' : List (List V)) (h : pushArg v args = .ok args') :
    args'.length = args.length := by
  cases args with
  | nil => cases h
  | cons a as => simp only [pushArg, Outcome.ok.injEq] at h; rw [← h]; rfl

theorem pushPending_len (b : Bool) (opfd opfd' : List V) (args args' : List (List V))
    (h : pushPending b opfd args = .ok (opfd', args')) :
    opfd'.length ≤ opfd.length ∧ args'.length = args.length := by
  unfold pushPending at h
  split at h
  · cases opfd with
    | nil => simp only [Outcome.ok.injEq, Prod.mk.injEq] at h; rw [← h.1, ← h.2]; simp
    | cons v rest =>
      simp only at h
      cases hp : pushArg v args with
      | ok a' =>
        rw [hp] at h
        simp only [Outcome.ok.injEq, Prod.mk.injEq] at h
        rw [← h.1, ← h.2, pushArg_len v args a' hp]; simp
      | err => rw [hp] at h; cases h
      | panic => rw [hp] at h; cases h
  · simp only [Outcome.ok.injEq, Prod.mk.injEq] at h; rw [← h.1, ← h.2]; simp

/-- total height of the six stacks -/
def size (st : St V) : Nat :=
  st.opd.length + st.opt.length + st.opf.length + st.opfd.length + st.opft.length + st.args.length

theorem evalFunc_size (S : Sem V) (st st' : St V) (t n : Tok) (h : evalFunc S st t n = .ok st') :
    size st' ≤ size st + 1 := by
  unfold evalFunc at h
  split at h
  · simp only [Outcome.ok.injEq] at h; rw [← h]; omega
  · cases hopf : st.opf with
    | nil => rw [hopf] at h; cases h
    | cons f opfRest =>
      rw [hopf] at h
      simp only at h
      cases hfl : flushToSep S false f st.opft st.opfd st.args with
      | err => rw [hfl] at h; cases h
      | panic => rw [hfl] at h; cases h
      | ok r =>
        obtain ⟨opft1, opfd1, args1⟩ := r
        have l1 := flushToSep_len S false f _ _ _ _ _ _ hfl
        rw [hfl] at h
        simp only at h
        cases hflag : argumentFlag opft1 opfd1.length with
        | err => rw [hflag] at h; cases h
        | panic => rw [hflag] at h; cases h
        | ok b =>
          rw [hflag] at h
          simp only at h
          cases hpp : pushPending b opfd1 args1 with
          | err => rw [hpp] at h; cases h
          | panic => rw [hpp] at h; cases h
          | ok r2 =>
            obtain ⟨opfd2, args2⟩ := r2
            have l2 := pushPending_len b _ _ _ _ hpp
            rw [hpp] at h
            simp only at h
            cases args2 with
            | nil => cases h
            | cons a argsRest =>
              simp only at h
              have lt : opft1.tail.length ≤ opft1.length := by simp
              split at h
              · cases h
              · split at h
                · split at h
                  · simp only [Outcome.ok.injEq] at h
                    rw [← h]; unfold size
                    simp only [List.length_cons, hopf] at l1 l2 ⊢; omega
                  · cases hp : pushArg (S.callFn f.val a) argsRest with
                    | ok a' =>
                      rw [hp] at h
                      simp only [Outcome.ok.injEq] at h
                      have l3 := pushArg_len _ _ _ hp
                      rw [← h]; unfold size
                      simp only [List.length_cons, hopf] at l1 l2 ⊢; omega
                    | err => rw [hp] at h; cases h
                    | panic => rw [hp] at h; cases h
                · simp only [Outcome.ok.injEq] at h
                  rw [← h]; unfold size
                  simp only [List.length_cons, hopf] at l1 l2 ⊢; omega

theorem inFuncRef_size (S : Sem V) (st st' : St V) (f t n : Tok)
    (h : inFuncRef S st f t n = some (.ok st')) : size st' ≤ size st + 1 := by
  unfold inFuncRef at h
  split at h
  · cases hft : st.opft with
    | nil => rw [hft] at h; simp at h
    | cons top tl =>
      have hsz : size st = st.opd.length + st.opt.length + st.opf.length + st.opfd.length + (top :: tl).length + st.args.length := by
        unfold size; rw [hft]
      rw [hft] at h
      simp only at h
      split at h
      · cases hv : S.resolve t.val with
        | none => rw [hv] at h; simp at h
        | some v =>
          rw [hv] at h
          simp only [Option.some.injEq, Outcome.ok.injEq] at h
          rw [← h, hsz]; unfold size; simp only [List.length_cons]; omega
      · split at h
        · cases hv : S.resolve t.val with
          | none => rw [hv] at h; simp at h
          | some v =>
            rw [hv] at h
            simp only at h
            split at h
            · simp only [Option.some.injEq, Outcome.ok.injEq] at h
              rw [← h, hsz]; unfold size; simp only [List.length_cons]; omega
            · cases hp : pushArg v st.args with
              | ok a' =>
                rw [hp] at h
                simp only [Option.some.injEq, Outcome.ok.injEq] at h
                have := pushArg_len _ _ _ hp
                rw [← h, hsz]; unfold size; simp only [List.length_cons]; omega
              | err => rw [hp] at h; simp at h
              | panic => rw [hp] at h; simp at h
        · cases h
  · cases h

theorem size_setCur (st : St V) (a : ArrC V) : size (setCur st a) = size st := rfl
theorem size_popArr (st : St V) : size (popArr st) = size st := rfl

theorem inFuncRest_size (S : Sem V) (st st' : St V) (f t n : Tok)
    (h : inFuncRest S st f t n = .ok st') : size st' ≤ size st + 3 := by
  unfold inFuncRest at h
  cases hpt : parseToken S t st.opfd st.opft with
  | err => rw [hpt] at h; cases h
  | panic => rw [hpt] at h; cases h
  | ok r =>
    obtain ⟨opfd1, opft1⟩ := r
    have lp := parseToken_len S t _ _ _ _ hpt
    rw [hpt] at h
    simp only at h
    have hs1 : size ({ st with opfd := opfd1, opft := opft1 } : St V) ≤ size st + 2 := by
      unfold size; simp only; omega
    split at h
    · split at h
      · simp only [Outcome.ok.injEq] at h
        rw [← h]; omega
      · split at h
        · simp only [Outcome.ok.injEq] at h
          rw [← h]; omega
        · cases hfl : flushToSep S true f opft1 opfd1 st.args with
          | err => rw [hfl] at h; cases h
          | panic => rw [hfl] at h; cases h
          | ok r2 =>
            obtain ⟨opft2, opfd2, args2⟩ := r2
            have l1 := flushToSep_len S true f _ _ _ _ _ _ hfl
            rw [hfl] at h
            simp only at h
            cases opfd2 with
            | nil =>
              simp only [Outcome.ok.injEq] at h
              rw [← h]; unfold size at hs1 ⊢; simp only [List.length_nil] at l1 ⊢; omega
            | cons v rest =>
              simp only at h
              cases hp : pushArg v args2 with
              | ok a' =>
                rw [hp] at h
                simp only [Outcome.ok.injEq] at h
                have := pushArg_len _ _ _ hp
                rw [← h]; unfold size at hs1 ⊢; simp only [List.length_cons] at l1 ⊢; omega
              | err => rw [hp] at h; cases h
              | panic => rw [hp] at h; cases h
    · cases hc : curArr ({ st with opfd := opfd1, opft := opft1 } : St V) with
      | none =>
        rw [hc] at h
        simp only at h
        have := evalFunc_size S _ st' t n h
        omega
      | some a =>
        rw [hc] at h
        simp only at h
        split at h
        · cases hfd : opfd1 with
          | nil => rw [hfd] at h; cases h
          | cons v rest =>
            rw [hfd] at h
            simp only [Outcome.ok.injEq] at h
            rw [← h, size_setCur]; unfold size at hs1 ⊢; subst hfd; simp only [List.length_cons] at hs1 ⊢; omega
        · split at h
          · simp only [Outcome.ok.injEq] at h
            rw [← h, size_setCur]; omega
          · split at h
            · cases hp : pushArg (S.mkMatrix a.rows) st.args with
              | ok a' =>
                rw [hp] at h
                simp only [Outcome.ok.injEq] at h
                have := pushArg_len _ _ _ hp
                rw [← h, size_popArr]; unfold size at hs1 ⊢; simp only; omega
              | err => rw [hp] at h; cases h
              | panic => rw [hp] at h; cases h
            · have := evalFunc_size S _ st' t n h
              omega

theorem stepTail_size (S : Sem V) (st st' : St V) (t n : Tok) (h : stepTail S st t n = .ok st') :
    size st' ≤ size st + 3 := by
  unfold stepTail at h
  split at h
  · split at h
    · simp only [Outcome.ok.injEq] at h; rw [← h]; unfold size; simp only; omega
    · split at h
      · split at h
        · simp only [Outcome.ok.injEq] at h; rw [← h, size_setCur]; omega
        · simp only [Outcome.ok.injEq] at h; rw [← h]; omega
      · simp only [Outcome.ok.injEq] at h; rw [← h]; unfold size; simp only [List.length_cons]; omega
  · split at h
    · split at h
      · split at h
        · split at h
          · simp only [Outcome.ok.injEq] at h; rw [← h, size_setCur]; omega
          · simp only [Outcome.ok.injEq] at h; rw [← h, size_popArr]; omega
        · simp only [Outcome.ok.injEq] at h; rw [← h]; omega
      · simp only [Outcome.ok.injEq] at h; rw [← h]; omega
    · rename_i f _ _
      unfold inFunc at h
      cases href : inFuncRef S st f t n with
      | some r =>
        rw [href] at h
        simp only at h
        subst h
        have := inFuncRef_size S st st' f t n href
        omega
      | none =>
        rw [href] at h
        simp only at h
        exact inFuncRest_size S st st' f t n h

/-- **one token grows the stacks by at most 5 elements** (at most two from `parseToken` on the
outer stacks, at most three afterwards; the constant is not tight) -/
theorem step_size (S : Sem V) (st st' : St V) (t n : Tok) (h : step S st t n = .ok st') :
    size st' ≤ size st + 5 := by
  unfold step at h
  by_cases hopf : st.opf.isEmpty = true
  · simp only [hopf, if_true] at h
    cases hpt : parseToken S t st.opd st.opt with
    | err => rw [hpt] at h; cases h
    | panic => rw [hpt] at h; cases h
    | ok r =>
      obtain ⟨opd1, opt1⟩ := r
      have lp := parseToken_len S t _ _ _ _ hpt
      rw [hpt] at h
      simp only at h
      have := stepTail_size S _ st' t n h
      unfold size at this ⊢; simp only at this; omega
  · simp only [hopf, Bool.false_eq_true, if_false] at h
    have := stepTail_size S st st' t n h
    omega

/-- the machine state after a prefix of the token list (the loop of `evalInfixExp` cut short) -/
def runSt (S : Sem V) : St V → List Tok → Outcome (St V)
  | st, [] => .ok st
  | st, t :: rest =>
    match step S st t (rest.headD zeroTok) with
    | .ok st' => runSt S st' rest
    | .err => .err
    | .panic => .panic

theorem runSt_size (S : Sem V) :
    ∀ (toks : List Tok) (st st' : St V), runSt S st toks = .ok st' → size st' ≤ size st + 5 * toks.length := by
  intro toks
  induction toks with
  | nil => intro st st' h; simp only [runSt, Outcome.ok.injEq] at h; rw [← h]; simp
  | cons t ts ih =>
    intro st st' h
    unfold runSt at h
    cases hs : step S st t (ts.headD zeroTok) with
    | err => rw [hs] at h; cases h
    | panic => rw [hs] at h; cases h
    | ok st1 =>
      rw [hs] at h
      simp only at h
      have h1 := step_size S st st1 t _ hs
      have h2 := ih st1 st' h
      simp only [List.length_cons]; omega

theorem run_eq_runSt (S : Sem V) :
    ∀ (toks : List Tok) (st : St V), run S st toks = (match runSt S st toks with
      | .ok st' => finish S st'
      | .err => .err
      | .panic => .panic) := by
  intro toks
  induction toks with
  | nil => intro st; simp [run, runSt]
  | cons t ts ih =>
    intro st
    unfold run runSt
    cases step S st t (ts.headD zeroTok) with
    | ok st1 => simp only; exact ih st1
    | err => rfl
    | panic => rfl

end XlModel.Lemmas.CalcTotalSize
