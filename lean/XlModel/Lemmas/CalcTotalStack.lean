/-
Helper lemmas for C09, part 1 of `XlModel.CalcTotal`: the operator stack of the
function-free fragment.  The number of "(" tokens on the operator stack is
exactly the nesting depth, so `)` never finds the stack empty when the token
list is prefix-balanced.
-/
import XlModel.CalcTotal

namespace XlModel.Lemmas.CalcTotalStack
open XlModel XlModel.CalcTotal

/-- number of "(" tokens on an operator stack -/
def parens : List Tok → Nat
  | [] => 0
  | t :: ts => (if isBeginParen t then 1 else 0) + parens ts

/-- prefix-balanced parentheses starting at depth `d` -/
def balanced : Nat → List Tok → Bool
  | _, [] => true
  | d, t :: ts =>
    if isBeginParen t then balanced (d + 1) ts
    else if isEndParen t then
      match d with
      | 0 => false
      | d' + 1 => balanced d' ts
    else balanced d ts

theorem table_pos : ∀ e ∈ Facts.C09.tokenPriority, 1 ≤ e.2 := by decide

theorem prefix_minus_pos : 1 ≤ Facts.C09.prefixMinusPriority := by decide

theorem tablePrio_pos {s : String} {p : Nat} (h : tablePrio s = some p) : 1 ≤ p := by
  unfold tablePrio at h
  cases hf : Facts.C09.tokenPriority.find? (fun e => e.1 == s) with
  | none => rw [hf] at h; cases h
  | some e =>
    rw [hf] at h
    simp only [Option.map_some, Option.some.injEq] at h
    subst h
    exact table_pos e (List.mem_of_find?_eq_some hf)

theorem beginParen_prio {t : Tok} (h : isBeginParen t = true) : getPriority t = 0 := by
  unfold isBeginParen at h
  simp only [Bool.and_eq_true, beq_iff_eq] at h
  unfold getPriority
  simp [h.1, isBeginParen, h.2]

theorem opPrefix_not_paren {t : Tok} (h : isOperatorPrefixToken t = true) : isBeginParen t = false := by
  unfold isOperatorPrefixToken isPrefixMinus at h
  unfold isBeginParen
  simp only [Bool.or_eq_true, Bool.and_eq_true, beq_iff_eq] at h
  rcases h with h | h
  · simp [h.2]
  · simp [h.2]

theorem opPrefix_prio {t : Tok} (h : isOperatorPrefixToken t = true) : 1 ≤ getPriority t := by
  have hp := opPrefix_not_paren h
  unfold isOperatorPrefixToken at h
  simp only [Bool.or_eq_true, Bool.and_eq_true, beq_iff_eq] at h
  unfold getPriority
  rcases h with h | h
  · have hty : t.ty = .opPrefix := by
      unfold isPrefixMinus at h; simp only [Bool.and_eq_true, beq_iff_eq] at h; exact h.2
    simp only [hty, hp, h]
    simpa using prefix_minus_pos
  · have hty : t.ty = .opInfix := h.2
    simp only [hty, hp]
    cases hq : tablePrio t.val with
    | none => rw [hq] at h; simp at h
    | some p =>
      have := tablePrio_pos hq
      by_cases hm : isPrefixMinus t = true
      · simp only [hm]; simpa using prefix_minus_pos
      · simp only [hm]; simpa using this

variable {V : Type}

theorem popLoop_parens (S : Sem V) (p : Nat) (hp : 1 ≤ p) :
    ∀ (opt : List Tok) (opd : List V) opt' opd',
      popLoop S p opt opd = some (opt', opd') → parens opt' = parens opt := by
  intro opt
  induction opt with
  | nil => intro opd opt' opd' h; simp [popLoop] at h; rw [h.1]
  | cons top rest ih =>
    intro opd opt' opd' h
    unfold popLoop at h
    by_cases hle : p ≤ getPriority top
    · simp only [hle, if_true] at h
      have hnp : isBeginParen top = false := by
        cases hb : isBeginParen top with
        | false => rfl
        | true => have := beginParen_prio hb; omega
      by_cases hf : (calculate S opd top).failed = true
      · simp [hf] at h
      · simp only [hf, Bool.false_eq_true, if_false] at h
        have := ih _ _ _ h
        simp [parens, hnp, this]
    · simp only [hle, if_false, Option.some.injEq, Prod.mk.injEq] at h
      rw [← h.1]

theorem parseOp_parens (S : Sem V) (opt : List Tok) (opd : List V) (t : Tok)
    (ht : isOperatorPrefixToken t = true) opt' opd'
    (h : parseOperatorPrefixToken S opt opd t = some (opt', opd')) : parens opt' = parens opt := by
  have hnp := opPrefix_not_paren ht
  have hpr := opPrefix_prio ht
  unfold parseOperatorPrefixToken at h
  cases opt with
  | nil =>
    simp only [Option.some.injEq, Prod.mk.injEq] at h
    rw [← h.1]; simp [parens, hnp]
  | cons top rest =>
    simp only at h
    by_cases h1 : (isPrefixMinus top && isPrefixMinus t) = true
    · simp only [h1, if_true, Option.some.injEq, Prod.mk.injEq] at h
      have : isBeginParen top = false := by
        simp only [Bool.and_eq_true] at h1
        have := h1.1
        unfold isPrefixMinus at this
        simp only [Bool.and_eq_true, beq_iff_eq] at this
        unfold isBeginParen; simp [this.2]
      rw [← h.1]; simp [parens, this]
    · simp only [h1, Bool.false_eq_true, if_false] at h
      by_cases h2 : getPriority t > getPriority top
      · simp only [h2, if_true, Option.some.injEq, Prod.mk.injEq] at h
        rw [← h.1]; simp [parens, hnp]
      · simp only [h2, if_false] at h
        cases hl : popLoop S (getPriority t) (top :: rest) opd with
        | none => rw [hl] at h; cases h
        | some r =>
          obtain ⟨o1, d1⟩ := r
          rw [hl] at h
          simp only [Option.some.injEq, Prod.mk.injEq] at h
          have := popLoop_parens S _ hpr _ _ _ _ hl
          rw [← h.1]; simp [parens, hnp, this]

theorem closeParen_ok (S : Sem V) :
    ∀ (opt : List Tok) (opd : List V), 1 ≤ parens opt →
      closeParen S opt opd ≠ .panic ∧
      ∀ opt' opd', closeParen S opt opd = .ok (opt', opd') → parens opt' + 1 = parens opt := by
  intro opt
  induction opt with
  | nil => intro opd h; simp [parens] at h
  | cons top rest ih =>
    intro opd h
    unfold closeParen
    by_cases hb : isBeginParen top = true
    · simp only [hb, if_true]
      refine ⟨by simp, ?_⟩
      intro opt' opd' he
      simp only [Outcome.ok.injEq, Prod.mk.injEq] at he
      rw [← he.1]; simp [parens, hb]; omega
    · simp only [hb, Bool.false_eq_true, if_false]
      have hb' : isBeginParen top = false := by simpa using hb
      have hr : 1 ≤ parens rest := by simpa [parens, hb'] using h
      by_cases hf : (calculate S opd top).failed = true
      · simp only [hf, if_true]
        exact ⟨by simp, by intro _ _ he; cases he⟩
      · simp only [hf, Bool.false_eq_true, if_false]
        have := ih (calculate S opd top).opd hr
        refine ⟨this.1, ?_⟩
        intro opt' opd' he
        have := this.2 _ _ he
        simp [parens, hb']; omega

theorem finish_no_panic (S : Sem V) (st : St V) : finish S st ≠ .panic := by
  unfold finish
  split <;> simp

/-- effect of one token on the nesting depth -/
def depthAfter (d : Nat) (t : Tok) : Nat :=
  if isBeginParen t then d + 1 else if isEndParen t then d - 1 else d

theorem refTok_not_paren (S : Sem V) (v : V) :
    isBeginParen (S.refTok v) = false ∧ isEndParen (S.refTok v) = false := by
  simp [Sem.refTok, isBeginParen, isEndParen]

theorem range_not_paren {t : Tok} (h : t.sub = .range) : isBeginParen t = false ∧ isEndParen t = false := by
  simp [isBeginParen, isEndParen, h]

theorem begin_not_end {t : Tok} (h : isBeginParen t = true) : isEndParen t = false := by
  unfold isBeginParen at h
  simp only [Bool.and_eq_true, beq_iff_eq] at h
  simp [isEndParen, h.2]

/-- the steps of `parseToken` after reference resolution, on the resolved token -/
theorem parseToken_core (S : Sem V) (t0 t : Tok) (opd : List V) (opt : List Tok)
    (hres : (if t0.sub == .range then (S.resolve t0.val).map S.refTok else some t0) = some t)
    (hend : isEndParen t = true → 1 ≤ parens opt) :
    parseToken S t0 opd opt ≠ .panic ∧
    ∀ opd' opt', parseToken S t0 opd opt = .ok (opd', opt') → parens opt' = depthAfter (parens opt) t := by
  unfold parseToken
  simp only [hres]
  -- operators
  cases hr1 : (if isOperatorPrefixToken t = true then parseOperatorPrefixToken S opt opd t else some (opt, opd)) with
  | none => exact ⟨by simp, by intro _ _ he; cases he⟩
  | some r1 =>
    obtain ⟨opt1, opd1⟩ := r1
    have hp1 : parens opt1 = parens opt := by
      by_cases ho : isOperatorPrefixToken t = true
      · simp only [ho, if_true] at hr1
        exact parseOp_parens S opt opd t ho _ _ hr1
      · simp only [ho, Bool.false_eq_true, if_false, Option.some.injEq, Prod.mk.injEq] at hr1
        rw [← hr1.1]
    simp only
    by_cases hb : isBeginParen t = true
    · have he := begin_not_end hb
      simp only [hb, he, if_true, Bool.false_eq_true, if_false]
      cases hpf : applyPostfix S t opd1 with
      | none => exact ⟨by simp, by intro _ _ h; cases h⟩
      | some o =>
      refine ⟨by simp, ?_⟩
      intro opd' opt' heq
      simp only [Outcome.ok.injEq, Prod.mk.injEq] at heq
      rw [← heq.2]
      simp [parens, hb, depthAfter, hp1]; omega
    · have hb' : isBeginParen t = false := by simpa using hb
      simp only [hb', Bool.false_eq_true, if_false]
      by_cases he : isEndParen t = true
      · simp only [he, if_true]
        have hc := closeParen_ok S opt1 opd1 (by rw [hp1]; exact hend he)
        cases hcp : closeParen S opt1 opd1 with
        | panic => exact absurd hcp hc.1
        | err => exact ⟨by simp, by intro _ _ h; cases h⟩
        | ok r2 =>
          obtain ⟨opt2, opd2⟩ := r2
          simp only
          cases hpf : applyPostfix S t opd2 with
          | none => exact ⟨by simp, by intro _ _ h; cases h⟩
          | some o =>
          refine ⟨by simp, ?_⟩
          intro opd' opt' heq
          simp only [Outcome.ok.injEq, Prod.mk.injEq] at heq
          have := hc.2 _ _ hcp
          rw [← heq.2]
          simp [depthAfter, hb', he]; omega
      · have he' : isEndParen t = false := by simpa using he
        simp only [he', Bool.false_eq_true, if_false]
        cases hpf : applyPostfix S t opd1 with
        | none => exact ⟨by simp, by intro _ _ h; cases h⟩
        | some o =>
        refine ⟨by simp, ?_⟩
        intro opd' opt' heq
        simp only [Outcome.ok.injEq, Prod.mk.injEq] at heq
        rw [← heq.2]
        simp [depthAfter, hb', he', hp1]

theorem parseToken_ok (S : Sem V) (t0 : Tok) (opd : List V) (opt : List Tok)
    (hend : isEndParen t0 = true → 1 ≤ parens opt) :
    parseToken S t0 opd opt ≠ .panic ∧
    ∀ opd' opt', parseToken S t0 opd opt = .ok (opd', opt') → parens opt' = depthAfter (parens opt) t0 := by
  by_cases hr : t0.sub = .range
  · have hnp := range_not_paren hr
    cases hv : S.resolve t0.val with
    | none =>
      unfold parseToken
      simp [hr, hv]
    | some v =>
      have hres : (if t0.sub == .range then (S.resolve t0.val).map S.refTok else some t0) = some (S.refTok v) := by
        simp [hr, hv]
      have hrt := refTok_not_paren S v
      have := parseToken_core S t0 (S.refTok v) opd opt hres (by intro h; rw [hrt.2] at h; cases h)
      refine ⟨this.1, ?_⟩
      intro opd' opt' he
      rw [this.2 _ _ he]
      simp [depthAfter, hrt.1, hrt.2, hnp.1, hnp.2]
  · have hres : (if t0.sub == .range then (S.resolve t0.val).map S.refTok else some t0) = some t0 := by
      simp [hr]
    exact parseToken_core S t0 t0 opd opt hres hend

/-- one loop iteration on a non-function token with an empty function stack -/
theorem step_nofunc (S : Sem V) (st : St V) (t n : Tok) (hopf : st.opf = []) (hty : t.ty ≠ .function) :
    step S st t n = (match parseToken S t st.opd st.opt with
      | .ok (opd, opt) => .ok { st with opd := opd, opt := opt }
      | .err => .err
      | .panic => .panic) := by
  have h1 : isFuncStart t = false := by simp [isFuncStart, hty]
  have h2 : isFuncStop t = false := by simp [isFuncStop, hty]
  unfold step
  simp only [hopf, List.isEmpty_nil, if_true]
  cases parseToken S t st.opd st.opt with
  | err => rfl
  | panic => rfl
  | ok r =>
    obtain ⟨opd, opt⟩ := r
    simp [stepTail, h1, h2, hopf]

theorem run_nofunc (S : Sem V) :
    ∀ (toks : List Tok) (st : St V) (d : Nat), st.opf = [] → (∀ t ∈ toks, t.ty ≠ .function) →
      balanced d toks = true → parens st.opt = d → run S st toks ≠ .panic := by
  intro toks
  induction toks with
  | nil => intro st d _ _ _ _; exact finish_no_panic S st
  | cons t ts ih =>
    intro st d hopf hty hbal hd
    unfold run
    rw [step_nofunc S st t _ hopf (hty t (by simp))]
    have hend : isEndParen t = true → 1 ≤ parens st.opt := by
      intro he
      unfold balanced at hbal
      by_cases hb : isBeginParen t = true
      · rw [begin_not_end hb] at he; cases he
      · simp only [hb, Bool.false_eq_true, if_false, he, if_true] at hbal
        cases d with
        | zero => simp at hbal
        | succ d' => omega
    have hp := parseToken_ok S t st.opd st.opt hend
    cases hpt : parseToken S t st.opd st.opt with
    | panic => exact absurd hpt hp.1
    | err => simp
    | ok r =>
      obtain ⟨opd, opt⟩ := r
      simp only
      have hd' := hp.2 _ _ hpt
      apply ih _ (depthAfter d t) (by simpa using hopf) (fun x hx => hty x (by simp [hx]))
      · unfold balanced at hbal
        unfold depthAfter
        by_cases hb : isBeginParen t = true
        · simpa [hb] using hbal
        · simp only [hb, Bool.false_eq_true, if_false] at hbal ⊢
          by_cases he : isEndParen t = true
          · simp only [he, if_true] at hbal ⊢
            cases d with
            | zero => simp at hbal
            | succ d' => simpa using hbal
          · simpa [he] using hbal
      · simpa [hd] using hd'

end XlModel.Lemmas.CalcTotalStack
