import XlModel.Cfb
namespace XlModel.Cfb
end XlModel.Cfb
