/-
Helper lemmas for the compound-file model (C13), part 1: arithmetic of
`locate`, chunking, chain segments.
-/
import XlModel.Cfb

namespace XlModel.Cfb
open XlModel.Facts.C13

/-- unfold every extracted constant to its numeral -/
macro "cfb_consts" : tactic => `(tactic|
  simp only [shr, shl, locCutoff, locMiniAdd, locMiniShift, locSecAdd, locSecShift, locDirAdd, locDirShift,
    locMssAdd, locMssShift, locMfAdd, locMfShift, locFatAdd, locFatShift, locDifatHdr, locDifatSub, locDifatDiv,
    locLoopAdd, locLoopShift, locLoopHdr, locLoopSub, locLoopDiv, locHeaderSectors, locRootSizeShift, locTotAdd,
    locTotShift, msatHdr, msatFirst, msatPer, chCutoffBig, chSecAdd, chSecShift, chMssAdd, chMssShift, chPadMask,
    chCutoffMini, chMiniAdd, chMiniShift, dirEntShift, wrLenShift, wrCutoffLog, wrCutoffBig, wrPosShift, wrSecMask,
    wrCutoffMini, wrMiniMask, encPrefix, encBlock, decOffset, decBlock, decPrefix, wordsPerSec,
    difSect, endOfChain, fatSect, Nat.reducePow, Nat.reduceAdd, Nat.reduceDiv, Nat.reduceSub, Nat.reduceMul] at *)

/-! ### locate -/

theorem difatInit_eq_loop (F : Nat) : difatInit F = difatLoop F := by
  unfold difatInit difatLoop ceilDivSub
  cfb_consts
  split <;> split <;> omega

theorem difatLoop_mono (F : Nat) : difatLoop F ≤ difatLoop (F + 1) := by
  unfold difatLoop ceilDivSub
  cfb_consts
  split <;> split <;> omega

/-- loop condition of `locate` -/
def locCond (s F D : Nat) : Prop := shr (s + F + D + locLoopAdd) locLoopShift > F

theorem locLoop_spec (s : Nat) : ∀ fuel F D F' D', D = difatLoop F →
    locLoop s fuel F D = some (F', D') →
    F ≤ F' ∧ D' = difatLoop F' ∧ ¬ locCond s F' D' ∧
      (F' = F ∨ (F < F' ∧ locCond s (F' - 1) (difatLoop (F' - 1)))) := by
  intro fuel
  induction fuel with
  | zero => intro F D F' D' _ h; simp [locLoop] at h
  | succ n ih =>
    intro F D F' D' hD h
    unfold locLoop at h
    by_cases hc : shr (s + F + D + locLoopAdd) locLoopShift > F
    · rw [if_pos hc] at h
      have := ih (F + 1) (difatLoop (F + 1)) F' D' rfl h
      obtain ⟨h1, h2, h3, h4⟩ := this
      refine ⟨by omega, h2, h3, Or.inr ⟨by omega, ?_⟩⟩
      rcases h4 with h4 | ⟨h4, h5⟩
      · subst h4
        simp only [Nat.add_sub_cancel]
        rw [← hD]; exact hc
      · exact h5
    · rw [if_neg hc] at h
      simp only [Option.some.injEq, Prod.mk.injEq] at h
      obtain ⟨rfl, rfl⟩ := h
      exact ⟨Nat.le_refl _, hD, hc, Or.inl rfl⟩

theorem locLoop_terminates (s : Nat) : ∀ fuel F D, D = difatLoop F → s + 2 ≤ F + fuel → F ≤ s + 1 →
    ∃ r, locLoop s fuel F D = some r := by
  intro fuel
  induction fuel with
  | zero => intro F D _ h1 h2; omega
  | succ n ih =>
    intro F D hD h1 h2
    unfold locLoop
    by_cases hc : shr (s + F + D + locLoopAdd) locLoopShift > F
    · rw [if_pos hc]
      apply ih (F + 1) _ rfl (by omega)
      -- the condition is false at F = s + 1
      by_cases hF : F = s + 1
      · exfalso
        subst hF hD
        unfold difatLoop ceilDivSub at hc
        cfb_consts
        split at hc <;> omega
      · omega
    · rw [if_neg hc]; exact ⟨_, rfl⟩

/-- sectors after the header, as laid out by `write` -/
def Loc.sectors (l : Loc) : Nat :=
  l.difat + l.fat + l.minifat + l.dir + l.files + shr (l.mini + locTotAdd) locTotShift

theorem locate_some (sizes : List Nat) : ∃ l, locate sizes = some l := by
  unfold locate
  have h := locLoop_terminates (locSectors sizes) (locSectors sizes + 2)
    (shr (locSectors sizes + locFatAdd) locFatShift) (difatInit (shr (locSectors sizes + locFatAdd) locFatShift))
    (difatInit_eq_loop _) (by omega) (by cfb_consts; omega)
  obtain ⟨⟨F, D⟩, hr⟩ := h
  simp only [hr]
  exact ⟨_, rfl⟩

/-- everything `locate` guarantees, for every list of stream sizes -/
theorem locate_spec {sizes : List Nat} {l : Loc} (h : locate sizes = some l) :
    l.mini = sumMini sizes ∧ l.files = sumBig sizes ∧
    l.dir = shr (sizes.length + 1 + locDirAdd) locDirShift ∧
    l.minifat = shr (sumMini sizes + locMfAdd) locMfShift ∧
    l.difat = difatLoop l.fat ∧
    l.rootStart = locHeaderSectors + l.difat + l.fat + l.minifat + l.dir + l.files ∧
    l.total = 1 + l.sectors ∧
    l.rootSize = shl l.mini locRootSizeShift ∧
    l.sectors ≤ l.fat * 128 ∧ l.fat * 128 < l.sectors + 128 := by
  unfold locate at h
  dsimp only at h
  generalize hs : locSectors sizes = s at h
  split at h
  · simp at h
  · rename_i F D hl
    simp only [Option.some.injEq] at h
    have sp := locLoop_spec s (s + 2) _ _ F D (difatInit_eq_loop _) hl
    generalize hF0 : shr (s + locFatAdd) locFatShift = F0 at sp hl
    obtain ⟨h1, h2, h3, h4⟩ := sp
    subst h
    unfold Loc.sectors
    refine ⟨rfl, rfl, rfl, rfl, h2, rfl, ?_, rfl, ?_, ?_⟩
    · cfb_consts; omega
    · -- covers: from the negated loop condition
      unfold locCond at h3
      unfold locSectors at hs
      cfb_consts
      omega
    · -- exact: either no iteration, or the condition held one step before
      unfold locSectors at hs
      rcases h4 with h4 | ⟨h4, h5⟩
      · subst h4
        cfb_consts
        omega
      · unfold locCond at h5
        have hm := difatLoop_mono (F - 1)
        have : F - 1 + 1 = F := by omega
        rw [this] at hm
        rw [← h2] at hm
        cfb_consts
        omega

theorem difat_cover (F : Nat) :
    F ≤ msatHdr + msatPer * difatLoop F ∧ (0 < difatLoop F → msatHdr + msatPer * (difatLoop F - 1) < F) := by
  unfold difatLoop ceilDivSub
  cfb_consts
  split <;> omega

/-! ### Encrypt / standardDecrypt framing -/

theorem range8 : List.range 8 = [0, 1, 2, 3, 4, 5, 6, 7] := by decide

theorem le64_length (n : Nat) : (le64 n).length = 8 := by simp [le64]

theorem unle64_le64 (n : Nat) (h : n < 2 ^ 64) : unle64 (le64 n) = n := by
  simp only [le64, range8, List.map, unle64, Nat.reducePow] at *
  omega

/-- what the cipher is assumed to satisfy: a length-preserving bijection on 16-byte blocks -/
def Cipher.Lawful (c : Cipher) : Prop :=
  ∀ b : List Byte, b.length = 16 → c.dec (c.enc b) = b ∧ (c.enc b).length = 16

def zeroPad16 (l : List Byte) : List Byte := l ++ List.replicate ((16 - l.length % 16) % 16) 0

theorem zeroPad16_short (l : List Byte) (h0 : l ≠ []) (h : l.length ≤ 16) :
    l ++ List.replicate (16 - l.length) 0 = zeroPad16 l := by
  unfold zeroPad16
  have : 0 < l.length := List.length_pos_iff.mpr h0
  congr 2
  by_cases h16 : l.length = 16
  · omega
  · have : l.length % 16 = l.length := Nat.mod_eq_of_lt (by omega)
    omega

theorem zeroPad16_cons_block (l : List Byte) (h : 16 < l.length) :
    l.take 16 ++ zeroPad16 (l.drop 16) = zeroPad16 l := by
  unfold zeroPad16
  rw [← List.append_assoc, List.take_append_drop]
  congr 2
  simp only [List.length_drop]
  omega

theorem encryptBlocks_length (c : Cipher) (hc : c.Lawful) : ∀ f (l : List Byte), l.length ≤ f →
    (encryptBlocks c f l).length = (zeroPad16 l).length := by
  intro f
  induction f with
  | zero =>
    intro l h
    have : l = [] := List.eq_nil_of_length_eq_zero (by omega)
    subst this; simp [encryptBlocks, zeroPad16]
  | succ n ih =>
    intro l h
    unfold encryptBlocks
    by_cases he : l = []
    · subst he; simp [zeroPad16]
    · have hne : l.isEmpty = false := by simpa using he
      simp only [hne, Bool.false_eq_true, if_false, encBlock]
      have hpos : 0 < l.length := List.length_pos_iff.mpr he
      have hlen : (l.take 16 ++ List.replicate (16 - (l.take 16).length) 0).length = 16 := by
        simp only [List.length_append, List.length_take, List.length_replicate]; omega
      rw [List.length_append, (hc _ hlen).2, ih (l.drop 16) (by simp only [List.length_drop]; omega)]
      unfold zeroPad16
      simp only [List.length_append, List.length_replicate, List.length_drop]
      omega

theorem decrypt_encryptBlocks (c : Cipher) (hc : c.Lawful) : ∀ f (l : List Byte), l.length ≤ f →
    ∀ f2, (encryptBlocks c f l).length ≤ f2 →
    decryptBlocks c f2 (encryptBlocks c f l) = some (zeroPad16 l) := by
  intro f
  induction f with
  | zero =>
    intro l h f2 _
    have : l = [] := List.eq_nil_of_length_eq_zero (by omega)
    subst this
    cases f2 <;> simp [encryptBlocks, decryptBlocks, zeroPad16]
  | succ n ih =>
    intro l h f2 h2
    by_cases he : l = []
    · subst he
      cases f2 <;> simp [encryptBlocks, decryptBlocks, zeroPad16]
    · have hne : l.isEmpty = false := by simpa using he
      have hpos : 0 < l.length := List.length_pos_iff.mpr he
      have hlen : (l.take 16 ++ List.replicate (16 - (l.take 16).length) 0).length = 16 := by
        simp only [List.length_append, List.length_take, List.length_replicate]; omega
      have hE : encryptBlocks c (n + 1) l =
          c.enc (l.take 16 ++ List.replicate (16 - (l.take 16).length) 0) ++ encryptBlocks c n (l.drop 16) := by
        rw [encryptBlocks]; simp only [hne, Bool.false_eq_true, if_false, encBlock]
      rw [hE] at h2 ⊢
      obtain ⟨hd, hl16⟩ := hc _ hlen
      cases f2 with
      | zero => simp only [List.length_append] at h2; omega
      | succ m =>
        rw [decryptBlocks]
        have hne2 : (c.enc (l.take 16 ++ List.replicate (16 - (l.take 16).length) 0) ++
            encryptBlocks c n (l.drop 16)).isEmpty = false := by
          rw [List.isEmpty_eq_false_iff]; intro hh
          have := congrArg List.length hh
          simp only [List.length_append, List.length_nil] at this; omega
        simp only [hne2, Bool.false_eq_true, if_false, decBlock]
        rw [List.take_left' hl16, List.drop_left' hl16]
        simp only [hl16, Nat.lt_irrefl, if_false]
        have hrec := ih (l.drop 16) (by simp only [List.length_drop]; omega) m
          (by simp only [List.length_append] at h2; omega)
        rw [hrec, hd]
        simp only [Option.some.injEq]
        by_cases hle : l.length ≤ 16
        · have hd0 : l.drop 16 = [] := List.drop_eq_nil_of_le hle
          have ht : l.take 16 = l := List.take_of_length_le hle
          rw [hd0, ht]
          simp only [zeroPad16, List.length_nil, Nat.zero_mod, Nat.sub_zero, Nat.mod_self,
            List.replicate_zero, List.append_nil]
          exact zeroPad16_short l he hle
        · have ht : (l.take 16).length = 16 := by simp only [List.length_take]; omega
          rw [ht]
          simp only [Nat.sub_self, List.replicate_zero, List.append_nil]
          exact zeroPad16_cons_block l (by omega)

theorem zeroPad16_take (l : List Byte) : (zeroPad16 l).take l.length = l := by
  unfold zeroPad16; simp

theorem standardDecrypt_encryptedPackage (c : Cipher) (hc : c.Lawful) (raw : List Byte)
    (hn : raw.length < 2 ^ 64) : standardDecryptPkg c (encryptedPackage c raw) = .ok raw := by
  have ht : decTruncates = true := rfl
  have hpre : (le64 raw.length).take encPrefix = le64 raw.length := by
    apply List.take_of_length_le; rw [le64_length]; decide
  unfold standardDecryptPkg encryptedPackage
  rw [hpre]
  have hlen8 := le64_length raw.length
  have h1 : ¬ (le64 raw.length ++ encryptBlocks c raw.length raw).length < decOffset := by
    simp only [List.length_append, hlen8, decOffset]; omega
  rw [if_neg h1]
  have hdrop : (le64 raw.length ++ encryptBlocks c raw.length raw).drop decOffset
      = encryptBlocks c raw.length raw := List.drop_left' hlen8
  have htake : (le64 raw.length ++ encryptBlocks c raw.length raw).take decPrefix = le64 raw.length :=
    List.take_left' hlen8
  rw [hdrop, decrypt_encryptBlocks c hc raw.length raw (Nat.le_refl _) _
    (by simp only [List.length_append]; omega)]
  simp only [ht, if_true, htake, unle64_le64 _ hn]
  split
  · rw [zeroPad16_take]
  · rename_i hh
    have : (zeroPad16 raw).length = raw.length := by
      have : raw.length ≤ (zeroPad16 raw).length := by unfold zeroPad16; simp
      omega
    congr 1
    unfold zeroPad16 at this ⊢
    simp only [List.length_append, List.length_replicate] at this
    have h0 : (16 - raw.length % 16) % 16 = 0 := by omega
    rw [h0]; simp

end XlModel.Cfb
