/-
Helper lemmas for the compound-file model (C13), part 3: the reference reader
recovers every stream from the image produced by `write`.
-/
import XlModel.Lemmas.CfbRead

namespace XlModel.Cfb
open XlModel.Facts.C13

/-! ### chunking -/

/-- `k` pieces of `n` elements -/
def pieces {α} (n : Nat) : Nat → List α → List (List α)
  | 0, _ => []
  | k + 1, l => l.take n :: pieces n k (l.drop n)

theorem chunksAux_eq_pieces {α} (n : Nat) (hn : 0 < n) : ∀ (k fuel : Nat) (l : List α),
    l.length = n * k → k ≤ fuel → chunksAux n fuel l = pieces n k l := by
  intro k
  induction k with
  | zero =>
    intro fuel l hl _
    have : l = [] := List.eq_nil_of_length_eq_zero (by simpa using hl)
    subst this
    cases fuel <;> simp [chunksAux, pieces]
  | succ m ih =>
    intro fuel l hl hf
    obtain ⟨f, rfl⟩ : ∃ f, fuel = f + 1 := ⟨fuel - 1, by omega⟩
    have hpos : 0 < l.length := by rw [hl]; exact Nat.mul_pos hn (Nat.succ_pos m)
    have hne : l.isEmpty = false := by
      cases l with
      | nil => simp at hpos
      | cons _ _ => rfl
    simp only [chunksAux, hne, Bool.false_eq_true, if_false, pieces]
    rw [ih f (l.drop n) (by simp only [List.length_drop, hl, Nat.mul_succ]; omega) (by omega)]

theorem chunks_eq_pieces {α} (n k : Nat) (hn : 0 < n) (l : List α) (hl : l.length = n * k) :
    chunks n l = pieces n k l := by
  unfold chunks
  apply chunksAux_eq_pieces n hn k _ l hl
  rw [hl]
  exact Nat.le_mul_of_pos_left k hn

theorem pieces_length {α} (n : Nat) : ∀ (k : Nat) (l : List α), (pieces n k l).length = k := by
  intro k
  induction k with
  | zero => intro _; rfl
  | succ m ih => intro l; simp [pieces, ih]

theorem pieces_flatten {α} (n : Nat) : ∀ (k : Nat) (l : List α), l.length = n * k → (pieces n k l).flatten = l := by
  intro k
  induction k with
  | zero =>
    intro l hl
    have : l = [] := List.eq_nil_of_length_eq_zero (by simpa using hl)
    subst this; rfl
  | succ m ih =>
    intro l hl
    simp only [pieces, List.flatten_cons]
    rw [ih (l.drop n) (by simp only [List.length_drop, hl, Nat.mul_succ]; omega), List.take_append_drop]

theorem pieces_all_length {α} (n : Nat) : ∀ (k : Nat) (l : List α), l.length = n * k →
    ∀ p ∈ pieces n k l, p.length = n := by
  intro k
  induction k with
  | zero => intro l _ p hp; simp [pieces] at hp
  | succ m ih =>
    intro l hl p hp
    simp only [pieces, List.mem_cons] at hp
    rcases hp with rfl | hp
    · simp only [List.length_take, hl, Nat.mul_succ]; omega
    · exact ih (l.drop n) (by simp only [List.length_drop, hl, Nat.mul_succ]; omega) p hp

theorem pieces_append {α} (n : Nat) : ∀ (a b : Nat) (x y : List α), x.length = n * a →
    pieces n (a + b) (x ++ y) = pieces n a x ++ pieces n b y := by
  intro a
  induction a with
  | zero =>
    intro b x y hx
    have : x = [] := List.eq_nil_of_length_eq_zero (by simpa using hx)
    subst this; simp [pieces]
  | succ m ih =>
    intro b x y hx
    have hle : n ≤ x.length := by rw [hx, Nat.mul_succ]; omega
    have e : m + 1 + b = (m + b) + 1 := by omega
    rw [e]
    simp only [pieces, List.cons_append]
    rw [List.take_append_of_le_length hle, List.drop_append_of_le_length hle,
      ih b (x.drop n) y (by simp only [List.length_drop, hx, Nat.mul_succ]; omega)]

/-! ### reading consecutive sectors -/

theorem mapCat_parts {β} (get : Nat → Except RErr (List β)) : ∀ (parts : List (List β)) (st : Nat),
    (∀ i (h : i < parts.length), get (st + i) = .ok parts[i]) →
    mapCat get (List.range' st parts.length) = .ok parts.flatten := by
  intro parts
  induction parts with
  | nil => intro _ _; rfl
  | cons p r ih =>
    intro st h
    have h0 := h 0 (by simp)
    simp only [Nat.add_zero, List.getElem_cons_zero] at h0
    have hr := ih (st + 1) (fun i hi => by
      have := h (i + 1) (by simp; omega)
      simp only [List.getElem_cons_succ] at this
      rw [← this]; congr 1; omega)
    simp only [List.length_cons, List.range'_succ, mapCat, h0, hr, List.flatten_cons]

theorem getElem?_mid {α} (pre mid post : List α) (i : Nat) (h : i < mid.length) :
    (pre ++ mid ++ post)[pre.length + i]? = some mid[i] := by
  rw [List.append_assoc, List.getElem?_append_right (by omega)]
  simp only [Nat.add_sub_cancel_left]
  rw [List.getElem?_append_left h, List.getElem?_eq_getElem h]

/-- data sectors laid out consecutively are read back as their concatenation -/
theorem mapCat_secData (secs pre post : List Sector) (parts : List (List Byte))
    (h : secs = pre ++ parts.map Sector.data ++ post) :
    mapCat (secData secs) (List.range' pre.length parts.length) = .ok parts.flatten := by
  apply mapCat_parts
  intro i hi
  have := getElem?_mid pre (parts.map Sector.data) post i (by simpa using hi)
  rw [← h] at this
  simp only [secData, this, List.getElem_map]

theorem mapCat_secDir (secs pre post : List Sector) (parts : List (List (Option DirEnt)))
    (h : secs = pre ++ parts.map Sector.dir ++ post) :
    mapCat (secDir secs) (List.range' pre.length parts.length) = .ok parts.flatten := by
  apply mapCat_parts
  intro i hi
  have := getElem?_mid pre (parts.map Sector.dir) post i (by simpa using hi)
  rw [← h] at this
  simp only [secDir, this, List.getElem_map]

theorem secWords_mid (secs pre post : List Sector) (parts : List (List Int))
    (h : secs = pre ++ parts.map Sector.words ++ post) (hl : ∀ p ∈ parts, p.length = 128)
    (i : Nat) (hi : i < parts.length) : secWords secs (pre.length + i) = .ok parts[i] := by
  have := getElem?_mid pre (parts.map Sector.words) post i (by simpa using hi)
  rw [← h] at this
  simp only [secWords, this, List.getElem_map, hl parts[i] (List.getElem_mem hi), if_true]

theorem mapCat_secWords (secs pre post : List Sector) (parts : List (List Int))
    (h : secs = pre ++ parts.map Sector.words ++ post) (hl : ∀ p ∈ parts, p.length = 128) :
    mapCat (secWords secs) (List.range' pre.length parts.length) = .ok parts.flatten := by
  apply mapCat_parts
  intro i hi
  exact secWords_mid secs pre post parts h hl i hi

/-- mini sectors of the container -/
theorem mapCat_miniSector (c : List Byte) : ∀ (n st : Nat) (pre mid post : List Byte),
    c = pre ++ mid ++ post → pre.length = 64 * st → mid.length = 64 * n →
    mapCat (miniSector c) (List.range' st n) = .ok mid := by
  intro n
  induction n with
  | zero =>
    intro st pre mid post _ _ hm
    have : mid = [] := List.eq_nil_of_length_eq_zero (by simpa using hm)
    subst this; rfl
  | succ m ih =>
    intro st pre mid post hc hp hm
    have hlen : 64 * st + 64 ≤ c.length := by
      rw [hc]; simp only [List.length_append]; omega
    have h1 : miniSector c st = .ok (mid.take 64) := by
      unfold miniSector
      rw [if_pos hlen, hc, ← hp, List.append_assoc, List.drop_left,
        List.take_append_of_le_length (by omega)]
    have hr := ih (st + 1) (pre ++ mid.take 64) (mid.drop 64) post
      (by rw [hc]; simp only [List.append_assoc, List.take_append_drop])
      (by simp only [List.length_append, List.length_take]; omega)
      (by simp only [List.length_drop]; omega)
    simp only [List.range'_succ, mapCat, h1, hr, List.take_append_drop]

/-! ### padding -/

theorem padZero_take (m : Nat) (c : List Byte) : (padZero m c).take c.length = c := by
  unfold padZero; simp

theorem padZero_big_length (c : List Byte) (h : wrCutoffBig ≤ c.length) :
    (padZero wrSecMask c).length = (wrSecMask + 1) * chBig c.length := by
  unfold padZero chBig
  simp only [List.length_append, List.length_replicate]
  cfb_consts
  rw [if_neg (by omega), if_neg (by omega)]
  omega

theorem padZero_mini_length (c : List Byte) (h0 : 0 < c.length) (h : c.length < wrCutoffMini) :
    (padZero wrMiniMask c).length = 64 * chMini c.length := by
  unfold padZero chMini
  simp only [List.length_append, List.length_replicate]
  cfb_consts
  rw [if_neg (by omega), if_neg (by omega)]
  omega

/-! ### the streams -/

theorem stream_start_aux (sz b m : Nat) :
    (chCutoffBig ≤ sz → streamStart sz b m = b) ∧ (0 < sz → sz < chCutoffMini → streamStart sz b m = m) := by
  have hs : chMiniStartStored = true := rfl
  constructor
  · intro h
    have := (chBig_capacity sz h).1
    unfold streamStart
    have : chBig sz ≠ 0 := by
      intro h0; rw [h0] at this
      simp only [chCutoffBig] at h; omega
    rw [if_pos this]
  · intro h0 h
    have hc := (chMini_capacity sz h0 h).1
    have hm : chMini sz ≠ 0 := by intro hz; rw [hz] at hc; omega
    have hb : ¬ (chBig sz ≠ 0) := by
      unfold chBig; simp only [chCutoffBig, chCutoffMini] at *
      rw [if_neg (by omega), if_pos (by omega)]; simp
    unfold streamStart
    rw [if_neg hb, if_pos hm, hs]; rfl

def sizesOf (streams : List Stream) : List Nat := streams.map (·.content.length)

/-- data sectors of the streams at or above the cutoff, in order -/
def bigSecs : List Stream → List Sector
  | [] => []
  | s :: r =>
    (if s.content.length ≥ wrCutoffBig then
        (chunks (wrSecMask + 1) (padZero wrSecMask s.content)).map Sector.data else []) ++ bigSecs r

theorem readStreams_nones (secs : List Sector) (fatT mfT : List Int) (md : List Byte) (c : Nat) :
    ∀ k, readStreams secs fatT mfT md c (List.replicate k none) = .ok [] := by
  intro k
  induction k with
  | zero => rfl
  | succ m ih => simp only [List.replicate_succ, readStreams, ih]

theorem big_chunks (c : List Byte) (h : wrCutoffBig ≤ c.length) :
    chunks (wrSecMask + 1) (padZero wrSecMask c) = pieces (wrSecMask + 1) (chBig c.length) (padZero wrSecMask c) :=
  chunks_eq_pieces _ _ (by simp only [wrSecMask]; omega) _ (padZero_big_length c h)

/-- reading the stream described by the head entry, given where its chain, data sectors and mini
data sit in the tables, the sector list and the mini stream -/
theorem readStream_head (secs : List Sector) (fatT mfT : List Int) (md : List Byte)
    (s : Stream) (off moff : Nat) (rt : Int)
    (preF postF preM postM : List Int) (preS postS : List Sector) (preD postD : List Byte)
    (hF : fatT = preF ++ chainSeg (chBig s.content.length) off ++ postF) (hFl : preF.length = off)
    (hM : mfT = preM ++ chainSeg (chMini s.content.length) moff ++ postM) (hMl : preM.length = moff)
    (hS : secs = preS ++ (if s.content.length ≥ wrCutoffBig then
        (chunks (wrSecMask + 1) (padZero wrSecMask s.content)).map Sector.data else []) ++ postS)
    (hSl : preS.length = off)
    (hD : md = preD ++ (if s.content.length > 0 ∧ s.content.length < wrCutoffMini then
        padZero wrMiniMask s.content else []) ++ postD)
    (hDl : preD.length = 64 * moff) :
    readStream secs fatT mfT md 4096
      { name := s.name, typ := 2, color := 1, left := -1, right := rt, child := -1,
        start := Int.ofNat (streamStart s.content.length off moff), size := s.content.length } = .ok s := by
  obtain ⟨nm, c⟩ := s
  simp only at *
  unfold readStream
  simp only [Int.ofNat_eq_natCast]
  by_cases h0 : c.length = 0
  · have : c = [] := List.eq_nil_of_length_eq_zero h0
    subst this; simp
  · rw [if_neg h0]
    have hpos : 0 < c.length := Nat.pos_of_ne_zero h0
    by_cases hlt : c.length < 4096
    · -- mini stream
      rw [if_pos hlt]
      have hst := (stream_start_aux c.length off moff).2 hpos (by simpa [chCutoffMini] using hlt)
      rw [hst]
      have hn : 0 < chMini c.length := by
        have := (chMini_capacity c.length hpos (by simpa [chCutoffMini] using hlt)).1; omega
      subst hMl
      have hfol := follow_chainSeg (chMini c.length) preM postM (mfT.length + 1) hn
        (by rw [hM]; simp only [List.length_append, chainSeg_length]; omega)
      rw [← hM] at hfol
      rw [hfol]
      have hcond : c.length > 0 ∧ c.length < wrCutoffMini := ⟨hpos, by simpa [wrCutoffMini] using hlt⟩
      rw [if_pos hcond] at hD
      have hmc := mapCat_miniSector md (chMini c.length) preM.length preD (padZero wrMiniMask c) postD hD hDl
        (padZero_mini_length c hpos hcond.2)
      simp only [hmc]
      have hle : c.length ≤ (padZero wrMiniMask c).length := by unfold padZero; simp
      rw [if_pos hle, padZero_take]
    · -- stream at or above the cutoff
      rw [if_neg hlt]
      have hge : wrCutoffBig ≤ c.length := by simp only [wrCutoffBig]; omega
      have hst := (stream_start_aux c.length off moff).1 (by simpa [chCutoffBig, wrCutoffBig] using hge)
      rw [hst]
      have hn : 0 < chBig c.length := by
        have := (chBig_capacity c.length (by simpa [chCutoffBig, wrCutoffBig] using hge)).1
        simp only [wrCutoffBig] at hge; omega
      subst hFl
      have hfol := follow_chainSeg (chBig c.length) preF postF (fatT.length + 1) hn
        (by rw [hF]; simp only [List.length_append, chainSeg_length]; omega)
      rw [← hF] at hfol
      rw [hfol]
      rw [if_pos hge, big_chunks c hge] at hS
      have hsd := mapCat_secData secs preS postS _ hS
      rw [pieces_length, hSl] at hsd
      rw [pieces_flatten _ _ _ (padZero_big_length c hge)] at hsd
      simp only [hsd]
      have hle : c.length ≤ (padZero wrSecMask c).length := by unfold padZero; simp
      rw [if_pos hle, padZero_take]

theorem chBig_small (sz : Nat) (h : ¬ sz ≥ wrCutoffBig) : chBig sz = 0 := by
  unfold chBig; cfb_consts
  split
  · rfl
  · rw [if_pos (by omega)]

theorem chMini_zero_of (sz : Nat) (h : ¬ (sz > 0 ∧ sz < wrCutoffMini)) : chMini sz = 0 := by
  unfold chMini; cfb_consts
  split
  · rfl
  · rw [if_pos (by omega)]

/-- every stream entry of the directory is read back as the stream that was put in -/
theorem readStreams_ok (secs : List Sector) (fatT mfT : List Int) (md : List Byte) (np : Nat) :
    ∀ (streams : List Stream) (i off moff k : Nat) (preF postF preM postM : List Int)
      (preS postS : List Sector) (preD postD : List Byte),
    fatT = preF ++ chainWords chBig (sizesOf streams) off ++ postF → preF.length = off →
    mfT = preM ++ chainWords chMini (sizesOf streams) moff ++ postM → preM.length = moff →
    secs = preS ++ bigSecs streams ++ postS → preS.length = off →
    md = preD ++ miniData streams ++ postD → preD.length = 64 * moff →
    readStreams secs fatT mfT md 4096
      ((streamEnts np i streams (zip3Starts (sizesOf streams) (chainStarts chBig (sizesOf streams) off)
        (chainStarts chMini (sizesOf streams) moff))).map some ++ List.replicate k none) = .ok streams := by
  intro streams
  induction streams with
  | nil =>
    intro i off moff k _ _ _ _ _ _ _ _ _ _ _ _ _ _ _ _
    simp only [sizesOf, List.map_nil, zip3Starts, streamEnts, List.nil_append]
    exact readStreams_nones _ _ _ _ _ k
  | cons s r ih =>
    intro i off moff k preF postF preM postM preS postS preD postD hF hFl hM hMl hS hSl hD hDl
    have hsz : sizesOf (s :: r) = s.content.length :: sizesOf r := rfl
    rw [hsz] at hF hM ⊢
    simp only [chainWords] at hF hM
    simp only [bigSecs] at hS
    simp only [chainStarts, zip3Starts, streamEnts, List.map_cons, List.cons_append, readStreams, if_true]
    -- the mini data of the head stream
    have hD' : md = preD ++ (if s.content.length > 0 ∧ s.content.length < wrCutoffMini then
        padZero wrMiniMask s.content else []) ++ (miniData r ++ postD) := by
      rw [hD]; simp only [miniData]
      split <;> simp only [List.append_assoc, List.nil_append]
    have hhead := readStream_head secs fatT mfT md s off moff
      (if i + 1 < np then Int.ofNat (i + 1) else -1) preF
      (chainWords chBig (sizesOf r) (off + chBig s.content.length) ++ postF) preM
      (chainWords chMini (sizesOf r) (moff + chMini s.content.length) ++ postM) preS (bigSecs r ++ postS)
      preD (miniData r ++ postD)
      (by rw [hF]; simp only [List.append_assoc]) hFl (by rw [hM]; simp only [List.append_assoc]) hMl
      (by rw [hS]; simp only [List.append_assoc]) hSl hD' hDl
    -- the remaining streams
    have hrest := ih (i + 1) (off + chBig s.content.length) (moff + chMini s.content.length) k
      (preF ++ chainSeg (chBig s.content.length) off) postF
      (preM ++ chainSeg (chMini s.content.length) moff) postM
      (preS ++ (if s.content.length ≥ wrCutoffBig then
        (chunks (wrSecMask + 1) (padZero wrSecMask s.content)).map Sector.data else [])) postS
      (preD ++ (if s.content.length > 0 ∧ s.content.length < wrCutoffMini then
        padZero wrMiniMask s.content else [])) postD
      (by rw [hF]; simp only [List.append_assoc])
      (by simp only [List.length_append, chainSeg_length, hFl])
      (by rw [hM]; simp only [List.append_assoc])
      (by simp only [List.length_append, chainSeg_length, hMl])
      (by rw [hS]; simp only [List.append_assoc])
      (by
        simp only [List.length_append, hSl]
        by_cases hb : s.content.length ≥ wrCutoffBig
        · rw [if_pos hb, big_chunks s.content hb, List.length_map, pieces_length]
        · rw [if_neg hb, chBig_small _ hb]; rfl)
      (by rw [hD']; simp only [List.append_assoc])
      (by
        simp only [List.length_append, hDl]
        by_cases hm : s.content.length > 0 ∧ s.content.length < wrCutoffMini
        · rw [if_pos hm, padZero_mini_length s.content hm.1 hm.2]; omega
        · rw [if_neg hm, chMini_zero_of _ hm]; rfl)
    simp only [hhead, hrest]

/-! ### what `write` produces -/

theorem bigData_ok : ∀ (streams : List Stream) (j off moff : Nat) (acc : List Sector), acc.length = off →
    bigData j streams (zip3Starts (sizesOf streams) (chainStarts chBig (sizesOf streams) off)
      (chainStarts chMini (sizesOf streams) moff)) acc = .ok (acc ++ bigSecs streams) := by
  intro streams
  induction streams with
  | nil => intro j off moff acc _; simp [sizesOf, zip3Starts, bigData, bigSecs]
  | cons s r ih =>
    intro j off moff acc hacc
    have hsz : sizesOf (s :: r) = s.content.length :: sizesOf r := rfl
    rw [hsz]
    simp only [chainStarts, zip3Starts, bigData, bigSecs]
    by_cases hb : s.content.length ≥ wrCutoffBig
    · have hst := (stream_start_aux s.content.length off moff).1 (by simpa [chCutoffBig, wrCutoffBig] using hb)
      rw [if_pos hb, if_pos hb, hst, if_pos hacc.symm]
      rw [ih (j + 1) (off + chBig s.content.length) (moff + chMini s.content.length) _
        (by rw [List.length_append, hacc, big_chunks s.content hb, List.length_map, pieces_length])]
      simp only [List.append_assoc]
    · rw [if_neg hb, if_neg hb]
      rw [chBig_small _ hb] at *
      rw [ih (j + 1) (off + 0) (moff + chMini s.content.length) acc (by omega)]
      simp only [List.nil_append]

theorem bigSecs_length : ∀ (streams : List Stream), (bigSecs streams).length = sumBig (sizesOf streams) := by
  intro streams
  induction streams with
  | nil => rfl
  | cons s r ih =>
    have hsz : sizesOf (s :: r) = s.content.length :: sizesOf r := rfl
    rw [hsz]
    simp only [bigSecs, sumBig, List.length_append, ih, ← chBig_eq_locBig]
    by_cases hb : s.content.length ≥ wrCutoffBig
    · rw [if_pos hb, big_chunks s.content hb, List.length_map, pieces_length]
    · rw [if_neg hb, chBig_small _ hb]; rfl

theorem bigSecs_full : ∀ (streams : List Stream), ∀ x ∈ bigSecs streams, x.byteLen = 512 := by
  intro streams
  induction streams with
  | nil => intro x hx; simp [bigSecs] at hx
  | cons s r ih =>
    intro x hx
    simp only [bigSecs, List.mem_append] at hx
    rcases hx with hx | hx
    · by_cases hb : s.content.length ≥ wrCutoffBig
      · rw [if_pos hb, big_chunks s.content hb] at hx
        simp only [List.mem_map] at hx
        obtain ⟨p, hp, rfl⟩ := hx
        have := pieces_all_length _ _ _ (padZero_big_length s.content hb) p hp
        simp only [Sector.byteLen, this, wrSecMask]
      · rw [if_neg hb] at hx; simp at hx
    · exact ih x hx

theorem miniData_length : ∀ (streams : List Stream), (miniData streams).length = 64 * sumMini (sizesOf streams) := by
  intro streams
  induction streams with
  | nil => rfl
  | cons s r ih =>
    have hsz : sizesOf (s :: r) = s.content.length :: sizesOf r := rfl
    rw [hsz]
    simp only [miniData, sumMini, ← chMini_eq_locMini]
    by_cases hm : s.content.length > 0 ∧ s.content.length < wrCutoffMini
    · rw [if_pos hm, List.length_append, ih, padZero_mini_length s.content hm.1 hm.2]; omega
    · rw [if_neg hm, ih, chMini_zero_of _ hm]; omega

theorem secsByteLen_full : ∀ (l : List Sector), (∀ x ∈ l, x.byteLen = 512) → secsByteLen l = 512 * l.length := by
  intro l
  induction l with
  | nil => intro _; rfl
  | cons a r ih =>
    intro h
    simp only [secsByteLen, List.length_cons, h a (List.mem_cons_self), ih (fun x hx => h x (List.mem_cons_of_mem _ hx))]
    omega

def tailOf (loc : Loc) : List Int := msatTail loc loc.difat 0 msatHdr
def fatOf (loc : Loc) (sizes : List Nat) : List Int :=
  padWords (19 + msatHdr + (tailOf loc).length) (fatWords loc sizes)
def mfOf (loc : Loc) (sizes : List Nat) : List Int :=
  padWords (19 + msatHdr + (tailOf loc).length + (fatOf loc sizes).length) (miniFatWords sizes)
def startsOf (loc : Loc) (sizes : List Nat) : List Nat :=
  zip3Starts sizes (chainStarts chBig sizes (fatBase loc)) (chainStarts chMini sizes 0)
def entsOf (loc : Loc) (streams : List Stream) : List DirEnt :=
  rootEnt loc streams.length :: streamEnts (streams.length + 1) 1 streams (startsOf loc (sizesOf streams))
def slotsOf (loc : Loc) (streams : List Stream) : List (Option DirEnt) :=
  (List.range (shl loc.dir dirEntShift)).map (fun i => (entsOf loc streams)[i]?)
def mssOf (loc : Loc) : Nat := shr (loc.mini + chMssAdd) chMssShift
def hdrOf (loc : Loc) : Header :=
  { numFat := Int.ofNat loc.fat,
    firstDir := Int.ofNat (locHeaderSectors + loc.difat + loc.fat + loc.minifat) - 1,
    cutoff := shl 1 wrCutoffLog,
    firstMiniFat := if loc.minifat ≠ 0 then Int.ofNat (locHeaderSectors + loc.difat + loc.fat) - 1 else endOfChain,
    numMiniFat := Int.ofNat loc.minifat,
    firstDifat := if loc.difat ≠ 0 then Int.ofNat locHeaderSectors - 1 else endOfChain,
    numDifat := Int.ofNat loc.difat,
    difat := msatHead loc }

theorem tailOf_length (loc : Loc) : (tailOf loc).length = 128 * loc.difat := msatTail_length loc loc.difat 0

theorem fatOf_length {sizes : List Nat} {loc : Loc} (h : locate sizes = some loc) :
    (fatOf loc sizes).length = 128 * loc.fat := by
  unfold fatOf
  rw [fat_exact_sectors h _ (by rw [tailOf_length]; simp only [msatHdr]; omega)]; omega

theorem mfOf_length {sizes : List Nat} {loc : Loc} (h : locate sizes = some loc) :
    (mfOf loc sizes).length = 128 * loc.minifat := by
  unfold mfOf
  rw [minifat_exact_sectors h _ (by rw [tailOf_length, fatOf_length h]; simp only [msatHdr]; omega)]; omega

theorem slotsOf_length (loc : Loc) (streams : List Stream) : (slotsOf loc streams).length = 4 * loc.dir := by
  unfold slotsOf; simp only [List.length_map, List.length_range]; cfb_consts; omega

/-- the image `write` produces, region by region -/
theorem write_layout (streams : List Stream) (loc : Loc) (h : locate (sizesOf streams) = some loc) :
    write streams = .ok
      { hdr := hdrOf loc,
        secs := (pieces 128 loc.difat (tailOf loc)).map Sector.words
          ++ (pieces 128 loc.fat (fatOf loc (sizesOf streams))).map Sector.words
          ++ (pieces 128 loc.minifat (mfOf loc (sizesOf streams))).map Sector.words
          ++ (pieces 4 loc.dir (slotsOf loc streams)).map Sector.dir
          ++ bigSecs streams
          ++ (pieces 512 (mssOf loc) (miniData streams ++
                List.replicate (512 * mssOf loc - (miniData streams).length) 0)).map Sector.data } := by
  have hW : (tailOf loc ++ fatOf loc (sizesOf streams) ++ mfOf loc (sizesOf streams)).length
      = 128 * (loc.difat + loc.fat + loc.minifat) := by
    simp only [List.length_append, tailOf_length, fatOf_length h, mfOf_length h]; omega
  have hchW : chunks wordsPerSec (tailOf loc ++ fatOf loc (sizesOf streams) ++ mfOf loc (sizesOf streams))
      = pieces 128 loc.difat (tailOf loc) ++ pieces 128 loc.fat (fatOf loc (sizesOf streams))
        ++ pieces 128 loc.minifat (mfOf loc (sizesOf streams)) := by
    have : wordsPerSec = 128 := by decide
    rw [this, chunks_eq_pieces 128 _ (by omega) _ hW,
      pieces_append 128 (loc.difat + loc.fat) loc.minifat _ _
        (by simp only [List.length_append, tailOf_length, fatOf_length h]; omega),
      pieces_append 128 loc.difat loc.fat _ _ (tailOf_length loc)]
  have hchD : chunks 4 (slotsOf loc streams) = pieces 4 loc.dir (slotsOf loc streams) :=
    chunks_eq_pieces 4 _ (by omega) _ (slotsOf_length loc streams)
  -- every sector before the mini stream is a full sector
  have hfull : ∀ x ∈ (pieces 128 loc.difat (tailOf loc)).map Sector.words
      ++ (pieces 128 loc.fat (fatOf loc (sizesOf streams))).map Sector.words
      ++ (pieces 128 loc.minifat (mfOf loc (sizesOf streams))).map Sector.words
      ++ (pieces 4 loc.dir (slotsOf loc streams)).map Sector.dir ++ bigSecs streams, x.byteLen = 512 := by
    intro x hx
    simp only [List.mem_append, List.mem_map] at hx
    rcases hx with (((⟨p, hp, rfl⟩ | ⟨p, hp, rfl⟩) | ⟨p, hp, rfl⟩) | ⟨p, hp, rfl⟩) | hx
    · simp only [Sector.byteLen, pieces_all_length _ _ _ (tailOf_length loc) p hp]
    · simp only [Sector.byteLen, pieces_all_length _ _ _ (fatOf_length h) p hp]
    · simp only [Sector.byteLen, pieces_all_length _ _ _ (mfOf_length h) p hp]
    · simp only [Sector.byteLen, pieces_all_length _ _ _ (slotsOf_length loc streams) p hp]
    · exact bigSecs_full streams x hx
  have hbl := secsByteLen_full _ hfull
  simp only [List.length_append, List.length_map, pieces_length, bigSecs_length] at hbl
  obtain ⟨h1, h2, _, _, _, _, h7, _, _, _⟩ := locate_spec h
  have hmd := miniData_length streams
  have hfill : shl loc.total wrLenShift - (512 + 512 * (loc.difat + loc.fat + loc.minifat + loc.dir + sumBig (sizesOf streams))
      + (miniData streams).length) = 512 * mssOf loc - (miniData streams).length := by
    rw [h7]; unfold Loc.sectors mssOf; rw [h2]; clear hbl hfull hchW hchD hW h
    cfb_consts; omega
  have hmdl : (miniData streams ++ List.replicate (512 * mssOf loc - (miniData streams).length) 0).length
      = 512 * mssOf loc := by
    simp only [List.length_append, List.length_replicate, hmd]
    unfold mssOf; rw [h1]; clear hfill hbl hfull hchW hchD hW h
    cfb_consts; omega
  have hlen : ((chunks wordsPerSec (tailOf loc ++ fatOf loc (sizesOf streams) ++ mfOf loc (sizesOf streams))).map Sector.words
      ++ (chunks 4 (slotsOf loc streams)).map Sector.dir).length = fatBase loc := by
    rw [hchW, hchD]; simp only [List.length_append, List.length_map, pieces_length, fatBase]
  have hbd := bigData_ok streams 1 (fatBase loc) 0 _ hlen
  unfold write
  simp only [show List.map (fun x : Stream => x.content.length) streams = sizesOf streams from rfl, h]
  simp only [tailOf, fatOf, mfOf, slotsOf, entsOf, startsOf, hdrOf] at hbd hchW hchD hbl hfill hmdl ⊢
  rw [hbd]
  simp only [hchW, hchD, List.map_append, hbl, hfill]
  rw [chunks_eq_pieces 512 (mssOf loc) (by omega) _ hmdl]

/-! ### reading the DIFAT -/

def ptrOf (loc : Loc) (o : Nat) : Int := if o = loc.difat - 1 then endOfChain else ((o + 1 : Nat) : Int)

def blockOf (loc : Loc) (o : Nat) : List Int :=
  (List.range' (msatHdr + msatPer * o) msatPer).map (msatEntry loc) ++ [ptrOf loc o]

theorem blockOf_length (loc : Loc) (o : Nat) : (blockOf loc o).length = 128 := by
  simp [blockOf, msatPer]

theorem pieces_tail (loc : Loc) : ∀ n offset,
    pieces 128 n (msatTail loc n offset (msatHdr + msatPer * offset)) = (List.range' offset n).map (blockOf loc) := by
  intro n
  induction n with
  | zero => intro _; rfl
  | succ m ih =>
    intro offset
    rw [msatTail_block]
    have hb : ((List.range' (msatHdr + msatPer * offset) msatPer).map (msatEntry loc)
        ++ [if offset = loc.difat - 1 then endOfChain else ((offset + 1 : Nat) : Int)]) = blockOf loc offset := rfl
    rw [hb]
    have hl := blockOf_length loc offset
    simp only [pieces, List.range'_succ, List.map_cons]
    rw [List.take_left' hl, List.drop_left' hl, ih (offset + 1)]

theorem readDifat_ok (loc : Loc) (secs post : List Sector)
    (hS : secs = ((List.range' 0 loc.difat).map (blockOf loc)).map Sector.words ++ post) :
    ∀ n offset, offset + n = loc.difat →
    readDifat secs n (if n = 0 then -2 else ((offset : Nat) : Int))
      = .ok ((List.range' (msatHdr + msatPer * offset) (msatPer * n)).map (msatEntry loc)) := by
  intro n
  induction n with
  | zero => intro offset _; simp [readDifat]
  | succ m ih =>
    intro offset ho
    have hne : ¬ (m + 1 = 0) := by omega
    rw [if_neg hne]
    unfold readDifat
    have hnn : ¬ (((offset : Nat) : Int) < 0) := by omega
    rw [if_neg hnn]
    simp only [Int.toNat_natCast]
    have hsw : secWords secs offset = .ok (blockOf loc offset) := by
      have := secWords_mid secs [] post ((List.range' 0 loc.difat).map (blockOf loc))
        (by rw [hS]; simp) (by intro p hp; simp only [List.mem_map] at hp; obtain ⟨o, _, rfl⟩ := hp; exact blockOf_length loc o)
        offset (by simp only [List.length_map, List.length_range']; omega)
      simp only [List.length_nil, Nat.zero_add, List.getElem_map, List.getElem_range', Nat.one_mul] at this
      exact this
    simp only [hsw]
    have hget : (blockOf loc offset).getD 127 (-2) = ptrOf loc offset := by
      unfold blockOf
      have : ((List.range' (msatHdr + msatPer * offset) msatPer).map (msatEntry loc)).length = 127 := by simp [msatPer]
      simp [List.getD, List.getElem?_append_right, this]
    have htake : (blockOf loc offset).take 127 = (List.range' (msatHdr + msatPer * offset) msatPer).map (msatEntry loc) := by
      unfold blockOf
      apply List.take_left'
      simp [msatPer]
    have hptr : ptrOf loc offset = (if m = 0 then -2 else ((offset + 1 : Nat) : Int)) := by
      unfold ptrOf
      by_cases hm : m = 0
      · rw [if_pos hm, if_pos (by omega)]
      · rw [if_neg hm, if_neg (by omega)]
    rw [hget, hptr, ih (offset + 1) (by omega), htake]
    have hr : List.range' (msatHdr + msatPer * offset) msatPer ++ List.range' (msatHdr + msatPer * (offset + 1)) (msatPer * m)
        = List.range' (msatHdr + msatPer * offset) (msatPer * (m + 1)) := by
      have e1 : msatPer * (m + 1) = msatPer + msatPer * m := by rw [Nat.mul_succ]; omega
      have e2 : msatHdr + msatPer * (offset + 1) = msatHdr + msatPer * offset + msatPer := by rw [Nat.mul_succ]; omega
      rw [e1, e2, List.range'_append_1]
    simp only []
    rw [← List.map_append, hr]

theorem toIds_range (D : Nat) : ∀ n a, toIds ((List.range' a n).map (fun i => ((D + i : Nat) : Int)))
    = .ok (List.range' (D + a) n) := by
  intro n
  induction n with
  | zero => intro _; rfl
  | succ m ih =>
    intro a
    simp only [List.range'_succ, List.map_cons, toIds]
    have : ¬ (((D + a : Nat) : Int) < 0) := by omega
    rw [if_neg this, ih (a + 1)]
    simp only [Int.toNat_natCast]
    rfl

theorem range_map_getElem? {α} (l : List α) (n : Nat) (h : l.length ≤ n) :
    (List.range n).map (fun i => l[i]?) = l.map some ++ List.replicate (n - l.length) none := by
  apply List.ext_getElem
  · simp only [List.length_map, List.length_range, List.length_append, List.length_replicate]; omega
  · intro i h1 h2
    simp only [List.getElem_map, List.getElem_range]
    by_cases hi : i < l.length
    · rw [List.getElem_append_left (by simpa using hi)]
      simp only [List.getElem_map, List.getElem?_eq_getElem hi]
    · rw [List.getElem_append_right (by simpa using hi)]
      simp only [List.getElem_replicate]
      exact List.getElem?_eq_none (by omega)

theorem zip3Starts_length : ∀ (sizes bs ms : List Nat), bs.length = sizes.length → ms.length = sizes.length →
    (zip3Starts sizes bs ms).length = sizes.length := by
  intro sizes
  induction sizes with
  | nil => intro bs ms _ _; simp [zip3Starts]
  | cons a r ih =>
    intro bs ms hb hm
    cases bs with
    | nil => simp at hb
    | cons b rb =>
      cases ms with
      | nil => simp at hm
      | cons m rm =>
        simp only [zip3Starts, List.length_cons]
        rw [ih rb rm (by simpa using hb) (by simpa using hm)]

theorem streamEnts_length (np : Nat) : ∀ (streams : List Stream) (i : Nat) (starts : List Nat),
    starts.length = streams.length → (streamEnts np i streams starts).length = streams.length := by
  intro streams
  induction streams with
  | nil => intro i starts _; cases starts <;> simp [streamEnts]
  | cons s r ih =>
    intro i starts h
    cases starts with
    | nil => simp at h
    | cons st rs => simp only [streamEnts, List.length_cons]; rw [ih (i + 1) rs (by simpa using h)]

/-! ### the reader on the written image -/

theorem followChain_eoc (tbl : List Int) (f : Nat) : followChain tbl (f + 1) (-2) = .ok [] := by
  simp [followChain]

theorem read_layout (streams : List Stream) (loc : Loc) (h : locate (sizesOf streams) = some loc) :
    read { hdr := hdrOf loc,
           secs := (pieces 128 loc.difat (tailOf loc)).map Sector.words
            ++ (pieces 128 loc.fat (fatOf loc (sizesOf streams))).map Sector.words
            ++ (pieces 128 loc.minifat (mfOf loc (sizesOf streams))).map Sector.words
            ++ (pieces 4 loc.dir (slotsOf loc streams)).map Sector.dir
            ++ bigSecs streams
            ++ (pieces 512 (mssOf loc) (miniData streams ++
                  List.replicate (512 * mssOf loc - (miniData streams).length) 0)).map Sector.data }
      = .ok streams := by
  obtain ⟨h1, h2, h3, h4, h5, h6, h7, h8, h9, h10⟩ := locate_spec h
  obtain ⟨A, hA⟩ : ∃ A, A = (pieces 128 loc.difat (tailOf loc)).map Sector.words := ⟨_, rfl⟩
  obtain ⟨B, hB⟩ : ∃ B, B = (pieces 128 loc.fat (fatOf loc (sizesOf streams))).map Sector.words := ⟨_, rfl⟩
  obtain ⟨C, hC⟩ : ∃ C, C = (pieces 128 loc.minifat (mfOf loc (sizesOf streams))).map Sector.words := ⟨_, rfl⟩
  obtain ⟨Dd, hDd⟩ : ∃ Dd, Dd = (pieces 4 loc.dir (slotsOf loc streams)).map Sector.dir := ⟨_, rfl⟩
  obtain ⟨G, hG⟩ : ∃ G, G = (pieces 512 (mssOf loc) (miniData streams ++
      List.replicate (512 * mssOf loc - (miniData streams).length) 0)).map Sector.data := ⟨_, rfl⟩
  obtain ⟨S, hS⟩ : ∃ S, S = A ++ B ++ C ++ Dd ++ bigSecs streams ++ G := ⟨_, rfl⟩
  rw [← hA, ← hB, ← hC, ← hDd, ← hG, ← hS]
  have lA : A.length = loc.difat := by rw [hA, List.length_map, pieces_length]
  have lB : B.length = loc.fat := by rw [hB, List.length_map, pieces_length]
  have lC : C.length = loc.minifat := by rw [hC, List.length_map, pieces_length]
  have lD : Dd.length = loc.dir := by rw [hDd, List.length_map, pieces_length]
  have hmd := miniData_length streams
  have hmdl : (miniData streams ++ List.replicate (512 * mssOf loc - (miniData streams).length) 0).length
      = 512 * mssOf loc := by
    simp only [List.length_append, List.length_replicate, hmd]
    unfold mssOf; rw [h1]; clear h9 h10 h7 h6 h5 h
    cfb_consts; omega
  -- R1: DIFAT
  have hA' : A = ((List.range' 0 loc.difat).map (blockOf loc)).map Sector.words := by
    rw [hA]; congr 1
    have := pieces_tail loc loc.difat 0
    simp only [Nat.mul_zero, Nat.add_zero] at this
    exact this
  have r1 : readDifat S (Int.ofNat loc.difat).toNat
      (if loc.difat ≠ 0 then Int.ofNat locHeaderSectors - 1 else endOfChain)
      = .ok ((List.range' msatHdr (msatPer * loc.difat)).map (msatEntry loc)) := by
    have := readDifat_ok loc S (B ++ C ++ Dd ++ bigSecs streams ++ G)
      (by rw [hS, hA']; simp only [List.append_assoc]) loc.difat 0 (by omega)
    simp only [Nat.mul_zero, Nat.add_zero] at this
    rw [← this]
    simp only [Int.ofNat_eq_natCast, Int.toNat_natCast]
    by_cases hd : loc.difat = 0
    · simp [hd, endOfChain]
    · simp [hd, locHeaderSectors]
  -- R2: FAT sector ids
  have hcov := difat_cover loc.fat
  rw [← h5] at hcov
  have r2 : toIds ((msatHead loc ++ (List.range' msatHdr (msatPer * loc.difat)).map (msatEntry loc)).take
      (Int.ofNat loc.fat).toNat) = .ok (List.range' loc.difat loc.fat) := by
    simp only [Int.ofNat_eq_natCast, Int.toNat_natCast]
    have e : msatHead loc ++ (List.range' msatHdr (msatPer * loc.difat)).map (msatEntry loc)
        = (List.range' 0 (msatHdr + msatPer * loc.difat)).map (msatEntry loc) := by
      unfold msatHead
      rw [List.range_eq_range', ← List.map_append]
      congr 1
      have := @List.range'_append_1 0 msatHdr (msatPer * loc.difat)
      simpa using this
    have htk : (List.range' 0 (msatHdr + msatPer * loc.difat)).take loc.fat = List.range' 0 loc.fat := by
      have e3 : msatHdr + msatPer * loc.difat = loc.fat + (msatHdr + msatPer * loc.difat - loc.fat) := by
        have := hcov.1; omega
      have := @List.range'_append_1 0 loc.fat (msatHdr + msatPer * loc.difat - loc.fat)
      rw [e3, ← this]
      apply List.take_left'
      simp
    rw [e, ← List.map_take, htk]
    have e2 : (List.range' 0 loc.fat).map (msatEntry loc)
        = (List.range' 0 loc.fat).map (fun i => ((loc.difat + i : Nat) : Int)) := by
      apply List.map_congr_left
      intro i hi
      simp only [List.mem_range'_1] at hi
      exact msatEntry_fat loc i (by omega)
    rw [e2, toIds_range loc.difat loc.fat 0]
    simp
  -- R3: FAT
  have r3 : mapCat (secWords S) (List.range' loc.difat loc.fat) = .ok (fatOf loc (sizesOf streams)) := by
    have := mapCat_secWords S A (C ++ Dd ++ bigSecs streams ++ G) (pieces 128 loc.fat (fatOf loc (sizesOf streams)))
      (by rw [hS, hB]; simp only [List.append_assoc])
      (pieces_all_length _ _ _ (fatOf_length h))
    rw [lA, pieces_length, pieces_flatten _ _ _ (fatOf_length h)] at this
    exact this
  -- R4/R5: directory
  have hdirpos : 0 < loc.dir := by rw [h3]; clear h9 h10 h7 h6 h5 h; cfb_consts; omega
  have r4 : followChain (fatOf loc (sizesOf streams)) ((fatOf loc (sizesOf streams)).length + 1)
      (Int.ofNat (locHeaderSectors + loc.difat + loc.fat + loc.minifat) - 1)
      = .ok (List.range' (loc.difat + loc.fat + loc.minifat) loc.dir) := by
    have := fat_dir_chain loc (sizesOf streams) (19 + msatHdr + (tailOf loc).length) hdirpos
    have e : Int.ofNat (locHeaderSectors + loc.difat + loc.fat + loc.minifat) - 1
        = ((loc.difat + loc.fat + loc.minifat : Nat) : Int) := by
      simp only [locHeaderSectors, Int.ofNat_eq_natCast]; omega
    rw [e]; exact this
  have r5 : mapCat (secDir S) (List.range' (loc.difat + loc.fat + loc.minifat) loc.dir)
      = .ok (slotsOf loc streams) := by
    have := mapCat_secDir S (A ++ B ++ C) (bigSecs streams ++ G) (pieces 4 loc.dir (slotsOf loc streams))
      (by rw [hS, hDd]; simp only [List.append_assoc])
    simp only [List.length_append, lA, lB, lC, pieces_length,
      pieces_flatten _ _ _ (slotsOf_length loc streams)] at this
    exact this
  -- R6: mini FAT
  have r6 : ∃ ids, followChain (fatOf loc (sizesOf streams)) ((fatOf loc (sizesOf streams)).length + 1)
      (if loc.minifat ≠ 0 then Int.ofNat (locHeaderSectors + loc.difat + loc.fat) - 1 else endOfChain) = .ok ids
      ∧ mapCat (secWords S) ids = .ok (mfOf loc (sizesOf streams)) := by
    by_cases hm : loc.minifat = 0
    · refine ⟨[], ?_, ?_⟩
      · rw [if_neg (by simpa using hm)]; exact followChain_eoc _ _
      · have : mfOf loc (sizesOf streams) = [] :=
          List.eq_nil_of_length_eq_zero (by rw [mfOf_length h, hm])
        rw [this]; rfl
    · refine ⟨List.range' (loc.difat + loc.fat) loc.minifat, ?_, ?_⟩
      · rw [if_pos hm]
        have := fat_minifat_chain loc (sizesOf streams) (19 + msatHdr + (tailOf loc).length) (Nat.pos_of_ne_zero hm)
        have e : Int.ofNat (locHeaderSectors + loc.difat + loc.fat) - 1 = ((loc.difat + loc.fat : Nat) : Int) := by
          simp only [locHeaderSectors, Int.ofNat_eq_natCast]; omega
        rw [e]; exact this
      · have := mapCat_secWords S (A ++ B) (Dd ++ bigSecs streams ++ G) (pieces 128 loc.minifat (mfOf loc (sizesOf streams)))
          (by rw [hS, hC]; simp only [List.append_assoc])
          (pieces_all_length _ _ _ (mfOf_length h))
        simp only [List.length_append, lA, lB, pieces_length, pieces_flatten _ _ _ (mfOf_length h)] at this
        exact this
  obtain ⟨mfIds, r6a, r6b⟩ := r6
  -- R7: directory slots
  have hstarts : (startsOf loc (sizesOf streams)).length = streams.length := by
    unfold startsOf
    rw [zip3Starts_length _ _ _ (chainStarts_length _ _ _) (chainStarts_length _ _ _)]
    simp [sizesOf]
  have hents : (entsOf loc streams).length = streams.length + 1 := by
    unfold entsOf; simp only [List.length_cons, streamEnts_length _ _ _ _ hstarts]
  have r7 : slotsOf loc streams = some (rootEnt loc streams.length) ::
      ((streamEnts (streams.length + 1) 1 streams (startsOf loc (sizesOf streams))).map some
        ++ List.replicate (shl loc.dir dirEntShift - (streams.length + 1)) none) := by
    unfold slotsOf
    rw [range_map_getElem? (entsOf loc streams) _ (by
      rw [hents, h3]; simp only [sizesOf, List.length_map]; clear h9 h10 h7 h6 h5 h; cfb_consts; omega), hents]
    unfold entsOf
    simp only [List.map_cons, List.cons_append]
  have lfat : (List.range' loc.difat loc.fat).length = (Int.ofNat loc.fat).toNat := by simp
  unfold read
  simp only [hdrOf, r1, r2, lfat, ne_eq, not_true_eq_false, if_false, r3, r4, r5, r6a, r6b, r7]
  have hroot : loc.rootSize = (miniData streams).length := by
    rw [h8, hmd, h1]; clear h9 h10 h7 h6 h5 h; cfb_consts; omega
  have hcut : shl 1 wrCutoffLog = 4096 := by decide
  have hfinal : readStreams S (fatOf loc (sizesOf streams)) (mfOf loc (sizesOf streams)) (miniData streams) 4096
      (List.map some (streamEnts (streams.length + 1) 1 streams (startsOf loc (sizesOf streams))) ++
        List.replicate (shl loc.dir dirEntShift - (streams.length + 1)) none) = .ok streams :=
    readStreams_ok S (fatOf loc (sizesOf streams)) (mfOf loc (sizesOf streams)) (miniData streams)
    (streams.length + 1) streams 1 (fatBase loc) 0 _
    (List.replicate loc.difat difSect ++ List.replicate loc.fat fatSect
      ++ chainSeg loc.minifat (loc.difat + loc.fat) ++ chainSeg loc.dir (loc.difat + loc.fat + loc.minifat))
    (chainSeg (shr (loc.mini + chMssAdd) chMssShift) (chainEnd chBig (sizesOf streams) (fatBase loc))
      ++ List.replicate ((wordsPerSec - (19 + msatHdr + (tailOf loc).length + (fatWords loc (sizesOf streams)).length) % wordsPerSec) % wordsPerSec) endOfChain)
    [] (List.replicate ((wordsPerSec - (19 + msatHdr + (tailOf loc).length + (fatOf loc (sizesOf streams)).length + (miniFatWords (sizesOf streams)).length) % wordsPerSec) % wordsPerSec) endOfChain)
    (A ++ B ++ C ++ Dd) G [] []
    (by unfold fatOf padWords fatWords; simp only [List.append_assoc])
    (by simp only [List.length_append, List.length_replicate, chainSeg_length, fatBase])
    (by unfold mfOf padWords miniFatWords; simp only [List.nil_append])
    rfl
    (by rw [hS])
    (by simp only [List.length_append, lA, lB, lC, lD, fatBase])
    (by simp)
    (by simp)
  have htyp : (rootEnt loc streams.length).typ = 5 := rfl
  have hsize : (rootEnt loc streams.length).size = loc.rootSize := rfl
  simp only [htyp, not_true_eq_false, ↓reduceIte, hsize, hcut]
  by_cases hz : loc.rootSize = 0
  · have : miniData streams = [] := List.eq_nil_of_length_eq_zero (by rw [← hroot, hz])
    rw [this] at hfinal
    simp only [hz, ↓reduceIte]
    exact hfinal
  · have hp : loc.rootSize > 0 := Nat.pos_of_ne_zero hz
    have hstart : (rootEnt loc streams.length).start = Int.ofNat loc.rootStart - 1 := by
      simp only [rootEnt, hp, ↓reduceIte]
    have hmss : 0 < shr (loc.mini + chMssAdd) chMssShift := by
      have : 0 < loc.mini := by
        rw [h8] at hz; clear h9 h10 h7 h6 h5 h hroot hfinal; cfb_consts; omega
      clear h9 h10 h7 h6 h5 h hroot hz hfinal; cfb_consts; omega
    have hch := fat_container_chain loc (sizesOf streams) (19 + msatHdr + (tailOf loc).length) hmss
    have e : Int.ofNat loc.rootStart - 1 = ((chainEnd chBig (sizesOf streams) (fatBase loc) : Nat) : Int) := by
      rw [chainEnd_big, h6, h2]; unfold fatBase
      simp only [locHeaderSectors, Int.ofNat_eq_natCast]; omega
    have e2 : chainEnd chBig (sizesOf streams) (fatBase loc)
        = loc.difat + loc.fat + loc.minifat + loc.dir + sumBig (sizesOf streams) := by
      rw [chainEnd_big]; rfl
    have hch' : followChain (fatOf loc (sizesOf streams)) ((fatOf loc (sizesOf streams)).length + 1)
        (Int.ofNat loc.rootStart - 1)
        = .ok (List.range' (loc.difat + loc.fat + loc.minifat + loc.dir + sumBig (sizesOf streams)) (mssOf loc)) := by
      rw [e, ← e2]; exact hch
    have hsd := mapCat_secData S (A ++ B ++ C ++ Dd ++ bigSecs streams) []
      (pieces 512 (mssOf loc) (miniData streams ++ List.replicate (512 * mssOf loc - (miniData streams).length) 0))
      (by rw [hS, hG]; simp only [List.append_nil])
    simp only [List.length_append, lA, lB, lC, lD, bigSecs_length, pieces_length,
      pieces_flatten _ _ _ hmdl] at hsd
    have hle : loc.rootSize ≤ (miniData streams ++ List.replicate (512 * mssOf loc - (miniData streams).length) 0).length := by
      rw [hroot]; simp
    have htake : List.take loc.rootSize (miniData streams ++ List.replicate (512 * mssOf loc - (miniData streams).length) 0)
        = miniData streams := by rw [hroot]; simp
    simp only [hz, ↓reduceIte, hstart, hch', hsd, hle, htake]
    exact hfinal

/-- the reference reader recovers exactly the streams that were written -/
theorem read_write (streams : List Stream) : ∃ img, write streams = .ok img ∧ read img = .ok streams := by
  obtain ⟨loc, h⟩ := locate_some (sizesOf streams)
  exact ⟨_, write_layout streams loc h, read_layout streams loc h⟩

end XlModel.Cfb
