/-
Helper lemmas for the compound-file model (C13), part 2: chains written by
`writeSectorChains` are followed correctly by the reference reader.
-/
import XlModel.Lemmas.Cfb

namespace XlModel.Cfb
open XlModel.Facts.C13

/-! ### chain segments -/

theorem chainSeg_zero (off : Nat) : chainSeg 0 off = [] := by
  simp [chainSeg]

theorem chainSeg_one (off : Nat) : chainSeg 1 off = [-2] := by
  simp [chainSeg, endOfChain]

theorem chainSeg_succ (n off : Nat) (hn : 0 < n) :
    chainSeg (n + 1) off = ((off + 1 : Nat) : Int) :: chainSeg n (off + 1) := by
  unfold chainSeg
  obtain ⟨m, rfl⟩ : ∃ m, n = m + 1 := ⟨n - 1, by omega⟩
  simp [List.range'_succ]

theorem chainSeg_length (n off : Nat) : (chainSeg n off).length = n := by
  unfold chainSeg
  by_cases h : n = 0
  · subst h; simp
  · simp [h]; omega

/-- the reader follows a chain segment sitting at its own offset to exactly the
consecutive sectors `off, off+1, …, off+n-1` -/
theorem follow_chainSeg : ∀ (n : Nat) (pre post : List Int) (fuel : Nat), 0 < n → n < fuel →
    followChain (pre ++ chainSeg n pre.length ++ post) fuel ((pre.length : Nat) : Int)
      = .ok (List.range' pre.length n) := by
  intro n
  induction n with
  | zero => intro _ _ _ h; omega
  | succ m ih =>
    intro pre post fuel _ hf
    obtain ⟨f, rfl⟩ : ∃ f, fuel = f + 1 := ⟨fuel - 1, by omega⟩
    unfold followChain
    have h1 : ¬ (((pre.length : Nat) : Int) = -2) := by omega
    have h2 : ¬ (((pre.length : Nat) : Int) < 0) := by omega
    rw [if_neg h1, if_neg h2]
    simp only [Int.toNat_natCast]
    by_cases hm : m = 0
    · subst hm
      rw [chainSeg_one]
      have : (pre ++ [-2] ++ post)[pre.length]? = some (-2) := by
        simp
      rw [this]
      cases f with
      | zero => omega
      | succ g => simp [followChain, List.range']
    · have hpos : 0 < m := Nat.pos_of_ne_zero hm
      rw [chainSeg_succ m pre.length hpos]
      have hget : (pre ++ ((pre.length + 1 : Nat) : Int) :: chainSeg m (pre.length + 1) ++ post)[pre.length]?
          = some ((pre.length + 1 : Nat) : Int) := by
        simp
      rw [hget]
      have hre : pre ++ ((pre.length + 1 : Nat) : Int) :: chainSeg m (pre.length + 1) ++ post
          = (pre ++ [((pre.length + 1 : Nat) : Int)]) ++ chainSeg m (pre.length + 1) ++ post := by
        simp
      have hlen : (pre ++ [((pre.length + 1 : Nat) : Int)]).length = pre.length + 1 := by simp
      have this := ih (pre ++ [((pre.length + 1 : Nat) : Int)]) post f hpos (by omega)
      rw [hlen] at this
      rw [hre]
      simp only [this]
      simp [List.range'_succ]

/-- a chain segment anywhere inside a (padded) table is followed to its consecutive sectors -/
theorem follow_in (tbl pre post extra : List Int) (n st : Nat)
    (h : tbl = pre ++ chainSeg n st ++ post) (hst : pre.length = st) (hn : 0 < n) :
    followChain (tbl ++ extra) ((tbl ++ extra).length + 1) ((st : Nat) : Int) = .ok (List.range' st n) := by
  subst hst
  have e : tbl ++ extra = pre ++ chainSeg n pre.length ++ (post ++ extra) := by rw [h]; simp
  rw [e]
  apply follow_chainSeg n pre (post ++ extra) _ hn
  simp only [List.length_append, chainSeg_length]
  omega

/-! ### per-stream chains -/

theorem chainStarts_length (cnt : Nat → Nat) : ∀ (sizes : List Nat) (off : Nat),
    (chainStarts cnt sizes off).length = sizes.length := by
  intro sizes
  induction sizes with
  | nil => intro _; rfl
  | cons a r ih => intro off; simp [chainStarts, ih]

theorem chainWords_length (cnt : Nat → Nat) : ∀ (sizes : List Nat) (off : Nat),
    off + (chainWords cnt sizes off).length = chainEnd cnt sizes off := by
  intro sizes
  induction sizes with
  | nil => intro _; rfl
  | cons a r ih =>
    intro off
    simp only [chainWords, chainEnd, List.length_append, chainSeg_length]
    rw [← ih (off + cnt a)]; omega

/-- the chain of stream `j` sits inside `chainWords` at the offset recorded for it -/
theorem chainWords_split (cnt : Nat → Nat) : ∀ (sizes : List Nat) (off j sz st : Nat),
    sizes[j]? = some sz → (chainStarts cnt sizes off)[j]? = some st →
    ∃ pre post, chainWords cnt sizes off = pre ++ chainSeg (cnt sz) st ++ post ∧ off + pre.length = st := by
  intro sizes
  induction sizes with
  | nil => intro _ _ _ _ h; simp at h
  | cons a r ih =>
    intro off j sz st h1 h2
    cases j with
    | zero =>
      simp only [List.getElem?_cons_zero, Option.some.injEq, chainStarts] at h1 h2
      subst h1 h2
      exact ⟨[], chainWords cnt r (off + cnt a), by simp [chainWords], by simp⟩
    | succ k =>
      simp only [List.getElem?_cons_succ, chainStarts] at h1 h2
      obtain ⟨pre, post, he, hl⟩ := ih (off + cnt a) k sz st h1 h2
      refine ⟨chainSeg (cnt a) off ++ pre, post, ?_, ?_⟩
      · simp only [chainWords, he, List.append_assoc]
      · simp only [List.length_append, chainSeg_length]; omega

theorem padWords_eq (p : Nat) (w : List Int) : ∃ extra, padWords p w = w ++ extra := ⟨_, rfl⟩

/-- FAT chain of a stream at or above the cutoff -/
theorem fat_stream_chain (loc : Loc) (sizes : List Nat) (p j sz st : Nat)
    (h1 : sizes[j]? = some sz) (h2 : (chainStarts chBig sizes (fatBase loc))[j]? = some st)
    (hbig : 0 < chBig sz) :
    followChain (padWords p (fatWords loc sizes)) ((padWords p (fatWords loc sizes)).length + 1) ((st : Nat) : Int)
      = .ok (List.range' st (chBig sz)) := by
  obtain ⟨pre, post, he, hl⟩ := chainWords_split chBig sizes (fatBase loc) j sz st h1 h2
  obtain ⟨extra, hp⟩ := padWords_eq p (fatWords loc sizes)
  rw [hp]
  apply follow_in (fatWords loc sizes)
    (List.replicate loc.difat difSect ++ List.replicate loc.fat fatSect
      ++ chainSeg loc.minifat (loc.difat + loc.fat) ++ chainSeg loc.dir (loc.difat + loc.fat + loc.minifat) ++ pre)
    (post ++ chainSeg (shr (loc.mini + chMssAdd) chMssShift) (chainEnd chBig sizes (fatBase loc))) extra _ _ ?_ ?_ hbig
  · unfold fatWords; rw [he]; simp only [List.append_assoc]
  · simp only [List.length_append, List.length_replicate, chainSeg_length]
    unfold fatBase at hl; omega

/-- FAT chain of the mini FAT sectors -/
theorem fat_minifat_chain (loc : Loc) (sizes : List Nat) (p : Nat) (h : 0 < loc.minifat) :
    followChain (padWords p (fatWords loc sizes)) ((padWords p (fatWords loc sizes)).length + 1)
      ((loc.difat + loc.fat : Nat) : Int) = .ok (List.range' (loc.difat + loc.fat) loc.minifat) := by
  obtain ⟨extra, hp⟩ := padWords_eq p (fatWords loc sizes)
  rw [hp]
  apply follow_in (fatWords loc sizes) (List.replicate loc.difat difSect ++ List.replicate loc.fat fatSect)
    (chainSeg loc.dir (loc.difat + loc.fat + loc.minifat) ++ chainWords chBig sizes (fatBase loc)
      ++ chainSeg (shr (loc.mini + chMssAdd) chMssShift) (chainEnd chBig sizes (fatBase loc))) extra _ _ ?_ ?_ h
  · unfold fatWords; simp only [List.append_assoc]
  · simp

/-- FAT chain of the directory sectors -/
theorem fat_dir_chain (loc : Loc) (sizes : List Nat) (p : Nat) (h : 0 < loc.dir) :
    followChain (padWords p (fatWords loc sizes)) ((padWords p (fatWords loc sizes)).length + 1)
      ((loc.difat + loc.fat + loc.minifat : Nat) : Int)
      = .ok (List.range' (loc.difat + loc.fat + loc.minifat) loc.dir) := by
  obtain ⟨extra, hp⟩ := padWords_eq p (fatWords loc sizes)
  rw [hp]
  apply follow_in (fatWords loc sizes)
    (List.replicate loc.difat difSect ++ List.replicate loc.fat fatSect ++ chainSeg loc.minifat (loc.difat + loc.fat))
    (chainWords chBig sizes (fatBase loc)
      ++ chainSeg (shr (loc.mini + chMssAdd) chMssShift) (chainEnd chBig sizes (fatBase loc))) extra _ _ ?_ ?_ h
  · unfold fatWords; simp only [List.append_assoc]
  · simp only [List.length_append, List.length_replicate, chainSeg_length]

/-- FAT chain of the mini stream container (the root entry's chain) -/
theorem fat_container_chain (loc : Loc) (sizes : List Nat) (p : Nat)
    (h : 0 < shr (loc.mini + chMssAdd) chMssShift) :
    followChain (padWords p (fatWords loc sizes)) ((padWords p (fatWords loc sizes)).length + 1)
      ((chainEnd chBig sizes (fatBase loc) : Nat) : Int)
      = .ok (List.range' (chainEnd chBig sizes (fatBase loc)) (shr (loc.mini + chMssAdd) chMssShift)) := by
  obtain ⟨extra, hp⟩ := padWords_eq p (fatWords loc sizes)
  rw [hp]
  apply follow_in (fatWords loc sizes)
    (List.replicate loc.difat difSect ++ List.replicate loc.fat fatSect ++ chainSeg loc.minifat (loc.difat + loc.fat)
      ++ chainSeg loc.dir (loc.difat + loc.fat + loc.minifat) ++ chainWords chBig sizes (fatBase loc))
    [] extra _ _ ?_ ?_ h
  · unfold fatWords; simp only [List.append_assoc, List.append_nil]
  · simp only [List.length_append, List.length_replicate, chainSeg_length]
    have := chainWords_length chBig sizes (fatBase loc)
    unfold fatBase at this ⊢; omega

/-- mini FAT chain of a stream below the cutoff -/
theorem minifat_stream_chain (sizes : List Nat) (p j sz st : Nat)
    (h1 : sizes[j]? = some sz) (h2 : (chainStarts chMini sizes 0)[j]? = some st) (hmini : 0 < chMini sz) :
    followChain (padWords p (miniFatWords sizes)) ((padWords p (miniFatWords sizes)).length + 1) ((st : Nat) : Int)
      = .ok (List.range' st (chMini sz)) := by
  obtain ⟨pre, post, he, hl⟩ := chainWords_split chMini sizes 0 j sz st h1 h2
  obtain ⟨extra, hp⟩ := padWords_eq p (miniFatWords sizes)
  rw [hp]
  apply follow_in (miniFatWords sizes) pre post extra _ _ ?_ ?_ hmini
  · unfold miniFatWords; exact he
  · omega

/-! ### consistency between `locate`, `writeSectorChains` and `write` -/

theorem chBig_eq_locBig (sz : Nat) : chBig sz = locBig sz := by
  unfold chBig locBig; cfb_consts

theorem chMini_eq_locMini (sz : Nat) : chMini sz = locMini sz := by
  unfold chMini locMini; cfb_consts
  split
  · rfl
  · split <;> split <;> first | rfl | omega | skip

theorem chainEnd_big : ∀ (sizes : List Nat) (off : Nat), chainEnd chBig sizes off = off + sumBig sizes := by
  intro sizes
  induction sizes with
  | nil => intro _; rfl
  | cons a r ih => intro off; simp only [chainEnd, sumBig, ih, chBig_eq_locBig]; omega

theorem chainEnd_mini : ∀ (sizes : List Nat) (off : Nat), chainEnd chMini sizes off = off + sumMini sizes := by
  intro sizes
  induction sizes with
  | nil => intro _; rfl
  | cons a r ih => intro off; simp only [chainEnd, sumMini, ih, chMini_eq_locMini]; omega

/-- every sector after the header has exactly one FAT entry -/
theorem fatWords_length {sizes : List Nat} {l : Loc} (h : locate sizes = some l) :
    (fatWords l sizes).length = l.sectors := by
  have h2 : l.files = sumBig sizes := (locate_spec h).2.1
  have hw := chainWords_length chBig sizes (fatBase l)
  rw [chainEnd_big] at hw
  unfold fatWords Loc.sectors
  simp only [List.length_append, List.length_replicate, chainSeg_length]
  clear h
  cfb_consts
  omega

/-- the padded FAT fills exactly the `l.fat` sectors announced in the header, so the mini FAT and the
directory begin where the header says -/
theorem fat_exact_sectors {sizes : List Nat} {l : Loc} (h : locate sizes = some l) (p : Nat)
    (hp : p % 128 = 0) : (padWords p (fatWords l sizes)).length = l.fat * 128 := by
  have hl := fatWords_length h
  obtain ⟨_, _, _, _, _, _, _, _, h9, h10⟩ := locate_spec h
  unfold padWords
  simp only [List.length_append, List.length_replicate, hl]
  cfb_consts
  omega

/-- the padded mini FAT fills exactly `l.minifat` sectors -/
theorem minifat_exact_sectors {sizes : List Nat} {l : Loc} (h : locate sizes = some l) (p : Nat)
    (hp : p % 128 = 0) : (padWords p (miniFatWords sizes)).length = l.minifat * 128 := by
  obtain ⟨_, _, _, h4, _, _, _, _, _, _⟩ := locate_spec h
  have := chainWords_length chMini sizes 0
  rw [chainEnd_mini] at this
  unfold padWords miniFatWords
  simp only [List.length_append, List.length_replicate]
  rw [h4]
  cfb_consts
  omega

/-- the chain reserved for a stream holds it, with less than one sector of slack -/
theorem chBig_capacity (sz : Nat) (h : chCutoffBig ≤ sz) : sz ≤ 512 * chBig sz ∧ 512 * chBig sz < sz + 512 := by
  unfold chBig; cfb_consts
  rw [if_neg (by omega), if_neg (by omega)]
  omega

theorem chMini_capacity (sz : Nat) (h0 : 0 < sz) (h : sz < chCutoffMini) :
    sz ≤ 64 * chMini sz ∧ 64 * chMini sz < sz + 64 := by
  unfold chMini; cfb_consts
  rw [if_neg (by omega), if_neg (by omega)]
  omega

/-- the root entry's size is the whole mini stream and its chain holds it -/
theorem container_capacity {sizes : List Nat} {l : Loc} (h : locate sizes = some l) :
    l.rootSize = 64 * sumMini sizes ∧ l.rootSize ≤ 512 * shr (l.mini + chMssAdd) chMssShift := by
  obtain ⟨h1, _, _, _, _, _, _, h8, _, _⟩ := locate_spec h
  rw [h8, h1]
  cfb_consts
  omega

/-! ### DIFAT -/

/-- each DIFAT sector written by `writeMSAT` holds the next 127 entries of the FAT-sector list and
the id of the following DIFAT sector (ENDOFCHAIN in the last one) -/
theorem msatTail_block (loc : Loc) (n offset : Nat) :
    msatTail loc (n + 1) offset (msatHdr + msatPer * offset)
      = (List.range' (msatHdr + msatPer * offset) msatPer).map (msatEntry loc)
        ++ [if offset = loc.difat - 1 then endOfChain else ((offset + 1 : Nat) : Int)]
        ++ msatTail loc n (offset + 1) (msatHdr + msatPer * (offset + 1)) := by
  rw [msatTail]
  have h1 : msatFirst + offset * msatPer - (msatHdr + msatPer * offset) = msatPer := by cfb_consts; omega
  have h2 : max (msatHdr + msatPer * offset) (msatFirst + offset * msatPer) = msatHdr + msatPer * (offset + 1) := by
    cfb_consts; omega
  simp only [h1, h2, Int.ofNat_eq_natCast]

/-- the DIFAT sectors are whole sectors: the FAT begins on a sector boundary -/
theorem msatTail_length (loc : Loc) : ∀ n offset,
    (msatTail loc n offset (msatHdr + msatPer * offset)).length = 128 * n := by
  intro n
  induction n with
  | zero => intro _; rfl
  | succ m ih =>
    intro offset
    rw [msatTail_block, List.length_append, List.length_append, ih (offset + 1)]
    simp only [List.length_map, List.length_range', List.length_singleton]
    cfb_consts
    omega

/-- entry `i` of the FAT-sector list names sector `difat + i`: FAT sectors follow the DIFAT sectors -/
theorem msatEntry_fat (loc : Loc) (i : Nat) (h : i < loc.fat) : msatEntry loc i = ((loc.difat + i : Nat) : Int) := by
  simp [msatEntry, h]

theorem msatHead_length (loc : Loc) : (msatHead loc).length = msatHdr := by simp [msatHead]

end XlModel.Cfb
