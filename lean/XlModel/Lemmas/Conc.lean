import XlModel.Conc
namespace XlModel.Conc
end XlModel.Conc
