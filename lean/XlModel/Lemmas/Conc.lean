import XlModel.Conc
/-!
General theorems about the interleaving semantics of `XlModel.Conc`, proved once
for all lock / location types, all thread counts and all interleavings.
-/
namespace XlModel.Conc
variable {L X : Type} [DecidableEq L] [DecidableEq X]
set_option linter.unusedSectionVars false

/-! ### list plumbing -/

theorem forall_mem_replace {α : Type} {P : α → Prop} {pre post : List α} {t t' : α}
    (h : ∀ x ∈ pre ++ t :: post, P x) (ht' : P t → P t') : ∀ x ∈ pre ++ t' :: post, P x := by
  intro x hx
  rcases List.mem_append.mp hx with hx | hx
  · exact h x (List.mem_append.mpr (Or.inl hx))
  · rcases List.mem_cons.mp hx with rfl | hx
    · exact ht' (h t (List.mem_append.mpr (Or.inr (List.mem_cons_self))))
    · exact h x (List.mem_append.mpr (Or.inr (List.mem_cons_of_mem _ hx)))

theorem pairwise_replace {α : Type} {R : α → α → Prop} {pre post : List α} {t t' : α}
    (h : (pre ++ t :: post).Pairwise R)
    (h1 : ∀ x ∈ pre, R x t → R x t') (h2 : ∀ y ∈ post, R t y → R t' y) :
    (pre ++ t' :: post).Pairwise R := by
  rw [List.pairwise_append] at h ⊢
  obtain ⟨hp, hc, hx⟩ := h
  rw [List.pairwise_cons] at hc ⊢
  refine ⟨hp, ⟨fun y hy => h2 y hy (hc.1 y hy), hc.2⟩, ?_⟩
  intro a ha b hb
  rcases List.mem_cons.mp hb with rfl | hb
  · exact h1 a ha (hx a ha t List.mem_cons_self)
  · exact hx a ha b (List.mem_cons_of_mem _ hb)

theorem exists_bound {α : Type} (f : α → Nat) (l : List α) : ∃ M, ∀ x ∈ l, f x ≤ M := by
  induction l with
  | nil => exact ⟨0, by simp⟩
  | cons a l ih =>
    obtain ⟨M, hM⟩ := ih
    refine ⟨max (f a) M, ?_⟩
    intro x hx
    rcases List.mem_cons.mp hx with rfl | hx
    · exact Nat.le_max_left _ _
    · exact Nat.le_trans (hM x hx) (Nat.le_max_right _ _)

/-! ### thread-level facts about `okOrder` -/

theorem okOrder_iff (rank : L → Nat) (h : List L) (p : List (Action L X)) :
    okOrder rank h p = true ↔ runOrder rank h p = some [] := by
  simp [okOrder]

theorem okOrder_nil {rank : L → Nat} {h : List L} (hk : okOrder rank h ([] : List (Action L X)) = true) : h = [] := by
  have := (okOrder_iff rank h ([] : List (Action L X))).mp hk
  simpa [runOrder] using this

theorem okOrder_acq {rank : L → Nat} {h : List L} {l : L} {r : List (Action L X)}
    (hk : okOrder rank h (.acq l :: r) = true) :
    (∀ k ∈ h, rank k < rank l) ∧ okOrder rank (l :: h) r = true := by
  have := (okOrder_iff rank h (.acq l :: r)).mp hk
  simp only [runOrder] at this
  split at this
  · rename_i hall
    refine ⟨?_, (okOrder_iff _ _ _).mpr this⟩
    intro k hk'
    have := List.all_eq_true.mp hall k hk'
    simpa using this
  · simp at this

theorem okOrder_rel {rank : L → Nat} {h : List L} {l : L} {r : List (Action L X)}
    (hk : okOrder rank h (.rel l :: r) = true) :
    l ∈ h ∧ okOrder rank (h.erase l) r = true := by
  have := (okOrder_iff rank h (.rel l :: r)).mp hk
  simp only [runOrder] at this
  split at this
  · rename_i hm
    exact ⟨hm, (okOrder_iff _ _ _).mpr this⟩
  · simp at this

theorem okOrder_rd {rank : L → Nat} {h : List L} {x : X} {r : List (Action L X)}
    (hk : okOrder rank h (.rd x :: r) = true) : okOrder rank h r = true := by
  have := (okOrder_iff rank h (.rd x :: r)).mp hk
  simp only [runOrder] at this
  exact (okOrder_iff _ _ _).mpr this

theorem okOrder_wr {rank : L → Nat} {h : List L} {x : X} {r : List (Action L X)}
    (hk : okOrder rank h (.wr x :: r) = true) : okOrder rank h r = true := by
  have := (okOrder_iff rank h (.wr x :: r)).mp hk
  simp only [runOrder] at this
  exact (okOrder_iff _ _ _).mpr this

/-! ### the lock discipline is an invariant -/

theorem step_preserves_order (rank : L → Nat) {s s' : Sys L X}
    (h : ∀ t ∈ s, okOrder rank t.held t.rest = true) (st : Step s s') :
    ∀ t ∈ s', okOrder rank t.held t.rest = true := by
  cases st with
  | acq pre post hd l r _ => exact forall_mem_replace h (fun hk => (okOrder_acq hk).2)
  | rel pre post hd l r _ => exact forall_mem_replace h (fun hk => (okOrder_rel hk).2)
  | rd pre post hd x r => exact forall_mem_replace h (fun hk => okOrder_rd hk)
  | wr pre post hd x r => exact forall_mem_replace h (fun hk => okOrder_wr hk)

theorem reach_preserves_order (rank : L → Nat) {s s' : Sys L X}
    (h : ∀ t ∈ s, okOrder rank t.held t.rest = true) (r : Reach s s') :
    ∀ t ∈ s', okOrder rank t.held t.rest = true := by
  induction r with
  | refl => exact h
  | step _ st ih => exact step_preserves_order rank ih st

theorem init_order (rank : L → Nat) (progs : List (List (Action L X)))
    (h : ∀ p ∈ progs, okOrder rank [] p = true) :
    ∀ t ∈ initSys progs, okOrder rank t.held t.rest = true := by
  intro t ht
  simp only [initSys, List.mem_map] at ht
  obtain ⟨p, hp, rfl⟩ := ht
  exact h p hp

/-! ### deadlock freedom -/

/-- a thread whose next action is not a blocked `acq` can move -/
theorem can_step_of_mem (rank : L → Nat) (s : Sys L X) (t : TState L X) (ht : t ∈ s)
    (hk : okOrder rank t.held t.rest = true) (a : Action L X) (r : List (Action L X))
    (hr : t.rest = a :: r) (hacq : ∀ l, a = .acq l → Free s l) : ∃ s', Step s s' := by
  obtain ⟨pre, post, rfl⟩ := List.append_of_mem ht
  obtain ⟨hd, rest⟩ := t
  simp only at hr hk
  subst hr
  cases a with
  | acq l => exact ⟨_, Step.acq pre post hd l r (hacq l rfl)⟩
  | rel l => exact ⟨_, Step.rel pre post hd l r (okOrder_rel hk).1⟩
  | rd x => exact ⟨_, Step.rd pre post hd x r⟩
  | wr x => exact ⟨_, Step.wr pre post hd x r⟩

/-- **ordered_no_deadlock**: if every thread takes its locks in strictly
increasing rank (and releases only what it holds), a state in which some thread
still has work to do always has an enabled step: there is no deadlock, for any
number of threads. -/
theorem ordered_no_deadlock (rank : L → Nat) (s : Sys L X)
    (h : ∀ t ∈ s, okOrder rank t.held t.rest = true) (hne : ¬ Finished s) : ∃ s', Step s s' := by
  apply Classical.byContradiction
  intro hno
  -- every unfinished thread is blocked at an `acq` of a lock that is not free
  have blocked : ∀ t ∈ s, ∀ a r, t.rest = a :: r → ∃ l, a = .acq l ∧ ¬ Free s l := by
    intro t ht a r hr
    cases a with
    | acq l =>
      refine ⟨l, rfl, ?_⟩
      intro hf
      exact hno (can_step_of_mem rank s t ht (h t ht) _ r hr (fun l' e => by cases e; exact hf))
    | rel l => exact absurd (can_step_of_mem rank s t ht (h t ht) _ r hr (fun l' e => by cases e)) hno
    | rd x => exact absurd (can_step_of_mem rank s t ht (h t ht) _ r hr (fun l' e => by cases e)) hno
    | wr x => exact absurd (can_step_of_mem rank s t ht (h t ht) _ r hr (fun l' e => by cases e)) hno
  -- whoever waits for a lock waits for a thread that itself waits for a lock of higher rank
  have climb : ∀ t ∈ s, ∀ l r, t.rest = .acq l :: r →
      ∃ u ∈ s, ∃ l' r', u.rest = .acq l' :: r' ∧ rank l < rank l' := by
    intro t ht l r hr
    obtain ⟨l0, e, hnf⟩ := blocked t ht _ r hr
    cases e
    have : ∃ u ∈ s, l ∈ u.held := by
      apply Classical.byContradiction
      intro hnone
      apply hnf
      intro u hu hl
      exact hnone ⟨u, hu, hl⟩
    obtain ⟨u, hu, hlu⟩ := this
    cases hur : u.rest with
    | nil =>
      have hk := h u hu
      rw [hur] at hk
      have := okOrder_nil hk
      rw [this] at hlu
      cases hlu
    | cons a r' =>
      obtain ⟨l', e, _⟩ := blocked u hu a r' hur
      subst e
      have hk := h u hu
      rw [hur] at hk
      exact ⟨u, hu, l', r', hur, (okOrder_acq hk).1 l hlu⟩
  -- ranks of wanted locks are bounded: contradiction
  obtain ⟨M, hM⟩ := exists_bound
    (fun t : TState L X => match t.rest with | .acq l :: _ => rank l | _ => 0) s
  have noWait : ∀ n, ∀ t ∈ s, ∀ l r, t.rest = .acq l :: r → M - rank l = n → False := by
    intro n
    induction n using Nat.strongRecOn with
    | _ n ih =>
      intro t ht l r hr hn
      obtain ⟨u, hu, l', r', hur, hlt⟩ := climb t ht l r hr
      have hb := hM u hu
      simp only [hur] at hb
      exact ih (M - rank l') (by omega) u hu l' r' hur rfl
  -- some thread is unfinished
  have : ∃ t ∈ s, t.rest ≠ [] := by
    apply Classical.byContradiction
    intro hnone
    apply hne
    intro t ht
    apply Classical.byContradiction
    intro hr
    exact hnone ⟨t, ht, hr⟩
  obtain ⟨t, ht, hr⟩ := this
  cases hrest : t.rest with
  | nil => exact hr hrest
  | cons a r =>
    obtain ⟨l, e, _⟩ := blocked t ht a r hrest
    subst e
    exact noWait _ t ht l r hrest rfl

theorem ordered_no_deadlock_reach (rank : L → Nat) (progs : List (List (Action L X)))
    (h : ∀ p ∈ progs, okOrder rank [] p = true) {s : Sys L X} (r : Reach (initSys progs) s)
    (hne : ¬ Finished s) : ∃ s', Step s s' :=
  ordered_no_deadlock rank s (reach_preserves_order rank (init_order rank progs h) r) hne

/-! ### termination measure -/

def size (s : Sys L X) : Nat := (s.map (fun t => t.rest.length)).sum

theorem size_replace (pre post : Sys L X) (t : TState L X) :
    size (pre ++ t :: post) = size pre + t.rest.length + size post := by
  simp [size, List.map_append, List.sum_append, Nat.add_assoc]

theorem step_decreases {s s' : Sys L X} (st : Step s s') : size s' < size s := by
  cases st <;> simp only [size_replace, List.length_cons] <;> omega

theorem finished_holds_nothing (rank : L → Nat) (s : Sys L X)
    (h : ∀ t ∈ s, okOrder rank t.held t.rest = true) (hf : Finished s) : ∀ t ∈ s, t.held = [] := by
  intro t ht
  have hk := h t ht
  rw [hf t ht] at hk
  exact okOrder_nil hk

/-! ### mutual exclusion -/

def Mutex (s : Sys L X) : Prop := s.Pairwise (fun t u => ∀ l, l ∈ t.held → l ∉ u.held)

theorem mutex_init (progs : List (List (Action L X))) : Mutex (initSys progs) := by
  induction progs with
  | nil => simp [Mutex, initSys]
  | cons p ps ih =>
    unfold Mutex initSys at *
    rw [List.map_cons, List.pairwise_cons]
    refine ⟨?_, ih⟩
    intro u _ l hl
    simp at hl

theorem step_preserves_mutex {s s' : Sys L X} (hm : Mutex s) (st : Step s s') : Mutex s' := by
  cases st with
  | acq pre post hd l r hfree =>
    refine pairwise_replace hm ?_ ?_
    · intro x hx hR k hk
      have hxl : l ∉ x.held := hfree x (List.mem_append.mpr (Or.inl hx))
      intro hmem
      rcases List.mem_cons.mp hmem with rfl | hmem
      · exact hxl hk
      · exact hR k hk hmem
    · intro y hy hR k hk
      have hyl : l ∉ y.held := hfree y (List.mem_append.mpr (Or.inr (List.mem_cons_of_mem _ hy)))
      rcases List.mem_cons.mp hk with rfl | hk
      · exact hyl
      · exact hR k hk
  | rel pre post hd l r _ =>
    refine pairwise_replace hm ?_ ?_
    · intro x _ hR k hk hmem
      exact hR k hk (List.mem_of_mem_erase hmem)
    · intro y _ hR k hk
      exact hR k (List.mem_of_mem_erase hk)
  | rd pre post hd x r => exact pairwise_replace hm (fun _ _ hR => hR) (fun _ _ hR => hR)
  | wr pre post hd x r => exact pairwise_replace hm (fun _ _ hR => hR) (fun _ _ hR => hR)

theorem reach_preserves_mutex {s s' : Sys L X} (hm : Mutex s) (r : Reach s s') : Mutex s' := by
  induction r with
  | refl => exact hm
  | step _ st ih => exact step_preserves_mutex ih st

/-! ### guardedness is an invariant; guarded locations are race free -/

theorem okGuard_acq {guard : X → Option L} {chk : X → Bool} {h : List L} {l : L} {r : List (Action L X)}
    (hk : okGuard guard chk h (.acq l :: r) = true) : okGuard guard chk (l :: h) r = true := by
  simpa [okGuard] using hk

theorem okGuard_rel {guard : X → Option L} {chk : X → Bool} {h : List L} {l : L} {r : List (Action L X)}
    (hk : okGuard guard chk h (.rel l :: r) = true) : okGuard guard chk (h.erase l) r = true := by
  simpa [okGuard] using hk

theorem okGuard_rd {guard : X → Option L} {chk : X → Bool} {h : List L} {x : X} {r : List (Action L X)}
    (hk : okGuard guard chk h (.rd x :: r) = true) : okGuard guard chk h r = true := by
  simp only [okGuard, Bool.and_eq_true] at hk
  exact hk.2

theorem okGuard_wr {guard : X → Option L} {chk : X → Bool} {h : List L} {x : X} {r : List (Action L X)}
    (hk : okGuard guard chk h (.wr x :: r) = true) : okGuard guard chk h r = true := by
  simp only [okGuard, Bool.and_eq_true] at hk
  exact hk.2

/-- the next action touches a checked location only under its guard -/
theorem okGuard_head {guard : X → Option L} {chk : X → Bool} {h : List L} {a : Action L X}
    {r : List (Action L X)} (hk : okGuard guard chk h (a :: r) = true) {x : X}
    (ht : a.touches x = true) (hx : chk x = true) : ∃ g, guard x = some g ∧ g ∈ h := by
  cases a with
  | acq l => simp [Action.touches] at ht
  | rel l => simp [Action.touches] at ht
  | rd y =>
    simp only [Action.touches, decide_eq_true_eq] at ht
    subst ht
    simp only [okGuard, Bool.and_eq_true, Bool.or_eq_true, Bool.not_eq_true', hx] at hk
    rcases hk.1 with hc | hc
    · cases hc
    · cases hg : guard y with
      | none => simp [hg] at hc
      | some g => exact ⟨g, rfl, by simpa [hg] using hc⟩
  | wr y =>
    simp only [Action.touches, decide_eq_true_eq] at ht
    subst ht
    simp only [okGuard, Bool.and_eq_true, Bool.or_eq_true, Bool.not_eq_true', hx] at hk
    rcases hk.1 with hc | hc
    · cases hc
    · cases hg : guard y with
      | none => simp [hg] at hc
      | some g => exact ⟨g, rfl, by simpa [hg] using hc⟩

theorem step_preserves_guard (guard : X → Option L) (chk : X → Bool) {s s' : Sys L X}
    (h : ∀ t ∈ s, okGuard guard chk t.held t.rest = true) (st : Step s s') :
    ∀ t ∈ s', okGuard guard chk t.held t.rest = true := by
  cases st with
  | acq pre post hd l r _ => exact forall_mem_replace h (fun hk => okGuard_acq hk)
  | rel pre post hd l r _ => exact forall_mem_replace h (fun hk => okGuard_rel hk)
  | rd pre post hd x r => exact forall_mem_replace h (fun hk => okGuard_rd hk)
  | wr pre post hd x r => exact forall_mem_replace h (fun hk => okGuard_wr hk)

theorem reach_preserves_guard (guard : X → Option L) (chk : X → Bool) {s s' : Sys L X}
    (h : ∀ t ∈ s, okGuard guard chk t.held t.rest = true) (r : Reach s s') :
    ∀ t ∈ s', okGuard guard chk t.held t.rest = true := by
  induction r with
  | refl => exact h
  | step _ st ih => exact step_preserves_guard guard chk ih st

theorem init_guard (guard : X → Option L) (chk : X → Bool) (progs : List (List (Action L X)))
    (h : ∀ p ∈ progs, okGuard guard chk [] p = true) :
    ∀ t ∈ initSys progs, okGuard guard chk t.held t.rest = true := by
  intro t ht
  simp only [initSys, List.mem_map] at ht
  obtain ⟨p, hp, rfl⟩ := ht
  exact h p hp

/-- two different threads of a `Mutex` system never hold the same lock -/
theorem mutex_apart {s : Sys L X} (hm : Mutex s) {pre mid post : Sys L X} {t u : TState L X}
    (hs : s = pre ++ t :: mid ++ u :: post) (g : L) (ht : g ∈ t.held) (hu : g ∈ u.held) : False := by
  subst hs
  unfold Mutex at hm
  rw [List.pairwise_append] at hm
  obtain ⟨h1, _, hx⟩ := hm
  exact hx t (List.mem_append.mpr (Or.inr List.mem_cons_self)) u List.mem_cons_self g ht hu

/-- **guarded_race_free**: if every access to a checked location happens while its
guard is held (in every thread) then no checked location is ever raced on. -/
theorem guarded_race_free (guard : X → Option L) (chk : X → Bool) (s : Sys L X) (hm : Mutex s)
    (hg : ∀ t ∈ s, okGuard guard chk t.held t.rest = true) (x : X) (hx : chk x = true) :
    ¬ RaceOn s x := by
  rintro ⟨pre, mid, post, t, u, a, b, ra, rb, hs, hta, hub, hax, hbx, _⟩
  have htm : t ∈ s := by rw [hs]; simp
  have hum : u ∈ s := by rw [hs]; simp
  have hkt := hg t htm
  have hku := hg u hum
  rw [hta] at hkt
  rw [hub] at hku
  obtain ⟨g, hg1, hgt⟩ := okGuard_head hkt hax hx
  obtain ⟨g', hg2, hgu⟩ := okGuard_head hku hbx hx
  rw [hg1] at hg2
  cases hg2
  exact mutex_apart hm hs g hgt hgu

theorem guarded_race_free_reach (guard : X → Option L) (chk : X → Bool)
    (progs : List (List (Action L X))) (h : ∀ p ∈ progs, okGuard guard chk [] p = true)
    {s : Sys L X} (r : Reach (initSys progs) s) (x : X) (hx : chk x = true) : ¬ RaceOn s x :=
  guarded_race_free guard chk s (reach_preserves_mutex (mutex_init progs) r)
    (reach_preserves_guard guard chk (init_guard guard chk progs h) r) x hx

/-- **critical sections exclude each other**: while a thread holds the guard of
`x`, no other thread's next action touches `x` — the critical sections over one
location are totally ordered in every execution. -/
theorem critical_section_exclusive (guard : X → Option L) (chk : X → Bool) (s : Sys L X)
    (hm : Mutex s) (hg : ∀ t ∈ s, okGuard guard chk t.held t.rest = true) (x : X) (g : L)
    (hx : chk x = true) (hgx : guard x = some g) (t u : TState L X) (pre mid post : Sys L X)
    (hs : s = pre ++ t :: mid ++ u :: post ∨ s = pre ++ u :: mid ++ t :: post)
    (ht : g ∈ t.held) (a : Action L X) (ra : List (Action L X)) (hu : u.rest = a :: ra) :
    a.touches x = false := by
  cases hax : a.touches x with
  | false => rfl
  | true =>
    exfalso
    have hum : u ∈ s := by rcases hs with hs | hs <;> (rw [hs]; simp)
    have hku := hg u hum
    rw [hu] at hku
    obtain ⟨g', hg2, hgu⟩ := okGuard_head hku hax hx
    rw [hgx] at hg2
    cases hg2
    rcases hs with hs | hs
    · exact mutex_apart hm hs g ht hgu
    · exact mutex_apart hm hs g hgu ht

/-! ### compositionality: a thread that performs several balanced operations in a row -/

theorem runOrder_append (rank : L → Nat) (h h' : List L) (p q : List (Action L X))
    (hp : runOrder rank h p = some h') : runOrder rank h (p ++ q) = runOrder rank h' q := by
  induction p generalizing h with
  | nil => simp [runOrder] at hp; subst hp; rfl
  | cons a p ih =>
    cases a with
    | acq l =>
      simp only [runOrder, List.cons_append] at hp ⊢
      split at hp
      · rename_i hc; simp only [hc, if_true]; exact ih _ hp
      · cases hp
    | rel l =>
      simp only [runOrder, List.cons_append] at hp ⊢
      split at hp
      · rename_i hc; simp only [hc, if_true]; exact ih _ hp
      · cases hp
    | rd x => simp only [runOrder, List.cons_append] at hp ⊢; exact ih _ hp
    | wr x => simp only [runOrder, List.cons_append] at hp ⊢; exact ih _ hp

theorem okOrder_append (rank : L → Nat) (p q : List (Action L X))
    (hp : okOrder rank [] p = true) (hq : okOrder rank [] q = true) : okOrder rank [] (p ++ q) = true := by
  rw [okOrder_iff] at hp hq ⊢
  rw [runOrder_append rank [] [] p q hp]
  exact hq

theorem okGuard_append (rank : L → Nat) (guard : X → Option L) (chk : X → Bool) (h h' : List L)
    (p q : List (Action L X)) (hp : runOrder rank h p = some h') :
    okGuard guard chk h (p ++ q) = (okGuard guard chk h p && okGuard guard chk h' q) := by
  induction p generalizing h with
  | nil => simp [runOrder] at hp; subst hp; simp [okGuard]
  | cons a p ih =>
    cases a with
    | acq l =>
      simp only [runOrder] at hp
      split at hp
      · simp only [okGuard, List.cons_append]; exact ih _ hp
      · cases hp
    | rel l =>
      simp only [runOrder] at hp
      split at hp
      · simp only [okGuard, List.cons_append]; exact ih _ hp
      · cases hp
    | rd x =>
      simp only [runOrder] at hp
      simp only [okGuard, List.cons_append, ih _ hp, Bool.and_assoc]
    | wr x =>
      simp only [runOrder] at hp
      simp only [okGuard, List.cons_append, ih _ hp, Bool.and_assoc]

theorem okOrder_flatten (rank : L → Nat) (ops : List (List (Action L X)))
    (h : ∀ p ∈ ops, okOrder rank [] p = true) : okOrder rank [] ops.flatten = true := by
  induction ops with
  | nil => simp [okOrder, runOrder]
  | cons p ps ih =>
    rw [List.flatten_cons]
    exact okOrder_append rank p ps.flatten (h p List.mem_cons_self)
      (ih (fun q hq => h q (List.mem_cons_of_mem _ hq)))

theorem okGuard_flatten (rank : L → Nat) (guard : X → Option L) (chk : X → Bool)
    (ops : List (List (Action L X))) (ho : ∀ p ∈ ops, okOrder rank [] p = true)
    (hg : ∀ p ∈ ops, okGuard guard chk [] p = true) : okGuard guard chk [] ops.flatten = true := by
  induction ops with
  | nil => simp [okGuard]
  | cons p ps ih =>
    rw [List.flatten_cons,
      okGuard_append rank guard chk [] [] p ps.flatten ((okOrder_iff _ _ _).mp (ho p List.mem_cons_self))]
    simp only [Bool.and_eq_true]
    exact ⟨hg p List.mem_cons_self,
      ih (fun q hq => ho q (List.mem_cons_of_mem _ hq)) (fun q hq => hg q (List.mem_cons_of_mem _ hq))⟩

end XlModel.Conc
