import XlModel.Lemmas.ConcLin
/-!
Lock *instances*: renaming locks and locations along maps `φ`, `ψ` (e.g. the class-level
worksheet mutex `Ws` to the mutex of worksheet `k`) preserves the per-thread checks, so the
general theorems apply to the instance-indexed system.
-/
namespace XlModel.Conc
variable {L X L' X' : Type} [DecidableEq L] [DecidableEq X] [DecidableEq L'] [DecidableEq X']
set_option linter.unusedSectionVars false

def mapAct (φ : L → L') (ψ : X → X') : Action L X → Action L' X'
  | .acq l => .acq (φ l)
  | .rel l => .rel (φ l)
  | .rd x => .rd (ψ x)
  | .wr x => .wr (ψ x)

theorem map_erase_inj (φ : L → L') (hφ : Function.Injective φ) (a : L) :
    ∀ h : List L, (h.erase a).map φ = (h.map φ).erase (φ a) := by
  intro h
  induction h with
  | nil => rfl
  | cons b h ih =>
    by_cases hb : b = a
    · subst hb; simp
    · have : φ b ≠ φ a := fun e => hb (hφ e)
      simp [List.erase_cons, hb, this, ih]

theorem mem_map_inj (φ : L → L') (hφ : Function.Injective φ) (a : L) (h : List L) :
    φ a ∈ h.map φ ↔ a ∈ h := by
  constructor
  · intro hm
    obtain ⟨b, hb, e⟩ := List.mem_map.mp hm
    rw [← hφ e]; exact hb
  · intro hm; exact List.mem_map.mpr ⟨a, hm, rfl⟩

theorem runOrder_map (φ : L → L') (hφ : Function.Injective φ) (ψ : X → X') (rank : L → Nat)
    (rank' : L' → Nat) (hr : ∀ l, rank' (φ l) = rank l) :
    ∀ (p : List (Action L X)) (h : List L),
      runOrder rank' (h.map φ) (p.map (mapAct φ ψ)) = (runOrder rank h p).map (List.map φ) := by
  intro p
  induction p with
  | nil => intro h; simp [runOrder]
  | cons a p ih =>
    intro h
    cases a with
    | acq l =>
      simp only [List.map_cons, mapAct, runOrder]
      have hall : (h.map φ).all (fun k => decide (rank' k < rank' (φ l))) = h.all (fun k => decide (rank k < rank l)) := by
        simp [List.all_map, Function.comp_def, hr]
      rw [hall]
      by_cases hc : h.all (fun k => decide (rank k < rank l)) = true
      · simp only [hc, if_true]
        have := ih (l :: h)
        simpa using this
      · simp [hc]
    | rel l =>
      simp only [List.map_cons, mapAct, runOrder]
      by_cases hc : l ∈ h
      · have hc' : φ l ∈ h.map φ := (mem_map_inj φ hφ l h).mpr hc
        simp only [hc, hc', if_true]
        rw [← map_erase_inj φ hφ l h]
        exact ih (h.erase l)
      · have hc' : ¬ φ l ∈ h.map φ := fun e => hc ((mem_map_inj φ hφ l h).mp e)
        simp [hc, hc']
    | rd x => simp only [List.map_cons, mapAct, runOrder]; exact ih h
    | wr x => simp only [List.map_cons, mapAct, runOrder]; exact ih h

theorem okOrder_map (φ : L → L') (hφ : Function.Injective φ) (ψ : X → X') (rank : L → Nat)
    (rank' : L' → Nat) (hr : ∀ l, rank' (φ l) = rank l) (p : List (Action L X))
    (h : okOrder rank [] p = true) : okOrder rank' [] (p.map (mapAct φ ψ)) = true := by
  rw [okOrder_iff] at h ⊢
  have := runOrder_map φ hφ ψ rank rank' hr p []
  simp only [List.map_nil] at this
  rw [this, h]
  rfl

theorem okGuard_map (φ : L → L') (hφ : Function.Injective φ) (ψ : X → X')
    (guard : X → Option L) (guard' : X' → Option L') (chk : X → Bool) (chk' : X' → Bool)
    (hg : ∀ x, guard' (ψ x) = (guard x).map φ) (hc : ∀ x, chk' (ψ x) = chk x) :
    ∀ (p : List (Action L X)) (h : List L),
      okGuard guard' chk' (h.map φ) (p.map (mapAct φ ψ)) = okGuard guard chk h p := by
  intro p
  induction p with
  | nil => intro h; simp [okGuard]
  | cons a p ih =>
    intro h
    cases a with
    | acq l =>
      simp only [List.map_cons, mapAct, okGuard]
      have := ih (l :: h)
      simpa using this
    | rel l =>
      simp only [List.map_cons, mapAct, okGuard]
      rw [← map_erase_inj φ hφ l h]
      exact ih (h.erase l)
    | rd x =>
      simp only [List.map_cons, mapAct, okGuard, hg, hc, ih h]
      cases hgx : guard x with
      | none => simp
      | some g => simp [mem_map_inj φ hφ g h]
    | wr x =>
      simp only [List.map_cons, mapAct, okGuard, hg, hc, ih h]
      cases hgx : guard x with
      | none => simp
      | some g => simp [mem_map_inj φ hφ g h]

end XlModel.Conc
