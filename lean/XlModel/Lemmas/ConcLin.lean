import XlModel.Lemmas.Conc
/-!
Linearizability of critical sections (C15, clause "the final workbook equals the
result of some sequential ordering of the same calls").

Executions are recorded as traces of events `(thread index, action)`.  For one
guard lock `g` with footprint `F` (the checked locations guarded by `g`) the trace
is cut into *sections*: the footprint accesses between an `acq g` and the next
`rel g`.  Main results, for every execution of threads that respect the guard
table (`okGuard`):

* `exec_disc` — the trace is *disciplined*: `acq g` happens only while nobody is
  inside a section, `rel g` and every footprint access are made by the thread that
  is inside;
* `blocks_flat` — the history of footprint accesses of the whole execution is the
  concatenation of whole sections, in the order in which the sections were entered;
* `blocks_filter` / `exec_proj` — the sections of thread `i` are exactly the
  sections of its own program, in program order;
* `blocks_append` — a thread that performs lock-balanced operations one after the
  other has the concatenation of the operations' sections.

Hence every interleaving has the same footprint history — and therefore, for any
state semantics, the same final footprint state — as the *sequential* execution
that runs whole sections one after the other in entry order.
-/
namespace XlModel.Conc
variable {L X : Type} [DecidableEq L] [DecidableEq X]
set_option linter.unusedSectionVars false
set_option linter.unusedVariables false

abbrev Event (L X : Type) := Nat × Action L X

/-- labelled step (index form): thread `i` performs its next action -/
inductive StepL : Sys L X → Event L X → Sys L X → Prop where
  | acq (s : Sys L X) (i : Nat) (h : List L) (l : L) (r : List (Action L X)) :
      s[i]? = some ⟨h, .acq l :: r⟩ → Free s l → StepL s (i, .acq l) (s.set i ⟨l :: h, r⟩)
  | rel (s : Sys L X) (i : Nat) (h : List L) (l : L) (r : List (Action L X)) :
      s[i]? = some ⟨h, .rel l :: r⟩ → l ∈ h → StepL s (i, .rel l) (s.set i ⟨h.erase l, r⟩)
  | rd (s : Sys L X) (i : Nat) (h : List L) (x : X) (r : List (Action L X)) :
      s[i]? = some ⟨h, .rd x :: r⟩ → StepL s (i, .rd x) (s.set i ⟨h, r⟩)
  | wr (s : Sys L X) (i : Nat) (h : List L) (x : X) (r : List (Action L X)) :
      s[i]? = some ⟨h, .wr x :: r⟩ → StepL s (i, .wr x) (s.set i ⟨h, r⟩)

/-- an execution with its trace -/
inductive Exec : Sys L X → List (Event L X) → Sys L X → Prop where
  | nil (s : Sys L X) : Exec s [] s
  | cons {s s' s'' : Sys L X} {e : Event L X} {τ : List (Event L X)} :
      StepL s e s' → Exec s' τ s'' → Exec s (e :: τ) s''

/-! ### index plumbing -/

theorem split_at {α : Type} : ∀ (s : List α) (i : Nat) (t : α), s[i]? = some t →
    ∃ pre post, s = pre ++ t :: post ∧ pre.length = i ∧ ∀ t', s.set i t' = pre ++ t' :: post := by
  intro s
  induction s with
  | nil => intro i t h; simp at h
  | cons a s ih =>
    intro i t h
    cases i with
    | zero =>
      simp at h
      subst h
      exact ⟨[], s, rfl, rfl, fun _ => rfl⟩
    | succ i =>
      simp at h
      obtain ⟨pre, post, e, hl, hs⟩ := ih i t h
      refine ⟨a :: pre, post, by rw [e]; rfl, by simp [hl], ?_⟩
      intro t'
      simp [List.set, hs t']

theorem mem_of_get {α : Type} {s : List α} {i : Nat} {t : α} (h : s[i]? = some t) : t ∈ s := by
  obtain ⟨pre, post, e, _, _⟩ := split_at s i t h
  rw [e]; simp

theorem get_set_self {α : Type} {s : List α} {i : Nat} {t t' : α} (h : s[i]? = some t) :
    (s.set i t')[i]? = some t' := by
  obtain ⟨pre, post, e, hl, hs⟩ := split_at s i t h
  rw [hs t', ← hl]
  simp

theorem get_set_ne {α : Type} {s : List α} {i j : Nat} {t' : α} (h : i ≠ j) :
    (s.set i t')[j]? = s[j]? := by
  simp [h]

theorem mem_set {α : Type} {s : List α} {i : Nat} {t t' u : α} (h : s[i]? = some t)
    (hu : u ∈ s.set i t') : u = t' ∨ u ∈ s := by
  obtain ⟨pre, post, e, _, hs⟩ := split_at s i t h
  rw [hs t'] at hu
  rw [e]
  simp only [List.mem_append, List.mem_cons] at hu ⊢
  rcases hu with hu | hu | hu
  · exact Or.inr (Or.inl hu)
  · exact Or.inl hu
  · exact Or.inr (Or.inr (Or.inr hu))

/-- a labelled step is a step of the unlabelled semantics -/
theorem StepL.toStep {s s' : Sys L X} {e : Event L X} (st : StepL s e s') : Step s s' := by
  cases st with
  | acq i h l r hg hf =>
    obtain ⟨pre, post, e, _, hs⟩ := split_at s i _ hg
    rw [hs]; subst e; exact Step.acq pre post h l r hf
  | rel i h l r hg hm =>
    obtain ⟨pre, post, e, _, hs⟩ := split_at s i _ hg
    rw [hs]; subst e; exact Step.rel pre post h l r hm
  | rd i h x r hg =>
    obtain ⟨pre, post, e, _, hs⟩ := split_at s i _ hg
    rw [hs]; subst e; exact Step.rd pre post h x r
  | wr i h x r hg =>
    obtain ⟨pre, post, e, _, hs⟩ := split_at s i _ hg
    rw [hs]; subst e; exact Step.wr pre post h x r

theorem Exec.toReach {s s' : Sys L X} {τ : List (Event L X)} (ex : Exec s τ s') : Reach s s' := by
  induction ex with
  | nil s => exact Reach.refl s
  | cons st _ ih =>
    -- Reach is left-to-right: rebuild by induction on the tail
    have : ∀ {a b c : Sys L X}, Step a b → Reach b c → Reach a c := by
      intro a b c hab hbc
      induction hbc with
      | refl => exact Reach.step (Reach.refl a) hab
      | step _ st' ih' => exact Reach.step ih' st'
    exact this st.toStep ih

theorem mutex_index {s : Sys L X} (hm : Mutex s) {i j : Nat} {t u : TState L X}
    (hi : s[i]? = some t) (hj : s[j]? = some u) (hne : i ≠ j) (l : L) (ht : l ∈ t.held) :
    l ∉ u.held := by
  unfold Mutex at hm
  rw [List.pairwise_iff_getElem] at hm
  obtain ⟨hil, hie⟩ := List.getElem?_eq_some_iff.mp hi
  obtain ⟨hjl, hje⟩ := List.getElem?_eq_some_iff.mp hj
  rcases Nat.lt_or_gt_of_ne hne with hlt | hgt
  · have := hm i j hil hjl hlt l
    rw [hie, hje] at this
    exact this ht
  · have := hm j i hjl hil hgt l
    rw [hie, hje] at this
    intro hu
    exact this hu ht

/-! ### the invariant "held lists have no duplicates" -/

def NodupHeld (s : Sys L X) : Prop := ∀ t ∈ s, t.held.Nodup

theorem nodup_init (progs : List (List (Action L X))) : NodupHeld (initSys progs) := by
  intro t ht
  simp only [initSys, List.mem_map] at ht
  obtain ⟨p, _, rfl⟩ := ht
  exact List.nodup_nil

theorem stepL_nodup {s s' : Sys L X} {e : Event L X} (hn : NodupHeld s) (st : StepL s e s') :
    NodupHeld s' := by
  cases st with
  | acq i h l r hg hf =>
    intro u hu
    rcases mem_set hg hu with rfl | hu
    · have hm := mem_of_get hg
      exact List.nodup_cons.mpr ⟨hf _ hm, hn _ hm⟩
    · exact hn u hu
  | rel i h l r hg hm =>
    intro u hu
    rcases mem_set hg hu with rfl | hu
    · exact (hn _ (mem_of_get hg)).erase l
    · exact hn u hu
  | rd i h x r hg =>
    intro u hu
    rcases mem_set hg hu with rfl | hu
    · have := hn _ (mem_of_get hg)
      exact this
    · exact hn u hu
  | wr i h x r hg =>
    intro u hu
    rcases mem_set hg hu with rfl | hu
    · have := hn _ (mem_of_get hg)
      exact this
    · exact hn u hu

/-! ### who is inside a section of `g` -/

/-- `Holds s g ho`: `ho` is the index of the thread that holds `g` (`none`: `g` is free) -/
def Holds (s : Sys L X) (g : L) : Option Nat → Prop
  | none => Free s g
  | some i => ∃ t, s[i]? = some t ∧ g ∈ t.held

theorem holds_unique {s : Sys L X} {g : L} (hm : Mutex s) {ho : Option Nat} (hh : Holds s g ho)
    {i : Nat} {t : TState L X} (hi : s[i]? = some t) (hg : g ∈ t.held) : ho = some i := by
  cases ho with
  | none => exact absurd hg (hh t (mem_of_get hi))
  | some j =>
    obtain ⟨u, hj, hu⟩ := hh
    by_cases hji : j = i
    · rw [hji]
    · exact absurd hg (mutex_index hm hj hi hji g hu)

/-- the trace discipline of lock `g` with footprint `F` -/
def disc (g : L) (F : X → Bool) : Option Nat → List (Event L X) → Bool
  | _, [] => true
  | ho, (i, .acq l) :: r => if l = g then (ho == none) && disc g F (some i) r else disc g F ho r
  | ho, (i, .rel l) :: r => if l = g then (ho == some i) && disc g F none r else disc g F ho r
  | ho, (i, .rd x) :: r => if F x then (ho == some i) && disc g F ho r else disc g F ho r
  | ho, (i, .wr x) :: r => if F x then (ho == some i) && disc g F ho r else disc g F ho r

/-- footprint of `g` under a guard table -/
def footprint (guard : X → Option L) (chk : X → Bool) (g : L) (x : X) : Bool :=
  chk x && (guard x == some g)

theorem footprint_guard {guard : X → Option L} {chk : X → Bool} {g : L} {x : X}
    (h : footprint guard chk g x = true) : chk x = true ∧ guard x = some g := by
  simp only [footprint, Bool.and_eq_true, beq_iff_eq] at h
  exact h

/-- holding is preserved when the held set of thread `i` changes but keeps (or keeps lacking) `g` -/
theorem holds_set {s : Sys L X} {g : L} {i : Nat} {t t' : TState L X} (hi : s[i]? = some t)
    (hiff : g ∈ t'.held ↔ g ∈ t.held) {ho : Option Nat} (hh : Holds s g ho) :
    Holds (s.set i t') g ho := by
  cases ho with
  | none =>
    intro u hu
    rcases mem_set hi hu with rfl | hu
    · intro hg; exact hh t (mem_of_get hi) (hiff.mp hg)
    · exact hh u hu
  | some j =>
    obtain ⟨u, hj, hu⟩ := hh
    by_cases hji : i = j
    · subst hji
      rw [hi] at hj
      cases hj
      exact ⟨t', get_set_self hi, hiff.mpr hu⟩
    · exact ⟨u, by rw [get_set_ne hji]; exact hj, hu⟩

/-- **exec_disc**: every execution of guarded threads is disciplined -/
theorem exec_disc (guard : X → Option L) (chk : X → Bool) (g : L) {s s' : Sys L X}
    {τ : List (Event L X)} (ex : Exec s τ s') :
    ∀ (ho : Option Nat), Mutex s → NodupHeld s → (∀ t ∈ s, okGuard guard chk t.held t.rest = true) →
      Holds s g ho → disc g (footprint guard chk g) ho τ = true := by
  induction ex with
  | nil s => intro ho _ _ _ _; rfl
  | @cons s s1 s2 e τ st _ ih =>
    intro ho hm hn hg hh
    have hm' := step_preserves_mutex hm st.toStep
    have hn' := stepL_nodup hn st
    have hg' := step_preserves_guard guard chk hg st.toStep
    cases st with
    | acq i h l r hget hfree =>
      simp only [disc]
      by_cases hl : l = g
      · subst hl
        simp only [if_true, Bool.and_eq_true, beq_iff_eq]
        have hnone : ho = none := by
          cases ho with
          | none => rfl
          | some j =>
            obtain ⟨u, hj, hu⟩ := hh
            exact absurd hu (hfree u (mem_of_get hj))
        refine ⟨hnone, ih (some i) hm' hn' hg' ⟨_, get_set_self hget, List.mem_cons_self⟩⟩
      · simp only [hl, if_false]
        refine ih ho hm' hn' hg' (holds_set hget ?_ hh)
        simp only [List.mem_cons]
        constructor
        · rintro (e | h') ; exact absurd e.symm hl; exact h'
        · exact Or.inr
    | rel i h l r hget hmem =>
      simp only [disc]
      by_cases hl : l = g
      · subst hl
        simp only [if_true, Bool.and_eq_true, beq_iff_eq]
        have hsome : ho = some i := holds_unique hm hh hget hmem
        refine ⟨hsome, ih none hm' hn' hg' ?_⟩
        -- nobody holds `l` any more
        intro u hu
        obtain ⟨j, hj⟩ := List.getElem?_of_mem hu
        by_cases hji : i = j
        · subst hji
          rw [get_set_self hget] at hj
          cases hj
          have hnd := hn _ (mem_of_get hget)
          intro hc
          exact ((List.Nodup.mem_erase_iff hnd).mp hc).1 rfl
        · rw [get_set_ne hji] at hj
          exact mutex_index hm hget hj hji l hmem
      · simp only [hl, if_false]
        refine ih ho hm' hn' hg' (holds_set hget ?_ hh)
        exact ⟨fun hc => List.mem_of_mem_erase hc, fun hc => (List.mem_erase_of_ne (Ne.symm hl)).mpr hc⟩
    | rd i h x r hget =>
      simp only [disc]
      have hh' : Holds (s.set i ⟨h, r⟩) g ho := holds_set (t' := ⟨h, r⟩) hget (Iff.rfl) hh
      by_cases hF : footprint guard chk g x = true
      · simp only [hF, if_true, Bool.and_eq_true, beq_iff_eq]
        obtain ⟨hc, hgx⟩ := footprint_guard hF
        have hk := hg _ (mem_of_get hget)
        obtain ⟨g', hg1, hg2⟩ := okGuard_head (x := x) hk (by simp [Action.touches]) hc
        rw [hgx] at hg1
        cases hg1
        exact ⟨holds_unique hm hh hget hg2, ih ho hm' hn' hg' hh'⟩
      · simp only [hF, if_false]
        exact ih ho hm' hn' hg' hh'
    | wr i h x r hget =>
      simp only [disc]
      have hh' : Holds (s.set i ⟨h, r⟩) g ho := holds_set (t' := ⟨h, r⟩) hget (Iff.rfl) hh
      by_cases hF : footprint guard chk g x = true
      · simp only [hF, if_true, Bool.and_eq_true, beq_iff_eq]
        obtain ⟨hc, hgx⟩ := footprint_guard hF
        have hk := hg _ (mem_of_get hget)
        obtain ⟨g', hg1, hg2⟩ := okGuard_head (x := x) hk (by simp [Action.touches]) hc
        rw [hgx] at hg1
        cases hg1
        exact ⟨holds_unique hm hh hget hg2, ih ho hm' hn' hg' hh'⟩
      · simp only [hF, if_false]
        exact ih ho hm' hn' hg' hh'

/-! ### sections -/

/-- footprint history of a trace: its (tagged) accesses to the footprint, in order -/
def projF (F : X → Bool) : List (Event L X) → List (Event L X)
  | [] => []
  | (i, .rd x) :: r => if F x then (i, .rd x) :: projF F r else projF F r
  | (i, .wr x) :: r => if F x then (i, .wr x) :: projF F r else projF F r
  | (_, .acq _) :: r => projF F r
  | (_, .rel _) :: r => projF F r

abbrev Block (L X : Type) := Nat × List (Action L X)

def Block.events (c : Block L X) : List (Event L X) := c.2.map fun a => (c.1, a)

/-- cut a trace into the sections of `g`: (thread that entered, its footprint accesses) -/
def blocks (g : L) (F : X → Bool) : Option (Block L X) → List (Event L X) → List (Block L X)
  | none, [] => []
  | some c, [] => [c]
  | cur, (i, .acq l) :: r =>
    if l = g then (match cur with
      | some c => c :: blocks g F (some (i, [])) r
      | none => blocks g F (some (i, [])) r)
    else blocks g F cur r
  | cur, (i, .rel l) :: r =>
    if l = g then (match cur with
      | some c => c :: blocks g F none r
      | none => blocks g F none r)
    else blocks g F cur r
  | cur, (i, .rd x) :: r =>
    if F x then (match cur with
      | some (j, b) => blocks g F (some (j, b ++ [.rd x])) r
      | none => blocks g F none r)
    else blocks g F cur r
  | cur, (i, .wr x) :: r =>
    if F x then (match cur with
      | some (j, b) => blocks g F (some (j, b ++ [.wr x])) r
      | none => blocks g F none r)
    else blocks g F cur r

theorem blocks_acq (g : L) (F : X → Bool) (cur : Option (Block L X)) (i : Nat) (l : L)
    (r : List (Event L X)) : blocks g F cur ((i, .acq l) :: r) =
    if l = g then (match cur with
      | some c => c :: blocks g F (some (i, [])) r
      | none => blocks g F (some (i, [])) r)
    else blocks g F cur r := by cases cur <;> simp [blocks]

theorem blocks_rel (g : L) (F : X → Bool) (cur : Option (Block L X)) (i : Nat) (l : L)
    (r : List (Event L X)) : blocks g F cur ((i, .rel l) :: r) =
    if l = g then (match cur with
      | some c => c :: blocks g F none r
      | none => blocks g F none r)
    else blocks g F cur r := by cases cur <;> simp [blocks]

theorem blocks_rd (g : L) (F : X → Bool) (cur : Option (Block L X)) (i : Nat) (x : X)
    (r : List (Event L X)) : blocks g F cur ((i, .rd x) :: r) =
    if F x then (match cur with
      | some (j, b) => blocks g F (some (j, b ++ [.rd x])) r
      | none => blocks g F none r)
    else blocks g F cur r := by cases cur <;> simp [blocks]

theorem blocks_wr (g : L) (F : X → Bool) (cur : Option (Block L X)) (i : Nat) (x : X)
    (r : List (Event L X)) : blocks g F cur ((i, .wr x) :: r) =
    if F x then (match cur with
      | some (j, b) => blocks g F (some (j, b ++ [.wr x])) r
      | none => blocks g F none r)
    else blocks g F cur r := by cases cur <;> simp [blocks]

def curEvents : Option (Block L X) → List (Event L X)
  | none => []
  | some c => c.events

/-- **blocks_flat**: in a disciplined trace the footprint history is the
concatenation of whole sections in entry order -/
theorem blocks_flat (g : L) (F : X → Bool) : ∀ (τ : List (Event L X)) (cur : Option (Block L X)),
    disc g F (cur.map (·.1)) τ = true →
    (blocks g F cur τ).flatMap Block.events = curEvents cur ++ projF F τ := by
  intro τ
  induction τ with
  | nil =>
    intro cur _
    cases cur with
    | none => simp [blocks, blocks_acq, blocks_rel, blocks_rd, blocks_wr, curEvents, projF]
    | some c => simp [blocks, blocks_acq, blocks_rel, blocks_rd, blocks_wr, curEvents, projF]
  | cons e τ ih =>
    intro cur hd
    obtain ⟨i, a⟩ := e
    cases a with
    | acq l =>
      simp only [disc] at hd
      by_cases hl : l = g
      · subst hl
        simp only [if_true, Bool.and_eq_true, beq_iff_eq] at hd
        cases cur with
        | some c => simp at hd
        | none =>
          have := ih (some (i, [])) (by simpa using hd.2)
          simpa [blocks, blocks_acq, blocks_rel, blocks_rd, blocks_wr, projF, curEvents, Block.events] using this
      · simp only [hl, if_false] at hd
        have := ih cur hd
        simpa [blocks, blocks_acq, blocks_rel, blocks_rd, blocks_wr, projF, hl] using this
    | rel l =>
      simp only [disc] at hd
      by_cases hl : l = g
      · subst hl
        simp only [if_true, Bool.and_eq_true, beq_iff_eq] at hd
        cases cur with
        | none => simp at hd
        | some c =>
          have := ih none (by simpa using hd.2)
          simp only [blocks, blocks_acq, blocks_rel, blocks_rd, blocks_wr, if_true, projF, List.flatMap_cons, this, curEvents, List.nil_append]
      · simp only [hl, if_false] at hd
        have := ih cur hd
        simpa [blocks, blocks_acq, blocks_rel, blocks_rd, blocks_wr, projF, hl] using this
    | rd x =>
      simp only [disc] at hd
      by_cases hF : F x = true
      · simp only [hF, if_true, Bool.and_eq_true, beq_iff_eq] at hd
        cases cur with
        | none => simp at hd
        | some c =>
          obtain ⟨j, b⟩ := c
          have hj : j = i := by simpa using hd.1
          subst hj
          have := ih (some (j, b ++ [.rd x])) (by simpa using hd.2)
          simp only [blocks, blocks_acq, blocks_rel, blocks_rd, blocks_wr, hF, if_true, projF, this, curEvents, Block.events, List.map_append,
            List.map_cons, List.map_nil, List.append_assoc, List.cons_append, List.nil_append]
      · simp only [hF, if_false] at hd
        have := ih cur hd
        simpa [blocks, blocks_acq, blocks_rel, blocks_rd, blocks_wr, projF, hF] using this
    | wr x =>
      simp only [disc] at hd
      by_cases hF : F x = true
      · simp only [hF, if_true, Bool.and_eq_true, beq_iff_eq] at hd
        cases cur with
        | none => simp at hd
        | some c =>
          obtain ⟨j, b⟩ := c
          have hj : j = i := by simpa using hd.1
          subst hj
          have := ih (some (j, b ++ [.wr x])) (by simpa using hd.2)
          simp only [blocks, blocks_acq, blocks_rel, blocks_rd, blocks_wr, hF, if_true, projF, this, curEvents, Block.events, List.map_append,
            List.map_cons, List.map_nil, List.append_assoc, List.cons_append, List.nil_append]
      · simp only [hF, if_false] at hd
        have := ih cur hd
        simpa [blocks, blocks_acq, blocks_rel, blocks_rd, blocks_wr, projF, hF] using this

/-- the open section seen from thread `i` -/
def curOf (i : Nat) : Option (Block L X) → Option (Block L X)
  | some (j, b) => if j = i then some (j, b) else none
  | none => none

def only (i : Nat) (τ : List (Event L X)) : List (Event L X) := τ.filter fun e => e.1 == i

/-- **blocks_filter**: the sections of thread `i` in a disciplined trace are the
sections of thread `i`'s own sub-trace -/
theorem blocks_filter (g : L) (F : X → Bool) (i : Nat) :
    ∀ (τ : List (Event L X)) (cur : Option (Block L X)),
    disc g F (cur.map (·.1)) τ = true →
    (blocks g F cur τ).filter (fun c => c.1 == i) = blocks g F (curOf i cur) (only i τ) := by
  intro τ
  induction τ with
  | nil =>
    intro cur _
    cases cur with
    | none => simp [blocks, blocks_acq, blocks_rel, blocks_rd, blocks_wr, curOf, only]
    | some c =>
      obtain ⟨j, b⟩ := c
      by_cases hj : j = i
      · simp [blocks, blocks_acq, blocks_rel, blocks_rd, blocks_wr, curOf, only, hj]
      · simp [blocks, blocks_acq, blocks_rel, blocks_rd, blocks_wr, curOf, only, hj]
  | cons e τ ih =>
    intro cur hd
    obtain ⟨k, a⟩ := e
    by_cases hk : k = i
    · -- an event of thread i itself: kept by the filter
      subst hk
      have hon : only k ((k, a) :: τ) = (k, a) :: only k τ := by simp [only]
      rw [hon]
      cases a with
      | acq l =>
        simp only [disc] at hd
        by_cases hl : l = g
        · subst hl
          simp only [if_true, Bool.and_eq_true, beq_iff_eq] at hd
          cases cur with
          | some c => simp at hd
          | none =>
            have := ih (some (k, [])) (by simpa using hd.2)
            simpa [blocks, blocks_acq, blocks_rel, blocks_rd, blocks_wr, curOf] using this
        · simp only [hl, if_false] at hd
          have := ih cur hd
          simpa [blocks, blocks_acq, blocks_rel, blocks_rd, blocks_wr, hl] using this
      | rel l =>
        simp only [disc] at hd
        by_cases hl : l = g
        · subst hl
          simp only [if_true, Bool.and_eq_true, beq_iff_eq] at hd
          cases cur with
          | none => simp at hd
          | some c =>
            obtain ⟨j, b⟩ := c
            have hj : j = k := by simpa using hd.1
            subst hj
            have := ih none (by simpa using hd.2)
            simp [blocks, blocks_acq, blocks_rel, blocks_rd, blocks_wr, curOf, this]
        · simp only [hl, if_false] at hd
          have := ih cur hd
          simpa [blocks, blocks_acq, blocks_rel, blocks_rd, blocks_wr, hl] using this
      | rd x =>
        simp only [disc] at hd
        by_cases hF : F x = true
        · simp only [hF, if_true, Bool.and_eq_true, beq_iff_eq] at hd
          cases cur with
          | none => simp at hd
          | some c =>
            obtain ⟨j, b⟩ := c
            have hj : j = k := by simpa using hd.1
            subst hj
            have := ih (some (j, b ++ [.rd x])) (by simpa using hd.2)
            simpa [blocks, blocks_acq, blocks_rel, blocks_rd, blocks_wr, curOf, hF] using this
        · simp only [hF, if_false] at hd
          have := ih cur hd
          simpa [blocks, blocks_acq, blocks_rel, blocks_rd, blocks_wr, hF] using this
      | wr x =>
        simp only [disc] at hd
        by_cases hF : F x = true
        · simp only [hF, if_true, Bool.and_eq_true, beq_iff_eq] at hd
          cases cur with
          | none => simp at hd
          | some c =>
            obtain ⟨j, b⟩ := c
            have hj : j = k := by simpa using hd.1
            subst hj
            have := ih (some (j, b ++ [.wr x])) (by simpa using hd.2)
            simpa [blocks, blocks_acq, blocks_rel, blocks_rd, blocks_wr, curOf, hF] using this
        · simp only [hF, if_false] at hd
          have := ih cur hd
          simpa [blocks, blocks_acq, blocks_rel, blocks_rd, blocks_wr, hF] using this
    · -- an event of another thread: dropped by the filter
      have hon : only i ((k, a) :: τ) = only i τ := by simp [only, hk]
      rw [hon]
      cases a with
      | acq l =>
        simp only [disc] at hd
        by_cases hl : l = g
        · subst hl
          simp only [if_true, Bool.and_eq_true, beq_iff_eq] at hd
          cases cur with
          | some c => simp at hd
          | none =>
            have := ih (some (k, [])) (by simpa using hd.2)
            simpa [blocks, blocks_acq, blocks_rel, blocks_rd, blocks_wr, curOf, hk] using this
        · simp only [hl, if_false] at hd
          have := ih cur hd
          simpa [blocks, blocks_acq, blocks_rel, blocks_rd, blocks_wr, hl] using this
      | rel l =>
        simp only [disc] at hd
        by_cases hl : l = g
        · subst hl
          simp only [if_true, Bool.and_eq_true, beq_iff_eq] at hd
          cases cur with
          | none => simp at hd
          | some c =>
            obtain ⟨j, b⟩ := c
            have hj : j = k := by simpa using hd.1
            subst hj
            have := ih none (by simpa using hd.2)
            simp [blocks, blocks_acq, blocks_rel, blocks_rd, blocks_wr, curOf, this, hk]
        · simp only [hl, if_false] at hd
          have := ih cur hd
          simpa [blocks, blocks_acq, blocks_rel, blocks_rd, blocks_wr, hl] using this
      | rd x =>
        simp only [disc] at hd
        by_cases hF : F x = true
        · simp only [hF, if_true, Bool.and_eq_true, beq_iff_eq] at hd
          cases cur with
          | none => simp at hd
          | some c =>
            obtain ⟨j, b⟩ := c
            have hj : j = k := by simpa using hd.1
            subst hj
            have := ih (some (j, b ++ [.rd x])) (by simpa using hd.2)
            simpa [blocks, blocks_acq, blocks_rel, blocks_rd, blocks_wr, curOf, hF, hk] using this
        · simp only [hF, if_false] at hd
          have := ih cur hd
          simpa [blocks, blocks_acq, blocks_rel, blocks_rd, blocks_wr, hF] using this
      | wr x =>
        simp only [disc] at hd
        by_cases hF : F x = true
        · simp only [hF, if_true, Bool.and_eq_true, beq_iff_eq] at hd
          cases cur with
          | none => simp at hd
          | some c =>
            obtain ⟨j, b⟩ := c
            have hj : j = k := by simpa using hd.1
            subst hj
            have := ih (some (j, b ++ [.wr x])) (by simpa using hd.2)
            simpa [blocks, blocks_acq, blocks_rel, blocks_rd, blocks_wr, curOf, hF, hk] using this
        · simp only [hF, if_false] at hd
          have := ih cur hd
          simpa [blocks, blocks_acq, blocks_rel, blocks_rd, blocks_wr, hF] using this

/-- tag an action list with a thread index -/
def tag (i : Nat) (p : List (Action L X)) : List (Event L X) := p.map fun a => (i, a)

/-- **exec_proj**: the sub-trace of thread `i` is the prefix of its program that was executed -/
theorem exec_proj {s s' : Sys L X} {τ : List (Event L X)} (ex : Exec s τ s') :
    ∀ (i : Nat) (t : TState L X), s[i]? = some t →
      ∃ t', s'[i]? = some t' ∧ ∃ done, only i τ = tag i done ∧ done ++ t'.rest = t.rest := by
  induction ex with
  | nil s => intro i t h; exact ⟨t, h, [], rfl, rfl⟩
  | @cons s s1 s2 e τ st _ ih =>
    intro i t hi
    have key : ∀ (k : Nat) (a : Action L X) (h h' : List L) (r : List (Action L X)),
        e = (k, a) → s[k]? = some ⟨h, a :: r⟩ → s1 = s.set k ⟨h', r⟩ →
        ∃ t', s2[i]? = some t' ∧ ∃ done, only i (e :: τ) = tag i done ∧ done ++ t'.rest = t.rest := by
      intro k a h h' r he hk hs1
      subst he
      by_cases hki : k = i
      · subst hki
        rw [hi] at hk
        cases hk
        obtain ⟨t', ht', done, hd, hr⟩ := ih k ⟨h', r⟩ (by rw [hs1]; exact get_set_self hi)
        refine ⟨t', ht', a :: done, ?_, ?_⟩
        · simp [only, tag] at hd ⊢
          exact hd
        · simpa using hr
      · obtain ⟨t', ht', done, hd, hr⟩ := ih i t (by rw [hs1, get_set_ne hki]; exact hi)
        refine ⟨t', ht', done, ?_, hr⟩
        simpa [only, hki] using hd
    cases st with
    | acq k h l r hg _ => exact key k _ h (l :: h) r rfl hg rfl
    | rel k h l r hg _ => exact key k _ h (h.erase l) r rfl hg rfl
    | rd k h x r hg => exact key k _ h h r rfl hg rfl
    | wr k h x r hg => exact key k _ h h r rfl hg rfl

/-- a program all of whose `g`-sections are closed (starts and ends outside) -/
def closed (g : L) : Bool → List (Action L X) → Bool
  | inside, [] => !inside
  | inside, .acq l :: r => if l = g then !inside && closed g true r else closed g inside r
  | inside, .rel l :: r => if l = g then inside && closed g false r else closed g inside r
  | inside, _ :: r => closed g inside r

/-- **blocks_append**: the sections of `p ++ q` are those of `p` followed by those of `q`
when the sections of `p` are closed -/
theorem blocks_append (g : L) (F : X → Bool) (i : Nat) (q : List (Action L X)) :
    ∀ (p : List (Action L X)) (cur : Option (Block L X)), closed g cur.isSome p = true →
    blocks g F cur (tag i (p ++ q)) = blocks g F cur (tag i p) ++ blocks g F none (tag i q) := by
  intro p
  induction p with
  | nil =>
    intro cur hc
    cases cur with
    | none => simp [tag, blocks, blocks_acq, blocks_rel, blocks_rd, blocks_wr]
    | some c => simp [closed] at hc
  | cons a p ih =>
    intro cur hc
    cases a with
    | acq l =>
      simp only [closed] at hc
      by_cases hl : l = g
      · subst hl
        simp only [if_true, Bool.and_eq_true, Bool.not_eq_true'] at hc
        cases cur with
        | some c => simp at hc
        | none =>
          have := ih (some (i, [])) (by simpa using hc.2)
          simpa [tag, blocks, blocks_acq, blocks_rel, blocks_rd, blocks_wr] using this
      · simp only [hl, if_false] at hc
        have := ih cur hc
        simpa [tag, blocks, blocks_acq, blocks_rel, blocks_rd, blocks_wr, hl] using this
    | rel l =>
      simp only [closed] at hc
      by_cases hl : l = g
      · subst hl
        simp only [if_true, Bool.and_eq_true] at hc
        cases cur with
        | none => simp at hc
        | some c =>
          have := ih none (by simpa using hc.2)
          simp only [tag, List.map_append] at this
          simp [tag, blocks_rel, this]
      · simp only [hl, if_false] at hc
        have := ih cur hc
        simpa [tag, blocks, blocks_acq, blocks_rel, blocks_rd, blocks_wr, hl] using this
    | rd x =>
      simp only [closed] at hc
      by_cases hF : F x = true
      · cases cur with
        | none =>
          have := ih none hc
          simpa [tag, blocks, blocks_acq, blocks_rel, blocks_rd, blocks_wr, hF] using this
        | some c =>
          obtain ⟨j, b⟩ := c
          have := ih (some (j, b ++ [.rd x])) (by simpa using hc)
          simpa [tag, blocks, blocks_acq, blocks_rel, blocks_rd, blocks_wr, hF] using this
      · have := ih cur hc
        simpa [tag, blocks, blocks_acq, blocks_rel, blocks_rd, blocks_wr, hF] using this
    | wr x =>
      simp only [closed] at hc
      by_cases hF : F x = true
      · cases cur with
        | none =>
          have := ih none hc
          simpa [tag, blocks, blocks_acq, blocks_rel, blocks_rd, blocks_wr, hF] using this
        | some c =>
          obtain ⟨j, b⟩ := c
          have := ih (some (j, b ++ [.wr x])) (by simpa using hc)
          simpa [tag, blocks, blocks_acq, blocks_rel, blocks_rd, blocks_wr, hF] using this
      · have := ih cur hc
        simpa [tag, blocks, blocks_acq, blocks_rel, blocks_rd, blocks_wr, hF] using this

theorem closed_append (g : L) : ∀ (p q : List (Action L X)) (inside : Bool),
    closed g inside p = true → closed g false q = true → closed g inside (p ++ q) = true := by
  intro p
  induction p with
  | nil =>
    intro q inside hp hq
    cases inside with
    | false => simpa using hq
    | true => simp [closed] at hp
  | cons a p ih =>
    intro q inside hp hq
    cases a with
    | acq l =>
      simp only [closed, List.cons_append] at hp ⊢
      by_cases hl : l = g
      · simp only [hl, if_true, Bool.and_eq_true] at hp ⊢
        exact ⟨hp.1, ih q true hp.2 hq⟩
      · simp only [hl, if_false] at hp ⊢
        exact ih q inside hp hq
    | rel l =>
      simp only [closed, List.cons_append] at hp ⊢
      by_cases hl : l = g
      · simp only [hl, if_true, Bool.and_eq_true] at hp ⊢
        exact ⟨hp.1, ih q false hp.2 hq⟩
      · simp only [hl, if_false] at hp ⊢
        exact ih q inside hp hq
    | rd x => simp only [closed, List.cons_append] at hp ⊢; exact ih q inside hp hq
    | wr x => simp only [closed, List.cons_append] at hp ⊢; exact ih q inside hp hq

/-- sections of a thread that performs closed operations one after the other -/
theorem blocks_flatten (g : L) (F : X → Bool) (i : Nat) :
    ∀ (ops : List (List (Action L X))), (∀ p ∈ ops, closed g false p = true) →
    blocks g F none (tag i ops.flatten) = (ops.map fun p => blocks g F none (tag i p)).flatten ∧
    closed g false ops.flatten = true := by
  intro ops
  induction ops with
  | nil => intro _; simp [tag, blocks, blocks_acq, blocks_rel, blocks_rd, blocks_wr, closed]
  | cons p ps ih =>
    intro h
    obtain ⟨ih1, ih2⟩ := ih (fun q hq => h q (List.mem_cons_of_mem _ hq))
    have hp := h p List.mem_cons_self
    refine ⟨?_, ?_⟩
    · rw [List.flatten_cons, blocks_append g F i ps.flatten p none (by simpa using hp), ih1]
      simp
    · rw [List.flatten_cons]
      exact closed_append g p ps.flatten false hp ih2

/-- the footprint accesses of thread `i` in the history are those of its own sub-trace -/
theorem projF_only (F : X → Bool) (i : Nat) : ∀ (τ : List (Event L X)),
    only i (projF F τ) = projF F (only i τ) := by
  intro τ
  induction τ with
  | nil => rfl
  | cons e τ ih =>
    obtain ⟨k, a⟩ := e
    by_cases hk : k = i
    · cases a <;> simp [projF, only, hk] <;> (try split) <;> simp_all [only, projF]
    · cases a <;> simp [projF, only, hk] <;> (try split) <;> simp_all [only, projF]

/-- the shape of a thread's sections does not depend on its index -/
theorem blocks_tag (g : L) (F : X → Bool) (i : Nat) : ∀ (p : List (Action L X)) (b : Option (List (Action L X))),
    blocks g F (b.map fun x => (i, x)) (tag i p) =
      (blocks g F (b.map fun x => (0, x)) (tag 0 p)).map fun c => (i, c.2) := by
  intro p
  induction p with
  | nil => intro b; cases b <;> simp [tag, blocks]
  | cons a p ih =>
    intro b
    cases a with
    | acq l =>
      by_cases hl : l = g
      · have := ih (some [])
        cases b <;> simp_all [tag, blocks_acq]
      · have := ih b
        simp_all [tag, blocks_acq]
    | rel l =>
      by_cases hl : l = g
      · have := ih none
        cases b <;> simp_all [tag, blocks_rel]
      · have := ih b
        simp_all [tag, blocks_rel]
    | rd x =>
      by_cases hF : F x = true
      · cases b with
        | none => have := ih none; simp_all [tag, blocks_rd]
        | some b => have := ih (some (b ++ [.rd x])); simp_all [tag, blocks_rd]
      · have := ih b
        simp_all [tag, blocks_rd]
    | wr x =>
      by_cases hF : F x = true
      · cases b with
        | none => have := ih none; simp_all [tag, blocks_wr]
        | some b => have := ih (some (b ++ [.wr x])); simp_all [tag, blocks_wr]
      · have := ih b
        simp_all [tag, blocks_wr]

end XlModel.Conc
