import XlModel.CondFmt
import XlModel.Protection
namespace XlModel.CondFmt
open XlModel

theorem foldl_max_ge (l : List Nat) (a : Nat) : a ≤ l.foldl max a := by
  induction l generalizing a with
  | nil => exact Nat.le_refl a
  | cons x xs ih => exact Nat.le_trans (Nat.le_max_left a x) (ih (max a x))

theorem le_foldl_max (l : List Nat) (a p : Nat) (h : p ∈ l) : p ≤ l.foldl max a := by
  induction l generalizing a with
  | nil => simp at h
  | cons x xs ih =>
    simp only [List.mem_cons] at h
    simp only [List.foldl_cons]
    rcases h with e | e
    · subst e; exact Nat.le_trans (Nat.le_max_right a p) (foldl_max_ge xs (max a p))
    · exact ih (max a x) e

theorem le_maxPrio (s : Sheet) (p : Nat) (h : p ∈ allPrios s) : p ≤ maxPrio s :=
  le_foldl_max _ 0 p h

theorem allPrios_setCF (s : Sheet) (r : List Char) (n : Nat) :
    allPrios (setCF s r n) = allPrios s ++ (List.range n).map (fun i => maxPrio s + i + 1) := by
  simp [allPrios, setCF]

theorem count_append (s t : Sheet) (r : List Char) : count (s ++ t) r = count s r + count t r := by
  simp [count, List.filter_append, List.map_append, List.sum_append]

theorem allPrios_filter_sublist (s : Sheet) (p : Block → Bool) :
    (allPrios (s.filter p)).Sublist (allPrios s) := by
  induction s with
  | nil => simp [allPrios]
  | cons b s ih =>
    simp only [allPrios, List.filter_cons, List.flatMap_cons] at ih ⊢
    by_cases hb : p b = true
    · simp only [hb, if_true, List.flatMap_cons]
      exact List.Sublist.append (List.Sublist.refl _) ih
    · simp only [hb, Bool.false_eq_true, if_false]
      exact List.Sublist.trans ih (List.sublist_append_right _ _)

end XlModel.CondFmt

namespace XlModel.Protection
open XlModel

theorem lookup_map_fst {β : Type} (l : List (String × String × Bool)) (g : String × String × Bool → β)
    (c : List (String × β)) (hn : (l.map (·.1)).Nodup) (t : String × String × Bool) (ht : t ∈ l) :
    List.lookup t.1 (l.map (fun x => (x.1, g x)) ++ c) = some (g t) := by
  induction l with
  | nil => simp at ht
  | cons a l ih =>
    simp only [List.map_cons, List.nodup_cons] at hn
    simp only [List.mem_cons] at ht
    simp only [List.map_cons, List.cons_append, List.lookup_cons]
    rcases ht with e | e
    · subst e; simp
    · have hne : (t.1 == a.1) = false := by
        have : t.1 ≠ a.1 := by
          intro h; apply hn.1; rw [← h]; exact List.mem_map_of_mem e
        simpa using this
      simp only [hne]
      exact ih hn.2 e

end XlModel.Protection
