/-
Lemmas for XlModel.Crypt (C13): the agile segment loop, UTF-16LE injectivity.
-/
import XlModel.Crypt

namespace XlModel.Crypt
open XlModel.Facts.C13

/-- a full 4096-byte segment of `input[8:]` -/
def fullSeg (i : Nat) : Seg :=
  (i, packageOffset + packageEncryptionChunkSize * i, packageOffset + packageEncryptionChunkSize * (i + 1))

theorem agileLoop_good (q r : Nat) (hr1 : 1 ≤ r) (hr2 : r ≤ packageEncryptionChunkSize - packageOffset) :
    ∀ d k f, k + d = q → d + 2 ≤ f →
    agileLoop (packageEncryptionChunkSize * q + r + packageOffset) f (packageEncryptionChunkSize * k) k
      = some ((List.range' k d).map fullSeg ++
          [(q, packageOffset + packageEncryptionChunkSize * q, packageEncryptionChunkSize * q + r + packageOffset)]) := by
  intro d
  induction d with
  | zero =>
    intro k f hk hf
    obtain ⟨g, rfl⟩ : ∃ g, f = g + 2 := ⟨f - 2, by omega⟩
    have hkq : k = q := by omega
    subst hkq
    simp only [packageEncryptionChunkSize, packageOffset] at *
    rw [agileLoop]
    try simp only [packageEncryptionChunkSize, packageOffset]
    have he2 : (if 4096 * k + 4096 > 4096 * k + r + 8 then 4096 * k + r + 8 else 4096 * k + 4096)
        = 4096 * k + r + 8 := by split <;> omega
    simp only [he2]
    rw [if_pos (show 4096 * k < 4096 * k + r + 8 by omega),
      if_neg (show ¬ (4096 * k + r + 8 + 8 < 4096 * k + r + 8) by omega),
      if_neg (show ¬ (4096 * k + 8 > 4096 * k + r + 8) by omega)]
    rw [agileLoop, if_neg (show ¬ (4096 * k + r + 8 < 4096 * k + r + 8) by omega)]
    simp
    omega
  | succ m ih =>
    intro k f hk hf
    obtain ⟨g, rfl⟩ : ∃ g, f = g + 1 := ⟨f - 1, by omega⟩
    have hrec := ih (k + 1) g (by omega) (by omega)
    simp only [packageEncryptionChunkSize, packageOffset] at *
    rw [agileLoop]
    try simp only [packageEncryptionChunkSize, packageOffset]
    have he2 : (if 4096 * k + 4096 > 4096 * q + r + 8 then 4096 * q + r + 8 else 4096 * k + 4096)
        = 4096 * (k + 1) := by split <;> omega
    simp only [he2]
    rw [if_pos (show 4096 * k < 4096 * q + r + 8 by omega),
      if_pos (show 4096 * (k + 1) + 8 < 4096 * q + r + 8 by omega),
      if_neg (show ¬ (4096 * k + 8 > 4096 * (k + 1) + 8) by omega)]
    rw [hrec]
    simp only [List.range'_succ, List.map_cons, List.cons_append, fullSeg, packageEncryptionChunkSize, packageOffset]
    have e1 : 4096 * k + 8 = 8 + 4096 * k := by omega
    have e2 : 4096 * (k + 1) + 8 = 8 + 4096 * (k + 1) := by omega
    rw [e1, e2]

theorem specSegs_form (q r : Nat) (hr1 : 1 ≤ r) (hr2 : r ≤ packageEncryptionChunkSize) :
    specSegs (packageEncryptionChunkSize * q + r)
      = (List.range' 0 q).map fullSeg ++
          [(q, packageOffset + packageEncryptionChunkSize * q, packageEncryptionChunkSize * q + r + packageOffset)] := by
  unfold specSegs
  simp only [packageEncryptionChunkSize, packageOffset] at *
  have hc : (4096 * q + r + (4096 - 1)) / 4096 = q + 1 := by omega
  rw [hc, List.range_succ, List.map_append, List.range_eq_range']
  congr 1
  · apply List.map_congr_left
    intro i hi
    simp only [List.mem_range'_1] at hi
    simp only [fullSeg, packageEncryptionChunkSize, packageOffset]
    have : min (4096 * (i + 1)) (4096 * q + r) = 4096 * (i + 1) := by omega
    rw [this]
  · simp only [List.map_cons, List.map_nil]
    have : min (4096 * (q + 1)) (4096 * q + r) = 4096 * q + r := by omega
    rw [this]
    congr 3
    omega

/-! ### UTF-16LE -/

theorem char_valid (c : Char) : c.toNat < 0xd800 ∨ (0xdfff < c.toNat ∧ c.toNat < 0x110000) := c.valid

theorem char_eq_of_toNat (c d : Char) (h : c.toNat = d.toNat) : c = d := by
  rw [← Char.ofNat_toNat c, ← Char.ofNat_toNat d, h]

/-- the code units of one character are a prefix code: no valid character's encoding is a prefix of
another's (a BMP unit never falls in the high-surrogate range) -/
theorem utf16Char_prefix (c d : Char) (x y : List Nat) (h : utf16Char c ++ x = utf16Char d ++ y) :
    c = d ∧ x = y := by
  have hc := char_valid c
  have hd := char_valid d
  unfold utf16Char at h
  simp only [] at h
  by_cases h1 : c.toNat < 0x10000 <;> by_cases h2 : d.toNat < 0x10000
  · rw [if_pos h1, if_pos h2] at h
    simp only [List.cons_append, List.nil_append, List.cons.injEq] at h
    exact ⟨char_eq_of_toNat c d (by omega), h.2.2⟩
  · rw [if_pos h1, if_neg h2] at h
    simp only [List.cons_append, List.nil_append, List.cons.injEq] at h
    exfalso; omega
  · rw [if_neg h1, if_pos h2] at h
    simp only [List.cons_append, List.nil_append, List.cons.injEq] at h
    exfalso; omega
  · rw [if_neg h1, if_neg h2] at h
    simp only [List.cons_append, List.nil_append, List.cons.injEq] at h
    exact ⟨char_eq_of_toNat c d (by omega), h.2.2.2.2⟩

theorem utf16Char_ne_nil (c : Char) : utf16Char c ≠ [] := by
  unfold utf16Char; simp only []; split <;> simp

theorem utf16le_injective : ∀ (a b : List Char), utf16le a = utf16le b → a = b := by
  intro a
  induction a with
  | nil =>
    intro b h
    cases b with
    | nil => rfl
    | cons d r =>
      simp only [utf16le] at h
      have := utf16Char_ne_nil d
      cases hd : utf16Char d with
      | nil => exact absurd hd this
      | cons u v => rw [hd] at h; simp at h
  | cons c r ih =>
    intro b h
    cases b with
    | nil =>
      simp only [utf16le] at h
      have := utf16Char_ne_nil c
      cases hc : utf16Char c with
      | nil => exact absurd hc this
      | cons u v => rw [hc] at h; simp at h
    | cons d r' =>
      simp only [utf16le] at h
      obtain ⟨h1, h2⟩ := utf16Char_prefix c d _ _ h
      rw [h1, ih r' h2]

end XlModel.Crypt
