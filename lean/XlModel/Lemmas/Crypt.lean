/-
Lemmas for XlModel.Crypt (C13): the agile segment loop, UTF-16LE injectivity.
-/
import XlModel.Crypt
import Mathlib.Tactic.SplitIfs

namespace XlModel.Crypt
open XlModel.Facts.C13

/-- segment `i` of `N` bytes of cipher text, as positions in the stream -/
def segOf (N i : Nat) : Seg :=
  (i, packageOffset + packageEncryptionChunkSize * i, packageOffset + min (packageEncryptionChunkSize * (i + 1)) N)

theorem agileLoop_spec (N : Nat) : ∀ d k f,
    k + d = (N + (packageEncryptionChunkSize - 1)) / packageEncryptionChunkSize → d ≤ f →
    agileLoop N f (packageEncryptionChunkSize * k) k = (List.range' k d).map (segOf N) := by
  intro d
  induction d with
  | zero =>
    intro k f hk _
    simp only [packageEncryptionChunkSize] at *
    cases f with
    | zero => rfl
    | succ g =>
      rw [agileLoop, if_neg (by omega)]
      rfl
  | succ m ih =>
    intro k f hk hf
    obtain ⟨g, rfl⟩ : ∃ g, f = g + 1 := ⟨f - 1, by omega⟩
    have hrec := ih (k + 1) g (by omega) (by omega)
    simp only [packageEncryptionChunkSize, packageOffset] at *
    rw [agileLoop]
    try simp only [packageEncryptionChunkSize, packageOffset]
    rw [if_pos (show 4096 * k < N by omega)]
    have e : 4096 * k + 4096 = 4096 * (k + 1) := by omega
    rw [e, hrec]
    simp only [List.range'_succ, List.map_cons, segOf, packageEncryptionChunkSize, packageOffset]
    congr 1
    have h1 : 4096 * k + 8 = 8 + 4096 * k := by omega
    have h2 : (if 4096 * (k + 1) > N then N else 4096 * (k + 1)) + 8 = 8 + min (4096 * (k + 1)) N := by
      split <;> omega
    rw [h1, h2]

theorem specSegs_eq (N : Nat) :
    specSegs N = (List.range' 0 ((N + (packageEncryptionChunkSize - 1)) / packageEncryptionChunkSize)).map (segOf N) := by
  unfold specSegs
  rw [List.range_eq_range']
  rfl

/-- the padded lengths of the segments from `k` on add up to the padded rest -/
theorem outLen_segs (N : Nat) : ∀ d k,
    k + d = (N + (packageEncryptionChunkSize - 1)) / packageEncryptionChunkSize →
    outLen ((List.range' k d).map (segOf N)) = pad16 (N - packageEncryptionChunkSize * k) := by
  intro d
  induction d with
  | zero =>
    intro k hk
    simp only [packageEncryptionChunkSize] at *
    simp only [List.range'_zero, List.map_nil, outLen, pad16]
    omega
  | succ m ih =>
    intro k hk
    have hrec := ih (k + 1) (by omega)
    simp only [packageEncryptionChunkSize] at *
    simp only [List.range'_succ, List.map_cons, outLen, segOf, packageEncryptionChunkSize, packageOffset, hrec]
    simp only [pad16]
    omega

/-! ### agile data flow -/

/-- what the abstract CBC cipher is assumed to satisfy: for every IV index it is a length-preserving
bijection on block-aligned messages -/
def Cbc.Lawful (c : Cbc) : Prop :=
  ∀ (i : Nat) (x : List Nat), x.length % 16 = 0 → c.dec i (c.enc i x) = x ∧ (c.enc i x).length = x.length

theorem pad16l_length_mod (x : List Nat) : (pad16l x).length % 16 = 0 := by
  unfold pad16l; simp only [List.length_append, List.length_replicate]; omega

theorem pad16l_aligned (x : List Nat) (h : x.length % 16 = 0) : pad16l x = x := by
  unfold pad16l; rw [h]; simp

theorem pad16l_length_le (x : List Nat) (h : x.length ≤ 4096) : (pad16l x).length ≤ 4096 := by
  unfold pad16l; simp only [List.length_append, List.length_replicate]; omega

theorem pad16l_split (x : List Nat) (h : 4096 < x.length) : x.take 4096 ++ pad16l (x.drop 4096) = pad16l x := by
  unfold pad16l
  rw [← List.append_assoc, List.take_append_drop]
  congr 2
  simp only [List.length_drop]; omega

/-- decrypting what the format's encryptor produced gives the plaintext back, zero padded to the block:
4096-byte segments line up on both sides because 4096 is a multiple of the block size -/
theorem agileDec_enc (c : Cbc) (hc : c.Lawful) : ∀ (f : Nat) (i : Nat) (plain : List Nat), plain.length ≤ f →
    ∀ f2, (agileEncData c f i plain).length ≤ f2 →
    agileDecData c f2 i (agileEncData c f i plain) = pad16l plain := by
  intro f
  induction f with
  | zero =>
    intro i plain h f2 _
    have : plain = [] := List.eq_nil_of_length_eq_zero (by omega)
    subst this
    cases f2 <;> simp [agileEncData, agileDecData, pad16l]
  | succ n ih =>
    intro i plain h f2 h2
    by_cases he : plain = []
    · subst he; cases f2 <;> simp [agileEncData, agileDecData, pad16l]
    · have hne : plain.isEmpty = false := by simpa using he
      have hpos : 0 < plain.length := List.length_pos_iff.mpr he
      have hE : agileEncData c (n + 1) i plain = c.enc i (pad16l (plain.take 4096))
          ++ agileEncData c n (i + 1) (plain.drop 4096) := by
        rw [agileEncData]; simp only [hne, Bool.false_eq_true, if_false, packageEncryptionChunkSize]
      obtain ⟨hd, hl⟩ := hc i (pad16l (plain.take 4096)) (pad16l_length_mod _)
      rw [hE] at h2 ⊢
      have hE1pos : 0 < (c.enc i (pad16l (plain.take 4096))).length := by
        rw [hl]; unfold pad16l; simp only [List.length_append, List.length_take]; omega
      cases f2 with
      | zero => simp only [List.length_append] at h2; omega
      | succ m =>
        rw [agileDecData]
        have hne2 : (c.enc i (pad16l (plain.take 4096)) ++ agileEncData c n (i + 1) (plain.drop 4096)).isEmpty = false := by
          rw [List.isEmpty_eq_false_iff]; intro hh
          have := congrArg List.length hh
          simp only [List.length_append, List.length_nil] at this; omega
        simp only [hne2, Bool.false_eq_true, if_false, packageEncryptionChunkSize]
        by_cases hbig : 4096 < plain.length
        · -- a full segment followed by more
          have ht : (plain.take 4096).length = 4096 := by simp only [List.length_take]; omega
          have hp : pad16l (plain.take 4096) = plain.take 4096 := pad16l_aligned _ (by rw [ht])
          rw [hp] at hd hl ⊢
          rw [ht] at hl
          rw [List.take_left' hl, List.drop_left' hl, pad16l_aligned _ (by rw [hl]), hd]
          rw [ih (i + 1) (plain.drop 4096) (by simp only [List.length_drop]; omega) m
            (by simp only [List.length_append, hl] at h2; omega)]
          exact pad16l_split plain hbig
        · -- the last segment
          have hd0 : plain.drop 4096 = [] := List.drop_eq_nil_of_le (by omega)
          have ht : plain.take 4096 = plain := List.take_of_length_le (by omega)
          rw [ht] at hd hl
          rw [hd0, ht]
          have hnil : agileEncData c n (i + 1) [] = [] := by cases n <;> simp [agileEncData]
          rw [hnil, List.append_nil]
          have hle : (c.enc i (pad16l plain)).length ≤ 4096 := by rw [hl]; exact pad16l_length_le _ (by omega)
          rw [List.take_of_length_le hle, List.drop_eq_nil_of_le hle,
            pad16l_aligned _ (by rw [hl]; exact pad16l_length_mod _), hd]
          have : agileDecData c m (i + 1) [] = [] := by cases m <;> simp [agileDecData]
          rw [this, List.append_nil]

/-- the recursive reading of the data flow is the segment loop: chunk `k` is `input[8+4096k : 8+min(4096(k+1),N)]` -/
theorem agileDecData_eq_segs (c : Cbc) (pre data : List Nat) (hpre : pre.length = 8) : ∀ d k f,
    k + d = (data.length + (packageEncryptionChunkSize - 1)) / packageEncryptionChunkSize → d ≤ f →
    agileDecData c f k (data.drop (packageEncryptionChunkSize * k))
      = decBySegs c (pre ++ data) ((List.range' k d).map (segOf data.length)) := by
  intro d
  induction d with
  | zero =>
    intro k f hk _
    simp only [packageEncryptionChunkSize] at *
    have : data.drop (4096 * k) = [] := List.drop_eq_nil_of_le (by omega)
    rw [this]
    cases f <;> simp [agileDecData, decBySegs]
  | succ m ih =>
    intro k f hk hf
    obtain ⟨g, rfl⟩ : ∃ g, f = g + 1 := ⟨f - 1, by omega⟩
    have hrec := ih (k + 1) g (by omega) (by omega)
    simp only [packageEncryptionChunkSize, packageOffset] at *
    have hlt : 4096 * k < data.length := by omega
    have hne : (data.drop (4096 * k)).isEmpty = false := by
      rw [List.isEmpty_eq_false_iff]; intro hh
      have := congrArg List.length hh
      simp only [List.length_drop, List.length_nil] at this; omega
    rw [agileDecData]
    simp only [hne, Bool.false_eq_true, if_false, packageEncryptionChunkSize, List.drop_drop]
    have e : 4096 * k + 4096 = 4096 * (k + 1) := by omega
    rw [e, hrec]
    simp only [List.range'_succ, List.map_cons, decBySegs, segOf, packageEncryptionChunkSize, packageOffset]
    congr 3
    -- the chunk
    have hdrop : (pre ++ data).drop (8 + 4096 * k) = data.drop (4096 * k) := by
      rw [← hpre, List.drop_append]
      rw [List.drop_eq_nil_of_le (by omega), List.nil_append]
      congr 1; omega
    rw [hdrop]
    by_cases hfull : 4096 * (k + 1) ≤ data.length
    · have : 8 + min (4096 * (k + 1)) data.length - (8 + 4096 * k) = 4096 := by omega
      rw [this]
    · have hlen : (data.drop (4096 * k)).length ≤ 8 + min (4096 * (k + 1)) data.length - (8 + 4096 * k) := by
        simp only [List.length_drop]; omega
      rw [List.take_of_length_le hlen, List.take_of_length_le (by simp only [List.length_drop]; omega)]

/-! ### standard encryption guards -/

macro "sd_consts" : tactic => `(tactic|
  simp only [sdInfoMin, sdPkgMin, sdHsLo, sdHsHi, sdHdrMin, sdHdrBase, sdBlockLo, sdBlockLo2, sdAlgLo, sdAlgHi,
    sdKeyLo, sdKeyHi, sdResLo, sdResHi, sdCspLo, sdRestLo, sdVerifierRC4, sdVerifierAES, svSaltSizeHi, svSaltLo,
    svSaltHi, svVerLo, svVerHi, svHsLo, svHsHi, svHashLoRC4, svHashHiRC4, svHashLoAES, svHashHiAES, decOffset,
    decBlock, sliceOK, verifierSlicesOK, Bool.and_eq_true, decide_eq_true_eq, Bool.not_eq_true] at *)

theorem verifierSlices_of_min (alg len : Nat) (h : verifierMin alg ≤ len) : verifierSlicesOK alg len = true := by
  unfold verifierMin at h
  unfold verifierSlicesOK
  by_cases ha : alg = 0
  · simp only [ha, if_true] at h ⊢; sd_consts; omega
  · simp only [ha, if_false] at h ⊢; sd_consts; omega

/-- no slice expression of `standardDecrypt` / `standardEncryptionVerifier` can be out of range once the
guards in front of it have passed — for every EncryptionInfo content and every package length -/
theorem guardsCore_no_panic (L major minor hs algId keyBits pkgLen : Nat) :
    guardsCore L major minor hs algId keyBits pkgLen ≠ .panic := by
  intro h
  unfold guardsCore at h
  by_cases c1 : major = 4 ∧ minor = 4
  · rw [if_pos c1] at h; cases h
  rw [if_neg c1] at h
  by_cases c2 : ¬ ((2 ≤ major ∧ major ≤ 4) ∧ minor = 2)
  · rw [if_pos c2] at h; cases h
  rw [if_neg c2] at h
  by_cases c3 : L < sdInfoMin ∨ pkgLen < sdPkgMin
  · rw [if_pos c3] at h; cases h
  rw [if_neg c3] at h
  by_cases c4 : ¬ sliceOK sdHsLo sdHsHi L = true
  · exact c4 (by clear h; sd_consts; omega)
  rw [if_neg c4] at h
  by_cases c5 : hs < sdHdrMin ∨ hs > L - sdHdrBase
  · rw [if_pos c5] at h; cases h
  rw [if_neg c5] at h
  by_cases c6 : ¬ sliceOK sdBlockLo (sdBlockLo2 + hs) L = true
  · exact c6 (by clear h; sd_consts; omega)
  rw [if_neg c6] at h
  by_cases c7 : ¬ (sliceOK sdAlgLo sdAlgHi hs = true ∧ sliceOK sdKeyLo sdKeyHi hs = true ∧ sliceOK sdResLo sdResHi hs = true ∧ sliceOK sdCspLo hs hs = true)
  · exact c7 (by clear h; sd_consts; omega)
  rw [if_neg c7] at h
  by_cases c8 : ¬ sliceOK (sdRestLo + hs) L L = true
  · exact c8 (by clear h; sd_consts; omega)
  rw [if_neg c8] at h
  by_cases c9 : L - (sdRestLo + hs) < verifierMin (algOf algId)
  · rw [if_pos c9] at h; cases h
  rw [if_neg c9] at h
  by_cases c10 : ¬ verifierSlicesOK (algOf algId) (L - (sdRestLo + hs)) = true
  · exact c10 (verifierSlices_of_min _ _ (by omega))
  rw [if_neg c10] at h
  by_cases c11 : keyBits / 8 > 40
  · rw [if_pos c11] at h; cases h
  rw [if_neg c11] at h
  by_cases c12 : ¬ sliceOK decOffset pkgLen pkgLen = true
  · exact c12 (by clear h; sd_consts; omega)
  rw [if_neg c12] at h
  by_cases c13 : ¬ (keyBits / 8 = 16 ∨ keyBits / 8 = 24 ∨ keyBits / 8 = 32)
  · rw [if_pos c13] at h; cases h
  rw [if_neg c13] at h
  by_cases c14 : (pkgLen - decOffset) % decBlock ≠ 0
  · rw [if_pos c14] at h; cases h
  rw [if_neg c14] at h
  cases h

theorem standardGuards_no_panic (info : List Nat) (pkgLen : Nat) : standardGuards info pkgLen ≠ .panic := by
  unfold standardGuards
  split
  · intro h; cases h
  · exact guardsCore_no_panic _ _ _ _ _ _ _

/-! ### UTF-16LE -/

theorem char_valid (c : Char) : c.toNat < 0xd800 ∨ (0xdfff < c.toNat ∧ c.toNat < 0x110000) := c.valid

theorem char_eq_of_toNat (c d : Char) (h : c.toNat = d.toNat) : c = d := by
  rw [← Char.ofNat_toNat c, ← Char.ofNat_toNat d, h]

/-- the code units of one character are a prefix code: no valid character's encoding is a prefix of
another's (a BMP unit never falls in the high-surrogate range) -/
theorem utf16Char_prefix (c d : Char) (x y : List Nat) (h : utf16Char c ++ x = utf16Char d ++ y) :
    c = d ∧ x = y := by
  have hc := char_valid c
  have hd := char_valid d
  unfold utf16Char at h
  simp only [] at h
  by_cases h1 : c.toNat < 0x10000 <;> by_cases h2 : d.toNat < 0x10000
  · rw [if_pos h1, if_pos h2] at h
    simp only [List.cons_append, List.nil_append, List.cons.injEq] at h
    exact ⟨char_eq_of_toNat c d (by omega), h.2.2⟩
  · rw [if_pos h1, if_neg h2] at h
    simp only [List.cons_append, List.nil_append, List.cons.injEq] at h
    exfalso; omega
  · rw [if_neg h1, if_pos h2] at h
    simp only [List.cons_append, List.nil_append, List.cons.injEq] at h
    exfalso; omega
  · rw [if_neg h1, if_neg h2] at h
    simp only [List.cons_append, List.nil_append, List.cons.injEq] at h
    exact ⟨char_eq_of_toNat c d (by omega), h.2.2.2.2⟩

theorem utf16Char_ne_nil (c : Char) : utf16Char c ≠ [] := by
  unfold utf16Char; simp only []; split <;> simp

theorem utf16le_injective : ∀ (a b : List Char), utf16le a = utf16le b → a = b := by
  intro a
  induction a with
  | nil =>
    intro b h
    cases b with
    | nil => rfl
    | cons d r =>
      simp only [utf16le] at h
      have := utf16Char_ne_nil d
      cases hd : utf16Char d with
      | nil => exact absurd hd this
      | cons u v => rw [hd] at h; simp at h
  | cons c r ih =>
    intro b h
    cases b with
    | nil =>
      simp only [utf16le] at h
      have := utf16Char_ne_nil c
      cases hc : utf16Char c with
      | nil => exact absurd hc this
      | cons u v => rw [hc] at h; simp at h
    | cons d r' =>
      simp only [utf16le] at h
      obtain ⟨h1, h2⟩ := utf16Char_prefix c d _ _ h
      rw [h1, ih r' h2]

/-! ### key derivation -/

theorem spin_eq_fold (H : List Nat → List Nat) : ∀ n i key,
    spin H n i key = (List.range' i n).foldl (fun k j => H (le32b j ++ k)) key := by
  intro n
  induction n with
  | zero => intro _ _; rfl
  | succ m ih => intro i key; simp only [spin, List.range'_succ, List.foldl_cons, ih]

theorem spin_eq_spec (H : List Nat → List Nat) (n : Nat) (key : List Nat) :
    spin H n 0 key = specIterate H n key := by
  rw [spin_eq_fold, specIterate, List.range_eq_range']

/-- every round of the iteration is injective when the hash is -/
theorem spin_injective (H : List Nat → List Nat) (hH : Function.Injective H) : ∀ n i a b,
    spin H n i a = spin H n i b → a = b := by
  intro n
  induction n with
  | zero => intro _ a b h; exact h
  | succ m ih =>
    intro i a b h
    simp only [spin] at h
    exact List.append_cancel_left (hH (ih (i + 1) _ _ h))

theorem standardHFinal_injective (H : List Nat → List Nat) (hH : Function.Injective H) (salt a b : List Nat)
    (h : standardHFinal H salt a = standardHFinal H salt b) : a = b := by
  unfold standardHFinal at h
  have h1 := List.append_cancel_right (hH h)
  have h2 := hH (spin_injective H hH _ _ _ _ h1)
  exact List.append_cancel_left h2

end XlModel.Crypt
