/-
Lemmas for XlModel.CryptFull (C13): Decrypt ∘ Encrypt = id through the whole pipeline.
-/
import XlModel.CryptFull
import XlModel.Lemmas.CfbRW
import XlModel.Lemmas.Crypt

namespace XlModel.CryptFull
open XlModel XlModel.Cfb XlModel.Crypt XlModel.Facts.C13

theorem infoPrefix_facts :
    infoPrefix.length = 180 ∧ le16At infoPrefix 0 = 3 ∧ le16At infoPrefix 2 = 2 ∧
    le32At infoPrefix 8 = 164 ∧ le32At infoPrefix 20 = 26126 ∧ le32At infoPrefix 28 = 128 := by
  decide +kernel

theorem getD_append_left' (a b : List Nat) (i d : Nat) (h : i < a.length) : (a ++ b).getD i d = a.getD i d := by
  simp [List.getD, List.getElem?_append_left h]

theorem le32At_append (a b : List Nat) (o : Nat) (h : o + 3 < a.length) : le32At (a ++ b) o = le32At a o := by
  unfold le32At
  rw [getD_append_left' a b o 0 (by omega), getD_append_left' a b (o + 1) 0 (by omega),
    getD_append_left' a b (o + 2) 0 (by omega), getD_append_left' a b (o + 3) 0 (by omega)]

theorem le16At_append (a b : List Nat) (o : Nat) (h : o + 1 < a.length) : le16At (a ++ b) o = le16At a o := by
  unfold le16At
  rw [getD_append_left' a b o 0 (by omega), getD_append_left' a b (o + 1) 0 (by omega)]

/-- the 128-bit key always exists when the digest has 20 bytes -/
theorem standardKey_some (H : List Nat → List Nat) (hlen : ∀ x, (H x).length = 20) (salt pw16 : List Nat) :
    ∃ k, standardKey H salt pw16 encKeyBits = some k := by
  unfold standardKey
  simp only [List.length_append, hlen, encKeyBits]
  exact ⟨_, rfl⟩

theorem encryptBlocks_len16 (c : Cipher) (hc : c.Lawful) (x : List Nat) (h : x.length = 16) :
    (encryptBlocks c x.length x).length = 16 := by
  rw [encryptBlocks_length c hc _ x (Nat.le_refl _)]
  unfold zeroPad16; simp only [List.length_append, List.length_replicate, h]

theorem encryptBlocks_len20 (c : Cipher) (hc : c.Lawful) (x : List Nat) (h : x.length = 20) :
    (encryptBlocks c x.length x).length = 32 := by
  rw [encryptBlocks_length c hc _ x (Nat.le_refl _)]
  unfold zeroPad16; simp only [List.length_append, List.length_replicate, h]

theorem encryptedPackage_length (c : Cipher) (hc : c.Lawful) (raw : List Nat) :
    8 ≤ (encryptedPackage c raw).length ∧ ((encryptedPackage c raw).length - 8) % 16 = 0 := by
  unfold encryptedPackage
  have h8 : ((le64 raw.length).take encPrefix).length = 8 := by simp [le64, encPrefix]
  simp only [List.length_append, h8, encryptBlocks_length c hc _ raw (Nat.le_refl _)]
  unfold zeroPad16
  simp only [List.length_append, List.length_replicate]
  omega

theorem guardsCore_on_info (pkgLen : Nat) (h8 : 8 ≤ pkgLen) (hm : (pkgLen - 8) % 16 = 0) :
    guardsCore 248 3 2 164 26126 128 pkgLen = .ok 1 16 := by
  have a1 : ¬ pkgLen < 8 := by omega
  have hal : algOf 26126 = 1 := by decide
  have hvm : verifierMin 1 = 72 := by decide
  have hvs : verifierSlicesOK 1 (248 - (12 + 164)) = true := by decide
  unfold guardsCore
  rw [hal, hvm]
  simp only [sdInfoMin, sdPkgMin, sdHsLo, sdHsHi, sdHdrMin, sdHdrBase, sdBlockLo, sdBlockLo2, sdAlgLo, sdAlgHi,
    sdKeyLo, sdKeyHi, sdResLo, sdResHi, sdCspLo, sdRestLo, decOffset, decBlock, sliceOK, hvs, a1, h8, hm,
    decide_true, decide_false, Bool.and_self, Bool.and_true, Bool.true_and, not_true_eq_false, not_false_eq_true,
    if_true, if_false, Nat.reduceLeDiff, Nat.reduceLT, Nat.reduceAdd, Nat.reduceSub, Nat.reduceDiv, Nat.reduceEqDiff,
    Nat.lt_irrefl, and_self, and_true, true_and, or_self, or_false, false_or, ne_eq, Nat.reduceGT, Nat.le_refl,
    reduceCtorEq, and_false, false_and, true_or, or_true]

theorem assembleInfo_eq (salt ev eh : List Nat) :
    assembleInfo salt ev eh = infoPrefix ++ (salt ++ ev ++ leField 4 skeHashSize ++ eh) := by
  unfold assembleInfo; simp only [List.append_assoc]

theorem guards_on_info (salt ev eh : List Nat) (hs : salt.length = 16) (hev : ev.length = 16) (heh : eh.length = 32)
    (pkgLen : Nat) (h8 : 8 ≤ pkgLen) (hm : (pkgLen - 8) % 16 = 0) :
    standardGuards (assembleInfo salt ev eh) pkgLen = .ok 1 16 := by
  obtain ⟨hl, f0, f2, f8, f20, f28⟩ := infoPrefix_facts
  have hlen : (assembleInfo salt ev eh).length = 248 := by
    rw [assembleInfo_eq]
    simp only [List.length_append, hl, hs, hev, heh, leField, List.length_map, List.length_range]
  unfold standardGuards
  rw [hlen, if_neg (by omega)]
  rw [assembleInfo_eq, le16At_append _ _ 0 (by omega), le16At_append _ _ 2 (by omega),
    le32At_append _ _ sdHsLo (by simp only [sdHsLo]; omega),
    le32At_append _ _ (sdBlockLo + sdAlgLo) (by simp only [sdBlockLo, sdAlgLo]; omega),
    le32At_append _ _ (sdBlockLo + sdKeyLo) (by simp only [sdBlockLo, sdKeyLo]; omega)]
  simp only [sdHsLo, sdBlockLo, sdAlgLo, sdKeyLo, Nat.reduceAdd, f0, f2, f8, f20, f28]
  exact guardsCore_on_info pkgLen h8 hm

theorem decrypt_encrypt_full (kc : KCipher) (hkc : ∀ k, (kc k).Lawful) (H : List Nat → List Nat)
    (hlen : ∀ x, (H x).length = 20) (salt vin : List Nat) (hs : salt.length = 16) (hv : vin.length = 16)
    (pw : List Char) (hp : 1 ≤ utf8Len pw ∧ utf8Len pw ≤ Facts.MaxFieldLength)
    (raw : List Nat) (hn : raw.length < 2 ^ 64) :
    ∃ img, encryptFull kc H salt vin pw raw = .ok img ∧ decryptFull kc H img pw = .ok raw := by
  obtain ⟨k, hk⟩ := standardKey_some H hlen salt (utf16le pw)
  have hc := hkc k
  obtain ⟨ev, hev⟩ : ∃ ev, ev = encryptBlocks (kc k) vin.length vin := ⟨_, rfl⟩
  obtain ⟨eh, heh⟩ : ∃ eh, eh = encryptBlocks (kc k) (H vin).length (H vin) := ⟨_, rfl⟩
  have lev : ev.length = 16 := by rw [hev]; exact encryptBlocks_len16 _ hc vin hv
  have leh : eh.length = 32 := by rw [heh]; exact encryptBlocks_len20 _ hc (H vin) (hlen vin)
  obtain ⟨img, hw, hr⟩ := read_write [⟨infoName, assembleInfo salt ev eh⟩, ⟨pkgName, encryptedPackage (kc k) raw⟩]
  refine ⟨img, ?_, ?_⟩
  · unfold encryptFull
    rw [if_neg (by omega)]
    simp only [hk, ← hev, ← heh, hw]
  · unfold decryptFull
    rw [hr]
    have h1 : findStream infoName [⟨infoName, assembleInfo salt ev eh⟩, ⟨pkgName, encryptedPackage (kc k) raw⟩]
        = assembleInfo salt ev eh := by simp [findStream]
    have h2 : findStream pkgName [⟨infoName, assembleInfo salt ev eh⟩, ⟨pkgName, encryptedPackage (kc k) raw⟩]
        = encryptedPackage (kc k) raw := by
      have : infoName ≠ pkgName := by decide
      simp [findStream, this]
    obtain ⟨hp8, hpm⟩ := encryptedPackage_length (kc k) hc raw
    have hg := guards_on_info salt ev eh hs lev leh _ hp8 hpm
    obtain ⟨hl, _, _, f8, _, f28⟩ := infoPrefix_facts
    have hhs : le32At (assembleInfo salt ev eh) sdHsLo = 164 := by
      rw [assembleInfo_eq, le32At_append _ _ sdHsLo (by simp only [sdHsLo]; omega)]; exact f8
    have hkb : le32At (assembleInfo salt ev eh) (sdBlockLo + sdKeyLo) = encKeyBits := by
      rw [assembleInfo_eq, le32At_append _ _ _ (by simp only [sdBlockLo, sdKeyLo]; omega)]; exact f28
    have hsalt : ((assembleInfo salt ev eh).drop (sdRestLo + 164 + svSaltLo)).take (svSaltHi - svSaltLo) = salt := by
      rw [assembleInfo_eq]
      have e : sdRestLo + 164 + svSaltLo = infoPrefix.length := by rw [hl]; rfl
      rw [e, List.drop_left]
      simp only [List.append_assoc]
      exact List.take_left' hs
    simp only [h1, h2, hg, hhs, hkb, hsalt, hk]
    exact standardDecrypt_encryptedPackage (kc k) hc raw hn

end XlModel.CryptFull
