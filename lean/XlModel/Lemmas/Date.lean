/-
Calendar lemmas for the date model (C19): the day-number ↔ civil-date functions are
mutually inverse on all of `Int` / all valid dates, and strictly monotone.
-/
import XlModel.Date

namespace XlModel.Date

/-! ### year of era -/

theorem yoe_div (c q t : Int) (_ : 0 ≤ c) (_ : c ≤ 3) (_ : 0 ≤ q) (_ : q ≤ 24) (_ : 0 ≤ t) (_ : t ≤ 3) :
    (100 * c + 4 * q + t) / 4 = 25 * c + q ∧ (100 * c + 4 * q + t) / 100 = c := by
  constructor <;> omega

/-- the cascade, with every intermediate quantity named and bounded -/
theorem cascade (doe : Int) (h0 : 0 ≤ doe) (h1 : doe < 146097) :
    ∃ c q t doy : Int, yearOfEra doe = (100 * c + 4 * q + t, doy) ∧
      0 ≤ c ∧ c ≤ 3 ∧ 0 ≤ q ∧ q ≤ 24 ∧ 0 ≤ t ∧ t ≤ 3 ∧ 0 ≤ doy ∧ doy ≤ 365 ∧
      (doy = 365 → t = 3 ∧ (q = 24 → c = 3)) ∧
      doe = 36524 * c + 1461 * q + 365 * t + doy := by
  refine ⟨if doe / 36524 ≥ 4 then 3 else doe / 36524, _, _, _, rfl, ?_⟩
  generalize hc : (if doe / 36524 ≥ 4 then 3 else doe / 36524) = c
  have hc0 : 0 ≤ c ∧ c ≤ 3 := by subst hc; split <;> omega
  have hr : 0 ≤ doe - 36524 * c ∧ doe - 36524 * c ≤ 36524 ∧ (c < 3 → doe - 36524 * c ≤ 36523) := by
    subst hc; split <;> omega
  generalize hrr : doe - 36524 * c = r at *
  have hq : 0 ≤ r / 1461 ∧ r / 1461 ≤ 24 := by omega
  generalize hqq : r / 1461 = q at *
  have hs : 0 ≤ r - 1461 * q ∧ r - 1461 * q ≤ 1460 := by omega
  have hs2 : q = 24 → c < 3 → r - 1461 * q ≤ 1459 := by omega
  generalize hss : r - 1461 * q = s at *
  generalize ht : (if s / 365 ≥ 4 then 3 else s / 365) = t
  have ht0 : 0 ≤ t ∧ t ≤ 3 := by subst ht; split <;> omega
  have hd : 0 ≤ s - 365 * t ∧ s - 365 * t ≤ 365 ∧ (s - 365 * t = 365 → t = 3) := by
    subst ht; split <;> omega
  refine ⟨hc0.1, hc0.2, hq.1, hq.2, ht0.1, ht0.2, hd.1, hd.2.1, ?_, ?_⟩
  · intro h; refine ⟨hd.2.2 h, ?_⟩; intro h24; omega
  · omega

/-- the March-based year `yoe` ends with a 29 February iff `yoe + 1` is a leap year -/
def LeapNext (yoe : Int) : Prop := (yoe + 1) % 4 = 0 ∧ ((yoe + 1) % 100 ≠ 0 ∨ (yoe + 1) % 400 = 0)

theorem yearOfEra_inv (doe : Int) (h0 : 0 ≤ doe) (h1 : doe < 146097) :
    0 ≤ (yearOfEra doe).1 ∧ (yearOfEra doe).1 ≤ 399 ∧ 0 ≤ (yearOfEra doe).2 ∧ (yearOfEra doe).2 ≤ 365 ∧
    ((yearOfEra doe).2 = 365 → LeapNext (yearOfEra doe).1) ∧
    365 * (yearOfEra doe).1 + (yearOfEra doe).1 / 4 - (yearOfEra doe).1 / 100 + (yearOfEra doe).2 = doe := by
  obtain ⟨c, q, t, doy, he, hc0, hc, hq0, hq, ht0, ht, hd0, hd, hl, hdoe⟩ := cascade doe h0 h1
  have hdiv := yoe_div c q t hc0 hc hq0 hq ht0 ht
  rw [he]; simp only [LeapNext]
  rw [hdiv.1, hdiv.2]
  refine ⟨by omega, by omega, hd0, hd, ?_, by omega⟩
  intro h
  have := hl h
  omega

theorem decomp_unique (c q t d c' q' t' d' : Int)
    (hc0 : 0 ≤ c) (hc : c ≤ 3) (hq0 : 0 ≤ q) (hq : q ≤ 24) (ht0 : 0 ≤ t) (ht : t ≤ 3) (hd0 : 0 ≤ d) (hd : d ≤ 365)
    (hl : d = 365 → t = 3 ∧ (q = 24 → c = 3))
    (hc0' : 0 ≤ c') (hc' : c' ≤ 3) (hq0' : 0 ≤ q') (hq' : q' ≤ 24) (ht0' : 0 ≤ t') (ht' : t' ≤ 3) (hd0' : 0 ≤ d') (hd' : d' ≤ 365)
    (hl' : d' = 365 → t' = 3 ∧ (q' = 24 → c' = 3))
    (h : 36524 * c + 1461 * q + 365 * t + d = 36524 * c' + 1461 * q' + 365 * t' + d') :
    c = c' ∧ q = q' ∧ t = t' ∧ d = d' := by
  have h1 : c = c' := by omega
  subst h1
  have h2 : q = q' := by omega
  subst h2
  have h3 : t = t' := by omega
  subst h3
  omega

theorem yearOfEra_fwd (yoe doy : Int) (h0 : 0 ≤ yoe) (h1 : yoe ≤ 399) (h2 : 0 ≤ doy)
    (h3 : doy ≤ 365) (h4 : doy = 365 → LeapNext yoe) :
    yearOfEra (365 * yoe + yoe / 4 - yoe / 100 + doy) = (yoe, doy) := by
  simp only [LeapNext] at h4
  -- decompose yoe
  obtain ⟨c1, hc1⟩ : ∃ c1, c1 = yoe / 100 := ⟨_, rfl⟩
  obtain ⟨q1, hq1⟩ : ∃ q1, q1 = (yoe - 100 * c1) / 4 := ⟨_, rfl⟩
  obtain ⟨t1, ht1⟩ : ∃ t1, t1 = yoe - 100 * c1 - 4 * q1 := ⟨_, rfl⟩
  have b1 : 0 ≤ c1 ∧ c1 ≤ 3 := by omega
  have b2 : 0 ≤ q1 ∧ q1 ≤ 24 := by omega
  have b3 : 0 ≤ t1 ∧ t1 ≤ 3 := by omega
  have hy : yoe = 100 * c1 + 4 * q1 + t1 := by omega
  have hdiv1 := yoe_div c1 q1 t1 b1.1 b1.2 b2.1 b2.2 b3.1 b3.2
  rw [← hy] at hdiv1
  have hF : 365 * yoe + yoe / 4 - yoe / 100 + doy = 36524 * c1 + 1461 * q1 + 365 * t1 + doy := by
    rw [hdiv1.1, hdiv1.2]; omega
  have hl1 : doy = 365 → t1 = 3 ∧ (q1 = 24 → c1 = 3) := by
    intro h; have := h4 h; omega
  have hb : 0 ≤ 365 * yoe + yoe / 4 - yoe / 100 + doy ∧ 365 * yoe + yoe / 4 - yoe / 100 + doy < 146097 := by
    rw [hF]; omega
  obtain ⟨c, q, t, doy', he, hc0, hc, hq0, hq, ht0, ht, hd0, hd, hl, hdoe⟩ := cascade _ hb.1 hb.2
  rw [he]
  rw [hF] at hdoe
  obtain ⟨e1, e2, e3, e4⟩ := decomp_unique c1 q1 t1 doy c q t doy' b1.1 b1.2 b2.1 b2.2 b3.1 b3.2 h2 h3 hl1
    hc0 hc hq0 hq ht0 ht hd0 hd hl hdoe
  subst e1 e2 e3 e4
  rw [← hy]

/-! ### month and day of the March-based year -/

theorem monthDay_inv (doy : Int) (h0 : 0 ≤ doy) (h1 : doy ≤ 365) :
    0 ≤ (5 * doy + 2) / 153 ∧ (5 * doy + 2) / 153 ≤ 11 ∧
    1 ≤ doy - (153 * ((5 * doy + 2) / 153) + 2) / 5 + 1 ∧
    doy - (153 * ((5 * doy + 2) / 153) + 2) / 5 + 1 ≤ 31 := by
  omega

/-- `d` is a day of the March-based month `mp` (0 = March … 11 = February, 29 allowed) -/
def MpDay (mp d : Int) : Prop :=
  1 ≤ d ∧ d ≤ 31 ∧ ((mp = 1 ∨ mp = 3 ∨ mp = 6 ∨ mp = 8) → d ≤ 30) ∧ (mp = 11 → d ≤ 29)

theorem mp_cases (mp : Int) (h0 : 0 ≤ mp) (h1 : mp ≤ 11) :
    mp = 0 ∨ mp = 1 ∨ mp = 2 ∨ mp = 3 ∨ mp = 4 ∨ mp = 5 ∨ mp = 6 ∨ mp = 7 ∨ mp = 8 ∨ mp = 9 ∨ mp = 10 ∨ mp = 11 := by
  omega

theorem monthDay_fwd (mp d : Int) (h0 : 0 ≤ mp) (h1 : mp ≤ 11) (hd : MpDay mp d) :
    (5 * ((153 * mp + 2) / 5 + d - 1) + 2) / 153 = mp ∧ (153 * mp + 2) / 5 + d - 1 ≤ 365 ∧
    ((153 * mp + 2) / 5 + d - 1 = 365 → mp = 11 ∧ d = 29) := by
  simp only [MpDay] at hd
  rcases mp_cases mp h0 h1 with h | h | h | h | h | h | h | h | h | h | h | h <;> subst h <;> omega

/-! ### round trips -/

theorem era_unique (era doe : Int) (h0 : 0 ≤ doe) (h1 : doe < 146097) :
    (era * 146097 + doe) / 146097 = era := by omega

/-- day number → civil date → day number, for every integer -/
theorem days_civil_days (z : Int) :
    daysFromCivil (civilFromDays z).1 (civilFromDays z).2.1 (civilFromDays z).2.2 = z := by
  unfold civilFromDays
  simp only []
  generalize hera : (z + 719468) / 146097 = era
  have hdoe : 0 ≤ z + 719468 - era * 146097 ∧ z + 719468 - era * 146097 < 146097 := by omega
  generalize hd : z + 719468 - era * 146097 = doe at *
  obtain ⟨y0, y1, d0, d1, _, hF⟩ := yearOfEra_inv doe hdoe.1 hdoe.2
  generalize (yearOfEra doe).1 = yoe at *
  generalize (yearOfEra doe).2 = doy at *
  obtain ⟨m0, m1, dd0, dd1⟩ := monthDay_inv doy d0 d1
  generalize hmp : (5 * doy + 2) / 153 = mp at *
  unfold daysFromCivil
  simp only []
  have hm : ((if mp < 10 then mp + 3 else mp - 9) + 9) % 12 = mp := by split <;> omega
  have hy' : (if (if mp < 10 then mp + 3 else mp - 9) ≤ 2
      then (if (if mp < 10 then mp + 3 else mp - 9) ≤ 2 then yoe + era * 400 + 1 else yoe + era * 400) - 1
      else (if (if mp < 10 then mp + 3 else mp - 9) ≤ 2 then yoe + era * 400 + 1 else yoe + era * 400))
      = yoe + era * 400 := by
    split <;> omega
  rw [hy', hm]
  have he : (yoe + era * 400) / 400 = era := by omega
  rw [he]
  have hyoe : yoe + era * 400 - era * 400 = yoe := by omega
  rw [hyoe]
  omega

theorem isLeap_iff (y : Int) : isLeap y = true ↔ (y % 4 = 0 ∧ (y % 100 ≠ 0 ∨ y % 400 = 0)) := by
  simp [isLeap]

theorem monthLen_le (y m d : Int) (h : d ≤ monthLen y m) :
    d ≤ 31 ∧ ((m = 4 ∨ m = 6 ∨ m = 9 ∨ m = 11) → d ≤ 30) ∧ (m = 2 → d ≤ 29 ∧ (d = 29 → isLeap y = true)) := by
  unfold monthLen at h
  by_cases h2 : m = 2
  · rw [if_pos h2] at h
    by_cases hl : isLeap y = true
    · rw [if_pos hl] at h
      exact ⟨by omega, fun _ => by omega, fun _ => ⟨by omega, fun _ => hl⟩⟩
    · rw [if_neg hl] at h
      exact ⟨by omega, fun _ => by omega, fun _ => ⟨by omega, fun h29 => by omega⟩⟩
  · rw [if_neg h2] at h
    by_cases h30 : m = 4 ∨ m = 6 ∨ m = 9 ∨ m = 11
    · rw [if_pos h30] at h
      exact ⟨by omega, fun _ => by omega, fun hm => absurd hm h2⟩
    · rw [if_neg h30] at h
      exact ⟨by omega, fun hm => absurd hm h30, fun hm => absurd hm h2⟩

/-- civil date → day number → civil date, for every valid date -/
theorem civil_days_civil (y m d : Int) (h : ValidDate y m d) :
    civilFromDays (daysFromCivil y m d) = (y, m, d) := by
  obtain ⟨hm1, hm12, hd1, hdl⟩ := h
  obtain ⟨l31, l30, l2⟩ := monthLen_le y m d hdl
  unfold daysFromCivil
  simp only []
  generalize hy' : (if m ≤ 2 then y - 1 else y) = y'
  generalize hera : y' / 400 = era
  generalize hyoe : y' - era * 400 = yoe
  have byoe : 0 ≤ yoe ∧ yoe ≤ 399 := by omega
  generalize hmp : (m + 9) % 12 = mp
  have bmp : 0 ≤ mp ∧ mp ≤ 11 := by omega
  have hmpd : MpDay mp d := by
    refine ⟨hd1, l31, ?_, ?_⟩
    · intro hh; apply l30; omega
    · intro hh; exact (l2 (by omega)).1
  have hleap : mp = 11 → d = 29 → LeapNext yoe := by
    intro h11 h29
    have hm2 : m = 2 := by omega
    have hl := (isLeap_iff y).1 ((l2 hm2).2 h29)
    have : y' = y - 1 := by rw [← hy', if_pos (by omega)]
    simp only [LeapNext]
    omega
  obtain ⟨f1, f2, f3⟩ := monthDay_fwd mp d bmp.1 bmp.2 hmpd
  have f0 : 0 ≤ (153 * mp + 2) / 5 + d - 1 := by omega
  generalize hdoy : (153 * mp + 2) / 5 + d - 1 = doy at *
  have hF := yearOfEra_fwd yoe doy byoe.1 byoe.2 f0 f2 (fun h365 => hleap (f3 h365).1 (f3 h365).2)
  have hdoe : 0 ≤ 365 * yoe + yoe / 4 - yoe / 100 + doy ∧ 365 * yoe + yoe / 4 - yoe / 100 + doy < 146097 := by
    omega
  have hcomm : yoe * 365 + yoe / 4 - yoe / 100 + doy = 365 * yoe + yoe / 4 - yoe / 100 + doy := by omega
  rw [hcomm]
  generalize hdoe' : 365 * yoe + yoe / 4 - yoe / 100 + doy = doe at *
  unfold civilFromDays
  simp only []
  have hz : era * 146097 + doe - 719468 + 719468 = era * 146097 + doe := by omega
  rw [hz, era_unique era doe hdoe.1 hdoe.2]
  have hz2 : era * 146097 + doe - era * 146097 = doe := by omega
  rw [hz2, hF]
  simp only []
  rw [f1]
  have hmback : (if mp < 10 then mp + 3 else mp - 9) = m := by split <;> omega
  rw [hmback]
  have hyback : (if m ≤ 2 then yoe + era * 400 + 1 else yoe + era * 400) = y := by
    rw [← hyoe, ← hy']; split <;> omega
  rw [hyback]
  have : doy - (153 * mp + 2) / 5 + 1 = d := by omega
  rw [this]

end XlModel.Date
