/-
Day-count lemmas (C19): the closed-form day number agrees with Excel's day count obtained by
summing year and month lengths (`Spec.excelDayCount`, with the fictitious 1900-02-29) and with the
1904-system count.
-/
import XlModel.Lemmas.Date
namespace XlModel.Date

theorem dfc_jan1 (y : Int) :
    daysFromCivil y 1 1 = 365 * (y - 1) + (y - 1) / 4 - (y - 1) / 100 + (y - 1) / 400 + 306 - 719468 := by
  unfold daysFromCivil
  simp only [show ((1:Int) ≤ 2) by decide, if_true]
  omega

theorem dfc_day (y m d : Int) : daysFromCivil y m d = daysFromCivil y m 1 + (d - 1) := by
  unfold daysFromCivil
  simp only []
  omega

theorem year_len (y : Int) :
    daysFromCivil (y + 1) 1 1 - daysFromCivil y 1 1 = if isLeap y then 366 else 365 := by
  rw [dfc_jan1, dfc_jan1]
  by_cases h : isLeap y = true
  · rw [if_pos h]
    have := (isLeap_iff y).1 h
    omega
  · rw [if_neg h]
    have : ¬ (y % 4 = 0 ∧ (y % 100 ≠ 0 ∨ y % 400 = 0)) := fun hh => h ((isLeap_iff y).2 hh)
    omega

theorem yearsSum_eq (n : Nat) :
    Spec.yearsSum n = daysFromCivil (1900 + n) 1 1 - daysFromCivil 1900 1 1 + (if n = 0 then 0 else 1) := by
  induction n with
  | zero => simp [Spec.yearsSum]
  | succ k ih =>
    unfold Spec.yearsSum
    rw [ih]
    have hy := year_len (1900 + (k : Int))
    have e : (1900 : Int) + ((k + 1 : Nat) : Int) = 1900 + (k : Int) + 1 := by omega
    rw [e]
    unfold Spec.excelYearLen
    by_cases hk : k = 0
    · subst hk
      simp only [if_true]
      have : daysFromCivil (1900 + ((0:Nat):Int) + 1) 1 1 - daysFromCivil (1900 + ((0:Nat):Int)) 1 1 = 365 := by decide
      simp at this ⊢
      omega
    · have hne : ¬ ((1900 : Int) + (k : Int) = 1900) := by omega
      have hk1 : ¬ (k + 1 = 0) := by omega
      rw [if_neg hk, if_neg hne, if_neg hk1]
      split at hy <;> rename_i hl
      · rw [if_pos hl]; omega
      · rw [if_neg hl]; omega

theorem dfc_flat_lo (y m d : Int) (h : m ≤ 2) :
    daysFromCivil y m d = 365 * (y - 1) + (y - 1) / 4 - (y - 1) / 100 + (y - 1) / 400
      + (153 * ((m + 9) % 12) + 2) / 5 + d - 1 - 719468 := by
  unfold daysFromCivil
  simp only [h, if_true]
  omega

theorem dfc_flat_hi (y m d : Int) (h : ¬ m ≤ 2) :
    daysFromCivil y m d = 365 * y + y / 4 - y / 100 + y / 400
      + (153 * ((m + 9) % 12) + 2) / 5 + d - 1 - 719468 := by
  unfold daysFromCivil
  simp only [h, if_false]
  omega

theorem dfc_month_start (y m : Int) (h1 : 1 ≤ m) (h12 : m ≤ 12) :
    daysFromCivil y m 1 - daysFromCivil y 1 1 =
      (if m = 1 then 0 else if m = 2 then 31 else
        (if isLeap y then 1 else 0) +
        (if m = 3 then 59 else if m = 4 then 90 else if m = 5 then 120 else if m = 6 then 151
         else if m = 7 then 181 else if m = 8 then 212 else if m = 9 then 243 else if m = 10 then 273
         else if m = 11 then 304 else 334)) := by
  rw [dfc_jan1]
  by_cases hlo : m ≤ 2
  · rw [dfc_flat_lo y m 1 hlo]
    have hm : m = 1 ∨ m = 2 := by omega
    rcases hm with h | h <;> subst h <;> simp <;> omega
  · rw [dfc_flat_hi y m 1 hlo]
    have hm : m = 3 ∨ m = 4 ∨ m = 5 ∨ m = 6 ∨ m = 7 ∨ m = 8 ∨ m = 9 ∨ m = 10 ∨ m = 11 ∨ m = 12 := by omega
    by_cases hl : isLeap y = true
    · have hL := (isLeap_iff y).1 hl
      rw [if_pos hl]
      rcases hm with h | h | h | h | h | h | h | h | h | h <;> subst h <;> simp <;> omega
    · have hL : ¬ (y % 4 = 0 ∧ (y % 100 ≠ 0 ∨ y % 400 = 0)) := fun hh => hl ((isLeap_iff y).2 hh)
      rw [if_neg hl]
      rcases hm with h | h | h | h | h | h | h | h | h | h <;> subst h <;> simp <;> omega

def monthTable (m : Int) : Int :=
  if m = 3 then 59 else if m = 4 then 90 else if m = 5 then 120 else if m = 6 then 151
  else if m = 7 then 181 else if m = 8 then 212 else if m = 9 then 243 else if m = 10 then 273
  else if m = 11 then 304 else 334

theorem m_cases (m : Int) (h1 : 1 ≤ m) (h12 : m ≤ 12) :
    m = 1 ∨ m = 2 ∨ m = 3 ∨ m = 4 ∨ m = 5 ∨ m = 6 ∨ m = 7 ∨ m = 8 ∨ m = 9 ∨ m = 10 ∨ m = 11 ∨ m = 12 := by omega

theorem monthsSumTrue_eq (y m : Int) (h1 : 1 ≤ m) (h12 : m ≤ 12) :
    Spec.monthsSumTrue y (m - 1).toNat = daysFromCivil y m 1 - daysFromCivil y 1 1 := by
  rw [dfc_month_start y m h1 h12]
  rcases m_cases m h1 h12 with h | h | h | h | h | h | h | h | h | h | h | h <;> subst h <;>
    simp [Spec.monthsSumTrue, monthLen] <;> split <;> omega

theorem monthsSum_eq (y m : Int) (h1 : 1 ≤ m) (h12 : m ≤ 12) :
    Spec.monthsSum y (m - 1).toNat =
      daysFromCivil y m 1 - daysFromCivil y 1 1 + (if y = 1900 ∧ 3 ≤ m then 1 else 0) := by
  rw [dfc_month_start y m h1 h12]
  by_cases hy : y = 1900
  · subst hy
    rcases m_cases m h1 h12 with h | h | h | h | h | h | h | h | h | h | h | h <;> subst h <;> decide
  · rcases m_cases m h1 h12 with h | h | h | h | h | h | h | h | h | h | h | h <;> subst h <;>
      simp [Spec.monthsSum, Spec.excelMonthLen, monthLen, hy] <;> split <;> omega

theorem yearsSum1904_eq (n : Nat) :
    Spec.yearsSum1904 n = daysFromCivil (1904 + n) 1 1 - daysFromCivil 1904 1 1 := by
  induction n with
  | zero => simp [Spec.yearsSum1904]
  | succ k ih =>
    unfold Spec.yearsSum1904
    rw [ih]
    have hy := year_len (1904 + (k : Int))
    have e : (1904 : Int) + ((k + 1 : Nat) : Int) = 1904 + (k : Int) + 1 := by omega
    rw [e]
    unfold Spec.yearLen
    split at hy <;> rename_i hl
    · rw [if_pos hl]; omega
    · rw [if_neg hl]; omega

/-- Excel's summation day count in closed form -/
theorem excelDayCount_eq (y m d : Int) (hy : 1900 ≤ y) (h1 : 1 ≤ m) (h12 : m ≤ 12) :
    Spec.excelDayCount y m d = daysFromCivil y m d + 25568 + (if y = 1900 ∧ m ≤ 2 then 0 else 1) := by
  obtain ⟨n, hn⟩ : ∃ n : Nat, y = 1900 + (n : Int) := ⟨(y - 1900).toNat, by omega⟩
  unfold Spec.excelDayCount
  have hnat : (y - 1900).toNat = n := by omega
  rw [hnat, yearsSum_eq, monthsSum_eq y m h1 h12, dfc_day y m d, ← hn]
  have h0 : daysFromCivil 1900 1 1 = -25567 := by decide
  rw [h0]
  by_cases hn0 : n = 0
  · have hy0 : y = 1900 := by omega
    rw [if_pos hn0]
    by_cases hm : 3 ≤ m
    · rw [if_pos ⟨hy0, hm⟩, if_neg (by omega)]; omega
    · rw [if_neg (by omega), if_pos ⟨hy0, by omega⟩]; omega
  · have hy0 : ¬ y = 1900 := by omega
    rw [if_neg hn0, if_neg (by omega), if_neg (by omega)]; omega

/-- the 1904-system summation day count in closed form -/
theorem dayCount1904_eq (y m d : Int) (hy : 1904 ≤ y) (h1 : 1 ≤ m) (h12 : m ≤ 12) :
    Spec.dayCount1904 y m d = daysFromCivil y m d + 24107 := by
  obtain ⟨n, hn⟩ : ∃ n : Nat, y = 1904 + (n : Int) := ⟨(y - 1904).toNat, by omega⟩
  unfold Spec.dayCount1904
  have hnat : (y - 1904).toNat = n := by omega
  rw [hnat, yearsSum1904_eq, monthsSumTrue_eq y m h1 h12, dfc_day y m d, ← hn]
  have h0 : daysFromCivil 1904 1 1 = -24107 := by decide
  rw [h0]; omega

theorem month_start_nonneg (y m : Int) (h1 : 1 ≤ m) (h12 : m ≤ 12) :
    0 ≤ daysFromCivil y m 1 - daysFromCivil y 1 1 ∧ (3 ≤ m → 59 ≤ daysFromCivil y m 1 - daysFromCivil y 1 1) := by
  rw [dfc_month_start y m h1 h12]
  rcases m_cases m h1 h12 with h | h | h | h | h | h | h | h | h | h | h | h <;> subst h <;> simp <;>
    (try split) <;> omega

theorem jan1_ge (y : Int) :
    (1901 ≤ y → -25202 ≤ daysFromCivil y 1 1) ∧ (1904 ≤ y → -24107 ≤ daysFromCivil y 1 1) := by
  rw [dfc_jan1]; constructor <;> intro h <;> omega

end XlModel.Date
