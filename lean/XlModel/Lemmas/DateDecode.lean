/-
Decode lemmas (C19): the exact-arithmetic transcription of `timeFromExcelTime` returns
the whole second `D + k/86400` for every rational input close enough to it.
Uses Mathlib's ordered-field tactics on `ℚ` (= core `Rat`).
-/
import Mathlib.Tactic.Linarith
import Mathlib.Tactic.NormNum
import Mathlib.Algebra.Order.Floor.Ring
import Mathlib.Data.Rat.Floor
import XlModel.Lemmas.DateSerial

namespace XlModel.Date.Impl
open XlModel XlModel.Date Facts.C19

theorem ratTrunc_nonneg (q : ℚ) (h : 0 ≤ q) : ratTrunc q = ⌊q⌋ := by
  unfold ratTrunc; rw [if_pos h]; rfl

/-- integer core of the Gregorian path: an instant within ±0.33 s of a whole second `E + T`
is rounded/truncated to it by the ">500 ms" rule -/
theorem round_rule (E Y T : Int) (hE : E % 1000000000 = 0) (hT : T % 1000000000 = 0)
    (h1 : T - 330000000 ≤ Y) (h2 : Y ≤ T + 330000000) :
    (if ((E + Y) % nsPerSec) / 1000000 > 500 then roundSecond (E + Y) else truncSecond (E + Y)) = E + T := by
  unfold roundSecond truncSecond nsPerSec
  simp only []
  split
  · split <;> omega
  · omega

theorem consts_ok :
    nanosInADay = 86400000000000 ∧ roundEpsilonNum = 1 ∧ roundEpsilonDen = 1000000000 ∧
    offset1900 = 15018 ∧ offset1904 = 16480 ∧ mjd0Num = 4800001 ∧ mjd0Den = 2 ∧
    c1us = 1000 ∧ c1s = 1000000000 ∧ c1day = 86400000000000 := by decide

/-- Gregorian path (serial ≥ 62): tolerance 2⁻¹⁸ day -/
theorem decode_gregorian (x : ℚ) (s : Bool) (D k : Int) (hx62 : (62 : ℚ) ≤ x) (hk0 : 0 ≤ k) (hk : k < 86400)
    (hx : |x - ((D : ℚ) + (k : ℚ) / 86400)| ≤ 1 / 262144) :
    timeFromExcelTime x s = (if s then epoch1904 else epoch1900) + (D * 86400000000000 + k * 1000000000) := by
  obtain ⟨hlo, hhi⟩ := abs_le.mp hx
  have hk0q : (0 : ℚ) ≤ (k : ℚ) := by exact_mod_cast hk0
  have hkq : (k : ℚ) ≤ 86399 := by exact_mod_cast (show k ≤ 86399 by omega)
  have hx0 : (0 : ℚ) ≤ x := by linarith
  unfold timeFromExcelTime
  simp only []
  rw [ratTrunc_nonneg x hx0]
  have hw : (62 : Int) ≤ ⌊x⌋ := Int.le_floor.mpr (by exact_mod_cast hx62)
  rw [if_neg (by omega)]
  have hfl := Int.floor_le x
  have hfl2 := Int.lt_floor_add_one x
  obtain ⟨c1, c2, c3, _⟩ := consts_ok
  have heps : roundEpsilon = 1 / 1000000000 := by
    unfold roundEpsilon; rw [c2, c3]; norm_num
  have hfp : (0 : ℚ) ≤ (nanosInADay : ℚ) * (x - (⌊x⌋ : ℚ) + roundEpsilon) := by
    rw [c1, heps]; push_cast; nlinarith
  rw [ratTrunc_nonneg _ hfp]
  have hd1 := Int.floor_le ((nanosInADay : ℚ) * (x - (⌊x⌋ : ℚ) + roundEpsilon))
  have hd2 := Int.lt_floor_add_one ((nanosInADay : ℚ) * (x - (⌊x⌋ : ℚ) + roundEpsilon))
  generalize ⌊(nanosInADay : ℚ) * (x - (⌊x⌋ : ℚ) + roundEpsilon)⌋ = dur at *
  generalize ⌊x⌋ = w at *
  rw [c1, heps] at hd1 hd2
  push_cast at hd1 hd2
  -- Y = w * nsPerDay + dur is within 0.33 s of T
  have hY1 : D * 86400000000000 + k * 1000000000 - 330000000 ≤ w * 86400000000000 + dur := by
    have : ((D * 86400000000000 + k * 1000000000 - 330000000 : Int) : ℚ) < ((w * 86400000000000 + dur + 1 : Int) : ℚ) := by
      push_cast; linarith
    have := Int.cast_lt.mp this
    omega
  have hY2 : w * 86400000000000 + dur ≤ D * 86400000000000 + k * 1000000000 + 330000000 := by
    have : ((w * 86400000000000 + dur : Int) : ℚ) < ((D * 86400000000000 + k * 1000000000 + 330000000 + 1 : Int) : ℚ) := by
      push_cast; linarith
    have := Int.cast_lt.mp this
    omega
  obtain ⟨e0, e4, _, _⟩ := epochs_ok
  have hE : (if s then epoch1904 else epoch1900) % 1000000000 = 0 := by
    cases s <;> simp only [Bool.false_eq_true, if_false, if_true] <;> [rw [e0]; rw [e4]] <;> decide
  have hT : (D * 86400000000000 + k * 1000000000) % 1000000000 = 0 := by omega
  have := round_rule (if s then epoch1904 else epoch1900) (w * 86400000000000 + dur) _ hE hT hY1 hY2
  have hnd : nsPerDay = 86400000000000 := by decide
  rw [hnd]
  rw [← this]
  have hassoc : (if s = true then epoch1904 else epoch1900) + w * 86400000000000 + dur
      = (if s = true then epoch1904 else epoch1900) + (w * 86400000000000 + dur) := by omega
  rw [hassoc]

/-- Gregorian path, EVERY rational input x ≥ 62 (sub-second fractions included): the result is the
epoch plus `secondRule ⌊86400e9·x + 86400⌋` — the nanoseconds of x, shifted by the rounding
epsilon (10⁻⁹ day = 86 400 ns), cut to an integer, then rounded up to the next second iff the
sub-second part is ≥ 501 ms, else truncated -/
theorem decode_gregorian_rule (x : ℚ) (s : Bool) (hx62 : (62 : ℚ) ≤ x) :
    timeFromExcelTime x s =
      (if s then epoch1904 else epoch1900) + secondRule ⌊(86400000000000 : ℚ) * x + 86400⌋ := by
  have hx0 : (0 : ℚ) ≤ x := by linarith
  unfold timeFromExcelTime
  simp only []
  rw [ratTrunc_nonneg x hx0]
  have hw : (62 : Int) ≤ ⌊x⌋ := Int.le_floor.mpr (by exact_mod_cast hx62)
  rw [if_neg (by omega)]
  have hfl := Int.floor_le x
  obtain ⟨c1, c2, c3, _⟩ := consts_ok
  have heps : roundEpsilon = 1 / 1000000000 := by
    unfold roundEpsilon; rw [c2, c3]; norm_num
  have hfp : (0 : ℚ) ≤ (nanosInADay : ℚ) * (x - (⌊x⌋ : ℚ) + roundEpsilon) := by
    rw [c1, heps]; push_cast; nlinarith
  rw [ratTrunc_nonneg _ hfp]
  -- ⌊day·(x − w + ε)⌋ = ⌊day·x + 86400⌋ − w·day
  have hsplit : (nanosInADay : ℚ) * (x - (⌊x⌋ : ℚ) + roundEpsilon)
      = ((86400000000000 : ℚ) * x + 86400) - ((⌊x⌋ * 86400000000000 : Int) : ℚ) := by
    rw [c1, heps]; push_cast; ring
  rw [hsplit, Int.floor_sub_intCast]
  generalize ⌊(86400000000000 : ℚ) * x + 86400⌋ = N
  generalize ⌊x⌋ = w
  obtain ⟨e0, e4, _, _⟩ := epochs_ok
  have hnd : nsPerDay = 86400000000000 := by decide
  have hns : nsPerSec = 1000000000 := by decide
  unfold roundSecond truncSecond secondRule
  rw [hnd, hns]
  simp only []
  have hE : (if s then epoch1904 else epoch1900) % 1000000000 = 0 := by
    cases s <;> simp only [Bool.false_eq_true, if_false, if_true] <;> [rw [e0]; rw [e4]] <;> decide
  generalize (if s then epoch1904 else epoch1900) = E at *
  have hsum : E + w * 86400000000000 + (N - w * 86400000000000) = E + N := by omega
  rw [hsum]
  have hmod : (E + N) % 1000000000 = N % 1000000000 := by omega
  rw [hmod]
  split
  · rename_i h501
    rw [if_neg (by omega)]; omega
  · omega

/-- sub-second inputs on the Gregorian path: a stored value within 2⁻³⁰ day of the exact serial of
day D, second k, f nanoseconds decodes to second k when f ≤ 0.500833 s and to second k+1 when
f ≥ 0.5009941 s (between the two the float error decides) -/
theorem decode_subsecond (x : ℚ) (s : Bool) (D k f : Int) (hx62 : (62 : ℚ) ≤ x) (hk0 : 0 ≤ k) (hf0 : 0 ≤ f)
    (hf : f < 1000000000)
    (hx : |x - ((D : ℚ) + ((k : ℚ) * 1000000000 + (f : ℚ)) / 86400000000000)| ≤ 1 / 1073741824) :
    (f ≤ 500833000 → timeFromExcelTime x s =
        (if s then epoch1904 else epoch1900) + (D * 86400000000000 + k * 1000000000)) ∧
    (500994100 ≤ f → timeFromExcelTime x s =
        (if s then epoch1904 else epoch1900) + (D * 86400000000000 + (k + 1) * 1000000000)) := by
  obtain ⟨hlo, hhi⟩ := abs_le.mp hx
  rw [decode_gregorian_rule x s hx62]
  have hN1 := Int.floor_le ((86400000000000 : ℚ) * x + 86400)
  have hN2 := Int.lt_floor_add_one ((86400000000000 : ℚ) * x + 86400)
  generalize ⌊(86400000000000 : ℚ) * x + 86400⌋ = N at *
  -- N is within 80 467 ns of T + f + 86400, T = D days + k seconds
  have hA : D * 86400000000000 + k * 1000000000 + f + 86400 - 80468 ≤ N := by
    have : ((D * 86400000000000 + k * 1000000000 + f + 86400 - 80468 : Int) : ℚ) < ((N + 1 : Int) : ℚ) := by
      push_cast; linarith
    have := Int.cast_lt.mp this
    omega
  have hB : N ≤ D * 86400000000000 + k * 1000000000 + f + 86400 + 80468 := by
    have : ((N : Int) : ℚ) < ((D * 86400000000000 + k * 1000000000 + f + 86400 + 80468 + 1 : Int) : ℚ) := by
      push_cast; linarith
    have := Int.cast_lt.mp this
    omega
  unfold secondRule
  constructor
  · intro hsmall
    split <;> omega
  · intro hbig
    split <;> omega

/-! ### Julian path (serial < 62) -/

/-- Fliegel–Van Flandern on the Julian day numbers the path can reach equals the model calendar:
MJD offsets 15018 / 16480 are 1899-12-30 / 1904-01-01 -/
theorem fliegel_table_1900 : ∀ i : Fin 64,
    daysFromCivil (fliegel (2400001 + 15018 + ((i.val : Int) - 1))).2.2 (fliegel (2400001 + 15018 + ((i.val : Int) - 1))).2.1
      (fliegel (2400001 + 15018 + ((i.val : Int) - 1))).1 = -25569 + ((i.val : Int) - 1) := by decide

theorem fliegel_table_1904 : ∀ i : Fin 64,
    daysFromCivil (fliegel (2400001 + 16480 + ((i.val : Int) - 1))).2.2 (fliegel (2400001 + 16480 + ((i.val : Int) - 1))).2.1
      (fliegel (2400001 + 16480 + ((i.val : Int) - 1))).1 = -24107 + ((i.val : Int) - 1) := by decide

theorem fliegel_days (s : Bool) (w : Int) (h0 : -1 ≤ w) (h1 : w ≤ 62) :
    daysFromCivil (fliegel (2400001 + (if s then 16480 else 15018) + w)).2.2
      (fliegel (2400001 + (if s then 16480 else 15018) + w)).2.1
      (fliegel (2400001 + (if s then 16480 else 15018) + w)).1 = (if s then -24107 else -25569) + w := by
  have hi : (w + 1).toNat < 64 := by omega
  have hw : ((⟨(w + 1).toNat, hi⟩ : Fin 64).val : Int) - 1 = w := by simp only []; omega
  cases s
  · have := fliegel_table_1900 ⟨(w + 1).toNat, hi⟩
    rw [hw] at this
    simpa using this
  · have := fliegel_table_1904 ⟨(w + 1).toNat, hi⟩
    rw [hw] at this
    simpa using this

/-- integer core of `fractionOfADay`: `F` nanoseconds (rounded) that are a whole number of seconds
plus 100..900 ns give that many seconds and no sub-second part -/
theorem fraction_core (F U : Int) (hU0 : 0 ≤ U) (hU : U % 1000000000 = 0) (h1 : U + 100 ≤ F) (h2 : F ≤ U + 900) :
    ((((F.tdiv 1000000000).tdiv 60).tdiv 60) * 3600 + (((F.tdiv 1000000000).tdiv 60).tmod 60) * 60
        + (F.tdiv 1000000000).tmod 60) * 1000000000 + ((F.tmod 1000000000).tdiv 1000) * 1000 = U := by
  have hF0 : 0 ≤ F := by omega
  rw [Int.tdiv_eq_ediv_of_nonneg hF0, Int.tmod_eq_emod_of_nonneg hF0]
  have hF1 : 0 ≤ F / 1000000000 := by omega
  rw [Int.tdiv_eq_ediv_of_nonneg hF1, Int.tmod_eq_emod_of_nonneg hF1]
  have hF2 : 0 ≤ F / 1000000000 / 60 := by omega
  rw [Int.tdiv_eq_ediv_of_nonneg hF2, Int.tmod_eq_emod_of_nonneg hF2]
  have hF3 : 0 ≤ F % 1000000000 := by omega
  rw [Int.tdiv_eq_ediv_of_nonneg hF3]
  omega

theorem floor_mjd0 : ratTrunc mjd0 = 2400000 ∧ mjd0 - ((2400000 : Int) : ℚ) = 1 / 2 := by
  obtain ⟨_, _, _, _, _, c6, c7, _⟩ := consts_ok
  have hm : mjd0 = 4800001 / 2 := by unfold mjd0; rw [c6, c7]; norm_num
  have h0 : (0 : ℚ) ≤ mjd0 := by rw [hm]; norm_num
  constructor
  · rw [ratTrunc_nonneg _ h0, hm, Int.floor_eq_iff]; constructor <;> norm_num
  · rw [hm]; norm_num

/-- Julian path (serial < 62): tolerance 2⁻³⁸ day (0.31 ns) -/
theorem decode_julian (x : ℚ) (s : Bool) (D k : Int) (hx62 : x < 62) (hD0 : 0 ≤ D) (hk0 : 0 ≤ k) (hk : k < 86400)
    (hx : |x - ((D : ℚ) + (k : ℚ) / 86400)| ≤ 1 / 274877906944) :
    timeFromExcelTime x s = (if s then epoch1904 else epoch1900) + (D * 86400000000000 + k * 1000000000) := by
  obtain ⟨hlo, hhi⟩ := abs_le.mp hx
  have hk0q : (0 : ℚ) ≤ (k : ℚ) := by exact_mod_cast hk0
  have hkq : (k : ℚ) ≤ 86399 := by exact_mod_cast (show k ≤ 86399 by omega)
  have hD0q : (0 : ℚ) ≤ (D : ℚ) := by exact_mod_cast hD0
  have hxm1 : (-1 : ℚ) < x := by linarith
  obtain ⟨_, _, _, c4, c5, _, _, c8, c9, c10⟩ := consts_ok
  unfold timeFromExcelTime
  simp only []
  have hpath : ratTrunc x ≤ 61 := by
    unfold ratTrunc
    split
    · have : Rat.floor x < 62 := Int.floor_lt.mpr (by exact_mod_cast hx62)
      omega
    · rename_i hneg
      have hneg' : x < 0 := not_le.mp hneg
      have : (0 : Int) ≤ ⌊-x⌋ := Int.floor_nonneg.mpr (by linarith)
      show -(⌊-x⌋) ≤ 61
      omega
  rw [if_pos hpath]
  -- both date systems: x + offset
  have key : ∀ off : Int, off = (if s then 16480 else 15018) →
      julianDateToGregorianTime mjd0 (x + (off : ℚ)) =
        (if s then epoch1904 else epoch1900) + (D * 86400000000000 + k * 1000000000) := by
    intro off hoff
    have hoffq : (15018 : ℚ) ≤ (off : ℚ) := by
      have : (15018 : Int) ≤ off := by rw [hoff]; split <;> omega
      exact_mod_cast this
    have hp0 : (0 : ℚ) ≤ x + (off : ℚ) := by linarith
    unfold julianDateToGregorianTime
    simp only []
    rw [floor_mjd0.1, floor_mjd0.2, ratTrunc_nonneg _ hp0]
    have hfl : ⌊x + (off : ℚ)⌋ = ⌊x⌋ + off := Int.floor_add_intCast x off
    rw [hfl]
    have hf1 := Int.floor_le x
    have hf2 := Int.lt_floor_add_one x
    have hwlo : (-1 : Int) ≤ ⌊x⌋ := Int.le_floor.mpr (by push_cast; linarith)
    have hwhi : ⌊x⌋ ≤ 61 := by
      have : ⌊x⌋ < 62 := Int.floor_lt.mpr (by exact_mod_cast hx62)
      omega
    generalize ⌊x⌋ = w at *
    -- the fraction of part2 is x - w
    have hfrac : x + (off : ℚ) - ((w + off : Int) : ℚ) = x - (w : ℚ) := by push_cast; ring
    rw [hfrac]
    have hjf : (1 : ℚ) / 2 + (x - (w : ℚ)) ≥ half := by unfold half; linarith
    have hsh : shiftJulianToNoon (2400000 + (w + off)) (1 / 2 + (x - (w : ℚ)))
        = (2400000 + (w + off) + 1, 1 / 2 + (x - (w : ℚ)) - half) := by
      unfold shiftJulianToNoon
      rw [if_neg (by intro h; have := h.2; unfold half at *; linarith), if_pos hjf]
    rw [hsh]
    simp only []
    have hhalf : (1 : ℚ) / 2 + (x - (w : ℚ)) - half = x - (w : ℚ) := by unfold half; ring
    rw [hhalf]
    -- fractionOfADay
    unfold fractionOfADay
    simp only []
    rw [c8, c9, c10]
    have h500 : ((Int.tdiv 1000 2 : Int) : ℚ) = 500 := by norm_num [Int.tdiv]
    rw [h500]
    have hfr0 : (0 : ℚ) ≤ ((86400000000000 : Int) : ℚ) * (x - (w : ℚ)) + 500 := by push_cast; nlinarith
    rw [ratTrunc_nonneg _ hfr0]
    have hF1 := Int.floor_le (((86400000000000 : Int) : ℚ) * (x - (w : ℚ)) + 500)
    have hF2 := Int.lt_floor_add_one (((86400000000000 : Int) : ℚ) * (x - (w : ℚ)) + 500)
    generalize ⌊((86400000000000 : Int) : ℚ) * (x - (w : ℚ)) + 500⌋ = F at *
    push_cast at hF1 hF2
    -- U = (D - w) days + k seconds, in ns
    have hDw : w ≤ D := by
      have : ((w : Int) : ℚ) < ((D + 1 : Int) : ℚ) := by push_cast; linarith
      have := Int.cast_lt.mp this
      omega
    have hU1 : (D - w) * 86400000000000 + k * 1000000000 + 100 ≤ F := by
      have : (((D - w) * 86400000000000 + k * 1000000000 + 100 : Int) : ℚ) < ((F + 1 : Int) : ℚ) := by
        push_cast; linarith
      have := Int.cast_lt.mp this
      omega
    have hU2 : F ≤ (D - w) * 86400000000000 + k * 1000000000 + 900 := by
      have : ((F : Int) : ℚ) < (((D - w) * 86400000000000 + k * 1000000000 + 900 + 1 : Int) : ℚ) := by
        push_cast; linarith
      have := Int.cast_lt.mp this
      omega
    have hcore := fraction_core F ((D - w) * 86400000000000 + k * 1000000000) (by omega) (by omega) hU1 hU2
    have hfd := fliegel_days s w hwlo (by omega)
    rw [← hoff] at hfd
    have harg : 2400000 + (w + off) + 1 = 2400001 + off + w := by omega
    rw [harg]
    unfold instantOf
    simp only []
    rw [hfd]
    obtain ⟨e0, e4, _, _⟩ := epochs_ok
    have hns : nsPerSec = 1000000000 := by decide
    rw [hns]
    cases s
    · simp only [Bool.false_eq_true, if_false] at hcore ⊢
      rw [e0]; omega
    · simp only [if_true] at hcore ⊢
      rw [e4]; omega
  cases s
  · simp only [Bool.false_eq_true, if_false] at key ⊢
    rw [c4]; exact key 15018 rfl
  · simp only [if_true] at key ⊢
    rw [c5]; exact key 16480 rfl

/-! ### both paths together -/

theorem pow2_38 : pow2 38 = 1 / 274877906944 := by unfold pow2; norm_num
theorem pow2_18 : pow2 18 = 1 / 262144 := by unfold pow2; norm_num
theorem pow2_30 : pow2 30 = 1 / 1073741824 := by unfold pow2; norm_num
theorem pow2_40 : pow2 40 = 1 / 1099511627776 := by unfold pow2; norm_num

/-- whichever path `timeFromExcelTime` takes, an input within `decTol D` of `D + k/86400`
decodes to exactly that day and second -/
theorem decode_both (x : ℚ) (s : Bool) (D k : Int) (hD0 : 0 ≤ D) (hk0 : 0 ≤ k) (hk : k < 86400)
    (hx : |x - ((D : ℚ) + (k : ℚ) / 86400)| ≤ decTol D) :
    timeFromExcelTime x s = (if s then epoch1904 else epoch1900) + (D * 86400000000000 + k * 1000000000) := by
  by_cases h62 : (62 : ℚ) ≤ x
  · apply decode_gregorian x s D k h62 hk0 hk
    refine le_trans hx ?_
    unfold decTol; split
    · rw [pow2_38]; norm_num
    · rw [pow2_18]
  · have hlt : x < 62 := not_le.mp h62
    have hD : D ≤ 62 := by
      by_contra hc
      have hD63 : (63 : ℚ) ≤ (D : ℚ) := by exact_mod_cast (show (63 : Int) ≤ D by omega)
      have hk0q : (0 : ℚ) ≤ (k : ℚ) := by exact_mod_cast hk0
      have ht : decTol D = pow2 18 := by unfold decTol; rw [if_neg (by omega)]
      rw [ht, pow2_18] at hx
      have := (abs_le.mp hx).1
      have hkk : (0 : ℚ) ≤ (k : ℚ) / 86400 := by positivity
      linarith
    apply decode_julian x s D k hlt hD0 hk0 hk
    have ht : decTol D = pow2 38 := by unfold decTol; rw [if_pos hD]
    rw [ht, pow2_38] at hx
    exact hx

/-- instants one second apart stay strictly ordered under errors of at most 2⁻³⁰ day each -/
theorem float_order (n n' : Int) (x x' : ℚ) (h : n + 1000000000 ≤ n')
    (hx : |x - (n : ℚ) / 86400000000000| ≤ 1 / 1073741824)
    (hx' : |x' - (n' : ℚ) / 86400000000000| ≤ 1 / 1073741824) : x < x' := by
  have h1 := (abs_le.mp hx).2
  have h2 := (abs_le.mp hx').1
  have hq : (n : ℚ) + 1000000000 ≤ (n' : ℚ) := by exact_mod_cast h
  have : (n : ℚ) / 86400000000000 + 1 / 86400 ≤ (n' : ℚ) / 86400000000000 := by
    rw [div_add_div _ _ (by norm_num) (by norm_num), div_le_div_iff₀ (by norm_num) (by norm_num)]
    nlinarith
  have : (1 : ℚ) / 86400 > 2 * (1 / 1073741824) := by norm_num
  linarith

end XlModel.Date.Impl

namespace XlModel.Date

/-- `Date()`/`Clock()` of the instant built from a valid date and clock reading give them back -/
theorem civilOf_instantOf (y m d h mi s : Int) (hv : ValidDate y m d)
    (hh0 : 0 ≤ h) (hh : h < 24) (hm0 : 0 ≤ mi) (hm : mi < 60) (hs0 : 0 ≤ s) (hs : s < 60) :
    civilOf (instantOf { y := y, m := m, d := d, h := h, mi := mi, s := s, ns := 0 })
      = { y := y, m := m, d := d, h := h, mi := mi, s := s, ns := 0 } := by
  have hc := civil_days_civil y m d hv
  unfold civilOf instantOf
  simp only []
  generalize daysFromCivil y m d = z at *
  have hns : nsPerSec = 1000000000 := by decide
  have hnd : nsPerDay = 86400000000000 := by decide
  rw [hns, hnd]
  have h1 : ((z * 86400 + h * 3600 + mi * 60 + s) * 1000000000 + 0) / 86400000000000 = z := by omega
  have h2 : ((z * 86400 + h * 3600 + mi * 60 + s) * 1000000000 + 0) % 86400000000000
      = (h * 3600 + mi * 60 + s) * 1000000000 := by omega
  rw [h1, h2, hc]
  simp only []
  have h3 : (h * 3600 + mi * 60 + s) * 1000000000 / 1000000000 = h * 3600 + mi * 60 + s := by omega
  have h4 : (h * 3600 + mi * 60 + s) * 1000000000 % 1000000000 = 0 := by omega
  rw [h3, h4]
  have h5 : (h * 3600 + mi * 60 + s) / 3600 = h := by omega
  have h6 : (h * 3600 + mi * 60 + s) % 3600 / 60 = mi := by omega
  have h7 : (h * 3600 + mi * 60 + s) % 60 = s := by omega
  rw [h5, h6, h7]

end XlModel.Date
