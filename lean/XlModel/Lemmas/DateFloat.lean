/-
Float layer of `timeToExcelTime` (C19).  `Impl.timeToExcelTimeF` makes every float64 operation of
the Go function explicit; here it is instantiated with rationals rounded by an arbitrary function
`rnd` that satisfies the standard model of floating-point arithmetic
(|rnd q − q| ≤ 2⁻⁵³·|q|) and is exact on integers up to 2⁵³, and the distance to the exact serial
is bounded by `encTol`.  No axiom: the two laws are fields of a structure; the identity rounding
shows they are satisfiable.
-/
import Mathlib.Tactic.Linarith
import Mathlib.Tactic.NormNum
import Mathlib.Tactic.Positivity
import XlModel.Lemmas.DateDecode

namespace XlModel.Date.Impl
open XlModel XlModel.Date Facts.C19

/-- unit roundoff of float64 -/
def u53 : ℚ := 1 / 9007199254740992

/-- a rounding function obeying the standard model, exact on integers of magnitude ≤ 2⁵³ -/
structure Rounding where
  rnd : ℚ → ℚ
  err : ∀ q : ℚ, |rnd q - q| ≤ u53 * |q|
  exact_int : ∀ n : Int, |n| ≤ 9007199254740992 → rnd (n : ℚ) = (n : ℚ)

/-- satisfiability: exact arithmetic is an instance -/
def Rounding.exact : Rounding where
  rnd := id
  err := by intro q; simp only [id, sub_self, abs_zero]; unfold u53; positivity
  exact_int := by intro n _; rfl

/-- rounded-rational instance of the float operations -/
def ratOps (R : Rounding) : FloatOps ℚ where
  ofInt n := R.rnd (n : ℚ)
  add a b := R.rnd (a + b)
  div a b := R.rnd (a / b)

theorem Rounding.nonneg (R : Rounding) (q : ℚ) (h : 0 ≤ q) :
    q - u53 * q ≤ R.rnd q ∧ R.rnd q ≤ q + u53 * q := by
  have := abs_le.mp (R.err q)
  rw [abs_of_nonneg h] at this
  constructor <;> linarith [this.1, this.2]

/-! ### the accumulator of the chunk loop stays exact -/

theorem chunk_mono (date : Int) : ∀ (fuel : Nat) (tt diff res : Int),
    res ≤ (chunkLoop date fuel tt diff res).2 := by
  intro fuel
  induction fuel with
  | zero => intro tt diff res; unfold chunkLoop; exact Int.le_refl _
  | succ n ih =>
    intro tt diff res
    unfold chunkLoop
    have hq : maxDuration.tdiv dayNanoseconds = 105560 := durations_ok.2.2
    split
    · simp only []
      have := ih (tt + -maxDuration) (satSub (tt + -maxDuration) date) (res + maxDuration.tdiv dayNanoseconds)
      rw [hq] at this ⊢
      omega
    · exact Int.le_refl _

theorem chunkF_eq (R : Rounding) (date : Int) : ∀ (fuel : Nat) (tt diff res : Int), 0 ≤ res →
    (chunkLoop date fuel tt diff res).2 ≤ 9007199254740992 →
    chunkLoopF (ratOps R) date fuel tt diff (res : ℚ)
      = ((chunkLoop date fuel tt diff res).1, ((chunkLoop date fuel tt diff res).2 : ℚ)) := by
  intro fuel
  induction fuel with
  | zero => intro tt diff res _ _; unfold chunkLoopF chunkLoop; rfl
  | succ n ih =>
    intro tt diff res h0 hb
    unfold chunkLoop at hb
    unfold chunkLoopF chunkLoop
    have hq : maxDuration.tdiv dayNanoseconds = 105560 := durations_ok.2.2
    by_cases hc : diff ≥ maxDuration
    · rw [if_pos hc] at hb ⊢
      rw [if_pos hc]
      simp only [] at hb ⊢
      rw [hq] at hb ⊢
      have hm := chunk_mono date n (tt + -maxDuration) (satSub (tt + -maxDuration) date) (res + 105560)
      have hacc : (ratOps R).add (res : ℚ) ((ratOps R).ofInt 105560) = ((res + 105560 : Int) : ℚ) := by
        show R.rnd ((res : ℚ) + R.rnd ((105560 : Int) : ℚ)) = _
        rw [R.exact_int 105560 (by decide)]
        have : (res : ℚ) + ((105560 : Int) : ℚ) = ((res + 105560 : Int) : ℚ) := by push_cast; ring
        rw [this]
        exact R.exact_int _ (by rw [abs_of_nonneg (by omega)]; omega)
      rw [hacc]
      exact ih _ _ _ (by omega) hb
    · rw [if_neg hc, if_neg hc]

/-! ### the rounded tail: whole days + remainder, accumulated chunks, the 1900 increment -/

/-- the float64 tail of `timeToExcelTime` on exact inputs `P` (days from whole chunks), `W` (whole
days of the remaining difference), `rem` (nanoseconds of the last day): six roundings, total error
at most 2⁻⁵³·(3W + 2S + 4) where S is the exact result -/
theorem tail_error (R : Rounding) (P W rem : Int) (hP0 : 0 ≤ P) (hP : P ≤ 4194304) (hW0 : 0 ≤ W)
    (hW : W ≤ 105559) (hr0 : 0 ≤ rem) (hr : rem < 86400000000000) :
    let ops := ratOps R
    let r1 := ops.add (P : ℚ) (ops.add (ops.div (ops.ofInt (W * 86400000000000)) (ops.ofInt 86400000000000))
                (ops.div (ops.ofInt rem) (ops.ofInt 86400000000000)))
    let S : ℚ := (P : ℚ) + (W : ℚ) + (rem : ℚ) / 86400000000000
    |r1 - S| ≤ u53 * (3 * W + S + 3) ∧ |ops.add r1 (ops.ofInt 1) - (S + 1)| ≤ u53 * (3 * W + 2 * S + 4) ∧
    0 ≤ r1 ∧ 0 ≤ ops.add r1 (ops.ofInt 1) := by
  intro ops r1 S
  have hPq0 : (0 : ℚ) ≤ (P : ℚ) := by exact_mod_cast hP0
  have hPq : (P : ℚ) ≤ 4194304 := by exact_mod_cast hP
  have hWq0 : (0 : ℚ) ≤ (W : ℚ) := by exact_mod_cast hW0
  have hWq : (W : ℚ) ≤ 105559 := by exact_mod_cast hW
  have hrq0 : (0 : ℚ) ≤ (rem : ℚ) := by exact_mod_cast hr0
  have hrq : (rem : ℚ) < 86400000000000 := by exact_mod_cast hr
  -- exact conversions
  have hday : R.rnd ((86400000000000 : Int) : ℚ) = 86400000000000 := by
    rw [R.exact_int _ (by decide)]; norm_num
  have hrem : R.rnd ((rem : Int) : ℚ) = (rem : ℚ) :=
    R.exact_int rem (by rw [abs_of_nonneg hr0]; omega)
  have hone : R.rnd ((1 : Int) : ℚ) = 1 := by rw [R.exact_int 1 (by decide)]; norm_num
  -- a = rnd (W·day)
  have hA0 : (0 : ℚ) ≤ ((W * 86400000000000 : Int) : ℚ) := by push_cast; linarith
  obtain ⟨a1, a2⟩ := R.nonneg _ hA0
  generalize ha : R.rnd ((W * 86400000000000 : Int) : ℚ) = a at a1 a2
  push_cast at a1 a2
  -- b = rnd (a / day)
  have hb0 : (0 : ℚ) ≤ a / 86400000000000 := by
    apply div_nonneg _ (by norm_num); unfold u53 at a1; linarith
  obtain ⟨b1, b2⟩ := R.nonneg _ hb0
  generalize hb : R.rnd (a / 86400000000000) = b at b1 b2
  -- e = rnd (rem / day)
  have he0 : (0 : ℚ) ≤ (rem : ℚ) / 86400000000000 := div_nonneg hrq0 (by norm_num)
  obtain ⟨e1, e2⟩ := R.nonneg _ he0
  generalize he : R.rnd ((rem : ℚ) / 86400000000000) = e at e1 e2
  have hρ : (rem : ℚ) / 86400000000000 < 1 := by rw [div_lt_one (by norm_num)]; exact hrq
  -- sm = rnd (b + e)
  have hbe0 : (0 : ℚ) ≤ b + e := by unfold u53 at *; linarith
  obtain ⟨s1, s2⟩ := R.nonneg _ hbe0
  generalize hsm : R.rnd (b + e) = sm at s1 s2
  -- r1 = rnd (P + sm)
  have hps0 : (0 : ℚ) ≤ (P : ℚ) + sm := by unfold u53 at *; linarith
  obtain ⟨p1, p2⟩ := R.nonneg _ hps0
  generalize hr1 : R.rnd ((P : ℚ) + sm) = q1 at p1 p2
  -- r2 = rnd (r1 + 1)
  have hq10 : (0 : ℚ) ≤ q1 + 1 := by unfold u53 at *; linarith
  obtain ⟨t1, t2⟩ := R.nonneg _ hq10
  generalize hr2 : R.rnd (q1 + 1) = q2 at t1 t2
  have e_r1 : r1 = q1 := by
    show R.rnd ((P : ℚ) + R.rnd (R.rnd (R.rnd ((W * 86400000000000 : Int) : ℚ) / R.rnd ((86400000000000 : Int) : ℚ))
      + R.rnd (R.rnd ((rem : Int) : ℚ) / R.rnd ((86400000000000 : Int) : ℚ)))) = q1
    rw [hday, hrem, ha, hb, he, hsm, hr1]
  have e_r2 : ops.add r1 (ops.ofInt 1) = q2 := by
    show R.rnd (r1 + R.rnd ((1 : Int) : ℚ)) = q2
    rw [e_r1, hone, hr2]
  rw [e_r2, e_r1]
  show |q1 - ((P : ℚ) + (W : ℚ) + (rem : ℚ) / 86400000000000)| ≤ u53 * (3 * W + ((P : ℚ) + (W : ℚ) + (rem : ℚ) / 86400000000000) + 3) ∧
    |q2 - ((P : ℚ) + (W : ℚ) + (rem : ℚ) / 86400000000000 + 1)| ≤ u53 * (3 * W + 2 * ((P : ℚ) + (W : ℚ) + (rem : ℚ) / 86400000000000) + 4) ∧
    0 ≤ q1 ∧ 0 ≤ q2
  unfold u53 at *
  refine ⟨?_, ?_, ?_, ?_⟩
  · rw [abs_le]; constructor <;> linarith
  · rw [abs_le]; constructor <;> linarith
  · linarith
  · linarith

/-! ### the whole function -/

theorem rnd_zero (R : Rounding) : R.rnd ((0 : Int) : ℚ) = ((0 : Int) : ℚ) := R.exact_int 0 (by decide)

/-- core: from the epoch on, the float-level result is within 2⁻⁵³·(3W + 2σ + 4) of the exact serial σ -/
theorem encode_error_core (R : Rounding) (t date : Int) (inc : Bool) (h : ¬ t < date)
    (hN : t - date < 2958466 * 86400000000000) :
    let p := chunkLoopF (ratOps R) date (((t - date) / maxDuration).toNat + 1) t (satSub t date) ((ratOps R).ofInt 0)
    let r := (ratOps R).add p.2
      ((ratOps R).add ((ratOps R).div ((ratOps R).ofInt (p.1 - p.1.tmod dayNanoseconds)) ((ratOps R).ofInt dayNanoseconds))
               ((ratOps R).div ((ratOps R).ofInt (p.1.tmod dayNanoseconds)) ((ratOps R).ofInt dayNanoseconds)))
    let σ : ℚ := ((t - date : Int) : ℚ) / 86400000000000
    |(if inc then (ratOps R).add r ((ratOps R).ofInt 1) else r) - (if inc then σ + 1 else σ)|
      ≤ u53 * (5 * σ + 4) ∧
    |(if inc then (ratOps R).add r ((ratOps R).ofInt 1) else r) - (if inc then σ + 1 else σ)|
      ≤ u53 * (316677 + 2 * σ + 4) ∧
    0 ≤ (if inc then (ratOps R).add r ((ratOps R).ofInt 1) else r) := by
  intro p r σ
  have h0 : 0 ≤ t - date := by omega
  have hmd : maxDuration = 9120384000000000000 := durations_ok.2.1
  have hdn : dayNanoseconds = 86400000000000 := durations_ok.1
  have hf : (t - date) / 9120384000000000000 < (((t - date) / 9120384000000000000).toNat + 1 : Nat) := by omega
  obtain ⟨i1, i2, i3⟩ := chunk_loop_exits date _ t 0 h0 hf
  have hP0 := chunk_mono date (((t - date) / 9120384000000000000).toNat + 1) t (satSub t date) 0
  have hpe : p = ((chunkLoop date (((t - date) / 9120384000000000000).toNat + 1) t (satSub t date) 0).1,
      ((chunkLoop date (((t - date) / 9120384000000000000).toNat + 1) t (satSub t date) 0).2 : ℚ)) := by
    show chunkLoopF (ratOps R) date (((t - date) / maxDuration).toNat + 1) t (satSub t date) (R.rnd ((0 : Int) : ℚ)) = _
    rw [rnd_zero, hmd]
    exact chunkF_eq R date _ t (satSub t date) 0 (by decide) (by omega)
  generalize chunkLoop date (((t - date) / 9120384000000000000).toNat + 1) t (satSub t date) 0 = cl at *
  obtain ⟨diff, P⟩ := cl
  simp only [] at i1 i2 i3 hP0 hpe
  have hp1 : p.1 = diff := by rw [hpe]
  have hp2 : p.2 = (P : ℚ) := by rw [hpe]
  -- whole days and remainder of diff
  have hrem : diff.tmod 86400000000000 = diff % 86400000000000 := Int.tmod_eq_emod_of_nonneg i2
  have hW : diff - diff % 86400000000000 = (diff / 86400000000000) * 86400000000000 := by omega
  have hr : r = (ratOps R).add (P : ℚ)
      ((ratOps R).add ((ratOps R).div ((ratOps R).ofInt ((diff / 86400000000000) * 86400000000000)) ((ratOps R).ofInt 86400000000000))
               ((ratOps R).div ((ratOps R).ofInt (diff % 86400000000000)) ((ratOps R).ofInt 86400000000000))) := by
    show (ratOps R).add p.2 _ = _
    rw [hp1, hp2, hdn, hrem, hW]
  have hte := tail_error R P (diff / 86400000000000) (diff % 86400000000000) hP0 (by omega) (by omega) (by omega)
    (by omega) (by omega)
  simp only [] at hte
  rw [← hr] at hte
  -- S = σ
  have hS : (P : ℚ) + ((diff / 86400000000000 : Int) : ℚ) + ((diff % 86400000000000 : Int) : ℚ) / 86400000000000 = σ := by
    show _ = ((t - date : Int) : ℚ) / 86400000000000
    have i1' : t - date = P * 86400000000000 + diff := by omega
    rw [i1']
    have hd : ((diff : Int) : ℚ) = ((diff / 86400000000000 : Int) : ℚ) * 86400000000000 + ((diff % 86400000000000 : Int) : ℚ) := by
      have : diff = diff / 86400000000000 * 86400000000000 + diff % 86400000000000 := by omega
      exact_mod_cast this
    push_cast
    rw [hd]; field_simp; ring
  rw [hS] at hte
  have hWq0 : (0 : ℚ) ≤ ((diff / 86400000000000 : Int) : ℚ) := by exact_mod_cast (show (0 : Int) ≤ diff / 86400000000000 by omega)
  have hWq : ((diff / 86400000000000 : Int) : ℚ) ≤ 105559 := by exact_mod_cast (show diff / 86400000000000 ≤ 105559 by omega)
  have hWσ : ((diff / 86400000000000 : Int) : ℚ) ≤ σ := by
    rw [← hS]
    have : (0 : ℚ) ≤ ((diff % 86400000000000 : Int) : ℚ) / 86400000000000 :=
      div_nonneg (by exact_mod_cast (show (0 : Int) ≤ diff % 86400000000000 by omega)) (by norm_num)
    have : (0 : ℚ) ≤ (P : ℚ) := by exact_mod_cast hP0
    linarith
  have hu : (0 : ℚ) ≤ u53 := by unfold u53; norm_num
  cases inc
  · simp only [Bool.false_eq_true, if_false]
    have := hte.1
    refine ⟨?_, ?_, hte.2.2.1⟩
    · refine le_trans this (mul_le_mul_of_nonneg_left ?_ hu); linarith
    · refine le_trans this (mul_le_mul_of_nonneg_left ?_ hu); linarith
  · simp only [if_true]
    have := hte.2.1
    refine ⟨?_, ?_, hte.2.2.2⟩
    · refine le_trans this (mul_le_mul_of_nonneg_left ?_ hu); linarith
    · refine le_trans this (mul_le_mul_of_nonneg_left ?_ hu); linarith

/-- ENCODE ERROR: for every rounding function obeying the standard model (and exact on integers up
to 2⁵³), every instant whose serial is below 2 958 466 (= 10000-01-01 in the 1900 system; < 2²²) and
both date systems, the float-level `timeToExcelTime` is within `encTol` of the exact serial:
2⁻⁴⁰ day below serial 64, 2⁻³⁰ day above -/
theorem encode_error_bound (R : Rounding) (t : Int) (date1904 : Bool)
    (hN : timeToExcelTimeNs t date1904 < 2958466 * 86400000000000) :
    |timeToExcelTimeF (ratOps R) t date1904 - timeToExcelTime t date1904|
      ≤ encTol (timeToExcelTimeNs t date1904) := by
  have hdn : dayNanoseconds = 86400000000000 := durations_ok.1
  have hnd : nsPerDay = 86400000000000 := by decide
  have hu : (0 : ℚ) ≤ u53 := by unfold u53; norm_num
  -- closed form of the exact serial, uniformly
  have hclosed : timeToExcelTimeNs t date1904 =
      if t < (if date1904 then epoch1904 else minTime1900) then 0
      else (t - (if date1904 then epoch1904 else minTime1900)) +
        (if (!date1904 && decide (t > buggyStart)) = true then 86400000000000 else 0) := by
    rw [timeToExcelTimeNs_eq]
    cases date1904
    · simp only [Bool.false_eq_true, if_false, Bool.not_false, Bool.true_and, decide_eq_true_eq]
      split
      · rfl
      · split <;> omega
    · simp only [if_true, Bool.not_true, Bool.false_and, Bool.false_eq_true, if_false]
      split <;> omega
  unfold timeToExcelTime timeToExcelTimeF
  simp only []
  generalize hdate : (if date1904 then epoch1904 else minTime1900) = date at *
  by_cases hlt : t < date
  · rw [if_pos hlt]
    rw [if_pos hlt] at hclosed
    rw [hclosed]
    show |R.rnd ((0 : Int) : ℚ) - ((0 : Int) : ℚ) / _| ≤ _
    rw [rnd_zero]
    simp only [Int.cast_zero, zero_div, sub_self, abs_zero]
    unfold encTol; split <;> (unfold pow2; positivity)
  · rw [if_neg hlt]
    rw [if_neg hlt] at hclosed
    generalize hinc : (!date1904 && decide (t > buggyStart)) = inc at *
    have hN' : t - date < 2958466 * 86400000000000 := by
      rw [hclosed] at hN; split at hN <;> omega
    obtain ⟨c1, c2, _⟩ := encode_error_core R t date inc hlt hN'
    -- the exact serial as a rational
    have hex : ((timeToExcelTimeNs t date1904 : Int) : ℚ) / ((dayNanoseconds : Int) : ℚ)
        = if inc = true then ((t - date : Int) : ℚ) / 86400000000000 + 1 else ((t - date : Int) : ℚ) / 86400000000000 := by
      rw [hclosed, hdn]
      cases inc
      · simp only [Bool.false_eq_true, if_false]; push_cast; ring
      · simp only [if_true]; push_cast; field_simp
    rw [hex]
    have hσ0 : (0 : ℚ) ≤ ((t - date : Int) : ℚ) / 86400000000000 :=
      div_nonneg (by exact_mod_cast (show (0 : Int) ≤ t - date by omega)) (by norm_num)
    unfold encTol
    rw [hnd]
    by_cases hsmall : timeToExcelTimeNs t date1904 < 64 * 86400000000000
    · -- serial < 64: 2⁻⁴⁰
      rw [if_pos hsmall]
      have hσ : ((t - date : Int) : ℚ) / 86400000000000 < 64 := by
        rw [div_lt_iff₀ (by norm_num)]
        have : t - date < 64 * 86400000000000 := by rw [hclosed] at hsmall; split at hsmall <;> omega
        exact_mod_cast this
      refine le_trans c1 ?_
      rw [pow2_40]; unfold u53
      nlinarith
    · -- serial < 2 958 466: 2⁻³⁰
      rw [if_neg hsmall]
      have hσ : ((t - date : Int) : ℚ) / 86400000000000 < 2958466 := by
        rw [div_lt_iff₀ (by norm_num)]
        exact_mod_cast hN'
      refine le_trans c2 ?_
      rw [pow2_30]; unfold u53
      nlinarith

/-- the float-level result is never negative (so `ExcelDateToTime` never rejects it) -/
theorem encode_nonneg (R : Rounding) (t : Int) (date1904 : Bool)
    (hN : timeToExcelTimeNs t date1904 < 2958466 * 86400000000000) :
    0 ≤ timeToExcelTimeF (ratOps R) t date1904 := by
  unfold timeToExcelTimeF
  simp only []
  have hclosed := timeToExcelTimeNs_eq t date1904
  by_cases hlt : t < (if date1904 then epoch1904 else minTime1900)
  · rw [if_pos hlt]
    show 0 ≤ R.rnd ((0 : Int) : ℚ)
    rw [rnd_zero]; norm_num
  · rw [if_neg hlt]
    have hN' : t - (if date1904 then epoch1904 else minTime1900) < 2958466 * 86400000000000 := by
      rw [hclosed] at hN
      cases date1904
      · simp only [Bool.false_eq_true, if_false] at hN hlt ⊢
        rw [if_neg hlt] at hN; split at hN <;> omega
      · simp only [if_true] at hN hlt ⊢
        rw [if_neg hlt] at hN; omega
    exact (encode_error_core R t _ (!date1904 && decide (t > buggyStart)) hlt hN').2.2

end XlModel.Date.Impl
