/-
Float layer of the decoder `timeFromExcelTime` (C19).  `Impl.timeFromExcelTimeF` makes every
float64 operation of the Go function explicit (both code paths); here it is instantiated with
rationals rounded by an arbitrary `rnd` that obeys the standard model, is monotone, and is exact on
integers and half-integers up to 2⁵³ (all true of IEEE-754 round-to-nearest; fields of a structure,
no axiom), and shown to decode every input within an explicit error bound of a whole second to
exactly that second.
-/
import XlModel.Lemmas.DateFloat

namespace XlModel.Date.Impl
open XlModel XlModel.Date Facts.C19

/-- a rounding function with the further IEEE-754 properties the decoder relies on -/
structure Rounding2 extends Rounding where
  mono : ∀ q q' : ℚ, q ≤ q' → rnd q ≤ rnd q'
  exact_half : ∀ n : Int, |n| ≤ 9007199254740992 → rnd ((n : ℚ) / 2) = (n : ℚ) / 2

/-- satisfiability -/
def Rounding2.exact : Rounding2 where
  toRounding := Rounding.exact
  mono := by intro q q' h; exact h
  exact_half := by intro n _; rfl

/-- rounded-rational instance of the decoder's float operations -/
def ratOps2 (R : Rounding2) : FloatOps2 ℚ where
  toFloatOps := ratOps R.toRounding
  sub a b := R.rnd (a - b)
  mul a b := R.rnd (a * b)
  const q := R.rnd q
  trunc := ratTrunc
  lt a b := decide (a < b)
  le a b := decide (a ≤ b)

theorem ratTrunc_intCast (n : Int) : ratTrunc (n : ℚ) = n := by
  unfold ratTrunc
  split
  · show ⌊(n : ℚ)⌋ = n; exact Int.floor_intCast n
  · show -⌊-(n : ℚ)⌋ = n
    have : -(n : ℚ) = ((-n : Int) : ℚ) := by push_cast; ring
    rw [this, Int.floor_intCast]; omega

/-- Gregorian path through the float operations (serial ≥ 62, below 2²²): tolerance 2⁻¹⁹ day -/
theorem decodeF_gregorian (R : Rounding2) (x : ℚ) (s : Bool) (D k : Int) (hx62 : (62 : ℚ) ≤ x)
    (hxmax : x ≤ 4194304) (hk0 : 0 ≤ k) (hk : k < 86400)
    (hx : |x - ((D : ℚ) + (k : ℚ) / 86400)| ≤ 1 / 524288) :
    timeFromExcelTimeF (ratOps2 R) x s = (if s then epoch1904 else epoch1900) + (D * 86400000000000 + k * 1000000000) := by
  obtain ⟨hlo, hhi⟩ := abs_le.mp hx
  have hx0 : (0 : ℚ) ≤ x := by linarith
  obtain ⟨c1, c2, c3, _⟩ := consts_ok
  have heps : roundEpsilon = 1 / 1000000000 := by unfold roundEpsilon; rw [c2, c3]; norm_num
  unfold timeFromExcelTimeF
  simp only [ratOps2, ratOps, ratTrunc_nonneg x hx0]
  have hw : (62 : Int) ≤ ⌊x⌋ := Int.le_floor.mpr (by exact_mod_cast hx62)
  have hwmax : ⌊x⌋ ≤ 4194304 := by
    have : ⌊x⌋ < 4194305 := Int.floor_lt.mpr (by push_cast; linarith)
    omega
  rw [if_neg (by omega)]
  have hfl := Int.floor_le x
  have hfl2 := Int.lt_floor_add_one x
  generalize ⌊x⌋ = w at *
  -- float64(wholeDaysPart) is exact
  rw [R.exact_int w (by rw [abs_of_nonneg (by omega)]; omega), c1, R.exact_int 86400000000000 (by decide), heps]
  -- a = rnd (x - w)
  have ha0 : (0 : ℚ) ≤ x - (w : ℚ) := by linarith
  obtain ⟨a1, a2⟩ := R.toRounding.nonneg _ ha0
  generalize R.rnd (x - (w : ℚ)) = a at a1 a2
  -- e = rnd 1e-9
  obtain ⟨e1, e2⟩ := R.toRounding.nonneg ((1 : ℚ) / 1000000000) (by norm_num)
  generalize R.rnd ((1 : ℚ) / 1000000000) = e at e1 e2
  -- fp = rnd (a + e)
  have hfp0 : (0 : ℚ) ≤ a + e := by unfold u53 at *; linarith
  obtain ⟨f1, f2⟩ := R.toRounding.nonneg _ hfp0
  generalize R.rnd (a + e) = fp at f1 f2
  -- m = rnd (day * fp)
  have hm0 : (0 : ℚ) ≤ ((86400000000000 : Int) : ℚ) * fp := by unfold u53 at *; push_cast; nlinarith
  obtain ⟨m1, m2⟩ := R.toRounding.nonneg _ hm0
  generalize R.rnd (((86400000000000 : Int) : ℚ) * fp) = m at m1 m2
  have hmn : (0 : ℚ) ≤ m := by unfold u53 at *; push_cast at *; linarith
  rw [ratTrunc_nonneg m hmn]
  have hd1 := Int.floor_le m
  have hd2 := Int.lt_floor_add_one m
  generalize ⌊m⌋ = dur at *
  push_cast at m1 m2
  unfold u53 at *
  have hY1 : D * 86400000000000 + k * 1000000000 - 330000000 ≤ w * 86400000000000 + dur := by
    have : ((D * 86400000000000 + k * 1000000000 - 330000000 : Int) : ℚ) < ((w * 86400000000000 + dur + 1 : Int) : ℚ) := by
      push_cast; linarith
    have := Int.cast_lt.mp this
    omega
  have hY2 : w * 86400000000000 + dur ≤ D * 86400000000000 + k * 1000000000 + 330000000 := by
    have : ((w * 86400000000000 + dur : Int) : ℚ) < ((D * 86400000000000 + k * 1000000000 + 330000000 + 1 : Int) : ℚ) := by
      push_cast; linarith
    have := Int.cast_lt.mp this
    omega
  obtain ⟨e0, e4, _, _⟩ := epochs_ok
  have hE : (if s then epoch1904 else epoch1900) % 1000000000 = 0 := by
    cases s <;> simp only [Bool.false_eq_true, if_false, if_true] <;> [rw [e0]; rw [e4]] <;> decide
  have hT : (D * 86400000000000 + k * 1000000000) % 1000000000 = 0 := by omega
  have := round_rule (if s then epoch1904 else epoch1900) (w * 86400000000000 + dur) _ hE hT hY1 hY2
  have hnd : nsPerDay = 86400000000000 := by decide
  rw [hnd, ← this]
  have hassoc : (if s = true then epoch1904 else epoch1900) + w * 86400000000000 + dur
      = (if s = true then epoch1904 else epoch1900) + (w * 86400000000000 + dur) := by omega
  rw [hassoc]

theorem rnd_half (R : Rounding2) : R.rnd ((1 : ℚ) / 2) = 1 / 2 := by
  have := R.exact_half 1 (by decide); simpa using this

/-- Julian path through the float operations (serial < 62): tolerance 2⁻⁴⁰ day on the input
(= `encTol`); the rounding of `excelTime + OFFSET` (≤ 2⁻⁵³·16544 day ≈ 159 ns) and the six further
roundings stay inside the ±500 ns the microsecond rounding of `fractionOfADay` leaves -/
theorem decodeF_julian (R : Rounding2) (x : ℚ) (s : Bool) (D k : Int) (hx62 : x < 62) (hD0 : 0 ≤ D)
    (hk0 : 0 ≤ k) (hk : k < 86400)
    (hx : |x - ((D : ℚ) + (k : ℚ) / 86400)| ≤ 1 / 1099511627776) :
    timeFromExcelTimeF (ratOps2 R) x s = (if s then epoch1904 else epoch1900) + (D * 86400000000000 + k * 1000000000) := by
  obtain ⟨hlo, hhi⟩ := abs_le.mp hx
  have hk0q : (0 : ℚ) ≤ (k : ℚ) := by exact_mod_cast hk0
  have hkq : (k : ℚ) ≤ 86399 := by exact_mod_cast (show k ≤ 86399 by omega)
  have hD0q : (0 : ℚ) ≤ (D : ℚ) := by exact_mod_cast hD0
  have hxm1 : (-1 : ℚ) < x := by linarith
  obtain ⟨_, _, _, c4, c5, c6, c7, c8, c9, c10⟩ := consts_ok
  have hpath : ratTrunc x ≤ 61 := by
    unfold ratTrunc
    split
    · have : Rat.floor x < 62 := Int.floor_lt.mpr (by exact_mod_cast hx62)
      omega
    · rename_i hneg
      have hneg' : x < 0 := not_le.mp hneg
      have : (0 : Int) ≤ ⌊-x⌋ := Int.floor_nonneg.mpr (by linarith)
      show -(⌊-x⌋) ≤ 61
      omega
  have hmj : mjd0 = ((4800001 : Int) : ℚ) / 2 := by unfold mjd0; rw [c6, c7]; norm_num
  unfold timeFromExcelTimeF
  simp only [ratOps2, ratOps]
  simp only [hpath, ↓reduceIte]
  have hD62 : D ≤ 62 := by
    have : ((D : Int) : ℚ) < ((63 : Int) : ℚ) := by push_cast; linarith
    have := Int.cast_lt.mp this
    omega
  have key : ∀ off : Int, off = (if s then 16480 else 15018) →
      julianDateToGregorianTimeF (ratOps2 R) (R.rnd mjd0) (R.rnd (x + R.rnd ((off : Int) : ℚ))) =
        (if s then epoch1904 else epoch1900) + (D * 86400000000000 + k * 1000000000) := by
    intro off hoff
    have hoff1 : (15018 : Int) ≤ off ∧ off ≤ 16480 := by rw [hoff]; split <;> omega
    have hoffq1 : (15018 : ℚ) ≤ (off : ℚ) := by exact_mod_cast hoff1.1
    have hoffq2 : (off : ℚ) ≤ 16480 := by exact_mod_cast hoff1.2
    rw [R.exact_int off (by rw [abs_of_nonneg (by omega)]; omega)]
    -- part2 = rnd (x + off)
    have hp0 : (0 : ℚ) ≤ x + (off : ℚ) := by linarith
    obtain ⟨p1, p2⟩ := R.toRounding.nonneg _ hp0
    generalize R.rnd (x + (off : ℚ)) = part2 at p1 p2
    have hpart2pos : (0 : ℚ) ≤ part2 := by unfold u53 at *; linarith
    -- part1 = mjd0 exactly
    have hpart1 : R.rnd mjd0 = ((4800001 : Int) : ℚ) / 2 := by
      rw [hmj]; exact R.exact_half 4800001 (by decide)
    unfold julianDateToGregorianTimeF modfF
    simp only [ratOps2, ratOps]
    rw [hpart1]
    have ht1 : ratTrunc (((4800001 : Int) : ℚ) / 2) = 2400000 := by
      rw [ratTrunc_nonneg _ (by norm_num), Int.floor_eq_iff]; constructor <;> norm_num
    rw [ht1, R.exact_int 2400000 (by decide)]
    have hp1F : R.rnd (((4800001 : Int) : ℚ) / 2 - ((2400000 : Int) : ℚ)) = 1 / 2 := by
      have : ((4800001 : Int) : ℚ) / 2 - ((2400000 : Int) : ℚ) = 1 / 2 := by norm_num
      rw [this]; exact rnd_half R
    rw [hp1F, ratTrunc_nonneg part2 hpart2pos]
    have hv1 := Int.floor_le part2
    have hv2 := Int.lt_floor_add_one part2
    have hvlo : (0 : Int) ≤ ⌊part2⌋ := Int.floor_nonneg.mpr hpart2pos
    have hvhi : ⌊part2⌋ ≤ 16543 := by
      have : ⌊part2⌋ < 16544 := Int.floor_lt.mpr (by unfold u53 at *; push_cast; linarith)
      omega
    generalize ⌊part2⌋ = v at *
    rw [R.exact_int v (by rw [abs_of_nonneg hvlo]; omega)]
    -- p2F = rnd (part2 - v)
    have hq0 : (0 : ℚ) ≤ part2 - (v : ℚ) := by linarith
    obtain ⟨q1, q2⟩ := R.toRounding.nonneg _ hq0
    generalize R.rnd (part2 - (v : ℚ)) = p2F at q1 q2
    have hp2F0 : (0 : ℚ) ≤ p2F := by unfold u53 at *; linarith
    -- jd = 2400000 + v exactly
    have hjd : R.rnd (((2400000 : Int) : ℚ) + (v : ℚ)) = ((2400000 + v : Int) : ℚ) := by
      have : ((2400000 : Int) : ℚ) + (v : ℚ) = ((2400000 + v : Int) : ℚ) := by push_cast; ring
      rw [this]; exact R.exact_int _ (by rw [abs_of_nonneg (by omega)]; omega)
    rw [hjd]
    -- jf = rnd (1/2 + p2F) ≥ 1/2
    have hjf0 : (0 : ℚ) ≤ 1 / 2 + p2F := by linarith
    obtain ⟨j1, j2⟩ := R.toRounding.nonneg _ hjf0
    have hjfge : (1 : ℚ) / 2 ≤ R.rnd (1 / 2 + p2F) := by
      have := R.mono (1 / 2) (1 / 2 + p2F) (by linarith)
      rw [rnd_half] at this; exact this
    generalize R.rnd (1 / 2 + p2F) = jf at j1 j2 hjfge
    -- shiftJulianToNoon takes its second case
    have hhalf : half = 1 / 2 := rfl
    have hsh : shiftJulianToNoonF (ratOps2 R) ((2400000 + v : Int) : ℚ) jf
        = (((2400001 + v : Int) : ℚ), R.rnd (jf - 1 / 2)) := by
      unfold shiftJulianToNoonF
      simp only [ratOps2, ratOps, hhalf, rnd_half]
      have hnot : ¬ (jf < 1 / 2) := not_lt.mpr hjfge
      simp only [hnot, decide_false, Bool.and_false, Bool.false_eq_true, if_false, hjfge, decide_true, if_true]
      have h1 : R.rnd ((1 : Int) : ℚ) = 1 := by rw [R.exact_int 1 (by decide)]; norm_num
      rw [h1]
      have : ((2400000 + v : Int) : ℚ) + 1 = ((2400001 + v : Int) : ℚ) := by push_cast; ring
      rw [this, R.exact_int _ (by rw [abs_of_nonneg (by omega)]; omega)]
    simp only [ratOps2, ratOps] at hsh
    rw [hsh]
    simp only []
    rw [ratTrunc_intCast]
    -- jf2 = rnd (jf - 1/2)
    have hjf20 : (0 : ℚ) ≤ jf - 1 / 2 := by linarith
    obtain ⟨g1, g2⟩ := R.toRounding.nonneg _ hjf20
    generalize R.rnd (jf - 1 / 2) = jf2 at g1 g2
    have hjf2n : (0 : ℚ) ≤ jf2 := by unfold u53 at *; linarith
    -- fractionOfADay
    unfold fractionOfADayF
    simp only [ratOps2, ratOps]
    rw [c8, c9, c10, R.exact_int 86400000000000 (by decide)]
    have h500 : R.rnd (((1000 : Int) : ℚ) / 2) = 500 := by
      rw [R.exact_half 1000 (by decide)]; norm_num
    rw [h500]
    have hmm0 : (0 : ℚ) ≤ ((86400000000000 : Int) : ℚ) * jf2 := by push_cast; nlinarith
    obtain ⟨mm1, mm2⟩ := R.toRounding.nonneg _ hmm0
    generalize R.rnd (((86400000000000 : Int) : ℚ) * jf2) = mm at mm1 mm2
    push_cast at mm1 mm2
    have hmmn : (0 : ℚ) ≤ mm := by unfold u53 at *; nlinarith
    have had0 : (0 : ℚ) ≤ mm + 500 := by linarith
    obtain ⟨ad1, ad2⟩ := R.toRounding.nonneg _ had0
    generalize R.rnd (mm + 500) = ad at ad1 ad2
    have hadn : (0 : ℚ) ≤ ad := by unfold u53 at *; linarith
    rw [ratTrunc_nonneg ad hadn]
    have hF1 := Int.floor_le ad
    have hF2 := Int.lt_floor_add_one ad
    generalize ⌊ad⌋ = F at *
    -- wv = v - off plays the role of the whole day
    unfold u53 at *
    have hwv_hi : v - off ≤ D := by
      have : ((v - off : Int) : ℚ) < ((D + 1 : Int) : ℚ) := by push_cast; linarith
      have := Int.cast_lt.mp this
      omega
    have hwv_lo : -1 ≤ v - off := by
      have : ((-2 : Int) : ℚ) < ((v - off : Int) : ℚ) := by push_cast; linarith
      have := Int.cast_lt.mp this
      omega
    have hU1 : (D - (v - off)) * 86400000000000 + k * 1000000000 + 100 ≤ F := by
      have : (((D - (v - off)) * 86400000000000 + k * 1000000000 + 100 : Int) : ℚ) < ((F + 1 : Int) : ℚ) := by
        push_cast; linarith
      have := Int.cast_lt.mp this
      omega
    have hU2 : F ≤ (D - (v - off)) * 86400000000000 + k * 1000000000 + 900 := by
      have : ((F : Int) : ℚ) < (((D - (v - off)) * 86400000000000 + k * 1000000000 + 900 + 1 : Int) : ℚ) := by
        push_cast; linarith
      have := Int.cast_lt.mp this
      omega
    have hcore := fraction_core F ((D - (v - off)) * 86400000000000 + k * 1000000000) (by omega) (by omega) hU1 hU2
    have hfd := fliegel_days s (v - off) hwv_lo (by omega)
    rw [← hoff] at hfd
    have harg : 2400001 + v = 2400001 + off + (v - off) := by omega
    rw [harg]
    unfold instantOf
    simp only []
    rw [hfd]
    obtain ⟨e0, e4, _, _⟩ := epochs_ok
    have hns : nsPerSec = 1000000000 := by decide
    rw [hns]
    cases s
    · simp only [Bool.false_eq_true, if_false] at hcore ⊢
      rw [e0]; omega
    · simp only [if_true] at hcore ⊢
      rw [e4]; omega
  cases s
  · simp only [Bool.false_eq_true, if_false] at key ⊢
    rw [c4]
    have k' := key 15018 rfl
    simp only [ratOps2, ratOps] at k'
    exact k'
  · simp only [if_true] at key ⊢
    rw [c5]
    have k' := key 16480 rfl
    simp only [ratOps2, ratOps] at k'
    exact k'

/-- tolerance of the float-level decoder: 2⁻⁴⁰ day (= `encTol`) up to day 62, 2⁻¹⁹ day above -/
def decTolF (day : Int) : ℚ := if day ≤ 62 then pow2 40 else pow2 19

theorem pow2_19 : pow2 19 = 1 / 524288 := by unfold pow2; norm_num

/-- both paths of the float-level decoder -/
theorem decodeF_both (R : Rounding2) (x : ℚ) (s : Bool) (D k : Int) (hD0 : 0 ≤ D) (hk0 : 0 ≤ k) (hk : k < 86400)
    (hxmax : x ≤ 4194304) (hx : |x - ((D : ℚ) + (k : ℚ) / 86400)| ≤ decTolF D) :
    timeFromExcelTimeF (ratOps2 R) x s = (if s then epoch1904 else epoch1900) + (D * 86400000000000 + k * 1000000000) := by
  by_cases h62 : (62 : ℚ) ≤ x
  · apply decodeF_gregorian R x s D k h62 hxmax hk0 hk
    refine le_trans hx ?_
    unfold decTolF; split
    · rw [pow2_40]; norm_num
    · rw [pow2_19]
  · have hlt : x < 62 := not_le.mp h62
    have hD : D ≤ 62 := by
      by_contra hc
      have hD63 : (63 : ℚ) ≤ (D : ℚ) := by exact_mod_cast (show (63 : Int) ≤ D by omega)
      have hk0q : (0 : ℚ) ≤ (k : ℚ) := by exact_mod_cast hk0
      have ht : decTolF D = pow2 19 := by unfold decTolF; rw [if_neg (by omega)]
      rw [ht, pow2_19] at hx
      have := (abs_le.mp hx).1
      have hkk : (0 : ℚ) ≤ (k : ℚ) / 86400 := by positivity
      linarith
    apply decodeF_julian R x s D k hlt hD0 hk0 hk
    have ht : decTolF D = pow2 40 := by unfold decTolF; rw [if_pos hD]
    rw [ht, pow2_40] at hx
    exact hx

end XlModel.Date.Impl
