/-
Glue lemmas (C19): the default number format chosen for a time value, Duration cells, the
date-system flag.
-/
import XlModel.Lemmas.DateFloatDec

namespace XlModel.Date.Impl
open XlModel XlModel.Date Facts.C19

theorem monthLen_pos (y m : Int) : 1 ≤ monthLen y m := by
  unfold monthLen; split
  · split <;> omega
  · split <;> omega

/-- `t.AddDate(0, 1, 0)` of the first of a month is the first of the next month -/
theorem next_month_first (y m : Int) (h1 : 1 ≤ m) (h12 : m ≤ 12) :
    (civilFromDays (daysFromCivil y (m + 1) 1)).2.2 = 1 := by
  by_cases h : m ≤ 11
  · rw [civil_days_civil y (m + 1) 1 ⟨by omega, by omega, by omega, monthLen_pos y (m + 1)⟩]
  · have hm : m = 12 := by omega
    subst hm
    have : daysFromCivil y (12 + 1) 1 = daysFromCivil (y + 1) 1 1 := by
      unfold daysFromCivil; simp only []; omega
    rw [this, civil_days_civil (y + 1) 1 1 ⟨by omega, by omega, by omega, monthLen_pos (y + 1) 1⟩]

/-- the default number format: 17 (`mmm-yy`) on the first of a month whatever the clock reads,
else 14 (`mm-dd-yy`) at midnight, else 22 (`m/d/yy h:mm`) -/
theorem getTimeNumFmt_eq (c : Civil) (hv : ValidDate c.y c.m c.d) :
    getTimeNumFmt c = if c.d = 1 then 17 else if c.h = 0 ∧ c.mi = 0 ∧ c.s = 0 ∧ c.ns = 0 then 14 else 22 := by
  unfold getTimeNumFmt
  simp only []
  by_cases hd : c.d = 1
  · rw [hd, next_month_first c.y c.m hv.1 hv.2.1]; simp
  · rw [if_neg (fun h => hd h.1), if_neg hd]

/-- Duration cells: a whole-second duration below 2²² s (48.5 days) is identified to the second by
every value within one float32 ulp (relative 2⁻²³) of seconds/86400 -/
theorem duration_nearest_second (k : Int) (x : ℚ) (hk0 : 0 ≤ k) (hk : k < 4194304)
    (hx : |x - durationSerial (k * 1000000000)| ≤ durTol (k * 1000000000)) :
    ⌊x * 86400 + 1 / 2⌋ = k := by
  have hdn : dayNanoseconds = 86400000000000 := durations_ok.1
  have hkq0 : (0 : ℚ) ≤ (k : ℚ) := by exact_mod_cast hk0
  have hkq : (k : ℚ) < 4194304 := by exact_mod_cast hk
  have hs : durationSerial (k * 1000000000) = (k : ℚ) / 86400 := by
    unfold durationSerial; rw [hdn]; push_cast; field_simp; ring
  have ht : durTol (k * 1000000000) = (k : ℚ) / 86400 / 8388608 := by
    unfold durTol
    rw [if_neg (by omega), hs]; unfold pow2; norm_num; ring
  rw [hs, ht] at hx
  obtain ⟨hlo, hhi⟩ := abs_le.mp hx
  rw [Int.floor_eq_iff]
  constructor
  · have : (k : ℚ) / 86400 / 8388608 * 86400 = (k : ℚ) / 8388608 := by field_simp
    nlinarith
  · have : (k : ℚ) / 86400 / 8388608 * 86400 = (k : ℚ) / 8388608 := by field_simp
    nlinarith

/-- … and the bound is of the right order: at 200 days + 1 s a value inside the float32 tolerance
reads two seconds late -/
theorem duration_bound_sharp :
    ∃ x : ℚ, |x - durationSerial (17280001 * 1000000000)| ≤ durTol (17280001 * 1000000000) ∧
      ⌊x * 86400 + 1 / 2⌋ = 17280003 := by
  refine ⟨(17280001 : ℚ) / 86400 * (1 + 1 / 8388608), ?_, ?_⟩
  · have hdn : dayNanoseconds = 86400000000000 := durations_ok.1
    unfold durTol durationSerial
    rw [if_neg (by decide), hdn]; unfold pow2
    rw [abs_le]; constructor <;> norm_num
  · rw [Int.floor_eq_iff]; constructor <;> norm_num

theorem getDurationNumFmt_eq (d : Int) :
    getDurationNumFmt d = if d ≥ 86400000000000 then 46 else if d % 60000000000 = 0 then 20 else 21 := by
  unfold getDurationNumFmt
  have hns : nsPerSec = 1000000000 := by decide
  rw [hns]
  by_cases h : d ≥ 86400000000000
  · rw [if_pos (by omega), if_pos h]
  · rw [if_neg (by omega), if_neg h]
    have : d.tmod (60 * 1000000000) = 0 ↔ d % 60000000000 = 0 := by
      constructor
      · intro hh; exact Int.emod_eq_zero_of_dvd (Int.dvd_of_tmod_eq_zero hh)
      · intro hh; exact Int.tmod_eq_zero_of_dvd (Int.dvd_of_emod_eq_zero hh)
    by_cases h2 : d % 60000000000 = 0
    · rw [if_pos (this.mpr h2), if_pos h2]
    · rw [if_neg (fun hh => h2 (this.mp hh)), if_neg h2]

end XlModel.Date.Impl
